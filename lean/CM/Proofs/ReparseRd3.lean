import CM.Proofs.ReparseRd2
import CM.Proofs.BGCollect
/-
C16, `ParaCloseLocal`, part 3: `collectTextNodes` and `transformLinkReferenceSpan` (the children of a link reference
definition) read the same on `s ++ u` as on `s`.
-/
namespace CM.Proofs.Rp
open CM CM.Model CM.Gen CM.Proofs CM.Proofs.BG

section
variable {s u : Bytes} {b : Nat}

/-- The reader after `currentNode` inside the text. -/
theorem currentNode_ins {r : Rd} (h : RW b r) (hlt : r.pos < b) :
    ∃ (t : Tree) (r1 : Rd) (e : Nat), r.currentNode = (some t, r1) ∧ RW b r1 ∧ r1.pos = r.pos ∧ isIndent t = false ∧
      t.label.stop = (e : Int) ∧ r.pos < e ∧ e ≤ b ∧ r1.currentNode = (some t, r1) := by
  rcases h.sp with ⟨a', hc, h1, h2⟩ | ⟨_, hp⟩
  · obtain ⟨t, rest, s0, e, k1, k2, k3, k4, k5, k6⟩ := currentNode_inside hc h1 h2
    have heb : e ≤ b := by
      obtain ⟨_, _, c, t3, _, t5⟩ := k2
      have := t5.le
      have := t3.symm.trans k4
      omega
    refine ⟨t, { r with spans := t :: rest }, e, k1, ⟨Or.inl ⟨s0, k2, k3, h2⟩, h.pv, h.vp, h.pe⟩, rfl, k6, k4, k5, heb, ?_⟩
    have := currentNode_idem r
    rw [k1] at this
    exact this
  · omega

theorem rnb_eq (hb : b ≤ s.length) {r : Rd} (h : RW b r) (hlt : r.pos < b) :
    r.remainingNodeBytes (s ++ u) = r.remainingNodeBytes s ∧ RW b (r.remainingNodeBytes s).2 ∧
      (r.remainingNodeBytes s).2.pos = r.pos := by
  obtain ⟨t, r1, e, k1, k2, k3, _, k5, k6, k7, _⟩ := currentNode_ins h hlt
  unfold Rd.remainingNodeBytes
  rw [k1]
  simp only
  refine ⟨?_, k2, k3⟩
  rw [k3, k5, Int.toNat_natCast, List.drop_append_of_le_length (by omega), List.take_append_of_le_length]
  rw [List.length_drop]; omega

theorem foldl_next_eq (hb : b ≤ s.length) : ∀ (l : List Nat) (r : Rd), RW b r →
    l.foldl (fun r _ => (r.next (s ++ u)).2) r = l.foldl (fun r _ => (r.next s).2) r ∧
    RW b (l.foldl (fun r _ => (r.next s).2) r) ∧ r.pos ≤ (l.foldl (fun r _ => (r.next s).2) r).pos := by
  intro l
  induction l with
  | nil => intro r h; exact ⟨rfl, h, Nat.le_refl _⟩
  | cons a l ih =>
    intro r h
    simp only [List.foldl_cons]
    rw [nxt_eq hb h]
    obtain ⟨n1, n2, n3⟩ := h.next s
    obtain ⟨e, k1, k2⟩ := ih (r.next s).2 n1
    refine ⟨e, k1, Nat.le_trans ?_ k2⟩
    cases hok : (r.next s).1 with
    | true => have := (n2 hok).2.1; omega
    | false => rw [(n3 hok).1]; exact h.pos_le

variable (ext : Ext) (stop textKind : Nat) (escapes : Bool)

/-- The statement for one pair of fuels. -/
def CT (s u : Bytes) (b : Nat) (g1 g2 : Nat) : Prop :=
  ∀ (r : Rd) (ps : Nat) (acc : List Tree), RW b r → (r.pos < stop → r.pos < b) → b - r.pos < g1 → b - r.pos < g2 →
    collectTextNodes ext (s ++ u) stop textKind escapes g1 r ps acc = collectTextNodes ext s stop textKind escapes g2 r ps acc

theorem goFn_two (hb : b ≤ s.length) (g1 g2 : Nat) (ih : CT ext stop textKind escapes s u b g1 g2) (r : Rd) (ps : Nat)
    (acc : List Tree) (h : RW b r) (h1 : b - r.pos ≤ g1) (h2 : b - r.pos ≤ g2) :
    goFn ext (s ++ u) stop textKind escapes g1 r ps acc = goFn ext s stop textKind escapes g2 r ps acc := by
  unfold goFn
  split
  · rfl
  · rw [nxt_eq hb h]
    obtain ⟨n1, n2, _⟩ := h.next s
    rcases hn : r.next s with ⟨ok, r1⟩
    rw [hn] at n1 n2
    simp only at n1 n2 ⊢
    cases ok with
    | false => rfl
    | true =>
      obtain ⟨m1, m2, _, m4⟩ := n2 rfl
      simp only [Bool.not_true, Bool.false_eq_true, if_false]
      split
      · exact ih r1 _ _ n1 (fun _ => m4) (by omega) (by omega)
      · exact ih r1 _ _ n1 (fun _ => m4) (by omega) (by omega)

set_option maxHeartbeats 400000 in
theorem collectStep_two (hb : b ≤ s.length) (g1 g2 : Nat) (ih : CT ext stop textKind escapes s u b g1 g2) (cn : Tree) (r : Rd)
    (ps : Nat) (acc : List Tree) (h : RW b r) (hlt : r.pos < b) (h1 : b - r.pos ≤ g1) (h2 : b - r.pos ≤ g2) :
    collectTextNodes.collectStep ext (s ++ u) stop textKind escapes cn r ps acc g1 =
      collectTextNodes.collectStep ext s stop textKind escapes cn r ps acc g2 := by
  have go := goFn_two (u := u) ext stop textKind escapes hb g1 g2 ih
  rw [collectTextNodes.collectStep.eq_1, collectTextNodes.collectStep.eq_1]
  split
  · rw [cur_eq hb hlt]
    obtain ⟨c1, c2, _⟩ := h.current s hb
    generalize r.current s = cu at c1 c2
    obtain ⟨c, r1⟩ := cu
    simp only [] at c1 c2 ⊢
    split
    · -- backslash
      rw [nxt_eq hb c1]
      obtain ⟨n1, n2, n3⟩ := c1.next s
      rcases hn : r1.next s with ⟨ok, r2⟩
      rw [hn] at n1 n2 n3
      simp only at n1 n2 n3 ⊢
      have hpos2 : r.pos ≤ r2.pos := by
        cases ok with
        | true => have := (n2 rfl).2.1; omega
        | false => rw [(n3 rfl).1]; omega
      have hcu : (if ok = true then Rd.current (s ++ u) r2 else (0, r2)) = (if ok = true then Rd.current s r2 else (0, r2)) := by
        cases ok with
        | true => simp only [if_true]; exact cur_eq hb (n2 rfl).2.2.2
        | false => rfl
      rw [hcu]
      have hr3 : RW b (if ok = true then Rd.current s r2 else (0, r2)).2 ∧
          (if ok = true then Rd.current s r2 else (0, r2)).2.pos = r2.pos := by
        split
        · obtain ⟨d1, d2, _⟩ := n1.current s hb
          exact ⟨d1, d2⟩
        · exact ⟨n1, rfl⟩
      generalize (if ok = true then Rd.current s r2 else (0, r2)) = cu2 at hr3
      obtain ⟨c2', r3⟩ := cu2
      simp only at hr3 ⊢
      split
      · exact go r3 _ _ hr3.1 (by rw [hr3.2]; omega) (by rw [hr3.2]; omega)
      · exact go r3 _ _ hr3.1 (by rw [hr3.2]; omega) (by rw [hr3.2]; omega)
    · split
      · -- ampersand
        obtain ⟨e1, e2, e3⟩ := rnb_eq (u := u) hb c1 (by rw [c2]; exact hlt)
        rw [e1]
        rcases hrb : r1.remainingNodeBytes s with ⟨rest, r2⟩
        rw [hrb] at e2 e3
        simp only at e2 e3 ⊢
        split
        · rename_i e he
          obtain ⟨f1, f2, f3⟩ := foldl_next_eq (u := u) hb (List.range (e - 1)) r2 e2
          rw [f1]
          generalize List.foldl (fun r x => (Rd.next s r).snd) r2 (List.range (e - 1)) = r3 at f2 f3
          rw [nxt_eq hb f2]
          obtain ⟨n1, n2, _⟩ := f2.next s
          rcases hn : r3.next s with ⟨ok, r4⟩
          rw [hn] at n1 n2
          simp only at n1 n2 ⊢
          cases ok with
          | false => rfl
          | true =>
            obtain ⟨m1, m2, _, m4⟩ := n2 rfl
            simp only [Bool.not_true, Bool.false_eq_true, if_false]
            exact ih r4 _ _ n1 (fun _ => m4) (by omega) (by omega)
        · exact go r2 _ _ e2 (by omega) (by omega)
      · exact go r1 _ _ c1 (by omega) (by omega)
  · exact go r _ _ h h1 h2

theorem collectTextNodes_two (hb : b ≤ s.length) : ∀ g1 g2 : Nat, CT ext stop textKind escapes s u b g1 g2 := by
  intro g1
  induction g1 with
  | zero => intro g2 r _ _ h _ h1 _; omega
  | succ g1 ih =>
    intro g2 r ps acc h hst h1 h2
    obtain ⟨g2, rfl⟩ : ∃ g, g2 = g + 1 := ⟨g2 - 1, by omega⟩
    rw [collectTextNodes.eq_2, collectTextNodes.eq_2]
    split
    · rfl
    · rename_i hlt
      have hlt' : r.pos < stop := by simpa using hlt
      have hin := hst hlt'
      obtain ⟨t, r1, e, k1, k2, k3, k4, _⟩ := currentNode_ins h hin
      rw [k1]
      simp only [k4, Bool.false_eq_true, if_false]
      exact collectStep_two (u := u) ext stop textKind escapes hb g1 g2 (ih g2) t r1 ps acc k2 (by omega) (by omega) (by omega)

/-- `refTextLoop` (the text of a label, for the reference key). -/
theorem refTextLoop_two (hb : b ≤ s.length) : ∀ (f1 f2 : Nat) (r : Rd) (inWs : Bool) (acc : Bytes), RW b r →
    (r.pos < stop → r.pos < b) → b - r.pos < f1 → b - r.pos < f2 →
    refTextLoop (s ++ u) stop f1 r inWs acc = refTextLoop s stop f2 r inWs acc := by
  intro f1
  induction f1 with
  | zero => intro f2 r _ _ h _ h1 _; omega
  | succ f1 ih =>
    intro f2 r inWs acc h hst h1 h2
    obtain ⟨f2, rfl⟩ : ∃ g, f2 = g + 1 := ⟨f2 - 1, by omega⟩
    simp only [refTextLoop]
    split
    · rfl
    · rename_i hlt
      have hlt' : r.pos < stop := by simpa using hlt
      have hin := hst hlt'
      rw [cur_eq hb hin]
      obtain ⟨c1, c2, _⟩ := h.current s hb
      rcases hc : r.current s with ⟨c, r1⟩
      rw [hc] at c1 c2
      simp only at c1 c2 ⊢
      rw [nxt_eq hb c1]
      obtain ⟨n1, n2, _⟩ := c1.next s
      rcases hn : r1.next s with ⟨ok, r2⟩
      rw [hn] at n1 n2
      simp only at n1 n2 ⊢
      cases ok with
      | false => rfl
      | true =>
        obtain ⟨m1, m2, _, m4⟩ := n2 rfl
        simp only [Bool.not_true, Bool.false_eq_true, if_false]
        split
        · exact ih f2 r2 _ _ n1 (fun _ => m4) (by omega) (by omega)
        · exact ih f2 r2 _ _ n1 (fun _ => m4) (by omega) (by omega)

end

end CM.Proofs.Rp
