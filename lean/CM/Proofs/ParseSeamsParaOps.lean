import CM.Proofs.ParseSeamsParaDef
import CM.Proofs.RefDefCoverTStarts2
/-
C17 (b) for parser output, part 11 (block phase, second invariant): closing blocks and the operations of the line parser
under

    `GP S p`  :=  the source is `S`, the line is `S.drop lineStart`, the start of the line follows a line ending,
                  the container is not an ATX heading, `PP S p.root`.

A block is closed at a position `e`; a setext heading that is closed leaves an *orphan* paragraph whose text node ends at
`e` — so `e` has to follow a line ending or be the end of the source (`EolEnd S e ∨ AtEnd S e`), except when the block
closed is a leaf that is no paragraph (the list marker, closed in the middle of its line).
-/
namespace CM.Proofs.PS
open CM CM.Model CM.Gen CM.Spec
open CM.Proofs.BT CM.Proofs.BG CM.Proofs.PW

variable {x : PExt} {S : Bytes}

/-! ### closing blocks -/

theorem isIndent_mkInline_unparsed (a b : Int) : isIndent (mkInline IK.unparsed a b) = false := by
  unfold isIndent Node.isI mkInline
  rfl

/-- `onCloseParagraph` on a paragraph / setext heading closed at `l.stop`. -/
theorem onCloseParagraph_PP (x : PExt) (src : Bytes) (l : PLabel) (bs : List PB) (is : List Tree)
    (hk : l.kind = BK.paragraph ∨ l.kind = BK.setextHeading) (his : ParaOK S is) (hbs : ∀ c ∈ bs, PP S c)
    (hstop : l.kind = BK.setextHeading → EolEnd S l.stop ∨ AtEnd S l.stop) :
    AllP S (onCloseParagraph x src (.mk l bs is)) := by
  cases is with
  | nil =>
    rw [onCloseParagraph]
    apply AllP.single
    rw [PP_mk]
    refine ⟨⟨fun ha => ?_, fun _ => his, fun ha => ?_⟩, hbs⟩
    · rcases hk with hk | hk <;> (rw [hk] at ha; exact absurd ha (by decide))
    · rcases hk with hk | hk <;> (rw [hk] at ha; exact absurd ha (by decide))
  | cons first rest =>
    unfold onCloseParagraph
    simp only []
    apply refDefLoop_PP x src _ _ _ _ _ _ hk ?_ his AllP.nil
    intro o ho
    split at ho
    · rename_i hsx
      have hsx' : l.kind = BK.setextHeading := by simpa using hsx
      simp only [Option.some.injEq] at ho
      subst ho
      apply AllP.single
      unfold mkPB
      rw [PP_mk]
      refine ⟨⟨fun _ => rfl, fun _ t ht => ?_, fun ha => absurd (show BK.paragraph = BK.atxHeading from ha) (by decide)⟩,
        fun _ hb => by cases hb⟩
      rw [List.mem_singleton] at ht
      subst ht
      refine ⟨fun hi => ?_, fun _ => hstop hsx'⟩
      rw [isIndent_mkInline_unparsed] at hi; cases hi
    · cases ho

theorem closeLast_PP (x : PExt) (S : Bytes) (e : Int) {l l' : PLabel} {bs : List PB} {is : List Tree}
    (hk : l'.kind = l.kind) (h : PP S (.mk l bs is)) (ih : ∀ c ∈ bs, PP S c → AllP S (closeBlock x S e c)) :
    PP S (.mk l' (closeLast x S e bs) is) := by
  have h' : PP S (.mk l' bs is) := PP_relabel hk h
  cases hgl : bs.getLast? with
  | none => rw [closeLast_none x S e bs hgl]; exact h'
  | some c =>
    rw [closeLast_some x S e bs c hgl]
    have hcm : c ∈ bs := List.mem_of_getLast? hgl
    exact PP_replaceLast (ne_nil_of_getLast? hgl) h' (ih c hcm (((PP_mk l bs is).1 h).2 c hcm))

/-- Closing a block at a position that follows a line ending or ends the source. -/
theorem closeBlock_PP (x : PExt) (S : Bytes) (e : Int) (he : EolEnd S e ∨ AtEnd S e) :
    ∀ b : PB, PP S b → AllP S (closeBlock x S e b) := by
  apply PB.ind
  intro l bs is ih h
  rw [closeBlock]
  split
  · exact AllP.single h
  simp only []
  split
  · split
    · apply AllP.single
      have h1 : PP S (.mk { l with stop := e, loose := true } (closeLast x S e bs) is) := closeLast_PP x S e rfl h ih
      rw [PP_mk] at h1 ⊢
      refine ⟨?_, ?_⟩
      · rename_i hlist _
        have hl : l.kind = BK.list := by simpa using hlist
        exact BlockP.other (by show l.kind ≠ _; rw [hl]; decide) (by show l.kind ≠ _; rw [hl]; decide)
          (by show l.kind ≠ _; rw [hl]; decide)
      · intro b hb
        rw [List.mem_map] at hb
        obtain ⟨c, hc, rfl⟩ := hb
        exact PP_setLabel (fun il => { il with loose := true }) (fun _ => rfl) (h1.2 c hc)
    · exact AllP.single (closeLast_PP x S e rfl h ih)
  split
  · rename_i hp
    have hk : l.kind = BK.paragraph ∨ l.kind = BK.setextHeading := by simpa using hp
    rw [PP_mk] at h
    exact onCloseParagraph_PP x S _ bs is hk (h.1.2.1 hk) h.2 (fun _ => he)
  split
  · rename_i hc
    have hcode : l.kind = BK.indentedCode := by simpa using hc
    obtain ⟨is', heq, _⟩ := indentedOnClose_eq S { l with stop := e } bs is
    rw [heq]
    apply AllP.single
    rw [PP_mk] at h ⊢
    exact ⟨BlockP.other (by show l.kind ≠ _; rw [hcode]; decide) (by show l.kind ≠ _; rw [hcode]; decide)
      (by show l.kind ≠ _; rw [hcode]; decide), h.2⟩
  · exact AllP.single (closeLast_PP x S e rfl h ih)

/-- Closing a leaf that is no paragraph: any position. -/
theorem closeBlock_PP_leaf (x : PExt) (S : Bytes) (e : Int) (l : PLabel) (is : List Tree)
    (h1 : l.kind ≠ BK.paragraph) (h2 : l.kind ≠ BK.setextHeading) (h : PP S (.mk l [] is)) :
    AllP S (closeBlock x S e (.mk l [] is)) := by
  rw [closeBlock]
  split
  · exact AllP.single h
  simp only []
  split
  · split
    · apply AllP.single
      rw [closeLast]
      exact PP_relabel rfl h
    · rw [closeLast]; exact AllP.single (PP_relabel rfl h)
  split
  · rename_i hp
    have hk : l.kind = BK.paragraph ∨ l.kind = BK.setextHeading := by simpa using hp
    rcases hk with hk | hk
    · exact absurd hk h1
    · exact absurd hk h2
  split
  · rename_i hc
    have hcode : l.kind = BK.indentedCode := by simpa using hc
    obtain ⟨is', heq, _⟩ := indentedOnClose_eq S { l with stop := e } [] is
    rw [heq]
    apply AllP.single
    rw [PP_mk]
    exact ⟨BlockP.other (by show l.kind ≠ _; rw [hcode]; decide) (by show l.kind ≠ _; rw [hcode]; decide)
      (by show l.kind ≠ _; rw [hcode]; decide), fun _ hb => by cases hb⟩
  · rw [closeLast]; exact AllP.single (PP_relabel rfl h)

theorem replaceLastFn_PP (g : PB → List PB) (c : PB) (h : PP S c)
    (hg : ∀ c0, c.blocks.getLast? = some c0 → PP S c0 → AllP S (g c0)) : PP S (replaceLastFn g c) := by
  obtain ⟨l, bs, is⟩ := c
  simp only [replaceLastFn]
  cases hgl : bs.getLast? with
  | none => exact h
  | some c0 =>
    simp only []
    exact PP_replaceLast (ne_nil_of_getLast? hgl) h (hg c0 hgl (((PP_mk l bs is).1 h).2 c0 (List.mem_of_getLast? hgl)))

theorem spineReplaceLast_PP (x : PExt) (S : Bytes) (e : Int) (he : EolEnd S e ∨ AtEnd S e) (root : PB) (d : Nat)
    (h : PP S root) : PP S (spineReplaceLast (closeBlock x S e) root d) := by
  rw [BT.spineReplaceLast_eq]
  exact PP_spineModify _ d root h (fun c _ hc => replaceLastFn_PP _ c hc (fun c0 _ h0 => closeBlock_PP x S e he c0 h0))

theorem headD_PP (x : PExt) (S : Bytes) (e : Int) (he : EolEnd S e ∨ AtEnd S e) (root : PB) (h : PP S root) :
    PP S ((closeBlock x S e root).headD root) := by
  have r := closeBlock_PP x S e he root h
  cases hc : closeBlock x S e root with
  | nil => exact h
  | cons a rest => exact r a (by rw [hc]; exact List.mem_cons_self ..)

/-! ### the invariant of the line parser -/

/-- Without the clause on the container. -/
structure GP0 (S : Bytes) (p : LP) : Prop where
  source : p.source = S
  line : p.line = S.drop p.lineStart
  lsle : p.lineStart ≤ S.length
  lsOK : EolEnd S p.lineStart ∨ AtEnd S p.lineStart
  good : PP S p.root

structure GP (S : Bytes) (p : LP) : Prop extends GP0 S p where
  nk : p.containerKind ≠ BK.atxHeading

theorem GP0.lend {p : LP} (h : GP0 S p) : p.lineStart + p.line.length = S.length := by
  rw [h.line, List.length_drop]; have := h.lsle; omega

theorem GP0.of_fr {p q : LP} (h : GP0 S p) (e : RDS.fr q = RDS.fr p) : GP0 S q := by
  simp only [RDS.fr, Prod.mk.injEq] at e
  obtain ⟨e1, e2, e3, e4, _⟩ := e
  exact ⟨by rw [e1]; exact h.source, by rw [e2, e3]; exact h.line, by rw [e2]; exact h.lsle,
    by rw [e2]; exact h.lsOK, by rw [e4]; exact h.good⟩

theorem GP.of_fr {p q : LP} (h : GP S p) (e : RDS.fr q = RDS.fr p) : GP S q :=
  ⟨h.toGP0.of_fr e, by rw [RDS.fr_containerKind e]; exact h.nk⟩

theorem GP0.setState {p : LP} (h : GP0 S p) (s : Nat) : GP0 S { p with state := s } :=
  ⟨h.source, h.line, h.lsle, h.lsOK, h.good⟩
theorem GP.setState {p : LP} (h : GP S p) (s : Nat) : GP S { p with state := s } := ⟨h.toGP0.setState s, h.nk⟩
theorem GP0.setDepth {p : LP} (h : GP0 S p) (d : Nat) : GP0 S { p with depth := d } :=
  ⟨h.source, h.line, h.lsle, h.lsOK, h.good⟩
theorem GP0.setRoot {p : LP} (h : GP0 S p) {r : PB} (hr : PP S r) (d : Nat) : GP0 S { p with root := r, depth := d } :=
  ⟨h.source, h.line, h.lsle, h.lsOK, hr⟩

/-- The position where the line ends. -/
theorem GP0.atEnd_line {p : LP} (h : GP0 S p) : AtEnd S ((p.lineStart : Int) + (p.line.length : Int)) := by
  left; have := h.lend; omega

/-- The kind of the block above the container is not ATX: it has a block child. -/
theorem parent_not_atx {p : LP} (hT : TreeOK p) (hp : PP S p.root) (hd : 0 < p.depth) :
    ∀ l, labelAt p.root (p.depth - 1) = some l → l.kind ≠ BK.atxHeading := by
  intro l hl hk
  have hv := hT.valid
  have e : p.depth = (p.depth - 1) + 1 := by omega
  rw [e, BSp.spineGet_succ_eq] at hv
  cases hb : spineGet p.root (p.depth - 1) with
  | none => rw [hb] at hv; cases hv
  | some b =>
    rw [hb] at hv
    simp only [labelAt, hb, Option.map_some, Option.some.injEq] at hl
    have hpb := PP_spineGet _ _ _ hp hb
    obtain ⟨lb, bs, is⟩ := b
    simp only [PB.label] at hl
    subst hl
    rw [PP_mk] at hpb
    have := hpb.1.1 hk
    subst this
    simp [PB.blocks] at hv

/-! ### closing -/

theorem closeContainer_GP0 (p : LP) (e : Int) (he : EolEnd S e ∨ AtEnd S e) (h : GP0 S p) :
    GP0 S (p.closeContainer x e) := by
  unfold LP.closeContainer
  split
  · refine ⟨h.source, h.line, h.lsle, h.lsOK, ?_⟩
    show PP S ((closeBlock x p.source e p.root).headD p.root)
    rw [h.source]; exact headD_PP x S e he p.root h.good
  · refine ⟨h.source, h.line, h.lsle, h.lsOK, ?_⟩
    show PP S (spineReplaceLast (closeBlock x p.source e) p.root (p.depth - 1))
    rw [h.source]; exact spineReplaceLast_PP x S e he p.root _ h.good

/-- After `closeContainer` the container is not an ATX heading. -/
theorem closeContainer_nk (p : LP) (e : Int) (hT : TreeOK p) (hp : PP S p.root) :
    (p.closeContainer x e).containerKind ≠ BK.atxHeading := by
  have cc := closeContainer_post x p e hT
  by_cases hd : p.depth = 0
  · have hd' : (p.closeContainer x e).depth = 0 := by rw [cc.depth, hd]
    rw [containerKind_zero _ hd', cc.ok.root]; decide
  · have hl := cc.label (by omega)
    cases hlb : labelAt p.root (p.depth - 1) with
    | none =>
      exfalso
      have := spineGet_isSome_of_le p.depth p.root (p.depth - 1) (by omega) hT.valid
      simp only [labelAt] at hlb
      cases hs : spineGet p.root (p.depth - 1) with
      | none => rw [hs] at this; cases this
      | some b => rw [hs] at hlb; cases hlb
    | some l =>
      rw [hlb] at hl
      rw [containerKind_of_labelAt _ l hl]
      exact parent_not_atx hT hp (by omega) l hlb

theorem closeContainer_GP (p : LP) (e : Int) (hT : TreeOK p) (he : EolEnd S e ∨ AtEnd S e) (h : GP S p) :
    GP S (p.closeContainer x e) :=
  ⟨closeContainer_GP0 p e he h.toGP0, closeContainer_nk p e hT h.good⟩

theorem closeLastChild_GP0 (p : LP) (e : Int) (he : EolEnd S e ∨ AtEnd S e) (h : GP0 S p) :
    GP0 S (p.closeLastChild x e) := by
  refine ⟨h.source, h.line, h.lsle, h.lsOK, ?_⟩
  show PP S (spineReplaceLast (closeBlock x p.source e) p.root p.depth)
  rw [h.source]; exact spineReplaceLast_PP x S e he p.root _ h.good

theorem closeLastChild_GP (p : LP) (e : Int) (hT : TreeOK p) (he : EolEnd S e ∨ AtEnd S e) (h : GP S p) :
    GP S (p.closeLastChild x e) :=
  ⟨closeLastChild_GP0 p e he h.toGP0, by rw [closeLastChild_containerKind x p e hT]; exact h.nk⟩

theorem treeOK_setPanic {p : LP} (hT : TreeOK p) (m : String) : TreeOK (p.setPanic m) := by
  have := RDS.fr_setPanic p m
  simp only [RDS.fr, Prod.mk.injEq] at this
  exact ⟨by rw [this.2.2.2.1]; exact hT.root, by rw [this.2.2.2.1, this.2.2.2.2]; exact hT.valid⟩

theorem openBlockLoop_GP (kind : Nat) : ∀ (fuel : Nat) (p : LP), TreeOK p → GP S p →
    GP S (LP.openBlockLoop x kind fuel p) ∧ TreeOK (LP.openBlockLoop x kind fuel p) := by
  intro fuel
  induction fuel with
  | zero => intro p hT h; exact ⟨h, hT⟩
  | succ fuel ih =>
    intro p hT h
    unfold LP.openBlockLoop
    split
    · exact ⟨h, hT⟩
    · split
      · exact ⟨h.of_fr (RDS.fr_setPanic p _), treeOK_setPanic hT _⟩
      · exact ih _ (closeContainer_post x p p.lineStart hT).ok (closeContainer_GP p _ hT h.lsOK h)

/-! ### opening -/

theorem BlockP_nil (l : PLabel) : BlockP S l [] [] :=
  ⟨fun _ => rfl, fun _ t ht => (by cases ht), fun _ => ⟨fun t ht => (by cases ht), fun t ht => (by cases ht)⟩⟩

/-- `openBlock`: the new block has no children. (The clause on the container is lost if the new block is an ATX
    heading.) -/
theorem openBlock_GP0 (p : LP) (kind : Nat) (attrs : PLabel → PLabel) (hT : TreeOK p) (h : GP S p) :
    GP0 S (p.openBlock x kind attrs) := by
  unfold LP.openBlock
  split
  · exact h.toGP0.of_fr (RDS.fr_setPanic p _)
  · simp only []
    have h1 : GP S p.markMatched := h.of_fr (RDS.fr_markMatched p)
    have hT1 : TreeOK p.markMatched := TreeOK.of_tree (by rw [markMatched_eq]; rfl) hT
    obtain ⟨h2, hT2⟩ := openBlockLoop_GP (x := x) kind (p.markMatched.depth + 1) _ hT1 h1
    have h3 := closeLastChild_GP (x := x) _ (LP.openBlockLoop x kind (p.markMatched.depth + 1) p.markMatched).lineStart
      hT2 h2.lsOK h2
    refine ⟨h3.source, h3.line, h3.lsle, h3.lsOK, ?_⟩
    refine PP_spineModify _ _ _ h3.good ?_
    intro c hcg hcp
    obtain ⟨l, bs, is⟩ := c
    simp only []
    rw [PP_mk] at hcp ⊢
    have hck : l.kind ≠ BK.atxHeading := by
      have := BSp.kind_of_container (p := (LP.openBlockLoop x kind (p.markMatched.depth + 1) p.markMatched).closeLastChild x
        (LP.openBlockLoop x kind (p.markMatched.depth + 1) p.markMatched).lineStart) hcg
      have e : _ = l.kind := this
      rw [← e]; exact h3.nk
    refine ⟨⟨fun ha => absurd ha hck, hcp.1.2.1, fun ha => absurd ha hck⟩, ?_⟩
    intro b hb
    rcases List.mem_append.1 hb with hb | hb
    · exact hcp.2 b hb
    · simp only [List.mem_singleton] at hb
      subst hb
      rw [PP_mk]
      exact ⟨BlockP_nil _, fun _ hb => by cases hb⟩

theorem openBlock_GP (p : LP) (kind : Nat) (attrs : PLabel → PLabel) (hattr : ∀ l, (attrs l).kind = l.kind)
    (hk : kind ≠ BK.atxHeading) (hI : BT.Inv p) (hst : p.state ≤ 2)
    (hc : kind ≠ BK.listItem ∨ canContain p.containerKind kind = true) (h : GP S p) :
    GP S (p.openBlock x kind attrs) :=
  ⟨openBlock_GP0 p kind attrs hI.tree h, by rw [(openBlock_inv x p kind attrs hattr hI hst hc).ckind]; exact hk⟩

/-! ### modifying the container -/

theorem modifyContainer_GP0 (p : LP) (f : PB → PB)
    (hf : ∀ c, spineGet p.root p.depth = some c → PP S c → PP S (f c)) (h : GP0 S p) : GP0 S (p.modifyContainer f) :=
  ⟨h.source, h.line, h.lsle, h.lsOK, PP_spineModify f _ _ h.good hf⟩

theorem containerKind_modify (p : LP) (f : PB → PB) (hk : ∀ c, (f c).kind = c.kind) (hT : TreeOK p) :
    (p.modifyContainer f).containerKind = p.containerKind := by
  show PB.kind ((spineGet (spineModify f p.root p.depth) p.depth).getD _) = PB.kind ((spineGet p.root p.depth).getD _)
  rw [spineGet_modify_self]
  cases hs : spineGet p.root p.depth with
  | none => have := hT.valid; rw [hs] at this; cases this
  | some c => simp [hk]

theorem setContainerIndent_GP (p : LP) (n : Int) (hT : TreeOK p) (h : GP S p) : GP S (p.setContainerIndent n) := by
  unfold LP.setContainerIndent
  split
  · exact h.of_fr (RDS.fr_setPanic p _)
  · split
    · exact h.of_fr (RDS.fr_setPanic p _)
    · refine ⟨modifyContainer_GP0 p _ (fun c _ hc => PP_setLabel (fun l => { l with indent := n }) (fun _ => rfl) hc) h.toGP0, ?_⟩
      rw [containerKind_modify p _ (fun c => by obtain ⟨l, bs, is⟩ := c; rfl) hT]
      exact h.nk

/-- Appending an inline node that satisfies the rule of paragraphs. -/
theorem appendInline_GP (p : LP) (t : Tree) (ht : NodeP S t) (hT : TreeOK p) (h : GP S p) : GP S (p.appendInline t) := by
  refine ⟨?_, by rw [appendInline_containerKind p t hT]; exact h.nk⟩
  rw [BG.appendInline_eq]
  refine modifyContainer_GP0 p _ ?_ h.toGP0
  intro c hcg hcp
  obtain ⟨l, bs, is⟩ := c
  simp only [BG.appendInl]
  rw [PP_mk] at hcp ⊢
  have hck : l.kind ≠ BK.atxHeading := by
    have e : p.containerKind = l.kind := BSp.kind_of_container (p := p) hcg
    rw [← e]; exact h.nk
  refine ⟨⟨fun ha => absurd ha hck, fun hk u hu => ?_, fun ha => absurd ha hck⟩, hcp.2⟩
  rcases List.mem_append.1 hu with hu | hu
  · exact hcp.1.2.1 hk u hu
  · rw [List.mem_singleton] at hu; subst hu; exact ht

/-- Appending any inline node to a container that is neither a paragraph nor a heading. -/
theorem appendInline_GP_free (p : LP) (t : Tree) (hk1 : p.containerKind ≠ BK.paragraph)
    (hk2 : p.containerKind ≠ BK.setextHeading) (hT : TreeOK p) (h : GP S p) : GP S (p.appendInline t) := by
  refine ⟨?_, by rw [appendInline_containerKind p t hT]; exact h.nk⟩
  rw [BG.appendInline_eq]
  refine modifyContainer_GP0 p _ ?_ h.toGP0
  intro c hcg hcp
  obtain ⟨l, bs, is⟩ := c
  simp only [BG.appendInl]
  rw [PP_mk] at hcp ⊢
  have hck := BSp.kind_of_container (p := p) hcg
  have e : p.containerKind = l.kind := hck
  exact ⟨BlockP.other (by rw [← e]; exact hk1) (by rw [← e]; exact hk2) (by rw [← e]; exact h.nk), hcp.2⟩

end CM.Proofs.PS
