import CM.Proofs.BlocksSpansLine
/-
C02, block half — `openNewBlocks` and `processLine`: one line of the block phase keeps valid spans.
-/
namespace CM.Proofs.BSp
open CM CM.Model CM.Gen CM.Proofs.BT

/-- Valid spans up to `E`, and the (document) root is still open. -/
def FinOK (E : Int) (root : PB) : Prop := PBSpans QT 0 E root ∧ root.label.stop < 0

/-- After the opening loop: the text of the line goes into the tree. -/
theorem addLineText_of_olp {Q : ParaPred} (x : PExt) (p0 q : LP) (hq : BT.Inv q) (hst : acceptsLines q.containerKind = false → q.state ≤ 2)
    (hqt : MI QT q) (hfull : MI Q q ∧ Below Q q) (hchain : ChainAbove q.lineStart q.depth q.root ∧ (ChainAt q ∨ AL q))
    (hsrc : q.source = p0.source) (hls : q.lineStart = p0.lineStart) (hline : q.line = p0.line)
    (hL : CloseParaOK Q x p0.source p0.lineStart) : FinOK (lineEnd p0) (addLineText x q).root := by
  unfold FinOK
  rw [← lineEnd_eq hls hline]
  cases hk : acceptsLines q.containerKind
  · have hat : ChainAt q := by
      rcases hchain.2 with h' | h'
      · exact h'
      · rw [h'.1] at hk; cases hk
    exact addLineText_spans_B x q hq hk (hst hk) hfull.1 hfull.2 hchain.1 hat (by rw [hsrc, hls]; exact hL)
  · exact addLineText_spans_A x q hq hk hqt

theorem final_of_mi {p0 q : LP} (h : MI QT q) (hls : q.lineStart = p0.lineStart) (hline : q.line = p0.line) :
    FinOK (lineEnd p0) q.root := by
  rw [← lineEnd_eq hls hline]
  exact ⟨PBSpans_mono' (Int.le_refl _) (curPos_le_lineEnd h.ile) h.base, h.sopen.root_open⟩

/-- The states after the descent (not terminated) satisfy the pre-condition of the opening loop. -/
theorem lpre_of_descent {Q : ParaPred} {x : PExt} (p p1 : LP) (h1 : BT.Inv p1) (hroot : PBSpans Q 0 p.lineStart p.root)
    (hL : CloseParaOK Q x p.source p.lineStart) (hS : SetextOK Q x p.source (lineEnd p))
    (e1 : p1.root = p.root) (e2 : p1.source = p.source) (e3 : p1.lineStart = p.lineStart) (e4 : p1.line = p.line)
    (hso : SpineOpen p1.root p1.depth) : LPre Q x p1 := by
  have hroot1 : PBSpans Q 0 p1.lineStart p1.root := by rw [e1, e3]; exact hroot
  have hmi : MI Q p1 := ⟨PBSpans_mono' (Int.le_refl _) (lineStart_le_curPos p1) hroot1, hso, h1.cur.hi⟩
  refine ⟨hmi, ?_, ChainAbove_of_spans _ _ _ hroot1, ?_, by rw [e2, e3]; exact hL, by rw [e2, lineEnd_eq e3 e4]; exact hS⟩
  · intro c hc _
    obtain ⟨lo', hlo', hsp⟩ := spineGet_spans (p1.depth + 1) p1.root 0 c hroot1 hc
    exact PBSpans_mono' hlo' (Int.le_refl _) hsp
  · left; right
    obtain ⟨b, hb, _, hbc⟩ := hmi.container_open
    obtain ⟨lo', _, hsp⟩ := spineGet_spans p1.depth p1.root 0 b hroot1 hb
    rw [hbc]
    exact CEL_of_spans hsp

/-- What `openNewBlocks` (followed by `addLineText` when there is text) guarantees. -/
def ONS (x : PExt) (E : Int) (ne : Prop) (r : Bool × LP) : Prop :=
  (r.1 = true → FinOK E (addLineText x r.2).root) ∧
  (r.1 = false → PBSpans QT 0 E r.2.root ∧ (ne → r.2.root.label.stop < 0))

theorem ONS.of {x : PExt} {E : Int} {ne : Prop} {b : Bool} {q : LP} (h1 : b = true → FinOK E (addLineText x q).root)
    (h2 : FinOK E q.root) : ONS x E ne (b, q) := ⟨h1, fun _ => ⟨h2.1, fun _ => h2.2⟩⟩

theorem openNewBlocks_spans {Q : ParaPred} (x : PExt) (p p1 : LP) (allMatched : Bool) (di : BT.Inv p1)
    (hroot : PBSpans Q 0 p.lineStart p.root) (hL : CloseParaOK Q x p.source p.lineStart) (lpre : LPre Q x p1)
    (e1 : p1.root = p.root) (e2 : p1.source = p.source) (e3 : p1.lineStart = p.lineStart) (e4 : p1.line = p.line)
    (ham : allMatched = false → ∃ c, spineGet p1.root (p1.depth + 1) = some c ∧ c.isOpen = true) :
    ONS x (lineEnd p) (p1.line.isEmpty = false) (openNewBlocks x p1 allMatched) := by
  unfold openNewBlocks
  split
  · -- end of input: close the document
    rename_i hemp
    refine ⟨fun h' => Bool.noConfusion h', fun _ => ⟨?_, fun hne => by rw [hemp] at hne; cases hne⟩⟩
    have hcl := closeBlock_spans (x := x) (src := p1.source) (Int.natCast_nonneg p1.lineStart) (by rw [e2, e3]; exact hL) p1.root
      (by rw [e1, e3]; exact hroot)
    show PBSpans QT 0 (lineEnd p) (({ p1 with depth := 0 } : LP).closeContainer x p1.lineStart).root
    unfold LP.closeContainer
    simp only [beq_self_eq_true, if_true]
    refine PBSpans_mono' (hi := (p1.lineStart : Int)) (Int.le_refl _) (by rw [e3]; exact lineStart_le_lineEnd p) ?_
    cases hres : closeBlock x p1.source (↑p1.lineStart) p1.root with
    | nil => simp only [List.headD_nil]; rw [e1, e3]; exact PBSpans_toQT hroot
    | cons hd tl =>
      rw [hres] at hcl
      simp only [List.headD_cons]
      exact (PBSpansL_cons.mp hcl).1
  · have ol := openingLoop_sp x (p1.line.length + 8) p1 di lpre
    have oli := openingLoop_post x (p1.line.length + 8) p1 di (fun h' => by omega)
    generalize openingLoop x (p1.line.length + 8) p1 = r2 at ol oli
    obtain ⟨hasText, q⟩ := r2
    simp only [] at ol oli ⊢
    have qls : q.lineStart = p.lineStart := by rw [ol.ls, e3]
    have qline : q.line = p.line := by rw [ol.line, e4]
    have qsrc : q.source = p.source := by rw [ol.src, e2]
    split
    · -- all matched
      exact ONS.of (fun ht => addLineText_of_olp x p q oli.inv oli.st ol.mi (ol.full (Or.inl ht)) (ol.chain ht) qsrc qls qline hL)
        (final_of_mi ol.mi qls qline)
    · -- some open block did not match
      rename_i hnam
      have ham' : allMatched = false := by simpa using hnam
      obtain ⟨c, hc, hco⟩ := ham ham'
      have hnp : p1.containerKind ≠ BK.paragraph := not_container_paragraph (container_of_child lpre.mi hc)
      obtain ⟨hmiQ, hblQ⟩ := ol.full (Or.inr hnp)
      split
      · -- paragraph continuation text
        rename_i hlazy
        simp only [Bool.and_eq_true, beq_iff_eq] at hlazy
        have hk := hlazy.2
        have hqo : q.root.label.stop < 0 := by
          obtain ⟨l, hl, ho⟩ := hmiQ.sopen 0 (Nat.zero_le _)
          rw [labelAt_zero] at hl
          cases hl
          exact ho
        have hmi' : MI QT ({ q with depth := tipDepth q.root 0 } : LP) :=
          ⟨ol.mi.base, tipDepth_open q.root hqo, ol.mi.ile⟩
        have hv : (spineGet q.root (tipDepth q.root 0)).isSome := by
          cases hsg : spineGet q.root (tipDepth q.root 0) with
          | none =>
            rw [hsg] at hk
            have := oli.inv.tree.root
            simp only [Option.getD_none] at hk
            rw [hk] at this; cases this
          | some c => rfl
        have hinv' : BT.Inv ({ q with depth := tipDepth q.root 0 } : LP) :=
          ⟨oli.inv.panic, ⟨oli.inv.cur.hi, oli.inv.cur.htab⟩, ⟨oli.inv.tree.root, hv⟩⟩
        have hkk : ({ q with depth := tipDepth q.root 0 } : LP).containerKind = BK.paragraph := hk
        refine ONS.of (fun _ => ?_) (final_of_mi hmi' qls qline)
        have := addLineText_spans_A x _ hinv' (by rw [hkk]; exact acceptsLines_paragraph) hmi'
        unfold FinOK
        rw [lineEnd_eq (show ({ q with depth := tipDepth q.root 0 } : LP).lineStart = p.lineStart from qls)
          (show ({ q with depth := tipDepth q.root 0 } : LP).line = p.line from qline)] at this
        exact this
      · -- close the unmatched blocks
        have hLq : CloseParaOK Q x q.source q.lineStart := by rw [qsrc, qls]; exact hL
        obtain ⟨cm, ct⟩ := closeLastChild_MI (x := x) hmiQ hblQ hLq
        have hck := closeLastChild_containerKind x q (↑q.lineStart) oli.inv.tree
        have hinv' : BT.Inv (q.closeLastChild x q.lineStart) :=
          oli.inv.of_treeOp rfl rfl (closeLastChild_ok x q (↑q.lineStart) oli.inv.tree)
        refine ONS.of (fun ht => ?_) (final_of_mi cm.toQT qls qline)
        have hch := ol.chain ht
        have habove' : ChainAbove (q.closeLastChild x q.lineStart).lineStart (q.closeLastChild x q.lineStart).depth
            (q.closeLastChild x q.lineStart).root := by
          show ChainAbove q.lineStart q.depth (spineReplaceLast _ q.root q.depth)
          rw [spineReplaceLast_eq]
          exact ChainAbove_modify _ (fun c => by rw [replaceLastFn_label]; exact ⟨rfl, rfl⟩) _ _ hch.1
        have hat' : ChainAt (q.closeLastChild x q.lineStart) ∨ AL (q.closeLastChild x q.lineStart) := by
          rcases hch.2 with h' | h'
          · exact Or.inl (closeLastChild_at hmiQ hblQ hLq h')
          · right; unfold AL; rw [hck]; exact h'
        exact addLineText_of_olp x p _ hinv' (fun ha => by rw [hck] at ha; exact oli.st ha) cm.toQT ⟨cm, ct.below⟩
          ⟨habove', hat'⟩ qsrc qls qline hL

/-- **One line of the block phase** (after `reset`): if the tree lies before the start of the line with valid spans
    (`PBSpans Q 0 lineStart root`, root open), and `Q` promises that the open paragraph can be closed at the start of the
    line (`CloseParaOK`) or turned into a setext heading closed at the end of the line (`SetextOK`), then after
    `processLine` the tree has valid spans up to the end of the line. -/
theorem processLine_spans_core {Q : ParaPred} (x : PExt) (p : LP) (h : BT.Inv p) (hroot : PBSpans Q 0 p.lineStart p.root)
    (hopen : p.root.label.stop < 0) (hL : CloseParaOK Q x p.source p.lineStart) (hS : SetextOK Q x p.source (lineEnd p)) :
    PBSpans QT 0 (lineEnd p) (processLine x p).root ∧ (p.line.isEmpty = false → (processLine x p).root.label.stop < 0) := by
  unfold processLine
  have d := descendOpenBlocks_sp x p h hroot hopen
  have di := descendOpenBlocks_inv x p h
  generalize descendOpenBlocks x p = r at d di
  obtain ⟨allMatched, p1⟩ := r
  simp only [] at d di ⊢
  split
  · rename_i h4
    have := d.term (by simpa [stateDescendTerminated] using h4)
    exact ⟨this.1, fun _ => this.2⟩
  · rename_i h4
    have hn4 : p1.state ≠ 4 := by simpa [stateDescendTerminated] using h4
    obtain ⟨e1, e2, e3, e4, hso, ham⟩ := d.cont hn4
    have lpre : LPre Q x p1 := lpre_of_descent p p1 di hroot hL hS e1 e2 e3 e4 hso
    have o := openNewBlocks_spans x p p1 allMatched di hroot hL lpre e1 e2 e3 e4 ham
    generalize openNewBlocks x p1 allMatched = r2 at o
    obtain ⟨hasText, p2⟩ := r2
    simp only [] at o ⊢
    rw [e4] at o
    split
    · rename_i ht
      have := o.1 ht
      exact ⟨this.1, fun _ => this.2⟩
    · rename_i ht
      exact o.2 (by simpa using ht)

end CM.Proofs.BSp
