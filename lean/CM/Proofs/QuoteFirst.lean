import CM.Proofs.QuoteEof
/-
C09 (block-quote half): the first line. The parser of the prefixed side has an empty document: `openNewBlocks` opens the
block quote (consuming the marker) and goes on below it, where it is related to the parser of the bare side on its own
first line.
-/
namespace CM.Proofs.Quote
open CM CM.Model CM.Gen CM.Proofs.BT

variable {E : Env} {p q : LP} {x : PExt}

/-- The block quote opened on the first line. -/
def firstQuote (ls : Nat) : PB := .mk { kind := BK.blockQuote, start := (ls : Int) + ((0 : Nat) : Int) } [] []

/-- `openBlock(BlockQuoteKind)` in an empty document. -/
theorem openBlock_fresh (x : PExt) (q : LP) (lq : PLabel) (isQ : List Tree) (hr : q.root = .mk lq [] isQ) (hd : q.depth = 0)
    (hs : q.state = stateOpening) (hi : q.i = 0) (hk : lq.kind = BK.document) :
    q.openBlock x BK.blockQuote =
      { q with root := .mk lq [firstQuote q.lineStart] isQ, depth := 1, state := stateOpenMatched } := by
  obtain ⟨src, root, depth, ls, line, i, col, tr, tp, st, pn⟩ := q
  simp only at hr hd hs hi
  subst hr hd hs hi
  unfold LP.openBlock
  simp only [stateOpening, stateDescending, stateDescendTerminated, Nat.reduceBEq, Bool.or_self, Bool.false_eq_true, if_false]
  unfold LP.markMatched
  simp only [stateOpening, beq_self_eq_true, if_true]
  unfold LP.openBlockLoop
  simp only [LP.containerKind, LP.container, spineGet_zero, Option.getD_some, PB.kind, PB.label, hk]
  simp only [show canContain BK.document BK.blockQuote = true from rfl, if_true]
  unfold LP.closeLastChild
  simp only [spineReplaceLast, spineModify_zero, List.getLast?_nil, id]
  rfl

/-- The first start rule on the first line of the prefixed side: the block quote is opened and the marker consumed. -/
theorem startBlockQuote_fresh (x : PExt) (q : LP) (l : Bytes) (lq : PLabel) (isQ : List Tree)
    (hl : q.line = GT :: SP :: l) (hi : q.i = 0) (hd : q.depth = 0) (hs : q.state = stateOpening)
    (hr : q.root = .mk lq [] isQ) (hk : lq.kind = BK.document) :
    ∃ q1, startBlockQuote x q = q1 ∧ q1.line = q.line ∧ q1.i = 2 ∧ q1.state = stateOpenMatched ∧ q1.panic = q.panic ∧
      q1.source = q.source ∧ q1.lineStart = q.lineStart ∧ q1.depth = 1 ∧ q1.root = .mk lq [firstQuote q.lineStart] isQ := by
  have hind : q.indent = 0 := by
    apply indent_other
    · rw [hl, hi]; show GT ≠ SP; decide
    · rw [hl, hi]; show GT ≠ TAB; decide
  have hbai : q.bytesAfterIndent = GT :: SP :: l := by
    unfold LP.bytesAfterIndent
    rw [hl, hi]; rfl
  have e : startBlockQuote x q =
      afterMarker ({ q with root := .mk lq [firstQuote q.lineStart] isQ, depth := 1, state := stateOpenMatched } : LP) := by
    unfold startBlockQuote
    simp only []
    rw [hind, hbai, CM.Proofs.consumeIndentN_zero, openBlock_fresh x q lq isQ hr hd hs hi hk]
    rfl
  have m := marker_cursor ({ q with root := .mk lq [firstQuote q.lineStart] isQ, depth := 1, state := stateOpenMatched } : LP)
    l hl hi
  have mt := m.tree
  simp only [tree, Prod.mk.injEq] at mt
  exact ⟨_, e, m.line, m.i, m.state, m.panic, mt.1, mt.2.2.2, mt.2.2.1, mt.2.1⟩

/-- At the start of the first line: both documents are empty. -/
structure FirstStart (E : Env) (p q : LP) : Prop where
  lineq : q.line = GT :: SP :: p.line
  pi : p.i = 0
  qi : q.i = 0
  notab : NoTab p.line
  panic : q.panic = p.panic
  proot : p.root.blocks = [] ∧ p.root.label.kind = BK.document ∧ p.root.label.stop < 0
  qroot : ∃ lq isQ, q.root = .mk lq [] isQ ∧ lq.kind = BK.document ∧ lq.stop < 0
  srcp : p.source = E.src
  srcq : q.source = E.src'
  linep : p.line = p.source.drop p.lineStart
  lsp : p.lineStart ≤ p.source.length
  lineqs : q.line = q.source.drop q.lineStart
  lsq : q.lineStart ≤ q.source.length
  lsq0 : q.lineStart = 0
  here : ∀ j : Nat, j ≤ p.line.length → E.PR ((p.lineStart + j : Nat) : Int) ((q.lineStart + 2 + j : Nat) : Int)
  start : E.PR (p.lineStart : Int) (q.lineStart : Int)
  ord : ∀ a a' : Int, E.PR a a' → ((p.lineStart : Int) ≤ a ↔ (q.lineStart : Int) ≤ a')
  done : E.done = []

theorem firstQuote_topR {P : PB} (hb : P.blocks = []) (hk : P.label.kind = BK.document) (ho : P.label.stop < 0)
    (hdone : E.done = []) : TopR E P (firstQuote 0) :=
  ⟨hk, ho, ⟨rfl, rfl, by decide, rfl, rfl, rfl, rfl⟩, rfl, [], [], rfl, ⟨fun _ h => (by cases h), by rw [hdone]; rfl⟩,
    by rw [hb]; exact .nil⟩

theorem openNewBlocks_true (x : PExt) (p : LP) (h : p.line ≠ []) :
    openNewBlocks x p true = openingLoop x (p.line.length + 8) p := by
  unfold openNewBlocks
  rw [if_neg (by simpa using h)]
  generalize openingLoop x (p.line.length + 8) p = r
  obtain ⟨a, b⟩ := r
  rfl

/-- **The first line** through both parsers. -/
theorem processLine_first_sim (HC : CloseParaSim x E) (h : FirstStart E p q) (hne : p.line ≠ []) (hp : Inv p) (hq : Inv q)
    (hsp : p.state ≠ stateDescendTerminated) (hsq : q.state ≠ stateDescendTerminated) :
    Btw E (processLine x p) (processLine x q) := by
  obtain ⟨lq, isQ, hqr, hqk, hqo⟩ := h.qroot
  -- descendOpenBlocks does nothing on either side
  have hdq : descendOpenBlocks x q = (true, { q with depth := 0 }) := by
    unfold descendOpenBlocks descendLoop
    have : spineGet q.root (0 + 1) = none := by rw [hqr]; rfl
    rw [this]
  have hdp : descendOpenBlocks x p = (true, { p with depth := 0 }) := by
    unfold descendOpenBlocks descendLoop
    have : spineGet p.root (0 + 1) = none := by rw [CM.Proofs.spineGet_one, h.proot.1]; rfl
    rw [this]
  rw [processLine_eq, processLine_eq, hdq, hdp]
  simp only []
  rw [if_neg (by simpa using hsp), if_neg (by simpa using hsq)]
  -- the first iteration of the opening loop on the prefixed side opens the block quote
  obtain ⟨q1, e1, l1, i1, s1, pn1, src1, ls1, d1, r1⟩ := startBlockQuote_fresh x
    ({ q with depth := 0, state := stateOpening } : LP) p.line lq isQ h.lineq h.qi rfl rfl hqr hqk
  have hq0 : Inv ({ q with depth := 0 } : LP) := hq.setDepth 0 (Nat.zero_le _)
  have hts : tryStarts (blockStartFns x) ({ q with depth := 0 } : LP) = q1 := by
    unfold blockStartFns tryStarts
    simp only []
    rw [e1, s1]
    simp
  have hq1 : Inv q1 := by rw [← hts]; exact (tryStarts_blockStarts x _ hq0).inv
  have hlenq : q.line.length = p.line.length + 2 := by rw [h.lineq]; simp
  have hopen : openNewBlocks x ({ q with depth := 0 } : LP) true = openNewBlocks x q1 true := by
    have c1 : q.line ≠ [] := by rw [h.lineq]; simp
    rw [openNewBlocks_true x _ (show ({ q with depth := 0 } : LP).line ≠ [] from c1),
      openNewBlocks_true x q1 (by rw [l1]; exact c1)]
    -- one iteration
    have hstep : openingLoop x ((q.line.length + 7) + 1) ({ q with depth := 0 } : LP) = openingLoop x (q.line.length + 7) q1 := by
      conv => lhs; unfold openingLoop
      have hck : ({ q with depth := 0 } : LP).containerKind = BK.document := by
        simp only [LP.containerKind, LP.container, hqr, spineGet_zero, Option.getD_some, PB.kind, PB.label, hqk]
      rw [hck]
      simp only [show (!(BK.document == BK.paragraph || !acceptsLines BK.document)) = false from rfl, Bool.false_eq_true, if_false]
      rw [hts, s1]
      simp only [beq_self_eq_true, if_true]
    have e8 : ({ q with depth := 0 } : LP).line.length + 8 = q.line.length + 7 + 1 := rfl
    rw [e8, hstep]
    exact (openingLoop_fuel_adequate x q1 hq1 (q.line.length + 7) (by rw [l1, i1]; show q.line.length - 2 < _; omega)).symm
  have htail : lineTail x true ({ q with depth := 0 } : LP) = lineTail x true q1 := by
    unfold lineTail; rw [hopen]
  rw [htail]
  -- below the block quote the two parsers are related
  have hS : SimS E 2 ({ p with depth := 0 } : LP) q1 := by
    have hv : (spineGet p.root 0).isSome := by rw [spineGet_zero]; rfl
    have hroot : RootR E p.root q1.root := by
      rw [r1]
      refine ⟨lq, isQ, firstQuote q.lineStart, rfl, hqk, hqo, ?_⟩
      show TopR E p.root (firstQuote ({ q with depth := 0, state := stateOpening } : LP).lineStart)
      show TopR E p.root (firstQuote q.lineStart)
      rw [h.lsq0]
      exact firstQuote_topR h.proot.1 h.proot.2.1 h.proot.2.2 h.done
    refine ⟨⟨?_, ?_, ?_, ?_, h.notab, rfl, ?_⟩, ?_, hv, hroot, h.srcp, ?_, h.linep, h.lsp, ?_, ?_, ?_, ?_, ?_⟩
    · show q1.line.drop 2 = p.line; rw [l1]; show q.line.drop 2 = _; rw [h.lineq]; rfl
    · show 2 ≤ q1.line.length; rw [l1]; show 2 ≤ q.line.length; omega
    · show q1.i = p.i + 2; rw [i1, h.pi]
    · show p.i ≤ p.line.length; rw [h.pi]; exact Nat.zero_le _
    · show q1.panic = p.panic; rw [pn1]; exact h.panic
    · show q1.depth = 0 + 1; rw [d1]
    · show q1.source = _; rw [src1]; exact h.srcq
    · show q1.line = q1.source.drop q1.lineStart; rw [l1, src1, ls1]; exact h.lineqs
    · show q1.lineStart ≤ q1.source.length; rw [src1, ls1]; exact h.lsq
    · show ∀ j : Nat, j ≤ p.line.length → E.PR ((p.lineStart + j : Nat) : Int) ((q1.lineStart + 2 + j : Nat) : Int)
      rw [ls1]; exact h.here
    · show E.PR (p.lineStart : Int) (q1.lineStart : Int); rw [ls1]; exact h.start
    · show ∀ a a' : Int, E.PR a a' → ((p.lineStart : Int) ≤ a ↔ (q1.lineStart : Int) ≤ a')
      rw [ls1]; exact h.ord
  have := lineTail_sim (x := x) HC hS (Or.inr rfl) hne (hp.setDepth 0 (Nat.zero_le _)) hq1 true
  exact ⟨this.root, this.cur.panic⟩

end CM.Proofs.Quote
