import CM.Spec.RenderSpec
import CM.Proofs.Walk
/-
render_eq_spec: the Walk-driven renderer equals the recursive reading.
-/
namespace CM.Proofs
open CM CM.Model CM.Spec

theorem callPre_render (cx : RCtx) (cur : Cursor) (dst : Bytes) :
    callPre (renderOpts cx) cur dst = ((openBytes cx cur).2, dst ++ (openBytes cx cur).1) := by
  simp [callPre, renderOpts, openBytes]

theorem callPost_render (cx : RCtx) (cur : Cursor) (dst : Bytes) :
    callPost (renderOpts cx) cur dst = (true, dst ++ closeBytes cx cur) := by
  simp [callPost, renderOpts, closeBytes]

mutual
theorem walkNode_render (cx : RCtx) (t : Tree) (p b : Option Tree) (i : Int) (dst : Bytes) :
    walkNode (renderOpts cx) t p b i dst = (true, dst ++ renderNode cx t p b i) := by
  match t with
  | .node l cs =>
    simp only [walkNode, renderNode, callPre_render]
    cases h : (openBytes cx { node := .node l cs, parent := p, block := b, index := i }).2 with
    | false => simp
    | true =>
      simp only
      rw [walkForest_render]
      simp [callPost_render, List.append_assoc]
theorem walkForest_render (cx : RCtx) (parent : Tree) (b : Option Tree) (cs : List Tree) (i : Nat) (dst : Bytes) :
    walkForest (renderOpts cx) parent b cs i dst = (true, dst ++ renderForest cx parent b cs i) := by
  match cs with
  | [] => simp [walkForest, renderForest]
  | c :: cs =>
    simp only [walkForest, renderForest]
    rw [walkNode_render]
    simp only
    rw [walkForest_render]
    simp [List.append_assoc]
end

end CM.Proofs
