import CM.Model.Emphasis
/-
C11: the Go loop with its search bounds computes the same matches as the procedure without bounds.
-/
namespace CM.Proofs
open CM CM.Model CM.Gen

/-- A potential closer with delimiter `*` or `_`. -/
def closerElem (c : DelimElem) : Bool := (c.typ == 1 || c.typ == 2) && (c.flags &&& 4 != 0)

/-- The class index determines the delimiter character, the can-open bit and the length modulo 3. -/
theorem obi_inj (t t' : Int) (f f' : UInt8) (n n' : Nat) (ht : t = 1 ∨ t = 2) (ht' : t' = 1 ∨ t' = 2)
    (hk : openersBottomIndex ⟨t, f, n⟩ = openersBottomIndex ⟨t', f', n'⟩) :
    t = t' ∧ ((f &&& 2 = 0) ↔ (f' &&& 2 = 0)) ∧ n % 3 = n' % 3 := by
  have h3 : n % 3 < 3 := Nat.mod_lt _ (by omega)
  have h3' : n' % 3 < 3 := Nat.mod_lt _ (by omega)
  rcases ht with rfl | rfl <;> rcases ht' with rfl | rfl <;> simp [openersBottomIndex] at hk <;>
    split at hk <;> split at hk <;> simp at hk <;>
    first
    | omega
    | (refine ⟨rfl, ?_, by omega⟩; simp_all)

/-- The matching relation sees a closer only through its class (`openersBottomIndex`):
    delimiter character, whether it can also open, and its length modulo 3. -/
theorem match_class (o c c' : DelimElem) (hc : closerElem c = true) (hc' : closerElem c' = true)
    (hk : openersBottomIndex c = openersBottomIndex c') :
    isEmphasisDelimiterMatch o c = isEmphasisDelimiterMatch o c' := by
  obtain ⟨ct, cf, cn⟩ := c
  obtain ⟨ct', cf', cn'⟩ := c'
  obtain ⟨ot, of, on⟩ := o
  simp only [closerElem, Bool.and_eq_true, Bool.or_eq_true, beq_iff_eq, bne_iff_ne, ne_eq] at hc hc'
  obtain ⟨rfl, hb, hm⟩ := obi_inj ct ct' cf cf' cn cn' hc.1 hc'.1 hk
  have hsum : (on + cn) % 3 = (on + cn') % 3 := by omega
  have hb' : ((cf &&& 2) == 0) = ((cf' &&& 2) == 0) := by
    rw [Bool.eq_iff_iff]; simp only [beq_iff_eq]; exact hb
  have hcl : ((cf &&& 4) != 0) = ((cf' &&& 4) != 0) := by
    rw [Bool.eq_iff_iff]; simp only [bne_iff_ne, ne_eq]; exact ⟨fun _ => hc'.2, fun _ => hc.2⟩
  simp only [isEmphasisDelimiterMatch, hsum, hm, hb', hcl]

/-- No closer of class `k` matches the opener `e`. -/
def NoMatch (e : DelimElem) (k : Nat) : Prop :=
  ∀ c, closerElem c = true → openersBottomIndex c = some k → isEmphasisDelimiterMatch e c = false

theorem findOpener_none (st : List Delim) (c : Delim) (lo n : Nat) (hn : n ≤ st.length)
    (h : findOpener st c lo n = none) :
    ∀ i o, lo ≤ i → i < n → st[i]? = some o → isEmphasisDelimiterMatch o.elem c.elem = false := by
  induction n with
  | zero => intro i o _ hi; omega
  | succ m ih =>
    intro i o hlo hi hget
    simp only [findOpener] at h
    split at h
    · omega
    · rename_i hm
      have hm' : m < st.length := by omega
      rw [List.getElem?_eq_getElem hm'] at h
      simp only at h
      split at h
      · simp at h
      · rename_i hnm
        by_cases him : i = m
        · subst him
          rw [List.getElem?_eq_getElem hm'] at hget
          simp only [Option.some.injEq] at hget
          subst hget
          simpa using hnm
        · exact ih (by omega) h i o hlo (by omega) hget

/-- If nothing in `[lo', n)` matches, the search from `n` down to `lo'` finds nothing. -/
theorem findOpener_nomatch (st : List Delim) (c : Delim) (lo' n : Nat)
    (hnm : ∀ i o, lo' ≤ i → i < n → st[i]? = some o → isEmphasisDelimiterMatch o.elem c.elem = false) :
    findOpener st c lo' n = none := by
  induction n with
  | zero => rfl
  | succ m ih =>
    simp only [findOpener]
    split
    · rfl
    · rename_i hm
      cases hg : st[m]? with
      | none => rfl
      | some o =>
        simp only [hnm m o (by omega) (by omega) hg, Bool.false_eq_true, if_false]
        exact ih (fun i o h1 h2 h3 => hnm i o h1 (by omega) h3)

theorem findOpener_lo (st : List Delim) (c : Delim) (lo lo' n : Nat) (hle : lo' ≤ lo)
    (hnm : ∀ i o, lo' ≤ i → i < lo → st[i]? = some o → isEmphasisDelimiterMatch o.elem c.elem = false) :
    findOpener st c lo n = findOpener st c lo' n := by
  induction n with
  | zero => rfl
  | succ m ih =>
    by_cases h1 : m < lo
    · have e1 : findOpener st c lo (m + 1) = none := by simp [findOpener, h1]
      rw [e1]
      exact (findOpener_nomatch st c lo' (m + 1) (fun i o a b g => hnm i o a (by omega) g)).symm
    · have h2 : ¬ m < lo' := by omega
      simp only [findOpener, h1, h2, if_false]
      cases st[m]? with
      | none => rfl
      | some o =>
        simp only
        split
        · rfl
        · exact ih

/-- The invariant of the `closerLoop` that makes the search bounds sound. -/
structure Inv (sb : Nat) (s : ProcState) : Prop where
  lo : ∀ k, sb ≤ s.bot k
  hi : ∀ k, s.bot k ≤ s.cur
  nm : ∀ k i o, sb ≤ i → i < s.bot k → s.stack[i]? = some o → NoMatch o.elem k

theorem nextCloser_spec (st : List Delim) (cur fuel j : Nat) (h : nextCloser st cur fuel = some j) :
    cur ≤ j ∧ ∃ d, st[j]? = some d ∧ isEmphasisDelim d = true ∧ canClose d = true := by
  induction fuel generalizing cur with
  | zero => simp [nextCloser] at h
  | succ f ih =>
    simp only [nextCloser] at h
    cases hg : st[cur]? with
    | none => simp [hg] at h
    | some d =>
      simp only [hg] at h
      split at h
      · rename_i hc
        simp only [Option.some.injEq] at h
        subst h
        simp only [Bool.and_eq_true] at hc
        exact ⟨Nat.le_refl _, d, hg, hc.1, hc.2⟩
      · have := ih (cur + 1) h
        exact ⟨by omega, this.2⟩

theorem closer_closerElem (d : Delim) (h1 : isEmphasisDelim d = true) (h2 : canClose d = true) :
    closerElem d.elem = true := by
  simp only [isEmphasisDelim, inlineDelimiterStar, inlineDelimiterUnderscore, canClose, closerElem] at *
  simp_all

theorem obi_some (e : DelimElem) (h : closerElem e = true) : ∃ k, openersBottomIndex e = some k := by
  obtain ⟨t, f, n⟩ := e
  simp only [closerElem, Bool.and_eq_true, Bool.or_eq_true, beq_iff_eq] at h
  rcases h.1 with rfl | rfl <;> simp [openersBottomIndex] <;> split <;> simp

/-- Under the invariant the bounded search of the Go loop *is* the unbounded search of the specification. -/
theorem procStep_bounds_irrelevant (sb : Nat) (s : ProcState) (h : Inv sb s) :
    procStep true sb s = procStep false sb s := by
  unfold procStep
  cases hn : nextCloser s.stack s.cur (s.stack.length + 1) with
  | none => rfl
  | some cur =>
    simp only
    obtain ⟨_, d, hd, hd1, hd2⟩ := nextCloser_spec _ _ _ _ hn
    rw [hd]
    simp only
    have hce := closer_closerElem d hd1 hd2
    obtain ⟨k, hk⟩ := obi_some d.elem hce
    have hfind : findOpener s.stack d (s.bot ((openersBottomIndex d.elem).getD 0)) cur
        = findOpener s.stack d sb cur := by
      rw [hk]
      simp only [Option.getD_some]
      exact findOpener_lo s.stack d (s.bot k) sb cur (h.lo k)
        (fun i o a b g => h.nm k i o a b g d.elem hce hk)
    simp only [if_true, Bool.false_eq_true, if_false, hfind]

/-! ### The stack below the current position keeps its entries (up to node lengths) -/

def elems (st : List Delim) : List DelimElem := st.map (·.elem)

/-- The first `m` entries of `a` and `b` agree on everything the matching rules look at. -/
def PrefEq (m : Nat) (a b : List Delim) : Prop := (elems a).take m = (elems b).take m

theorem PrefEq.refl (m : Nat) (a : List Delim) : PrefEq m a a := rfl

theorem PrefEq.trans {m : Nat} {a b c : List Delim} (h1 : PrefEq m a b) (h2 : PrefEq m b c) : PrefEq m a c :=
  Eq.trans h1 h2

theorem PrefEq.mono {m n : Nat} {a b : List Delim} (h : PrefEq n a b) (hmn : m ≤ n) : PrefEq m a b := by
  unfold PrefEq at *
  have := congrArg (List.take m) h
  simpa [List.take_take, Nat.min_eq_left hmn] using this

theorem PrefEq_deleteRange (a : List Delim) (i j m : Nat) (hm : m ≤ i) (hi : i ≤ a.length) :
    PrefEq m (deleteRange a i j) a := by
  unfold PrefEq elems deleteRange
  rw [List.map_append, List.take_append_of_le_length (by simp; omega), List.map_take, List.take_take,
    Nat.min_eq_left hm]

theorem PrefEq_get {m : Nat} {a b : List Delim} (h : PrefEq m a b) (i : Nat) (o : Delim) (hi : i < m)
    (hg : a[i]? = some o) : ∃ o0, b[i]? = some o0 ∧ o0.elem = o.elem := by
  unfold PrefEq elems at h
  have h1 : ((a.map (·.elem)).take m)[i]? = some o.elem := by
    rw [List.getElem?_take_of_lt hi, List.getElem?_map, hg]; rfl
  rw [h, List.getElem?_take_of_lt hi, List.getElem?_map] at h1
  cases hb : b[i]? with
  | none => simp [hb] at h1
  | some o0 => exact ⟨o0, rfl, by simpa [hb] using h1⟩

theorem findOpener_some (st : List Delim) (c : Delim) (lo n i : Nat) (h : findOpener st c lo n = some i) :
    lo ≤ i ∧ i < n ∧ ∃ o, st[i]? = some o := by
  induction n with
  | zero => simp [findOpener] at h
  | succ m ih =>
    simp only [findOpener] at h
    split at h
    · simp at h
    · rename_i hm
      cases hg : st[m]? with
      | none => simp [hg] at h
      | some o =>
        simp only [hg] at h
        split at h
        · simp only [Option.some.injEq] at h; subst h; exact ⟨by omega, by omega, o, hg⟩
        · have := ih h; exact ⟨this.1, by omega, this.2.2⟩

theorem getElem?_lt {α : Type} (l : List α) (i : Nat) (x : α) (h : l[i]? = some x) : i < l.length := by
  rcases Nat.lt_or_ge i l.length with hlt | hge
  · exact hlt
  · rw [List.getElem?_eq_none hge] at h
    simp at h

/-- The no-match branch preserves the invariant. -/
theorem inv_nomatch (b : Bool) (sb : Nat) (s : ProcState) (h : Inv sb s) (cur k : Nat) (d : Delim)
    (hcur : s.cur ≤ cur) (hd : s.stack[cur]? = some d) (hce : closerElem d.elem = true)
    (hk : openersBottomIndex d.elem = some k)
    (hf : findOpener s.stack d (if b = true then s.bot k else sb) cur = none)
    (stack' : List Delim) (cur' : Nat) (hst : PrefEq cur stack' s.stack) (hc' : cur ≤ cur') :
    Inv sb { s with stack := stack', cur := cur', bot := fun j => if j == k then cur else s.bot j } := by
  have hlen : cur < s.stack.length := getElem?_lt _ _ _ hd
  have hsb : sb ≤ s.cur := Nat.le_trans (h.lo 0) (h.hi 0)
  have hall : ∀ i o, sb ≤ i → i < cur → s.stack[i]? = some o → NoMatch o.elem k := by
    intro i o hi1 hi2 hg c hc hkc
    have hm : isEmphasisDelimiterMatch o.elem d.elem = false := by
      cases b with
      | false =>
        simp only [Bool.false_eq_true, if_false] at hf
        exact findOpener_none s.stack d sb cur (by omega) hf i o hi1 hi2 hg
      | true =>
        simp only [if_true] at hf
        by_cases hil : s.bot k ≤ i
        · exact findOpener_none s.stack d (s.bot k) cur (by omega) hf i o hil hi2 hg
        · exact h.nm k i o hi1 (by omega) hg d.elem hce hk
    rw [match_class o.elem c d.elem hc hce (by rw [hkc, hk])]
    exact hm
  constructor
  · intro j
    simp only
    split
    · omega
    · exact h.lo j
  · intro j
    simp only
    split
    · exact hc'
    · have := h.hi j; omega
  · intro j i o hi1 hi2 hg
    simp only at hi2 hg
    by_cases hj : j = k
    · subst hj
      simp only [beq_self_eq_true, if_true] at hi2
      obtain ⟨o0, hg0, he⟩ := PrefEq_get hst i o hi2 hg
      rw [← he]
      exact hall i o0 hi1 hi2 hg0
    · have hjk : (j == k) = false := by simpa using hj
      simp only [hjk, Bool.false_eq_true, if_false] at hi2
      have hic : i < cur := by have := h.hi j; omega
      obtain ⟨o0, hg0, he⟩ := PrefEq_get hst i o hic hg
      rw [← he]
      exact h.nm j i o0 hi1 hi2 hg0

/-- The match branch preserves the invariant: bounds are clamped to the new position, below which the
    stack is unchanged. -/
theorem inv_match (sb : Nat) (s : ProcState) (h : Inv sb s) (cur2 : Nat) (stack' : List Delim)
    (hcur2 : sb ≤ cur2) (hst : PrefEq cur2 stack' s.stack) (ev : List EmEvent) :
    Inv sb { stack := stack', cur := cur2, bot := fun j => if s.bot j > cur2 then cur2 else s.bot j, events := ev } := by
  constructor
  · intro j; simp only; split
    · exact hcur2
    · exact h.lo j
  · intro j; simp only; split
    · exact Nat.le_refl _
    · omega
  · intro j i o hi1 hi2 hg
    simp only at hi2 hg
    have hb : i < s.bot j ∧ i < cur2 := by
      split at hi2 <;> omega
    obtain ⟨o0, hg0, he⟩ := PrefEq_get hst i o hb.2 hg
    rw [← he]
    exact h.nm j i o0 hi1 hb.1 hg0

theorem PrefEq_st1 (stack : List Delim) (oi cur : Nat) (opener opener' closer' : Delim)
    (ho : stack[oi]? = some opener) (he : opener'.elem = opener.elem) :
    PrefEq (oi + 1) (stack.take oi ++ [opener', closer'] ++ stack.drop (cur + 1)) stack := by
  have hlt : oi < stack.length := getElem?_lt _ _ _ ho
  unfold PrefEq elems
  apply List.ext_getElem?
  intro i
  simp only [List.getElem?_take, List.getElem?_map]
  by_cases hi : i < oi + 1
  · simp only [hi, if_true]
    by_cases hio : i < oi
    · rw [List.append_assoc, List.getElem?_append_left (by simp; omega), List.getElem?_take, if_pos hio]
    · have hieq : i = oi := by omega
      subst hieq
      rw [List.append_assoc, List.getElem?_append_right (by simp; omega)]
      simp [ho, he, Nat.min_eq_left (Nat.le_of_lt hlt)]
  · simp only [hi, if_false]

theorem length_st1 (stack : List Delim) (oi cur : Nat) (a b : Delim) (h1 : oi < cur) (h2 : cur < stack.length) :
    (stack.take oi ++ [a, b] ++ stack.drop (cur + 1)).length = oi + 2 + (stack.length - (cur + 1)) := by
  simp [List.length_append, List.length_take, List.length_drop]; omega

theorem length_deleteRange (a : List Delim) (i : Nat) (h : i < a.length) :
    (deleteRange a i (i + 1)).length = a.length - 1 := by
  simp [deleteRange, List.length_append, List.length_take, List.length_drop]; omega

/-- Every iteration of the loop preserves the invariant (with or without the bounds being used). -/
theorem procStep_inv (b : Bool) (sb : Nat) (s s' : ProcState) (h : Inv sb s) (hs : procStep b sb s = some s') :
    Inv sb s' := by
  unfold procStep at hs
  cases hn : nextCloser s.stack s.cur (s.stack.length + 1) with
  | none => rw [hn] at hs; simp at hs
  | some cur =>
    obtain ⟨hcur, d, hd, hd1, hd2⟩ := nextCloser_spec _ _ _ _ hn
    have hce := closer_closerElem d hd1 hd2
    obtain ⟨k, hk⟩ := obi_some d.elem hce
    have hlen : cur < s.stack.length := getElem?_lt _ _ _ hd
    have hsb : sb ≤ s.cur := Nat.le_trans (h.lo 0) (h.hi 0)
    rw [hn] at hs
    simp only [hd, hk, Option.getD_some] at hs
    cases hf : findOpener s.stack d (if b = true then s.bot k else sb) cur with
    | none =>
      rw [hf] at hs
      simp only at hs
      split at hs
      · simp only [Option.some.injEq] at hs; subst hs
        exact inv_nomatch b sb s h cur k d hcur hd hce hk hf _ cur
          (PrefEq_deleteRange _ _ _ _ (Nat.le_refl _) (by omega)) (Nat.le_refl _)
      · simp only [Option.some.injEq] at hs; subst hs
        exact inv_nomatch b sb s h cur k d hcur hd hce hk hf _ (cur + 1) (PrefEq.refl _ _) (by omega)
    | some oi =>
      obtain ⟨hlo, hoi, opener, hop⟩ := findOpener_some _ _ _ _ _ hf
      have hlosb : sb ≤ oi := by
        have : sb ≤ (if b = true then s.bot k else sb) := by split; exact h.lo k; exact Nat.le_refl _
        omega
      rw [hf] at hs
      simp only [hop, Option.some.injEq] at hs
      subst hs
      -- names for the pieces
      generalize hw : (if (decide (opener.len ≥ 2) && decide (d.len ≥ 2)) = true then 2 else 1) = w
      have hP1 := PrefEq_st1 s.stack oi cur opener { opener with len := opener.len - w } { d with len := d.len - w } hop rfl
      have hL1 := length_st1 s.stack oi cur { opener with len := opener.len - w } { d with len := d.len - w } hoi hlen
      by_cases hz : (opener.len - w == 0) = true
      · -- opener removed: cur2 = oi
        simp only [hz, if_true]
        apply inv_match sb s h oi _ hlosb
        have hP2 : PrefEq oi (deleteRange (s.stack.take oi ++ [{ opener with len := opener.len - w }, { d with len := d.len - w }] ++ s.stack.drop (cur + 1)) oi (oi + 1)) s.stack :=
          PrefEq.trans (PrefEq_deleteRange _ _ _ _ (Nat.le_refl _) (by omega)) (PrefEq.mono hP1 (by omega))
        split
        · exact PrefEq.trans (PrefEq_deleteRange _ _ _ _ (Nat.le_refl _) (by rw [length_deleteRange _ _ (by omega)]; omega)) hP2
        · exact hP2
      · -- opener kept: cur2 = oi + 1
        simp only [hz, Bool.false_eq_true, if_false]
        apply inv_match sb s h (oi + 1) _ (by omega)
        split
        · exact PrefEq.trans (PrefEq_deleteRange _ _ _ _ (Nat.le_refl _) (by omega)) hP1
        · exact hP1

/-- The whole loop: with the invariant, bounds on or off makes no difference, for any number of iterations. -/
theorem procLoop_bounds_irrelevant (sb fuel : Nat) (s : ProcState) (h : Inv sb s) :
    procLoop true sb fuel s = procLoop false sb fuel s := by
  induction fuel generalizing s with
  | zero => rfl
  | succ f ih =>
    simp only [procLoop]
    rw [procStep_bounds_irrelevant sb s h]
    cases hs : procStep false sb s with
    | none => rfl
    | some s' => exact ih s' (procStep_inv false sb s s' h hs)

theorem inv_init (sb : Nat) (stack : List Delim) :
    Inv sb { stack := stack, cur := sb, bot := fun _ => sb, events := [] } := by
  constructor
  · intro k; exact Nat.le_refl _
  · intro k; exact Nat.le_refl _
  · intro k i o h1 h2; simp only at h2; omega

end CM.Proofs
