import CM.Proofs.BlocksLine
/-
Fuel adequacy inside the block model: the fuel parameters of `consumeIndent` (`BlocksCursor.consumeIndent_fuel`),
`openBlockLoop`, `htmlStartLoop`, `descendLoop`, `openingLoop` are never exhausted under the working invariant: any
two fuels above the stated bound give the same result (so the `fuel = 0` branches are unreachable from the fuels the
model passes, and the model computes what the unbounded Go loops compute).
-/
namespace CM.Proofs.BT
open CM CM.Model CM.Gen

/-! ### openBlockLoop: fuel `depth + 1` -/

theorem openBlockLoop_fuel (x : PExt) (kind : Nat) : ∀ (fuel fuel' : Nat) (p : LP), p.depth < fuel → p.depth < fuel' →
    LP.openBlockLoop x kind fuel p = LP.openBlockLoop x kind fuel' p := by
  intro fuel
  induction fuel with
  | zero => intro _ p h; omega
  | succ fuel ih =>
    intro fuel' p h h'
    cases fuel' with
    | zero => omega
    | succ fuel' =>
      unfold LP.openBlockLoop
      split
      · rfl
      · split
        · rfl
        · rename_i hd
          have hd' : p.depth ≠ 0 := by simpa using hd
          have e : (p.closeContainer x ↑p.lineStart).depth = p.depth - 1 := by
            unfold LP.closeContainer
            rw [if_neg (by simpa using hd')]
          exact ih fuel' _ (by rw [e]; omega) (by rw [e]; omega)

/-! ### htmlStartLoop: fuel 8 from condition 0 -/

theorem htmlStartLoop_fuel (x : PExt) (line : Bytes) : ∀ (fuel fuel' i : Nat) (p : LP), 7 ≤ i + fuel → 7 ≤ i + fuel' →
    htmlStartLoop x line fuel i p = htmlStartLoop x line fuel' i p := by
  intro fuel
  induction fuel with
  | zero =>
    intro fuel' i p h h'
    cases fuel' with
    | zero => rfl
    | succ fuel' =>
      unfold htmlStartLoop
      rw [if_pos (by omega)]
  | succ fuel ih =>
    intro fuel' i p h h'
    cases fuel' with
    | zero =>
      unfold htmlStartLoop
      rw [if_pos (by omega)]
    | succ fuel' =>
      unfold htmlStartLoop
      split
      · rfl
      · split
        · rfl
        · exact ih fuel' (i + 1) p (by omega) (by omega)

/-! ### descendLoop: fuel `spineLength root + 1` -/

theorem spineLength_mk (l : PLabel) (bs : List PB) (is : List Tree) :
    spineLength (.mk l bs is) = match bs.getLast? with
      | some c => 1 + spineLength c
      | none => 0 := by
  rw [spineLength]
  split <;> rename_i h <;> simp [h]

theorem spineGet_le_spineLength : ∀ (d : Nat) (b : PB), (spineGet b d).isSome → d ≤ spineLength b := by
  intro d
  induction d with
  | zero => intro b _; exact Nat.zero_le _
  | succ d ih =>
    intro b h
    obtain ⟨l, bs, is⟩ := b
    rw [spineGet_succ] at h
    rw [spineLength_mk]
    cases hgl : bs.getLast? with
    | none => rw [hgl] at h; cases h
    | some c =>
      rw [hgl] at h
      have := ih c h
      simp only []
      omega

theorem descendLoop_fuel (x : PExt) : ∀ (fuel fuel' : Nat) (p : LP) (parent : Nat), Inv { p with depth := parent } →
    spineLength p.root < parent + fuel → spineLength p.root < parent + fuel' →
    descendLoop x fuel p parent = descendLoop x fuel' p parent := by
  intro fuel
  induction fuel with
  | zero =>
    intro _ p parent h hf
    have := spineGet_le_spineLength parent p.root h.tree.valid
    omega
  | succ fuel ih =>
    intro fuel' p parent h hf hf'
    have hle := spineGet_le_spineLength parent p.root h.tree.valid
    cases fuel' with
    | zero => omega
    | succ fuel' =>
      unfold descendLoop
      split
      · rfl
      rename_i c hc
      split
      · rfl
      simp only []
      have h1 : Inv { p with depth := parent + 1 } :=
        ⟨h.panic, ⟨h.cur.hi, h.cur.htab⟩, ⟨h.tree.root, by show (spineGet p.root (parent + 1)).isSome; rw [hc]; rfl⟩⟩
      split
      · rfl
      · rename_i ok p2 hrm
        have rm := ruleMatch_post x c.kind _ (h1.setState stateDescending) rfl ok p2 hrm
        have d2 : p2.depth = parent + 1 := rm.depth
        split
        · rfl
        · rename_i hne
          split
          · rfl
          · have s3 : p2.state = 3 := by
              rcases rm.st with h3 | h4
              · exact h3
              · rw [h4] at hne; exact absurd rfl hne
            have hr : p2.root = p.root := rm.root s3
            apply ih
            · exact rm.inv.setDepth (parent + 1) (by omega)
            · rw [hr]; omega
            · rw [hr]; omega

/-- `descendOpenBlocks` computes what any larger fuel computes. -/
theorem descendOpenBlocks_fuel (x : PExt) (p : LP) (h : Inv p) (fuel : Nat) (hf : spineLength p.root < fuel) :
    descendOpenBlocks x p = descendLoop x fuel p 0 := by
  unfold descendOpenBlocks
  exact descendLoop_fuel x _ _ p 0 (h.setDepth 0 (Nat.zero_le _)) (by omega) (by omega)

/-! ### openingLoop: fuel `line.length + 8` -/

theorem openingLoop_stop (x : PExt) (fuel : Nat) (p : LP)
    (h : acceptsLines p.containerKind = true ∧ p.containerKind ≠ BK.paragraph) : openingLoop x fuel p = (true, p) := by
  cases fuel with
  | zero => rfl
  | succ fuel =>
    unfold openingLoop
    rw [if_pos]
    simp [h.1, h.2]

theorem openingLoop_fuel (x : PExt) : ∀ (fuel fuel' : Nat) (p : LP), Inv p →
    p.line.length - p.i < fuel → p.line.length - p.i < fuel' → openingLoop x fuel p = openingLoop x fuel' p := by
  intro fuel
  induction fuel with
  | zero => intro _ p _ h; omega
  | succ fuel ih =>
    intro fuel' p h hf hf'
    cases fuel' with
    | zero => omega
    | succ fuel' =>
      unfold openingLoop
      split
      · rfl
      · have ts := tryStarts_blockStarts x p h
        simp only []
        generalize tryStarts (blockStartFns x) p = p' at ts
        split
        · rename_i h1
          have h1' : p'.state = 1 := by simpa [stateOpenMatched] using h1
          rcases ts.prog h1' with hstop | hlt
          · rw [openingLoop_stop x fuel p' hstop, openingLoop_stop x fuel' p' hstop]
          · have hi := ts.inv.cur.hi
            rw [ts.line] at hi
            exact ih fuel' p' ts.inv (by rw [ts.line]; omega) (by rw [ts.line]; omega)
        · rfl

/-- The fuel `openNewBlocks` passes is enough. -/
theorem openingLoop_fuel_adequate (x : PExt) (p : LP) (h : Inv p) (fuel : Nat) (hf : p.line.length - p.i < fuel) :
    openingLoop x (p.line.length + 8) p = openingLoop x fuel p :=
  openingLoop_fuel x _ _ p h (by omega) hf

/-! ### refDefLoop -/

/-- Running out of fuel in `refDefLoop` is harmless for the block phase: the remaining inline children stay in a
    (paragraph) block after the definitions split off so far — exactly the result of a failed parse (`giveUp`). -/
theorem refDefLoop_zero (x : PExt) (src : Bytes) (orphan : Option PB) (r : Rd) (l : PLabel) (is : List Tree) (result : List PB) :
    refDefLoop x src orphan 0 r l is result = result ++ [.mk l [] is] := rfl

/-- `onCloseParagraph` with an explicit fuel for `refDefLoop`. -/
def onCloseParagraphFuel (x : PExt) (src : Bytes) (fuel : Nat) : PB → List PB
  | .mk l bs is =>
    match is with
    | [] => [.mk l bs is]
    | first :: _ =>
      let contentStart := first.label.start.toNat
      let orphan : Option PB :=
        if l.kind == BK.setextHeading then
          let blockStart := (is.getLast?.map (·.label.stop)).getD 0
          let endPos := l.stop.toNat
          let body := (src.take endPos).drop blockStart.toNat
          let noWs := (body.reverse.dropWhile isSpaceTabOrLineEnding)
          let lineStartPos : Nat :=
            match noWs with
            | [] => blockStart.toNat
            | u :: _ => blockStart.toNat + (noWs.dropWhile (· == u)).length
          some (mkPB BK.paragraph blockStart (-1) [mkInline IK.unparsed lineStartPos l.stop])
        else none
      refDefLoop x src orphan fuel (newReader is contentStart) l is []

/-- The copy is faithful: with the model's fuel it is `onCloseParagraph`. -/
theorem onCloseParagraphFuel_model (x : PExt) (src : Bytes) (b : PB) :
    onCloseParagraphFuel x src (b.inlines.length + 2) b = onCloseParagraph x src b := by
  obtain ⟨l, bs, is⟩ := b
  cases is <;> rfl

/-- The inline children of a paragraph under construction, as `addLineText` / `collectInline` produce them:
    in source order, disjoint, and a line ending occurs in a node only at its end. -/
def PerLineInlines (src : Bytes) (is : List Tree) : Prop :=
  is.Pairwise (fun a b => a.label.stop ≤ b.label.start) ∧
  ∀ t ∈ is, t.label.start ≤ t.label.stop ∧
    ∀ k : Nat, t.label.start ≤ k → (k : Int) < t.label.stop → (src.getD k 0 = CR ∨ src.getD k 0 = LF) →
      ∀ j : Nat, k ≤ j → (j : Int) < t.label.stop → (src.getD j 0 = CR ∨ src.getD j 0 = LF)

/-- NOT PROVED (target): the fuel `is.length + 2` of `onCloseParagraph` is never exhausted on the paragraphs the block
    parser builds — every iteration of `refDefLoop` that continues has read past a line ending, hence drops at least
    one (per-line) inline child. It needs the specifications of `parseLinkLabel` / `parseLinkDestination` /
    `parseLinkTitle` / `readEOL` over the inline byte reader, which the no-panic theorem does not; for arbitrary
    inline children (e.g. one text node spanning several lines) the statement is false, hence the hypothesis.
    What is proved: `refDefLoop_zero` — exhaustion cannot crash and loses nothing. -/
def refDefLoop_fuel_target : Prop :=
  ∀ (x : PExt) (src : Bytes) (b : PB) (fuel : Nat), PerLineInlines src b.inlines → b.inlines.length + 2 ≤ fuel →
    onCloseParagraphFuel x src fuel b = onCloseParagraph x src b

/-! ### Examples -/

section Examples

private def fX : PExt := { ext := { unescape := fun s => s }, fold := fun b => b }
private def fSrc : Bytes := Bytes.ofString "> - a\n"
private def fP : LP := { source := fSrc, root := .mk { kind := BK.document, start := 0 } [] [], lineStart := 0, line := fSrc }

private theorem fP_inv : Inv fP :=
  ⟨rfl, ⟨by decide +kernel, fun _ => by decide +kernel⟩, ⟨rfl, rfl⟩⟩

-- the hypotheses of the fuel theorems hold on a concrete state; with the model's fuel and with a much larger one
example : openingLoop fX (fP.line.length + 8) fP = openingLoop fX 1000 fP :=
  openingLoop_fuel_adequate fX fP fP_inv 1000 (by decide +kernel)
example : descendOpenBlocks fX fP = descendLoop fX 1000 fP 0 :=
  descendOpenBlocks_fuel fX fP fP_inv 1000 (by decide +kernel)
example : (openingLoop fX (fP.line.length + 8) fP).2.depth = 3 := by decide +kernel
example : (openingLoop fX (fP.line.length + 8) fP).2.i = 4 := by decide +kernel
-- two iterations suffice here (block quote, list item); one does not
example : (openingLoop fX 3 fP).2.depth = 3 := by decide +kernel
example : (openingLoop fX 1 fP).2.depth = 1 := by decide +kernel

end Examples

end CM.Proofs.BT
