import CM.Proofs.InlShapeStkProc
import CM.Proofs.InlShapeHtml
/-
C13, inline half — the state invariant `Wv` through the pieces of the tokenizer and the bracket functions.
-/
namespace CM.Proofs.InlH
open CM CM.Model CM.Model.Inl
open Std.Do

set_option mvcgen.warning false

section
variable {c : ICtx} {Q : Nat → Int → Int → Prop}

theorem u8_of_not_bne {a b : UInt8} (h : ¬ (a != b) = true) : a = b := by simpa using h
theorem u8_of_beq {a b : UInt8} (h : (a == b) = true) : a = b := by simpa using h

theorem AllCh.snoc {ch : UInt8} {a b : Int} (h : AllCh c ch a b) (hb : 0 ≤ b) (hc : c.srcA[b.toNat]! = ch) :
    AllCh c ch a (b + 1) := by
  intro q hq1 hq2
  by_cases hq : (q : Int) < b
  · exact h q hq1 hq
  · have : q = b.toNat := by omega
    rw [this]; exact hc

/-- the Text node of a fresh delimiter goes on the stack -/
theorem Wg.pushDelim {a : Array INode} {st : Array DelimE} (h : Wg c Q NoN NoN a st) (n : INode) (e : Gen.DelimElem)
    (f : INode → INode) (hf : FPres f)
    (hw : DelimW c ⟨e, a.size⟩ n) (hne : n.start < n.stop) :
    Wg c Q NoN NoN ((a.push n).modify 0 f) (st.push ⟨e, a.size⟩) := by
  have h1 : Wg c Q NoN NoN ((a.push n).modify 0 f) st :=
    (h.push (Or.inr (EmP.other (by rw [hw.kind]; decide) (by rw [hw.kind]; decide) (by rw [hw.kind]; decide)
      (by rw [hw.kind]; decide)))).modify_pres hf
  have h0 : 0 < a.size := h.root.1
  have hget : ((a.push n).modify 0 f)[a.size]! = n := by
    rw [get!_modify_ne (by omega), getElem!_push_size]
  refine h1.setStack (h1.stk.pushE (by simp) ?_ ?_ ?_)
  · show DelimW c _ (((a.push n).modify 0 f)[a.size]!)
    rw [hget]; exact hw
  · show (((a.push n).modify 0 f)[a.size]!).start < _
    rw [hget]; exact hne
  · intro x hx
    have := (h.stk.ok x hx).1
    show x.node ≠ a.size
    omega

@[spec 30000]
theorem parseDelimiterRun_specW (start : Int) (h0 : 0 ≤ start) (h1 : start < c.srcA.size)
    (hb : c.srcA[start.toNat]! = 0x2A ∨ c.srcA[start.toNat]! = 0x5F) :
    ⦃fun s => ⌜Wv c Q s⌝⦄ parseDelimiterRun c start ⦃⇓? _ s => ⌜Wv c Q s⌝⦄ := by
  mvcgen [parseDelimiterRun, spanEnd, alloc, pushStack, addToRoot, nodeLen, getNode, setParent, modifyNode,
    -parseDelimiterRun_spec, -parseDelimiterRun_specS, -parseDelimiterRun_specT,
    -addToRoot_specT, -addToRoot_spec, -addToRoot_specS, -addToRoot_specW]
  all_goals (try (exact (PostCond.mayThrow (fun p s => ⌜Wv c Q s ∧ start < p.2 ∧ p.2 ≤ c.srcA.size ∧
    AllCh c (c.srcA[start.toNat]!) start p.2⌝))))
  inl_norm
  all_goals (try (exact fun h => h))
  all_goals (try assumption)
  all_goals first
    | (inl_subst; assumption)
    | (-- one more delimiter byte
       have hx := ‹(_ : IState) = _ ∧ (0 : Int) ≤ _ ∧ _ < _ ∧ _›
       obtain ⟨hs, hb0, hb1, hr⟩ := hx
       subst hs
       obtain ⟨hW, hlt, hle, hall⟩ := ‹Wv c Q _ ∧ _›
       obtain ⟨-, -, -, hr1⟩ := ‹(_ : IState) = _ ∧ (0 : Int) ≤ start ∧ _›
       have heq := u8_of_not_bne ‹¬(_ != _) = true›
       exact ⟨hW, by omega, by omega, hall.snoc hb0 (by rw [← hr, heq, hr1])⟩)
    | (-- the first byte
       have hx := ‹(_ : IState) = _ ∧ (0 : Int) ≤ start ∧ _›
       obtain ⟨hs, -, -, -⟩ := hx
       subst hs
       refine ⟨‹Wv c Q _›, by omega, by omega, fun q hq1 hq2 => ?_⟩
       have : q = start.toNat := by omega
       rw [this])
    | (-- the run is not empty
       exfalso
       obtain ⟨hW, hlt, hle, hall⟩ := ‹Wv c Q _ ∧ _›
       have h := ‹(spanLenI _ _ == 0) = true›
       rw [getElem!_push_size] at h
       simp only [beq_iff_eq] at h
       unfold spanLenI at h
       rw [if_pos (by simp only [Bool.and_eq_true, decide_eq_true_eq]; omega)] at h
       omega)
    | (-- the new Text node goes on the stack
       obtain ⟨hW, hlt, hle, hall⟩ := ‹Wv c Q _ ∧ _›
       obtain ⟨-, -, -, hr1⟩ := ‹(_ : IState) = _ ∧ (0 : Int) ≤ start ∧ _›
       inl_stateW
       refine Wg.pushDelim hW _ _ _ (fun _ => ⟨rfl, rfl, rfl⟩) ⟨rfl, h0, Int.le_of_lt hlt, hle, ?_⟩ hlt
       show DelimChars c (if (_ == (0x2A : UInt8)) = true then 1 else 2) start _
       rw [hr1]
       rcases hb with hb | hb
       · rw [hb] at hall ⊢
         exact Or.inl ⟨by simp, hall⟩
       · rw [hb] at hall ⊢
         exact Or.inr (Or.inl ⟨by simp, hall⟩))

theorem notEm_text : NotEm IK.text := by unfold NotEm; decide
theorem notEm_hardBreak : NotEm IK.hardBreak := by unfold NotEm; decide
theorem notEm_charRef : NotEm IK.charRef := by unfold NotEm; decide
theorem notEm_softBreak : NotEm IK.softBreak := by unfold NotEm; decide

/-- closes the verification conditions that need no thought -/
macro "inl_trivW" : tactic =>
  `(tactic| all_goals (try (first
      | assumption
      | exact ExceptConds.entails.refl _
      | exact notEm_text
      | exact notEm_hardBreak
      | exact notEm_charRef
      | exact notEm_softBreak
      | (intros
         inl_subst
         first
          | assumption
          | contradiction
          | exact (And.left ‹Wv _ _ _ ∧ _›)
          | exact ⟨rfl, ‹Wv _ _ _›⟩
          | exact ⟨rfl, And.left ‹Wv _ _ _ ∧ _›⟩
          | (inl_stateW; assumption)
          | (inl_stateW; exact (And.left ‹Wv _ _ _ ∧ _›))))))

@[spec 30000]
theorem parseBackslash_specW (start : Int) :
    ⦃fun s => ⌜Wv c Q s⌝⦄ parseBackslash c start ⦃⇓? _ s => ⌜Wv c Q s⌝⦄ := by
  mvcgen [parseBackslash, spanEnd, isLastSpan, setIgnoreNextIndent, -parseBackslash_spec, -parseBackslash_specS,
    -parseBackslash_specT]
  inl_trivW

@[spec 30000]
theorem collectCodeSpan_specW (cs : CodeSpan) :
    ⦃fun s => ⌜Wv c Q s⌝⦄ collectCodeSpan c cs ⦃⇓? _ s => ⌜Wv c Q s⌝⦄ := by
  mvcgen [collectCodeSpan, setUnparsedPos, alloc, addToRoot, nodeLen, getNode, setParent, modifyNode,
    -collectCodeSpan_spec, -collectCodeSpan_specS, -collectCodeSpan_specT,
    -addToRoot_specT, -addToRoot_spec, -addToRoot_specS, -addToRoot_specW]
  inl_inv (Wv c Q)
  inl_norm
  inl_trivW
  all_goals
    inl_subst
    inl_stateW
    have hk : NotEm IK.codeSpan := by unfold NotEm; decide
    first
      | (refine Wg.push ?_ (Or.inr ?_)
         · assumption
         · exact EmP.notEm hk)
      | (refine Wg.modify_pres ?_ ?_
         · refine Wg.push ?_ (Or.inr ?_)
           · assumption
           · exact EmP.notEm hk
         · exact fun _ => ⟨rfl, rfl, rfl⟩)

@[spec 30000]
theorem lookForLinkOrImage_specW :
    ⦃fun s => ⌜Wv c Q s⌝⦄ lookForLinkOrImage ⦃⇓? _ s => ⌜Wv c Q s⌝⦄ := by
  mvcgen [lookForLinkOrImage, -lookForLinkOrImage_spec, -lookForLinkOrImage_specS, -lookForLinkOrImage_specT]
  inl_inv (Wv c Q)
  inl_norm
  inl_trivW

/-- the source as a list and as an array -/
theorem srcA_get (hsrc : c.srcA = c.src.toArray) {q : Nat} {b : UInt8} (h : c.src[q]? = some b) : c.srcA[q]! = b := by
  rw [hsrc]
  simp only [List.getElem!_toArray]
  obtain ⟨hq, hb⟩ := List.getElem?_eq_some_iff.1 h
  rw [getElem!_pos c.src q hq, hb]

theorem endAt_of (hsrc : c.srcA = c.src.toArray) {q : Nat} {b : UInt8} (h : c.src[q]? = some b)
    (hb : b = 0x5D ∨ b = 0x29) : EndAt c ((q : Int) + 1) := by
  refine ⟨by omega, ?_⟩
  have e : ((q : Int) + 1 - 1).toNat = q := by omega
  rw [e, srcA_get hsrc h]
  exact hb

/-- `parseInlineLink` only moves `unparsedPos`; a valid result ends right after a `)`. -/
@[spec 30000]
theorem parseInlineLink_specW (hsrc : c.srcA = c.src.toArray) (start : Int) (s0 : IState) :
    ⦃fun s => ⌜s = s0 ∧ Wv c Q s⌝⦄ parseInlineLink c start
    ⦃⇓? r s => ⌜Wv c Q s ∧ s.nodes = s0.nodes ∧ s.stack = s0.stack ∧ (r.span.isValid = true → EndAt c r.span.stop)⌝⦄ := by
  mvcgen [parseInlineLink, setUnparsedPos, -parseInlineLink_spec, -parseInlineLink_specS, -parseInlineLink_specT]
  all_goals
    have hx := ‹(_ : IState) = _ ∧ (_ : List Tree) = _›
    obtain ⟨hs, -⟩ := hx
    subst hs
    have hy := ‹(_ : IState) = s0 ∧ Wv c Q _›
    obtain ⟨hs0, hW⟩ := hy
    subst hs0
    refine ⟨by first | assumption | (inl_stateW; assumption), rfl, rfl, fun hv => ?_⟩
    first
      | (exfalso; revert hv; decide)
      | (have hc := of_not_bne ‹¬(_ != (41 : UInt8)) = true›
         obtain ⟨h1, h2⟩ := current_byte (r := _) (c := (0x29 : UInt8)) (Prod.ext hc rfl) (by decide) (by decide) (by decide)
         show EndAt c (((_ : Nat) : Int) + 1)
         rw [h1]
         exact endAt_of hsrc h2 (Or.inr rfl))

@[spec 30000]
theorem finishLink_specW (kind odi : Nat) :
    ⦃fun s => ⌜Wv c Q s⌝⦄ finishLink kind odi ⦃⇓? _ s => ⌜Wv c Q s⌝⦄ := by
  mvcgen [finishLink, -finishLink_spec, -finishLink_specS, -finishLink_specT]
  all_goals (try (exact (PostCond.mayThrow (fun p s => ⌜Wv c Q s ∧ StkE c NoN s.nodes p.2⌝))))
  inl_norm
  inl_trivW
  · obtain ⟨h, hst⟩ := ‹Wv c Q _ ∧ StkE _ _ _ _›
    exact ⟨h, hst.set!_same _ _ rfl rfl⟩
  · exact ⟨‹Wv c Q _›, (‹Wv c Q _›).stk⟩
  · obtain ⟨h, hst⟩ := ‹Wv c Q _ ∧ StkE _ _ _ _›
    inl_stateW
    exact h.setStack hst

end

end CM.Proofs.InlH
