import CM.Proofs.InlCoverEmphM
import CM.Proofs.InlSpanBracketM
/-
C03, inline half — between `wrap` and `finishLink`: what was covered before the link node `N` was made stays covered by
nodes other than `N` (whose span is provisional), and so are the positions `P` in the pieces appended so far.
-/
namespace CM.Proofs.InlH
open CM CM.Model CM.Model.Inl CM.Gen CM.Spec

structure LinkCov (c : ICtx) (N : Nat) (a0 : Array INode) (P : Int → Prop) (s : IState) : Prop where
  nn : StkNN c s
  keep : ∀ j, NeedAt c j → CovA a0 j → CovAx s.nodes N j
  pcs : ∀ j, P j → CovAx s.nodes N j
  pathN : Path s.nodes 0 N
  Nlt : N < s.nodes.size
  Nsk : N ∉ stkOf s
  sklt : ∀ k ∈ stkOf s, k < s.nodes.size

section
variable {c : ICtx} {lo hi F : Int} {s s' s1 : IState} {odi kind : Nat}

theorem CovA.lt {a : Array INode} {j : Int} (h : CovA a j) : ∃ i, i ≠ 0 ∧ i < a.size ∧ Path a 0 i ∧ CovN (a[i]!) j := by
  obtain ⟨i, h0, hp, hc⟩ := h
  refine ⟨i, h0, ?_, hp, hc⟩
  rcases Nat.lt_or_ge i a.size with h | h
  · exact h
  · exact absurd hc (CovN_ge h)

/-- After `wrap kind opener none`, in the form the verification conditions present it (cf. `LinkInv.wrap'`). -/
theorem LinkCov.wrap' {r : Nat} {e : DelimE} (hsp : SPT lo hi F s) (hnn : StkNN c s)
    (hsame : Same s' s) (hodi : odi < s.stack.size) (he : s.stack[odi]? = some e)
    (hw : r = s'.nodes.size ∧
      s1.nodes = wrapNodes s' kind e.node none ((pmOf s' e.node).getD 0)
        (cutA (s'.nodes[(pmOf s' e.node).getD 0]!).kids.toList e.node)
        (cutM (cutR (s'.nodes[(pmOf s' e.node).getD 0]!).kids.toList e.node) none)
        (cutT (cutR (s'.nodes[(pmOf s' e.node).getD 0]!).kids.toList e.node) none) ∧
      s1.stack = s'.stack ∧ s1.unparsedPos = s'.unparsedPos ∧ s1.ignoreNextIndent = s'.ignoreNextIndent ∧
      s1.parentMap.size = s'.nodes.size + 1 ∧
      ∀ i, pmOf s1 i =
        if i ∈ cutM (cutR (s'.nodes[(pmOf s' e.node).getD 0]!).kids.toList e.node) none then some s'.nodes.size
        else if i = s'.nodes.size then some ((pmOf s' e.node).getD 0) else pmOf s' i) :
    LinkCov c r s.nodes (fun _ => False) s1 := by
  obtain ⟨hr, h1n, h1st, -, -, -, -⟩ := hw
  subst hr
  have hsp' : SPT lo hi F s' := hsp.same hsame
  obtain ⟨inv, hsz⟩ := hsp'
  have hodi' : odi < s'.stack.size := by rw [hsame.2.1]; exact hodi
  have hee : (s'.stack[odi]!).node = e.node := by rw [hsame.2.1, stack_get hodi he]
  obtain ⟨hsk, hT⟩ := stk_split s' odi hodi'
  rw [hee] at hsk
  have hmem : e.node ∈ stkOf s' := by rw [hsk]; exact List.mem_append_right _ (List.mem_cons_self ..)
  have hpm := inv.high.2 _ (by simpa using hmem)
  rw [hpm] at h1n
  simp only [Option.getD_some] at h1n
  have hoK : e.node ∈ kidsLS s'.nodes 0 := inv.high.1.subset (by simpa using hmem)
  have hK : kidsLS s'.nodes 0 = cutA (kidsLS s'.nodes 0) e.node ++ e.node ::
      (cutM (cutR (kidsLS s'.nodes 0) e.node) none ++ cutT (cutR (kidsLS s'.nodes 0) e.node) none) := by
    rw [← cutMT]; exact cut_eq hoK
  have hkx : KeepX c s'.nodes.size s'.nodes s1.nodes := by
    rw [h1n]; exact KeepX.wrap c _ s' kind e.node none 0 _ _ _ hK inv.pos
  have hstk : stkOf s1 = stkOf s := by unfold stkOf; rw [h1st, hsame.2.1]
  refine { nn := ?_, keep := ?_, pcs := fun _ h => h.elim, pathN := ?_, Nlt := by rw [h1n, wrapNodes_size]; omega,
           Nsk := ?_, sklt := ?_ }
  · refine hnn.of_same (fun k hk => by rw [← hstk]; exact hk) fun k hk => ?_
    rw [hstk] at hk
    have pk := hsp.1.plain k hk
    rw [h1n, wrapNodes_lt s' kind e.node none _ _ _ (by rw [hsame.1]; exact pk.lt) pk.ne0, hsame.1]
    exact ⟨Int.le_refl _, Int.le_refl _⟩
  · intro j hj hc
    rw [← hsame.1] at hc
    obtain ⟨i, h0, hlt, hp, hcn⟩ := hc.lt
    exact hkx j hj ⟨i, h0, by omega, hp, hcn⟩
  · rw [h1n]
    refine Path.step ?_ (Path.refl _)
    unfold kidsLS
    rw [wrapNodes_P s' kind e.node none _ _ _ inv.pos]
    simp
  · rw [hstk]; intro hm
    have := (hsp.1.plain _ hm).lt
    rw [hsame.1] at hm this
    exact absurd this (Nat.lt_irrefl _)
  · intro k hk
    rw [hstk] at hk
    have := (hsp.1.plain k hk).lt
    rw [h1n, wrapNodes_size, hsame.1]; omega

/-- the link node changes (not its `kids`) -/
theorem LinkCov.respan {N : Nat} {a0 : Array INode} {P : Int → Prop}
    (h : LinkCov c N a0 P s) (f : INode → INode)
    (hk : ∀ n, (f n).kids = n.kids) : LinkCov c N a0 P { s with nodes := s.nodes.modify N f } := by
  have hkx : KeepX c N s.nodes (s.nodes.modify N f) := KeepX.modify c N N f hk fun h => absurd rfl h
  refine { nn := ?_, keep := fun j hj hc => hkx j hj (h.keep j hj hc), pcs := ?_, pathN := ?_,
           Nlt := by show N < (s.nodes.modify N f).size; simpa using h.Nlt, Nsk := h.Nsk,
           sklt := fun k hk' => by show k < (s.nodes.modify N f).size; simpa using h.sklt k hk' }
  · refine h.nn.of_same (fun k hk' => hk') fun k hk' => ?_
    have : k ≠ N := fun e => h.Nsk (e ▸ hk')
    show _ ≤ ((s.nodes.modify N f)[k]!).start ∧ ((s.nodes.modify N f)[k]!).stop ≤ _
    rw [get!_modify_neS this]
    exact ⟨Int.le_refl _, Int.le_refl _⟩
  · intro j hp
    obtain ⟨i, h0, hx, hpath, hcn⟩ := h.pcs j hp
    refine ⟨i, h0, hx, hpath.lift fun q k hk' => Path.step (by rw [modify_kids hk]; exact hk') (Path.refl _), ?_⟩
    show CovN ((s.nodes.modify N f)[i]!) j
    rw [get!_modify_neS hx]; exact hcn
  · exact h.pathN.lift fun q k hk' => Path.step (by rw [modify_kids hk]; exact hk') (Path.refl _)

/-- `appendFinished linkNode n` -/
theorem LinkCov.appendKid {N : Nat} {a0 : Array INode} {P : Int → Prop}
    (h : LinkCov c N a0 P s) (n : INode) :
    LinkCov c N a0 (fun j => P j ∨ CovN n j)
      { s with nodes := addKidAS s.nodes N n, parentMap := s.parentMap.push none } := by
  have hkx : KeepX c N s.nodes (addKidAS s.nodes N n) := KeepX.addKid c N n h.Nlt (Or.inr rfl)
  have hlift : ∀ {p i : Nat}, Path s.nodes p i → Path (addKidAS s.nodes N n) p i := fun hp =>
    hp.lift fun q k hk' => Path.step (addKidAS_kids_sub n h.Nlt q k hk') (Path.refl _)
  refine { nn := ?_, keep := fun j hj hc => hkx j hj (h.keep j hj hc), pcs := ?_, pathN := hlift h.pathN,
           Nlt := by show N < (addKidAS s.nodes N n).size; rw [addKidAS_size]; have := h.Nlt; omega,
           Nsk := h.Nsk,
           sklt := fun k hk' => by
             show k < (addKidAS s.nodes N n).size; rw [addKidAS_size]; have := h.sklt k hk'; omega }
  · refine h.nn.of_same (fun k hk' => hk') fun k hk' => ?_
    have h1 : k ≠ N := fun e => h.Nsk (e ▸ hk')
    have h2 := h.sklt k hk' 
    show _ ≤ ((addKidAS s.nodes N n)[k]!).start ∧ ((addKidAS s.nodes N n)[k]!).stop ≤ _
    rw [addKidAS_lt n h2 h1]
    exact ⟨Int.le_refl _, Int.le_refl _⟩
  · rintro j (hp | hp)
    · obtain ⟨i, h0, hx, hpath, hcn⟩ := h.pcs j hp
      have hi : i < s.nodes.size := by
        rcases Nat.lt_or_ge i s.nodes.size with h' | h'
        · exact h'
        · exact absurd hcn (CovN_ge h')
      refine ⟨i, h0, hx, hlift hpath, ?_⟩
      show CovN ((addKidAS s.nodes N n)[i]!) j
      rw [addKidAS_lt n hi hx]; exact hcn
    · exact CovAx.addKid_new N n h.Nlt h.pathN (by have := h.Nlt; omega) hp

/-- `modifyNode linkNode (start := s', stop := e, ref := g ref)` -/
theorem LinkCov.respanA {N : Nat} {a0 : Array INode} {P : Int → Prop} (h : LinkCov c N a0 P s) (s' e : Int)
    (g : Bytes → Bytes) : LinkCov c N a0 P { s with nodes := respanA s.nodes N s' e g } :=
  h.respan _ fun _ => rfl

/-- The postcondition of a link path of `parseEndBracket` from what `finishLink` left. -/
theorem link_goal {N : Nat} {a0 : Array INode} {P : Int → Prop} {s6 : IState} {Q : Prop} {start r : Int}
    (hfin : Q ∧ StkNN c s6 ∧ Keep c s.nodes s6.nodes) (hC : LinkCov c N a0 P s)
    (hseg : ∀ j, start ≤ j → j < r → InRun c j → NeedAt c j → P j) :
    StkNN c s6 ∧ Keep c a0 s6.nodes ∧ CovSeg c s6.nodes start r := by
  obtain ⟨-, g1, g2⟩ := hfin
  refine ⟨g1, fun j hj hc => g2 j hj (hC.keep j hj hc).covA, fun j h1 h2 hr hn => ?_⟩
  exact g2 j hn (hC.pcs j (hseg j h1 h2 hr hn)).covA

/-- At the end: what `finishLink` keeps. -/
theorem LinkCov.finish {N : Nat} {a0 a6 : Array INode} {P : Int → Prop} (h : LinkCov c N a0 P s)
    (hk : Keep c s.nodes a6) : Keep c a0 a6 ∧ ∀ j, P j → NeedAt c j → CovA a6 j :=
  ⟨fun j hj hc => hk j hj (h.keep j hj hc).covA, fun j hp hj => hk j hj (h.pcs j hp).covA⟩

end
end CM.Proofs.InlH
