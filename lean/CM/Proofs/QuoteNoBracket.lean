import CM.Proofs.QuoteMain
/-
C09 (block-quote half): the hypothesis `CloseParaSim` on `onCloseParagraph` holds when neither source contains `[`
(the link-reference-definition scanner gives up at once and returns the paragraph itself), hence the block-phase
theorem without that hypothesis for documents without `[` (`blocks_quote_sim_nobracket`).
-/
namespace CM.Proofs.Quote
open CM CM.Model CM.Gen CM.Proofs.BT CM.Proofs.BSp

/-- The reader never delivers a `[` from a source without one. -/
theorem current_ne_bracket (src : Bytes) (h : ∀ b ∈ src, b ≠ 0x5B) (r : Rd) : (r.current src).1 ≠ 0x5B := by
  have hget : ∀ i, src.getD i 0 ≠ 0x5B := by
    intro i
    by_cases hi : i < src.length
    · exact h _ (getD_mem hi)
    · rw [List.getD_eq_getElem?_getD, List.getElem?_eq_none (by omega)]; decide
  have hnr : ∀ v, nullReplacementString.getD v 0 ≠ 0x5B := by
    intro v
    match v with
    | 0 => decide
    | 1 => decide
    | 2 => decide
    | (k + 3) => show ([239, 191, 189] : Bytes).getD (k + 3) 0 ≠ 0x5B; simp
  unfold Rd.current
  split
  · show (0 : UInt8) ≠ 0x5B; decide
  · simp only []
    split
    · split
      · show SP ≠ 0x5B; decide
      · split
        · exact hnr _
        · exact hget _
    · split
      · exact hnr _
      · exact hget _

theorem onCloseParagraph_bs (x : PExt) (src : Bytes) (l : PLabel) (bs : List PB) (first : Tree) (rest : List Tree) :
    onCloseParagraph x src (.mk l bs (first :: rest)) = onCloseParagraph x src (.mk l [] (first :: rest)) := rfl

/-- **`CloseParaSim` without `[`.** -/
theorem closeParaSim_nobracket (x : PExt) (E : Env) (h1 : ∀ b ∈ E.src, b ≠ 0x5B) (h2 : ∀ b ∈ E.src', b ≠ 0x5B) :
    CloseParaSim x E := by
  intro l l' bs bs' is is' hl _ hk hbs his
  have hkind : l.kind ≠ BK.linkRefDef := by rcases hk with h | h <;> rw [h] <;> decide
  cases his with
  | nil =>
    show L2 (BR E) [.mk l bs []] [.mk l' bs' []]
    apply L2.single
    rw [BR_mk]
    refine ⟨hl, hbs, ?_⟩
    unfold InlR; rw [if_neg hkind]; exact .nil
  | cons r t =>
    rename_i a a' as as'
    rw [onCloseParagraph_bs x E.src l bs a as, onCloseParagraph_bs x E.src' l' bs' a' as',
      onCloseParagraph_no_bracket x E.src l (a :: as) (fun _ _ _ => current_ne_bracket E.src h1 _),
      onCloseParagraph_no_bracket x E.src' l' (a' :: as') (fun _ _ _ => current_ne_bracket E.src' h2 _)]
    apply L2.single
    rw [BR_mk]
    refine ⟨hl, .nil, ?_⟩
    unfold InlR; rw [if_neg hkind]; exact .cons r t

/-- The bytes of `quote D`: those of `D`, `>` and space. -/
theorem mem_quote {D : Bytes} {b : UInt8} (h : b ∈ quote D) : b ∈ D ∨ b = GT ∨ b = SP := by
  have key : ∀ (l : Bytes), b ∈ qgo l → b ∈ l ∨ b = GT ∨ b = SP := by
    intro l
    induction l with
    | nil => intro hb; simp [qgo] at hb
    | cons a rest ih =>
      intro hb
      simp only [qgo] at hb
      split at hb
      · rename_i ha
        split at hb
        · simp only [List.mem_singleton] at hb
          left; rw [hb, ha]; exact List.mem_cons_self ..
        · simp only [List.mem_cons] at hb
          rcases hb with hb | hb | hb | hb
          · left; rw [hb, ha]; exact List.mem_cons_self ..
          · right; left; exact hb
          · right; right; exact hb
          · rcases ih hb with h' | h'
            · left; exact List.mem_cons_of_mem _ h'
            · right; exact h'
      · simp only [List.mem_cons] at hb
        rcases hb with hb | hb
        · left; rw [hb]; exact List.mem_cons_self ..
        · rcases ih hb with h' | h'
          · left; exact List.mem_cons_of_mem _ h'
          · right; exact h'
  unfold quote at h
  split at h
  · simp at h
  · simp only [List.mem_cons] at h
    rcases h with h | h | h
    · right; left; exact h
    · right; right; exact h
    · exact key D h

/-- The trivial relation between the inline children of link reference definitions (there are none without `[`). -/
def DRtriv : List Tree → List Tree → Prop := fun _ _ => True

theorem setup_nobracket (x : PExt) (D : Bytes) (hc : Clean D) (hne : D ≠ []) (hnb : ∀ b ∈ D, b ≠ 0x5B) :
    Setup x DRtriv D := by
  refine ⟨hc, hne, fun _ _ _ _ => trivial, ?_⟩
  intro c s s' done
  apply closeParaSim_nobracket
  · intro b hb
    exact hnb b (List.mem_of_mem_drop (List.mem_of_mem_take hb))
  · intro b hb
    rcases mem_quote (List.mem_of_mem_take hb) with h | h | h
    · exact hnb b h
    · rw [h]; decide
    · rw [h]; decide

/-- **C09, block-quote half, block phase, documents without `[`**: no hypothesis on `onCloseParagraph`. -/
theorem blocks_quote_sim_nobracket (x : PExt) (D : Bytes) (hc : Clean D) (hne : D ≠ []) (hnb : ∀ b ∈ D, b ≠ 0x5B)
    (hout : isEof (drain (blocksLPc x) (D.length + 8) (memParser D) []).2.1 = true) :
    ∃ (rq : Root) (pQ : BP),
      drain (blocksLP x) ((quote D).length + 8) (memParser (quote D)) [] = ([rq], .err .eof, pQ) ∧
      rq.source = quote D ∧ rq.startOffset = 0 ∧ rq.endOffset = (quote D).length ∧
      QuoteRelated DRtriv D (drain (blocksLP x) (D.length + 8) (memParser D) []).1 rq.block :=
  blocks_quote_sim_partial (setup_nobracket x D hc hne hnb) hout

/-! ### what remains -/

/-- What remains to be proved for documents that contain `[`: the link-reference-definition scanner of
    `onCloseParagraph` respects the relation, for a suitable relation `DR` between the inline children of corresponding
    definitions (kinds, ends through `psiS`/`psiE`, the same `ref`; a Text node of the bare side that spans `k` lines
    corresponds to `k` Text nodes, because the line-jumping reader ends a text node at every jump over a `> ` prefix).
    This needs the reader of `Model/Reader.lean` / `Model/LinkParse.lean` to be simulated (`parseLinkLabel`,
    `parseLinkDestination`, `parseLinkTitle`, `readEOL`, `collectTextNodes`, `transformLinkReferenceSpan`), and the
    inline children of both paragraphs to be known in order and non-overlapping. Not proved here. -/
def closeParaSim_target : Prop :=
  ∀ (x : PExt) (D : Bytes), Clean D → D ≠ [] → ∃ DR : List Tree → List Tree → Prop, Setup x DR D

/-- The unconditional relational statement: `closeParaSim_target`, and the run of the checked parser on `D` ends
    normally (its span check `RefDefSpansOK` never fails: `refDefSpansOK_target` of `BlocksSpansStream.lean`). -/
def blocks_quote_sim_rel_target : Prop :=
  ∀ (x : PExt) (D : Bytes), Clean D → D ≠ [] → ∃ (DR : List Tree → List Tree → Prop) (rq : Root) (pQ : BP),
    drain (blocksLP x) ((quote D).length + 8) (memParser (quote D)) [] = ([rq], .err .eof, pQ) ∧
    rq.source = quote D ∧ rq.startOffset = 0 ∧ rq.endOffset = (quote D).length ∧
    QuoteRelated DR D (drain (blocksLP x) (D.length + 8) (memParser D) []).1 rq.block

/-- The relational statement follows from the two open hypotheses. -/
theorem blocks_quote_sim_rel_of (h1 : closeParaSim_target)
    (h2 : ∀ (x : PExt) (D : Bytes), Clean D → D ≠ [] →
      isEof (drain (blocksLPc x) (D.length + 8) (memParser D) []).2.1 = true) :
    blocks_quote_sim_rel_target := by
  intro x D hc hne
  obtain ⟨DR, S⟩ := h1 x D hc hne
  obtain ⟨rq, pQ, h⟩ := blocks_quote_sim_partial S (h2 x D hc hne)
  exact ⟨DR, rq, pQ, h⟩

/-! ### non-vacuity -/

/-- A paragraph, a blank line, a nested block quote with a lazy line, a list with a blank line between its items, an
    indented code block, a fenced code block that is never closed. -/
def qDoc : Bytes := Bytes.ofString "a\nb\n\n> q\nlazy\n\n- x\n\n- y\n\n    code\n```go\nz"

example : Clean qDoc := by decide +kernel
example : qDoc ≠ [] := by decide +kernel
example : ∀ b ∈ qDoc, b ≠ 0x5B := by decide +kernel
example : isEof (drain (blocksLPc qX) (qDoc.length + 8) (memParser qDoc) []).2.1 = true := by decide +kernel
-- four roots on the bare side
example : (drain (blocksLP qX) (qDoc.length + 8) (memParser qDoc) []).1.length = 4 := by decide +kernel

/-- The theorem applied to `qDoc`. -/
example : ∃ (rq : Root) (pQ : BP),
    drain (blocksLP qX) ((quote qDoc).length + 8) (memParser (quote qDoc)) [] = ([rq], .err .eof, pQ) ∧
    rq.source = quote qDoc ∧ rq.startOffset = 0 ∧ rq.endOffset = (quote qDoc).length ∧
    QuoteRelated DRtriv qDoc (drain (blocksLP qX) (qDoc.length + 8) (memParser qDoc) []).1 rq.block :=
  blocks_quote_sim_nobracket qX qDoc (by decide +kernel) (by decide +kernel) (by decide +kernel) (by decide +kernel)

end CM.Proofs.Quote
