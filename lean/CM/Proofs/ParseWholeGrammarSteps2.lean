import CM.Proofs.ParseWholeGrammarSteps
/-
C05, inline half — the invariant `Om` on the states of the tokenizer and of `parseEndBracket`.
-/
namespace CM.Proofs.InlH
open CM CM.Model CM.Model.Inl CM.Spec

/-- `Om` looks at the arena, `parentMap` and the nodes of the stack entries only. -/
theorem Om.congr {s s' : IState} {b P0 : Nat} (h : Om s b P0) (hn : s'.nodes = s.nodes) (hp : s'.parentMap = s.parentMap)
    (hs : stN s'.stack = stN s.stack) : Om s' b P0 := by
  unfold Om at h ⊢
  rw [hn, hp, hs]; exact h

/-- the state after `alloc n` -/
def allocState (s : IState) (n : INode) : IState :=
  { s with nodes := s.nodes.push n, parentMap := s.parentMap.push none }

theorem pm_push_get (pm : Array (Option Nat)) {x : Nat} (hx : x < pm.size) : ((pm.push none)[x]?).join = (pm[x]?).join := by
  rw [Array.getElem?_push, if_neg (by omega)]

/-- `alloc` alone (the new node is not linked anywhere) -/
theorem Om.alloc {s : IState} {b P0 : Nat} (h : Om s b P0) (n : INode) (hn : n.kids = #[]) : Om (allocState s n) b P0 := by
  refine ⟨h.1.push hn, ?_⟩
  have hk : ∀ i, i < s.nodes.size → ((s.nodes.push n)[i]!).kids = (s.nodes[i]!).kids := by
    intro i hi; rw [getElem!_push_lt hi]
  refine h.2.frame (KSame.push _ _) (by simp [allocState, h.2.pmsz])
    (by rw [show (allocState s n).nodes = s.nodes.push n from rfl, hk 0 h.1.pos]; exact List.Sublist.refl _)
    (by rw [show (allocState s n).nodes = s.nodes.push n from rfl, hk P0 h.2.p0]; exact List.Sublist.refl _) ?_ ?_
  · intro hne x hx
    rw [show (allocState s n).nodes = s.nodes.push n from rfl, hk P0 h.2.p0]; exact h.2.disj hne x hx
  · intro x hx
    exact pm_push_get _ (by rw [h.2.pmsz]; exact (h.2.stk x hx).1)

/-- `alloc` of a phrasing leaf followed by `addToRoot` -/
theorem Om.addRoot {s : IState} (h : Om s 0 0) (n : INode) (hn : n.kids = #[]) (hk : phr n.kind = true) :
    Om (addRootState (allocState s n) s.nodes.size) 0 0 := by
  unfold addRootState
  split
  · exact h.alloc n hn
  · have hA : AOK ((s.nodes.push n).modify 0 (fun r => { r with kids := r.kids.push s.nodes.size })) :=
      h.1.addKid_wrap hn h.1.pos (by rw [h.1.root]; exact Or.inl rfl) hk
    refine ⟨hA, ?_⟩
    have hroot : (((s.nodes.push n).modify 0 (fun r => { r with kids := r.kids.push s.nodes.size }))[0]!).kids.toList =
        (s.nodes[0]!).kids.toList ++ [s.nodes.size] := by
      rw [kids_modify_self _ (by simp), getElem!_push_lt h.1.pos]; simp
    refine h.2.frame ((KSame.push _ _).trans (KSame.modify _ _ (by intro _; rfl))) (by simp [allocState, h.2.pmsz]) ?_ ?_
      (fun hne => absurd rfl hne) ?_
    · show List.Sublist _ (((s.nodes.push n).modify 0 _)[0]!).kids.toList
      rw [hroot]; exact List.sublist_append_left _ _
    · show List.Sublist _ (((s.nodes.push n).modify 0 _)[0]!).kids.toList
      rw [hroot]; exact List.sublist_append_left _ _
    · intro x hx
      have hxs := (h.2.stk x hx).1
      show ((((s.parentMap.push none).set! s.nodes.size (some 0)))[x]?).join = _
      rw [pm_set_other _ _ (by omega)]
      exact pm_push_get _ (by rw [h.2.pmsz]; exact hxs)

/-- `alloc` of a non-empty Text node, `addToRoot`, `pushStack` (a delimiter run, `[`, `![`) -/
theorem Om.pushDelim {s : IState} (h : Om s 0 0) (n : INode) (e : DelimE) (hn : n.kids = #[]) (hk : n.kind = IK.text)
    (hlen : spanLenI n.start n.stop ≠ 0) (he : e.node = s.nodes.size) :
    Om { (addRootState (allocState s n) s.nodes.size) with
          stack := (addRootState (allocState s n) s.nodes.size).stack.push e } 0 0 := by
  have hget : (allocState s n).nodes[s.nodes.size]! = n := getElem!_push_size
  unfold addRootState
  rw [hget, if_neg (by simpa using hlen)]
  have hA : AOK ((s.nodes.push n).modify 0 (fun r => { r with kids := r.kids.push s.nodes.size })) :=
    h.1.addKid_wrap hn h.1.pos (by rw [h.1.root]; exact Or.inl rfl) (by rw [hk]; decide)
  refine ⟨hA, ?_⟩
  show SOK _ _ (stN (s.stack.push e)) 0 0
  rw [stN_push, he]
  exact h.2.pushDelim h.1 n hk

/-- a new stack whose entries have the same nodes -/
theorem Om.setStack {s : IState} {b P0 : Nat} (h : Om s b P0) (st : Array DelimE) (hs : stN st = stN s.stack) :
    Om { s with stack := st } b P0 := h.congr rfl rfl hs

/-- `importNode` of a phrasing leaf -/
theorem Om.importNode {s : IState} (h : Om s 0 0) (n : INode) (hn : n.kids = #[]) (hk : phr n.kind = true) :
    Om { s with nodes := (s.nodes.push n).modify 0 (fun r => { r with kids := r.kids.push s.nodes.size }),
                parentMap := s.parentMap.push none } 0 0 := by
  have hA : AOK ((s.nodes.push n).modify 0 (fun r => { r with kids := r.kids.push s.nodes.size })) :=
    h.1.addKid_wrap hn h.1.pos (by rw [h.1.root]; exact Or.inl rfl) hk
  refine ⟨hA, ?_⟩
  have hroot : (((s.nodes.push n).modify 0 (fun r => { r with kids := r.kids.push s.nodes.size }))[0]!).kids.toList =
      (s.nodes[0]!).kids.toList ++ [s.nodes.size] := by
    rw [kids_modify_self _ (by simp), getElem!_push_lt h.1.pos]; simp
  refine h.2.frame ((KSame.push _ _).trans (KSame.modify _ _ (by intro _; rfl))) (by simp [h.2.pmsz]) ?_ ?_
    (fun hne => absurd rfl hne) ?_
  · show List.Sublist _ (((s.nodes.push n).modify 0 _)[0]!).kids.toList
    rw [hroot]; exact List.sublist_append_left _ _
  · show List.Sublist _ (((s.nodes.push n).modify 0 _)[0]!).kids.toList
    rw [hroot]; exact List.sublist_append_left _ _
  · intro x hx
    exact pm_push_get _ (by rw [h.2.pmsz]; exact (h.2.stk x hx).1)

/-! ### building a link -/

/-- The fresh link / image node `L`: no reference yet, phrasing content, and behind it nodes of the kinds `tl`. -/
def LKT (s : IState) (L : Nat) (tl : List Nat) : Prop :=
  L < s.nodes.size ∧ isLinkKind (kindOf s.nodes L) ∧ (s.nodes[L]!).ref = [] ∧
    ∃ pre t, (s.nodes[L]!).kids.toList = pre ++ t ∧ AllPhr s.nodes pre ∧ t.map (kindOf s.nodes) = tl

/-- **the `wrap` that makes a link / image** around everything behind the opener `odi` -/
theorem Om.wrapLink {s s5 : IState} (h : Om s 0 0) {kind o r odi : Nat} (hW : WrapPost s s5 kind o none r)
    (hkind : isLinkKind kind) (ho : (stN s.stack)[odi]? = some o) :
    Om s5 (odi + 1) r ∧ LKT s5 r [] ∧ r = s.nodes.size := by
  obtain ⟨P, si, ei, nd, hj, hk, hnr, hr, hsi, _, hso, hse, _, hei, hn, hst, hpm⟩ := hW
  have hoN : o ∈ stN s.stack := List.mem_of_getElem? ho
  have hPe : P = 0 := by
    have := h.2.upperP o (by rw [List.drop_zero]; exact hoN)
    rw [hj] at this; exact Option.some.inj this
  subst hPe
  have ho0 : o ≠ 0 := by
    intro e
    have := (h.2.stk o hoN).2
    rw [e, h.1.root] at this
    revert this; decide
  have hso' := getElem!_toList hso ho0
  have hei' : (s.nodes[0]!).kids.toList.length ≤ ei := by simpa using hei rfl
  have hkindw : nd.kind = IK.emphasis ∨ nd.kind = IK.strong ∨ nd.kind = IK.link ∨ nd.kind = IK.image := by
    rw [hk]; rcases hkind with e | e
    · exact Or.inr (Or.inr (Or.inl e))
    · exact Or.inr (Or.inr (Or.inr e))
  have hA' : AOK (wrapArena s.nodes nd 0 si ei) :=
    h.1.wrap h.1.pos hkindw hse (Or.inl (by rw [h.1.root]; exact Or.inl rfl))
      (fun hl => by rw [h.1.root] at hl; rcases hl with e | e <;> cases e)
  have hS' := h.2.wrapLink h.1 nd ho hsi hso' hse hei' (by rw [hk]; exact hkind) hpm
  subst hr
  refine ⟨⟨by rw [hn]; exact hA', by rw [hn, hst]; exact hS'⟩, ⟨by rw [hn, wrapArena_size]; omega, ?_, ?_, ?_⟩, rfl⟩
  · rw [hn]; unfold kindOf; rw [wrapArena_new _ _ _ _ _ h.1.pos]; rw [hk]; exact hkind
  · rw [hn, wrapArena_new _ _ _ _ _ h.1.pos]; exact hnr
  · refine ⟨_, [], by rw [List.append_nil], ?_, rfl⟩
    rw [hn, wrapArena_new _ _ _ _ _ h.1.pos]
    show AllPhr _ (wrapMoved s.nodes 0 si ei).toList
    have hroot := (h.1.get! h.1.pos).2.2
    have hv := (h.1.get! h.1.pos).1
    unfold KidsOK at hroot
    have hw : isWrapKind (s.nodes[0]!).kind := by
      have := h.1.root; unfold kindOf at this; rw [this]; exact Or.inl rfl
    rw [if_pos hw] at hroot
    have hsub : (wrapMoved s.nodes 0 si ei).toList.Sublist (s.nodes[0]!).kids.toList := by
      unfold wrapMoved; rw [extract_toList]; exact mvL_sublist _ _ _
    exact (allPhr_sublist hsub hroot).same (wrapArena_ksame _ _ _ _ _) (fun k hk' => hv k (hsub.subset hk'))

theorem get!_modify_fields (a : Array INode) (L i : Nat) (f : INode → INode)
    (hk : ∀ m, (f m).kind = m.kind) (hr : ∀ m, (f m).ref = m.ref) (hc : ∀ m, (f m).kids = m.kids) :
    ((a.modify L f)[i]!).kind = (a[i]!).kind ∧ ((a.modify L f)[i]!).ref = (a[i]!).ref ∧
      ((a.modify L f)[i]!).kids = (a[i]!).kids := by
  by_cases hi : L = i
  · subst hi
    by_cases hlt : L < a.size
    · rw [kids_modify_self _ hlt]; exact ⟨hk _, hr _, hc _⟩
    · rw [getElem!_neg _ L (by simpa using hlt), getElem!_neg _ L hlt]; exact ⟨rfl, rfl, rfl⟩
  · rw [kids_modify_other _ hi]; exact ⟨rfl, rfl, rfl⟩

/-- the span of the fresh link is set -/
theorem LKT.modify_same {s : IState} {L : Nat} {tl : List Nat} (h : LKT s L tl) (id : Nat) (f : INode → INode)
    (hk : ∀ m, (f m).kind = m.kind) (hr : ∀ m, (f m).ref = m.ref) (hc : ∀ m, (f m).kids = m.kids) :
    LKT { s with nodes := s.nodes.modify id f } L tl := by
  obtain ⟨h1, h2, h3, pre, t, e, hp, ht⟩ := h
  have hs : KSame s.nodes (s.nodes.modify id f) := KSame.modify _ _ hk
  have hko : ∀ k, kindOf (s.nodes.modify id f) k = kindOf s.nodes k := fun k => kindOf_modify hk
  obtain ⟨_, g2, g3⟩ := get!_modify_fields s.nodes id L f hk hr hc
  refine ⟨by simpa using h1, by rw [show ({ s with nodes := s.nodes.modify id f } : IState).nodes = s.nodes.modify id f from rfl, hko]; exact h2,
    by show ((s.nodes.modify id f)[L]!).ref = []; rw [g2]; exact h3, pre, t,
    by show ((s.nodes.modify id f)[L]!).kids.toList = _; rw [g3]; exact e, ?_, ?_⟩
  · intro k hk'; show phr (kindOf (s.nodes.modify id f) k) = true; rw [hko]; exact hp k hk'
  · show t.map (kindOf (s.nodes.modify id f)) = tl
    rw [← ht]; apply List.map_congr_left; intro k _; exact hko k

/-- a collapsed / shortcut reference: the fresh link (nothing behind its content) gets its reference -/
theorem Om.setRef {s : IState} {b L : Nat} (h : Om s b L) (hL : LKT s L []) (f : INode → INode)
    (hk : ∀ m, (f m).kind = m.kind) (hc : ∀ m, (f m).kids = m.kids) :
    Om { s with nodes := s.nodes.modify L f } b L := by
  obtain ⟨h1, h2, h3, pre, t, e, hp, ht⟩ := hL
  have ht0 : t = [] := by simpa using ht
  subst ht0
  have hLe : s.nodes[L]! = s.nodes[L] := getElem!_pos s.nodes L h1
  have hA : AOK (s.nodes.modify L f) := by
    refine h.1.modify_kids h1 hk ?_ ?_ ?_
    · rw [hc]; exact h.1.valid L h1
    · rw [hc]; exact h.1.nodup L h1
    · unfold KidsOK
      have hl : isLinkKind (f s.nodes[L]).kind := by rw [hk, ← hLe]; exact h2
      have hnw : ¬ isWrapKind (f s.nodes[L]).kind := by
        unfold isWrapKind isLinkKind at *
        rcases hl with e' | e' <;> rw [e'] <;> decide
      rw [if_neg hnw, if_pos hl, hc]
      exact ⟨pre, [], by rw [← hLe]; exact e, hp, rfl, fun _ => rfl⟩
  refine ⟨hA, ?_⟩
  have hkids : ∀ i : Nat, ((s.nodes.modify L f)[i]!).kids = (s.nodes[i]!).kids := by
    intro i
    by_cases hi : L = i
    · subst hi; rw [kids_modify_self _ h1, hc]
    · rw [kids_modify_other _ hi]
  refine h.2.frame (KSame.modify _ _ hk) (by simpa using h.2.pmsz) (by rw [hkids]; exact List.Sublist.refl _)
    (by rw [hkids]; exact List.Sublist.refl _) ?_ (fun _ _ => rfl)
  intro hne x hx
  rw [hkids]; exact h.2.disj hne x hx

/-- `appendFinished` behind the content of the fresh link (`P0 = L`) -/
theorem Om.appendTail {s : IState} {b L : Nat} {tl : List Nat} (h : Om s b L) (hL : LKT s L tl) (n : INode)
    (hn : n.kids = #[]) (htl : tailOK (tl ++ [n.kind]) = true) :
    Om (appendState s L n) b L ∧ LKT (appendState s L n) L (tl ++ [n.kind]) := by
  obtain ⟨h1, h2, h3, pre, t, e, hp, ht⟩ := hL
  have hLe : s.nodes[L]! = s.nodes[L] := getElem!_pos s.nodes L h1
  have hL0 : L ≠ 0 := by
    intro e0
    rw [e0, h.1.root] at h2
    rcases h2 with e' | e' <;> cases e'
  have hA : AOK ((s.nodes.push n).modify L (fun m => { m with kids := m.kids.push s.nodes.size })) :=
    h.1.addKid_tail hn h1 h2 (by rw [← hLe]; exact h3) pre t (by rw [← hLe]; exact e) hp (by rw [ht]; exact htl)
  have hs : KSame s.nodes ((s.nodes.push n).modify L (fun m => { m with kids := m.kids.push s.nodes.size })) :=
    (KSame.push _ _).trans (KSame.modify _ _ (by intro _; rfl))
  have hkL : (((s.nodes.push n).modify L (fun m => { m with kids := m.kids.push s.nodes.size }))[L]!).kids.toList =
      (s.nodes[L]!).kids.toList ++ [s.nodes.size] := by
    rw [kids_modify_self _ (by simp; omega), getElem!_push_lt h1]; simp
  have hk0 : (((s.nodes.push n).modify L (fun m => { m with kids := m.kids.push s.nodes.size }))[0]!).kids =
      (s.nodes[0]!).kids := by
    rw [kids_modify_other _ hL0, getElem!_push_lt h.1.pos]
  refine ⟨⟨hA, ?_⟩, ?_⟩
  · refine h.2.frame hs (by simp [appendState, h.2.pmsz]) (by show List.Sublist _ (((s.nodes.push n).modify L _)[0]!).kids.toList; rw [hk0]; exact List.Sublist.refl _)
      (by show List.Sublist _ (((s.nodes.push n).modify L _)[L]!).kids.toList; rw [hkL]; exact List.sublist_append_left _ _) ?_ ?_
    · intro _ x hx hm
      have hm' : x ∈ (((s.nodes.push n).modify L (fun m => { m with kids := m.kids.push s.nodes.size }))[L]!).kids.toList := hm
      rw [hkL, List.mem_append, List.mem_singleton] at hm'
      rcases hm' with hm' | hm'
      · exact h.2.disj hL0 x hx hm'
      · have := (h.2.stk x ((List.take_sublist _ _).subset hx)).1; omega
    · intro x hx
      exact pm_push_get _ (by rw [h.2.pmsz]; exact (h.2.stk x hx).1)
  · refine ⟨by simp [appendState]; omega, by show isLinkKind (kindOf ((s.nodes.push n).modify L _) L); rw [hs.2 L h1]; exact h2, ?_,
      pre, t ++ [s.nodes.size], ?_, ?_, ?_⟩
    · show (((s.nodes.push n).modify L (fun m => { m with kids := m.kids.push s.nodes.size }))[L]!).ref = []
      rw [kids_modify_self _ (by simp; omega), getElem!_push_lt h1]; exact h3
    · show (((s.nodes.push n).modify L (fun m => { m with kids := m.kids.push s.nodes.size }))[L]!).kids.toList = _
      rw [hkL, e, List.append_assoc]
    · exact hp.same hs (fun k hk' => (h.1.get! h1).1 k (by rw [e]; exact List.mem_append_left _ hk'))
    · show (t ++ [s.nodes.size]).map (kindOf ((s.nodes.push n).modify L _)) = tl ++ [n.kind]
      rw [List.map_append, map_kindOf_same hs (fun k hk' => (h.1.get! h1).1 k (by rw [e]; exact List.mem_append_right _ hk')), ht]
      simp only [List.map_cons, List.map_nil]
      rw [kindOf_modify (by intro _; rfl), kindOf_push_size]

/-- the end of `finishLink`: everything above the opener is gone; the opener's node is removed and its entry deleted -/
theorem Om.finish {s s3 s2 : IState} {odi L : Nat} {e : DelimE} (h : Om s (odi + 1) L) (hsz : s.stack.size = odi + 1)
    (he : s.stack[odi]? = some e)
    (hR : ∃ P, (s.parentMap[e.node]?).join = some P ∧ s3 = removeState s e.node P)
    (hd : s2 = delState s3 odi (odi + 1)) : Om s2 0 0 := by
  have h0 : Om s 0 0 := ⟨h.1, h.2.rebase h.1 (by rw [stN_length, hsz])⟩
  have hx : (stN s.stack)[odi]? = some e.node := by
    rw [stN_get _ _ (by omega)]
    have : s.stack[odi]! = e := by
      rw [getElem!_pos _ _ (by omega)]
      rw [Array.getElem?_eq_getElem (by omega)] at he
      exact Option.some.inj he
    rw [this]
  exact (pe_remove h0 (Nat.zero_le _) hx hR hd).1

end CM.Proofs.InlH
