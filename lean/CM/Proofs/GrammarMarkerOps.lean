import CM.Proofs.GrammarMarkerClose
import CM.Proofs.GrammarLooseOps
/-
C05, block half — the list marker of an item: the tree operations of the line parser keep `PBMark src` of the root
(for any fixed `src`; only `startListItem` creates markers, file `GrammarMarkerList`).
-/
namespace CM.Proofs.GM
open CM CM.Model CM.Gen
open CM.Proofs.BT CM.Proofs.BG CM.Proofs.GL

variable {src : Bytes}

theorem PBM_container (p : LP) (h : TreeOK p) (hM : PBMark src p.root) : PBMark src p.container :=
  PBM_spineGet p.depth p.root _ hM (container_eq p h.valid)

/-! ### closing -/

theorem replaceLastFn_M (g : PB → List PB)
    (hg : ∀ c, PBGrammar c → PBMark src c → (∀ c' ∈ g c, PBMark src c') ∧ MRes c (g c)) (c : PB) (hG : PBGrammar c)
    (h : PBMark src c) : PBMark src (replaceLastFn g c) ∧ MRes c [replaceLastFn g c] := by
  obtain ⟨l, bs, is⟩ := c
  simp only [replaceLastFn]
  cases hgl : bs.getLast? with
  | none => exact ⟨h, MRes.refl _⟩
  | some c0 =>
    simp only []
    have hcm : c0 ∈ bs := List.mem_of_getLast? hgl
    have r := hg c0 (((PBGrammar_mk l bs is).1 hG).2 c0 hcm) (((PBMark_mk src l bs is).1 h).2 c0 hcm)
    exact ⟨PBM_replaceLast hG h hgl r.2 r.1, MRes.same rfl rfl rfl⟩

theorem spineReplaceLast_M (x : PExt) (s : Bytes) (e : Int) (root : PB) (d : Nat) (hG : PBGrammar root)
    (h : PBMark src root) : PBMark src (spineReplaceLast (closeBlock x s e) root d) := by
  rw [spineReplaceLast_eq]
  exact (PBM_spineModify _ d root (fun c _ hcG hc => replaceLastFn_M _ (closeBlock_M x s e) c hcG hc) hG h).1

theorem closeContainer_M (x : PExt) (p : LP) (e : Int) (hG : PBGrammar p.root) (h : PBMark src p.root) :
    PBMark src (p.closeContainer x e).root := by
  unfold LP.closeContainer
  split
  · show PBMark src ((closeBlock x p.source e p.root).headD p.root)
    have r := closeBlock_M (src0 := src) x p.source e p.root hG h
    cases hc : closeBlock x p.source e p.root with
    | nil => exact h
    | cons a rest => exact r.1 a (by rw [hc]; exact List.mem_cons_self ..)
  · exact spineReplaceLast_M x p.source e p.root _ hG h

theorem closeLastChild_M (x : PExt) (p : LP) (e : Int) (hG : PBGrammar p.root) (h : PBMark src p.root) :
    PBMark src (p.closeLastChild x e).root :=
  spineReplaceLast_M x p.source e p.root _ hG h

theorem endBlock_M (x : PExt) (p : LP) (hG : PBGrammar p.root) (h : PBMark src p.root) : PBMark src (p.endBlock x).root := by
  unfold LP.endBlock
  split
  · rw [(setPanic_root p _).1]; exact h
  · rw [markMatched_eq]
    exact closeContainer_M x _ _ hG h

theorem openBlockLoop_M (x : PExt) (kind : Nat) : ∀ (fuel : Nat) (p : LP), PBGrammar p.root → PBMark src p.root →
    PBMark src (LP.openBlockLoop x kind fuel p).root := by
  intro fuel
  induction fuel with
  | zero => intro p _ h; exact h
  | succ fuel ih =>
    intro p hG h
    unfold LP.openBlockLoop
    split
    · exact h
    · split
      · rw [(setPanic_root p _).1]; exact h
      · exact ih _ (closeContainer_G x p _ hG) (closeContainer_M x p _ hG h)

/-! ### editing the container -/

theorem modifyContainer_M (p : LP) (f : PB → PB) (hT : TreeOK p) (hG : PBGrammar p.root) (h : PBMark src p.root)
    (hf : PBGrammar p.container → PBMark src p.container → PBMark src (f p.container) ∧ MRes p.container [f p.container]) :
    PBMark src (p.modifyContainer f).root := by
  unfold LP.modifyContainer
  refine (PBM_spineModify f p.depth p.root ?_ hG h).1
  intro c hc hcG hcL
  rw [container_eq p hT.valid] at hc
  cases hc
  exact hf hcG hcL

theorem appendInl_M (t : Tree) (c : PB) (h : PBMark src c) : PBMark src (appendInl t c) ∧ MRes c [appendInl t c] := by
  obtain ⟨l, bs, is⟩ := c
  exact ⟨PBM_relabel (l := l) rfl rfl h, MRes.same rfl rfl rfl⟩

theorem appendInline_M (p : LP) (t : Tree) (hT : TreeOK p) (hG : PBGrammar p.root) (h : PBMark src p.root) :
    PBMark src (p.appendInline t).root := by
  rw [appendInline_eq]
  exact modifyContainer_M p _ hT hG h (fun _ hc => appendInl_M t _ hc)

theorem setLabel_M {f : PLabel → PLabel} (hk : ∀ l, (f l).kind = l.kind) (hc : ∀ l, (f l).char = l.char)
    (h1 : ∀ l, (f l).start = l.start) (h2 : ∀ l, (f l).stop = l.stop) (c : PB) (h : PBMark src c) :
    PBMark src (c.setLabel f) ∧ MRes c [c.setLabel f] := by
  refine ⟨PBM_setLabel hk hc h, ?_⟩
  obtain ⟨l, bs, is⟩ := c
  exact MRes.same (hk l) (h1 l) (h2 l)

theorem setContainerIndent_M (p : LP) (n : Int) (hT : TreeOK p) (hG : PBGrammar p.root) (h : PBMark src p.root) :
    PBMark src (p.setContainerIndent n).root := by
  unfold LP.setContainerIndent
  split
  · rw [(setPanic_root p _).1]; exact h
  · split
    · rw [(setPanic_root p _).1]; exact h
    · exact modifyContainer_M p _ hT hG h
        (fun _ hc => setLabel_M (f := fun l => { l with indent := n }) (fun _ => rfl) (fun _ => rfl) (fun _ => rfl) (fun _ => rfl) _ hc)

/-! ### openBlock -/

theorem obPre_M (x : PExt) (p : LP) (kind : Nat) (hG : PBGrammar p.root) (h : PBMark src p.root) :
    PBMark src (obPre x p kind).root := by
  unfold obPre
  have h1 : PBMark src ({ p with state := mm p.state } : LP).root := h
  have ol := openBlockLoop_M x kind (p.depth + 1) { p with state := mm p.state } hG h1
  have og := openBlockLoop_G x kind (p.depth + 1) { p with state := mm p.state } hG
  generalize LP.openBlockLoop x kind (p.depth + 1) { p with state := mm p.state } = p2 at ol og
  exact closeLastChild_M x p2 _ og ol

/-- Appending a child that is not a list marker. -/
theorem appendChild_M {c C : PB} (hc : PBMark src c) (hC : PBMark src C) (h : C.kind ≠ BK.listMarker) :
    PBMark src (appendChild C c) := by
  obtain ⟨l, bs, is⟩ := c
  show PBMark src (.mk l (bs ++ [C]) is)
  rw [PBMark_mk] at hc ⊢
  refine ⟨?_, ?_⟩
  · cases bs with
    | nil =>
      unfold markLocal
      have : (C.kind != BK.listMarker) = true := by simpa using h
      simp [this]
    | cons m r =>
      rw [← hc.1]
      exact markLocal_congr rfl rfl (by simp [headKey])
  · intro b hb
    rw [List.mem_append] at hb
    rcases hb with hb | hb
    · exact hc.2 b hb
    · simp only [List.mem_singleton] at hb; subst hb; exact hC

/-- Appending a child to a block that is not a list item. -/
theorem appendChild_M' {c C : PB} (hc : PBMark src c) (hC : PBMark src C) (h : c.kind ≠ BK.listItem) :
    PBMark src (appendChild C c) := by
  obtain ⟨l, bs, is⟩ := c
  show PBMark src (.mk l (bs ++ [C]) is)
  rw [PBMark_mk] at hc ⊢
  refine ⟨markLocal_of_ne _ h, ?_⟩
  intro b hb
  rw [List.mem_append] at hb
  rcases hb with hb | hb
  · exact hc.2 b hb
  · simp only [List.mem_singleton] at hb; subst hb; exact hC

theorem nest_M {q p : LP} {C : PB} {j : Nat} (h : Nest q p C j) (hqG : PBGrammar q.root) (hq : PBMark src q.root)
    (hC : PBGrammar q.container → PBMark src q.container → PBMark src (appendChild C q.container)) : PBMark src p.root := by
  rw [h.root]
  refine (PBM_spineModify _ q.depth q.root ?_ hqG hq).1
  intro c hc hcG hcL
  rw [container_eq q h.valid] at hc
  cases hc
  refine ⟨hC hcG hcL, ?_⟩
  generalize q.container = c
  obtain ⟨l, bs, is⟩ := c
  exact MRes.same rfl rfl rfl

/-- **`openBlock` of a childless block of a container-content kind keeps the marker invariant.** -/
theorem openBlock_M (x : PExt) (p : LP) (kind : Nat) (attrs : PLabel → PLabel) (hT : TreeOK p) (hG : PBGrammar p.root)
    (h : PBMark src p.root) (hst : p.state ≤ 2) (hk : cck kind = true) (hattr : ∀ l, (attrs l).kind = l.kind) :
    PBMark src (p.openBlock x kind attrs).root := by
  have hki := Or.inl (cck_ne_item hk) (b := canContain p.containerKind kind = true)
  have n := openBlock_nest x p kind attrs hT hG hst hki
  have pp := obPre_post x p kind hT hG hki
  have pl := obPre_M (src := src) x p kind hG h
  apply nest_M n pp.g pl
  intro _ hc
  apply appendChild_M hc (PBM_leaf _ _)
  show (attrs _).kind ≠ BK.listMarker
  rw [hattr]
  intro hk'
  have : kind = BK.listMarker := hk'
  rw [this] at hk; revert hk; decide

/-! ### collectInline -/

theorem ciIndent_M (p : LP) (hT : TreeOK p) (hG : PBGrammar p.root) (h : PBMark src p.root) : PBMark src (ciIndent p).root := by
  unfold ciIndent
  split
  · simp only []
    exact appendInline_M _ _ (advance_treeOK p _ hT) (by rw [(advance_root p _).1]; exact hG) (by rw [(advance_root p _).1]; exact h)
  · exact h

theorem collectInline_M (x : PExt) (p : LP) (kind n : Nat) (hT : TreeOK p) (hG : PBGrammar p.root) (h : PBMark src p.root)
    (hst : p.state ≠ 4) (hG2 : PBGrammar (ciIndent { p with state := mm p.state }).root)
    (hT2 : TreeOK (ciIndent { p with state := mm p.state })) : PBMark src (p.collectInline x kind n).root := by
  rw [collectInline_eq x p kind n hst]
  simp only []
  have h1 : TreeOK ({ p with state := mm p.state } : LP) := ⟨hT.root, hT.valid⟩
  have l2 := ciIndent_M (src := src) { p with state := mm p.state } h1 hG h
  generalize ciIndent { p with state := mm p.state } = p2 at hG2 hT2 l2
  have hT3 := advance_treeOK p2 n hT2
  have hG3 : PBGrammar (p2.advance n).root := by rw [(advance_root p2 n).1]; exact hG2
  have l3 : PBMark src (p2.advance n).root := by rw [(advance_root p2 n).1]; exact l2
  split
  · exact appendInline_M _ _ hT3 hG3 l3
  · exact appendInline_M _ _ hT3 hG3 l3

theorem collectInline_M_free (x : PExt) (p : LP) (kind n : Nat) (ks : List Nat) (hT : TreeOK p) (hG : PBGrammar p.root)
    (h : PBMark src p.root) (hst : p.state ≠ 4) (hf : freeKinds p.containerKind = some ks) (hi : ks.contains IK.indent = true) :
    PBMark src (p.collectInline x kind n).root := by
  have h1 : TreeOK ({ p with state := mm p.state } : LP) := ⟨hT.root, hT.valid⟩
  obtain ⟨hT2, hG2, _⟩ := ciIndent_G { p with state := mm p.state } ks h1 hG hf hi
  exact collectInline_M x p kind n hT hG h hst hG2 hT2

theorem collectInline_M_info (x : PExt) (p : LP) (kind n : Nat) (hT : TreeOK p) (hG : PBGrammar p.root)
    (h : PBMark src p.root) (hst : p.state ≠ 4) (hind : p.indent = 0) : PBMark src (p.collectInline x kind n).root := by
  have h1 : TreeOK ({ p with state := mm p.state } : LP) := ⟨hT.root, hT.valid⟩
  have hind1 : ({ p with state := mm p.state } : LP).indent = 0 := by rw [← hind]; exact indent_of_cur rfl
  have hci : ciIndent { p with state := mm p.state } = { p with state := mm p.state } := by
    unfold ciIndent; rw [if_neg (by omega)]
  exact collectInline_M x p kind n hT hG h hst (by rw [hci]; exact hG) (by rw [hci]; exact h1)

end CM.Proofs.GM
