import CM.Proofs.ReparseDoc
/-
C16: an observable sufficient condition for "the call started with no pending blocks": a root that does not start
exactly where the previous root ends (there are blank lines between them) — for EVERY line parser.
-/
namespace CM.Proofs.Rp
open CM CM.Model CM.Gen CM.Proofs

section
variable (L : LineParserI)

/-- A root delivered by the per-line loop: cut off the loop's buffer; the state afterwards is `afterRoot`. -/
theorem parseLines_after : ∀ (f : Nat) (lp : L.σ) (ls : Nat) (p : BP) (r : Root) (p' : BP), p.err.isSome = true →
    p.i ≤ p.buf.length → parseLines L f lp ls p = (.block r, p') →
    ∃ k rest i', r = rootOf p k ∧ p' = afterRoot { p with i := i' } k rest := by
  intro f
  induction f with
  | zero => intro lp ls p r p' _ _ h; simp [parseLines] at h
  | succ f ih =>
    intro lp ls p r p' herr hile h
    cases hpan : L.panicked (L.line lp (p.buf.take p.i) ls) with
    | some m => rw [parseLines_panicked L hpan] at h; cases h
    | none =>
      cases hmr : makeRoot p (L.kids (L.line lp (p.buf.take p.i) ls)) with
      | some rp =>
        rw [parseLines_root L hpan hmr] at h
        cases hk : L.kids (L.line lp (p.buf.take p.i) ls) with
        | nil => rw [hk] at hmr; cases hmr
        | cons k rest =>
          rw [hk] at hmr
          cases ho : k.isOpen with
          | true => rw [makeRoot_open _ _ _ ho] at hmr; cases hmr
          | false =>
            rw [makeRoot_closed _ _ _ ho] at hmr
            simp only [Option.some.injEq] at hmr
            rw [← hmr] at h
            simp only [Prod.mk.injEq, NBOut.block.injEq] at h
            exact ⟨k, rest, p.i, h.1.symm, h.2.symm⟩
      | none =>
        rw [parseLines_next L hpan hmr, rl_mem p herr hile] at h
        have hle := lineLen_le (p.buf.drop p.i)
        simp only [List.length_drop] at hle
        obtain ⟨k, rest, i', e1, e2⟩ := ih _ _ { p with i := p.i + lineLen (p.buf.drop p.i) } r p' herr
          (by show p.i + lineLen (p.buf.drop p.i) ≤ p.buf.length; omega) h
        exact ⟨k, rest, i', e1, e2⟩

/-- After a `NextBlock` call that delivered `r`, `offset` is `r.EndOffset`. -/
theorem nextBlock_offset {inp : Bytes} (hnn : NoNul inp) {q : BP} (h : MemOK inp q) {r : Root} {p' : BP}
    (hn : nextBlock L q = (.block r, p')) : p'.offset = r.endOffset := by
  have key : ∀ (p : BP) (k : PB) (rest : List PB) (i' : Nat),
      (afterRoot { p with i := i' } k rest).offset = (rootOf p k).endOffset := fun _ _ _ _ => rfl
  rw [nextBlock_eq_F] at hn
  cases hmr : makeRoot q q.blocks with
  | some rp =>
    rw [nextBlockF_root L hmr] at hn
    cases hk : q.blocks with
    | nil => rw [hk] at hmr; cases hmr
    | cons k rest =>
      rw [hk] at hmr
      cases ho : k.isOpen with
      | true => rw [makeRoot_open _ _ _ ho] at hmr; cases hmr
      | false =>
        rw [makeRoot_closed _ _ _ ho] at hmr
        simp only [Option.some.injEq] at hmr
        rw [← hmr] at hn
        simp only [Prod.mk.injEq, NBOut.block.injEq] at hn
        rw [← hn.1, ← hn.2]; rfl
  | none =>
    by_cases hb : q.blocks.length > 0
    · rw [nextBlockF_pending L hmr hb] at hn
      have hM := readline_memOK h
      obtain ⟨k, rest, i', e1, e2⟩ := parseLines_after L _ _ _ _ r p' hM.errSome hM.ile hn
      rw [e1, e2]; exact key _ _ _ _
    · rw [nextBlockF_fresh L hmr hb] at hn
      have hq0 := freshLine_memOK h hnn
      rcases hs : skipBlank (bpFuel q) (freshLine q) with ⟨o, p2⟩
      rw [hs] at hn
      cases o with
      | none =>
        simp only [afterSkip] at hn
        cases hpp : p2.panic <;> rw [hpp] at hn <;> simp at hn
      | some p1 =>
        simp only [afterSkip] at hn
        -- `p1` is an in-memory state as well
        obtain ⟨e21, hpan⟩ := skipBlank_some_frame _ _ _ _ hq0.errSome rfl hs
        subst e21
        have hM1 := (skipBlank_memOK hnn (bpFuel q) (freshLine q) hq0 rfl (by rw [hs]; rw [hpan]; exact hq0.panic)).1
        rw [hs] at hM1
        have he1 : p2.err.isSome = true := hM1.errSome
        have hi1 : p2.i ≤ p2.buf.length := hM1.ile
        obtain ⟨k, rest, i', e1, e2⟩ := parseLines_after L _ _ _ _ r p' he1 hi1 hn
        rw [e1, e2]; exact key _ _ _ _

/-- A call that starts with pending blocks delivers a root that starts at the current `offset`. -/
theorem nextBlock_pending_start {inp : Bytes} {q : BP} (h : MemOK inp q) (hb : q.blocks ≠ []) {r : Root} {p' : BP}
    (hn : nextBlock L q = (.block r, p')) : r.startOffset = q.offset := by
  rw [nextBlock_eq_F] at hn
  cases hmr : makeRoot q q.blocks with
  | some rp =>
    rw [nextBlockF_root L hmr] at hn
    cases hk : q.blocks with
    | nil => exact absurd hk hb
    | cons k rest =>
      rw [hk] at hmr
      cases ho : k.isOpen with
      | true => rw [makeRoot_open _ _ _ ho] at hmr; cases hmr
      | false =>
        rw [makeRoot_closed _ _ _ ho] at hmr
        simp only [Option.some.injEq] at hmr
        rw [← hmr] at hn
        simp only [Prod.mk.injEq, NBOut.block.injEq] at hn
        rw [← hn.1]; rfl
  | none =>
    have hlen : q.blocks.length > 0 := by
      cases hq : q.blocks with
      | nil => exact absurd hq hb
      | cons _ _ => simp
    rw [nextBlockF_pending L hmr hlen] at hn
    have hM := readline_memOK h
    obtain ⟨k, rest, i', e1, _⟩ := parseLines_after L _ _ _ _ r p' hM.errSome hM.ile hn
    rw [e1]
    show (readline _ q).2.offset = q.offset
    rw [rl_mem q h.errSome h.ile]

end

/-- **Blank lines in front of a root**: if the `(n+2)`-th root does not start where the `(n+1)`-th ends, the call that
    delivered it started with no pending blocks. (The first root is always delivered by such a call:
    `stateBefore L inp 0 = memParser inp`.) -/
theorem fresh_of_gap (L : LineParserI) {inp : Bytes} (hnn : NoNul inp) (n : Nat) (rp r : Root)
    (hp : (callN L (n + 1) (memParser inp)).2.panic = none)
    (h1 : (callN L n (memParser inp)).1 = .block rp) (h2 : (callN L (n + 1) (memParser inp)).1 = .block r)
    (hgap : r.startOffset ≠ rp.endOffset) : (stateBefore L inp (n + 1)).blocks = [] := by
  show (callN L n (memParser inp)).2.blocks = []
  have hpn : (callN L n (memParser inp)).2.panic = none := by
    cases hpp : (callN L n (memParser inp)).2.panic with
    | none => rfl
    | some m =>
      rw [callN_succ] at hp
      have herr := (callN_sticky L n (memParser inp) rfl).1
      have := (nextBlock_sticky L _ herr).2 (by rw [hpp]; rfl)
      rw [hp] at this; cases this
  have hM0 := stateBefore_memOK L hnn n hpn
  have hM1 := callN_memOK L hnn n hpn
  have hc := callN_eq_before L inp n
  rcases hq : nextBlock L (stateBefore L inp n) with ⟨o, p'⟩
  rw [hq] at hc
  rw [hc] at h1 hM1 ⊢
  simp only at h1 hM1 ⊢
  subst h1
  have hoff := nextBlock_offset L hnn hM0 hq
  rcases hq2 : nextBlock L p' with ⟨o2, p''⟩
  have hc2 : callN L (n + 1) (memParser inp) = nextBlock L p' := by rw [callN_succ, hc]
  rw [hc2, hq2] at h2
  simp only at h2
  subst h2
  cases hbl : p'.blocks with
  | nil => rfl
  | cons b bs =>
    exfalso
    have := nextBlock_pending_start L hM1 (by rw [hbl]; simp) hq2
    rw [this, hoff] at hgap
    exact hgap rfl

end CM.Proofs.Rp
