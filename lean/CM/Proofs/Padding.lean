import CM.Model.Stream
import CM.Spec.Tiling
/-
C01, part (c): the NUL-padding lemmas of parse.go (`padNulls`, `unpaddedNullLength`, `fillNulls`, `lineCount`).

`padNulls b 0` replaces every NUL of `b` by three NUL bytes; `fillNulls` then overwrites every such group by
U+FFFD, `unpaddedNullLength` recovers the original length, and `lineCount` does not see the padding. All of these
commute with cutting the padded buffer at a position that does not split a padded NUL (`Aligned`).
-/
namespace CM.Model
open CM CM.Gen CM.Spec

/-- What `padNulls` does to one byte. -/
def padByte (c : UInt8) : Bytes := if c == 0 then [0, 0, 0] else [c]

theorem nrs_length : nullReplacementString.length = 3 := rfl

theorem padNulls_zero (b : Bytes) : padNulls b 0 = b.flatMap padByte := by
  unfold padByte
  simp [padNulls, nrs_length, List.replicate]

@[simp] theorem padNulls_nil : padNulls [] 0 = [] := by simp [padNulls_zero]

theorem padNulls_cons (c : UInt8) (b : Bytes) : padNulls (c :: b) 0 = padByte c ++ padNulls b 0 := by
  simp [padNulls_zero]

theorem padNulls_append (a b : Bytes) : padNulls (a ++ b) 0 = padNulls a 0 ++ padNulls b 0 := by
  simp [padNulls_zero]

theorem padNulls_cons_zero (b : Bytes) : padNulls (0 :: b) 0 = 0 :: 0 :: 0 :: padNulls b 0 := by
  simp [padNulls_cons, padByte]

theorem padNulls_cons_ne {c : UInt8} (h : c ≠ 0) (b : Bytes) : padNulls (c :: b) 0 = c :: padNulls b 0 := by
  simp [padNulls_cons, padByte, h]

/-! ### `fillNulls` -/

theorem fillNulls_nil : fillNulls [] = [] := by simp [fillNulls]

theorem fillNulls_cons_ne {c : UInt8} (h : c ≠ 0) (b : Bytes) : fillNulls (c :: b) = c :: fillNulls b := by
  rw [fillNulls]; simp [h]

theorem fillNulls_zeros (b : Bytes) : fillNulls (0 :: 0 :: 0 :: b) = [0xEF, 0xBF, 0xBD] ++ fillNulls b := by
  rw [fillNulls]
  simp [nullReplacementString]

/-- **(c1)** filling the NULs of the padded input gives the input with every NUL replaced by U+FFFD. -/
theorem fillNulls_padNulls (b : Bytes) : fillNulls (padNulls b 0) = replNul b := by
  induction b with
  | nil => simp [fillNulls_nil, replNul]
  | cons c b ih =>
    by_cases h : c = 0
    · subst h
      rw [padNulls_cons_zero, fillNulls_zeros, ih]
      simp [replNul]
    · rw [padNulls_cons_ne h, fillNulls_cons_ne h, ih]
      simp [replNul, h]

/-! ### `nullCount`, `unpaddedNullLength` -/

@[simp] theorem nullCount_nil : nullCount [] = 0 := rfl

theorem nullCount_cons (c : UInt8) (b : Bytes) : nullCount (c :: b) = (if c = 0 then 1 else 0) + nullCount b := by
  by_cases h : c = 0 <;> simp [nullCount, h] <;> omega

theorem nullCount_append (a b : Bytes) : nullCount (a ++ b) = nullCount a + nullCount b := by
  simp [nullCount]

theorem nullCount_padNulls (b : Bytes) : nullCount (padNulls b 0) = 3 * nullCount b := by
  induction b with
  | nil => simp
  | cons c b ih =>
    by_cases h : c = 0
    · subst h; rw [padNulls_cons_zero]; simp [nullCount_cons, ih]; omega
    · rw [padNulls_cons_ne h]; simp [nullCount_cons, h, ih]

theorem length_padNulls (b : Bytes) : (padNulls b 0).length = b.length + 2 * nullCount b := by
  induction b with
  | nil => simp
  | cons c b ih =>
    by_cases h : c = 0
    · subst h; rw [padNulls_cons_zero]; simp [nullCount_cons, ih]; omega
    · rw [padNulls_cons_ne h]; simp [nullCount_cons, h, ih]; omega

theorem length_le_length_padNulls (b : Bytes) : b.length ≤ (padNulls b 0).length := by
  rw [length_padNulls]; omega

/-- **(c2)** the original length is recovered from the padded buffer. -/
theorem unpaddedNullLength_padNulls (b : Bytes) : unpaddedNullLength (padNulls b 0) = b.length := by
  simp only [unpaddedNullLength, nullCount_padNulls, length_padNulls, nrs_length]
  have : 3 * nullCount b / 3 = nullCount b := by omega
  rw [this]; omega

/-- **(c5)** without NUL bytes, padding is the identity. -/
theorem padNulls_eq_self {b : Bytes} (h : ∀ c ∈ b, c ≠ 0) : padNulls b 0 = b := by
  induction b with
  | nil => simp
  | cons c b ih =>
    have hc : c ≠ 0 := h c (by simp)
    rw [padNulls_cons_ne hc, ih (fun d hd => h d (by simp [hd]))]

@[simp] theorem replNul_nil : replNul [] = [] := rfl

theorem replNul_cons (c : UInt8) (b : Bytes) :
    replNul (c :: b) = (if c == 0 then [0xEF, 0xBF, 0xBD] else [c]) ++ replNul b := by
  simp [replNul]

theorem replNul_append (a b : Bytes) : replNul (a ++ b) = replNul a ++ replNul b := by
  simp [replNul]

theorem replNul_eq_self {b : Bytes} (h : ∀ c ∈ b, c ≠ 0) : replNul b = b := by
  induction b with
  | nil => simp
  | cons c b ih =>
    have hc : c ≠ 0 := h c (by simp)
    rw [replNul_cons, ih (fun d hd => h d (by simp [hd]))]
    simp [hc]

/-! ### `lineCount` -/

theorem head?_padNulls_eq_LF (b : Bytes) : (padNulls b 0).head? = some LF ↔ b.head? = some LF := by
  cases b with
  | nil => simp
  | cons c b =>
    by_cases h : c = 0
    · subst h; rw [padNulls_cons_zero]; simp
    · rw [padNulls_cons_ne h]; simp

theorem lineCount_cons_CR (rest : Bytes) :
    lineCount (CR :: rest) = (if rest.head? = some LF then 0 else 1) + lineCount rest := by
  cases rest with
  | nil => simp [lineCount]
  | cons d rest => by_cases h : d = LF <;> simp [lineCount, h] <;> decide

theorem lineCount_cons_LF (rest : Bytes) : lineCount (LF :: rest) = 1 + lineCount rest := by
  simp [lineCount]

theorem lineCount_cons_other {c : UInt8} (h1 : c ≠ LF) (h2 : c ≠ CR) (rest : Bytes) :
    lineCount (c :: rest) = lineCount rest := by
  simp [lineCount, h1, h2]

/-- **(c4)** the padding is invisible to `lineCount`. -/
theorem lineCount_padNulls (b : Bytes) : lineCount (padNulls b 0) = lineCount b := by
  induction b with
  | nil => simp
  | cons c b ih =>
    by_cases h : c = 0
    · subst h
      rw [padNulls_cons_zero]
      have h0 : (0 : UInt8) ≠ LF := by decide
      have h1 : (0 : UInt8) ≠ CR := by decide
      rw [lineCount_cons_other h0 h1, lineCount_cons_other h0 h1, lineCount_cons_other h0 h1,
        lineCount_cons_other h0 h1, ih]
    · rw [padNulls_cons_ne h]
      by_cases h1 : c = LF
      · subst h1; simp [lineCount_cons_LF, ih]
      · by_cases h2 : c = CR
        · subst h2
          rw [lineCount_cons_CR, lineCount_cons_CR, ih]
          have := head?_padNulls_eq_LF b
          by_cases h3 : b.head? = some LF
          · simp [h3, this.mpr h3]
          · have h4 : ¬ (padNulls b 0).head? = some LF := fun h => h3 (this.mp h)
            simp [h3, h4]
        · rw [lineCount_cons_other h1 h2, lineCount_cons_other h1 h2, ih]

/-! ### Cutting the padded buffer -/

/-- Position `n` of `b` does not split a group of padded NULs: the number of NUL bytes before it is a multiple
    of three. (In a padded buffer NUL bytes come in groups of three, so this is exact.) -/
def Aligned (b : Bytes) (n : Nat) : Prop := nullCount (b.take n) % nullReplacementString.length = 0

instance (b : Bytes) (n : Nat) : Decidable (Aligned b n) := by unfold Aligned; infer_instance

theorem aligned_iff (b : Bytes) (n : Nat) : Aligned b n ↔ nullCount (b.take n) % 3 = 0 := Iff.rfl

theorem aligned_zero (b : Bytes) : Aligned b 0 := by simp [Aligned]

theorem aligned_padNulls_length (y : Bytes) : Aligned (padNulls y 0) (padNulls y 0).length := by
  simp [aligned_iff, nullCount_padNulls]

/-- **(c3)** an aligned cut of the padded buffer is the padding of a cut of the original. -/
theorem padNulls_split (y : Bytes) (n : Nat) (h : Aligned (padNulls y 0) n) :
    ∃ y₁ y₂, y = y₁ ++ y₂ ∧ (padNulls y 0).take n = padNulls y₁ 0 ∧ (padNulls y 0).drop n = padNulls y₂ 0 := by
  induction y generalizing n with
  | nil => exact ⟨[], [], by simp⟩
  | cons c y ih =>
    by_cases hc : c = 0
    · subst hc
      rw [padNulls_cons_zero] at h ⊢
      match n, h with
      | 0, _ => exact ⟨[], 0 :: y, by simp [padNulls_cons_zero]⟩
      | 1, h => simp [aligned_iff, nullCount_cons] at h
      | 2, h => simp [aligned_iff, nullCount_cons] at h
      | m + 3, h =>
        have h' : Aligned (padNulls y 0) m := by
          simp only [aligned_iff, List.take_succ_cons, nullCount_cons] at h ⊢
          omega
        obtain ⟨y₁, y₂, e, h1, h2⟩ := ih m h'
        refine ⟨0 :: y₁, y₂, by simp [e], ?_, ?_⟩
        · simp [padNulls_cons_zero, h1]
        · simpa using h2
    · rw [padNulls_cons_ne hc] at h ⊢
      match n, h with
      | 0, _ => exact ⟨[], c :: y, by simp [padNulls_cons_ne hc]⟩
      | m + 1, h =>
        have h' : Aligned (padNulls y 0) m := by
          simp only [aligned_iff, List.take_succ_cons, nullCount_cons, hc] at h ⊢
          simpa using h
        obtain ⟨y₁, y₂, e, h1, h2⟩ := ih m h'
        refine ⟨c :: y₁, y₂, by simp [e], ?_, ?_⟩
        · simp [padNulls_cons_ne hc, h1]
        · simpa using h2

/-- A cut right after a non-NUL byte is aligned. -/
theorem aligned_of_getLast_ne_zero (y : Bytes) (n : Nat)
    (h : ∀ c, ((padNulls y 0).take n).getLast? = some c → c ≠ 0) : Aligned (padNulls y 0) n := by
  induction y generalizing n with
  | nil => simp [aligned_iff]
  | cons c y ih =>
    by_cases hc : c = 0
    · subst hc
      rw [padNulls_cons_zero] at h ⊢
      match n, h with
      | 0, _ => exact aligned_zero _
      | 1, h => simp at h
      | 2, h => simp at h
      | 3, h => simp at h
      | m + 4, h =>
        have h' : Aligned (padNulls y 0) (m + 1) := by
          apply ih
          intro c hc
          apply h c
          cases hp : padNulls y 0 with
          | nil => simp [hp] at hc
          | cons d r =>
            rw [hp] at hc
            simp only [List.take_succ_cons] at hc ⊢
            simpa [List.getLast?_cons_cons] using hc
        simp only [aligned_iff, List.take_succ_cons, nullCount_cons] at h' ⊢
        cases hp : padNulls y 0 with
        | nil => simp
        | cons d r =>
          rw [hp] at h'
          simp only [List.take_succ_cons, nullCount_cons] at h' ⊢
          omega
    · rw [padNulls_cons_ne hc] at h ⊢
      match n, h with
      | 0, _ => exact aligned_zero _
      | 1, _ => simp [aligned_iff, nullCount_cons, hc]
      | m + 2, h =>
        have h' : Aligned (padNulls y 0) (m + 1) := by
          apply ih
          intro c hc
          apply h c
          cases hp : padNulls y 0 with
          | nil => simp [hp] at hc
          | cons d r =>
            rw [hp] at hc
            simp only [List.take_succ_cons] at hc ⊢
            simpa [List.getLast?_cons_cons] using hc
        simp only [aligned_iff, List.take_succ_cons, nullCount_cons, hc] at h' ⊢
        simpa using h'

theorem aligned_sub {b : Bytes} {n i : Nat} (hn : Aligned b n) (hi : Aligned b i) (hni : n ≤ i) :
    Aligned (b.drop n) (i - n) := by
  have e : b.take i = b.take n ++ (b.drop n).take (i - n) := by
    rw [← List.take_append_drop n (b.take i)]
    congr 1
    · rw [List.take_take]; congr 1; omega
    · rw [List.drop_take]
  simp only [aligned_iff] at *
  rw [e, nullCount_append] at hi
  omega

/-- **(c3)** `unpaddedNullLength` is additive over an aligned cut … -/
theorem unpaddedNullLength_take_add_drop (y : Bytes) (n : Nat) (h : Aligned (padNulls y 0) n) :
    unpaddedNullLength ((padNulls y 0).take n) + unpaddedNullLength ((padNulls y 0).drop n)
      = unpaddedNullLength (padNulls y 0) := by
  obtain ⟨y₁, y₂, e, h1, h2⟩ := padNulls_split y n h
  rw [h1, h2, unpaddedNullLength_padNulls, unpaddedNullLength_padNulls, unpaddedNullLength_padNulls, e]
  simp

/-- … and so is `fillNulls`. -/
theorem fillNulls_take_append_drop (y : Bytes) (n : Nat) (h : Aligned (padNulls y 0) n) :
    fillNulls ((padNulls y 0).take n) ++ fillNulls ((padNulls y 0).drop n) = fillNulls (padNulls y 0) := by
  obtain ⟨y₁, y₂, e, h1, h2⟩ := padNulls_split y n h
  rw [h1, h2, fillNulls_padNulls, fillNulls_padNulls, fillNulls_padNulls, e, replNul_append]

/-- Not so when the cut splits a padded NUL: the input `[0]`, cut after the first of its three padding bytes. -/
example : unpaddedNullLength ((padNulls [0] 0).take 1) + unpaddedNullLength ((padNulls [0] 0).drop 1) = 3
    ∧ unpaddedNullLength (padNulls [0] 0) = 1 := by decide

/-- **(c3)**, positions of the original: the first `k` input bytes occupy the first `(padNulls (y.take k) 0).length`
    bytes of the padded buffer. -/
theorem padNulls_take (y : Bytes) (k : Nat) :
    (padNulls y 0).take (padNulls (y.take k) 0).length = padNulls (y.take k) 0 := by
  conv => lhs; rw [← List.take_append_drop k y, padNulls_append]
  simp

theorem padNulls_drop (y : Bytes) (k : Nat) :
    (padNulls y 0).drop (padNulls (y.take k) 0).length = padNulls (y.drop k) 0 := by
  conv => lhs; rw [← List.take_append_drop k y, padNulls_append]
  simp

theorem unpaddedNullLength_take (y : Bytes) (k : Nat) :
    unpaddedNullLength ((padNulls y 0).take (padNulls (y.take k) 0).length) = min k y.length := by
  rw [padNulls_take, unpaddedNullLength_padNulls]; simp

theorem unpaddedNullLength_drop (y : Bytes) (k : Nat) :
    unpaddedNullLength ((padNulls y 0).drop (padNulls (y.take k) 0).length) = y.length - k := by
  rw [padNulls_drop, unpaddedNullLength_padNulls]; simp

theorem fillNulls_take (y : Bytes) (k : Nat) :
    fillNulls ((padNulls y 0).take (padNulls (y.take k) 0).length) = replNul (y.take k) := by
  rw [padNulls_take, fillNulls_padNulls]

theorem fillNulls_drop (y : Bytes) (k : Nat) :
    fillNulls ((padNulls y 0).drop (padNulls (y.take k) 0).length) = replNul (y.drop k) := by
  rw [padNulls_drop, fillNulls_padNulls]

/-! ### Blank lines and padding -/

theorem isBlankLine_padNulls (y : Bytes) : isBlankLine (padNulls y 0) = isBlankLine y := by
  induction y with
  | nil => simp
  | cons c y ih =>
    by_cases hc : c = 0
    · subst hc; rw [padNulls_cons_zero]
      have h0 : Gen.isSpaceTabOrLineEnding 0 = false := by decide
      simp [isBlankLine, h0]
    · rw [padNulls_cons_ne hc]; simp only [isBlankLine] at ih ⊢; simp [ih]

theorem no_nul_of_isBlankLine {y : Bytes} (h : isBlankLine y = true) : ∀ c ∈ y, c ≠ 0 := by
  intro c hc h0
  subst h0
  simp only [isBlankLine, List.all_eq_true] at h
  exact absurd (h 0 hc) (by decide)

theorem padNulls_eq_self_of_blank {y : Bytes} (h : isBlankLine y = true) : padNulls y 0 = y :=
  padNulls_eq_self (no_nul_of_isBlankLine h)

/-! ### Concrete instances -/

/-- `a␀b`: padded, filled, measured. -/
example : padNulls [97, 0, 98] 0 = [97, 0, 0, 0, 98]
    ∧ fillNulls (padNulls [97, 0, 98] 0) = [97, 0xEF, 0xBF, 0xBD, 98]
    ∧ unpaddedNullLength (padNulls [97, 0, 98] 0) = 3 := by decide +kernel

/-- Position 4 of the padded `a␀b` is aligned (after the three padding bytes), position 2 is not; the aligned cut
    is the padding of the cut `a␀ | b`. -/
example : Aligned (padNulls [97, 0, 98] 0) 4 ∧ ¬ Aligned (padNulls [97, 0, 98] 0) 2
    ∧ (padNulls [97, 0, 98] 0).take 4 = padNulls [97, 0] 0 ∧ (padNulls [97, 0, 98] 0).drop 4 = padNulls [98] 0 := by
  decide +kernel

/-- `␍⏎␀␍␀⏎`: three line endings, with or without padding. -/
example : lineCount [13, 10, 0, 13, 0, 10] = 3 ∧ lineCount (padNulls [13, 10, 0, 13, 0, 10] 0) = 3 := by decide +kernel

example : padNulls [97, 13, 10] 0 = [97, 13, 10] := padNulls_eq_self (by decide)

end CM.Model
