import CM.Proofs.StreamLines
/-
C14 (a), stream level: re-writing the line endings of a CR-free input (`toEol e`, with `e = [CR, LF]` for CRLF and
`e = [CR]` for CR-only) and the stream machine's line splitting.

* `toEol`, `toCRLF`, `toCR`; the position map `eolPos e x j` (offset `j` in `x` ↦ offset in `toEol e x`);
* `lines` — the successive lines `readline` cuts from a complete buffer (`lineLen` is the closed form of
  `readline` on the in-memory parser, `StreamLines.readline_mem`);
* `lines_toEol : lines (toEol e x) = (lines x).map (toEol e)`, `lineCount_toEol`, and the statement about the model's
  own `readline` (`readline_toEol`).
-/
namespace CM.Proofs
open CM CM.Model CM.Gen

/-- Replace every LF by the line ending `e`. -/
def toEol (e : Bytes) (x : Bytes) : Bytes := x.flatMap fun c => if c = LF then e else [c]

def toCRLF : Bytes → Bytes := toEol [CR, LF]
def toCR : Bytes → Bytes := toEol [CR]

/-- The three line endings of CommonMark. -/
def StdEol (e : Bytes) : Prop := e = [LF] ∨ e = [CR] ∨ e = [CR, LF]

instance (e : Bytes) : Decidable (StdEol e) := by unfold StdEol; infer_instance

/-- No carriage return in `x`. -/
def NoCR (x : Bytes) : Prop := ∀ c ∈ x, c ≠ CR

instance (x : Bytes) : Decidable (NoCR x) := by unfold NoCR; infer_instance

/-- Number of LF bytes. -/
def cntLF (x : Bytes) : Nat := x.countP (· == LF)

/-- Offset `j` of `x` in `toEol e x`: every LF before `j` has become `e` (`|e| - 1` more bytes each).
    Total and strictly monotone on all of `Nat` (offsets past the end keep their distance to the end). -/
def eolPos (e : Bytes) (x : Bytes) (j : Nat) : Nat := j + (e.length - 1) * cntLF (x.take j)

/-! ### `toEol` basics -/

@[simp] theorem toEol_nil (e : Bytes) : toEol e [] = [] := rfl

theorem toEol_cons_LF (e rest : Bytes) : toEol e (LF :: rest) = e ++ toEol e rest := by
  simp [toEol]

theorem toEol_cons_ne (e : Bytes) {c : UInt8} (h : c ≠ LF) (rest : Bytes) : toEol e (c :: rest) = c :: toEol e rest := by
  simp [toEol, h]

theorem toEol_append (e a b : Bytes) : toEol e (a ++ b) = toEol e a ++ toEol e b := by
  simp [toEol]

theorem toEol_LF_id (x : Bytes) : toEol [LF] x = x := by
  induction x with
  | nil => rfl
  | cons c t ih =>
    by_cases h : c = LF
    · subst h; rw [toEol_cons_LF, ih]; rfl
    · rw [toEol_cons_ne _ h, ih]

@[simp] theorem cntLF_nil : cntLF [] = 0 := rfl
theorem cntLF_cons_LF (t : Bytes) : cntLF (LF :: t) = cntLF t + 1 := by simp [cntLF]
theorem cntLF_cons_ne {c : UInt8} (h : c ≠ LF) (t : Bytes) : cntLF (c :: t) = cntLF t := by simp [cntLF, h]
theorem cntLF_append (a b : Bytes) : cntLF (a ++ b) = cntLF a + cntLF b := by simp [cntLF, List.countP_append]

theorem cntLF_eq_zero {x : Bytes} (h : ∀ c ∈ x, c ≠ LF) : cntLF x = 0 := by
  induction x with
  | nil => rfl
  | cons c t ih => rw [cntLF_cons_ne (h c (by simp)), ih (fun x hx => h x (by simp [hx]))]

theorem length_toEol (e : Bytes) (he : e ≠ []) (x : Bytes) :
    (toEol e x).length = x.length + (e.length - 1) * cntLF x := by
  have hpos : 0 < e.length := List.length_pos_iff.2 he
  induction x with
  | nil => simp
  | cons c t ih =>
    by_cases h : c = LF
    · subst h
      rw [toEol_cons_LF, List.length_append, ih, cntLF_cons_LF, Nat.mul_add]
      simp; omega
    · rw [toEol_cons_ne _ h, List.length_cons, ih, cntLF_cons_ne h]
      simp; omega

theorem length_toEol_ge (e : Bytes) (he : e ≠ []) (x : Bytes) : x.length ≤ (toEol e x).length := by
  rw [length_toEol e he]; omega

theorem noCR_cons {c : UInt8} {t : Bytes} (h : NoCR (c :: t)) : c ≠ CR ∧ NoCR t :=
  ⟨h c (by simp), fun x hx => h x (by simp [hx])⟩

theorem noCR_take {x : Bytes} (h : NoCR x) (n : Nat) : NoCR (x.take n) :=
  fun c hc => h c (List.mem_of_mem_take hc)

theorem noCR_drop {x : Bytes} (h : NoCR x) (n : Nat) : NoCR (x.drop n) :=
  fun c hc => h c (List.mem_of_mem_drop hc)

theorem noCR_append {a b : Bytes} (ha : NoCR a) (hb : NoCR b) : NoCR (a ++ b) := by
  intro c hc
  rcases List.mem_append.1 hc with h | h
  · exact ha c h
  · exact hb c h

/-! ### The position map -/

@[simp] theorem eolPos_zero (e x : Bytes) : eolPos e x 0 = 0 := by simp [eolPos]

/-- Inside `x` the position is the length of the re-written prefix. -/
theorem eolPos_eq_length (e : Bytes) (he : e ≠ []) (x : Bytes) {j : Nat} (hj : j ≤ x.length) :
    eolPos e x j = (toEol e (x.take j)).length := by
  rw [length_toEol e he, List.length_take, Nat.min_eq_left hj]; rfl

theorem eolPos_length (e : Bytes) (he : e ≠ []) (x : Bytes) : eolPos e x x.length = (toEol e x).length := by
  rw [eolPos_eq_length e he x (Nat.le_refl _), List.take_length]

theorem eolPos_of_ge (e x : Bytes) {j : Nat} (h : x.length ≤ j) : eolPos e x j = j + (e.length - 1) * cntLF x := by
  simp [eolPos, List.take_of_length_le h]

theorem eolPos_add (e x : Bytes) (j k : Nat) : eolPos e x (j + k) = eolPos e x j + eolPos e (x.drop j) k := by
  unfold eolPos
  rw [List.take_add, cntLF_append, Nat.mul_add]; omega

theorem eolPos_mono (e x : Bytes) {j k : Nat} (h : j ≤ k) : eolPos e x j ≤ eolPos e x k := by
  obtain ⟨d, rfl⟩ := Nat.exists_eq_add_of_le h
  rw [eolPos_add]; omega

theorem eolPos_ge (e x : Bytes) (j : Nat) : j ≤ eolPos e x j := by unfold eolPos; omega

/-- The map is strictly monotone on all of `Nat`. -/
theorem eolPos_strict (e x : Bytes) {j k : Nat} (h : j < k) : eolPos e x j < eolPos e x k := by
  obtain ⟨d, rfl⟩ := Nat.exists_eq_add_of_le (Nat.le_of_lt h)
  rw [eolPos_add]
  have := eolPos_ge e (x.drop j) d
  omega

theorem eolPos_lt_iff (e x : Bytes) {j k : Nat} : eolPos e x j < eolPos e x k ↔ j < k := by
  constructor
  · intro h
    by_cases hjk : j < k
    · exact hjk
    · have := eolPos_mono e x (Nat.le_of_not_lt hjk); omega
  · exact eolPos_strict e x

theorem eolPos_le_iff (e x : Bytes) {j k : Nat} : eolPos e x j ≤ eolPos e x k ↔ j ≤ k := by
  constructor
  · intro h
    by_cases hjk : j ≤ k
    · exact hjk
    · have := eolPos_strict e x (Nat.lt_of_not_le hjk); omega
  · exact eolPos_mono e x

theorem eolPos_inj (e x : Bytes) {j k : Nat} (h : eolPos e x j = eolPos e x k) : j = k := by
  have h1 := (eolPos_le_iff e x (j := j) (k := k)).1 (by omega)
  have h2 := (eolPos_le_iff e x (j := k) (k := j)).1 (by omega)
  omega

theorem eolPos_take (e x : Bytes) {j n : Nat} (h : j ≤ n) : eolPos e (x.take n) j = eolPos e x j := by
  unfold eolPos
  rw [List.take_take, Nat.min_eq_left h]

theorem take_toEol (e : Bytes) (he : e ≠ []) (x : Bytes) (j : Nat) :
    (toEol e x).take (eolPos e x j) = toEol e (x.take j) := by
  by_cases hj : j ≤ x.length
  · have : toEol e x = toEol e (x.take j) ++ toEol e (x.drop j) := by rw [← toEol_append, List.take_append_drop]
    rw [this, eolPos_eq_length e he x hj, List.take_left' rfl]
  · have hj' : x.length ≤ j := by omega
    rw [List.take_of_length_le hj', List.take_of_length_le]
    rw [eolPos_of_ge e x hj', length_toEol e he]; omega

theorem drop_toEol (e : Bytes) (he : e ≠ []) (x : Bytes) (j : Nat) :
    (toEol e x).drop (eolPos e x j) = toEol e (x.drop j) := by
  by_cases hj : j ≤ x.length
  · have : toEol e x = toEol e (x.take j) ++ toEol e (x.drop j) := by rw [← toEol_append, List.take_append_drop]
    rw [this, eolPos_eq_length e he x hj, List.drop_left' rfl]
  · have hj' : x.length ≤ j := by omega
    rw [List.drop_of_length_le hj', List.drop_of_length_le]
    · rfl
    · rw [eolPos_of_ge e x hj', length_toEol e he]; omega

/-- On a stretch without LF the map is a translation. -/
theorem toEol_of_noLF (e : Bytes) {x : Bytes} (h : ∀ c ∈ x, c ≠ LF) : toEol e x = x := by
  induction x with
  | nil => rfl
  | cons c t ih =>
    rw [toEol_cons_ne _ (h c (by simp)), ih (fun x hx => h x (by simp [hx]))]

theorem eolPos_of_noLF (e : Bytes) {x : Bytes} {k : Nat} (h : ∀ c ∈ x.take k, c ≠ LF) : eolPos e x k = k := by
  rw [eolPos, cntLF_eq_zero h]; omega

/-! ### The first line -/

theorem head?_toEol_CR (x : Bytes) (_hx : NoCR x) : (toEol [CR] x).head? ≠ some LF := by
  cases x with
  | nil => simp
  | cons c t =>
    by_cases hc : c = LF
    · subst hc; rw [toEol_cons_LF]; simp [CR_ne_LF]
    · rw [toEol_cons_ne _ hc]; simpa using hc

theorem stdEol_ne_nil {e : Bytes} (he : StdEol e) : e ≠ [] := by
  rcases he with h | h | h <;> subst h <;> simp

/-- The first line of the re-written buffer is the re-written first line. -/
theorem lineLen_toEol {e : Bytes} (he : StdEol e) {x : Bytes} (hx : NoCR x) :
    lineLen (toEol e x) = eolPos e x (lineLen x) := by
  induction x using lineLen_cases with
  | hnil => simp
  | hLF rest =>
    rw [lineLen_LF, toEol_cons_LF]
    have : eolPos e (LF :: rest) 1 = e.length := by
      have hpos : 0 < e.length := List.length_pos_iff.2 (stdEol_ne_nil he)
      simp [eolPos, cntLF]; omega
    rw [this]
    rcases he with h | h | h <;> subst h
    · exact lineLen_LF _
    · exact lineLen_CR (head?_toEol_CR rest (noCR_cons hx).2)
    · exact lineLen_CRLF _
  | hCRLF r => exact absurd rfl (noCR_cons hx).1
  | hCR rest _ => exact absurd rfl (noCR_cons hx).1
  | hother c rest h1 h2 ih =>
    rw [toEol_cons_ne _ h1, lineLen_other h1 h2, lineLen_other h1 h2, ih (noCR_cons hx).2]
    simp only [eolPos, List.take_succ_cons, cntLF_cons_ne h1]; omega

theorem take_lineLen_toEol {e : Bytes} (he : StdEol e) {x : Bytes} (hx : NoCR x) :
    (toEol e x).take (lineLen (toEol e x)) = toEol e (x.take (lineLen x)) := by
  rw [lineLen_toEol he hx, take_toEol _ (stdEol_ne_nil he)]

theorem drop_lineLen_toEol {e : Bytes} (he : StdEol e) {x : Bytes} (hx : NoCR x) :
    (toEol e x).drop (lineLen (toEol e x)) = toEol e (x.drop (lineLen x)) := by
  rw [lineLen_toEol he hx, drop_toEol _ (stdEol_ne_nil he)]

/-! ### All lines -/

/-- The lines `readline` delivers from a complete buffer, in order (each with its line ending). -/
def lines (b : Bytes) : List Bytes :=
  if h : b = [] then [] else b.take (lineLen b) :: lines (b.drop (lineLen b))
termination_by b.length
decreasing_by
  have := lineLen_pos h
  have : 0 < b.length := List.length_pos_iff.2 h
  simp; omega

theorem lines_nil : lines [] = [] := by rw [lines]; simp

theorem lines_cons {b : Bytes} (h : b ≠ []) : lines b = b.take (lineLen b) :: lines (b.drop (lineLen b)) := by
  rw [lines]; simp [h]

theorem flatten_lines (b : Bytes) : (lines b).flatten = b := by
  induction hn : b.length using Nat.strongRecOn generalizing b with
  | ind n ih =>
    by_cases h : b = []
    · subst h; simp [lines_nil]
    · rw [lines_cons h, List.flatten_cons]
      have hp := lineLen_pos h
      have hl : 0 < b.length := List.length_pos_iff.2 h
      rw [ih (b.drop (lineLen b)).length (by subst hn; simp; omega) _ rfl, List.take_append_drop]

theorem toEol_eq_nil {e : Bytes} (he : e ≠ []) {x : Bytes} : toEol e x = [] ↔ x = [] := by
  constructor
  · intro h
    have := length_toEol_ge e he x
    rw [h] at this
    exact List.length_eq_zero_iff.1 (by simpa using this)
  · intro h; subst h; rfl

/-- **`lines_crlf`**: the stream machine splits the re-written input into the re-written lines. -/
theorem lines_toEol {e : Bytes} (he : StdEol e) (x : Bytes) (hx : NoCR x) :
    lines (toEol e x) = (lines x).map (toEol e) := by
  induction hn : x.length using Nat.strongRecOn generalizing x with
  | ind n ih =>
    by_cases h : x = []
    · subst h; simp [lines_nil]
    · have h' : toEol e x ≠ [] := fun h0 => h ((toEol_eq_nil (stdEol_ne_nil he)).1 h0)
      rw [lines_cons h, lines_cons h', List.map_cons, take_lineLen_toEol he hx, drop_lineLen_toEol he hx]
      have hp := lineLen_pos h
      have hl : 0 < x.length := List.length_pos_iff.2 h
      rw [ih (x.drop (lineLen x)).length (by subst hn; simp; omega) _ (noCR_drop hx _) rfl]

theorem lines_toCRLF (x : Bytes) (hx : NoCR x) : lines (toCRLF x) = (lines x).map toCRLF :=
  lines_toEol (Or.inr (Or.inr rfl)) x hx

theorem lines_toCR (x : Bytes) (hx : NoCR x) : lines (toCR x) = (lines x).map toCR :=
  lines_toEol (Or.inr (Or.inl rfl)) x hx

theorem length_lines_toEol {e : Bytes} (he : StdEol e) (x : Bytes) (hx : NoCR x) :
    (lines (toEol e x)).length = (lines x).length := by
  rw [lines_toEol he x hx, List.length_map]

/-! ### `lineCount` -/

theorem lineCount_toEol {e : Bytes} (he : StdEol e) (x : Bytes) (hx : NoCR x) :
    lineCount (toEol e x) = lineCount x := by
  induction x with
  | nil => rfl
  | cons c t ih =>
    have ht := (noCR_cons hx).2
    by_cases h : c = LF
    · subst h
      rw [toEol_cons_LF, lineCount_cons_LF, ← ih ht]
      rcases he with h | h | h <;> subst h
      · exact lineCount_cons_LF _
      · rw [List.singleton_append, lineCount_cons_CR]
        have := head?_toEol_CR t ht
        cases htt : toEol [CR] t with
        | nil => simp
        | cons d r => rw [htt] at this; simp at this; simp [this]
      · show lineCount (CR :: LF :: toEol [CR, LF] t) = _
        rw [lineCount_cons_CR, lineCount_cons_LF]; simp
    · rw [toEol_cons_ne _ h, lineCount_cons_other h (noCR_cons hx).1, lineCount_cons_other h (noCR_cons hx).1, ih ht]

/-! ### The model's `readline` on the in-memory parser -/

/-- `readline` of the in-memory parser on the re-written buffer moves to the image of the position `readline` moves
    to on the original buffer, and reports the same flag. -/
theorem readline_toEol {e : Bytes} (he : StdEol e) (fuel : Nat) (p p' : BP) (hx : NoCR p.buf)
    (herr : p.err.isSome = true) (herr' : p'.err.isSome = true) (hi : p.i ≤ p.buf.length)
    (hb : p'.buf = toEol e p.buf) (hpi : p'.i = eolPos e p.buf p.i) :
    (readline (fuel + 1) p').1 = (readline (fuel + 1) p).1 ∧
    (readline (fuel + 1) p').2.i = eolPos e p.buf (readline (fuel + 1) p).2.i ∧
    (readline (fuel + 1) p').2.buf = toEol e (readline (fuel + 1) p).2.buf := by
  have hi' : p'.i ≤ p'.buf.length := by
    rw [hb, hpi, ← eolPos_length _ (stdEol_ne_nil he)]; exact eolPos_mono _ _ hi
  rw [readline_mem fuel p herr hi, readline_mem fuel p' herr' hi']
  simp only
  have hd : p'.buf.drop p'.i = toEol e (p.buf.drop p.i) := by rw [hb, hpi, drop_toEol _ (stdEol_ne_nil he)]
  have hll := lineLen_toEol he (noCR_drop hx p.i)
  refine ⟨?_, ?_, hb⟩
  · rw [hd]
    by_cases h : p.buf.drop p.i = []
    · rw [h]; simp
    · have h' : toEol e (p.buf.drop p.i) ≠ [] := fun h0 => h ((toEol_eq_nil (stdEol_ne_nil he)).1 h0)
      simp [lineLen_pos h, lineLen_pos h']
  · rw [hd, hll, hpi, eolPos_add]

/-! ### Non-vacuity -/

/-- `"a\n\nb\n c"`: four lines, the last one unterminated; CRLF and CR forms. -/
example : lines [0x61, LF, LF, 0x62, LF, SP, 0x63] = [[0x61, LF], [LF], [0x62, LF], [SP, 0x63]] := by
  decide +kernel
example : lines (toCRLF [0x61, LF, LF, 0x62, LF, SP, 0x63]) =
    [[0x61, CR, LF], [CR, LF], [0x62, CR, LF], [SP, 0x63]] := by decide +kernel
example : lines (toCR [0x61, LF, LF, 0x62, LF, SP, 0x63]) = [[0x61, CR], [CR], [0x62, CR], [SP, 0x63]] := by
  decide +kernel
example : NoCR [0x61, LF, LF, 0x62, LF, SP, 0x63] := by decide
example : eolPos [CR, LF] [0x61, LF, LF, 0x62, LF, SP, 0x63] 5 = 8 := by decide +kernel

/-- The CR-freeness hypothesis is needed: `"\r\n"` is one line, its CRLF form `"\r\r\n"` two. -/
example : lines (toCRLF [CR, LF]) ≠ (lines [CR, LF]).map toCRLF := by decide +kernel

end CM.Proofs
