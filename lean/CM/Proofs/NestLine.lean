import CM.Proofs.NestText
import CM.Proofs.QuoteLine
import CM.Proofs.RefDefSpansLine2
/-
C09 (nested documents): one (non-empty) line through both line parsers (port of the generic part of `QuoteLine`):
`openNewBlocks` followed by `addLineText` (`lineTail_sim`), and the whole line (`processLine_sim_of`) given what the first
iterations of `descendOpenBlocks` do on the prefixed side (they run the `match` functions of the frame's blocks, which
consume the prefix; this part depends on the frame).
-/
namespace CM.Proofs.Nest
open CM CM.Model CM.Gen CM.Proofs.BT CM.Proofs.Quote

variable {F : Frame} {E : Env} {G G' : List Tree → Prop} {p q : LP} {x : PExt}

/-- The opening loop from parsers related up to the state. -/
theorem openingLoop_simS {k : Nat} (HG : GOK x E G) (fuel : Nat) (h : SimS F E G k p q) (hst : q.state = p.state ∨ p.depth = 0) :
    (openingLoop x (fuel + 1) q).1 = (openingLoop x (fuel + 1) p).1 ∧
    Sim F E G k (openingLoop x (fuel + 1) p).2 (openingLoop x (fuel + 1) q).2 := by
  rcases hst with hs | hd
  · exact openingLoop_sim HG (fuel + 1) (h.toSim hs)
  · have h' : Sim F E G k { p with state := stateDescending } { q with state := stateDescending } := h
    obtain ⟨e1, e2⟩ := h'.containerKind_zero hd
    have a1 : acceptsLines p.containerKind = false := by
      have : ({ p with state := stateDescending } : LP).containerKind = p.containerKind := rfl
      rw [← this, e1]; rfl
    have a2 : acceptsLines q.containerKind = false := by
      have : ({ q with state := stateDescending } : LP).containerKind = q.containerKind := rfl
      rw [← this, e2]; exact Sim.top_acceptsLines F
    have := openingLoop_sim (x := x) HG (fuel + 1) h'
    rw [openingLoop_state x fuel p _ a1, openingLoop_state x fuel q _ a2] at this
    exact this

theorem openNewBlocks_sim {k : Nat} (HG : GOK x E G) (h : SimS F E G k p q) (hst : q.state = p.state ∨ p.depth = 0)
    (hne : p.line ≠ []) (hq : Inv q) (am : Bool) :
    (openNewBlocks x q am).1 = (openNewBlocks x p am).1 ∧ Sim F E G k (openNewBlocks x p am).2 (openNewBlocks x q am).2 := by
  have h' : Sim F E G k { p with state := stateDescending } { q with state := stateDescending } := h
  have hlen : q.line.length = p.line.length + k := h'.cur.len
  have hqi : q.i = p.i + k := h'.cur.i
  unfold openNewBlocks
  have c1 : ¬ p.line.isEmpty = true := by simpa using hne
  have c2 : ¬ q.line.isEmpty = true := by
    intro e
    have : q.line.length = 0 := by rw [List.isEmpty_iff.mp e]; rfl
    have : p.line.length = 0 := by omega
    exact hne (List.length_eq_zero_iff.mp this)
  rw [if_neg c1, if_neg c2]
  -- the same fuel on both sides
  have hf : openingLoop x (q.line.length + 8) q = openingLoop x (p.line.length + 7 + 1) q :=
    openingLoop_fuel_adequate x q hq _ (by omega)
  rw [hf]
  have e8 : p.line.length + 8 = p.line.length + 7 + 1 := rfl
  rw [e8]
  obtain ⟨o1, o2⟩ := openingLoop_simS (x := x) HG (p.line.length + 7) h hst
  generalize openingLoop x (p.line.length + 7 + 1) p = rp at o1 o2 ⊢
  generalize openingLoop x (p.line.length + 7 + 1) q = rq at o1 o2 ⊢
  obtain ⟨htp, p2⟩ := rp
  obtain ⟨htq, q2⟩ := rq
  simp only at o1 o2 ⊢
  subst o1
  cases am with
  | true => exact ⟨rfl, o2⟩
  | false =>
    simp only [Bool.false_eq_true, if_false]
    rw [o2.cur.isRestBlank]
    have ht := o2.toTip
    have hk : (((spineGet q2.root (tipDepth q2.root 0)).getD q2.root).kind == BK.paragraph) =
        (((spineGet p2.root (tipDepth p2.root 0)).getD p2.root).kind == BK.paragraph) :=
      ht.ckind_beq BK.paragraph (by decide) (by decide) (by decide)
    rw [hk]
    split
    · exact ⟨rfl, ht⟩
    · exact ⟨rfl, o2.closeLastChild HG (Int.natCast_nonneg _) (Int.natCast_nonneg _) o2.start⟩

/-- What the appended line of text needs: the one-sided invariant `G'` of the lists that include it. -/
def AppendOK (G G' : List Tree → Prop) (ls : Nat) (line : Bytes) : Prop :=
  ∀ (is : List Tree) (p3 : LP), G is → p3.lineStart = ls → p3.line = line → p3.i < p3.line.length → G' (is ++ [lineNode p3])

theorem lineTail_sim {k : Nat} (HG : GOK x E G) (hm : ∀ is, G is → G' is) (hA : AppendOK G G' p.lineStart p.line)
    (h : SimS F E G k p q) (hst : q.state = p.state ∨ p.depth = 0)
    (hne : p.line ≠ []) (hp : Inv p) (hq : Inv q) (am : Bool)
    {src : Bytes} {bd : Int} {ls : Nat} (hgi : RDS.GI src bd ls p) (hbd : bd ≤ (ls : Int)) (hls : ls ≤ src.length) (hj : RDS.J p) :
    Sim F E G' k (lineTail x am p) (lineTail x am q) := by
  unfold lineTail
  obtain ⟨o1, o2⟩ := openNewBlocks_sim (x := x) HG h hst hne hq am
  have op := openNewBlocks_post x p am hp
  have os := RDS.openNewBlocks_st x hbd hls p am hp hgi hj
  rw [o1]
  have hl : (openNewBlocks x p am).2.line = p.line := by
    unfold openNewBlocks
    rw [if_neg (by simpa using hne)]
    have ol := openingLoop_post x (p.line.length + 8) p hp (fun e => by omega)
    generalize openingLoop x (p.line.length + 8) p = r at ol ⊢
    obtain ⟨a, b⟩ := r
    simp only
    split
    · exact ol.line
    · split
      · exact ol.line
      · exact ol.line
  split
  · rename_i ht
    have hls2 : (openNewBlocks x p am).2.lineStart = p.lineStart := by rw [os.1.lineStart, hgi.lineStart]
    apply addLineText_sim HG hm _ o2 (by rw [hl]; exact hne) (op.st ht) op.inv os.1 (by omega) (os.2 ht)
    intro is p3 hg e1 e2 e3
    exact hA is p3 hg (by rw [e1, hls2]) (by rw [e2, hl]) e3
  · exact o2.mono hm

/-! ### the whole line -/

/-- What the next line needs to know about the two parsers. -/
structure Btw (F : Frame) (E : Env) (G : List Tree → Prop) (p q : LP) : Prop where
  root : RootR F E p.root q.root
  panic : q.panic = p.panic
  tp : TP G p.root

/-- **One non-empty line** through both parsers, given the first iterations of `descendOpenBlocks` on the prefixed side:
    they lead to the parser `q1` (the prefix of `k` bytes consumed) from which the loop continues below the frame. -/
theorem processLine_sim_of {k : Nat} (HG : GOK x E G) (hm : ∀ is, G is → G' is) (hA : AppendOK G G' p.lineStart p.line)
    (hne : p.line ≠ []) (hp : Inv p)
    (hT : p.state = stateDescendTerminated → ∃ c, spineGet p.root 1 = some c ∧ c.isOpen = true ∧ hasMatch c.label.kind)
    {q1 : LP} {fq : Nat} (hstep : descendOpenBlocks x q = descendLoop x fq q1 F.d)
    (hfuel : spineLength p.root + 1 ≤ fq) (hq1 : Inv { q1 with depth := F.d }) (hq1s : q1.state = 3)
    (hS : SimS F E G k { p with depth := 0 } { q1 with depth := F.d })
    {src : Bytes} {bd : Int} {ls : Nat} (hgi : RDS.GI src bd ls p) (hbd : bd ≤ (ls : Int)) (hls : ls ≤ src.length) :
    Btw F E G' (processLine x p) (processLine x q) := by
  rw [processLine_eq, processLine_eq, hstep]
  have hinv0 : Inv { p with depth := 0 } := hp.setDepth 0 (Nat.zero_le _)
  have e0 : 0 + F.d = F.d := Nat.zero_add _
  have hS' : SimS F E G k { p with depth := 0 } { q1 with depth := 0 + F.d } := by rw [e0]; exact hS
  have dl := descendLoop_sim (x := x) HG (spineLength p.root + 1) fq p q1 0 hfuel hinv0 (by omega) hS'
  rw [e0] at dl
  have hdP : descendOpenBlocks x p = descendLoop x (spineLength p.root + 1) p 0 := rfl
  rw [hdP]
  -- the invariants after the loops
  have ip := descendLoop_inv x (spineLength p.root + 1) p 0 hinv0
  have iq := descendLoop_inv x fq q1 F.d hq1
  have hl0 := descendLoop_line x (spineLength p.root + 1) p 0
  -- the one-sided facts of `RefDefSpansLine`
  have hj0 : RDS.J ({ p with depth := 0 } : LP) := by
    intro hk
    rw [containerKind_zero _ rfl] at hk
    have := hp.tree.root
    rw [show ({ p with depth := 0 } : LP).root.kind = p.root.kind from rfl, this] at hk
    cases hk
  have ds := RDS.descendLoop_st x (spineLength p.root + 1) p 0 hinv0 hgi hj0
  generalize descendLoop x (spineLength p.root + 1) p 0 = rp at dl ip hl0 ds ⊢
  generalize descendLoop x fq q1 F.d = rq at dl iq ⊢
  obtain ⟨amp, p2⟩ := rp
  obtain ⟨amq, q2⟩ := rq
  obtain ⟨d1, d2, d3⟩ := dl
  simp only at d1 d2 d3 ip iq hl0 ds ⊢
  subst d1
  -- the test for "descend terminated"
  have hterm : (q2.state == stateDescendTerminated) = (p2.state == stateDescendTerminated) := by
    rcases d3 with e | ⟨e1, e2, _, hnc⟩
    · rw [e]
    · rw [e1, e2, hq1s]
      have : p.state ≠ stateDescendTerminated := by
        intro e4
        obtain ⟨c, hc, ho, hm⟩ := hT e4
        exact hnc c hc ho hm
      rw [beq_eq_false_iff_ne.mpr this]
      rfl
  rw [hterm]
  split
  · rename_i ht
    rcases d3 with e | ⟨e1, e2, _, hnc⟩
    · have := (d2.toSim e).mono hm
      exact ⟨this.root, this.cur.panic, this.tp⟩
    · exfalso
      have hp4 : p.state = stateDescendTerminated := by rw [← e1]; simpa using ht
      obtain ⟨c, hc, ho, hm⟩ := hT hp4
      exact hnc c hc ho hm
  · rename_i h4
    have hn4 : p2.state ≠ 4 := by simpa [stateDescendTerminated] using h4
    have hst : q2.state = p2.state ∨ p2.depth = 0 := by
      rcases d3 with e | ⟨_, _, e3, _⟩
      · exact Or.inl e
      · exact Or.inr e3
    have hl2 : p2.line = p.line := hl0
    have hls2 : p2.lineStart = p.lineStart := by rw [ds.1.lineStart, hgi.lineStart]
    have := lineTail_sim (x := x) HG hm (by rw [hls2, hl2]; exact hA) d2 hst (by rw [hl2]; exact hne) ip iq amq ds.1 hbd hls
      (ds.2 hn4)
    exact ⟨this.root, this.cur.panic, this.tp⟩

end CM.Proofs.Nest
