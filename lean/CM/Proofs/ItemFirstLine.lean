import CM.Proofs.ItemStarts
import CM.Proofs.QuoteGLine
/-
C09 (list-item half): the first line through both line parsers.  The bare side reads the line `l`, the other side the
line `m ++ spaces N ++ l`, where `m` is a list marker of width `W = |m|` and `1 ≤ N ≤ 4`; the line is not a thematic
break.  Afterwards the document of the prefixed side holds a list with one item, whose children are the closed marker
and the images of the blocks of the bare side (`Nest.RootR (iF (W + N) dl)`, with `E.done` = the marker).
-/
namespace CM.Proofs.Item
open CM CM.Model CM.Gen CM.Proofs.BT CM.Proofs.BSp CM.Proofs.Quote CM.Proofs.Nest

variable {E : Env} {G G' : List Tree → Prop} {p q : LP} {x : PExt}

/-- The list marker as a tree. -/
def markerTree (W : Nat) : Tree := pbToTree (.mk (markerLab 0 W) [] [])

/-- Both parsers at the start of the first line. -/
structure FirstStartI (m : Bytes) (N : Nat) (dl : UInt8) (E : Env) (p q : LP) : Prop where
  lineq : q.line = m ++ (spaces N ++ p.line)
  pi : p.i = 0
  qi : q.i = 0
  notab : NoTab q.line
  mlen : 1 ≤ m.length
  n1 : 1 ≤ N
  n4 : N ≤ 4
  /-- the first byte of the marker -/
  m0 : q.line.getD 0 0 ≠ SP ∧ q.line.getD 0 0 ≠ 0x3E ∧ q.line.getD 0 0 ≠ 0x23 ∧ q.line.getD 0 0 ≠ 0x60 ∧
    q.line.getD 0 0 ≠ 0x7E ∧ q.line.getD 0 0 ≠ 0x3C
  /-- the text of the bare side begins with a non-space and is not blank -/
  p0 : p.line.getD 0 0 ≠ SP
  nonblank : isBlankLine p.line = false
  parse : ∃ nn, parseListMarker q.line = ⟨dl, nn, (m.length : Int)⟩
  /-- the line is not a thematic break -/
  notb : parseThematicBreak q.line < 0
  panic : q.panic = p.panic
  proot : p.root.blocks = [] ∧ p.root.label.kind = BK.document ∧ p.root.label.stop < 0
  qroot : ∃ lq isQ, q.root = .mk lq [] isQ ∧ lq.kind = BK.document ∧ lq.stop < 0
  srcp : p.source = E.src
  srcq : q.source = E.src'
  linep : p.line = p.source.drop p.lineStart
  lsp : p.lineStart ≤ p.source.length
  lineqs : q.line = q.source.drop q.lineStart
  lsq : q.lineStart ≤ q.source.length
  lsq0 : q.lineStart = 0
  here : ∀ j : Nat, j ≤ p.line.length → E.PR ((p.lineStart + j : Nat) : Int) ((q.lineStart + (m.length + N) + j : Nat) : Int)
  start : E.PR (p.lineStart : Int) (q.lineStart : Int)
  ord : ∀ a a' : Int, E.PR a a' → ((p.lineStart : Int) ≤ a ↔ (q.lineStart : Int) ≤ a')
  done : E.done = [markerTree m.length]

theorem bai_line (q : LP) (hi : q.i = 0) (hm0 : q.line.getD 0 0 ≠ SP) (hnt : NoTab q.line) : q.bytesAfterIndent = q.line := by
  unfold LP.bytesAfterIndent
  rw [hi, List.drop_zero]
  cases hq : q.line with
  | nil => rfl
  | cons c rest =>
    have h1 : c ≠ SP := by rw [hq] at hm0; exact hm0
    have h2 : c ≠ TAB := hnt c (by rw [hq]; exact List.mem_cons_self)
    simp [h1, h2]

/-- The tree of the first line is related to the empty document. -/
theorem firstRoot_rootR {P : PB} {lq : PLabel} {isQ : List Tree} {W N : Nat} {dl : UInt8}
    (hb : P.blocks = []) (hk : P.label.kind = BK.document) (ho : P.label.stop < 0)
    (hqk : lq.kind = BK.document) (hqo : lq.stop < 0) (hdone : E.done = [markerTree W]) :
    Nest.RootR (iF (W + N) dl) E P
      (firstRoot lq isQ 0 W dl (((0 : Nat) : Int) + ((W : Nat) : Int) + ((N : Nat) : Int))) := by
  unfold Nest.RootR firstRoot
  rw [iF_d]
  refine .step hqo (by unfold WL; rw [iF_d]; simp only [if_true]; exact hqk) (.step (by show (-1 : Int) < 0; decide) ?_ (.base ?_))
  · unfold WL
    rw [iF_d]
    simp only [show ¬ (0 + 1 = 2) by decide, if_false]
    exact ⟨rfl, rfl, rfl, rfl, rfl⟩
  · refine ⟨hk, ho, ⟨rfl, rfl, by show (-1 : Int) < 0; decide, rfl, rfl, ?_, rfl⟩, rfl, [.mk (markerLab 0 W) [] []], [], rfl, ⟨?_, ?_⟩, ?_⟩
    · show ((0 : Nat) : Int) + ((W : Nat) : Int) + ((N : Nat) : Int) = ((W + N : Nat) : Int)
      omega
    · intro b hb'
      rw [List.mem_singleton] at hb'
      rw [hb']
      show (0 : Int) ≤ ((0 : Nat) : Int) + ((0 + W : Nat) : Int)
      omega
    · rw [hdone]; rfl
    · rw [hb]; exact .nil

/-- **The first line** through both parsers. -/
theorem processLine_first_simI {m : Bytes} {N : Nat} {dl : UInt8} (HG : GOK x E G) (hm : ∀ is, G is → G' is)
    (hA : AppendOK G G' p.lineStart p.line)
    (h : FirstStartI m N dl E p q) (hul : NoUL p.line) (hne : p.line ≠ []) (hp : Inv p) (hq : Inv q)
    (hsp : p.state ≠ stateDescendTerminated) (hsq : q.state ≠ stateDescendTerminated)
    {src : Bytes} {bd : Int} {ls : Nat} (hgi : RDS.GI src bd ls p) (hbd : bd ≤ (ls : Int)) (hls : ls ≤ src.length) :
    Nest.Btw (iF (m.length + N) dl) E G' (processLine x p) (processLine x q) := by
  obtain ⟨lq, isQ, hqr, hqk, hqo⟩ := h.qroot
  obtain ⟨nn, hparse⟩ := h.parse
  -- descendOpenBlocks does nothing on either side
  have hdq : descendOpenBlocks x q = (true, { q with depth := 0 }) := by
    unfold descendOpenBlocks descendLoop
    have : spineGet q.root (0 + 1) = none := by rw [hqr]; rfl
    rw [this]
  have hdp : descendOpenBlocks x p = (true, { p with depth := 0 }) := by
    unfold descendOpenBlocks descendLoop
    have : spineGet p.root (0 + 1) = none := by rw [CM.Proofs.spineGet_one, h.proot.1]; rfl
    rw [this]
  rw [processLine_eq, processLine_eq, hdq, hdp]
  simp only []
  rw [if_neg (by simpa using hsp), if_neg (by simpa using hsq)]
  -- the first iteration of the opening loop on the prefixed side opens the list and its item
  have hpnt : NoTab p.line := fun c hc => h.notab c (by rw [h.lineq]; simp [hc])
  have hS7 := startListItem_fresh x ({ q with depth := 0, state := stateOpening } : LP) lq isQ m p.line N nn dl hqr hqk rfl rfl h.qi
    ⟨hq.cur.hi, hq.cur.htab⟩ h.lineq h.notab h.m0.1 h.mlen h.n1 h.n4 h.p0 h.nonblank hparse
  have hlenq : q.line.length = m.length + (N + p.line.length) := by rw [h.lineq]; simp [spaces]
  obtain ⟨c0, rest, hc0⟩ : ∃ c0 rest, q.line = c0 :: rest := by
    cases hql : q.line with
    | nil => rw [hql] at hlenq; simp at hlenq; have := h.mlen; omega
    | cons c r => exact ⟨c, r, rfl⟩
  have hg0 : q.line.getD 0 0 = c0 := by rw [hc0]; rfl
  have hm0 := h.m0
  rw [hg0] at hm0
  have hq0 : Inv ({ q with depth := 0 } : LP) := hq.setDepth 0 (Nat.zero_le _)
  have hck : ({ q with depth := 0 } : LP).containerKind = BK.document := by
    simp only [LP.containerKind, LP.container, hqr, spineGet_zero, Option.getD_some, PB.kind, PB.label, hqk]
  have hts : tryStarts (blockStartFns x) ({ q with depth := 0 } : LP) =
      startListItem x ({ q with depth := 0, state := stateOpening } : LP) := by
    apply tryStarts_item (x := x) ({ q with depth := 0 } : LP) c0 rest ?_ hm0.2.1 hm0.2.2.1 hm0.2.2.2.1 hm0.2.2.2.2.1 hm0.2.2.2.2.2
      (by rw [hck]; decide) (by rw [← hc0]; exact h.notb) hS7.state
    rw [← hc0]
    exact bai_line ({ q with depth := 0, state := stateOpening } : LP) h.qi h.m0.1 h.notab
  generalize hq1e : startListItem x ({ q with depth := 0, state := stateOpening } : LP) = q1 at hS7 hts
  have hq1 : Inv q1 := by rw [← hts]; exact (tryStarts_blockStarts x _ hq0).inv
  have l1 : q1.line = q.line := hS7.line
  have i1 : q1.i = m.length + N := hS7.i
  have hopen : openNewBlocks x ({ q with depth := 0 } : LP) true = openNewBlocks x q1 true := by
    have c1 : q.line ≠ [] := by rw [hc0]; simp
    rw [openNewBlocks_true x _ (show ({ q with depth := 0 } : LP).line ≠ [] from c1),
      openNewBlocks_true x q1 (by rw [l1]; exact c1)]
    have hstep : openingLoop x ((q.line.length + 7) + 1) ({ q with depth := 0 } : LP) = openingLoop x (q.line.length + 7) q1 := by
      conv => lhs; unfold openingLoop
      rw [hck]
      simp only [show (!(BK.document == BK.paragraph || !acceptsLines BK.document)) = false from rfl, Bool.false_eq_true, if_false]
      rw [hts, hS7.state]
      simp only [beq_self_eq_true, if_true]
    have e8 : ({ q with depth := 0 } : LP).line.length + 8 = q.line.length + 7 + 1 := rfl
    rw [e8, hstep]
    exact (openingLoop_fuel_adequate x q1 hq1 (q.line.length + 7) (by rw [l1, i1]; omega)).symm
  have htail : lineTail x true ({ q with depth := 0 } : LP) = lineTail x true q1 := by
    unfold lineTail; rw [hopen]
  rw [htail]
  have htp : TP G p.root := by
    have hb := h.proot
    generalize p.root = P at hb
    obtain ⟨l0, b0, i0⟩ := P
    simp only [PB.blocks, PB.label] at hb
    rw [TP_mk]
    refine ⟨fun hk => ?_, fun c hc => ?_⟩
    · exfalso
      rcases hk with hk | hk <;> rw [hb.2.1] at hk <;> revert hk <;> decide
    · rw [hb.1] at hc; cases hc
  -- below the item the two parsers are related
  have hS : Nest.SimS (iF (m.length + N) dl) E G (m.length + N) ({ p with depth := 0 } : LP) q1 := by
    have hv : (spineGet p.root 0).isSome := by rw [spineGet_zero]; rfl
    have hroot : Nest.RootR (iF (m.length + N) dl) E p.root q1.root := by
      rw [hS7.root]
      show Nest.RootR _ E p.root (firstRoot lq isQ q.lineStart m.length dl _)
      rw [h.lsq0]
      exact firstRoot_rootR h.proot.1 h.proot.2.1 h.proot.2.2 hqk hqo h.done
    refine ⟨⟨?_, ?_, ?_, ?_, hpnt, rfl, ?_⟩, ?_, hv, hroot, htp, hul, h.srcp, ?_, h.linep, h.lsp, ?_, ?_, ?_, ?_, ?_⟩
    · show q1.line.drop (m.length + N) = p.line
      rw [l1, h.lineq, ← List.append_assoc, List.drop_left' (by simp [spaces])]
    · show m.length + N ≤ q1.line.length; rw [l1]; omega
    · show q1.i = p.i + (m.length + N); rw [i1, h.pi]; omega
    · show p.i ≤ p.line.length; rw [h.pi]; exact Nat.zero_le _
    · show q1.panic = p.panic; rw [hS7.panic]; exact h.panic
    · show q1.depth = 0 + (iF (m.length + N) dl).d; rw [hS7.depth]; rfl
    · show q1.source = _; rw [hS7.source]; exact h.srcq
    · show q1.line = q1.source.drop q1.lineStart; rw [l1, hS7.source, hS7.lineStart]; exact h.lineqs
    · show q1.lineStart ≤ q1.source.length; rw [hS7.source, hS7.lineStart]; exact h.lsq
    · show ∀ j : Nat, j ≤ p.line.length → E.PR ((p.lineStart + j : Nat) : Int) ((q1.lineStart + (m.length + N) + j : Nat) : Int)
      rw [hS7.lineStart]; exact h.here
    · show E.PR (p.lineStart : Int) (q1.lineStart : Int); rw [hS7.lineStart]; exact h.start
    · show ∀ a a' : Int, E.PR a a' → ((p.lineStart : Int) ≤ a ↔ (q1.lineStart : Int) ≤ a')
      rw [hS7.lineStart]; exact h.ord
  have hgi0 : RDS.GI src bd ls ({ p with depth := 0 } : LP) := ⟨hgi.source, hgi.lineStart, hgi.line, hgi.good⟩
  have hj0 : RDS.J ({ p with depth := 0 } : LP) := by
    intro hk
    rw [containerKind_zero _ rfl] at hk
    have := hp.tree.root
    rw [show ({ p with depth := 0 } : LP).root.kind = p.root.kind from rfl, this] at hk
    cases hk
  have := Nest.lineTail_sim (F := iF (m.length + N) dl) (x := x) (p := ({ p with depth := 0 } : LP)) (q := q1) HG hm hA hS
    (Or.inr rfl) hne (hp.setDepth 0 (Nat.zero_le _)) hq1 true hgi0 hbd hls hj0
  exact ⟨this.root, this.cur.panic, this.tp⟩

end CM.Proofs.Item
