import CM.Proofs.BlocksSpans
import CM.Proofs.StreamLines
import CM.Proofs.StreamErr
/-
C02 — block half, at the level of the stream machine: every `Root` that `drain (blocksLP x) fuel (memParser inp) []`
delivers has valid, nested, ordered spans inside its own source, and its span ends at the end of its source.

The hypothesis about `onCloseParagraph` (`RefDefSpansOK`, see `BlocksSpans.lean`) is needed at every line of the run. It is
packaged as a *checked* line parser `blocksLPc x`: the same machine, which additionally evaluates the Boolean
`RefDefSpansOK` check before every line and reports the panic `refDefFail` if it ever fails. `drain_checked_eq`: a
checked run that does not end in `refDefFail` is the unchecked run. So the hypothesis of `drain_spans` — "the checked
run does not end in `refDefFail`" — is a decidable property of the input, evaluated in the examples.
-/
namespace CM.Proofs.BSp
open CM CM.Model CM.Gen CM.Proofs.BT

/-! ### translation invariance -/

theorem offsetTree_label (n : Int) (t : Tree) :
    (offsetTree n t).label = { t.label with start := t.label.start + n, stop := if t.label.stop ≥ 0 then t.label.stop + n else t.label.stop } := by
  cases t with
  | node l cs => simp [offsetTree, Tree.label]

theorem offsetTrees_inls (n : Int) : ∀ (is : List Tree) (lo hi : Int), 0 ≤ lo → InlsOK lo hi is →
    InlsOK (lo + n) (hi + n) (offsetTrees n is) := by
  intro is
  induction is with
  | nil => intro lo hi _ _; simp only [offsetTrees]; exact InlsOK_nil _ _
  | cons t rest ih =>
    intro lo hi hlo h
    simp only [offsetTrees]
    rw [InlsOK_cons] at h ⊢
    obtain ⟨h1, h2, h3, h4⟩ := h
    have hs : t.label.stop ≥ 0 := by omega
    have e := offsetTree_label n t
    have e1 : (offsetTree n t).label.start = t.label.start + n := by rw [e]
    have e2 : (offsetTree n t).label.stop = t.label.stop + n := by rw [e]; simp [hs]
    rw [e1, e2]
    exact ⟨by omega, by omega, by omega, ih _ _ (by omega) h4⟩

theorem offsetPB_label (n : Int) (b : PB) :
    (offsetPB n b).label = { b.label with start := b.label.start + n, stop := if b.label.stop ≥ 0 then b.label.stop + n else b.label.stop } := by
  cases b with
  | mk l bs is => simp [offsetPB, PB.label]

theorem offsetPBs_nil' (n : Int) : offsetPBs n [] = [] := by simp [offsetPBs]
theorem offsetPBs_cons' (n : Int) (b : PB) (rest : List PB) : offsetPBs n (b :: rest) = offsetPB n b :: offsetPBs n rest := by
  simp [offsetPBs]

mutual
/-- `PBSpans` is translation invariant (`offsetPB n`), as long as the lower bound stays non-negative. -/
theorem offsetPB_spans (n : Int) : ∀ (b : PB) {lo hi : Int}, 0 ≤ lo → 0 ≤ lo + n → PBSpans QT lo hi b →
    PBSpans QT (lo + n) (hi + n) (offsetPB n b)
  | .mk l bs is, lo, hi, hlo, hlon, h => by
    simp only [offsetPB]
    rw [PBSpans_mk] at h ⊢
    obtain ⟨a1, a2, a3, a4, a5, a6, a7⟩ := h
    have hsh : isContainerKind l.kind = true ∨ offsetPBs n bs = [] := by
      rcases a6 with a6 | a6
      · exact Or.inl a6
      · right; rw [a6]; exact offsetPBs_nil' n
    by_cases ho : l.stop < 0
    · have hno : ¬ l.stop ≥ 0 := by omega
      simp only [hno, if_false]
      rw [endOf_open ho] at a2 a3 a4 a5
      rw [endOf_open (show ({ l with start := l.start + n, stop := l.stop } : PLabel).stop < 0 from ho)]
      exact ⟨by show lo + n ≤ l.start + n; omega, by show l.start + n ≤ hi + n; omega, Int.le_refl _,
        offsetTrees_inls n is _ _ (by omega) a4, offsetPBs_spans n bs (by omega) (by omega) a5, hsh,
        fun ho' => ⟨(a7 ho).1, fun _ => rfl⟩⟩
    · have hc : l.stop ≥ 0 := by omega
      simp only [hc, if_true]
      rw [endOf_closed hc] at a2 a3 a4 a5
      have hc' : 0 ≤ ({ l with start := l.start + n, stop := l.stop + n } : PLabel).stop := by
        show 0 ≤ l.stop + n; omega
      rw [endOf_closed hc']
      have hd1 : decide (l.stop < 0) = false := by simp; omega
      have hd2 : decide (({ l with start := l.start + n, stop := l.stop + n } : PLabel).stop < 0) = false := by
        show decide (l.stop + n < 0) = false
        simp; omega
      rw [hd1] at a5
      rw [hd2]
      refine ⟨by show lo + n ≤ l.start + n; omega, by show l.start + n ≤ l.stop + n; omega, by show l.stop + n ≤ hi + n; omega,
        offsetTrees_inls n is _ _ (by omega) a4, offsetPBs_spans n bs (by omega) (by omega) a5, hsh, fun ho' => ?_⟩
      exfalso
      have : l.stop + n < 0 := ho'
      omega
theorem offsetPBs_spans (n : Int) : ∀ (bs : List PB) {po : Bool} {lo hi : Int}, 0 ≤ lo → 0 ≤ lo + n → PBSpansL QT po lo hi bs →
    PBSpansL QT po (lo + n) (hi + n) (offsetPBs n bs)
  | [], _, _, _, _, _, _ => by rw [offsetPBs_nil']; exact PBSpansL_nil _ _ _ _
  | b :: rest, po, lo, hi, hlo, hlon, h => by
    rw [offsetPBs_cons']
    rw [PBSpansL_cons] at h ⊢
    obtain ⟨h1, h2, h3⟩ := h
    have e := offsetPB_label n b
    by_cases ho : b.label.stop < 0
    · have hno : ¬ b.label.stop ≥ 0 := by omega
      have hbo : b.isOpen = true := (isOpen_iff b).mpr ho
      obtain ⟨er, hp⟩ := h2 hbo
      subst er
      refine ⟨offsetPB_spans n b hlo hlon h1, fun _ => ⟨offsetPBs_nil' n, hp⟩, ?_⟩
      rw [offsetPBs_nil']; exact PBSpansL_nil _ _ _ _
    · have hc : b.label.stop ≥ 0 := by omega
      have hb := PBSpans_closed_bounds h1 hc
      have es : (offsetPB n b).label.stop = b.label.stop + n := by rw [e]; simp [hc]
      refine ⟨offsetPB_spans n b hlo hlon h1, fun ho' => ?_, ?_⟩
      · rw [isOpen_iff, es] at ho'
        omega
      · rw [es]
        exact offsetPBs_spans n rest (by omega) (by omega) h3
end

/-! ### small facts about the stream machine -/

theorem fillNulls_length : ∀ (n : Nat) (b : Bytes), b.length ≤ n → (fillNulls b).length = b.length := by
  intro n
  induction n with
  | zero => intro b h; cases b with
    | nil => simp [fillNulls]
    | cons c r => simp at h
  | succ n ih =>
    intro b h
    cases b with
    | nil => simp [fillNulls]
    | cons c rest =>
      have h3 : nullReplacementString.length = 3 := rfl
      rw [fillNulls]
      split
      · simp only [List.length_cons]
        rw [ih rest (by simp at h; omega)]
      · simp only [List.length_append, List.length_take, List.length_cons, h3]
        rw [ih _ (by simp only [List.length_drop]; simp at h; omega)]
        simp only [List.length_drop]
        omega

/-- A delivered root has valid spans inside its own source, and its span ends at the end of the source. -/
def RootSpansOK (r : Root) : Prop := PBSpans QT 0 r.source.length r.block ∧ r.block.label.stop = r.source.length

/-- The invariant of the (in-memory) stream state between `NextBlock` calls. -/
structure BPInv (p : BP) : Prop where
  err : p.err.isSome = true
  ile : p.i ≤ p.buf.length
  blocks : PBSpansL QT true 0 p.i p.blocks

theorem makeRoot_spans (p : BP) (kids : List PB) (po : Bool) (lo e : Int) (herr : p.err.isSome = true) (hi : p.i ≤ p.buf.length)
    (hlo : 0 ≤ lo) (he : e ≤ p.i) (hk : PBSpansL QT po lo e kids) (r : Root) (p' : BP) (hm : makeRoot p kids = some (r, p')) :
    RootSpansOK r ∧ BPInv p' := by
  cases kids with
  | nil => simp [makeRoot] at hm
  | cons k rest =>
    simp only [makeRoot] at hm
    split at hm
    · cases hm
    · rename_i hko
      have hkc : 0 ≤ k.label.stop := by
        rw [← isOpen_false_iff]; simpa using hko
      simp only [Option.some.injEq, Prod.mk.injEq] at hm
      obtain ⟨rfl, rfl⟩ := hm
      rw [PBSpansL_cons] at hk
      obtain ⟨hk1, _, hk3⟩ := hk
      have hb := PBSpans_closed_bounds hk1 hkc
      have hn : ((k.label.stop.toNat : Nat) : Int) = k.label.stop := Int.toNat_of_nonneg hkc
      have hnle : k.label.stop.toNat ≤ p.i := by omega
      have hlen : (fillNulls (p.buf.take k.label.stop.toNat)).length = k.label.stop.toNat := by
        rw [fillNulls_length _ _ (Nat.le_refl _), List.length_take]; omega
      refine ⟨⟨?_, ?_⟩, ⟨herr, ?_, ?_⟩⟩
      · show PBSpans QT 0 (fillNulls (p.buf.take k.label.stop.toNat)).length k
        rw [hlen, hn]
        exact PBSpans_closed_hi hkc (PBSpans_mono' hlo (Int.le_refl _) hk1) (Int.le_refl _)
      · show k.label.stop = (fillNulls (p.buf.take k.label.stop.toNat)).length
        rw [hlen, hn]
      · show p.i - k.label.stop.toNat ≤ (p.buf.drop k.label.stop.toNat).length
        simp only [List.length_drop]; omega
      · show PBSpansL QT true 0 ((p.i - k.label.stop.toNat : Nat) : Int) (offsetPBs (-(k.label.stop.toNat : Int)) rest)
        have h3 : PBSpansL QT true k.label.stop p.i rest := by
          have := PBSpansL_mono' (Int.le_refl _) he hk3
          cases po
          · exact PBSpansL_po this
          · exact this
        have := offsetPBs_spans (-(k.label.stop.toNat : Int)) rest hkc (by omega) h3
        exact PBSpansL_mono' (by omega) (by omega) this

/-! ### a dead session: the document was closed at the end of the input without any block left -/

theorem processLine_dead (x : PExt) (lp : LP) (src : Bytes) (ls : Nat) (hd : src.drop ls = [])
    (hc : 0 ≤ lp.root.label.stop) (hb : lp.root.blocks = []) : (processLine x (lp.reset src ls)).root = lp.root := by
  obtain ⟨r1, r2, r3, r4⟩ := reset_fields lp src ls
  generalize lp.reset src ls = p at r1 r2 r3 r4
  have hline : p.line = [] := by rw [r4, hd]
  have hroot : p.root.blocks = [] := by rw [r1]; exact hb
  have hdesc : descendOpenBlocks x p = (true, { p with depth := 0 }) := by
    unfold descendOpenBlocks
    rw [descendLoop]
    have : spineGet p.root (0 + 1) = none := by
      rcases hpr : p.root with ⟨l, bs, is⟩
      rw [hpr] at hroot
      simp only [PB.blocks] at hroot
      subst hroot
      rfl
    rw [this]
  unfold processLine
  rw [hdesc]
  simp only []
  split
  · exact r1
  · unfold openNewBlocks
    have he : p.line.isEmpty = true := by rw [hline]; rfl
    simp only [he, if_true]
    show (({ p with depth := 0 } : LP).closeContainer x p.lineStart).root = lp.root
    unfold LP.closeContainer
    simp only [beq_self_eq_true, if_true]
    show (closeBlock x p.source p.lineStart p.root).headD p.root = lp.root
    rw [closeBlock_closed x _ _ p.root (by rw [r1]; exact hc)]
    exact r1

/-! ### the checked line parser -/

def refDefFail : String := "RefDefSpansOK failed"

/-- The block-phase line parser that also evaluates the `RefDefSpansOK` hypothesis before every line. -/
def blocksLPc (x : PExt) : LineParserI where
  σ := LP × Bool
  new children := ((blocksLP x).new children, true)
  line s source lineStart := (processLine x (s.1.reset source lineStart),
    s.2 && pbSpans (RefDefSpansOK x source lineStart source.length) 0 lineStart s.1.root)
  kids s := s.1.root.blocks
  panicked s := if s.2 then s.1.panic else some refDefFail

/-- The state of a session before its next line (which starts at `ls`). -/
def Sess (ls : Nat) (p : BP) (lp : LP) : Prop :=
  LPInv' lp ∧
  ((lp.root.label.stop < 0 ∧ PBSpans QT 0 ls lp.root) ∨
   (0 ≤ lp.root.label.stop ∧ lp.root.blocks = [] ∧ ls = p.i ∧ p.buf.drop p.i = []))

theorem lineLen_eq_zero {l : Bytes} (h : lineLen l = 0) : l = [] := by
  cases l with
  | nil => rfl
  | cons c r => have := lineLen_pos (l := c :: r) (by simp); omega

theorem parseLines_spans (x : PExt) : ∀ (fuel : Nat) (lp : LP) (ok : Bool) (ls : Nat) (p : BP), p.err.isSome = true →
    p.i ≤ p.buf.length → ls ≤ p.i → (ls = p.i → p.buf.drop p.i = []) → Sess ls p lp →
    ∀ r p', parseLines (blocksLPc x) fuel (lp, ok) ls p = (.block r, p') → RootSpansOK r ∧ BPInv p' := by
  intro fuel
  induction fuel with
  | zero => intro lp ok ls p _ _ _ _ _ r p' h; simp [parseLines] at h
  | succ fuel ih =>
    intro lp ok ls p herr hi hls hrel hsess r p' h
    obtain ⟨hlp, hcase⟩ := hsess
    have hsl : (p.buf.take p.i).length = p.i := by simp [hi]
    have hnp := processLine_no_panic x _ (reset_LPInv lp hlp (p.buf.take p.i) ls)
    -- the next line
    have hrl : readline (p.rd.data.length + p.rd.sched.length + 2) p =
        (decide (0 < lineLen (p.buf.drop p.i)), { p with i := p.i + lineLen (p.buf.drop p.i) }) :=
      CM.Model.readline_mem (p.rd.data.length + p.rd.sched.length + 1) p herr hi
    have hi2 : p.i + lineLen (p.buf.drop p.i) ≤ p.buf.length := by
      have := lineLen_le (p.buf.drop p.i)
      simp only [List.length_drop] at this
      omega
    have hrel2 : p.i = p.i + lineLen (p.buf.drop p.i) → p.buf.drop (p.i + lineLen (p.buf.drop p.i)) = [] := by
      intro e
      have h0 : lineLen (p.buf.drop p.i) = 0 := by omega
      rw [h0, Nat.add_zero]
      exact lineLen_eq_zero h0
    simp only [parseLines, blocksLPc] at h
    cases hok : (ok && pbSpans (RefDefSpansOK x (p.buf.take p.i) ↑ls ↑(p.buf.take p.i).length) 0 ↑ls lp.root)
    · rw [hok] at h
      simp at h
    · rw [hok] at h
      simp only [if_true, hnp.1] at h
      simp only [Bool.and_eq_true] at hok
      rcases hcase with ⟨hopen, hsp⟩ | ⟨hclosed, hnob, hlsi, hdrop⟩
      · -- a live session
        have key := processLine_spans x lp (p.buf.take p.i) ls hlp (by rw [hsl]; exact hls) hopen hok.2
        rw [hsl] at key
        generalize processLine x (lp.reset (p.buf.take p.i) ls) = lp' at h hnp key
        rcases hr : lp'.root with ⟨l, bs, is⟩
        have hkids : lp'.root.blocks = bs := by rw [hr]; rfl
        rw [hkids] at h
        have hsp' := key.1
        rw [hr, PBSpans_mk] at hsp'
        obtain ⟨a1, a2, a3, a4, a5, a6⟩ := hsp'
        cases hmk : makeRoot p bs with
        | some rp =>
          obtain ⟨r0, p0⟩ := rp
          rw [hmk] at h
          simp only [Prod.mk.injEq, NBOut.block.injEq] at h
          obtain ⟨rfl, rfl⟩ := h
          exact makeRoot_spans p bs _ _ _ herr hi a1 a3 a5 _ _ hmk
        | none =>
          rw [hmk] at h
          simp only [hrl] at h
          apply ih lp' true p.i ({ p with i := p.i + lineLen (p.buf.drop p.i) } : BP) herr hi2 (Nat.le_add_right _ _) hrel2 _ r p' h
          refine ⟨hnp.2, ?_⟩
          by_cases hro : lp'.root.label.stop < 0
          · exact Or.inl ⟨hro, key.1⟩
          · right
            have hrc : 0 ≤ l.stop := by rw [hr] at hro; simp only [PB.label] at hro; omega
            have hlt : ¬ ls < p.i := fun hlt => hro (key.2 hlt)
            have hlsi : ls = p.i := by omega
            have hd := hrel hlsi
            have h0 : lineLen (p.buf.drop p.i) = 0 := by rw [hd]; rfl
            refine ⟨by rw [hr]; exact hrc, ?_, ?_, ?_⟩
            · rw [hkids]
              cases bs with
              | nil => rfl
              | cons k rest =>
                exfalso
                have hd1 : decide (l.stop < 0) = false := by simp; omega
                rw [hd1] at a5
                have hkc := allClosed_of_false a5 k (by simp)
                have : k.isOpen = false := (isOpen_false_iff k).mpr hkc
                simp [makeRoot, this] at hmk
            · show p.i = p.i + lineLen (p.buf.drop p.i)
              omega
            · show p.buf.drop (p.i + lineLen (p.buf.drop p.i)) = []
              rw [h0, Nat.add_zero]; exact hd
      · -- a dead session
        have hdl : (p.buf.take p.i).drop ls = [] := by
          rw [hlsi]; simp
        have hroot := processLine_dead x lp (p.buf.take p.i) ls hdl hclosed hnob
        generalize processLine x (lp.reset (p.buf.take p.i) ls) = lp' at h hnp hroot
        rw [hroot, hnob] at h
        simp only [makeRoot, hrl] at h
        have h0 : lineLen (p.buf.drop p.i) = 0 := by rw [hdrop]; rfl
        apply ih lp' true p.i ({ p with i := p.i + lineLen (p.buf.drop p.i) } : BP) herr hi2 (Nat.le_add_right _ _) hrel2 _ r p' h
        refine ⟨hnp.2, Or.inr ⟨by rw [hroot]; exact hclosed, by rw [hroot]; exact hnob, ?_, ?_⟩⟩
        · show p.i = p.i + lineLen (p.buf.drop p.i)
          omega
        · show p.buf.drop (p.i + lineLen (p.buf.drop p.i)) = []
          rw [h0, Nat.add_zero]; exact hdrop

/-! ### `skipBlank`, `NextBlock`, `drain` -/

theorem skipBlank_facts : ∀ (fuel : Nat) (p q q' : BP), p.err.isSome = true → p.i ≤ p.buf.length →
    skipBlank fuel p = (some q, q') →
    q.err.isSome = true ∧ q.i ≤ q.buf.length ∧ q.blocks = p.blocks ∧ isBlankLine (q.buf.take q.i) = false := by
  intro fuel
  induction fuel with
  | zero => intro p q q' _ _ h; simp [skipBlank] at h
  | succ fuel ih =>
    intro p q q' herr hi h
    have hrl : readline (p.rd.data.length + p.rd.sched.length + 2) p =
        (decide (0 < lineLen (p.buf.drop p.i)), { p with i := p.i + lineLen (p.buf.drop p.i) }) :=
      CM.Model.readline_mem (p.rd.data.length + p.rd.sched.length + 1) p herr hi
    have hi2 : p.i + lineLen (p.buf.drop p.i) ≤ p.buf.length := by
      have := lineLen_le (p.buf.drop p.i)
      simp only [List.length_drop] at this
      omega
    simp only [skipBlank, hrl] at h
    split at h
    · cases h
    · split at h
      · rename_i hnb
        simp only [Prod.mk.injEq, Option.some.injEq] at h
        obtain ⟨rfl, _⟩ := h
        exact ⟨herr, hi2, rfl, by simpa using hnb⟩
      · have := ih _ q q' (by exact herr) (by simp) h
        exact this

theorem docRoot_spans (bs : List PB) (ls : Int) (hls : 0 ≤ ls) (h : PBSpansL QT true 0 ls bs) : PBSpans QT 0 ls (docRoot bs) := by
  unfold docRoot
  rw [PBSpans_mk]
  have ho : ({ kind := BK.document, start := 0, stop := -1 } : PLabel).stop < 0 := by decide
  rw [endOf_open ho]
  refine ⟨Int.le_refl _, hls, Int.le_refl _, InlsOK_nil _ _, ?_, Or.inl (by decide), fun _ => ⟨by decide, fun hk => by cases hk⟩⟩
  have : decide (({ kind := BK.document, start := 0, stop := -1 } : PLabel).stop < 0) = true := by decide
  rw [this]
  exact h

theorem new_sess (x : PExt) (bs : List PB) (ls : Nat) (p : BP) (h : PBSpansL QT true 0 ls bs) :
    Sess ls p ((blocksLP x).new bs) :=
  ⟨new_LPInv' x bs, Or.inl ⟨by show (-1 : Int) < 0; decide, docRoot_spans bs ls (Int.natCast_nonneg _) h⟩⟩

theorem nextBlock_spans (x : PExt) (p : BP) (hp : BPInv p) (r : Root) (p' : BP)
    (h : nextBlock (blocksLPc x) p = (.block r, p')) : RootSpansOK r ∧ BPInv p' := by
  unfold nextBlock at h
  split at h
  · rename_i r0 p0 hmk
    simp only [Prod.mk.injEq, NBOut.block.injEq] at h
    obtain ⟨rfl, rfl⟩ := h
    exact makeRoot_spans p p.blocks true 0 p.i hp.err hp.ile (Int.le_refl _) (Int.le_refl _) hp.blocks _ _ hmk
  · simp only [] at h
    have hrl : readline (p.rd.data.length + p.rd.sched.length + 2) p =
        (decide (0 < lineLen (p.buf.drop p.i)), { p with i := p.i + lineLen (p.buf.drop p.i) }) :=
      CM.Model.readline_mem (p.rd.data.length + p.rd.sched.length + 1) p hp.err hp.ile
    have hi2 : p.i + lineLen (p.buf.drop p.i) ≤ p.buf.length := by
      have := lineLen_le (p.buf.drop p.i)
      simp only [List.length_drop] at this
      have := hp.ile
      omega
    split at h
    · -- left-over blocks: continue their session
      simp only [hrl] at h
      refine parseLines_spans x _ _ true p.i ({ p with i := p.i + lineLen (p.buf.drop p.i) } : BP) hp.err hi2
        (Nat.le_add_right _ _) ?_ (new_sess x p.blocks p.i _ hp.blocks) r p' h
      intro e
      have h0 : lineLen (p.buf.drop p.i) = 0 := by
        have : p.i = p.i + lineLen (p.buf.drop p.i) := e
        omega
      show p.buf.drop (p.i + lineLen (p.buf.drop p.i)) = []
      rw [h0, Nat.add_zero]
      exact lineLen_eq_zero h0
    · -- a fresh session
      rename_i hlen
      have hbl : p.blocks = [] := by
        cases hb : p.blocks with
        | nil => rfl
        | cons a t => rw [hb] at hlen; simp at hlen
      split at h
      · split at h
        · simp at h
        · simp at h
      · rename_i q q2 hsk
        have hq := skipBlank_facts _ _ q q2 (by exact hp.err) (by simp) hsk
        obtain ⟨q1, q2', q3, q4⟩ := hq
        have hqb : q.blocks = [] := by rw [q3]; exact hbl
        rw [hqb] at h
        refine parseLines_spans x _ _ true 0 q q1 q2' (Nat.zero_le _) ?_ (new_sess x [] 0 q (PBSpansL_nil _ _ _ _)) r p' h
        intro e
        rw [← e] at q4
        simp [isBlankLine] at q4

theorem drain_spans_checked (x : PExt) : ∀ (fuel : Nat) (p : BP) (acc : List Root), BPInv p → (∀ r ∈ acc, RootSpansOK r) →
    ∀ r ∈ (drain (blocksLPc x) fuel p acc).1, RootSpansOK r := by
  intro fuel
  induction fuel with
  | zero => intro p acc _ hacc r hr; simp only [drain, List.mem_reverse] at hr; exact hacc r hr
  | succ fuel ih =>
    intro p acc hp hacc r hr
    unfold drain at hr
    split at hr
    · rename_i r0 p0 hnb
      obtain ⟨h1, h2⟩ := nextBlock_spans x p hp r0 p0 hnb
      exact ih p0 (r0 :: acc) h2 (fun r' hr' => by
        rcases List.mem_cons.mp hr' with rfl | hr'
        · exact h1
        · exact hacc r' hr') r hr
    · simp only [List.mem_reverse] at hr; exact hacc r hr

theorem memParser_inv (inp : Bytes) : BPInv (memParser inp) :=
  ⟨rfl, Nat.zero_le _, PBSpansL_nil _ _ _ _⟩

/-! ### the checked machine is the machine -/

/-- The output "the `RefDefSpansOK` check failed". -/
def isRefDefFail : NBOut → Bool
  | .panic m => m == refDefFail
  | _ => false

theorem parseLines_checked_eq (x : PExt) : ∀ (fuel : Nat) (lp : LP) (ok : Bool) (ls : Nat) (p : BP),
    isRefDefFail (parseLines (blocksLPc x) fuel (lp, ok) ls p).1 = false →
    parseLines (blocksLP x) fuel lp ls p = parseLines (blocksLPc x) fuel (lp, ok) ls p := by
  intro fuel
  induction fuel with
  | zero => intro lp ok ls p _; rfl
  | succ fuel ih =>
    intro lp ok ls p h
    simp only [parseLines, blocksLPc, blocksLP] at h ⊢
    cases hok : (ok && pbSpans (RefDefSpansOK x (p.buf.take p.i) ↑ls ↑(p.buf.take p.i).length) 0 ↑ls lp.root)
    · rw [hok] at h
      simp [isRefDefFail] at h
    · rw [hok] at h
      simp only [if_true] at h ⊢
      cases hpan : (processLine x (lp.reset (p.buf.take p.i) ls)).panic with
      | some m => rfl
      | none =>
        rw [hpan] at h
        simp only [] at h ⊢
        cases hmk : makeRoot p (processLine x (lp.reset (p.buf.take p.i) ls)).root.blocks with
        | some rp => rfl
        | none =>
          rw [hmk] at h
          simp only [] at h ⊢
          exact ih _ true _ _ h

theorem nextBlock_checked_eq (x : PExt) (p : BP) (h : isRefDefFail (nextBlock (blocksLPc x) p).1 = false) :
    nextBlock (blocksLP x) p = nextBlock (blocksLPc x) p := by
  unfold nextBlock at h ⊢
  cases hmk : makeRoot p p.blocks with
  | some rp => rfl
  | none =>
    rw [hmk] at h
    simp only [] at h ⊢
    split
    · rename_i hlen
      simp only [hlen, if_true] at h
      exact parseLines_checked_eq x _ _ true _ _ h
    · rename_i hlen
      simp only [hlen, if_false] at h
      split
      · rfl
      · rename_i q q2 hsk
        rw [hsk] at h
        exact parseLines_checked_eq x _ _ true _ _ h

theorem drain_checked_eq (x : PExt) : ∀ (fuel : Nat) (p : BP) (acc : List Root),
    isRefDefFail (drain (blocksLPc x) fuel p acc).2.1 = false →
    drain (blocksLP x) fuel p acc = drain (blocksLPc x) fuel p acc := by
  intro fuel
  induction fuel with
  | zero => intro p acc _; rfl
  | succ fuel ih =>
    intro p acc h
    unfold drain at h ⊢
    cases hnb : nextBlock (blocksLPc x) p with
    | mk o p' =>
      rw [hnb] at h
      cases o with
      | block r =>
        simp only [] at h
        rw [nextBlock_checked_eq x p (by rw [hnb]; rfl)]
        rw [hnb]
        exact ih p' (r :: acc) h
      | err e =>
        rw [nextBlock_checked_eq x p (by rw [hnb]; rfl)]
        rw [hnb]
      | panic m =>
        simp only [] at h
        rw [nextBlock_checked_eq x p (by rw [hnb]; exact h)]
        rw [hnb]

/-- **`drain_spans`.** Every root delivered by the block parser on an in-memory input has valid, nested, ordered spans
    inside its own source (`PBSpans QT 0 |source|`), and its span ends at the end of its source — provided the Boolean
    `RefDefSpansOK` check never fails along the run (a decidable property of `(x, inp, fuel)`). -/
theorem drain_spans (x : PExt) (inp : Bytes) (fuel : Nat)
    (h : isRefDefFail (drain (blocksLPc x) fuel (memParser inp) []).2.1 = false) :
    ∀ r ∈ (drain (blocksLP x) fuel (memParser inp) []).1, RootSpansOK r := by
  rw [drain_checked_eq x fuel _ [] h]
  exact drain_spans_checked x fuel _ [] (memParser_inv inp) (fun _ hr => by cases hr)

/-- What `RootSpansOK` says about the root block itself. -/
theorem RootSpansOK.root {r : Root} (h : RootSpansOK r) :
    0 ≤ r.block.label.start ∧ r.block.label.start ≤ r.block.label.stop ∧ r.block.label.stop = r.source.length := by
  have hc : 0 ≤ r.block.label.stop := by rw [h.2]; exact Int.natCast_nonneg _
  have := PBSpans_closed_bounds h.1 hc
  exact ⟨this.1, this.2.1, h.2⟩

/-- What is *not* proved here (clause "the root starts after spaces and tabs only" of `Spec.spansOK`, and the
    `RefDefSpansOK` check itself, which needs the reader of `Model/LinkParse.lean`). -/
def drain_spans_target : Prop :=
  ∀ (x : PExt) (inp : Bytes) (fuel : Nat), ∀ r ∈ (drain (blocksLP x) fuel (memParser inp) []).1,
    RootSpansOK r ∧ (r.source.take r.block.label.start.toNat).all (fun c => c == SP || c == TAB) = true

/-- What remains to be proved about the link-reference-definition scanner: the `RefDefSpansOK` check never fails on a
    run of the block parser. (`refDefSpansOK_of_no_bracket` settles a paragraph that does not begin with `[`; for one that
    does, this needs the reader of `Model/Reader.lean` / `Model/LinkParse.lean`: the positions it returns increase and stay
    inside the inline children, and — because every inline child of a paragraph is a line — a line ending is always
    the end of an inline child.) Not proved here. -/
def refDefSpansOK_target : Prop :=
  ∀ (x : PExt) (inp : Bytes) (fuel : Nat), isRefDefFail (drain (blocksLPc x) fuel (memParser inp) []).2.1 = false

/-! ### Non-vacuity and concrete evaluations -/

section Examples

-- the `RefDefSpansOK` check never fails on `spDoc` (a reference definition split off a paragraph; nested lists in a
-- block quote) …
example : isRefDefFail (drain (blocksLPc btX) 20 (memParser spDoc) []).2.1 = false := by decide +kernel
-- … so every delivered root has valid spans:
example : ∀ r ∈ (drain (blocksLP btX) 20 (memParser spDoc) []).1, RootSpansOK r := drain_spans btX spDoc 20 (by decide +kernel)
-- the three roots (kind, start, stop, |source|): the definition, the rest of the paragraph, the block quote
example : (drain (blocksLP btX) 20 (memParser spDoc) []).1.map
    (fun r => (r.block.kind, r.block.label.start, r.block.label.stop, r.source.length)) =
    [(BK.linkRefDef, 0, 16, 16), (BK.paragraph, 0, 5, 5), (BK.blockQuote, 0, 21, 21)] := by decide +kernel
example : (drain (blocksLP btX) 20 (memParser spDoc) []).1.map
    (fun r => r.block.blocks.map (fun b => (b.kind, b.label.start, b.label.stop))) =
    [[], [], [(BK.list, 2, 14), (BK.list, 16, 21)]] := by decide +kernel

/-- A setext heading whose text is a reference definition, inside a block quote: `onCloseParagraph` leaves the
    underline as an orphan paragraph `[10, 16)` after the definition `[2, 10)`. -/
def spSetext : Bytes := Bytes.ofString "> [a]: /u\n> ===\n"

example : isRefDefFail (drain (blocksLPc btX) 20 (memParser spSetext) []).2.1 = false := by decide +kernel
example : ∀ r ∈ (drain (blocksLP btX) 20 (memParser spSetext) []).1, RootSpansOK r := drain_spans btX spSetext 20 (by decide +kernel)
example : (drain (blocksLP btX) 20 (memParser spSetext) []).1.map
    (fun r => (r.block.kind, r.block.label.start, r.block.label.stop, r.source.length)) = [(BK.blockQuote, 0, 16, 16)] := by
  decide +kernel
example : (drain (blocksLP btX) 20 (memParser spSetext) []).1.flatMap (fun r => spKids r.block) =
    [(BK.linkRefDef, 2, 10), (BK.paragraph, 10, 16)] := by decide +kernel
example : (drain (blocksLP btX) 20 (memParser spSetext) []).1.flatMap (fun r => r.block.blocks.flatMap (fun b =>
    b.inlines.map (fun t => (t.label.kind, t.label.start, t.label.stop)))) =
    [(IK.linkLabel, 3, 4), (IK.linkDest, 7, 9), (IK.unparsed, 12, 16)] := by decide +kernel

-- translation invariance on a concrete block
example : PBSpans QT (4 + -4) (8 + -4) (offsetPB (-4) (mkPB BK.atxHeading 4 8 [mkInline IK.unparsed 6 7])) :=
  offsetPB_spans (-4) (mkPB BK.atxHeading 4 8 [mkInline IK.unparsed 6 7]) (lo := 4) (hi := 8) (by decide) (by decide)
    (by decide +kernel)

end Examples

end CM.Proofs.BSp
