import CM.Proofs.LeafBlocksBase
import CM.Proofs.Recognize1
import CM.Proofs.Recognize2
/-
C06 (block piece, leaf blocks): thematic breaks.
A line that starts with one of `*`, `-`, `_` and on which `parseThematicBreak` succeeds (three or more copies of that
character, spaces and tabs anywhere after the first): `startThematicBreak` on the empty document, the run of the stream
machine.
-/
namespace CM.Proofs.Leaf
open CM CM.Model CM.Gen
open CM.Proofs CM.Proofs.BT

/-! ### the recogniser -/

/-- The canonical thematic-break line (without its LF): it starts with the marker `c`, and its bytes other than spaces and
    tabs are `n ≥ 3` copies of `c`. -/
def hrOK (c : UInt8) (n : Nat) (l : Bytes) : Bool :=
  isMark c && decide (3 ≤ n) && plainLine l && (l.head? == some c) && (l.filter nws == List.replicate n c)

theorem hrOK_elim {c : UInt8} {n : Nat} {l : Bytes} (h : hrOK c n l = true) :
    isMark c = true ∧ 3 ≤ n ∧ plainLine l = true ∧ l.head? = some c ∧ l.filter nws = List.replicate n c := by
  simp only [hrOK, Bool.and_eq_true, decide_eq_true_eq, beq_iff_eq] at h
  obtain ⟨⟨⟨⟨h1, h2⟩, h3⟩, h4⟩, h5⟩ := h
  exact ⟨h1, h2, h3, h4, h5⟩

theorem filter_nws_append_LF (l : Bytes) : (l ++ [LF]).filter nws = l.filter nws := by
  rw [List.filter_append]
  have : [LF].filter nws = [] := by decide
  rw [this, List.append_nil]

/-- On such a line `parseThematicBreak` succeeds, with an end inside the line. -/
theorem parseThematicBreak_hr (c : UInt8) (n : Nat) (l : Bytes) (h : hrOK c n l = true) :
    ∃ e : Nat, parseThematicBreak (l ++ [LF]) = (e : Int) ∧ e ≤ (l ++ [LF]).length := by
  obtain ⟨h1, h2, _, _, h5⟩ := hrOK_elim h
  refine ⟨(Spec.dropRight Spec.isWs (l ++ [LF])).length, ?_, dropRight_length_le _ _⟩
  rw [thematicBreak_eq_spec]
  unfold Spec.thematicBreak
  have hf : ((l ++ [LF]).filter fun b => !Spec.isWs b) = List.replicate n c := by
    have : ((l ++ [LF]).filter fun b => !Spec.isWs b) = (l ++ [LF]).filter nws := rfl
    rw [this, filter_nws_append_LF, h5]
  rw [hf]
  obtain ⟨m, rfl⟩ : ∃ m, n = m + 1 := ⟨n - 1, by omega⟩
  have hm : (c == 0x2D || c == 0x5F || c == 0x2A) = true := h1
  simp only [List.replicate_succ, hm, Bool.true_and, List.length_replicate]
  have hall : (List.replicate m c).all (· == c) = true := by simp
  have hge : decide (m + 1 ≥ 3) = true := by simp; omega
  simp only [hall, hge, Bool.and_self, if_true]

theorem mark_classes : ∀ c : UInt8, isMark c = true →
    c ≠ SP ∧ c ≠ TAB ∧ c ≠ 0x3E ∧ c ≠ 0x23 ∧ c ≠ 0x60 ∧ c ≠ 0x7E ∧ c ≠ 0x3C ∧ Gen.isSpaceTabOrLineEnding c = false := by
  intro c hc
  simp only [isMark, Bool.or_eq_true, beq_iff_eq] at hc
  rcases hc with (h | h) | h <;> subst h <;> decide

/-! ### `startThematicBreak` on the empty document -/

theorem startThematicBreak_fresh (x : PExt) (p : LP) (e : Nat)
    (hroot : p.root = docRoot []) (hd : p.depth = 0) (hi : p.i = 0) (hls : p.lineStart = 0)
    (hst : p.state = stateOpening) (hc : CurOK p) (hind : p.indent = 0)
    (hh : parseThematicBreak p.bytesAfterIndent = (e : Int)) (he : e ≤ p.line.length) :
    (startThematicBreak x p).root = docClosed1 (leafClosed BK.thematicBreak 0 (p.line.length : Nat) []) ∧
    (startThematicBreak x p).panic = p.panic ∧ (startThematicBreak x p).state = stateLineConsumed := by
  unfold startThematicBreak
  have hlt : ¬ (0 ≥ codeBlockIndentLimit) := by decide
  have he0 : ¬ ((e : Int) < 0) := by omega
  simp only [hind, hh, hlt, he0, if_false, consumeIndentN_zero, Int.toNat_natCast]
  rw [openBlock_doc0_id x p BK.thematicBreak hroot hd (by rw [hst]; decide) hls hi (by decide)]
  have a1 := advance_post { p with state := mm p.state, root := doc1 (leafOpen BK.thematicBreak 0 []), depth := 1 } e
    ⟨hc.hi, hc.htab⟩ (by show p.i + e ≤ p.line.length; omega)
  generalize LP.advance _ e = q1 at a1 ⊢
  have t1 := a1.tree; have l1 := a1.line; have p1 := a1.panic; have s1 := a1.state; have c1 := a1.cur
  simp only [tree, Prod.mk.injEq] at t1
  obtain ⟨ts, tr, td, tl⟩ := t1
  have l1' : q1.line = p.line := l1
  have s1' : q1.state = stateOpenMatched := by
    rw [s1]; show (if e = 0 then mm p.state else mm (mm p.state)) = _
    rw [hst]; split <;> rfl
  have cl := consumeLine_post q1 c1
  generalize LP.consumeLine q1 = q3 at cl ⊢
  have t3 := cl.tree; have i3 := cl.i; have p3 := cl.panic
  simp only [tree, Prod.mk.injEq] at t3
  obtain ⟨ts3, tr3, td3, tl3⟩ := t3
  have hs3 : q3.state = stateLineConsumed := by rw [cl.state, s1']; split <;> rfl
  have hroot3 : q3.root = doc1 (leafOpen BK.thematicBreak 0 []) := by rw [tr3, tr]
  have hd3 : q3.depth = 1 := by rw [td3, td]
  rw [endBlock_doc1 x q3 _ hroot3 hd3 (by rw [hs3]; decide)]
  refine ⟨?_, ?_, ?_⟩
  · show PB.mk _ (closeBlock x q3.source (q3.lineStart + q3.i) _) [] = _
    rw [closeBlock_leaf x _ _ _ _ _ (by decide) (by decide) (by decide) (by decide)]
    have : q3.lineStart = 0 := by rw [tl3, tl]; exact hls
    rw [this, i3, l1']
    simp [docClosed1]
  · show q3.panic = p.panic
    rw [p3, p1]
  · show mm q3.state = _
    rw [hs3]; rfl

/-- `processLine` on the empty document, for a line that starts with a marker and is a thematic break. -/
theorem processLine_hr (x : PExt) (p : LP) (c : UInt8) (rest : Bytes) (e : Nat)
    (hroot : p.root = docRoot []) (hd : p.depth = 0) (hi : p.i = 0) (hls : p.lineStart = 0)
    (hst : p.state = stateOpening) (hc : CurOK p) (hline : p.line = c :: rest) (hm : isMark c = true)
    (hh : parseThematicBreak p.line = (e : Int)) (he : e ≤ p.line.length) :
    (processLine x p).root = docClosed1 (leafClosed BK.thematicBreak 0 (p.line.length : Nat) []) ∧
    (processLine x p).panic = p.panic := by
  obtain ⟨m1, m2, m3, m4, m5, m6, m7, _⟩ := mark_classes c hm
  obtain ⟨hind, hbai⟩ := noIndent p c rest hc hi hline m1 m2
  have hs := startThematicBreak_fresh x p e hroot hd hi hls hst hc hind (by rw [hbai]; exact hh) he
  have hlt : p.indent < codeBlockIndentLimit := by rw [hind]; decide
  have hbq : hasBytePrefix p.bytesAfterIndent blockQuotePrefix = false := by
    rw [hbai, hline]; simp [hasBytePrefix, blockQuotePrefix, m3]
  have hatx : (parseATXHeading p.bytesAfterIndent).level = 0 := by
    rw [hbai, hline]; simp [parseATXHeading, countPrefix, m4]
  have hfen : (parseCodeFence p.bytesAfterIndent).n = 0 := by
    rw [hbai, hline]
    have : (c != 0x60 && c != 0x7E) = true := by simp [m5, m6]
    simp [parseCodeFence, this, noFence]
  have hhtml : p.bytesAfterIndent.head? ≠ some 0x3C := by
    rw [hbai, hline]; simp [m7]
  have hts : tryStarts (blockStartFns x) p = startThematicBreak x p := by
    unfold blockStartFns
    rw [tryStarts_skip _ _ p hst (startBlockQuote_none x p hlt hbq),
      tryStarts_skip _ _ p hst (startATX_none x p hlt hatx),
      tryStarts_skip _ _ p hst (startFenced_none x p hfen),
      tryStarts_skip _ _ p hst (startHTML_none_head x p hhtml),
      tryStarts_skip _ _ p hst (startSetext_doc x p (containerKind_doc0 p hroot hd)),
      tryStarts_hit _ _ p hst (Or.inr hs.2.2)]
  rw [processLine_doc0_consumed x p hroot hd hst (by rw [hline]; simp) (by rw [hts]; exact hs.2.2), hts]
  exact ⟨hs.1, hs.2.1⟩

/-! ### the run of the stream machine -/

/-- **Thematic break** (the run of the stream machine): a line that starts with `c ∈ {*, -, _}` and whose bytes other than
    spaces and tabs are `n ≥ 3` copies of `c` (`***`, `---`, `___`, `* * *`, `- - - -`, …), then LF: exactly one root, a
    ThematicBreak block spanning the document, without children; then the end of input. -/
theorem thematic_break_run (x : PExt) (c : UInt8) (n : Nat) (l : Bytes) (fuel : Nat) (h : hrOK c n l = true) (hfuel : 2 ≤ fuel) :
    drain (blocksLP x) fuel (memParser (l ++ [LF])) [] =
      ([{ source := l ++ [LF], startLine := 1, startOffset := 0, endOffset := (l ++ [LF]).length,
          block := leafClosed BK.thematicBreak 0 ((l ++ [LF]).length : Nat) [] }],
       .err .eof, doneBP (l ++ [LF]).length (1 + lineCount (l ++ [LF]))) := by
  obtain ⟨h1, h2, h3, h4, h5⟩ := hrOK_elim h
  obtain ⟨rest, rfl⟩ : ∃ rest, l = c :: rest := by
    cases l with
    | nil => simp at h4
    | cons b t => simp at h4; exact ⟨t, by rw [h4]⟩
  obtain ⟨_, _, _, _, _, _, _, m8⟩ := mark_classes c h1
  apply oneLine_run x _ fuel _ h3 (by simp [isBlankLine, m8]) hfuel
  · intro p hp
    obtain ⟨r1, r2, r3, r4, r5, r6, r7, r8, _, _, _⟩ := reset_first _ p hp
    obtain ⟨e, he1, he2⟩ := parseThematicBreak_hr c n (c :: rest) h
    have := processLine_hr x p c (rest ++ [LF]) e r1 r2 r3 r4 r5 r7 (by rw [r8]; rfl) h1 (by rw [r8]; exact he1)
      (by rw [r8]; exact he2)
    rw [r6, r8] at this
    exact this
  · rfl

end CM.Proofs.Leaf
