import CM.Proofs.RefDefSpansUpgrade
import CM.Proofs.RefDefSpansLine3
/-
C02, block half — the `RefDefSpansOK` check of the checked block parser never fails on an in-memory run:
the per-line loop `parseLines`.
-/
namespace CM.Proofs.RDS
open CM CM.Model CM.Gen CM.Proofs.BSp CM.Proofs.BT CM.Proofs.BG

/-! ### the first line of a buffer is a line -/

theorem LineOK_cons {c : UInt8} {l : Bytes} (h1 : c ≠ LF) (h2 : c ≠ CR) (h : LineOK l) : LineOK (c :: l) := by
  intro j _ hj
  cases j with
  | zero =>
    simp only [List.getD_eq_getElem?_getD, List.getElem?_cons_zero, Option.getD_some]
    exact ⟨fun e => absurd e h1, fun e => absurd e h2⟩
  | succ k =>
    have hk : (k : Int) < (l.length : Int) := by
      simp only [List.length_cons] at hj; omega
    obtain ⟨a, b⟩ := h k (by omega) hk
    simp only [List.getD_eq_getElem?_getD, List.getElem?_cons_succ, List.length_cons] at a b ⊢
    refine ⟨fun e => by have := a e; omega, fun e => ?_⟩
    rcases b e with b' | ⟨b', b''⟩
    · left; omega
    · right; exact ⟨by omega, b''⟩

theorem LineOK_nil : LineOK [] := by
  intro j _ hj
  simp at hj
  omega

theorem LineOK_one (c : UInt8) : LineOK [c] := by
  intro j _ hj
  have : j = 0 := by simp at hj; omega
  subst this
  exact ⟨fun _ => rfl, fun _ => Or.inl rfl⟩

theorem LineOK_CRLF : LineOK [CR, LF] := by
  intro j _ hj
  have : j = 0 ∨ j = 1 := by simp at hj; omega
  rcases this with rfl | rfl
  · refine ⟨fun e => ?_, fun _ => Or.inr ⟨rfl, rfl⟩⟩
    exact absurd e (by decide)
  · exact ⟨fun _ => rfl, fun _ => Or.inl rfl⟩

theorem lineOK_take (l : Bytes) : LineOK (l.take (lineLen l)) := by
  induction l using lineLen_cases with
  | hnil => exact LineOK_nil
  | hLF rest => rw [lineLen_LF]; exact LineOK_one LF
  | hCRLF r => rw [lineLen_CRLF]; exact LineOK_CRLF
  | hCR rest hne => rw [lineLen_CR hne]; exact LineOK_one CR
  | hother c rest h1 h2 ih =>
    rw [lineLen_other h1 h2, List.take_succ_cons]
    exact LineOK_cons h1 h2 ih

/-- The line handed to the line parser. -/
theorem lineOK_source (buf : Bytes) (ls : Nat) : LineOK ((buf.take (ls + lineLen (buf.drop ls))).drop ls) := by
  rw [List.drop_take, Nat.add_sub_cancel_left]
  exact lineOK_take _

theorem take_prefix_take (l : Bytes) {m n : Nat} (h : m ≤ n) : l.take m <+: l.take n := by
  have : l.take m = (l.take n).take m := by rw [List.take_take, Nat.min_eq_left h]
  rw [this]
  exact List.take_prefix _ _

/-! ### the invariants of the stream machine -/

/-- The stream state between `NextBlock` calls: the span invariant, the pending blocks are good, and no
    `RefDefSpansOK` failure has been recorded. -/
structure BPInv2 (p : BP) : Prop where
  base : BPInv p
  good : ∀ b ∈ p.blocks, GoodT (p.buf.take p.i) (p.i : Int) b
  np : p.panic ≠ some refDefFail

/-- A session before its next line (which starts at `ls`). -/
structure Sess2 (ls : Nat) (p : BP) (lp : LP) : Prop where
  inv : LPInv' lp
  spans : PBSpans QT 0 ls lp.root
  live : lp.root.label.stop < 0 ∨ (lp.root.blocks = [] ∧ ls = p.i ∧ p.buf.drop p.i = [])
  good : GoodT (p.buf.take ls) (ls : Int) lp.root

theorem refDefFail_ne_fuel : ("parseLines: fuel" == refDefFail) = false := by decide

/-- The pending blocks after `makeRoot`. -/
theorem makeRoot_good (p : BP) (kids : List PB) (po : Bool) (lo : Int) (hi : p.i ≤ p.buf.length)
    (hk : PBSpansL QT po lo p.i kids) (hg : ∀ b ∈ kids, GoodT (p.buf.take p.i) (p.i : Int) b)
    (hnp : p.panic ≠ some refDefFail) (r : Root) (p' : BP) (hm : makeRoot p kids = some (r, p')) :
    (∀ b ∈ p'.blocks, GoodT (p'.buf.take p'.i) (p'.i : Int) b) ∧ p'.panic ≠ some refDefFail := by
  cases kids with
  | nil => simp [makeRoot] at hm
  | cons k rest =>
    simp only [makeRoot] at hm
    split at hm
    · cases hm
    · rename_i hko
      have hkc : 0 ≤ k.label.stop := by rw [← isOpen_false_iff]; simpa using hko
      simp only [Option.some.injEq, Prod.mk.injEq] at hm
      obtain ⟨_, rfl⟩ := hm
      rw [PBSpansL_cons] at hk
      obtain ⟨hk1, _, hk3⟩ := hk
      have hb := PBSpans_closed_bounds hk1 hkc
      have hn : ((k.label.stop.toNat : Nat) : Int) = k.label.stop := Int.toNat_of_nonneg hkc
      have hnle : k.label.stop.toNat ≤ p.i := by omega
      refine ⟨?_, ?_⟩
      · show ∀ b ∈ offsetPBs (-(k.label.stop.toNat : Int)) rest,
          GoodT ((p.buf.drop k.label.stop.toNat).take (p.i - k.label.stop.toNat)) ((p.i - k.label.stop.toNat : Nat) : Int) b
        have e1 : (p.buf.drop k.label.stop.toNat).take (p.i - k.label.stop.toNat) = (p.buf.take p.i).drop k.label.stop.toNat := by
          rw [List.drop_take]
        have e2 : ((p.i - k.label.stop.toNat : Nat) : Int) = (p.i : Int) - (k.label.stop.toNat : Nat) := by omega
        rw [e1, e2]
        exact GoodL_offset k.label.stop.toNat (by omega) hk3 (fun b hb' => hg b (List.mem_cons_of_mem _ hb'))
      · dsimp only
        split
        · rename_i hc
          simp only [Bool.or_eq_true, decide_eq_true_eq] at hc
          omega
        · exact hnp

theorem parseLines_ok (x : PExt) : ∀ (fuel : Nat) (lp : LP) (ls : Nat) (p : BP), p.err.isSome = true →
    p.i ≤ p.buf.length → p.i = ls + lineLen (p.buf.drop ls) → p.panic ≠ some refDefFail → Sess2 ls p lp →
    isRefDefFail (parseLines (blocksLPc x) fuel (lp, true) ls p).1 = false ∧
    ∀ r p', parseLines (blocksLPc x) fuel (lp, true) ls p = (.block r, p') →
      (∀ b ∈ p'.blocks, GoodT (p'.buf.take p'.i) (p'.i : Int) b) ∧ p'.panic ≠ some refDefFail := by
  intro fuel
  induction fuel with
  | zero =>
    intro lp ls p _ _ _ _ _
    refine ⟨refDefFail_ne_fuel, fun r p' h => ?_⟩
    simp [parseLines] at h
  | succ fuel ih =>
    intro lp ls p herr hi hrel hnp hsess
    obtain ⟨hlp, hspans, hlive, hgood⟩ := hsess
    have hls : ls ≤ p.i := by omega
    have hsl : (p.buf.take p.i).length = p.i := by simp [hi]
    have hnpl := processLine_no_panic x _ (reset_LPInv lp hlp (p.buf.take p.i) ls)
    have hrl : readline (p.rd.data.length + p.rd.sched.length + 2) p =
        (decide (0 < lineLen (p.buf.drop p.i)), { p with i := p.i + lineLen (p.buf.drop p.i) }) :=
      CM.Model.readline_mem (p.rd.data.length + p.rd.sched.length + 1) p herr hi
    have hi2 : p.i + lineLen (p.buf.drop p.i) ≤ p.buf.length := by
      have := lineLen_le (p.buf.drop p.i)
      simp only [List.length_drop] at this
      omega
    -- the tree is good for the source of this line, so the check passes
    have hgsrc : GoodT (p.buf.take p.i) (ls : Int) lp.root :=
      GoodT_mono (take_prefix_take p.buf hls) (Int.le_refl _) _ hgood
    have hcheck : pbSpans (RefDefSpansOK x (p.buf.take p.i) ↑ls ↑(p.buf.take p.i).length) 0 ↑ls lp.root = true :=
      pbSpans_upgrade x (p.buf.take p.i) ls ls (by rw [hsl]; omega) lp.root 0 (Int.le_refl _) hspans hgsrc
    simp only [parseLines, blocksLPc]
    rw [hcheck]
    simp only [Bool.and_self, if_true, hnpl.1]
    -- the tree after the line
    have hLO : LineOK ((p.buf.take p.i).drop ls) := by rw [hrel]; exact lineOK_source p.buf ls
    obtain ⟨r1, r2, r3, r4⟩ := BSp.reset_fields lp (p.buf.take p.i) ls
    have hgi : GI (p.buf.take p.i) (ls : Int) ls (lp.reset (p.buf.take p.i) ls) :=
      ⟨r2, r3, r4, by rw [r1]; exact hgsrc⟩
    have hgood' : GoodT (p.buf.take p.i) (p.i : Int) (processLine x (lp.reset (p.buf.take p.i) ls)).root := by
      have := processLine_st x _ (reset_LPInv lp hlp (p.buf.take p.i) ls).toInv hLO (by rw [hsl]; exact hls) (Int.le_refl _) hgi
      rw [hsl] at this
      exact this
    have hspans' : PBSpans QT 0 p.i (processLine x (lp.reset (p.buf.take p.i) ls)).root ∧
        ((processLine x (lp.reset (p.buf.take p.i) ls)).root.label.stop < 0 ∨
          ((processLine x (lp.reset (p.buf.take p.i) ls)).root = lp.root ∧ lp.root.blocks = [] ∧ ls = p.i ∧ p.buf.drop p.i = []) ∨
          (0 ≤ (processLine x (lp.reset (p.buf.take p.i) ls)).root.label.stop ∧ ls = p.i)) := by
      by_cases hopen : lp.root.label.stop < 0
      · have key := processLine_spans x lp (p.buf.take p.i) ls hlp (by rw [hsl]; exact hls) hopen hcheck
        rw [hsl] at key
        refine ⟨key.1, ?_⟩
        by_cases hro : (processLine x (lp.reset (p.buf.take p.i) ls)).root.label.stop < 0
        · exact Or.inl hro
        · right; right
          refine ⟨by omega, ?_⟩
          have : ¬ ls < p.i := fun hlt => hro (key.2 hlt)
          omega
      · rcases hlive with hl | ⟨hb, hlsi, hdrop⟩
        · exact absurd hl hopen
        · have hdl : (p.buf.take p.i).drop ls = [] := by rw [hlsi]; simp
          have hroot := processLine_dead x lp (p.buf.take p.i) ls hdl (by omega) hb
          rw [hroot]
          refine ⟨?_, Or.inr (Or.inl ⟨rfl, hb, hlsi, hdrop⟩)⟩
          rw [← hlsi]; exact hspans
    generalize processLine x (lp.reset (p.buf.take p.i) ls) = lp' at hnpl hgood' hspans' ⊢
    obtain ⟨hsp', hcase⟩ := hspans'
    rcases hr : lp'.root with ⟨l, bs, is⟩
    have hkids : lp'.root.blocks = bs := by rw [hr]; rfl
    simp only [PB.blocks]
    have hsp'' := hsp'
    rw [hr, PBSpans_mk] at hsp''
    obtain ⟨a1, a2, a3, a4, a5, a6⟩ := hsp''
    have hgk : ∀ b ∈ bs, GoodT (p.buf.take p.i) (p.i : Int) b := by
      have := hgood'
      rw [hr, GoodT_mk] at this
      exact this.2
    cases hmk : makeRoot p bs with
    | some rp =>
      obtain ⟨r0, p0⟩ := rp
      refine ⟨rfl, fun r p' h => ?_⟩
      simp only [Prod.mk.injEq, NBOut.block.injEq] at h
      obtain ⟨rfl, rfl⟩ := h
      have a5' : PBSpansL QT (decide (l.stop < 0)) l.start p.i bs := PBSpansL_mono' (Int.le_refl _) a3 a5
      exact makeRoot_good p bs _ l.start hi a5' hgk hnp _ _ hmk
    | none =>
      simp only [hrl]
      have hrel' : (p.i + lineLen (p.buf.drop p.i)) = p.i + lineLen (p.buf.drop p.i) := rfl
      apply ih lp' p.i ({ p with i := p.i + lineLen (p.buf.drop p.i) } : BP) herr hi2 hrel' hnp
      refine ⟨hnpl.2, hsp', ?_, hgood'⟩
      rcases hcase with hro | ⟨hroot, hb, hlsi, hdrop⟩ | ⟨hrc, hlsi⟩
      · exact Or.inl hro
      · right
        have h0 : lineLen (p.buf.drop p.i) = 0 := by rw [hdrop]; rfl
        refine ⟨by rw [hroot]; exact hb, ?_, ?_⟩
        · show p.i = p.i + lineLen (p.buf.drop p.i); omega
        · show p.buf.drop (p.i + lineLen (p.buf.drop p.i)) = []
          rw [h0, Nat.add_zero]; exact hdrop
      · right
        have h0 : lineLen (p.buf.drop p.i) = 0 := by
          have : lineLen (p.buf.drop ls) = 0 := by omega
          rw [← hlsi]; exact this
        have hd := lineLen_eq_zero h0
        refine ⟨?_, ?_, ?_⟩
        · rw [hkids]
          cases bs with
          | nil => rfl
          | cons k rest =>
            exfalso
            have hrc' : 0 ≤ l.stop := by rw [hr] at hrc; exact hrc
            have hd1 : decide (l.stop < 0) = false := by simp; omega
            rw [hd1] at a5
            have hkc := allClosed_of_false a5 k (by simp)
            have : k.isOpen = false := (isOpen_false_iff k).mpr hkc
            simp [makeRoot, this] at hmk
        · show p.i = p.i + lineLen (p.buf.drop p.i); omega
        · show p.buf.drop (p.i + lineLen (p.buf.drop p.i)) = []
          rw [h0, Nat.add_zero]; exact hd

/-! ### `skipBlank`, `NextBlock`, `drain` -/

theorem orElse_ne {a : Option String} {s : String} (ha : a ≠ some refDefFail) (hs : s ≠ refDefFail) :
    (a <|> some s) ≠ some refDefFail := by
  cases a with
  | none => simpa using hs
  | some m => simpa using ha

theorem skipBlank_facts2 : ∀ (fuel : Nat) (p : BP) (o : Option BP) (q' : BP), p.err.isSome = true → p.i = 0 →
    p.panic ≠ some refDefFail → skipBlank fuel p = (o, q') →
    q'.panic ≠ some refDefFail ∧ ∀ q, o = some q → q.i = 0 + lineLen (q.buf.drop 0) ∧ q.panic ≠ some refDefFail := by
  intro fuel
  induction fuel with
  | zero =>
    intro p o q' _ _ hnp h
    simp only [skipBlank, Prod.mk.injEq] at h
    obtain ⟨rfl, rfl⟩ := h
    exact ⟨orElse_ne hnp (by decide), fun q hq => by cases hq⟩
  | succ fuel ih =>
    intro p o q' herr hi0 hnp h
    have hrl : readline (p.rd.data.length + p.rd.sched.length + 2) p =
        (decide (0 < lineLen (p.buf.drop p.i)), { p with i := p.i + lineLen (p.buf.drop p.i) }) :=
      CM.Model.readline_mem (p.rd.data.length + p.rd.sched.length + 1) p herr (by omega)
    simp only [skipBlank, hrl] at h
    split at h
    · simp only [Prod.mk.injEq] at h
      obtain ⟨rfl, rfl⟩ := h
      exact ⟨hnp, fun q hq => by cases hq⟩
    · split at h
      · simp only [Prod.mk.injEq] at h
        obtain ⟨rfl, rfl⟩ := h
        refine ⟨hnp, fun q hq => ?_⟩
        simp only [Option.some.injEq] at hq
        subst hq
        refine ⟨?_, hnp⟩
        show p.i + lineLen (p.buf.drop p.i) = 0 + lineLen (p.buf.drop 0)
        rw [hi0]
      · exact ih _ o q' (by exact herr) rfl (by exact hnp) h

theorem docRoot_good {src : Bytes} {bd : Int} (bs : List PB) (h : ∀ b ∈ bs, GoodT src bd b) : GoodT src bd (docRoot bs) := by
  unfold docRoot
  rw [GoodT_mk]
  exact ⟨BlockOK_of_kind (show BK.document ≠ BK.paragraph by decide) (show BK.document ≠ BK.setextHeading by decide), h⟩

theorem new_sess2 (x : PExt) (bs : List PB) (ls : Nat) (p : BP) (h : PBSpansL QT true 0 ls bs)
    (hg : ∀ b ∈ bs, GoodT (p.buf.take ls) (ls : Int) b) : Sess2 ls p ((blocksLP x).new bs) :=
  ⟨new_LPInv' x bs, docRoot_spans bs ls (Int.natCast_nonneg _) h, Or.inl (by show (-1 : Int) < 0; decide), docRoot_good bs hg⟩

theorem nextBlock_ok (x : PExt) (p : BP) (hp : BPInv2 p) :
    isRefDefFail (nextBlock (blocksLPc x) p).1 = false ∧
    ∀ r p', nextBlock (blocksLPc x) p = (.block r, p') → BPInv2 p' := by
  have hbase : ∀ r p', nextBlock (blocksLPc x) p = (.block r, p') → BPInv p' :=
    fun r p' h => (nextBlock_spans x p hp.base r p' h).2
  suffices hmain : isRefDefFail (nextBlock (blocksLPc x) p).1 = false ∧
      ∀ r p', nextBlock (blocksLPc x) p = (.block r, p') →
        (∀ b ∈ p'.blocks, GoodT (p'.buf.take p'.i) (p'.i : Int) b) ∧ p'.panic ≠ some refDefFail from
    ⟨hmain.1, fun r p' h => ⟨hbase r p' h, (hmain.2 r p' h).1, (hmain.2 r p' h).2⟩⟩
  unfold nextBlock
  cases hmk : makeRoot p p.blocks with
  | some rp =>
    obtain ⟨r0, p0⟩ := rp
    refine ⟨rfl, fun r p' h => ?_⟩
    simp only [Prod.mk.injEq, NBOut.block.injEq] at h
    obtain ⟨rfl, rfl⟩ := h
    exact makeRoot_good p p.blocks true 0 hp.base.ile hp.base.blocks hp.good hp.np _ _ hmk
  | none =>
    simp only []
    have hrl : readline (p.rd.data.length + p.rd.sched.length + 2) p =
        (decide (0 < lineLen (p.buf.drop p.i)), { p with i := p.i + lineLen (p.buf.drop p.i) }) :=
      CM.Model.readline_mem (p.rd.data.length + p.rd.sched.length + 1) p hp.base.err hp.base.ile
    have hi2 : p.i + lineLen (p.buf.drop p.i) ≤ p.buf.length := by
      have := lineLen_le (p.buf.drop p.i)
      simp only [List.length_drop] at this
      have := hp.base.ile
      omega
    split
    · -- left-over blocks: continue their session
      simp only [hrl]
      exact parseLines_ok x _ _ p.i ({ p with i := p.i + lineLen (p.buf.drop p.i) } : BP) hp.base.err hi2 rfl hp.np
        (new_sess2 x p.blocks p.i _ hp.base.blocks hp.good)
    · -- a fresh session
      rename_i hlen
      have hbl : p.blocks = [] := by
        cases hb : p.blocks with
        | nil => rfl
        | cons a t => rw [hb] at hlen; simp at hlen
      split
      · rename_i q' hsb
        obtain ⟨hq'np, _⟩ := skipBlank_facts2 _ _ _ _ (by exact hp.base.err) rfl (by exact hp.np) hsb
        refine ⟨?_, fun r p' h => ?_⟩
        · cases hpn : q'.panic with
          | none => rfl
          | some m =>
            simp only [isRefDefFail, beq_eq_false_iff_ne, ne_eq]
            intro e; apply hq'np; rw [hpn, e]
        · cases hpn : q'.panic with
          | none => rw [hpn] at h; simp at h
          | some m => rw [hpn] at h; simp at h
      · rename_i q q2 hsb
        obtain ⟨_, hq⟩ := skipBlank_facts2 _ _ _ _ (by exact hp.base.err) rfl (by exact hp.np) hsb
        obtain ⟨hqi, hqnp⟩ := hq q rfl
        have hf := skipBlank_facts _ _ q q2 (by exact hp.base.err) (by simp) hsb
        obtain ⟨q1, q2', q3, _⟩ := hf
        have hqb : q.blocks = [] := by rw [q3]; exact hbl
        rw [hqb]
        exact parseLines_ok x _ _ 0 q q1 q2' hqi hqnp
          (new_sess2 x [] 0 q (PBSpansL_nil _ _ _ _) (fun _ h => by cases h))

theorem drain_ok (x : PExt) : ∀ (fuel : Nat) (p : BP) (acc : List Root), BPInv2 p →
    isRefDefFail (drain (blocksLPc x) fuel p acc).2.1 = false := by
  intro fuel
  induction fuel with
  | zero => intro p acc _; simp only [drain]; decide
  | succ fuel ih =>
    intro p acc hp
    obtain ⟨h1, h2⟩ := nextBlock_ok x p hp
    unfold drain
    cases hnb : nextBlock (blocksLPc x) p with
    | mk o p' =>
      rw [hnb] at h1
      cases o with
      | block r => exact ih p' (r :: acc) (h2 r p' hnb)
      | err e => rfl
      | panic m => exact h1

theorem memParser_inv2 (inp : Bytes) : BPInv2 (memParser inp) :=
  ⟨memParser_inv inp, fun _ h => (by cases h), fun h => (by cases h)⟩

/-- **The `RefDefSpansOK` check never fails** on a run of the block parser on an in-memory input. -/
theorem refDefSpansOK : refDefSpansOK_target :=
  fun x inp fuel => drain_ok x fuel (memParser inp) [] (memParser_inv2 inp)

/-- **C02, block half, unconditionally**: every root delivered by the block parser on an in-memory input has valid,
    nested, ordered spans inside its own source, and its span ends at the end of its source. -/
theorem drain_spans_uncond (x : PExt) (inp : Bytes) (fuel : Nat) :
    ∀ r ∈ (drain (blocksLP x) fuel (memParser inp) []).1, RootSpansOK r :=
  drain_spans x inp fuel (refDefSpansOK x inp fuel)

end CM.Proofs.RDS
