import CM.Proofs.CoverageStarts
import CM.Proofs.BGRecog
/-
C03, part B — the remaining block starts: the setext heading (relabel the paragraph, consume the underline, close:
the contract `SetextClose` for `onCloseParagraph` on the heading) and the list item (the marker's bytes are covered by
the list-marker block), and the table `blockStartFns`.
-/
namespace CM.Proofs.Cov
open CM CM.Model CM.Gen CM.Spec CM.Spec.T CM.Proofs.BT
open CM.Proofs.BSp (ParaPred QT isContainerKind)

/-- The contract for turning an open paragraph into a setext heading (level 1 or 2) and closing it at `e`. -/
def SetextClose (Q Q' : ParaPred) (x : PExt) (src : Bytes) (e : Int) : Prop :=
  ∀ l is (n : Int), l.stop < 0 → l.kind = BK.paragraph → Q l is = true → (n = 1 ∨ n = 2) →
    (∀ c ∈ onCloseParagraph x src (.mk { l with kind := BK.setextHeading, n := n, stop := e } [] is), WF Q' c) ∧
    LeL (NP src) [.mk l [] is] (onCloseParagraph x src (.mk { l with kind := BK.setextHeading, n := n, stop := e } [] is))

/-- An edit of the block at depth `d + 1` followed by the replacement of the last child of the block at depth `d`. -/
theorem replaceLast_after_modify (f : PB → PB) (g : PB → List PB) : ∀ (d : Nat) (root : PB),
    spineModify (replaceLastFn g) (spineModify f root (d + 1)) d = spineModify (replaceLastFn (fun c => g (f c))) root d := by
  intro d
  induction d with
  | zero =>
    intro root
    obtain ⟨l, bs, is⟩ := root
    rw [spineModify_zero, spineModify_zero, spineModify_succ]
    cases hgl : bs.getLast? with
    | none => simp only [replaceLastFn, hgl]
    | some c =>
      simp only [replaceLastFn, hgl, spineModify_zero]
      simp
  | succ d ih =>
    intro root
    obtain ⟨l, bs, is⟩ := root
    rw [spineModify_succ f, spineModify_succ (replaceLastFn fun c => g (f c))]
    cases hgl : bs.getLast? with
    | none => simp only []; rw [spineModify_succ, hgl]
    | some c =>
      simp only []
      rw [spineModify_succ]
      simp only [List.getLast?_append, List.getLast?_singleton, Option.some_or, List.dropLast_concat]
      rw [ih c]

theorem mem_dropWhile_or (f : UInt8 → Bool) : ∀ (l : Bytes) (c : UInt8), c ∈ l → f c = true ∨ c ∈ l.dropWhile f := by
  intro l
  induction l with
  | nil => intro c h; cases h
  | cons a r ih =>
    intro c hc
    by_cases ha : f a = true
    · rw [List.dropWhile_cons_of_pos ha]
      rcases List.mem_cons.mp hc with rfl | hc
      · exact Or.inl ha
      · exact ih c hc
    · rw [List.dropWhile_cons_of_neg ha]
      exact Or.inr hc

/-- If the rest of the line after the indentation needs no cover, neither does the rest of the line. -/
theorem rest_of_bai (p : LP) (h : ∀ c ∈ p.bytesAfterIndent, need c = false) :
    ∀ m, p.i ≤ m → m < p.line.length → need (p.line.getD m 0) = false := by
  intro m h1 h2
  have hm : p.line.getD m 0 ∈ p.line.drop p.i := by
    have e : p.line.getD m 0 = (p.line.drop p.i).getD (m - p.i) 0 := by
      rw [getD_drop_add]; congr 1; omega
    rw [e]
    apply getD_mem
    simp only [List.length_drop]; omega
  rcases mem_dropWhile_or (fun c => c == SP || c == TAB) _ _ hm with h' | h'
  · exact sptab_not_need _ h'
  · exact h _ h'

/-! ### setext heading -/

theorem startSetext_C {Q Q' : ParaPred} (x : PExt) (p : LP) (h : CI Q S L Z p) (hq : ∀ l is, Q l is = true → Q' l is = true)
    (hS : SetextClose Q Q' x p.source ((p.lineStart : Int) + (p.line.length : Int))) (hs : p.state = 0) :
    CI Q' S L Z (startSetext x p) := by
  unfold startSetext
  simp only []
  split
  · exact h.mono hq
  rename_i hck
  split
  · exact h.mono hq
  split
  · exact h.mono hq
  rename_i _ hlev
  have hck' : p.containerKind = BK.paragraph := by simpa using hck
  have hlev' : parseSetextHeadingUnderline p.bytesAfterIndent ≠ 0 := by simpa using hlev
  have hle2 := BG.parseSetext_le p.bytesAfterIndent
  have hbytes := parseSetext_bytes p.bytesAfterIndent hlev'
  have hd : 0 < p.depth := by
    rcases Nat.eq_zero_or_pos p.depth with h0 | h0
    · rw [containerKind_zero p h0, h.inv.tree.root] at hck'; cases hck'
    · exact h0
  generalize hlv : parseSetextHeadingUnderline p.bytesAfterIndent = lev at hlev' hle2 ⊢
  generalize hf : (PB.setLabel fun l => { l with kind := BK.setextHeading, n := (lev : Int) }) = f
  have i1 : Inv (p.modifyContainer f) := h.inv.of_treeOp rfl rfl (modifyContainer_ok_pos p f h.inv.tree hd)
  have e1s : (p.modifyContainer f).state = p.state := rfl
  have e1c : BT.cur (p.modifyContainer f) = BT.cur p := rfl
  have e1r : (p.modifyContainer f).root = spineModify f p.root p.depth := rfl
  have e1d : (p.modifyContainer f).depth = p.depth := rfl
  have e1src : (p.modifyContainer f).source = p.source := rfl
  have e1ls : (p.modifyContainer f).lineStart = p.lineStart := rfl
  generalize p.modifyContainer f = p1 at i1 e1s e1c e1r e1d e1src e1ls
  have cl := consumeLine_post p1 i1.cur
  have clt := cl.tree
  simp only [BT.tree, Prod.mk.injEq] at clt
  obtain ⟨t1, t2, t3, t4⟩ := clt
  generalize p1.consumeLine = p5 at cl t1 t2 t3 t4
  have i5 := cl.inv i1
  have s5 := cl.st (by omega)
  have eb := endBlock_inv x p5 i5 (by omega)
  have ebs := BSp.endBlock_src x p5 (by omega)
  have hroot : (p5.endBlock x).root = spineReplaceLast (closeBlock x p5.source (BSp.curPos p5)) p5.root (p5.depth - 1) := by
    rw [BSp.endBlock_eq x p5 (by omega), BSp.closeContainer_eq x _ _ (by show p5.depth ≠ 0; rw [t3, e1d]; omega)]
  have hcp : BSp.curPos p5 = (p.lineStart : Int) + (p.line.length : Int) := by
    simp only [BSp.curPos, t4, e1ls, cl.i, cur_line e1c]
  rw [hcp, t1, e1src, t2, e1r, t3, e1d] at hroot
  obtain ⟨d, hdd⟩ : ∃ d, p.depth = d + 1 := ⟨p.depth - 1, by omega⟩
  have hroot' : (p5.endBlock x).root =
      spineReplaceLast (fun c => closeBlock x p.source ((p.lineStart : Int) + (p.line.length : Int)) (f c)) p.root d := by
    rw [hroot, hdd, Nat.add_sub_cancel, spineReplaceLast_eq, replaceLast_after_modify, ← spineReplaceLast_eq]
  generalize p5.endBlock x = p6 at eb ebs hroot'
  have i6 := eb.inv i5
  have hg := container_get p h.inv.tree
  rw [hdd] at hg
  have key := spineReplaceLast_ok (N := NP p.source) hq
    (fun c => closeBlock x p.source ((p.lineStart : Int) + (p.line.length : Int)) (f c)) d p.root h.wf (by
    intro c hc hcw
    rw [hg] at hc; cases hc
    have hkc : p.container.kind = BK.paragraph := hck'
    generalize p.container = c at hcw hkc
    obtain ⟨l, bs, is⟩ := c
    have hkl : l.kind = BK.paragraph := hkc
    have hw := WF_mk.mp hcw
    have hbs : bs = [] := by
      have := hw.1.1
      have hnc : isContainerKind l.kind = false := by rw [hkl]; rfl
      rw [hnc] at this
      simpa using this
    subst hbs
    have hfc : f (.mk l [] is) = .mk { l with kind := BK.setextHeading, n := (lev : Int) } [] is := by rw [← hf]; rfl
    rw [hfc]
    by_cases ho : l.stop < 0
    · rw [BSp.closeBlock_setext x p.source _ { l with kind := BK.setextHeading, n := (lev : Int) } [] is ho rfl]
      have r := hS l is lev ho hkl ((hw.2.2.1 ho).2 hkl) (by omega)
      refine ⟨r.1, r.2, fun hk => ?_⟩
      have : (PB.mk l [] is).kind = BK.paragraph := hkl
      rw [this] at hk; cases hk
    · rw [BSp.closeBlock_closed x p.source _ _ (by show 0 ≤ l.stop; omega)]
      refine ⟨?_, LeL.single ?_, fun hk => ?_⟩
      · intro c' hc'
        simp only [List.mem_singleton] at hc'
        subst hc'
        rw [WF_mk]
        refine ⟨⟨by rw [if_neg (show ¬ isContainerKind BK.setextHeading = true by decide)], fun hk => by cases hk⟩, ⟨hw.2.1.1, fun hk => by cases hk⟩, fun ho' => absurd ho' ho,
          fun _ hc => by cases hc⟩
      · apply Le.label
        intro j hc
        simp only [markerCov, hkl, Bool.and_eq_true, beq_iff_eq] at hc
        have := hc.1.1
        cases this
      · have : (PB.mk l [] is).kind = BK.paragraph := hkl
        rw [this] at hk; cases hk)
  apply h.step i6 (by rw [ebs.1, t1, e1src]) (by rw [ebs.2.1, t4, e1ls]) (by rw [ebs.2.2.1, cl.line, cur_line e1c])
    (by rw [hroot']; exact key.1) (by rw [hroot']; exact key.2)
  · intro m h1 h2 hn
    rw [ebs.2.2.2, cl.i, cur_line e1c] at h2
    rw [rest_of_bai p hbytes m h1 h2] at hn
    cases hn
  · intro _
    left
    rw [ebs.2.2.2, ebs.2.2.1, cl.i, cl.line]

/-! ### list items -/

/-- The list marker: `advance` over it and `endBlock`; its bytes are covered by the marker block. -/
theorem marker_C {Q : ParaPred} (x : PExt) (q2 : LP) (stop : Nat) (h : CI Q S L Z q2) (hst : q2.state ≤ 2)
    (hcont : q2.container = .mk (id { kind := BK.listMarker, start := (q2.lineStart : Int) + (q2.i : Int) }) [] [])
    (hd : q2.depth ≠ 0) (hb : q2.i + stop ≤ q2.line.length) : CI Q S L Z ((q2.advance stop).endBlock x) := by
  have ad := advance_post q2 stop h.inv.cur hb
  have adt := ad.tree
  simp only [BT.tree, Prod.mk.injEq] at adt
  obtain ⟨t1, t2, t3, t4⟩ := adt
  generalize q2.advance stop = q3 at ad t1 t2 t3 t4
  have i3 := ad.inv h.inv
  have s3 := ad.st hst
  have eb := endBlock_inv x q3 i3 s3.2
  have ebs := BSp.endBlock_src x q3 s3.2
  have hroot : (q3.endBlock x).root = spineReplaceLast (closeBlock x q2.source (BSp.curPos q3)) q2.root (q2.depth - 1) := by
    rw [BSp.endBlock_eq x q3 s3.2, BSp.closeContainer_eq x _ _ (by show q3.depth ≠ 0; rw [t3]; exact hd)]
    show spineReplaceLast (closeBlock x q3.source (BSp.curPos q3)) q3.root (q3.depth - 1) = _
    rw [t1, t2, t3]
  generalize q3.endBlock x = q4 at eb ebs hroot
  have i4 := eb.inv i3
  have hg := container_get q2 h.inv.tree
  obtain ⟨d, hdd⟩ : ∃ d, q2.depth = d + 1 := ⟨q2.depth - 1, by omega⟩
  rw [hdd] at hg
  rw [hdd, Nat.add_sub_cancel] at hroot
  have hcw := WF_spineGet _ _ _ h.wf hg
  have hlk : LeafKind q2.container.kind := by rw [hcont]; exact leafKind_marker
  have hcp : BSp.curPos q3 = (q2.lineStart : Int) + ((q2.i + stop : Nat) : Int) := by
    simp only [BSp.curPos, t4, ad.i]
  have cle := closeLeaf_ok x q2.source (BSp.curPos q3) (BSp.curPos_nonneg q3) q2.container hlk hcw
  have key := spineReplaceLast_ok (N := NP q2.source) (Q' := Q) (fun _ _ h => h)
    (closeBlock x q2.source (BSp.curPos q3)) d q2.root h.wf (by
    intro c hc _
    rw [hg] at hc; cases hc
    exact ⟨cle.1, cle.2.1, cle.2.2.1⟩)
  apply h.step i4 (by rw [ebs.1, t1]) (by rw [ebs.2.1, t4]) (by rw [ebs.2.2.1, ad.line])
    (by rw [hroot]; exact key.1) (by rw [hroot]; exact key.2)
  rotate_left
  · intro h2
    have hq3 : q3.state = 2 := mm_eq_two (by rw [← eb.state]; exact h2)
    have hq2 : q2.state = 2 := by
      rw [ad.state] at hq3
      split at hq3
      · exact hq3
      · exact mm_eq_two hq3
    rcases h.cons hq2 with h3 | h3
    · left
      have h4 := ad.cur.hi
      rw [ebs.2.2.2, ebs.2.2.1]
      rw [ad.i, ad.line] at h4 ⊢
      omega
    · exact Or.inr h3
  intro m h1 h2 _
  rw [ebs.2.2.2, ad.i] at h2
  rw [hroot]
  apply spineReplaceLast_cov _ _ d q2.root _ hg
  have hopen : q2.container.label.stop < 0 := by rw [hcont]; show (-1 : Int) < 0; decide
  rw [cle.2.2.2 hopen, hcont]
  rw [covPBs_cons, covPB_mk_nil, covPBs_nil]
  simp only [PB.label, PB.inlines, id, covTs_nil, Bool.or_false, markerCov, Bool.and_eq_true, beq_iff_eq, decide_eq_true_eq]
  have h5 : BSp.curPos q3 = (q3.lineStart : Int) + (q3.i : Int) := rfl
  have h6 := ebs.2.1
  have h7 := t4
  have h8 := ad.i
  refine ⟨⟨trivial, decide_eq_true ?_⟩, ?_⟩ <;> omega

theorem listItemTail_C {Q : ParaPred} (x : PExt) (p : LP) (delim : UInt8) (stop ind : Nat) (h : CI Q S L Z p)
    (hP : ParaClose Q Q x p.source p.lineStart) (hk : p.containerKind = BK.list) (hs : p.state ≤ 2)
    (hb : p.i + stop ≤ p.line.length) : CI Q S L Z (listItemTail x delim stop ind p) := by
  unfold listItemTail
  simp only []
  have cc1 : canContain p.containerKind BK.listItem = true := by rw [hk]; decide
  have ob1 := openBlock_inv x p BK.listItem (fun l => { l with char := delim }) (fun _ => rfl) h.inv hs (Or.inr cc1)
  obtain ⟨c1, _, _, s1s, s1l⟩ := openBlock_C (Q' := Q) x p BK.listItem (fun l => { l with char := delim }) h hP hs (Or.inr cc1)
    (fun _ => rfl) (fun _ _ h => h) (Or.inl (by decide)) (by decide)
  generalize p.openBlock x BK.listItem (fun l => { l with char := delim }) = q1 at ob1 c1 s1s s1l
  have i1 := ob1.inv h.inv
  have s1 := ob1.st hs
  have k1 := ob1.ckind
  have cc2 : canContain q1.containerKind BK.listMarker = true := by rw [k1]; decide
  have ob2 := openBlock_inv x q1 BK.listMarker id id_kind i1 s1.2.1 (Or.inl (by decide))
  obtain ⟨c2, hcont2, hd2, _, s2l⟩ := openBlock_C (Q' := Q) x q1 BK.listMarker id c1 (hP.of_eq s1s s1l) s1.2.1 (Or.inl (by decide))
    id_kind (fun _ _ h => h) (Or.inl (by decide)) (by decide)
  generalize q1.openBlock x BK.listMarker = q2 at ob2 c2 hcont2 hd2 s2l
  have i2 := ob2.inv i1
  have s2 := ob2.st s1.2.1
  have d2 := ob2.depth cc2
  have lab2 := ob2.label cc2
  have e2i : q2.i = p.i := by rw [cur_i ob2.cur, cur_i ob1.cur]
  have e2l : q2.line = p.line := by rw [cur_line ob2.cur, cur_line ob1.cur]
  have hcont2' : q2.container = .mk (id { kind := BK.listMarker, start := (q2.lineStart : Int) + (q2.i : Int) }) [] [] := by
    rw [hcont2, s2l, cur_i ob2.cur]
  have c4 := marker_C x q2 stop c2 s2.2.1 hcont2' hd2 (by rw [e2i, e2l]; exact hb)
  have ad := advance_post q2 stop i2.cur (by rw [e2i, e2l]; exact hb)
  generalize q2.advance stop = q3 at ad c4
  have i3 := ad.inv i2
  have s3 := ad.st s2.2.1
  have eb := endBlock_inv x q3 i3 s3.2
  generalize q3.endBlock x = q4 at eb c4
  have i4 := c4.inv
  have s4 := eb.st s3.2
  have d3 : q3.depth = q1.depth + 1 := by rw [tree_depth ad.tree, d2]
  have k4 : q4.containerKind = BK.listItem := by
    have l4 := eb.label (by omega)
    rw [d3, tree_root ad.tree, Nat.add_sub_cancel, lab2, labelAt_container q1 i1.tree.valid] at l4
    rw [containerKind_of_labelAt q4 _ l4]
    exact k1
  split
  · rename_i hblank
    have sc := setContainerIndent_post q4 (↑ind + ↑stop + 1) i4.tree s4.2.2 s4.2.1 (Or.inl k4)
    have c5 := setContainerIndent_C q4 (↑ind + ↑stop + 1) c4 s4.2.2 s4.2.1 (Or.inl k4)
    generalize q4.setContainerIndent (↑ind + ↑stop + 1) = q5 at sc c5
    have cl := consumeLine_post q5 c5.inv.cur
    have hbl : isBlankLine (q4.line.drop q4.i) = true := hblank
    exact c5.ofCL cl (by
      intro m h1 h2
      rw [cur_line sc.cur]
      rw [cur_line sc.cur] at h2
      rw [cur_i sc.cur] at h1
      have := skip_of_drop (p := q4) rfl 0 (q4.line.drop q4.i).length
        (fun k _ hk => bytes_of_mem (isBlankLine_bytes _ hbl) k hk) m (by omega) (by
          simp only [List.length_drop]; omega)
      exact this)
  · split
    · exact setContainerIndent_C q4 _ c4 s4.2.2 s4.2.1 (Or.inl k4)
    · split
      · have c5 := consumeIndentN_post q4 1 i4.cur (by omega)
        have s5 := c5.st s4.2.1
        exact setContainerIndent_C _ _ (c4.ofCI c5) (by omega) s5.2 (Or.inl (by rw [c5.ckind, k4]))
      · have c5 := consumeIndentN_post q4 q4.indent i4.cur (Nat.le_refl _)
        have s5 := c5.st s4.2.1
        exact setContainerIndent_C _ _ (c4.ofCI c5) (by omega) s5.2 (Or.inl (by rw [c5.ckind, k4]))

theorem startListItem_C {Q : ParaPred} (x : PExt) (p : LP) (h : CI Q S L Z p) (hP : ParaClose Q Q x p.source p.lineStart)
    (hs : p.state = 0) : CI Q S L Z (startListItem x p) := by
  unfold startListItem
  simp only []
  split
  · exact h
  split
  · exact h
  rename_i _ hc1
  split
  · exact h
  have hb := parseListMarker_toNat_le p.bytesAfterIndent
  have hpos := parseListMarker_pos p.bytesAfterIndent
  generalize parseListMarker p.bytesAfterIndent = m at hb hpos hc1 ⊢
  have hm : 1 ≤ m.stop := by
    rcases hpos with h' | h'
    · rw [h'] at hc1; simp at hc1
    · exact h'
  obtain ⟨ci, hdrop, hil⟩ := consumeAll p h.inv
  generalize p.consumeIndentN p.indent = p1 at ci hdrop hil ⊢
  have c1 := h.ofCI ci
  have s1 := ci.st (by omega)
  have sl1 := tree_sl ci.tree
  have hP1 := hP.of_eq sl1.1 sl1.2
  have hbound : p1.i + m.stop.toNat ≤ p1.line.length := by rw [ci.line]; omega
  generalize hcond : (p1.containerKind != BK.list || (if (p1.containerKind != BK.list && p1.containerKind != BK.listItem) = true
      then (0 : UInt8) else p1.container.label.char) != m.delim) = c
  cases c with
  | true =>
    show CI Q S L Z (listItemTail x m.delim m.stop.toNat p.indent (p1.openBlock x BK.list (fun l => { l with char := m.delim })))
    have ob := openBlock_inv x p1 BK.list (fun l => { l with char := m.delim }) (fun _ => rfl) c1.inv s1.2 (Or.inl (by decide))
    obtain ⟨c2, _, _, s2s, s2l⟩ := openBlock_C (Q' := Q) x p1 BK.list (fun l => { l with char := m.delim }) c1 hP1 s1.2
      (Or.inl (by decide)) (fun _ => rfl) (fun _ _ h => h) (Or.inl (by decide)) (by decide)
    exact listItemTail_C x _ _ _ _ c2 (hP1.of_eq s2s s2l) ob.ckind (ob.st s1.2).2.1
      (by rw [cur_i ob.cur, cur_line ob.cur]; exact hbound)
  | false =>
    show CI Q S L Z (listItemTail x m.delim m.stop.toNat p.indent p1)
    simp only [Bool.or_eq_false_iff] at hcond
    have hk : p1.containerKind = BK.list := by simpa using hcond.1
    exact listItemTail_C x p1 _ _ _ c1 hP1 hk s1.2 hbound

end CM.Proofs.Cov
