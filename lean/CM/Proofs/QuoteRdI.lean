import CM.Proofs.QuoteRdH
/-
C09, `onCloseParagraph` with `[` (9): `collectTextNodes` on both sides — the step function with escapes and the main
induction (`cTN_sim`): the children collected on the two sides have the same concatenated text.
-/
namespace CM.Proofs.Quote
open CM CM.Model CM.Gen

variable {E : Env} {is is' : List Tree}

/-- **`collectStep`** on both sides (live readers before `stop`). -/
theorem collectStep_sim (hc : PC E is is') (ext : Ext) (kind : Nat) (esc : Bool) {stop stop' : Nat}
    (hst : PosP is is' (stop : Int) (stop' : Int)) {f f' : Nat} (IH : CIH E is is' ext kind esc stop stop' f f')
    {r r' : Rd} {ps ps' : Nat} {acc acc' : List Tree} (h : CInv E is is' stop stop' r r' ps ps' acc acc')
    {k o : Nat} {t t' : Tree} (hl : LiveAt E is is' r r' k o t t') (hlt : r.pos < stop)
    (hm : RDS.mu E.src r ≤ f) (hm' : RDS.mu E.src' r' ≤ f') :
    flat E.src (collectTextNodes.collectStep ext E.src stop kind esc t r ps acc f) =
      flat E.src' (collectTextNodes.collectStep ext E.src' stop' kind esc t' r' ps' acc' f') := by
  rw [collectStep_eq, collectStep_eq, hl.nr.unp, hl.nr.unp']
  cases esc with
  | false =>
    simp only [Bool.false_and, Bool.false_eq_true, if_false]
    exact goF_sim hc ext kind false hst IH h hm hm'
  | true =>
    simp only [Bool.and_self, if_true]
    obtain ⟨a1, a2, a3⟩ := hl.current hc h.rr
    obtain ⟨f1, f2, f3⟩ := hl.facts hc
    have hlt' : r'.pos < stop' := (lt_stop_sides hc h.rr hst).mp hlt
    rw [a1, a2]
    simp only []
    by_cases hbs : (E.src.getD r.pos 0 == 0x5C) = true
    · simp only [hbs, if_true]
      have hnlf : E.src.getD r.pos 0 ≠ LF := by
        intro e; rw [e] at hbs; revert hbs; decide
      obtain ⟨b, r2, r2', n1, n2, hr2, p1, p2, q1, q2, hlive2, hdead2⟩ := next_in_node hc h.rr hl hnlf
      simp only [n1, n2]
      -- the invariant after the backslash has been read as pending text
      have hI2 : CInv E is is' stop stop' r2 r2' ps ps' acc acc' := by
        refine ⟨hr2, ⟨by have := h.u.1; omega, Or.inl (by omega)⟩, ⟨by have := h.u'.1; omega, Or.inl (by omega)⟩, ?_⟩
        rw [q1, q2, seg_snoc E.src h.u.1 f1, seg_snoc E.src' h.u'.1 f2, ← List.append_assoc, ← List.append_assoc, h.z, f3]
      cases b with
      | false =>
        simp only [Bool.false_eq_true, if_false, Bool.false_and]
        have d1 := hdead2 rfl
        have d2 := hr2.dead' hc d1
        apply goF_sim hc ext kind true hst IH hI2
        · rw [mu_dead _ d1]; omega
        · rw [mu_dead _ d2]; omega
      | true =>
        have l2 := hlive2 rfl
        obtain ⟨c1, c2, c3⟩ := l2.current hc hr2
        have m1 := RDS.next_mu hc.c h.rr.ri n1
        have m2 := RDS.next_mu hc.c' h.rr.ri' n2
        have hlt2 := lt_stop_sides hc hr2 hst
        simp only [if_true, c1, c2, Bool.true_and]
        by_cases hp : (decide (r2.pos < stop) && isASCIIPunctuation (E.src.getD r2.pos 0)) = true
        · have hp' : (decide (r2'.pos < stop') && isASCIIPunctuation (E.src.getD r2.pos 0)) = true := by
            simp only [Bool.and_eq_true, decide_eq_true_eq] at hp ⊢
            exact ⟨hlt2.mp hp.1, hp.2⟩
          simp only [hp, hp', if_true]
          apply goF_sim hc ext kind true hst IH _ (by omega) (by omega)
          refine ⟨hr2, ⟨Nat.le_refl _, Or.inr rfl⟩, ⟨Nat.le_refl _, Or.inr rfl⟩, ?_⟩
          rw [seg_self, seg_self, List.append_nil, List.append_nil, p1, p2,
            side_bs E.src kind acc h.u.1, side_bs E.src' kind acc' h.u'.1]
          exact h.z
        · have hp' : ¬ (decide (r2'.pos < stop') && isASCIIPunctuation (E.src.getD r2.pos 0)) = true := by
            simp only [Bool.and_eq_true, decide_eq_true_eq] at hp ⊢
            intro hh; exact hp ⟨hlt2.mpr hh.1, hh.2⟩
          simp only [hp, hp', Bool.false_eq_true, if_false]
          exact goF_sim hc ext kind true hst IH hI2 (by omega) (by omega)
    · simp only [hbs, Bool.false_eq_true, if_false]
      by_cases ham : (E.src.getD r.pos 0 == 0x26) = true
      · simp only [ham, if_true]
        rw [remaining_live hc.c h.rr.ri hl.sp, remaining_live hc.c' h.rr.ri' hl.sp']
        simp only []
        have n1 := (hc.c.ok t (List.mem_of_getElem? hl.g)).2.1
        have n2 := (hc.c'.ok t' (List.mem_of_getElem? hl.g')).2.1
        have hpos := hl.pos
        have hpos' := hl.pos'
        have hnn := hl.nn
        have hnn' := hl.nn'
        have hlen := hl.nr.len
        have hlto := hl.lt
        -- the rest of the node is the same on both sides
        have hrest : seg E.src' r'.pos t'.label.stop.toNat = seg E.src r.pos t.label.stop.toNat := by
          have e1 : t.label.stop.toNat = r.pos + (t.label.stop.toNat - r.pos) := by omega
          have e2 : t'.label.stop.toNat = r'.pos + (t.label.stop.toNat - r.pos) := by omega
          rw [e1, e2]
          apply seg_eq_of_getD (by omega) (by omega)
          intro j hj
          have := hl.nr.bytes (o + j) (by omega)
          rw [hpos, hpos', Nat.add_assoc, Nat.add_assoc]
          exact this
        rw [hrest]
        cases he : parseCharacterEscape ext (seg E.src r.pos t.label.stop.toNat) with
        | negSucc _ =>
          simp only []
          exact goF_sim hc ext kind true hst IH h hm hm'
        | ofNat e =>
          simp only []
          obtain ⟨e1, esemi⟩ := parseCharacterEscape_semi ext _ e he
          have ele := parseCharacterEscape_le ext _ e he
          rw [seg_length E.src (by omega)] at ele
          rw [seg_getD E.src (by omega)] at esemi
          obtain ⟨b1, b2, b3, b4⟩ := nextN_sim hc (e - 1) r r' o h.rr hl (by omega)
          generalize hrN : List.foldl (fun r _ => (r.next E.src).2) r (List.range (e - 1)) = rN at b1 b2 b3 b4 ⊢
          generalize hrN' : List.foldl (fun r _ => (r.next E.src').2) r' (List.range (e - 1)) = rN' at b1 b2 b3 b4 ⊢
          obtain ⟨b, r2, r2', k1, k2, hr2, _, _, hcase⟩ := next_live_sim hc b1 b2
          simp only [k1, k2]
          -- the text emitted so far
          have hz : flat E.src ((if r.pos > ps then acc ++ [mkInline kind ps r.pos] else acc) ++
                [mkInline IK.charRef r.pos ((r.pos : Int) + e)]) =
              flat E.src' ((if r'.pos > ps' then acc' ++ [mkInline kind ps' r'.pos] else acc') ++
                [mkInline IK.charRef r'.pos ((r'.pos : Int) + e)]) := by
            rw [side_ref E.src kind acc e h.u.1, side_ref E.src' kind acc' e h.u'.1, h.z]
            congr 1
            apply (seg_eq_of_getD (by omega) (by omega) _).symm
            intro j hj
            have := hl.nr.bytes (o + j) (by omega)
            rw [hpos, hpos', Nat.add_assoc, Nat.add_assoc]
            exact this
          have pN := b2.pos
          have pN' := b2.pos'
          rcases hcase with ⟨hb, hin, l2⟩ | ⟨hb, hend, u, u', l2⟩ | ⟨hb, hend, hnone, _, _, q1, q2⟩
          · subst hb
            simp only [Bool.not_true, Bool.false_eq_true, if_false]
            have m1 := RDS.next_mu hc.c b1.ri k1
            have m2 := RDS.next_mu hc.c' b1.ri' k2
            have p2 := l2.pos
            have p2' := l2.pos'
            apply IH r2 r2' _ _ _ _ ⟨hr2, ⟨by omega, Or.inr (by omega)⟩, ⟨by omega, Or.inr (by omega)⟩, ?_⟩ (by omega) (by omega)
            rw [seg_of_le E.src (by omega), seg_of_le E.src' (by omega), List.append_nil, List.append_nil]
            exact hz
          · exfalso
            have hlf := hc.lastLF hl.g l2.g
            have e3 : t.label.stop.toNat - 1 = r.pos + (e - 1) := by omega
            rw [e3, esemi] at hlf
            revert hlf; decide
          · subst hb
            simp only [Bool.not_false, if_true]
            have g1 := getLast?_of_get hl.g hnone
            have g2 := getLast?_of_get hl.g' (hc.rel.getElem?_none hnone)
            obtain ⟨l1, l2⟩ := hst.le_last hc g1 g2
            have hA : ¬ (r.pos + e < stop) := by omega
            have hA' : ¬ (r'.pos + e < stop') := by omega
            unfold collectTextNodes.finish
            rw [if_neg hA, if_neg hA']
            exact hz
      · simp only [ham, Bool.false_eq_true, if_false]
        exact goF_sim hc ext kind true hst IH h hm hm'

/-- **`collectTextNodes`** on both sides: the same concatenated text. -/
theorem cTN_sim (hc : PC E is is') (ext : Ext) (kind : Nat) (esc : Bool) {stop stop' : Nat}
    (hst : PosP is is' (stop : Int) (stop' : Int)) : ∀ (f f' : Nat), CIH E is is' ext kind esc stop stop' f f' := by
  intro f
  induction f with
  | zero => intro f' r r' ps ps' acc acc' _ h; omega
  | succ f ih =>
    intro f' r r' ps ps' acc acc' h hm hm'
    obtain ⟨f', rfl⟩ : ∃ g, f' = g + 1 := ⟨f' - 1, by omega⟩
    have hlt := lt_stop_sides hc h.rr hst
    rw [collectTextNodes, collectTextNodes]
    by_cases hge : r.pos < stop
    · have hge' := hlt.mp hge
      simp only [hge, hge', decide_true, Bool.not_true, Bool.false_eq_true, if_false]
      rcases h.rr.cases hc with ⟨d1, _⟩ | ⟨k, o, t, t', hl⟩
      · exfalso
        obtain ⟨t, t', g1, g2, p1, p2⟩ := h.rr.dead d1
        obtain ⟨l1, l2⟩ := hst.le_last hc g1 g2
        omega
      · rw [RDS.currentNode_eq hc.c h.rr.ri, RDS.currentNode_eq hc.c' h.rr.ri', hl.sp, hl.sp']
        simp only [List.head?_cons, unp_not_indent hl.nr.unp, unp_not_indent hl.nr.unp', Bool.false_eq_true, if_false]
        exact collectStep_sim hc ext kind esc hst (ih f') h hl hge (by omega) (by omega)
    · have hge' : ¬ r'.pos < stop' := fun hh => hge (hlt.mpr hh)
      simp only [hge, hge', decide_false, Bool.not_false, if_true]
      have e1 := finish_flat E.src stop kind acc h.u (by omega)
      have e2 := finish_flat E.src' stop' kind acc' h.u' (by omega)
      unfold collectTextNodes.finish at e1 e2
      rw [e1, e2]
      exact h.z

end CM.Proofs.Quote
