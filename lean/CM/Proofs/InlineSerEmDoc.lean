import CM.Proofs.InlineSerEmRender
import CM.Proofs.InlineSerDoc
/-
Inline serialisation — emphasis, part 6: the whole parser on the one-line paragraph `P1 d P2 d P3` + LF
(`emline_doc`), a kernel-evaluated instance (`a *b c* d`, `**b**`), axioms.
-/
namespace CM.Proofs.InlSer
open CM CM.Gen CM.Model CM.Model.Inl CM.Proofs.EscText CM.Proofs.Leaf

/-- The line without its final LF. -/
def EmLine.text (l : EmLine) : Bytes := pbytes l.P1 ++ (l.d ++ (pbytes l.P2 ++ (l.d ++ pbytes l.P3)))

theorem EmLine.bytes_text (l : EmLine) (h : l.ending = .lastLF) : l.bytes = l.text ++ [LF] := by
  simp [EmLine.bytes, EmLine.t2, EmLine.t3, EmLine.text, h, Ending.bytes]

/-- **`Parse` + `AppendBlock` on a one-line paragraph with one emphasis.** -/
theorem emline_doc (x : PExt) (ix : IExt) (l : EmLine) (hok : EmLineOK ix l) (hlf : l.ending = .lastLF)
    (h0 : paraFirstOK l.text = true) (hb : l.text.head? ≠ some 0x5B) :
    ∃ (r : Root) (kids : List Tree),
      (parseDoc x ix l.bytes).roots = [{ root := r, tree := .ok (leafTree BK.paragraph 0 (l.bytes.length : Nat) kids) }] ∧
      (parseDoc x ix l.bytes).ending = .err .eof ∧ r.source = l.bytes ∧
      kids = (l.A l.bytes).map nodeTree ++ l.tree l.bytes :: (l.C l.bytes).map nodeTree ∧
      ∀ (cx : RCtx) (dst : Bytes), cx.src = r.source →
        appendBlock cx dst (leafTree BK.paragraph 0 (l.bytes.length : Nat) kids) =
          dst ++ openTag cx (str "p") ++ l.P1.flatMap (htmlP cx) ++ openTag cx (emTag l.n) ++ l.P2.flatMap (htmlP cx) ++
            closeTag cx (emTag l.n) ++ l.P3.flatMap (htmlP cx) ++ closeTag cx (str "p") := by
  have hbt := l.bytes_text hlf
  have hdoc : leafDoc l.text [] [] = l.bytes := by rw [hbt]; simp [leafDoc, body]
  obtain ⟨blk, p', hdrain, _, htree, _, _⟩ := CM.Props.C06.paragraph_leaf x l.text [] (l.bytes.length + 8) h0 hb (by simp) (by omega)
  rw [hdoc] at hdrain htree
  have hrun : runNodes IK.unparsed 0 [l.text] = [mkInline IK.unparsed 0 (l.bytes.length : Int)] := by
    rw [hbt]; simp [runNodes]
  rw [hrun] at htree
  have hk := parseInlines_emline ix (fun k => ((extractAll x.ext [(l.bytes, pbToTree blk)] []).lookup k).isSome) 0
    ((l.bytes.length : Nat) : Int) l hok
  refine ⟨{ source := l.bytes, startLine := 1, startOffset := 0, endOffset := l.bytes.length, block := blk }, _, ?_, ?_, rfl, rfl, ?_⟩
  · unfold parseDoc
    rw [hdrain]
    simp only [List.map_cons, List.map_nil, htree]
    rw [leafTree, rewriteE]
    simp only [Bool.not_true, Bool.false_eq_true, if_false]
    rw [if_pos (show hasUnparsed [mkInline IK.unparsed 0 (l.bytes.length : Int)] = true from rfl)]
    simp only [htree, leafTree] at hk
    rw [hk]
    rfl
  · unfold parseDoc
    rw [hdrain]
  · intro cx dst hcx
    rw [leafTree, render_emline cx dst _ l hcx (PShape_of_POK ix.ext _ _ hok.p1) (PShape_of_POK ix.ext _ _ hok.p2)
      (PShape_of_POK ix.ext _ _ hok.p3), hlf]
    simp [htmlE]

/-! ### non-vacuity -/

namespace EmExamples

def ix0 : IExt :=
  { ext := { unescape := fun _ => [] }, fold := fun b => b, u := { isZs := fun _ => false, isP := fun _ => false } }

/-- `a *b c* d` + LF -/
def l1 : EmLine := ⟨[.byte 0x61, .sp], [.byte 0x62, .sp, .byte 0x63], [.sp, .byte 0x64], 0x2A, 1, .lastLF⟩
/-- `__b__` + LF -/
def l2 : EmLine := ⟨[], [.byte 0x62], [], 0x5F, 2, .lastLF⟩

example : String.fromUTF8! l1.bytes.toByteArray = "a *b c* d\n" := by decide +kernel

theorem l1_ok : EmLineOK ix0 l1 := by
  refine ⟨Or.inl rfl, Or.inl rfl, Or.inl rfl, ?_, ?_, ?_, ⟨0x61, by decide +kernel, by decide, by decide⟩,
    ⟨0x62, by decide +kernel, by decide⟩, Or.inr ⟨SP, by decide +kernel, by decide⟩, by decide +kernel, by decide +kernel⟩
  · exact ⟨by unfold inert; decide, ⟨⟨0x2A, by decide +kernel, by decide⟩, trivial⟩⟩
  · exact ⟨by unfold inert; decide, ⟨⟨0x63, by decide +kernel, by decide⟩, ⟨by unfold inert; decide, trivial⟩⟩⟩
  · exact ⟨⟨0x64, by decide +kernel, by decide⟩, ⟨by unfold inert; decide, trivial⟩⟩

theorem l2_ok : EmLineOK ix0 l2 := by
  refine ⟨Or.inr rfl, Or.inr rfl, Or.inl rfl, trivial, ?_, trivial, ⟨0x5F, by decide +kernel, by decide, by decide⟩,
    ⟨0x62, by decide +kernel, by decide⟩, Or.inr ⟨LF, by decide +kernel, by decide⟩, by decide +kernel, by decide +kernel⟩
  exact ⟨by unfold inert; decide, trivial⟩

example : paraFirstOK l1.text = true ∧ l1.text.head? ≠ some 0x5B := ⟨by decide +kernel, by decide +kernel⟩
example : paraFirstOK l2.text = true ∧ l2.text.head? ≠ some 0x5B := ⟨by decide +kernel, by decide +kernel⟩

end EmExamples

end CM.Proofs.InlSer

section
open CM.Proofs.InlSer
#print axioms wrap_run
#print axioms procEm_pair
#print axioms em_flat
#print axioms parseInlines_emline
#print axioms render_emline
#print axioms emline_doc
end
