import CM.Proofs.BlocksWellRd
import CM.Proofs.BGCollect
import CM.Model.HTMLTag
/-
C13, inline half — the language of `parseHTMLTag` as far as the shape clause needs it: a valid result starts where the
reader stood, at a `<`, and ends right after a `>` (`parseHTMLTag_shape`).  The two branches that look ahead in the
bytes of the current NODE (`-->`, `]]>`) need to know that Indent nodes cover white space only (`IndentWS`).
-/
namespace CM.Proofs.InlH
open CM CM.Model CM.Gen CM.Proofs CM.Proofs.BG

/-- The byte `current` returns, if it is not one of the synthetic ones (end of input, a column of an Indent node, a
    byte of the replacement character), is the source byte at the reader's position. -/
theorem current_byte {src : Bytes} {r r1 : Rd} {c : UInt8} (h : r.current src = (c, r1)) (h0 : c ≠ 0) (hsp : c ≠ SP)
    (hr : c ≠ 239 ∧ c ≠ 191 ∧ c ≠ 189) : r1.pos = r.pos ∧ src[r.pos]? = some c := by
  have hpos : r1.pos = r.pos := by
    have := current_pos src r
    rw [h] at this; exact this
  refine ⟨hpos, ?_⟩
  unfold Rd.current at h
  split at h
  · simp only [Prod.mk.injEq] at h
    exact absurd h.1.symm h0
  · rename_i hlt
    have hlt' : r.pos < src.length := by omega
    simp only [] at h
    have hrep : ∀ v : Nat, nullReplacementString.getD v 0 ≠ c := by
      intro v hv
      unfold nullReplacementString at hv
      match v, hv with
      | 0, hv => exact hr.1 (by simpa using hv.symm)
      | 1, hv => exact hr.2.1 (by simpa using hv.symm)
      | 2, hv => exact hr.2.2 (by simpa using hv.symm)
      | (n + 3), hv => exact h0 (by simpa using hv.symm)
    have hget : src.getD r.currentNode.2.pos 0 = src[r.pos] := by
      rw [(currentNode_pos r).1, List.getD_eq_getElem?_getD, List.getElem?_eq_getElem hlt']; rfl
    rw [List.getElem?_eq_getElem hlt']
    split at h
    · split at h
      · simp only [Prod.mk.injEq] at h; exact absurd h.1.symm hsp
      · split at h
        · simp only [Prod.mk.injEq] at h; exact absurd h.1 (hrep _)
        · simp only [Prod.mk.injEq] at h; rw [← hget, h.1]
    · split at h
      · simp only [Prod.mk.injEq] at h; exact absurd h.1 (hrep _)
      · simp only [Prod.mk.injEq] at h; rw [← hget, h.1]

theorem of_not_bne {a b : UInt8} (h : ¬ (a != b) = true) : a = b := by simpa using h
theorem of_beq {a b : UInt8} (h : (a == b) = true) : a = b := by simpa using h

/-- `e` is the position right after a `>`. -/
def GT (src : Bytes) (e : Int) : Prop := ∃ q : Nat, e = (q : Int) + 1 ∧ src[q]? = some 0x3E

theorem gt_of_current {src : Bytes} {r r1 : Rd} {c : UInt8} (h : r.current src = (c, r1)) (hc : c = 0x3E) :
    GT src ((r1.pos : Int) + 1) := by
  subst hc
  obtain ⟨h1, h2⟩ := current_byte h (by decide) (by decide) (by decide)
  exact ⟨r.pos, by rw [h1], h2⟩

/-- An end position: −1 or right after a `>`. -/
def GTE (src : Bytes) (e : Int) : Prop := e = -1 ∨ GT src e

/-- A span: invalid, or from `start` to right after a `>`. -/
def GTS (src : Bytes) (start : Nat) (sp : SpanI) : Prop := sp = nullSpan ∨ (sp.start = start ∧ GT src sp.stop)

theorem openTagLoop_gt (src : Bytes) : ∀ (fuel : Nat) (r : Rd), GTE src (openTagLoop src fuel r).1 := by
  intro fuel
  induction fuel with
  | zero => intro r; exact Or.inl rfl
  | succ fuel ih =>
    intro r
    rw [openTagLoop]
    simp only []
    split
    · exact Or.inl rfl
    · split
      · split
        · exact Or.inl rfl
        · split
          · exact Or.inl rfl
          · rename_i hc2
            exact Or.inr (gt_of_current (r := _) (Prod.ext rfl rfl) (of_not_bne hc2))
      · split
        · rename_i hc
          exact Or.inr (gt_of_current (r := _) (Prod.ext rfl rfl) (of_beq hc))
        · split
          · exact Or.inl rfl
          · split
            · exact Or.inl rfl
            · exact ih _

theorem parseHTMLOpenTag_gt (src : Bytes) (fuel : Nat) (r : Rd) : GTE src (parseHTMLOpenTag src fuel r).1 := by
  unfold parseHTMLOpenTag
  simp only []
  split
  · exact Or.inl rfl
  · exact openTagLoop_gt src fuel _

theorem parseHTMLClosingTag_gt (src : Bytes) (fuel : Nat) (r : Rd) : GTE src (parseHTMLClosingTag src fuel r).1 := by
  unfold parseHTMLClosingTag
  simp only []
  split
  · exact Or.inl rfl
  · split
    · exact Or.inl rfl
    · split
      · exact Or.inl rfl
      · split
        · exact Or.inl rfl
        · split
          · exact Or.inl rfl
          · rename_i hc
            exact Or.inr (gt_of_current (r := _) (Prod.ext rfl rfl) (of_not_bne hc))

theorem piLoop_gts (src : Bytes) (start : Nat) : ∀ (fuel : Nat) (r : Rd), GTS src start (piLoop src start fuel r).1 := by
  intro fuel
  induction fuel with
  | zero => intro r; exact Or.inl rfl
  | succ fuel ih =>
    intro r
    rw [piLoop]
    simp only []
    split
    · split
      · exact Or.inl rfl
      · exact ih _
    · split
      · exact Or.inl rfl
      · split
        · rename_i hc
          exact Or.inr ⟨rfl, gt_of_current (r := _) (Prod.ext rfl rfl) (of_beq hc)⟩
        · exact ih _

theorem declLoop_gts (src : Bytes) (start : Nat) : ∀ (fuel : Nat) (r : Rd), GTS src start (declLoop src start fuel r).1 := by
  intro fuel
  induction fuel with
  | zero => intro r; exact Or.inl rfl
  | succ fuel ih =>
    intro r
    rw [declLoop]
    simp only []
    split
    · rename_i hc
      exact Or.inr ⟨rfl, gt_of_current (r := _) (Prod.ext rfl rfl) (of_beq hc)⟩
    · split
      · exact Or.inl rfl
      · exact ih _

/-! ### looking ahead in the bytes of the current node -/

/-- Indent nodes cover spaces and tabs only. -/
def IndentWS (src : Bytes) (S : List Tree) : Prop :=
  ∀ t ∈ S, isIndent t = true → ∀ q : Nat, t.label.start ≤ (q : Int) → (q : Int) < t.label.stop →
    src[q]? = some SP ∨ src[q]? = some TAB

theorem hasBytePrefix_take : ∀ (b p : Bytes), hasBytePrefix b p = true → b.take p.length = p := by
  intro b p
  induction p generalizing b with
  | nil => intro _; simp
  | cons c ps ih =>
    intro h
    cases b with
    | nil => simp [hasBytePrefix] at h
    | cons d bs =>
      simp only [hasBytePrefix, Bool.and_eq_true, beq_iff_eq] at h
      simp only [List.length_cons, List.take_succ_cons, h.1, ih bs h.2]

theorem hasBytePrefix_len : ∀ (b p : Bytes), hasBytePrefix b p = true → p.length ≤ b.length := by
  intro b p h
  have := congrArg List.length (hasBytePrefix_take b p h)
  rw [List.length_take] at this
  omega

/-- the reader stands on the first node of its list -/
def AtHead (r : Rd) (t : Tree) : Prop := ∃ rest, r.spans = t :: rest ∧ spanContains t r.pos = true

theorem currentNode_atHead {r : Rd} {t : Tree} (h : AtHead r t) : r.currentNode = (some t, r) := by
  obtain ⟨rest, hs, hc⟩ := h
  have hst : ¬ (t.label.start > (r.pos : Int)) := by
    unfold spanContains at hc
    simp only [Bool.and_eq_true, decide_eq_true_eq] at hc
    omega
  have hni : nodeIndexForPosition r.spans r.pos 0 = some 0 := by
    rw [hs, nodeIndexForPosition, if_neg hst, if_pos hc]
  rw [currentNode_some_eq hni]
  simp only [List.drop_zero, hs, List.head?_cons]
  congr 1
  cases r
  simp only at hs
  simp [hs]

/-- inside a node that is not an Indent node, `next` moves one byte forward and stays in the node -/
theorem next_atHead (src : Bytes) {r : Rd} {t : Tree} (h : AtHead r t) (hni : isIndent t = false)
    (hlt : ((r.pos + 1 : Nat) : Int) < t.label.stop) :
    (r.next src).2.pos = r.pos + 1 ∧ AtHead (r.next src).2 t := by
  have hcn := currentNode_atHead h
  obtain ⟨rest, hs, hc⟩ := h
  have hnx : ∃ v, r.next src = (true, { r with prev := r.pos, pos := r.pos + 1, vpos := v }) := by
    unfold Rd.next
    rw [hcn]
    simp only [hni, Bool.false_and, Bool.not_false, Bool.true_and, decide_eq_true_eq, hlt, if_true,
      Bool.false_eq_true, if_false]
    exact ⟨_, rfl⟩
  obtain ⟨v, hnx⟩ := hnx
  rw [hnx]
  refine ⟨rfl, rest, hs, ?_⟩
  unfold spanContains at hc ⊢
  simp only [Bool.and_eq_true, decide_eq_true_eq] at hc ⊢
  exact ⟨⟨hc.1.1, by omega⟩, hlt⟩

/-- what a successful look-ahead at the bytes of the current node says -/
theorem lookahead (src : Bytes) (S : List Tree) (hind : IndentWS src S) (r : Rd) (hsub : ∀ t ∈ r.spans, t ∈ S)
    (c : UInt8) (pfx : Bytes) (hc : c ≠ SP ∧ c ≠ TAB)
    (h : hasBytePrefix (r.remainingNodeBytes src).1 (c :: pfx) = true) :
    ∃ t, AtHead (r.remainingNodeBytes src).2 t ∧ isIndent t = false ∧ (r.remainingNodeBytes src).2.pos = r.pos ∧
      ((r.pos + (pfx.length + 1) : Nat) : Int) ≤ t.label.stop ∧
      ∀ i, i < pfx.length + 1 → src[r.pos + i]? = (c :: pfx)[i]? := by
  unfold Rd.remainingNodeBytes at h ⊢
  cases hcn : r.currentNode with
  | mk n r1 =>
  rw [hcn] at h
  simp only [] at h ⊢
  cases n with
  | none => simp [hasBytePrefix] at h
  | some t =>
    simp only [] at h ⊢
    have hn1 : r.currentNode.1 = some t := by rw [hcn]
    have hr1 : r.currentNode.2 = r1 := by rw [hcn]
    obtain ⟨hmem, hcont, rest, hsp⟩ := currentNode_some hn1
    rw [hr1] at hsp
    have hpos : r1.pos = r.pos := by rw [← hr1]; exact (currentNode_pos r).1
    have htk := hasBytePrefix_take _ _ h
    have hlen := hasBytePrefix_len _ _ h
    rw [List.length_take, List.length_drop] at hlen
    simp only [List.length_cons] at hlen htk
    rw [hpos] at hlen htk
    have hbytes : ∀ i, i < pfx.length + 1 → src[r.pos + i]? = (c :: pfx)[i]? := by
      intro i hi
      rw [← htk, List.getElem?_take_of_lt hi, List.getElem?_take_of_lt (by omega), List.getElem?_drop]
    have hstop : ((r.pos + (pfx.length + 1) : Nat) : Int) ≤ t.label.stop := by omega
    refine ⟨t, ⟨rest, hsp, by rw [hpos]; exact hcont⟩, ?_, hpos, hstop, hbytes⟩
    -- not an Indent node: its first byte is not white space
    cases hi : isIndent t with
    | false => rfl
    | true =>
      exfalso
      have hb0 := hbytes 0 (by omega)
      simp only [Nat.add_zero, List.getElem?_cons_zero] at hb0
      have hst : t.label.start ≤ (r.pos : Int) := by
        unfold spanContains at hcont
        simp only [Bool.and_eq_true, decide_eq_true_eq] at hcont
        omega
      rcases hind t (hsub t hmem) hi r.pos hst (by omega) with h' | h'
      · rw [hb0] at h'; exact hc.1 (Option.some.inj h')
      · rw [hb0] at h'; exact hc.2 (Option.some.inj h')

/-- after a look-ahead that saw three bytes ending in `>`: two `next`s stand on the `>` -/
theorem two_next_gt (src : Bytes) (S : List Tree) (hind : IndentWS src S) (r : Rd) (hsub : ∀ t ∈ r.spans, t ∈ S)
    (c d : UInt8) (hc : c ≠ SP ∧ c ≠ TAB)
    (h : hasBytePrefix (r.remainingNodeBytes src).1 [c, d, 0x3E] = true) :
    GT src ((((((r.remainingNodeBytes src).2.next src).2.next src).2.pos : Nat) : Int) + 1) := by
  obtain ⟨t, hat, hni, hpos, hstop, hbytes⟩ := lookahead src S hind r hsub c [d, 0x3E] hc h
  simp only [List.length_cons, List.length_nil] at hstop hbytes
  obtain ⟨hp1, hat1⟩ := next_atHead src hat hni (by rw [hpos]; omega)
  obtain ⟨hp2, _⟩ := next_atHead src hat1 hni (by rw [hp1, hpos]; omega)
  refine ⟨r.pos + 2, by rw [hp2, hp1, hpos], ?_⟩
  have := hbytes 2 (by omega)
  simpa using this

theorem commentLoop_gts (src : Bytes) (S : List Tree) (hind : IndentWS src S) (start : Nat) :
    ∀ (fuel : Nat) (r : Rd), (∀ t ∈ r.spans, t ∈ S) → GTS src start (commentLoop src start fuel r).1 := by
  intro fuel
  induction fuel with
  | zero => intro r _; exact Or.inl rfl
  | succ fuel ih =>
    intro r hsub
    rw [commentLoop]
    simp only []
    split
    · rename_i hp
      exact Or.inr ⟨rfl, two_next_gt src S hind r hsub 0x2D 0x2D (by decide) hp⟩
    · split
      · exact Or.inl rfl
      · split
        · exact Or.inl rfl
        · exact ih _ (fun t ht => hsub t (remainingNodeBytes_sub src r t (next_sub src _ t ht)))

theorem cdataLoop_gts (src : Bytes) (S : List Tree) (hind : IndentWS src S) (start : Nat) :
    ∀ (fuel : Nat) (r : Rd), (∀ t ∈ r.spans, t ∈ S) → GTS src start (cdataLoop src start fuel r).1 := by
  intro fuel
  induction fuel with
  | zero => intro r _; exact Or.inl rfl
  | succ fuel ih =>
    intro r hsub
    rw [cdataLoop]
    simp only []
    split
    · rename_i hp
      exact Or.inr ⟨rfl, two_next_gt src S hind r hsub 0x5D 0x5D (by decide) hp⟩
    · split
      · exact Or.inl rfl
      · exact ih _ (fun t ht => hsub t (remainingNodeBytes_sub src r t (next_sub src _ t ht)))

theorem advanceN_sub (src : Bytes) : ∀ (n : Nat) (r : Rd), ∀ t ∈ (advanceN src n r).2.spans, t ∈ r.spans := by
  intro n
  induction n with
  | zero => intro r t ht; exact ht
  | succ n ih =>
    intro r t ht
    rw [advanceN] at ht
    simp only [] at ht
    split at ht
    · exact next_sub src r t ht
    · exact next_sub src r t (ih _ t ht)

theorem gts_of_gte (src : Bytes) (start : Nat) (e : Int) (r' : Rd) (h : GTE src e) :
    GTS src start (if e < 0 then (nullSpan, r') else ((⟨(start : Int), e⟩ : SpanI), r')).1 := by
  split
  · exact Or.inl rfl
  · rename_i he
    rcases h with rfl | h
    · omega
    · exact Or.inr ⟨rfl, h⟩

theorem parseHTMLTag_gts (src : Bytes) (S : List Tree) (hind : IndentWS src S) (fuel : Nat) (r : Rd)
    (hsub : ∀ t ∈ r.spans, t ∈ S) :
    (parseHTMLTag src fuel r).1 = nullSpan ∨
      (GTS src r.pos (parseHTMLTag src fuel r).1 ∧ src[r.pos]? = some 0x3C) := by
  unfold parseHTMLTag
  simp only []
  split
  · exact Or.inl rfl
  · rename_i hc
    have hc' := of_not_bne hc
    have hlt : src[r.pos]? = some 0x3C := by
      have := (current_byte (r := r) (c := (r.current src).1) (Prod.ext rfl rfl) (by rw [hc']; decide)
        (by rw [hc']; decide) (by rw [hc']; decide)).2
      rw [this, hc']
    refine Or.inr ⟨?_, hlt⟩
    have hs0 : ∀ t ∈ (r.current src).2.spans, t ∈ S := fun t ht => hsub t (current_sub src r t ht)
    have hs1 : ∀ t ∈ ((r.current src).2.next src).2.spans, t ∈ S := fun t ht => hs0 t (next_sub src _ t ht)
    have hs2 : ∀ t ∈ ((((r.current src).2.next src).2.current src).2).spans, t ∈ S :=
      fun t ht => hs1 t (current_sub src _ t ht)
    have hs3 : ∀ t ∈ ((((r.current src).2.next src).2.current src).2.next src).2.spans, t ∈ S :=
      fun t ht => hs2 t (next_sub src _ t ht)
    rw [← current_pos src r]
    split
    · exact Or.inl rfl
    · split
      · split
        · exact Or.inl rfl
        · exact piLoop_gts src _ fuel _
      · split
        · split
          · exact Or.inl rfl
          · split
            · exact declLoop_gts src _ fuel _
            · split
              · split
                · exact Or.inl rfl
                · split
                  · exact Or.inl rfl
                  · refine commentLoop_gts src S hind _ fuel _ (fun t ht => ?_)
                    refine hs3 t (remainingNodeBytes_sub src _ t ?_)
                    refine next_sub src _ t (next_sub src _ t ?_)
                    exact remainingNodeBytes_sub src _ t ht
              · split
                · split
                  · exact Or.inl rfl
                  · refine cdataLoop_gts src S hind _ fuel _ (fun t ht => ?_)
                    refine hs3 t (remainingNodeBytes_sub src _ t ?_)
                    exact advanceN_sub src _ _ t ht
                · exact Or.inl rfl
        · split
          · exact gts_of_gte src _ _ _ (parseHTMLClosingTag_gt src fuel _)
          · exact gts_of_gte src _ _ _ (parseHTMLOpenTag_gt src fuel _)

/-- THE SHAPE OF A RAW HTML TAG: a valid result of `parseHTMLTag` starts at the reader's position, where the source
    has `<`, and ends right after a `>`. -/
theorem parseHTMLTag_shape (src : Bytes) (S : List Tree) (hind : IndentWS src S) (fuel : Nat) (r : Rd)
    (hsub : ∀ t ∈ r.spans, t ∈ S) (hv : (parseHTMLTag src fuel r).1.isValid = true) :
    (parseHTMLTag src fuel r).1.start = r.pos ∧ src[r.pos]? = some 0x3C ∧ GT src (parseHTMLTag src fuel r).1.stop := by
  rcases parseHTMLTag_gts src S hind fuel r hsub with h | ⟨h | ⟨h1, h2⟩, h3⟩
  · rw [h] at hv; cases hv
  · rw [h] at hv; cases hv
  · exact ⟨h1, h3, h2⟩

end CM.Proofs.InlH
