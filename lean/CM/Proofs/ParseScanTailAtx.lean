import CM.Model.Recognize
/-
C02 / C04, inline halves, for the whole of `Parse` — the tail facts, part 1 (pure): **`parseATXHeading` cuts the content of an
ATX heading before white space, a closing `#`, or the end of the line** (`parseATXHeading_after`).  This is the byte a reader
that has run out of inline children sees after the content run of an ATX heading (`TailSafe`).
-/
namespace CM.Proofs.PSc
open CM CM.Model CM.Gen

/-- position `p` of the line is beyond its end, or holds white space or `#` -/
def SafeL (line : Bytes) (p : Nat) : Prop :=
  line.length ≤ p ∨ ∃ c, line[p]? = some c ∧ (c = SP ∨ c = TAB ∨ c = LF ∨ c = CR ∨ c = 0x23)

/-- … white space only -/
def WsL (line : Bytes) (p : Nat) : Prop :=
  line.length ≤ p ∨ ∃ c, line[p]? = some c ∧ (c = SP ∨ c = TAB ∨ c = LF ∨ c = CR)

theorem WsL.safe {line : Bytes} {p : Nat} (h : WsL line p) : SafeL line p := by
  rcases h with h | ⟨c, h1, h2⟩
  · exact Or.inl h
  · exact Or.inr ⟨c, h1, by rcases h2 with e | e | e | e <;> simp [e]⟩

/-- the first backward scan stops before white space (or at the end); if it hit a `#`, that `#` is the byte before -/
theorem atxScanBack_after (line : Bytes) (start : Nat) : ∀ n : Nat, WsL line n →
    WsL line (atxScanBack line start n).1 ∧
      ((atxScanBack line start n).2 = true → start < (atxScanBack line start n).1 ∧
        line[(atxScanBack line start n).1 - 1]? = some 0x23)
  | 0, h => by
    rw [atxScanBack]; exact ⟨h, fun hh => by cases hh⟩
  | e + 1, h => by
    rw [atxScanBack]
    split
    · exact ⟨h, fun hh => by cases hh⟩
    · rename_i hlt
      split
      · exact ⟨h, fun hh => by cases hh⟩
      · rename_i c hc
        split
        · rename_i hnl
          refine atxScanBack_after line start e (Or.inr ⟨c, hc, ?_⟩)
          simp only [Bool.or_eq_true, beq_iff_eq] at hnl
          rcases hnl with e' | e' <;> simp [e']
        · split
          · rename_i hsp
            split
            · exact ⟨h, fun hh => by cases hh⟩
            · refine atxScanBack_after line start e (Or.inr ⟨c, hc, ?_⟩)
              simp only [Bool.or_eq_true, beq_iff_eq] at hsp
              rcases hsp with e' | e' <;> simp [e']
          · split
            · rename_i hh
              refine ⟨h, fun _ => ⟨by simp only []; omega, ?_⟩⟩
              simp only [Nat.add_sub_cancel]
              rw [hc]
              simp only [beq_iff_eq] at hh
              rw [hh]
            · exact ⟨h, fun hh => by cases hh⟩

/-- the scan over the closing `#`s: the new end is followed by a `#` -/
theorem atxScanHashes_after (line : Bytes) (start : Nat) : ∀ (k e' : Nat), start ≤ k → line[k]? = some 0x23 →
    atxScanHashes line start k = some e' → line[e']? = some 0x23
  | 0, e', hs, hk, h => by
    rw [atxScanHashes] at h
    cases h
    have : start = 0 := by omega
    rw [this]; exact hk
  | i + 1, e', hs, hk, h => by
    rw [atxScanHashes] at h
    split at h
    · -- below the start: impossible, `start ≤ i + 1` and `i < start` give `start = i + 1`
      cases h
      have : start = i + 1 := by omega
      rw [this]; exact hk
    · rename_i hge
      split at h
      · cases h
      · rename_i c hc
        split at h
        · rename_i hh
          have hh' : c = 0x23 := by simpa using hh
          exact atxScanHashes_after line start i e' (by omega) (by rw [hc, hh']) h
        · split at h
          · cases h; exact hk
          · cases h

/-- the final trim stops before white space or `#` -/
theorem atxTrim_after (line : Bytes) (start : Nat) : ∀ n : Nat, SafeL line n → SafeL line (atxTrim line start n)
  | 0, h => by rw [atxTrim]; exact h
  | e + 1, h => by
    rw [atxTrim]
    split
    · exact h
    · split
      · exact h
      · rename_i b hb
        split
        · exact h
        · rename_i hcond
          refine atxTrim_after line start e (Or.inr ⟨b, hb, ?_⟩)
          simp only [Bool.or_eq_true, Bool.not_eq_true', not_or, Bool.not_eq_false] at hcond
          have := hcond.1
          simp only [Bool.or_eq_true, beq_iff_eq] at this
          rcases this with e' | e' <;> simp [e']

/-- **The content of an ATX heading ends before white space, a `#`, or the end of the line.** -/
theorem parseATXHeading_after (line : Bytes) (h : 1 ≤ (parseATXHeading line).level) :
    SafeL line (parseATXHeading line).stop := by
  unfold parseATXHeading at h ⊢
  simp only [] at h ⊢
  split
  · rename_i hz; rw [if_pos hz] at h; simp at h
  · split
    · rename_i hn
      left
      simp only []
      exact (List.getElem?_eq_none_iff.1 hn)
    · rename_i c hc
      split
      · rename_i hnl
        right
        refine ⟨c, hc, ?_⟩
        simp only [Bool.or_eq_true, beq_iff_eq] at hnl
        rcases hnl with e | e <;> simp [e]
      · split
        · rename_i hns
          rw [if_neg ‹_›, hc] at h
          simp only [] at h
          rw [if_neg ‹_›, if_pos hns] at h
          simp at h
        · -- the general case
          have hsb := atxScanBack_after line
            (countPrefix 0x23 line + 1 + skipSpTab (line.drop (countPrefix 0x23 line + 1))) line.length
            (Or.inl (Nat.le_refl _))
          generalize atxScanBack line
            (countPrefix 0x23 line + 1 + skipSpTab (line.drop (countPrefix 0x23 line + 1))) line.length = sb at hsb
          obtain ⟨e, hit⟩ := sb
          simp only [] at hsb ⊢
          split
          · exact hsb.1.safe
          · rename_i hhit
            have hit' : hit = true := by simpa using hhit
            obtain ⟨hlt, hhash⟩ := hsb.2 hit'
            split
            · exact hsb.1.safe
            · rename_i e' he'
              simp only []
              apply atxTrim_after
              right
              -- `atxScanHashes` is called with `e`; its first step looks at `line[e - 1] = #`
              have he1 : e = (e - 1) + 1 := by omega
              rw [he1, atxScanHashes, if_neg (by omega), hhash] at he'
              simp only [beq_self_eq_true, if_true] at he'
              exact ⟨0x23, atxScanHashes_after line _ (e - 1) e' (by omega) hhash he', Or.inr (Or.inr (Or.inr (Or.inr rfl)))⟩

end CM.Proofs.PSc
