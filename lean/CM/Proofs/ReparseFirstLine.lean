import CM.Proofs.ReparseEof
/-
C16, Layer B, part 10: **the first line of a fresh session** (the document has no child yet). After it the document has
exactly one child, or its first child is a block quote or a list.
-/
namespace CM.Proofs.Rp
open CM CM.Model CM.Gen CM.Proofs

/-- A block that is not a paragraph is replaced by exactly one block when it is closed. -/
theorem closeBlock_single_any (x : PExt) (src : Bytes) (e : Int) (k : PB) (hk : ¬ ParaK k.kind) (he : 0 ≤ e) :
    ∃ k', closeBlock x src e k = [k'] ∧ 0 ≤ k'.label.stop ∧ (k.label.stop < 0 → k'.label.stop = e) := by
  cases k with
  | mk l bs is =>
    rw [closeBlock]
    by_cases hcl : l.stop ≥ 0
    · simp only [hcl, if_true]; exact ⟨_, rfl, hcl, fun h => absurd hcl (by simp only [PB.label] at h; omega)⟩
    · simp only [hcl, if_false]
      split
      · split <;> exact ⟨_, rfl, he, fun _ => rfl⟩
      · split
        · rename_i hp
          exfalso; apply hk
          simpa [ParaK, PB.kind, PB.label] using hp
        · split
          · refine ⟨_, rfl, ?_, fun _ => ?_⟩
            · rw [indentedOnClose_label]; exact he
            · rw [indentedOnClose_label]; rfl
          · exact ⟨_, rfl, he, fun _ => rfl⟩

/-- `q` works inside the new block `k0`, the only child of the document; source and line are those of `p`. -/
structure W (k0 : PB) (p q : LP) : Prop where
  sl : SL k0 q
  src : q.source = p.source
  ls : q.lineStart = p.lineStart
  line : q.line = p.line
  ile : q.i ≤ q.line.length

theorem W.cur {k0 : PB} {p q q' : LP} (h : W k0 p q) (f : CurFrame q q') : W k0 p q' :=
  ⟨h.sl.of_cur f, by rw [f.source]; exact h.src, by rw [f.lineStart]; exact h.ls, by rw [f.line]; exact h.line, f.ile h.ile⟩

theorem W.appendInline {k0 : PB} {p q : LP} (h : W k0 p q) (t : Tree) : W k0 p (q.appendInline t) :=
  ⟨h.sl.appendInline t, h.src, h.ls, h.line, h.ile⟩

theorem W.collectInline {k0 : PB} {p q : LP} (x : PExt) (kind n : Nat) (h : W k0 p q)
    (hs : ¬ (q.state == stateDescendTerminated) = true) : W k0 p (q.collectInline x kind n) := by
  obtain ⟨q1, t, e, hq⟩ := collectInline_shape x q kind n hs
  rw [e]
  apply W.appendInline
  apply W.cur _ (advance_frame _ _).1
  rcases hq with rfl | ⟨k, t0, rfl⟩
  · exact h.cur (markMatched_frame q).1
  · exact ((h.cur (markMatched_frame q).1).cur (advance_frame _ _).1).appendInline _

theorem W.setContainerIndent {k0 : PB} {p q : LP} (n : Int) (h : W k0 p q) : W k0 p (q.setContainerIndent n) := by
  unfold LP.setContainerIndent
  split
  · exact h.cur (setPanic_frame _ _).1
  · split
    · exact h.cur (setPanic_frame _ _).1
    · refine ⟨?_, h.src, h.ls, h.line, h.ile⟩
      exact h.sl.modify _ (fun b => by cases b; exact ⟨rfl, rfl, fun h => h⟩)

theorem setContainerIndent_state (q : LP) (n : Int) : (q.setContainerIndent n).state = q.state := by
  unfold LP.setContainerIndent
  split
  · exact (setPanic_frame _ _).2.1
  · split
    · exact (setPanic_frame _ _).2.1
    · rfl

theorem collectInline_state {q : LP} (x : PExt) (kind n : Nat) (hs : InOpen q.state) :
    InOpen (q.collectInline x kind n).state := by
  have hnt : ¬ (q.state == stateDescendTerminated) = true := by
    rcases hs with h | h <;> rw [h] <;> decide
  obtain ⟨q1, t, e, hq⟩ := collectInline_shape x q kind n hnt
  rw [e]
  show InOpen (q1.advance n).state
  apply (advance_frame q1 n).2.inOpen
  rcases hq with rfl | ⟨k, t0, rfl⟩
  · exact (markMatched_frame q).2.1.inOpen hs
  · show InOpen (q.markMatched.advance k).state
    exact (advance_frame _ k).2.inOpen ((markMatched_frame q).2.1.inOpen hs)

theorem inOpen_not_term {s : Nat} (h : InOpen s) : ¬ (s == stateDescendTerminated) = true := by
  rcases h with h | h <;> rw [h] <;> decide

/-- The first `openBlock` on the empty document. -/
theorem openBlock_S0 (x : PExt) (q : LP) (kind : Nat) (attrs : PLabel → PLabel) (hdoc : q.root.label.kind = BK.document)
    (hst : InOpen q.state) (hk : kind ≠ BK.listItem) (hd : q.depth = 0) (hb : q.root.blocks = [])
    (ha : ∀ l, (attrs l).kind = l.kind ∧ (attrs l).stop = l.stop) (hile : q.i ≤ q.line.length) :
    ∃ child, child.label.kind = kind ∧ child.label.stop = -1 ∧ W child q (q.openBlock x kind attrs) ∧
      (q.openBlock x kind attrs).state = stateOpenMatched ∧ (q.openBlock x kind attrs).root.blocks = [child] ∧
      child.inlines = [] := by
  rw [openBlock_eq x q kind attrs (notDesc_of_inOpen hst)]
  obtain ⟨m1, _, m3, _⟩ := markMatched_frame q
  have hcdoc : canContain BK.document kind = true := by
    unfold canContain; simp only [BK.document, BK.listItem] at hk ⊢; simpa using hk
  have hck : q.markMatched.containerKind = BK.document := by
    rw [containerKind_of_cur m1, containerKind_depth0 hd]; exact hdoc
  have hloop : LP.openBlockLoop x kind (q.markMatched.depth + 1) q.markMatched = q.markMatched := by
    unfold LP.openBlockLoop; rw [hck, if_pos hcdoc]
  simp only [hloop]
  have hblocks : (spineModify (closeAppend x q.markMatched.source q.markMatched.lineStart
      (.mk (attrs { kind := kind, start := q.markMatched.lineStart + q.markMatched.i }) [] [])) q.markMatched.root
      q.markMatched.depth).blocks = [.mk (attrs { kind := kind, start := q.markMatched.lineStart + q.markMatched.i }) [] []] := by
    rw [m1.depth, hd, spineModify_zero, (closeAppend_blocks x _ _ _ _).1, m1.root]
    cases hr : q.root with
    | mk l bs is =>
      rw [hr] at hb
      simp only [PB.blocks] at hb
      subst hb
      rfl
  refine ⟨.mk (attrs { kind := kind, start := q.markMatched.lineStart + q.markMatched.i }) [] [], (ha _).1, (ha _).2, ?_,
    inOpen_markMatched hst, hblocks, rfl⟩
  refine ⟨⟨by show q.markMatched.depth + 1 = 1; rw [m1.depth, hd], _, hblocks, rfl, rfl, rfl⟩, m1.source, m1.lineStart, m1.line, ?_⟩
  show q.markMatched.i ≤ q.markMatched.line.length
  rw [m3, m1.line]; exact hile

/-- Closing the new block at the end of the line (`endBlock` after `consumeLine`). -/
theorem endBlock_W {k0 : PB} {p q : LP} (x : PExt) (h : W k0 p q) (hs : q.state = stateLineConsumed)
    (hk : ¬ ParaK k0.label.kind) (hko : k0.label.stop < 0) (hi : q.i = q.line.length) :
    (∃ k, (q.endBlock x).root.blocks = [k] ∧ k.label.stop = ((p.lineStart + p.line.length : Nat) : Int)) ∧
      (q.endBlock x).state = stateLineConsumed := by
  rw [endBlock_eq x q (by rw [hs]; decide)]
  obtain ⟨m1, m2, m3, _⟩ := markMatched_frame q
  have hsl := h.sl.of_cur m1
  obtain ⟨hd, kT, hbT, hT1, hT2, _⟩ := hsl
  refine ⟨?_, by rw [closeContainer_state, m2.eq_of_ne (by rw [hs]; decide)]; exact hs⟩
  rw [closeContainer_depth1 x q.markMatched _ kT hd hbT]
  obtain ⟨k', e1, _, e3⟩ := closeBlock_single_any x q.markMatched.source (q.markMatched.lineStart + q.markMatched.i) kT
    (by unfold PB.kind; rw [hT2]; exact hk) (by omega)
  refine ⟨k', e1, ?_⟩
  rw [e3 (by rw [hT1]; exact hko), m1.lineStart, m3, hi, h.ls, h.line]
  simp

/-- For a new indented code block: it is the only child, still without inline children; cursor and line as before. -/
def IcodeFresh (p p' : LP) (k0 : PB) : Prop :=
  k0.kind = BK.indentedCode → p'.root.blocks = [k0] ∧ k0.inlines = [] ∧ p'.i ≤ p'.line.length ∧
    p'.lineStart = p.lineStart ∧ p'.line = p.line

theorem IcodeFresh.of_ne {p p' : LP} {k0 : PB} (h : k0.kind ≠ BK.indentedCode) : IcodeFresh p p' k0 :=
  fun e => absurd e h

/-- What a block start does on the empty document. -/
inductive F1 (x : PExt) (p : LP) : LP → Prop
  | same (p' : LP) : p' = T p → F1 x p p'
  | single (p' : LP) (k : PB) : p'.root.blocks = [k] → k.label.stop = ((p.lineStart + p.line.length : Nat) : Int) →
      p'.state = stateLineConsumed → F1 x p p'
  | leaf (p' : LP) (k0 : PB) : SL k0 p' → k0.label.stop < 0 →
      (k0.kind = BK.fencedCode ∨ k0.kind = BK.htmlBlock ∨ k0.kind = BK.indentedCode) →
      (p'.state = stateLineConsumed ∨ p'.state = stateOpenMatched) → IcodeFresh p p' k0 → F1 x p p'
  | cont (q : LP) (kind : Nat) (attrs : PLabel → PLabel) (p' : LP) : CurFrame p q → InOpen q.state →
      (kind = BK.blockQuote ∨ kind = BK.list) → (∀ l, (attrs l).kind = l.kind) → LF (q.openBlock x kind attrs) p' → F1 x p p'

/-- The state of the empty document in front of a block start. -/
structure S0 (p : LP) : Prop where
  doc : p.root.label.kind = BK.document
  blocks : p.root.blocks = []
  depth : p.depth = 0
  state : p.state = stateOpening
  ile : p.i ≤ p.line.length

theorem S0.cur {p q : LP} (h : S0 p) (f : CurFrame p q) :
    q.root.label.kind = BK.document ∧ q.root.blocks = [] ∧ q.depth = 0 ∧ q.i ≤ q.line.length :=
  ⟨by rw [f.root]; exact h.doc, by rw [f.root]; exact h.blocks, by rw [f.depth]; exact h.depth, f.ile h.ile⟩

theorem f1_blockQuote (x : PExt) (p : LP) (h : S0 p) : F1 x p (startBlockQuote x p) := by
  unfold startBlockQuote
  simp only []
  split
  · exact F1.same _ (T_of_state h.state).symm
  · split
    · exact F1.same _ (T_of_state h.state).symm
    · obtain ⟨c1, c2⟩ := consumeIndentN_frame p p.indent
      refine F1.cont (p.consumeIndentN p.indent) BK.blockQuote id _ c1 (c2.inOpen (inOpen_opening h.state)) (Or.inl rfl)
        (fun _ => rfl) ?_
      lf

theorem f1_atx (x : PExt) (p : LP) (h : S0 p) : F1 x p (startATX x p) := by
  unfold startATX
  simp only []
  split
  · exact F1.same _ (T_of_state h.state).symm
  · split
    · exact F1.same _ (T_of_state h.state).symm
    · obtain ⟨c1, c2⟩ := consumeIndentN_frame p p.indent
      obtain ⟨d1, d2, d3, d4⟩ := h.cur c1
      obtain ⟨child, hck, hcs, hW, hst, hbc, hic⟩ := openBlock_S0 x (p.consumeIndentN p.indent) BK.atxHeading
        (fun l => { l with n := (parseATXHeading p.bytesAfterIndent).level }) d1 (c2.inOpen (inOpen_opening h.state))
        (by decide) d3 d2 (fun _ => ⟨rfl, rfl⟩) d4
      generalize (p.consumeIndentN p.indent).openBlock x BK.atxHeading
        (fun l => { l with n := (parseATXHeading p.bytesAfterIndent).level }) = q1 at hW hst hbc
      have hW2 := hW.cur (advance_frame q1 (parseATXHeading p.bytesAfterIndent).start).1
      have hs2 : InOpen (q1.advance (parseATXHeading p.bytesAfterIndent).start).state :=
        (advance_frame q1 _).2.inOpen (by rw [hst]; exact Or.inr rfl)
      generalize q1.advance (parseATXHeading p.bytesAfterIndent).start = q2 at hW2 hs2
      have hW3 := hW2.collectInline x IK.unparsed ((parseATXHeading p.bytesAfterIndent).stop - (parseATXHeading p.bytesAfterIndent).start)
        (inOpen_not_term hs2)
      have hs3 := collectInline_state x IK.unparsed ((parseATXHeading p.bytesAfterIndent).stop - (parseATXHeading p.bytesAfterIndent).start) hs2
      generalize q2.collectInline x IK.unparsed ((parseATXHeading p.bytesAfterIndent).stop - (parseATXHeading p.bytesAfterIndent).start) = q3 at hW3 hs3
      obtain ⟨l1, l2, _, _⟩ := consumeLine_frame q3
      obtain ⟨⟨k, hk, hkc⟩, hse⟩ := endBlock_W x (hW3.cur l1) (l2 hs3) (by rw [hck]; simp [ParaK, BK.atxHeading, BK.paragraph, BK.setextHeading])
        (by rw [hcs]; decide) (by rw [consumeLine_i q3 hW3.ile, l1.line])
      rw [c1.lineStart, c1.line] at hkc
      exact F1.single _ k hk hkc hse

theorem f1_thematic (x : PExt) (p : LP) (h : S0 p) : F1 x p (startThematicBreak x p) := by
  unfold startThematicBreak
  simp only []
  split
  · exact F1.same _ (T_of_state h.state).symm
  · split
    · exact F1.same _ (T_of_state h.state).symm
    · obtain ⟨c1, c2⟩ := consumeIndentN_frame p p.indent
      obtain ⟨d1, d2, d3, d4⟩ := h.cur c1
      obtain ⟨child, hck, hcs, hW, hst, hbc, hic⟩ := openBlock_S0 x (p.consumeIndentN p.indent) BK.thematicBreak id d1
        (c2.inOpen (inOpen_opening h.state)) (by decide) d3 d2 (fun _ => ⟨rfl, rfl⟩) d4
      generalize (p.consumeIndentN p.indent).openBlock x BK.thematicBreak id = q1 at hW hst hbc
      have hW2 := hW.cur (advance_frame q1 (parseThematicBreak p.bytesAfterIndent).toNat).1
      have hs2 : InOpen (q1.advance (parseThematicBreak p.bytesAfterIndent).toNat).state :=
        (advance_frame q1 _).2.inOpen (by rw [hst]; exact Or.inr rfl)
      generalize q1.advance (parseThematicBreak p.bytesAfterIndent).toNat = q2 at hW2 hs2
      obtain ⟨l1, l2, _, _⟩ := consumeLine_frame q2
      obtain ⟨⟨k, hk, hkc⟩, hse⟩ := endBlock_W x (hW2.cur l1) (l2 hs2) (by rw [hck]; simp [ParaK, BK.thematicBreak, BK.paragraph, BK.setextHeading])
        (by rw [hcs]; decide) (by rw [consumeLine_i q2 hW2.ile, l1.line])
      rw [c1.lineStart, c1.line] at hkc
      exact F1.single _ k hk hkc hse

theorem f1_fenced (x : PExt) (p : LP) (h : S0 p) : F1 x p (startFenced x p) := by
  unfold startFenced
  simp only []
  split
  · exact F1.same _ (T_of_state h.state).symm
  · split
    · exact F1.same _ (T_of_state h.state).symm
    · obtain ⟨c1, c2⟩ := consumeIndentN_frame p p.indent
      obtain ⟨d1, d2, d3, d4⟩ := h.cur c1
      obtain ⟨child, hck, hcs, hW, hst, hbc, hic⟩ := openBlock_S0 x (p.consumeIndentN p.indent) BK.fencedCode
        (fun l => { l with char := (parseCodeFence p.bytesAfterIndent).char, n := (parseCodeFence p.bytesAfterIndent).n })
        d1 (c2.inOpen (inOpen_opening h.state)) (by decide) d3 d2 (fun _ => ⟨rfl, rfl⟩) d4
      generalize (p.consumeIndentN p.indent).openBlock x BK.fencedCode
        (fun l => { l with char := (parseCodeFence p.bytesAfterIndent).char, n := (parseCodeFence p.bytesAfterIndent).n }) = q1
        at hW hst
      have hW2 := hW.setContainerIndent (p.indent : Int)
      have hs2 : InOpen (q1.setContainerIndent (p.indent : Int)).state := by
        rw [setContainerIndent_state, hst]; exact Or.inr rfl
      generalize q1.setContainerIndent (p.indent : Int) = q2 at hW2 hs2
      have hkf : child.kind = BK.fencedCode ∨ child.kind = BK.htmlBlock ∨ child.kind = BK.indentedCode := Or.inl hck
      split
      · have hW3 := (hW2.cur (advance_frame q2 (parseCodeFence p.bytesAfterIndent).infoStart.toNat).1)
        have hs3 := (advance_frame q2 (parseCodeFence p.bytesAfterIndent).infoStart.toNat).2.inOpen hs2
        generalize q2.advance (parseCodeFence p.bytesAfterIndent).infoStart.toNat = q3 at hW3 hs3
        have hW4 := hW3.collectInline x IK.infoString
          ((parseCodeFence p.bytesAfterIndent).infoEnd - (parseCodeFence p.bytesAfterIndent).infoStart).toNat (inOpen_not_term hs3)
        have hs4 := collectInline_state x IK.infoString
          ((parseCodeFence p.bytesAfterIndent).infoEnd - (parseCodeFence p.bytesAfterIndent).infoStart).toNat hs3
        obtain ⟨l1, l2, _, _⟩ := consumeLine_frame (q3.collectInline x IK.infoString
          ((parseCodeFence p.bytesAfterIndent).infoEnd - (parseCodeFence p.bytesAfterIndent).infoStart).toNat)
        exact F1.leaf _ child (hW4.cur l1).sl (by rw [hcs]; decide) hkf (Or.inl (l2 hs4))
          (IcodeFresh.of_ne (by show child.label.kind ≠ _; rw [hck]; decide))
      · obtain ⟨l1, l2, _, _⟩ := consumeLine_frame q2
        exact F1.leaf _ child (hW2.cur l1).sl (by rw [hcs]; decide) hkf (Or.inl (l2 hs2))
          (IcodeFresh.of_ne (by show child.label.kind ≠ _; rw [hck]; decide))

theorem f1_htmlLoop (x : PExt) (line : Bytes) : ∀ (fuel i : Nat) (p : LP), S0 p → F1 x p (htmlStartLoop x line fuel i p) := by
  intro fuel
  induction fuel with
  | zero => intro i p h; exact F1.same _ (T_of_state h.state).symm
  | succ fuel ih =>
    intro i p h
    unfold htmlStartLoop
    split
    · exact F1.same _ (T_of_state h.state).symm
    · split
      · split
        · exact F1.same _ (T_of_state h.state).symm
        · obtain ⟨child, hck, hcs, hW, hst, hbc, hic⟩ := openBlock_S0 x p BK.htmlBlock (fun l => { l with n := (i : Int) }) h.doc
            (inOpen_opening h.state) (by decide) h.depth h.blocks (fun _ => ⟨rfl, rfl⟩) h.ile
          generalize p.openBlock x BK.htmlBlock (fun l => { l with n := (i : Int) }) = q1 at hW hst hbc
          simp only []
          have hs1 : InOpen q1.state := by rw [hst]; exact Or.inr rfl
          split
          · have hW3 := hW.collectInline x IK.rawHTML q1.bytesAfterIndent.length (inOpen_not_term hs1)
            have hs3 := collectInline_state x IK.rawHTML q1.bytesAfterIndent.length hs1
            generalize q1.collectInline x IK.rawHTML q1.bytesAfterIndent.length = q3 at hW3 hs3
            obtain ⟨l1, l2, _, _⟩ := consumeLine_frame q3
            obtain ⟨⟨k, hk, hkc⟩, hse⟩ := endBlock_W x (hW3.cur l1) (l2 hs3)
              (by rw [hck]; simp [ParaK, BK.htmlBlock, BK.paragraph, BK.setextHeading])
              (by rw [hcs]; decide) (by rw [consumeLine_i q3 hW3.ile, l1.line])
            exact F1.single _ k hk hkc hse
          · exact F1.leaf _ child hW.sl (by rw [hcs]; decide) (Or.inr (Or.inl hck)) (Or.inr hst)
              (IcodeFresh.of_ne (by show child.label.kind ≠ _; rw [hck]; decide))
      · exact ih _ _ h

theorem f1_html (x : PExt) (p : LP) (h : S0 p) : F1 x p (startHTML x p) := by
  unfold startHTML
  simp only []
  split
  · exact F1.same _ (T_of_state h.state).symm
  · split
    · exact F1.same _ (T_of_state h.state).symm
    · exact f1_htmlLoop x _ _ _ p h

theorem f1_setext (x : PExt) (p : LP) (h : S0 p) : F1 x p (startSetext x p) := by
  unfold startSetext
  have : p.containerKind = BK.document := by rw [containerKind_depth0 h.depth]; exact h.doc
  rw [this]
  simp only [BK.document, BK.paragraph, bne_iff_ne, ne_eq, Nat.reduceEqDiff, not_false_eq_true, if_true]
  exact F1.same _ (T_of_state h.state).symm

theorem f1_listItem (x : PExt) (p : LP) (h : S0 p) : F1 x p (startListItem x p) := by
  unfold startListItem
  simp only []
  split
  · exact F1.same _ (T_of_state h.state).symm
  split
  · exact F1.same _ (T_of_state h.state).symm
  split
  · exact F1.same _ (T_of_state h.state).symm
  obtain ⟨c1, c2⟩ := consumeIndentN_frame p p.indent
  have hst := c2.inOpen (inOpen_opening h.state)
  obtain ⟨d1, d2, d3, d4⟩ := h.cur c1
  generalize parseListMarker p.bytesAfterIndent = m
  generalize p.consumeIndentN p.indent = p1 at c1 hst d1 d2 d3 d4 ⊢
  generalize hcond : (p1.containerKind != BK.list || (if (p1.containerKind != BK.list && p1.containerKind != BK.listItem) = true
      then (0 : UInt8) else p1.container.label.char) != m.delim) = c
  cases c with
  | true =>
    show F1 x p (CM.Proofs.BT.listItemTail x m.delim m.stop.toNat p.indent (p1.openBlock x BK.list (fun l => { l with char := m.delim })))
    refine F1.cont p1 BK.list (fun l => { l with char := m.delim }) _ c1 hst (Or.inr rfl) (fun _ => rfl) ?_
    unfold CM.Proofs.BT.listItemTail
    simp only []
    lf
  | false =>
    exfalso
    simp only [Bool.or_eq_false_iff] at hcond
    have hk : p1.containerKind = BK.list := by simpa using hcond.1
    rw [containerKind_depth0 d3, d1] at hk
    exact absurd hk (by decide)

theorem f1_indented (x : PExt) (p : LP) (h : S0 p) : F1 x p (startIndentedCode x p) := by
  unfold startIndentedCode
  split
  · exact F1.same _ (T_of_state h.state).symm
  · obtain ⟨c1, c2⟩ := consumeIndentN_frame p codeBlockIndentLimit
    obtain ⟨d1, d2, d3, d4⟩ := h.cur c1
    obtain ⟨child, hck, hcs, hW, hst, hbc, hic⟩ := openBlock_S0 x (p.consumeIndentN codeBlockIndentLimit) BK.indentedCode id d1
      (c2.inOpen (inOpen_opening h.state)) (by decide) d3 d2 (fun _ => ⟨rfl, rfl⟩) d4
    exact F1.leaf _ child hW.sl (by rw [hcs]; decide) (Or.inr (Or.inr hck)) (Or.inr hst)
      (fun _ => ⟨hbc, hic, hW.ile, by rw [hW.ls, c1.lineStart], by rw [hW.line, c1.line]⟩)

theorem f1_all (x : PExt) : ∀ f ∈ blockStartFns x, ∀ p : LP, S0 p → F1 x p (f p) := by
  intro f hf p hs
  simp only [blockStartFns, List.mem_cons, List.mem_nil_iff, or_false] at hf
  rcases hf with rfl | rfl | rfl | rfl | rfl | rfl | rfl | rfl
  · exact f1_blockQuote x p hs
  · exact f1_atx x p hs
  · exact f1_fenced x p hs
  · exact f1_html x p hs
  · exact f1_setext x p hs
  · exact f1_thematic x p hs
  · exact f1_listItem x p hs
  · exact f1_indented x p hs

/-! ### `tryStarts`, the opening loop and the whole first line -/

theorem S0.T {p : LP} (h : S0 p) : S0 (T p) := ⟨h.doc, h.blocks, h.depth, rfl, h.ile⟩

theorem f1_tryStarts (x : PExt) : ∀ (fs : List (LP → LP)), (∀ f ∈ fs, f ∈ blockStartFns x) → ∀ p : LP, S0 p →
    F1 x p (tryStarts fs p) := by
  intro fs
  induction fs with
  | nil => intro _ p h; exact F1.same _ (T_of_state h.state).symm
  | cons f rest ih =>
    intro hfs p h
    have hT : T p = p := T_of_state h.state
    have h1 : F1 x p (f (T p)) := by rw [hT]; exact f1_all x f (hfs f (by simp)) p h
    have hlf := fun q => lf_tryStarts x rest (fun g hg => hfs g (by simp [hg])) q
    unfold tryStarts
    show F1 x p (if (f (T p)).state == stateOpenMatched || (f (T p)).state == stateLineConsumed then f (T p)
      else tryStarts rest (f (T p)))
    split
    · exact h1
    · rename_i hst
      cases h1 with
      | same _ hs =>
        rw [hs, hT]
        exact ih (fun g hg => hfs g (by simp [hg])) p h
      | single _ k hk hkc hs => exfalso; rw [hs] at hst; exact hst (by decide)
      | leaf _ k0 hsl hko hk hs _ => exfalso; rcases hs with hs | hs <;> rw [hs] at hst <;> exact hst (by decide)
      | cont q kind attrs _ hc hs' hk ha hl => exact F1.cont q kind attrs _ hc hs' hk ha (hl.trans (hlf _))

/-- The result of the opening loop on the empty document. -/
inductive FL (x : PExt) (p : LP) : Bool × LP → Prop
  | same (p' : LP) : p' = T p → FL x p (true, p')
  | single (p' : LP) (k : PB) : p'.root.blocks = [k] → k.label.stop = ((p.lineStart + p.line.length : Nat) : Int) →
      FL x p (false, p')
  | leafC (p' : LP) (k0 : PB) : SL k0 p' → k0.label.stop < 0 → LeafK k0.kind → IcodeFresh p p' k0 → FL x p (false, p')
  | leafM (p' : LP) (k0 : PB) : SL k0 p' → k0.label.stop < 0 → LeafK k0.kind → IcodeFresh p p' k0 → FL x p (true, p')
  | cont (q : LP) (kind : Nat) (attrs : PLabel → PLabel) (ht : Bool) (p' : LP) : CurFrame p q → InOpen q.state →
      (kind = BK.blockQuote ∨ kind = BK.list) → (∀ l, (attrs l).kind = l.kind) → LF (q.openBlock x kind attrs) p' →
      FL x p (ht, p')

theorem openingLoop_leaf (x : PExt) (fuel : Nat) (p : LP) (k0 : PB) (h : SL k0 p)
    (hk : k0.kind = BK.fencedCode ∨ k0.kind = BK.htmlBlock ∨ k0.kind = BK.indentedCode) :
    openingLoop x fuel p = (true, p) := by
  cases fuel with
  | zero => rfl
  | succ fuel =>
    unfold openingLoop
    rw [h.containerKind]
    rcases hk with hk | hk | hk <;> rw [hk] <;> rfl

theorem fl_openingLoop (x : PExt) (fuel : Nat) (p : LP) (h : S0 p) : FL x p (openingLoop x (fuel + 1) p) := by
  unfold openingLoop
  have hck : p.containerKind = BK.document := by rw [containerKind_depth0 h.depth]; exact h.doc
  rw [hck]
  simp only [BK.document, BK.paragraph, acceptsLines, Nat.reduceBEq, Bool.false_eq_true, if_false, Bool.not_false,
    Bool.or_true, Bool.not_true]
  have h1 := f1_tryStarts x (blockStartFns x) (fun _ hh => hh) p h
  split
  · rename_i hst
    cases h1 with
    | same _ hs => exfalso; rw [hs] at hst; exact absurd hst (by simp [T, stateOpening, stateOpenMatched])
    | single _ k hk hkc hs => exfalso; rw [hs] at hst; exact absurd hst (by decide)
    | leaf _ k0 hsl hko hk hs hic =>
      rw [openingLoop_leaf x fuel _ k0 hsl hk]
      refine FL.leafM _ k0 hsl hko ?_ hic
      rcases hk with hk | hk | hk
      · exact Or.inr (Or.inl hk)
      · exact Or.inr (Or.inr (Or.inl hk))
      · exact Or.inr (Or.inr (Or.inr hk))
    | cont q kind attrs _ hc hs' hk ha hl =>
      have h2 := lf_openingLoop x fuel (tryStarts (blockStartFns x) p)
      generalize openingLoop x fuel (tryStarts (blockStartFns x) p) = r at h2
      obtain ⟨ht, p'⟩ := r
      exact FL.cont q kind attrs ht p' hc hs' hk ha (hl.trans h2)
  · split
    · rename_i hst hst2
      cases h1 with
      | same _ hs => exfalso; rw [hs] at hst2; exact absurd hst2 (by simp [T, stateOpening, stateLineConsumed])
      | single _ k hk hkc hs => exact FL.single _ k hk hkc
      | leaf _ k0 hsl hko hk hs hic =>
        refine FL.leafC _ k0 hsl hko ?_ hic
        rcases hk with hk | hk | hk
        · exact Or.inr (Or.inl hk)
        · exact Or.inr (Or.inr (Or.inl hk))
        · exact Or.inr (Or.inr (Or.inr hk))
      | cont q kind attrs _ hc hs' hk ha hl => exact FL.cont q kind attrs false _ hc hs' hk ha hl
    · rename_i hst hst2
      cases h1 with
      | same _ hs => exact FL.same _ hs
      | single _ k hk hkc hs => exfalso; rw [hs] at hst2; exact absurd hst2 (by decide)
      | leaf _ k0 hsl hko hk hs _ =>
        exfalso
        rcases hs with hs | hs
        · rw [hs] at hst2; exact absurd hst2 (by decide)
        · rw [hs] at hst; exact absurd hst (by decide)
      | cont q kind attrs _ hc hs' hk ha hl => exact FL.cont q kind attrs true _ hc hs' hk ha hl

theorem altPrep_cursor (p : LP) : (altPrep p).i = p.i ∧ (altPrep p).line = p.line := by
  unfold CM.Proofs.altPrep
  simp only []
  split <;> exact ⟨rfl, rfl⟩

/-- The text of the first line goes into a new paragraph, the only child of the document. -/
theorem addLineText_S0 (x : PExt) (p : LP) (hdoc : p.root.label.kind = BK.document) (hb : p.root.blocks = [])
    (hd : p.depth = 0) (hst : InOpen p.state) (hile : p.i ≤ p.line.length) (hnb : p.isRestBlank = false) :
    ∃ k, (addLineText x p).root.blocks = [k] ∧ k.label.kind = BK.paragraph ∧ k.label.stop < 0 := by
  rw [addLineText_eq]
  obtain ⟨hA, hB, hdep, hsta⟩ := altPrep_shape p
  obtain ⟨hi1, hl1⟩ := altPrep_cursor p
  obtain ⟨v, hroot⟩ := hB (by rw [hnb]; decide)
  rw [hd] at hroot hdep
  have hb1 : (altPrep p).root.blocks = [] := by rw [hroot, (setBlankFlags_zero_root _ _).1]; exact hb
  have hdoc1 : (altPrep p).root.label.kind = BK.document := by rw [hroot, (setBlankFlags_zero_root _ _).2]; exact hdoc
  generalize altPrep p = p1 at hdep hsta hi1 hl1 hb1 hdoc1
  have hck : p1.containerKind = BK.document := by rw [containerKind_depth0 hdep]; exact hdoc1
  unfold CM.Proofs.altCont
  simp only []
  rw [hck, acceptsLines_document, hnb]
  simp only [Bool.false_eq_true, if_false, Bool.not_false, if_true]
  obtain ⟨child, hck, hcs, hW, _, _, _⟩ := openBlock_S0 x p1 BK.paragraph id hdoc1 (by rw [hsta]; exact hst) (by decide) hdep hb1
    (fun _ => ⟨rfl, rfl⟩) (by rw [hi1, hl1]; exact hile)
  have hsl := (hW.cur (consumeIndentN_frame (p1.openBlock x BK.paragraph) (p1.openBlock x BK.paragraph).indent).1).sl.altFinish
  obtain ⟨_, k', hk', hk1, hk2, _⟩ := hsl
  exact ⟨k', hk', by rw [hk2]; exact hck, by rw [hk1, hcs]; decide⟩

/-- After the first line of a fresh session. -/
inductive FirstOut (ln : Bytes) : LP → Prop
  | single (σ' : LP) (k : PB) : σ'.root.blocks = [k] → (k.label.stop < 0 → LeafK k.kind) →
      (0 ≤ k.label.stop → k.label.stop = (ln.length : Int)) →
      (k.label.stop < 0 → k.label.kind = BK.indentedCode → ∀ t ∈ k.inlines, InLine 0 ln.length t) → FirstOut ln σ'
  | container (σ' : LP) (h : PB) (m : List PB) : σ'.root.blocks = h :: m → (h.kind = BK.blockQuote ∨ h.kind = BK.list) →
      FirstOut ln σ'

theorem first_line (x : PExt) (ln : Bytes) (hb : isBlankLine ln = false) :
    FirstOut ln ((blocksLP x).line ((blocksLP x).new []) ln 0) := by
  show FirstOut ln (processLine x (((blocksLP x).new []).reset ln 0))
  have hne : ln ≠ [] := by intro e; rw [e] at hb; cases hb
  obtain ⟨r1, r2, r3, r4, r5, r6⟩ := reset_fields ((blocksLP x).new []) ln 0
  generalize ((blocksLP x).new []).reset ln 0 = p0 at r1 r2 r3 r4 r5 r6
  have hline : p0.line = ln := by rw [r4]; rfl
  have hroot : p0.root = docRoot [] := r1
  have hS0 : S0 p0 := ⟨by rw [hroot]; rfl, by rw [hroot]; rfl, r2, by rw [r6]; rfl, by rw [r5]; exact Nat.zero_le _⟩
  unfold processLine
  rw [descend_fresh x p0 hS0.blocks]
  generalize hp1 : ({ p0 with depth := 0 } : LP) = p1
  have hS1 : S0 p1 := by rw [← hp1]; exact ⟨hS0.doc, hS0.blocks, rfl, hS0.state, hS0.ile⟩
  have hl1 : p1.line = ln := by rw [← hp1]; exact hline
  have hi1 : p1.i = 0 := by rw [← hp1]; exact r5
  have hnt : (p1.state == stateDescendTerminated) = false := by rw [hS1.state]; rfl
  simp only [hnt, Bool.false_eq_true, if_false]
  unfold openNewBlocks
  have hne1 : p1.line.isEmpty = false := by rw [hl1]; cases ln with | nil => exact absurd rfl hne | cons _ _ => rfl
  simp only [hne1, Bool.false_eq_true, if_false, if_true]
  have hFL := fl_openingLoop x (p1.line.length + 7) p1 hS1
  rw [show p1.line.length + 7 + 1 = p1.line.length + 8 from rfl] at hFL
  generalize openingLoop x (p1.line.length + 8) p1 = ro at hFL
  cases hFL with
  | same p2 hs2 =>
    simp only [if_true]
    subst hs2
    obtain ⟨k, hk, hkk, hko⟩ := addLineText_S0 x (T p1) hS1.doc hS1.blocks hS1.depth (Or.inl rfl) hS1.ile (by
      show isBlankLine (p1.line.drop p1.i) = false
      rw [hl1, hi1]; exact hb)
    exact FirstOut.single _ k hk (fun _ => Or.inl hkk) (fun h => by omega)
      (fun _ e => by rw [hkk] at e; exact absurd e (by decide))
  | single p2 k hk hkc =>
    simp only [Bool.false_eq_true, if_false]
    have hls1 : p1.lineStart = 0 := by rw [← hp1]; exact r3
    exact FirstOut.single _ k hk (fun h => absurd hkc (by omega)) (fun _ => by rw [hkc, hls1, hl1]; simp)
      (fun h => absurd hkc (by omega))
  | leafC p2 k0 hsl hko hleaf hic =>
    simp only [Bool.false_eq_true, if_false]
    obtain ⟨_, k', hk', hk1, hk2, _⟩ := hsl
    refine FirstOut.single _ k' hk' (fun _ => by unfold PB.kind; rw [hk2]; exact hleaf) (fun h => by omega) ?_
    intro _ e t ht
    obtain ⟨f1, f2, _⟩ := hic (by unfold PB.kind; rw [← hk2]; exact e)
    rw [hk'] at f1
    simp only [List.cons.injEq, and_true] at f1
    rw [f1, f2] at ht; cases ht
  | leafM p2 k0 hsl hko hleaf hic =>
    simp only [if_true]
    have hls1 : p1.lineStart = 0 := by rw [← hp1]; exact r3
    by_cases hkc : k0.kind = BK.indentedCode
    · obtain ⟨f1, f2, f3, f4, f5⟩ := hic hkc
      have hsli : SLI k0 0 ln.length p2 := by
        refine ⟨hsl.1, by rw [f4, hls1], by rw [f5, hl1], by rw [← hl1, ← f5]; exact f3, k0, f1, rfl, rfl, ?_, ?_⟩
        · obtain ⟨_, k', hk', _, _, hk3⟩ := hsl
          rw [f1] at hk'
          simp only [List.cons.injEq, and_true] at hk'
          rw [hk']; exact hk3
        · intro t ht; exact Or.inl ht
      obtain ⟨_, _, _, _, k', hk', hk1, hk2, _, hk4⟩ := hsli.addLineText x hleaf
      refine FirstOut.single _ k' hk' (fun _ => by unfold PB.kind; rw [hk2]; exact hleaf) (fun h => by omega) ?_
      intro _ _ t ht
      rcases hk4 t ht with h | h
      · rw [f2] at h; cases h
      · exact h
    · obtain ⟨_, k', hk', hk1, hk2, _⟩ := hsl.addLineText x hleaf
      exact FirstOut.single _ k' hk' (fun _ => by unfold PB.kind; rw [hk2]; exact hleaf) (fun h => by omega)
        (fun _ e => absurd (by unfold PB.kind; rw [← hk2]; exact e) hkc)
  | cont q kind attrs ht p2 hc hs' hk ha hl =>
    obtain ⟨d1, d2, d3, d4⟩ := hS1.cur hc
    have hkne : kind ≠ BK.listItem := by rcases hk with rfl | rfl <;> decide
    have hnp : ¬ ParaK kind := by rcases hk with rfl | rfl <;> simp [ParaK, BK.blockQuote, BK.list, BK.paragraph, BK.setextHeading]
    -- the first child after the `openBlock`
    have hfirst : ∃ k', (q.openBlock x kind attrs).root.blocks = [k'] ∧ k'.kind = kind := by
      rw [openBlock_eq x q kind attrs (notDesc_of_inOpen hs')]
      obtain ⟨m1, _, _, _⟩ := markMatched_frame q
      have hcdoc : canContain BK.document kind = true := by
        unfold canContain; simp only [BK.document, BK.listItem] at hkne ⊢; simpa using hkne
      have hck : q.markMatched.containerKind = BK.document := by
        rw [containerKind_of_cur m1, containerKind_depth0 d3]; exact d1
      have hloop : LP.openBlockLoop x kind (q.markMatched.depth + 1) q.markMatched = q.markMatched := by
        unfold LP.openBlockLoop; rw [hck, if_pos hcdoc]
      simp only [hloop]
      refine ⟨.mk (attrs { kind := kind, start := q.markMatched.lineStart + q.markMatched.i }) [] [], ?_, ha _⟩
      show (spineModify _ q.markMatched.root q.markMatched.depth).blocks = _
      rw [m1.depth, d3, spineModify_zero, (closeAppend_blocks x _ _ _ _).1, m1.root]
      cases hr : q.root with
      | mk l bs is =>
        rw [hr] at d2
        simp only [PB.blocks] at d2
        subst d2
        rfl
    obtain ⟨k', hk', hkk'⟩ := hfirst
    have hdoc2 : (q.openBlock x kind attrs).root.label.kind = BK.document := by
      have := (lf_openBlock x kind attrs (LF.refl q)) d1
      rw [this.kind]; exact d1
    have finish : ∀ σ' : LP, LF p2 σ' → FirstOut ln σ' := by
      intro σ' hlf
      obtain ⟨h', m', e', _, kf⟩ := ((hl.trans hlf) hdoc2).head k' [] hk'
      refine FirstOut.container σ' h' m' e' ?_
      rcases kf with kf | kf
      · rw [kf, hkk']; exact hk
      · rw [hkk'] at kf; exact absurd kf hnp
    split
    · exact finish _ (lf_addLineText x p2)
    · exact finish _ (LF.refl _)

end CM.Proofs.Rp
