import CM.Proofs.BlocksSpansStarts2
/-
C02, block half — `tryStarts` and `openingLoop`.
-/
namespace CM.Proofs.BSp
open CM CM.Model CM.Gen CM.Proofs.BT

theorem SPre.setState {Q : ParaPred} {x : PExt} {p : LP} (h : SPre Q x p) (s : Nat) : SPre Q x { p with state := s } :=
  ⟨h.mi.setState s, h.below, h.above, h.at_, h.closeL, h.setext⟩

theorem StartPost.of_setState {Q : ParaPred} {p p' : LP} {s : Nat} (h : StartPost Q { p with state := s } p') : StartPost Q p p' :=
  ⟨h.mi, h.src, h.ls, h.line, h.keep, h.chain, h.at0, h.np⟩

theorem StartPost.lineEnd {Q : ParaPred} {p p' : LP} (sp : StartPost Q p p') : lineEnd p' = lineEnd p := by
  simp only [CM.Proofs.BSp.lineEnd, sp.ls, sp.line]

theorem StartPost.pre {Q : ParaPred} {x : PExt} {p p' : LP} (pre : SPre Q x p) (sp : StartPost Q p p') (h1 : p'.state ≤ 1)
    (hat : ChainAt p') : SPre Q x p' :=
  ⟨(sp.keep (Or.inr h1)).1, (sp.keep (Or.inr h1)).2, (sp.chain h1).1, hat,
   by rw [sp.src, sp.ls]; exact pre.closeL, by rw [sp.src, sp.lineEnd]; exact pre.setext⟩

theorem StartPost.trans {Q : ParaPred} {p p' p'' : LP} (sp1 : StartPost Q p p') (h1 : p'.state ≤ 1) (sp2 : StartPost Q p' p'') : StartPost Q p p'' :=
  ⟨sp2.mi, by rw [sp2.src, sp1.src], by rw [sp2.ls, sp1.ls], by rw [sp2.line, sp1.line],
   fun h => by
     rcases h with h | h
     · exact sp2.keep (Or.inl (sp1.np h h1))
     · exact sp2.keep (Or.inr h),
   sp2.chain, sp2.at0, fun h h2 => sp2.np (sp1.np h h1) h2⟩

theorem tryStarts_sp {Q : ParaPred} {x : PExt} : ∀ (fs : List (LP → LP)),
    (∀ f ∈ fs, ∀ q : LP, BT.Inv q → q.state = 0 → SPre Q x q → StartPost Q q (f q)) →
    (∀ f ∈ fs, ∀ q : LP, BT.Inv q → q.state = 0 → SPost q (f q)) →
    ∀ p : LP, BT.Inv p → SPre Q x p → StartPost Q p (tryStarts fs p) := by
  intro fs
  induction fs with
  | nil => intro _ _ p _ pre; exact StartPost.refl pre
  | cons f rest ih =>
    intro hf hf' p h pre
    unfold tryStarts
    simp only []
    have sp := hf f (List.mem_cons_self ..) { p with state := stateOpening } (h.setState _) rfl (pre.setState _)
    have spo := hf' f (List.mem_cons_self ..) { p with state := stateOpening } (h.setState _) rfl
    generalize f { p with state := stateOpening } = p' at sp spo
    split
    · exact sp.of_setState
    · rename_i hne
      have s0 : p'.state = 0 := by
        have := spo.st
        simp only [stateOpenMatched, stateLineConsumed, Bool.or_eq_true, beq_iff_eq, not_or] at hne
        omega
      have pre' : SPre Q x p' := StartPost.pre (pre.setState _) sp (by omega) (sp.at0 s0)
      have r := ih (fun g hg => hf g (List.mem_cons_of_mem _ hg)) (fun g hg => hf' g (List.mem_cons_of_mem _ hg)) p' spo.inv pre'
      exact (sp.trans (by omega) r).of_setState

theorem tryStarts_blockStarts_sp {Q : ParaPred} (x : PExt) (p : LP) (h : BT.Inv p) (pre : SPre Q x p) :
    StartPost Q p (tryStarts (blockStartFns x) p) :=
  tryStarts_sp _ (blockStartFns_sp x) (blockStartFns_post x) p h pre

/-- The spans side of the state entering the opening loop: the chain condition at the container may be replaced by
    "the container accepts lines" (the loop stops immediately then). -/
structure LPre (Q : ParaPred) (x : PExt) (p : LP) : Prop where
  mi : MI Q p
  below : Below Q p
  above : ChainAbove p.lineStart p.depth p.root
  at_ : ChainAt p ∨ AL p
  closeL : CloseParaOK Q x p.source p.lineStart
  setext : SetextOK Q x p.source (lineEnd p)

/-- What the opening loop guarantees. -/
structure OLP (Q : ParaPred) (p : LP) (r : Bool × LP) : Prop where
  mi : MI QT r.2
  src : r.2.source = p.source
  ls : r.2.lineStart = p.lineStart
  line : r.2.line = p.line
  full : r.1 = true ∨ p.containerKind ≠ BK.paragraph → MI Q r.2 ∧ Below Q r.2
  chain : r.1 = true → ChainAbove r.2.lineStart r.2.depth r.2.root ∧ (ChainAt r.2 ∨ AL r.2)

theorem OLP.refl {Q : ParaPred} {x : PExt} {p : LP} (pre : LPre Q x p) (b : Bool) : OLP Q p (b, p) :=
  ⟨pre.mi.toQT, rfl, rfl, rfl, fun _ => ⟨pre.mi, pre.below⟩, fun _ => ⟨pre.above, pre.at_⟩⟩

theorem AL_iff (p : LP) : (!(p.containerKind == BK.paragraph || !acceptsLines p.containerKind)) = true ↔ AL p := by
  simp only [AL, Bool.not_eq_true', Bool.or_eq_false_iff, beq_eq_false_iff_ne, ne_eq, Bool.not_eq_false']
  constructor
  · rintro ⟨h1, h2⟩; exact ⟨h2, h1⟩
  · rintro ⟨h1, h2⟩; exact ⟨h2, h1⟩

theorem openingLoop_sp {Q : ParaPred} (x : PExt) : ∀ (fuel : Nat) (p : LP), BT.Inv p → LPre Q x p →
    OLP Q p (openingLoop x fuel p) := by
  intro fuel
  induction fuel with
  | zero => intro p _ pre; exact OLP.refl pre true
  | succ fuel ih =>
    intro p h pre
    unfold openingLoop
    split
    · exact OLP.refl pre true
    · rename_i hc
      have hnal : ¬ AL p := fun hal => hc ((AL_iff p).mpr hal)
      have hat : ChainAt p := by
        rcases pre.at_ with h' | h'
        · exact h'
        · exact absurd h' hnal
      have pre' : SPre Q x p := ⟨pre.mi, pre.below, pre.above, hat, pre.closeL, pre.setext⟩
      have ts := tryStarts_blockStarts x p h
      have sp := tryStarts_blockStarts_sp x p h pre'
      simp only []
      generalize tryStarts (blockStartFns x) p = p' at ts sp
      split
      · rename_i h1
        have s1 : p'.state = 1 := by simpa [stateOpenMatched] using h1
        have lpre : LPre Q x p' := ⟨(sp.keep (Or.inr (by omega))).1, (sp.keep (Or.inr (by omega))).2, (sp.chain (by omega)).1,
          (sp.chain (by omega)).2, by rw [sp.src, sp.ls]; exact pre.closeL, by rw [sp.src, sp.lineEnd]; exact pre.setext⟩
        have r := ih p' ts.inv lpre
        refine ⟨r.mi, by rw [r.src, sp.src], by rw [r.ls, sp.ls], by rw [r.line, sp.line], ?_, r.chain⟩
        intro hh
        rcases hh with hh | hh
        · exact r.full (Or.inl hh)
        · exact r.full (Or.inr (sp.np hh (by omega)))
      · split
        · refine ⟨sp.mi, sp.src, sp.ls, sp.line, ?_, fun hh => by cases hh⟩
          intro hh
          rcases hh with hh | hh
          · cases hh
          · exact sp.keep (Or.inl hh)
        · rename_i h1 h2
          have s0 : p'.state = 0 := by
            have := ts.st
            simp only [stateOpenMatched, beq_iff_eq] at h1
            simp only [stateLineConsumed, beq_iff_eq] at h2
            omega
          exact ⟨sp.mi, sp.src, sp.ls, sp.line, fun _ => sp.keep (Or.inr (by omega)), fun _ => sp.chain (by omega)⟩

end CM.Proofs.BSp
