import CM.Proofs.CoverageLine2
import CM.Proofs.BlocksSpans
/-
C03, part B — the decidable hypothesis `RefDefCoverOK` about `onCloseParagraph` (the link-reference-definition step), the
contracts it implies, and **`processLine_cover`**: one line of the block phase, from a state whose tree covers every needed
byte before the line, to a tree that covers every needed byte including the line.

`RefDefCoverOK x src L E l is` (Boolean; `L` = start of the line, `E` = end of the line = `|src|`), for an open paragraph
`(l, is)`:
  * closed at `L`, the blocks `onCloseParagraph` returns (definitions + remainder) are well formed (`wfB`, no block left
    open) and cover every needed byte the paragraph's inline children covered;
  * turned into a setext heading (level 1 or 2) and closed at `E`, the same — except that the last block (the orphaned
    underline paragraph) may be open, and then it can itself be closed at `L` in that way.
It is evaluated on every open paragraph of the tree at the start of a line (`opB`).
-/
namespace CM.Proofs.Cov
open CM CM.Model CM.Gen CM.Spec CM.Spec.T CM.Proofs.BT
open CM.Proofs.BSp (ParaPred QT isContainerKind)

/-- Boolean: the blocks `res` cover every needed position of `src` that the inline children `is` cover. -/
def coverB (src : Bytes) (is : List Tree) (res : List PB) : Bool :=
  (List.range src.length).all fun j => !(need (src.getD j 0) && covTs is j) || covPBs res j

theorem coverB_le {src : Bytes} {is : List Tree} {res : List PB} (h : coverB src is res = true) (l : PLabel)
    (hk : l.kind = BK.paragraph) : LeL (NP src) [.mk l [] is] res := by
  intro j hn hc
  rw [covPBs_cons, covPBs_nil, Bool.or_false, covPB_mk_nil] at hc
  have hm : markerCov l j = false := by simp [markerCov, hk, BK.paragraph, BK.listMarker]
  rw [hm, Bool.false_or] at hc
  simp only [coverB, List.all_eq_true, List.mem_range] at h
  have := h j hn.1
  rw [hn.2, hc] at this
  simpa using this

/-- Closing the open paragraph at `L` is fine. -/
def closeOKb (x : PExt) (src : Bytes) (L : Int) : ParaPred := fun l is =>
  (onCloseParagraph x src (.mk { l with stop := L } [] is)).all (wfB QF0) &&
  coverB src is (onCloseParagraph x src (.mk { l with stop := L } [] is))

/-- Turning the open paragraph into a setext heading of level `n` closed at `E` is fine. -/
def setextOKb (x : PExt) (src : Bytes) (L E : Int) (n : Int) : ParaPred := fun l is =>
  (onCloseParagraph x src (.mk { l with kind := BK.setextHeading, n := n, stop := E } [] is)).all (wfB (closeOKb x src L)) &&
  coverB src is (onCloseParagraph x src (.mk { l with kind := BK.setextHeading, n := n, stop := E } [] is))

/-- **The decidable hypothesis about the link-reference-definition step** (see the header). -/
def RefDefCoverOK (x : PExt) (src : Bytes) (L E : Int) : ParaPred := fun l is =>
  closeOKb x src L l is && setextOKb x src L E 1 l is && setextOKb x src L E 2 l is

theorem refDefCoverOK_close {x : PExt} {src : Bytes} {L E : Int} {l : PLabel} {is : List Tree}
    (h : RefDefCoverOK x src L E l is = true) : closeOKb x src L l is = true := by
  simp only [RefDefCoverOK, Bool.and_eq_true] at h
  exact h.1.1

theorem paraClose_of_closeOK {Q Q' : ParaPred} (x : PExt) (src : Bytes) (L : Int)
    (hq : ∀ l is, Q l is = true → closeOKb x src L l is = true) : ParaClose Q Q' x src L := by
  intro l is _ hk hQ
  have h := hq l is hQ
  simp only [closeOKb, Bool.and_eq_true, List.all_eq_true] at h
  exact ⟨fun c hc => WF.ofQF0 (h.1 c hc), coverB_le h.2 l hk⟩

theorem paraClose_close (x : PExt) (src : Bytes) (L : Int) : ParaClose (closeOKb x src L) (closeOKb x src L) x src L :=
  paraClose_of_closeOK x src L (fun _ _ h => h)

theorem paraClose_full (x : PExt) (src : Bytes) (L E : Int) :
    ParaClose (RefDefCoverOK x src L E) (RefDefCoverOK x src L E) x src L :=
  paraClose_of_closeOK x src L (fun _ _ h => refDefCoverOK_close h)

theorem setextClose_full (x : PExt) (src : Bytes) (L E : Int) :
    SetextClose (RefDefCoverOK x src L E) (closeOKb x src L) x src E := by
  intro l is n _ hk hQ hn
  simp only [RefDefCoverOK, Bool.and_eq_true] at hQ
  have h : setextOKb x src L E n l is = true := by
    rcases hn with rfl | rfl
    · exact hQ.1.2
    · exact hQ.2
  simp only [setextOKb, Bool.and_eq_true, List.all_eq_true] at h
  exact ⟨fun c hc => h.1 c hc, coverB_le h.2 l hk⟩

/-! ### the check on a tree -/

mutual
/-- Every open paragraph of the tree satisfies `Q`. -/
def opB (Q : ParaPred) : PB → Bool
  | .mk l bs is => (!decide (l.stop < 0) || l.kind != BK.paragraph || Q l is) && opBL Q bs
def opBL (Q : ParaPred) : List PB → Bool
  | [] => true
  | b :: rest => opB Q b && opBL Q rest
end

theorem opBL_iff (Q : ParaPred) (bs : List PB) : opBL Q bs = true ↔ ∀ b ∈ bs, opB Q b = true := by
  induction bs with
  | nil => simp [opBL]
  | cons b rest ih => simp [opBL, ih]

theorem WF_of_opB {Q : ParaPred} : ∀ b : PB, WF QT b → opB Q b = true → WF Q b := by
  apply PB.ind
  intro l bs is ih h ho
  rw [opB, Bool.and_eq_true, opBL_iff] at ho
  rw [WF_mk] at h ⊢
  refine ⟨h.1, h.2.1, fun hop => ⟨(h.2.2.1 hop).1, fun hk => ?_⟩, fun b hb => ih b hb (h.2.2.2 b hb) (ho.2 b hb)⟩
  have := ho.1
  simp only [Bool.or_eq_true, Bool.not_eq_true', decide_eq_false_iff_not, bne_iff_ne, ne_eq] at this
  rcases this with (h1 | h1) | h1
  · exact absurd hop h1
  · exact absurd hk h1
  · exact h1

/-- Boolean version of `Fresh`. -/
def freshB (x : PExt) (p : LP) : Bool :=
  p.state != 4 ||
    (match spineGet p.root 1 with
     | some c => c.isOpen && (ruleMatch x c.kind { ({ p with depth := 0 + 1 } : LP) with state := stateDescending }).isSome
     | none => false)

theorem fresh_of_freshB {x : PExt} {p : LP} (h : freshB x p = true) : Fresh x p := by
  unfold freshB at h
  rw [Bool.or_eq_true] at h
  rcases h with h | h
  · left; simpa using h
  · right
    unfold Runs
    cases hc : spineGet p.root 1 with
    | none => rw [hc] at h; cases h
    | some c =>
      rw [hc] at h
      simp only [Bool.and_eq_true] at h
      exact ⟨c, rfl, h.1, h.2⟩

/-! ### one line -/

theorem reset_i (p : LP) (source : Bytes) (lineStart : Nat) : (p.reset source lineStart).i = 0 := by
  unfold LP.reset
  rw [updateTab_i]

/-- **One line of the block phase covers its bytes.** `lp` is the line parser before the line (no panic, the root is the
    document block), `source` the new source, `ls` the start of the new line (the line is `source[ls:]`, one line: nothing
    after its first line ending). If the tree is well formed (`WF QT`: shape + nested inline spans), covers every needed
    byte of `source[:ls]`, the decidable check `RefDefCoverOK` holds for its open paragraphs, and the state left by the
    previous line is not mistaken for "line consumed" (`Fresh`), then after `reset` + `processLine` the tree is well
    formed again and **covers every needed byte of `source`** — letters, digits, bytes ≥ 0x80 (and NUL). -/
theorem processLine_cover (x : PExt) (lp : LP) (source : Bytes) (ls : Nat) (hinv : LPInv' lp) (hls : ls ≤ source.length)
    (heol : EolOK (source.drop ls)) (hwf : WF QT lp.root)
    (hcov : ∀ j, j < ls → need (source.getD j 0) = true → covPB lp.root j = true)
    (hchk : opB (RefDefCoverOK x source ls source.length) lp.root = true)
    (hfresh : Fresh x (lp.reset source ls)) :
    Done source ls (processLine x (lp.reset source ls)) := by
  obtain ⟨r1, r2, r3, r4⟩ := BSp.reset_fields lp source ls
  have hi := reset_LPInv lp hinv source ls
  have h : CI (RefDefCoverOK x source ls source.length) source ls True (lp.reset source ls) := by
    refine ⟨hi.toInv, by rw [r4, r2, r3], by rw [r3, r2]; exact hls, by rw [r4]; exact heol, ?_, ?_, r2, r3, fun _ => Or.inr trivial⟩
    · rw [r1]; exact WF_of_opB _ hwf hchk
    · intro j hj hn
      rw [r3, reset_i] at hj
      rw [r1]
      rw [r2] at hn
      exact hcov j (by omega) hn
  have hE : ((ls : Nat) : Int) + (((lp.reset source ls).line.length : Nat) : Int) = ((source.length : Nat) : Int) := by
    rw [r4, List.length_drop]; omega
  apply processLine_C (Q := RefDefCoverOK x source ls source.length) (Q' := closeOKb x source ls) x _ h hfresh
    (fun _ _ h => refDefCoverOK_close h) (paraClose_full x source ls source.length) (paraClose_close x source ls)
  rw [hE]
  exact setextClose_full x source ls source.length

/-- The conclusion, read as a statement about `coverCount`. -/
theorem Done.count {S : Bytes} {L : Nat} {p : LP} (h : Done S L p) (j : Nat) (hj : j < S.length)
    (hn : needsCover (S.getD j 0) = true) : 1 ≤ coverCount (leaves (pbToTree p.root)) j := by
  rw [← covT_iff_count]
  apply h.all j hj
  simp only [need, hn, Bool.true_or]

end CM.Proofs.Cov
