import CM.Proofs.NestOps
import CM.Proofs.QuoteCollect
/-
C09 (nested documents): `CollectInline` on related parsers (port of `QuoteCollect`); the container is not
paragraph-like (a heading, a code block, an HTML block), so `TP G` is not affected.
-/
namespace CM.Proofs.Nest
open CM CM.Model CM.Gen CM.Proofs.BT CM.Proofs.Quote

variable {F : Frame} {E : Env} {G : List Tree → Prop} {k : Nat} {p q : LP}

/-- The windows of the two sources behind corresponding positions of the current line are equal. -/
theorem Sim.suffix (h : Sim F E G k p q) (a : Nat) : E.src'.drop (q.lineStart + k + a) = E.src.drop (p.lineStart + a) := by
  have h1 : q.line.drop k = p.line := h.cur.rest
  rw [h.lineq, h.linep, h.srcp, h.srcq, List.drop_drop] at h1
  rw [← List.drop_drop, ← List.drop_drop (l := E.src), h1]

theorem Sim.srcLen (h : Sim F E G k p q) : E.src.length = p.lineStart + p.line.length := by
  rw [h.linep, List.length_drop, h.srcp]
  have := h.lsp; rw [h.srcp] at this; omega

theorem Sim.srcLen' (h : Sim F E G k p q) : E.src'.length = q.lineStart + k + p.line.length := by
  have := h.cur.len
  rw [h.lineq, List.length_drop, h.srcq] at this
  have h2 := h.lsq; rw [h.srcq] at h2
  rw [h.linep, List.length_drop, h.srcp] at this ⊢
  omega

/-- The label of an inline node `[a, b)` of the current line and of its image. -/
theorem Sim.ilab (h : Sim F E G k p q) (l : Label) {a b : Nat} (hab : a ≤ b) (hb : b ≤ p.line.length)
    {s t s' t' : Int} (hs : s = ((p.lineStart + a : Nat) : Int)) (ht : t = ((p.lineStart + b : Nat) : Int))
    (hs' : s' = ((q.lineStart + k + a : Nat) : Int)) (ht' : t' = ((q.lineStart + k + b : Nat) : Int)) :
    ILab E { l with start := s, stop := t } { l with start := s', stop := t' } := by
  subst hs ht hs' ht'
  have h1 := h.srcLen
  have h2 := h.srcLen'
  refine ⟨rfl, rfl, rfl, rfl, rfl, rfl, rfl, ?_, ?_, ?_, ?_, ?_, h.here a (by omega), h.here b hb, ?_, ?_⟩
  · show (0 : Int) ≤ ((p.lineStart + a : Nat) : Int); omega
  · show ((p.lineStart + a : Nat) : Int) ≤ ((p.lineStart + b : Nat) : Int); omega
  · show ((p.lineStart + b : Nat) : Int) ≤ _; omega
  · show (0 : Int) ≤ ((q.lineStart + k + a : Nat) : Int); omega
  · show ((q.lineStart + k + b : Nat) : Int) ≤ _; omega
  · show ((q.lineStart + k + b : Nat) : Int) - ((q.lineStart + k + a : Nat) : Int) = ((p.lineStart + b : Nat) : Int) - ((p.lineStart + a : Nat) : Int)
    omega
  · show (E.src'.drop ((q.lineStart + k + a : Nat) : Int).toNat).take _ = (E.src.drop ((p.lineStart + a : Nat) : Int).toNat).take _
    rw [Int.toNat_natCast, Int.toNat_natCast, h.suffix a]

theorem Sim.inode (h : Sim F E G k p q) (l : Label) {a b : Nat} (hab : a ≤ b) (hb : b ≤ p.line.length)
    {s t s' t' : Int} (hs : s = ((p.lineStart + a : Nat) : Int)) (ht : t = ((p.lineStart + b : Nat) : Int))
    (hs' : s' = ((q.lineStart + k + a : Nat) : Int)) (ht' : t' = ((q.lineStart + k + b : Nat) : Int))
    {cs cs' : List Tree} (hc : L2 (IR E) cs cs') (hn : ∀ c ∈ cs, s ≤ c.label.start) :
    IR E (.node { l with start := s, stop := t } cs) (.node { l with start := s', stop := t' } cs') := by
  rw [IR_iff]
  exact ⟨h.ilab l hab hb hs ht hs' ht', hc, hn⟩


/-- The children of an info string, on related parsers: positions `lineStart + a + ·`. -/
theorem infoStringLoop_rel (h : Sim F E G k p q) (ext : Ext) (a n : Nat) (hn : a + n ≤ p.line.length)
    (fuel r s : Nat) (hr : r ≤ n + 1) (hs : s ≤ n) :
    L2 (IR E)
      (LP.infoStringLoop ext E.src (p.lineStart + a + n) fuel (p.lineStart + a + r) (p.lineStart + a + s) [])
      (LP.infoStringLoop ext E.src' (q.lineStart + k + a + n) fuel (q.lineStart + k + a + r) (q.lineStart + k + a + s) []) := by
  apply infoStringLoop_core ext (p.lineStart + a) (q.lineStart + k + a) n (h.suffix a) (by have := h.srcLen; omega) _
    fuel r s [] [] hr hs .nil
  intro kind u v huv hv
  exact h.inode { isBlock := false, kind := kind } (a := a + u) (b := a + v) (by omega) (by omega)
    (by show _ = _; congr 1; omega) (by show _ = _; congr 1; omega) (by show _ = _; congr 1; omega)
    (by show _ = _; congr 1; omega) .nil (fun _ hc => by cases hc)


/-- The optional Indent node. -/
theorem Sim.ciIndent (h : Sim F E G k p q) (hd : 1 ≤ p.depth) (hk : p.containerKind ≠ BK.linkRefDef)
    (hnp : ¬ PKind p.containerKind) :
    Sim F E G k (BG.ciIndent p) (BG.ciIndent q) ∧ (BG.ciIndent p).depth = p.depth ∧
    (BG.ciIndent p).containerKind = p.containerKind ∧ (BG.ciIndent p).lineStart = p.lineStart ∧
    (BG.ciIndent q).lineStart = q.lineStart ∧ (BG.ciIndent p).line = p.line := by
  unfold BG.ciIndent
  rw [h.cur.indent]
  split
  · simp only []
    rw [h.cur.drop]
    have h2 := h.advance (indentLength (p.line.drop p.i))
    have hdep := advance_depth p (indentLength (p.line.drop p.i))
    have hck := advance_containerKind p (indentLength (p.line.drop p.i))
    refine ⟨?_, ?_, ?_, ?_, ?_, ?_⟩
    · apply h2.appendInline (by rw [hdep]; exact hd) (by rw [hck]; exact hk) (by rw [hck]; exact hnp)
      apply h2.inode { isBlock := false, kind := IK.indent, indent := p.indent } (a := p.i) (b := (p.advance (indentLength (p.line.drop p.i))).i)
        (advance_i_ge _ _) h2.cur.ile
      · show ((p.lineStart + p.i : Nat) : Int) = _; rw [advance_lineStart]
      · show (p.advance _).lineStart + ((p.advance _).i : Int) = _; omega
      · show ((q.lineStart + q.i : Nat) : Int) = _; rw [advance_lineStart, h.cur.i]; congr 1; omega
      · show (q.advance _).lineStart + ((q.advance _).i : Int) = _; rw [h2.cur.i]; omega
      · exact .nil
      · intro _ hc; cases hc
    · show (p.advance _).depth = _; exact hdep
    · rw [appendInline_containerKind _ _ h2.treeOK_p]; exact hck
    · show (p.advance _).lineStart = _; exact advance_lineStart _ _
    · show (q.advance _).lineStart = _; exact advance_lineStart _ _
    · show (p.advance _).line = _; exact advance_line _ _
  · exact ⟨h, rfl, rfl, rfl, rfl, rfl⟩

theorem Sim.collectInline {x : PExt} (h : Sim F E G k p q) (hd : 1 ≤ p.depth) (hk : p.containerKind ≠ BK.linkRefDef)
    (hnp : ¬ PKind p.containerKind) (kind n : Nat) : Sim F E G k (p.collectInline x kind n) (q.collectInline x kind n) := by
  by_cases hst : p.state = 4
  · unfold LP.collectInline
    have c1 : (p.state == stateDescendTerminated) = true := by simp [stateDescendTerminated, hst]
    have c2 : (q.state == stateDescendTerminated) = true := by rw [h.cur.state]; exact c1
    rw [if_pos c1, if_pos c2]
    exact h.setPanic _
  · rw [BG.collectInline_eq x p kind n hst, BG.collectInline_eq x q kind n (by rw [h.cur.state]; exact hst)]
    simp only []
    have h1 : Sim F E G k { p with state := mm p.state } { q with state := mm q.state } := by
      rw [h.cur.state]; exact h.setState _
    obtain ⟨h2, hdep, hck, hls, hls', hline⟩ := h1.ciIndent hd hk hnp
    generalize BG.ciIndent { p with state := mm p.state } = p2 at h2 hdep hck hls hls' hline ⊢
    generalize BG.ciIndent { q with state := mm q.state } = q2 at h2 hls' ⊢
    have h3 := h2.advance n
    have hd3 : 1 ≤ (p2.advance n).depth := by rw [advance_depth, hdep]; exact hd
    have hk3 : (p2.advance n).containerKind ≠ BK.linkRefDef := by rw [advance_containerKind, hck]; exact hk
    have hnp3 : ¬ PKind (p2.advance n).containerKind := by rw [advance_containerKind, hck]; exact hnp
    have hile : (p2.advance n).i ≤ (p2.advance n).line.length := h3.cur.ile
    have hge := advance_i_ge p2 n
    have hnode : ∀ (kd : Nat) (cs cs' : List Tree), L2 (IR E) cs cs' →
        (∀ c ∈ cs, ((p2.lineStart + p2.i : Nat) : Int) ≤ c.label.start) →
        IR E (mkInline kd ((p2.lineStart + p2.i : Nat) : Int) (((p2.advance n).lineStart + (p2.advance n).i : Nat) : Int) cs)
          (mkInline kd ((q2.lineStart + q2.i : Nat) : Int) (((q2.advance n).lineStart + (q2.advance n).i : Nat) : Int) cs') := by
      intro kd cs cs' hc hn
      apply h3.inode { isBlock := false, kind := kd } (a := p2.i) (b := (p2.advance n).i) hge hile
      · show _ = _; rw [advance_lineStart]
      · rfl
      · show _ = _; rw [advance_lineStart, h2.cur.i]; congr 1; omega
      · show _ = _; rw [h3.cur.i]; congr 1; omega
      · exact hc
      · exact hn
    split
    · apply h3.appendInline hd3 hk3 hnp3
      refine hnode _ _ _ ?_
        (infoStringLoop_ge x.ext _ _ (p2.lineStart + p2.i) _ _ _ [] (Nat.le_refl _) (Nat.le_refl _) (fun _ hc => by cases hc))
      -- the children of the info string
      have hlen : (p2.advance n).line.length = p2.line.length := by rw [advance_line]
      have e0 := infoStringLoop_rel h2 x.ext p2.i ((p2.advance n).i - p2.i) (by rw [← hlen]; omega)
        ((p2.advance n).lineStart + (p2.advance n).i - (p2.lineStart + p2.i) + 1) 0 0 (by omega) (by omega)
      have e1 : (p2.advance n).lineStart = p2.lineStart := advance_lineStart _ _
      have e2 : (q2.advance n).lineStart = q2.lineStart := advance_lineStart _ _
      have e3 : (q2.advance n).i = (p2.advance n).i + k := h3.cur.i
      have e4 : q2.i = p2.i + k := h2.cur.i
      have a1 : p2.lineStart + p2.i + ((p2.advance n).i - p2.i) = (p2.advance n).lineStart + (p2.advance n).i := by omega
      have a2 : q2.lineStart + k + p2.i + ((p2.advance n).i - p2.i) = (q2.advance n).lineStart + (q2.advance n).i := by omega
      have a3 : q2.lineStart + k + p2.i = q2.lineStart + q2.i := by omega
      have a4 : (q2.advance n).lineStart + (q2.advance n).i - (q2.lineStart + q2.i) =
          (p2.advance n).lineStart + (p2.advance n).i - (p2.lineStart + p2.i) := by omega
      rw [Nat.add_zero, Nat.add_zero, a1, a2, a3] at e0
      rw [advance_source, advance_source, h2.srcp, h2.srcq, a4]
      exact e0
    · exact h3.appendInline hd3 hk3 hnp3 (hnode _ _ _ .nil (fun _ hc => by cases hc))


end CM.Proofs.Nest
