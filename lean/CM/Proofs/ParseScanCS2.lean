import CM.Proofs.ParseScanCS
/-
C02 / C04, inline halves, for the whole of `Parse` — the array surgery of `stripCodeSpanSpace` keeps the chain
(`chain_afterFirst`, `chain_afterLast`).
-/
namespace CM.Proofs.PSc
open CM CM.Model CM.Model.Inl CM.Gen CM.Proofs CM.Proofs.InlH

/-- the first piece with one space taken off -/
def csFirst' (f : CSN) : CSN :=
  if f.kind == IK.indent then { f with indent := f.indent - 1 } else { f with start := f.start + 1 }

def csFirstGone (f : CSN) : Bool :=
  if f.kind == IK.indent then (csFirst' f).indent == 0 else (csFirst' f).len == 0

/-- the last piece with one space taken off -/
def csLast' (l : CSN) : CSN :=
  if l.kind == IK.indent then { l with indent := l.indent - 1 } else { l with stop := l.stop - 1 }

def csLastGone (l : CSN) : Bool :=
  if l.kind == IK.indent then (csLast' l).indent == 0 else (csLast' l).len == 0

theorem len_ne_zero {n : CSN} (h : (n.len == 0) = false) : n.start < n.stop := by
  unfold CSN.len at h
  exact spanLenI_pos (by
    cases hz : spanLenI n.start n.stop with
    | zero => rw [hz] at h; simp at h
    | succ k => omega)

theorem toList_set!_zero (a : Array CSN) (x : CSN) (f : CSN) (rest : List CSN) (h : a.toList = f :: rest) :
    (a.set! 0 x).toList = x :: rest := by
  rw [Array.set!_eq_setIfInBounds, Array.toList_setIfInBounds, h]
  rfl

theorem toList_extract_one (a : Array CSN) (f : CSN) (rest : List CSN) (h : a.toList = f :: rest) :
    (a.extract 1).toList = rest := by
  rw [Array.toList_extract]
  have hs : a.size = rest.length + 1 := by rw [← Array.length_toList, h]; rfl
  rw [h, hs]
  simp

theorem chain_afterFirst {lo hi : Int} {a : Array CSN} (h : CsChain lo hi a) (hsz : 0 < a.size) :
    CsChain lo hi (if csFirstGone a[0]! = true then (a.set! 0 (csFirst' a[0]!)).extract 1 else a.set! 0 (csFirst' a[0]!)) := by
  unfold CsChain at h ⊢
  cases hl : a.toList with
  | nil =>
    have h1 : a.toList.length = a.size := Array.length_toList
    rw [hl] at h1; simp at h1; omega
  | cons f rest =>
    have hf : a[0]! = f := by
      rw [getElem!_pos a 0 hsz]
      have : a.toList[0]? = some f := by rw [hl]; rfl
      rw [Array.getElem?_toList, Array.getElem?_eq_getElem hsz] at this
      exact Option.some.inj this
    rw [hf]
    rw [hl] at h
    obtain ⟨g1, g2, g3, g4, g5⟩ := h
    split
    · rw [toList_extract_one _ (csFirst' f) rest (toList_set!_zero a _ f rest hl)]
      exact g5.mono (by omega) (Int.le_refl _)
    · rename_i hgone
      rw [toList_set!_zero a _ f rest hl]
      unfold csFirstGone at hgone
      unfold csFirst' at hgone ⊢
      by_cases hk : (f.kind == IK.indent) = true
      · simp only [hk, if_true] at hgone ⊢
        exact ⟨g1, g2, g3, g4, g5⟩
      · simp only [hk, if_false, Bool.false_eq_true] at hgone ⊢
        have hlt := len_ne_zero (n := { f with start := f.start + 1 }) (by simpa using hgone)
        simp only [] at hlt
        exact ⟨by simp only []; omega, g2, fun _ => hlt, by simp only []; omega, g5⟩

theorem toList_split_last (a : Array CSN) (hsz : 0 < a.size) :
    a.toList = (a.toList.take (a.size - 1)) ++ [a[a.size - 1]!] := by
  have hlen : a.toList.length = a.size := Array.length_toList
  have h1 : a.toList = a.toList.take (a.size - 1) ++ a.toList.drop (a.size - 1) := (List.take_append_drop _ _).symm
  have h2 : a.toList.drop (a.size - 1) = [a[a.size - 1]!] := by
    rw [List.drop_eq_getElem_cons (by omega)]
    have : a.toList.drop (a.size - 1 + 1) = [] := List.drop_of_length_le (by omega)
    rw [this, getElem!_pos a _ (by omega)]
    simp
  rw [h2] at h1
  exact h1

theorem chain_afterLast {lo hi : Int} {a : Array CSN} (h : CsChain lo hi a) (hsz : 0 < a.size) :
    CsChain lo hi (if csLastGone a[a.size - 1]! = true then (a.set! (a.size - 1) (csLast' a[a.size - 1]!)).extract 0 (a.size - 1)
      else a.set! (a.size - 1) (csLast' a[a.size - 1]!)) := by
  unfold CsChain at h ⊢
  have hsplit := toList_split_last a hsz
  generalize hl : a[a.size - 1]! = l at hsplit
  generalize hi' : a.toList.take (a.size - 1) = init at hsplit
  have hlen : a.toList.length = a.size := Array.length_toList
  have hinit : init.length = a.size - 1 := by rw [← hi', List.length_take]; omega
  rw [hsplit] at h
  obtain ⟨m, hA, hB⟩ := CsChainL_append.1 h
  obtain ⟨g1, g2, g3, g4, g5⟩ := hB
  have g5' : l.stop ≤ hi := g5
  have hset : ∀ x, (a.set! (a.size - 1) x).toList = init ++ [x] := by
    intro x
    rw [Array.set!_eq_setIfInBounds, Array.toList_setIfInBounds, hsplit]
    rw [List.set_append_right _ _ (by omega)]
    simp [hinit]
  split
  · have : ((a.set! (a.size - 1) (csLast' l)).extract 0 (a.size - 1)).toList = init := by
      rw [Array.toList_extract, hset]
      simp [hinit]
    rw [this]
    exact hA.mono (Int.le_refl _) (by omega)
  · rename_i hgone
    rw [hset]
    unfold csLastGone at hgone
    unfold csLast' at hgone ⊢
    refine CsChainL_append.2 ⟨m, hA, ?_⟩
    by_cases hk : (l.kind == IK.indent) = true
    · simp only [hk, if_true] at hgone ⊢
      exact ⟨g1, g2, g3, g4, g5⟩
    · simp only [hk, if_false, Bool.false_eq_true] at hgone ⊢
      have hlt := len_ne_zero (n := { l with stop := l.stop - 1 }) (by simpa using hgone)
      simp only [] at hlt
      exact ⟨g1, g2, fun _ => hlt, by simp only []; omega, by show l.stop - 1 ≤ hi; omega⟩

/-- the same without the size hypothesis (an empty array stays empty) -/
theorem chain_afterLast' {lo hi : Int} {a : Array CSN} (h : CsChain lo hi a) :
    CsChain lo hi (if csLastGone a[a.size - 1]! = true then (a.set! (a.size - 1) (csLast' a[a.size - 1]!)).extract 0 (a.size - 1)
      else a.set! (a.size - 1) (csLast' a[a.size - 1]!)) := by
  by_cases hsz : 0 < a.size
  · exact chain_afterLast h hsz
  · have he : a = #[] := by
      apply Array.eq_empty_of_size_eq_zero; omega
    subst he
    have hle : lo ≤ hi := h.le
    split <;> exact hle

/-- facts about the first piece of a chain -/
theorem chain_first {lo hi : Int} {a : Array CSN} (h : CsChain lo hi a) (hsz : 0 < a.size) :
    lo ≤ (a[0]!).start ∧ ((a[0]!).kind = IK.text ∨ (a[0]!).kind = IK.indent) ∧
      ((a[0]!).kind = IK.text → (a[0]!).start < (a[0]!).stop) ∧ (a[0]!).start ≤ (a[0]!).stop ∧ (a[0]!).stop ≤ hi := by
  unfold CsChain at h
  cases hl : a.toList with
  | nil =>
    have h1 : a.toList.length = a.size := Array.length_toList
    rw [hl] at h1; simp at h1; omega
  | cons f rest =>
    have hf : a[0]! = f := by
      rw [getElem!_pos a 0 hsz]
      have : a.toList[0]? = some f := by rw [hl]; rfl
      rw [Array.getElem?_toList, Array.getElem?_eq_getElem hsz] at this
      exact Option.some.inj this
    rw [hf]
    rw [hl] at h
    obtain ⟨g1, g2, g3, g4, g5⟩ := h
    exact ⟨g1, g2, g3, g4, g5.le⟩

/-- facts about the last piece of a chain -/
theorem chain_last {lo hi : Int} {a : Array CSN} (h : CsChain lo hi a) (hsz : 0 < a.size) :
    lo ≤ (a[a.size - 1]!).start ∧ ((a[a.size - 1]!).kind = IK.text ∨ (a[a.size - 1]!).kind = IK.indent) ∧
      ((a[a.size - 1]!).kind = IK.text → (a[a.size - 1]!).start < (a[a.size - 1]!).stop) ∧
      (a[a.size - 1]!).start ≤ (a[a.size - 1]!).stop ∧ (a[a.size - 1]!).stop ≤ hi := by
  unfold CsChain at h
  rw [toList_split_last a hsz] at h
  obtain ⟨m, hA, g1, g2, g3, g4, g5⟩ := CsChainL_append.1 h
  have := hA.le
  exact ⟨by omega, g2, g3, g4, g5⟩

end CM.Proofs.PSc
