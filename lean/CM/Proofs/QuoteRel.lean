import CM.Proofs.QuoteCursor
import CM.Model.Stream
/-
C09 (block-quote half): the relation between the tree a document `D` is parsed into and the contents of the block
quote that `quote D` is parsed into.

* `L2 R` — two lists related element by element.
* `Env` — how positions correspond (`PR a a'`: position `a` of the bare document corresponds to position `a'` of the
  prefixed one), the two sources, and the relation `DR` between the inline children of corresponding link reference
  definitions (these are produced by `onCloseParagraph`, which reads the paragraph through the line-jumping reader; the
  block-structure simulation is parametric in it).
* `IR E t t'` — inline nodes: same kind and attributes, corresponding ends, the same length and *the same bytes*.
* `BR E b b'` — blocks under construction: same kind and attributes (including the blank-line flag that decides list
  looseness), corresponding ends, both open or both closed, children related.
-/
namespace CM.Proofs.Quote
open CM CM.Model CM.Gen

/-! ### lists related element by element -/

inductive L2 {α β : Type} (R : α → β → Prop) : List α → List β → Prop
  | nil : L2 R [] []
  | cons {a : α} {b : β} {as : List α} {bs : List β} : R a b → L2 R as bs → L2 R (a :: as) (b :: bs)

namespace L2
variable {α β : Type} {R : α → β → Prop}

theorem length_eq {as : List α} {bs : List β} (h : L2 R as bs) : as.length = bs.length := by
  induction h with
  | nil => rfl
  | cons _ _ ih => simp [ih]

theorem nil_left {bs : List β} (h : L2 R [] bs) : bs = [] := by cases h; rfl
theorem nil_right {as : List α} (h : L2 R as []) : as = [] := by cases h; rfl

theorem nil_iff {as : List α} {bs : List β} (h : L2 R as bs) : as = [] ↔ bs = [] := by
  cases h <;> simp

theorem cons_iff {a : α} {b : β} {as : List α} {bs : List β} : L2 R (a :: as) (b :: bs) ↔ R a b ∧ L2 R as bs :=
  ⟨fun h => by cases h; exact ⟨‹_›, ‹_›⟩, fun h => .cons h.1 h.2⟩

theorem append {as as2 : List α} {bs bs2 : List β} (h : L2 R as bs) (h2 : L2 R as2 bs2) : L2 R (as ++ as2) (bs ++ bs2) := by
  induction h with
  | nil => exact h2
  | cons r _ ih => exact .cons r ih

theorem single {a : α} {b : β} (h : R a b) : L2 R [a] [b] := .cons h .nil

theorem concat {as : List α} {bs : List β} {a : α} {b : β} (h : L2 R as bs) (r : R a b) : L2 R (as ++ [a]) (bs ++ [b]) :=
  h.append (single r)

theorem mono {S : α → β → Prop} {as : List α} {bs : List β} (h : L2 R as bs) (hs : ∀ a b, a ∈ as → b ∈ bs → R a b → S a b) :
    L2 S as bs := by
  induction h with
  | nil => exact .nil
  | cons r _ ih =>
    exact .cons (hs _ _ (List.mem_cons_self ..) (List.mem_cons_self ..) r)
      (ih fun a b ha hb => hs a b (List.mem_cons_of_mem _ ha) (List.mem_cons_of_mem _ hb))

/-- Splitting off the last elements. -/
theorem snoc_inv {as : List α} {a : α} {bs : List β} (h : L2 R (as ++ [a]) bs) :
    ∃ bs0 b, bs = bs0 ++ [b] ∧ L2 R as bs0 ∧ R a b := by
  induction as generalizing bs with
  | nil =>
    cases h with
    | cons r t => cases t; exact ⟨[], _, rfl, .nil, r⟩
  | cons x t ih =>
    cases h with
    | cons r tl =>
      obtain ⟨bs0, b, e, h1, h2⟩ := ih tl
      exact ⟨_ :: bs0, b, by rw [e]; rfl, .cons r h1, h2⟩

/-- The last elements correspond; so do the lists without them. -/
theorem last {as : List α} {bs : List β} (h : L2 R as bs) :
    (as = [] ∧ bs = []) ∨
    ∃ as0 a bs0 b, as = as0 ++ [a] ∧ bs = bs0 ++ [b] ∧ L2 R as0 bs0 ∧ R a b := by
  by_cases hne : as = []
  · left; exact ⟨hne, (h.nil_iff).mp hne⟩
  · right
    have e := (List.dropLast_concat_getLast hne).symm
    rw [e] at h
    obtain ⟨bs0, b, e2, h1, h2⟩ := h.snoc_inv
    exact ⟨_, _, bs0, b, e, e2, h1, h2⟩

theorem reverse {as : List α} {bs : List β} (h : L2 R as bs) : L2 R as.reverse bs.reverse := by
  induction h with
  | nil => exact .nil
  | cons r _ ih => simp only [List.reverse_cons]; exact ih.concat r

theorem drop {as : List α} {bs : List β} (h : L2 R as bs) (n : Nat) : L2 R (as.drop n) (bs.drop n) := by
  induction n generalizing as bs with
  | zero => exact h
  | succ n ih =>
    cases h with
    | nil => exact .nil
    | cons _ t => exact ih t

theorem map_left {γ : Type} {S : γ → β → Prop} (f : α → γ) {as : List α} {bs : List β} (h : L2 R as bs)
    (hs : ∀ a b, R a b → S (f a) b) : L2 S (as.map f) bs := by
  induction h with
  | nil => exact .nil
  | cons r _ ih => exact .cons (hs _ _ r) ih

theorem map₂ {γ δ : Type} {S : γ → δ → Prop} (f : α → γ) (g : β → δ) {as : List α} {bs : List β} (h : L2 R as bs)
    (hs : ∀ a b, R a b → S (f a) (g b)) : L2 S (as.map f) (bs.map g) := by
  induction h with
  | nil => exact .nil
  | cons r _ ih => exact .cons (hs _ _ r) ih

end L2

theorem getLast?_concat' {α : Type} (l : List α) (a : α) : (l ++ [a]).getLast? = some a := by simp
theorem dropLast_concat' {α : Type} (l : List α) (a : α) : (l ++ [a]).dropLast = l := by simp

/-! ### the environment -/

structure Env where
  /-- corresponding positions -/
  PR : Int → Int → Prop
  /-- the source of the bare document's parser -/
  src : Bytes
  /-- the source of the prefixed document's parser -/
  src' : Bytes
  /-- inline children of corresponding link reference definitions -/
  DR : List Tree → List Tree → Prop
  /-- the trees of the blocks of the prefixed side that correspond to root blocks already delivered on the bare side -/
  done : List Tree := []

/-- The sources have grown, nothing else has changed. -/
structure Env.le (E F : Env) : Prop where
  PR : F.PR = E.PR
  src : E.src <+: F.src
  src' : E.src' <+: F.src'
  DR : ∀ a b, E.DR a b → F.DR a b

theorem Env.le_refl (E : Env) : E.le E := ⟨rfl, List.prefix_refl _, List.prefix_refl _, fun _ _ h => h⟩

/-! ### inline nodes -/

/-- Labels of corresponding inline nodes. -/
structure ILab (E : Env) (l l' : Label) : Prop where
  isBlock : l'.isBlock = l.isBlock
  kind : l'.kind = l.kind
  n : l'.n = l.n
  char : l'.char = l.char
  loose : l'.loose = l.loose
  indent : l'.indent = l.indent
  ref : l'.ref = l.ref
  lo : 0 ≤ l.start
  le : l.start ≤ l.stop
  hi : l.stop ≤ (E.src.length : Int)
  lo' : 0 ≤ l'.start
  hi' : l'.stop ≤ (E.src'.length : Int)
  start : E.PR l.start l'.start
  stop : E.PR l.stop l'.stop
  len : l'.stop - l'.start = l.stop - l.start
  bytes : (E.src'.drop l'.start.toNat).take (l.stop - l.start).toNat = (E.src.drop l.start.toNat).take (l.stop - l.start).toNat

mutual
/-- Corresponding inline nodes; on the bare side the children start at or after their parent (a fact about that side
    alone, kept here so that re-basing the positions after a root block has been cut off preserves the relation). -/
def IR (E : Env) : Tree → Tree → Prop
  | .node l cs, t' => ILab E l t'.label ∧ IRs E cs t'.children ∧ ∀ c ∈ cs, l.start ≤ c.label.start
def IRs (E : Env) : List Tree → List Tree → Prop
  | [], ts' => ts' = []
  | t :: ts, ts' => ∃ t' r', ts' = t' :: r' ∧ IR E t t' ∧ IRs E ts r'
end

theorem IRs_iff (E : Env) : ∀ (ts ts' : List Tree), IRs E ts ts' ↔ L2 (IR E) ts ts' := by
  intro ts
  induction ts with
  | nil =>
    intro ts'
    simp only [IRs]
    exact ⟨fun h => by subst h; exact .nil, fun h => h.nil_left⟩
  | cons t rest ih =>
    intro ts'
    simp only [IRs]
    constructor
    · rintro ⟨t', r', rfl, h1, h2⟩
      exact .cons h1 ((ih r').mp h2)
    · intro h
      cases h with
      | cons h1 h2 => exact ⟨_, _, rfl, h1, (ih _).mpr h2⟩

theorem IR_iff (E : Env) (t t' : Tree) : IR E t t' ↔ ILab E t.label t'.label ∧ L2 (IR E) t.children t'.children ∧
    ∀ c ∈ t.children, t.label.start ≤ c.label.start := by
  cases t with
  | node l cs => simp only [IR, IRs_iff]; rfl

theorem IR.label {E : Env} {t t' : Tree} (h : IR E t t') : ILab E t.label t'.label := ((IR_iff E t t').mp h).1
theorem IR.children {E : Env} {t t' : Tree} (h : IR E t t') : L2 (IR E) t.children t'.children := ((IR_iff E t t').mp h).2.1
theorem IR.nest {E : Env} {t t' : Tree} (h : IR E t t') : ∀ c ∈ t.children, t.label.start ≤ c.label.start :=
  ((IR_iff E t t').mp h).2.2

theorem take_prefix {a b : Bytes} (h : a <+: b) {s n : Nat} (hb : s + n ≤ a.length) :
    (b.drop s).take n = (a.drop s).take n := by
  obtain ⟨t, rfl⟩ := h
  rw [List.drop_append_of_le_length (by omega), List.take_append_of_le_length (by rw [List.length_drop]; omega)]

theorem ILab.mono {E F : Env} (hle : E.le F) {l l' : Label} (h : ILab E l l') : ILab F l l' := by
  have h1 := hle.src.length_le
  have h2 := hle.src'.length_le
  refine ⟨h.isBlock, h.kind, h.n, h.char, h.loose, h.indent, h.ref, h.lo, h.le, by have := h.hi; omega, h.lo',
    by have := h.hi'; omega, by rw [hle.PR]; exact h.start, by rw [hle.PR]; exact h.stop, h.len, ?_⟩
  have := h.hi; have := h.hi'; have := h.lo; have := h.lo'; have := h.le; have := h.len
  rw [take_prefix hle.src (by omega), take_prefix hle.src' (by omega)]
  exact h.bytes

theorem IR.mono {E F : Env} (hle : E.le F) : ∀ (t t' : Tree), IR E t t' → IR F t t'
  | .node l cs, t', h => by
    rw [IR_iff] at h ⊢
    refine ⟨h.1.mono hle, ?_, h.2.2⟩
    exact monoL cs t'.children h.2.1
where
  monoL : ∀ (cs cs' : List Tree), L2 (IR E) cs cs' → L2 (IR F) cs cs'
    | [], _, h => by cases h; exact .nil
    | c :: cs, _, h => by
      cases h with
      | cons h1 h2 => exact .cons (IR.mono hle c _ h1) (monoL cs _ h2)

/-- The accessor view of corresponding nodes: the same slice of the respective source. -/
theorem IR.slice {E : Env} {t t' : Tree} (h : IR E t t') : Node.slice E.src' t' = Node.slice E.src t := by
  have hl := h.label
  have v : Node.spanValid t = true := by
    simp only [Node.spanValid, Bool.and_eq_true, decide_eq_true_eq]
    have := hl.lo; have := hl.le
    exact ⟨⟨by omega, by omega⟩, by omega⟩
  have v' : Node.spanValid t' = true := by
    simp only [Node.spanValid, Bool.and_eq_true, decide_eq_true_eq]
    have := hl.lo; have := hl.le; have := hl.lo'; have := hl.len
    exact ⟨⟨by omega, by omega⟩, by omega⟩
  simp only [Node.slice, v, v', if_true]
  rw [hl.len]
  exact hl.bytes

theorem IR.isI {E : Env} {t t' : Tree} (h : IR E t t') (k : Nat) : Node.isI t' k = Node.isI t k := by
  simp only [Node.isI, h.label.isBlock, h.label.kind]

theorem IR.spanLen {E : Env} {t t' : Tree} (h : IR E t t') : Node.spanLen t' = Node.spanLen t := by
  have hl := h.label
  have v : Node.spanValid t = true := by
    simp only [Node.spanValid, Bool.and_eq_true, decide_eq_true_eq]
    have := hl.lo; have := hl.le
    exact ⟨⟨by omega, by omega⟩, by omega⟩
  have v' : Node.spanValid t' = true := by
    simp only [Node.spanValid, Bool.and_eq_true, decide_eq_true_eq]
    have := hl.lo; have := hl.le; have := hl.lo'; have := hl.len
    exact ⟨⟨by omega, by omega⟩, by omega⟩
  simp only [Node.spanLen, v, v', if_true, hl.len]

/-! ### blocks -/

/-- Labels of corresponding blocks. -/
structure LR (E : Env) (l l' : PLabel) : Prop where
  kind : l'.kind = l.kind
  n : l'.n = l.n
  char : l'.char = l.char
  indent : l'.indent = l.indent
  loose : l'.loose = l.loose
  blank : l'.lastLineBlank = l.lastLineBlank
  start : E.PR l.start l'.start
  openIff : l'.stop < 0 ↔ l.stop < 0
  stop : 0 ≤ l.stop → E.PR l.stop l'.stop

/-- Inline children of corresponding blocks (`DR` for link reference definitions). -/
def InlR (E : Env) (kind : Nat) (is is' : List Tree) : Prop :=
  if kind = BK.linkRefDef then E.DR is is' else L2 (IR E) is is'

mutual
def BR (E : Env) : PB → PB → Prop
  | .mk l bs is, b' => LR E l b'.label ∧ BRs E bs b'.blocks ∧ InlR E l.kind is b'.inlines
def BRs (E : Env) : List PB → List PB → Prop
  | [], bs' => bs' = []
  | b :: bs, bs' => ∃ b' r', bs' = b' :: r' ∧ BR E b b' ∧ BRs E bs r'
end

theorem BRs_iff (E : Env) : ∀ (bs bs' : List PB), BRs E bs bs' ↔ L2 (BR E) bs bs' := by
  intro bs
  induction bs with
  | nil =>
    intro bs'
    simp only [BRs]
    exact ⟨fun h => by subst h; exact .nil, fun h => h.nil_left⟩
  | cons b rest ih =>
    intro bs'
    simp only [BRs]
    constructor
    · rintro ⟨b', r', rfl, h1, h2⟩
      exact .cons h1 ((ih r').mp h2)
    · intro h
      cases h with
      | cons h1 h2 => exact ⟨_, _, rfl, h1, (ih _).mpr h2⟩

theorem BR_iff (E : Env) (b b' : PB) :
    BR E b b' ↔ LR E b.label b'.label ∧ L2 (BR E) b.blocks b'.blocks ∧ InlR E b.label.kind b.inlines b'.inlines := by
  cases b with
  | mk l bs is => simp only [BR, BRs_iff]; rfl

theorem BR_mk (E : Env) (l l' : PLabel) (bs bs' : List PB) (is is' : List Tree) :
    BR E (.mk l bs is) (.mk l' bs' is') ↔ LR E l l' ∧ L2 (BR E) bs bs' ∧ InlR E l.kind is is' := BR_iff E _ _

theorem BR.label {E : Env} {b b' : PB} (h : BR E b b') : LR E b.label b'.label := ((BR_iff E b b').mp h).1
theorem BR.blocks {E : Env} {b b' : PB} (h : BR E b b') : L2 (BR E) b.blocks b'.blocks := ((BR_iff E b b').mp h).2.1
theorem BR.inlines {E : Env} {b b' : PB} (h : BR E b b') : InlR E b.label.kind b.inlines b'.inlines :=
  ((BR_iff E b b').mp h).2.2

theorem BR.kind {E : Env} {b b' : PB} (h : BR E b b') : b'.kind = b.kind := h.label.kind

theorem BR.isOpen {E : Env} {b b' : PB} (h : BR E b b') : b'.isOpen = b.isOpen := by
  have := h.label.openIff
  simp only [PB.isOpen]
  by_cases hs : b.label.stop < 0
  · simp [hs, this.mpr hs]
  · have : ¬ b'.label.stop < 0 := fun h' => hs (this.mp h')
    simp [hs, this]

theorem LR.mono {E F : Env} (hle : E.le F) {l l' : PLabel} (h : LR E l l') : LR F l l' :=
  ⟨h.kind, h.n, h.char, h.indent, h.loose, h.blank, by rw [hle.PR]; exact h.start, h.openIff,
    fun h0 => by rw [hle.PR]; exact h.stop h0⟩

theorem InlR.mono {E F : Env} (hle : E.le F) {k : Nat} {is is' : List Tree} (h : InlR E k is is') : InlR F k is is' := by
  unfold InlR at h ⊢
  split
  · rename_i hk; rw [if_pos hk] at h; exact hle.DR _ _ h
  · rename_i hk; rw [if_neg hk] at h
    exact h.mono fun a b _ _ r => IR.mono hle a b r

theorem BR.mono {E F : Env} (hle : E.le F) : ∀ (b b' : PB), BR E b b' → BR F b b'
  | .mk l bs is, b', h => by
    rw [BR_iff] at h ⊢
    exact ⟨h.1.mono hle, monoL bs b'.blocks h.2.1, h.2.2.mono hle⟩
where
  monoL : ∀ (bs bs' : List PB), L2 (BR E) bs bs' → L2 (BR F) bs bs'
    | [], _, h => by cases h; exact .nil
    | b :: bs, _, h => by
      cases h with
      | cons h1 h2 => exact .cons (BR.mono hle b _ h1) (monoL bs _ h2)

end CM.Proofs.Quote
