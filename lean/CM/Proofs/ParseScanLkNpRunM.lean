import CM.Proofs.InlNpRunM
import CM.Proofs.ParseScanLkNpCode

/-
C04, inline half, with `LinkScan2` / `TokScan2` — the tokenizer loop and `parseRun` do not panic.
(Generated from `InlNpRunM.lean`: the same proofs with `LinkScan2` in the place of `LinkScan`.)
-/

namespace CM.Proofs.InlH2
open CM CM.Model CM.Model.Inl CM.Gen CM.Spec CM.Proofs CM.Proofs.InlH
open Std.Do

set_option mvcgen.warning false

theorem tokB_np (L : Lims) (c : ICtx) (hU : UnpOK c L) (hT : TokScan2 c L.hi) (hN : TokNP c) (hA : L.hi ≤ c.srcA.size)
    (s : IState) (b : UInt8) (pos plainStart : Int) (done : Bool)
    (hb : 0 ≤ pos ∧ pos < c.srcA.size ∧ b = c.srcA[pos.toNat]!) :
    ⦃fun st => ⌜st = s ∧ RunInv L c (pos, plainStart, done) s ∧ s.unparsedPos < c.unparsed.size ∧
        pos < spanEndOf c s⌝⦄
    tokB c s b pos plainStart done
    ⦃⇓! r st => ⌜RunInv L c r.value st⌝⦄ := by
  unfold tokB
  split
  · exact tokSp_np L c hU hA s pos plainStart done
  · split
    · rename_i h60
      exact tokCode_np L c hU hT hN s pos plainStart done ⟨hb.1, hb.2.1, by rw [← hb.2.2]; simpa using h60⟩
    · split
      · rename_i h3c
        exact tokLt_np L c hU hT hA s pos plainStart done ⟨hb.1, hb.2.1, by rw [← hb.2.2]; simpa using h3c⟩
      · exact tokC_np L c hU hT hA s b pos plainStart done

@[spec 31000]
theorem tokA_np (L : Lims) (c : ICtx) (hU : UnpOK c L) (hT : TokScan2 c L.hi) (hS : LinkScan2 c L.hi)
    (hA : L.hi ≤ c.srcA.size) (s : IState)
    (b : UInt8) (pos plainStart : Int) (done : Bool)
    (hB : ∀ s,
      ⦃fun st => ⌜st = s ∧ RunInv L c (pos, plainStart, done) s ∧ s.unparsedPos < c.unparsed.size ∧
          pos < spanEndOf c s⌝⦄
      tokB c s b pos plainStart done
      ⦃⇓! r st => ⌜RunInv L c r.value st⌝⦄) :
    ⦃fun st => ⌜st = s ∧ RunInv L c (pos, plainStart, done) s ∧ s.unparsedPos < c.unparsed.size ∧
        pos < spanEndOf c s⌝⦄
    tokA c s b pos plainStart done
    ⦃⇓! r st => ⌜RunInv L c r.value st⌝⦄ := by
  mvcgen [tokA, addText, alloc, addToRoot, nodeLen, getNode, setParent, modifyNode, pushStack, hB, -addToRoot_spec, 
    -addToRoot_specS, -CM.Proofs.InlH2.tokA_specP, -addLeaf_np1, -CM.Proofs.InlH.refPart_specP, 
    -CM.Proofs.InlH.parseEndBracket_specP, -CM.Proofs.InlH.tokC_specP, -CM.Proofs.InlH.tokA_specP, 
    -CM.Proofs.InlH.tokCode_specP, -CM.Proofs.InlH.tokLt_specP, -CM.Proofs.InlH.runBody_specP, 
    -CM.Proofs.InlH.refPart_np, -CM.Proofs.InlH.parseEndBracket_np, -CM.Proofs.InlH.tokC_np, 
    -CM.Proofs.InlH.tokCode_np, -CM.Proofs.InlH.tokLt_np, -CM.Proofs.InlH.tokA_np, -CM.Proofs.InlH.runBody_np, 
    -CM.Proofs.InlH.parseRun_np]
  all_goals (try (exact fun h => h))
  all_goals (try (exact ExceptConds.entails.refl _))
  all_goals (try (exact hU.arr))
  all_goals (try assumption)
  all_goals tok_setup
  -- the dead branch of `addToRoot` (the new node is not empty)
  all_goals (try (
    exfalso
    have h2 := ‹(spanLenI _ _ == 0) = true›
    rw [get!_push_eq] at h2
    dsimp only at h2
    have := spanLen_zero h2 (by omega)
    omega))
  all_goals unp_norm
  all_goals (first
    | (refine ⟨trivial, fun _ => ⟨?_, ?_⟩⟩ <;> omega)
    | (refine ⟨trivial, ?_, ?_⟩
       · first | assumption | (apply SP.mono; assumption; omega; omega)
       · omega)
    | (refine ⟨trivial, ?_, ?_, ?_⟩
       · first | assumption | (apply SP.mono; assumption; omega; omega)
       · omega
       · omega)
    | (refine ⟨trivial, ?_, ?_, ?_, ?_⟩
       · first | assumption | (apply SP.mono; assumption; omega; omega)
       · omega
       · omega
       · omega)
    | (refine ⟨?_, ?_, ?_⟩
       · first | assumption | (apply SP.mono; assumption; omega; omega)
       · omega
       · intro _; omega)
    | (refine ⟨?_, by omega, ?_⟩
       · exact SP.congr (SP.pushLeaf (SP.mono (F' := pos) ‹SPT _ _ (max _ _) _› (by omega) (by omega))
           { kind := IK.text, start := pos, stop := _ } rfl (Int.le_refl _) (by dsimp only; omega)
           (by dsimp only; omega) rfl _) rfl rfl rfl
       · intro _; omega)
    )

/-- One iteration of the tokenizer loop. -/
@[spec 31000]
theorem runBody_np (L : Lims) (c : ICtx) (hU : UnpOK c L) (hT : TokScan2 c L.hi) (hS : LinkScan2 c L.hi) (hN : TokNP c)
    (hA : L.hi ≤ c.srcA.size) (x : Nat) (st : TokSt) :
    ⦃fun s => ⌜RunInv L c st s⌝⦄ runBody c x st ⦃⇓! r s => ⌜RunInv L c r.value s⌝⦄ := by
  mvcgen [runBody, tokA_np, -CM.Proofs.InlH2.runBody_specP, -CM.Proofs.InlH2.tokA_specP, 
    -CM.Proofs.InlH.refPart_specP, -CM.Proofs.InlH.parseEndBracket_specP, -CM.Proofs.InlH.tokC_specP, 
    -CM.Proofs.InlH.tokA_specP, -CM.Proofs.InlH.tokCode_specP, -CM.Proofs.InlH.tokLt_specP, 
    -CM.Proofs.InlH.runBody_specP, -CM.Proofs.InlH.refPart_np, -CM.Proofs.InlH.parseEndBracket_np, 
    -CM.Proofs.InlH.tokC_np, -CM.Proofs.InlH.tokCode_np, -CM.Proofs.InlH.tokLt_np, -CM.Proofs.InlH.tokA_np, 
    -CM.Proofs.InlH.runBody_np, -CM.Proofs.InlH.parseRun_np]
  all_goals (try (intros; assumption))
  · -- the byte read is inside the source
    have hg := ‹¬(!(decide _ && decide _)) = true›
    simp only [Bool.not_eq_true', Bool.not_eq_false', Bool.and_eq_true, decide_eq_true_eq, Bool.not_eq_false] at hg
    obtain ⟨h1, h2, -⟩ := ‹RunInv _ _ _ _›
    have := hU.se_le hg.1
    have := h1.lo_le
    have := L.nn
    exact ⟨trivial, by omega, by omega⟩
  · -- the precondition of `tokA`
    have hg := ‹¬(!(decide _ && decide _)) = true›
    simp only [Bool.not_eq_true', Bool.not_eq_false', Bool.and_eq_true, decide_eq_true_eq, Bool.not_eq_false] at hg
    inl_subst
    exact ⟨rfl, ‹RunInv _ _ _ _›, hg.1, hg.2⟩
  · -- the specification of `tokB`
    intro s hs h1 h2 h3
    obtain ⟨-, b1, b2, b3⟩ := ‹_ = _ ∧ (0 : Int) ≤ _ ∧ _ ∧ _›
    exact tokB_np L c hU hT hN hA _ _ _ _ _ ⟨b1, b2, b3⟩ s ⟨hs, h1, h2, h3⟩

/-- `parseRun` from the tokenizer loop on. -/
theorem runMain_np (L : Lims) (c : ICtx) (hU : UnpOK c L) (hT : TokScan2 c L.hi) (hS : LinkScan2 c L.hi) (hN : TokNP c)
    (hA : L.hi ≤ c.srcA.size) (pos : Int) :
    ⦃fun s => ⌜SPT L.lo L.hi pos s ∧ PosOK c s pos⌝⦄ runMain c pos
    ⦃⇓! _ s => ⌜∃ F, SPT L.lo L.hi F s ∧ PosOK c s F⌝⦄ := by
  mvcgen [runMain, setIgnoreNextIndent, spanEnd, addText, -CM.Proofs.InlH2.runBody_specP, -addLeaf_np1, 
    -CM.Proofs.InlH.refPart_specP, -CM.Proofs.InlH.parseEndBracket_specP, -CM.Proofs.InlH.tokC_specP, 
    -CM.Proofs.InlH.tokA_specP, -CM.Proofs.InlH.tokCode_specP, -CM.Proofs.InlH.tokLt_specP, 
    -CM.Proofs.InlH.runBody_specP, -CM.Proofs.InlH.refPart_np, -CM.Proofs.InlH.parseEndBracket_np, 
    -CM.Proofs.InlH.tokC_np, -CM.Proofs.InlH.tokCode_np, -CM.Proofs.InlH.tokLt_np, -CM.Proofs.InlH.tokA_np, 
    -CM.Proofs.InlH.runBody_np, -CM.Proofs.InlH.parseRun_np]
  case inv1 => exact PostCond.np (fun (q : _ × TokSt) s => ⌜RunInv L c q.2 s⌝)
  np_norm
  all_goals (try (intros; assumption))
  all_goals (try (exact fun h => h))
  all_goals (try (exact ExceptConds.entails.refl _))
  · intro s h
    cases ‹ForInStep TokSt› <;> exact h
  · obtain ⟨h1, h2⟩ := ‹SPT _ _ _ _ ∧ _›
    exact ⟨h1.congr rfl rfl rfl, Int.le_refl _, h2⟩
  · obtain ⟨h1, h2, h3⟩ := ‹RunInv _ _ _ _›
    exact ⟨trivial, h1, hU.se_le' _ (by have := h1.lo_le; have := h1.F_le; omega)⟩
  · intro hq hq2 _
    obtain ⟨h1, h2, h3⟩ := ‹RunInv _ _ _ _›
    refine ⟨_, hq, ?_⟩
    intro hlt
    rw [hq2] at hlt ⊢
    have := h3 hlt
    rw [spanEndOf_lt c _ hlt]
    omega

theorem parseRun'_np (L : Lims) (c : ICtx) (hU : UnpOK c L) (hT : TokScan2 c L.hi) (hS : LinkScan2 c L.hi) (hN : TokNP c)
    (hA : L.hi ≤ c.srcA.size) (s0 : IState) :
    ⦃fun s => ⌜s = s0 ∧ SPT L.lo L.hi (c.unparsed[s0.unparsedPos]!).label.start s ∧
        s0.unparsedPos < c.unparsed.size⌝⦄
    parseRun' c
    ⦃⇓! _ s => ⌜∃ F, SPT L.lo L.hi F s ∧ PosOK c s F⌝⦄ := by
  mvcgen [parseRun', spanEnd, runMain_np, -CM.Proofs.InlH.refPart_specP, -CM.Proofs.InlH.parseEndBracket_specP, 
    -CM.Proofs.InlH.tokC_specP, -CM.Proofs.InlH.tokA_specP, -CM.Proofs.InlH.tokCode_specP, 
    -CM.Proofs.InlH.tokLt_specP, -CM.Proofs.InlH.runBody_specP, -CM.Proofs.InlH.refPart_np, 
    -CM.Proofs.InlH.parseEndBracket_np, -CM.Proofs.InlH.tokC_np, -CM.Proofs.InlH.tokCode_np, 
    -CM.Proofs.InlH.tokLt_np, -CM.Proofs.InlH.tokA_np, -CM.Proofs.InlH.runBody_np, -CM.Proofs.InlH.parseRun_np]
  case inv1 =>
    exact PostCond.np (fun (q : _ × Int) s =>
      ⌜s = s0 ∧ (c.unparsed[s0.unparsedPos]!).label.start ≤ q.2 ∧ q.2 ≤ spanEndOf c s0⌝)
  np_norm
  all_goals (try (intros; assumption))
  all_goals (try (exact fun h => h))
  all_goals (try (exact ExceptConds.entails.refl _))
  · obtain ⟨rfl, -, hu⟩ := ‹_ = s0 ∧ SPT _ _ _ _ ∧ _›
    exact ⟨trivial, hu⟩
  · obtain ⟨rfl, hsp, hu⟩ := ‹_ = s0 ∧ SPT _ _ _ _ ∧ _›
    obtain ⟨rfl, h1, h2⟩ := ‹_ = _ ∧ _ ≤ _ ∧ _›
    have hg := ‹¬(!decide (_ < _)) = true›
    simp only [Bool.not_eq_true', Bool.not_eq_false', decide_eq_true_eq, Bool.not_eq_false] at hg
    have := hU.se_le hu
    have := (hU.bounds _ hu).1
    have := L.nn
    exact ⟨trivial, by omega, by omega⟩
  · obtain ⟨rfl, h⟩ := ‹_ = s0 ∧ _ ≤ _ ∧ _›
    obtain ⟨rfl, -⟩ := ‹_ = _ ∧ (0 : Int) ≤ _ ∧ _›
    exact ⟨rfl, h⟩
  · obtain ⟨rfl, h1, h2⟩ := ‹_ = s0 ∧ _ ≤ _ ∧ _›
    obtain ⟨rfl, -⟩ := ‹_ = _ ∧ (0 : Int) ≤ _ ∧ _›
    have hg := ‹¬(!decide (_ < _)) = true›
    simp only [Bool.not_eq_true', Bool.not_eq_false', decide_eq_true_eq, Bool.not_eq_false] at hg
    refine ⟨rfl, ?_, ?_⟩
    · show _ ≤ _ + 1; omega
    · show _ + 1 ≤ _; omega
  · obtain ⟨rfl, hsp, hu⟩ := ‹_ = s0 ∧ SPT _ _ _ _ ∧ _›
    obtain ⟨rfl, hr⟩ := ‹_ = _ ∧ _[_]? = some _›
    have e := get!_of_get? hr
    refine ⟨rfl, ?_, ?_⟩
    · show _ ≤ (Tree.label _).start; rw [e]; exact Int.le_refl _
    · show (Tree.label _).start ≤ _
      rw [← e, spanEndOf_lt c _ hu]; exact (hU.bounds _ hu).2.1
  · obtain ⟨rfl, hsp, hu⟩ := ‹_ = s0 ∧ SPT _ _ _ _ ∧ _›
    obtain ⟨rfl, h1, h2⟩ := ‹_ = _ ∧ _ ≤ _ ∧ _›
    have := hU.se_le hu
    exact ⟨hsp.mono h1 (by omega), posOK_of rfl h2⟩
  · obtain ⟨rfl, hsp, hu⟩ := ‹_ = s0 ∧ SPT _ _ _ _ ∧ _›
    obtain ⟨rfl, hr⟩ := ‹_ = _ ∧ _[_]? = some _›
    have e := get!_of_get? hr
    show SPT L.lo L.hi (Tree.label _).start _ ∧ PosOK c _ (Tree.label _).start
    rw [← e]
    refine ⟨hsp, posOK_of rfl ?_⟩
    rw [spanEndOf_lt c _ hu]; exact (hU.bounds _ hu).2.1

/-- **`parseRun` does not panic** (and keeps the span invariant). -/
@[spec 31000]
theorem parseRun_np (L : Lims) (c : ICtx) (hU : UnpOK c L) (hT : TokScan2 c L.hi) (hS : LinkScan2 c L.hi) (hN : TokNP c)
    (hA : L.hi ≤ c.srcA.size) (s0 : IState) :
    ⦃fun s => ⌜s = s0 ∧ SPT L.lo L.hi (c.unparsed[s0.unparsedPos]!).label.start s ∧
        s0.unparsedPos < c.unparsed.size⌝⦄
    parseRun c
    ⦃⇓! _ s => ⌜∃ F, SPT L.lo L.hi F s ∧ PosOK c s F⌝⦄ := by
  rw [parseRun_eq]
  exact parseRun'_np L c hU hT hS hN hA s0

end CM.Proofs.InlH2
