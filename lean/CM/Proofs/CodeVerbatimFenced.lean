import CM.Proofs.CodeVerbatimRun
/-
C06 (block piece): a top-level fenced code block comes out verbatim — the whole run of the stream machine on
`fence ++ info ++ "\n" ++ lines ++ fence ++ "\n"`.
-/
namespace CM.Proofs
open CM CM.Model CM.Gen
open CM.Proofs.BT

/-! ### buffers without NUL -/

def noNul (b : Bytes) : Bool := b.all (· != 0)

theorem noNul_mem {b : Bytes} (h : noNul b = true) : ∀ c ∈ b, c ≠ 0 := by
  intro c hc
  have := List.all_eq_true.mp h c hc
  simpa using this

theorem noNul_append (a b : Bytes) : noNul (a ++ b) = (noNul a && noNul b) := by simp [noNul]

theorem noNul_of_plain {l : Bytes} (h : plainLine l = true) : noNul l = true := by
  apply List.all_eq_true.mpr
  intro c hc
  have := (plainLine_mem h hc).2.2
  simpa using this

theorem fillNulls_eq_self {b : Bytes} (h : ∀ c ∈ b, c ≠ 0) : fillNulls b = b := by
  have := fillNulls_padNulls b
  rw [padNulls_eq_self h, replNul_eq_self h] at this
  exact this

theorem nullCount_eq_zero {b : Bytes} (h : ∀ c ∈ b, c ≠ 0) : nullCount b = 0 := by
  induction b with
  | nil => rfl
  | cons c b ih =>
    rw [nullCount_cons, ih (fun d hd => h d (List.mem_cons_of_mem _ hd))]
    simp [h c List.mem_cons_self]

theorem unpaddedNullLength_eq {b : Bytes} (h : ∀ c ∈ b, c ≠ 0) : unpaddedNullLength b = b.length := by
  simp [unpaddedNullLength, nullCount_eq_zero h]

/-! ### source slices -/

theorem slice_span (src : Bytes) (k s len : Nat) (kids : List Tree) :
    Node.slice src (mkInline k (s : Nat) ((s + len : Nat) : Int) kids) = (src.drop s).take len := by
  have h1 : ((s : Nat) : Int) ≥ 0 := Int.natCast_nonneg _
  have h2 : ((s + len : Nat) : Int) ≥ 0 := Int.natCast_nonneg _
  have h3 : ((s : Nat) : Int) ≤ ((s + len : Nat) : Int) := by omega
  have h4 : (((s + len : Nat) : Int) - (s : Int)).toNat = len := by omega
  simp only [Node.slice, Node.spanValid, mkInline, Tree.label, h1, h2, h3, decide_true, Bool.and_self, if_true,
    Int.toNat_natCast, h4]

/-! ### `nextBlock` / `drain` on the in-memory parser -/

/-- The state in which `nextBlock` starts reading a new block. -/
def startBP (p : BP) : BP :=
  { p with offset := p.offset + unpaddedNullLength (p.buf.take p.i), lineno := p.lineno + lineCount (p.buf.take p.i),
           buf := p.buf.drop p.i, i := 0 }

theorem nextBlock_eq (L : LineParserI) (p : BP) (hb : p.blocks = []) :
    nextBlock L p = match skipBlank (bpFuel p) (startBP p) with
      | (none, p) => (match p.panic with
          | some m => (.panic m, p)
          | none => (.err (p.err.getD .eof), p))
      | (some p', _) => parseLines L (bpFuel p) (L.new p'.blocks) 0 p' := by
  unfold nextBlock
  simp [hb, makeRoot, startBP]
  rfl

theorem startBP_memBP (buf : Bytes) : startBP (memBP buf 0) = memBP buf 0 := by
  simp [startBP, memBP, unpaddedNullLength, nullCount, lineCount]

theorem skipBlank_first (k : Nat) (buf : Bytes) (h1 : 0 < lineLen buf)
    (h2 : isBlankLine (buf.take (lineLen buf)) = false) :
    skipBlank (k + 1) (memBP buf 0) = (some (memBP buf (lineLen buf)), memBP buf (lineLen buf)) := by
  rw [skipBlank, readline_memBP buf 0 (Nat.zero_le _)]
  simp only [List.drop_zero, Nat.zero_add, h1, decide_true, Bool.not_true, Bool.false_eq_true, if_false]
  have : isBlankLine ((memBP buf (lineLen buf)).buf.take (memBP buf (lineLen buf)).i) = false := h2
  simp only [this, Bool.not_false, if_true]

theorem nextBlock_first (L : LineParserI) (buf : Bytes) (h1 : 0 < lineLen buf)
    (h2 : isBlankLine (buf.take (lineLen buf)) = false) :
    nextBlock L (memBP buf 0) = parseLines L (buf.length + 4) (L.new []) 0 (memBP buf (lineLen buf)) := by
  rw [nextBlock_eq L _ rfl, startBP_memBP]
  have hf : bpFuel (memBP buf 0) = (buf.length + 3) + 1 := by simp [bpFuel, memBP]
  rw [hf, skipBlank_first _ buf h1 h2]
  rfl

/-- The parser state after the last block. -/
def doneBP (off ln : Nat) : BP := { buf := [], offset := off, lineno := ln, i := 0, err := some .eof, blocks := [] }

theorem nextBlock_done (L : LineParserI) (off ln : Nat) : nextBlock L (doneBP off ln) = (.err .eof, doneBP off ln) := by
  simp [nextBlock, doneBP, makeRoot, bpFuel, skipBlank, readline, eolEnd?, indexEOL, unpaddedNullLength, nullCount,
    lineCount]

theorem drain_two (L : LineParserI) (f : Nat) (p : BP) (r : Root) (p' : BP) (e : PErr) (p'' : BP)
    (h1 : nextBlock L p = (.block r, p')) (h2 : nextBlock L p' = (.err e, p'')) :
    drain L (f + 2) p [] = ([r], .err e, p'') := by
  simp [drain, h1, h2]

/-- `makeRoot` when the only child is closed at the end of the buffer. -/
theorem makeRoot_memBP_closed (buf : Bytes) (k : PB) (hnul : ∀ b ∈ buf, b ≠ 0) (hk : k.label.stop = (buf.length : Nat)) :
    makeRoot (memBP buf buf.length) [k] =
      some ({ source := buf, startLine := 1, startOffset := 0, endOffset := buf.length, block := k },
            doneBP buf.length (1 + lineCount buf)) := by
  have ho : k.isOpen = false := by
    simp only [PB.isOpen, hk]
    exact decide_eq_false (by omega)
  rw [makeRoot_closed _ _ _ ho]
  simp [rootOf, afterRoot, memBP, doneBP, hk, fillNulls_eq_self hnul, unpaddedNullLength_eq hnul, offsetPBs]

/-- The closing fence line through `parseLines`: the block is delivered. -/
theorem parseLines_close (x : PExt) (fuel : Nat) (lp : LP) (c : UInt8) (n : Nat) (inl : List Tree)
    (buf : Bytes) (s : Nat)
    (hroot : lp.root = docRoot [fcOpen c n inl]) (hpanic : lp.panic = none)
    (hbuf : buf.drop s = fenceLine c n []) (hc : isFenceChar c = true) (hn : 3 ≤ n) (hnul : ∀ b ∈ buf, b ≠ 0) :
    parseLines (blocksLP x) (fuel + 1) lp s (memBP buf (s + (n + 1))) =
      (.block { source := buf, startLine := 1, startOffset := 0, endOffset := buf.length,
                block := .mk (fcLabel c n (buf.length : Nat)) [] inl },
       doneBP buf.length (1 + lineCount buf)) := by
  have hfl : (fenceLine c n []).length = n + 1 := by rw [fenceLine_length]; rfl
  have hlen : s + (n + 1) = buf.length := by
    have := congrArg List.length hbuf
    rw [List.length_drop, hfl] at this
    omega
  rw [hlen]
  have hsrc : ((memBP buf buf.length).buf.take (memBP buf buf.length).i).drop s = fenceLine c n [] := by
    show (buf.take buf.length).drop s = _
    rw [List.take_length, hbuf]
  obtain ⟨h1, h2⟩ := line_close x lp c n inl _ s _ hroot hsrc (lineClosing_fence c n hc hn)
  rw [hfl, hlen] at h1
  apply parseLines_root (blocksLP x) (h2.trans hpanic)
  show makeRoot _ (LP.root _).blocks = _
  rw [h1]
  exact makeRoot_memBP_closed buf _ hnul rfl

/-! ### the fenced document -/

/-- `fence ++ info ++ "\n" ++ lines ++ fence ++ "\n"`. -/
def fencedDoc (c : UInt8) (n : Nat) (info : Bytes) (ls : List Bytes) : Bytes :=
  fenceLine c n info ++ (body ls ++ fenceLine c n [])

theorem body_length_ge (ls : List Bytes) : ls.length ≤ (body ls).length := by
  induction ls with
  | nil => simp [body]
  | cons l ls ih => rw [body_length_cons, List.length_cons]; omega

theorem body_noNul (ls : List Bytes) (h : ∀ l ∈ ls, plainLine l = true) : noNul (body ls) = true := by
  induction ls with
  | nil => rfl
  | cons l ls ih =>
    rw [body_cons, noNul_append, noNul_of_plain (h l List.mem_cons_self)]
    have := ih (fun l' hl' => h l' (List.mem_cons_of_mem _ hl'))
    simp only [noNul, List.all_cons, Bool.true_and] at this ⊢
    rw [this]; decide

theorem fenceLine_plain_prefix (c : UInt8) (n : Nat) (info : Bytes) (hc : isFenceChar c = true) (hi : infoOK c info = true) :
    plainLine (List.replicate n c ++ info) = true := by
  have hne := fence_ne_LF hc
  rw [plainLine_append, plainLine_replicate n hne.1 hne.2.1 hne.2.2.1]
  simp only [infoOK, Bool.and_eq_true] at hi
  simp [hi.1.1.1]

theorem fenceLine_noNul (c : UInt8) (n : Nat) (info : Bytes) (hc : isFenceChar c = true) (hi : infoOK c info = true) :
    noNul (fenceLine c n info) = true := by
  rw [fenceLine, noNul_append, noNul_of_plain (fenceLine_plain_prefix c n info hc hi)]
  decide

theorem lineLen_fenceLine (c : UInt8) (n : Nat) (info rest : Bytes) (hc : isFenceChar c = true) (hi : infoOK c info = true) :
    lineLen (fenceLine c n info ++ rest) = n + info.length + 1 := by
  have : fenceLine c n info ++ rest = (List.replicate n c ++ info) ++ LF :: rest := by simp [fenceLine]
  rw [this, lineLen_plain _ _ (fenceLine_plain_prefix c n info hc hi)]
  simp

theorem not_lineClosing (c : UInt8) (n : Nat) (l : Bytes) (hc : isFenceChar c = true) (hn : 3 ≤ n)
    (hl : plainLine l = true) (h : closesFence c n l = false) : lineClosing c n (l ++ [LF]) = false := by
  cases hcl : lineClosing c n (l ++ [LF]) with
  | false => rfl
  | true => rw [closesFence_of_lineClosing c n l hc hn hl hcl] at h; cases h

/-- **Fenced code blocks come out verbatim** (the run of the stream machine).
    For a fence of `n ≥ 3` characters `c` (backtick or tilde), an info string, and content lines none of which contains
    LF, CR or NUL or is a closing fence: draining the parser `Parse` builds on
    `fence ++ info ++ "\n" ++ lines ++ fence ++ "\n"` delivers exactly one root and then `io.EOF`. The root spans the
    whole document; its block is a FencedCode block with `char = c`, `n = n`, whose inline children are the InfoString node
    (iff the info string is non-empty) followed by one Text node per content line, spanning that line and its `"\n"`. -/
theorem fenced_code_run (x : PExt) (c : UInt8) (n : Nat) (info : Bytes) (ls : List Bytes) (fuel : Nat)
    (hc : isFenceChar c = true) (hn : 3 ≤ n) (hi : infoOK c info = true)
    (hls : ∀ l ∈ ls, plainLine l = true ∧ closesFence c n l = false) (hfuel : 2 ≤ fuel) :
    drain (blocksLP x) fuel (memParser (fencedDoc c n info ls)) [] =
      ([{ source := fencedDoc c n info ls, startLine := 1, startOffset := 0, endOffset := (fencedDoc c n info ls).length,
          block := .mk (fcLabel c n ((fencedDoc c n info ls).length : Nat)) []
            (infoNodes x c n info ++ textNodes (n + info.length + 1) ls) }],
       .err .eof,
       doneBP (fencedDoc c n info ls).length (1 + lineCount (fencedDoc c n info ls))) := by
  generalize hdoc : fencedDoc c n info ls = doc
  have hdoc' : doc = fenceLine c n info ++ (body ls ++ fenceLine c n []) := hdoc.symm
  have hnul : ∀ b ∈ doc, b ≠ 0 := by
    apply noNul_mem
    rw [hdoc', noNul_append, noNul_append, fenceLine_noNul c n info hc hi, fenceLine_noNul c n [] hc (infoOK_nil c),
      body_noNul ls (fun l hl => (hls l hl).1)]
    rfl
  rw [memParser_eq doc hnul]
  obtain ⟨f, rfl⟩ : ∃ f, fuel = f + 2 := ⟨fuel - 2, by omega⟩
  have hll : lineLen doc = n + info.length + 1 := by rw [hdoc']; exact lineLen_fenceLine c n info _ hc hi
  have hs0 : (fenceLine c n info).length = n + info.length + 1 := fenceLine_length c n info
  have hdl : doc.length = (n + info.length + 1) + ((body ls).length + (n + 1)) := by
    rw [hdoc', List.length_append, List.length_append, hs0, fenceLine_length]; rfl
  have hbl := body_length_ge ls
  -- the first call of NextBlock
  have hnb : isBlankLine (doc.take (lineLen doc)) = false := by
    rw [hll, hdoc', List.take_left' hs0]
    obtain ⟨m, rfl⟩ : ∃ m, n = m + 1 := ⟨n - 1, by omega⟩
    have hne := fence_ne_LF hc
    have : isSpaceTabOrLineEnding c = false := not_ws_of c hne.2.2.2.1 hne.2.2.2.2.1 hne.1 hne.2.1
    simp [fenceLine, List.replicate_succ, isBlankLine, this]
  have e0 := nextBlock_first (blocksLP x) doc (by rw [hll]; omega) hnb
  rw [hll] at e0
  -- fuel
  obtain ⟨g, hg⟩ : ∃ g, doc.length + 4 = ((g + 1) + ls.length) + 1 := ⟨doc.length + 2 - ls.length, by omega⟩
  rw [hg] at e0
  -- the opening line
  obtain ⟨lp1, r1, p1, e1⟩ := parseLines_open x ((g + 1) + ls.length) c n info (body ls ++ fenceLine c n []) doc hdoc' hc hn hi
  -- the content lines
  have hdrop1 : doc.drop (n + info.length + 1) = body ls ++ fenceLine c n [] := by rw [hdoc', List.drop_left' hs0]
  obtain ⟨lp2, r2, p2, e2⟩ := parseLines_body x c n doc (fenceLine c n []) ls (g + 1) lp1 (infoNodes x c n info)
    (n + info.length + 1) r1 p1 hdrop1
    (fun l hl => ⟨(hls l hl).1, not_lineClosing c n l hc hn (hls l hl).1 (hls l hl).2⟩)
  -- the closing line
  have hlc : lineLen (fenceLine c n []) = n + 1 := by
    have := lineLen_fenceLine c n [] [] hc (infoOK_nil c)
    simpa using this
  have hdrop2 : doc.drop (n + info.length + 1 + (body ls).length) = fenceLine c n [] := by
    rw [← List.drop_drop, hdrop1, List.drop_left' rfl]
  have e3 := parseLines_close x g lp2 c n (infoNodes x c n info ++ textNodes (n + info.length + 1) ls) doc
    (n + info.length + 1 + (body ls).length) r2 p2 hdrop2 hc hn hnul
  rw [hlc] at e2
  rw [e1, e2, e3] at e0
  exact drain_two (blocksLP x) f _ _ _ _ _ e0 (nextBlock_done _ _ _)
