import CM.Proofs.ParseWholeOps
import CM.Proofs.BlocksGrammar
/-
Whole-`Parse` theorems, part 4: the eight block starts, `ruleMatch`, `descendOpenBlocks`, `openNewBlocks`,
`addLineText` and `processLine` keep the invariant `J Q S` (`ParseWholeOps.lean`) for every `Q` with `Sites x Q`.
-/
namespace CM.Proofs.PW
open CM CM.Model CM.Gen
open CM.Proofs.BT CM.Proofs.BG

variable {x : PExt} {Q : Bytes → Tree → Prop} {S : Bytes}

/-! ### automation: goals `J Q S (op … q)` from `J Q S p` -/

syntax "jok" : tactic
macro_rules
  | `(tactic| jok) => `(tactic| first
    | assumption
    | (apply setPanic_J; jok)
    | (apply markMatched_J; jok)
    | (apply advance_J; jok)
    | (apply consumeIndentN_J; jok)
    | (apply consumeLine_J; jok)
    | (apply setContainerIndent_J; jok)
    | (apply endBlock_J (by assumption); jok)
    | (apply closeContainer_J (by assumption); jok)
    | (apply closeLastChild_J (by assumption); jok)
    | (apply openBlock_J (by assumption); jok)
    | (apply collectInline_J (by assumption) _ _ _ (by decide); jok)
    | (apply modifyContainer_J _ _ (fun c hc => PBI_setLabel _ hc); jok)
    | (split <;> jok))

section Line
attribute [local irreducible] LP.advance LP.consumeIndentN LP.consumeLine LP.openBlock LP.endBlock LP.collectInline
  LP.setContainerIndent LP.closeContainer LP.closeLastChild LP.modifyContainer LP.setPanic LP.markMatched LP.appendInline

/-! ### the eight block starts -/

theorem startBlockQuote_J (hS : Sites x Q) (p : LP) (h : J Q S p) : J Q S (startBlockQuote x p) := by
  unfold startBlockQuote
  simp only []
  jok

theorem startATX_J (hS : Sites x Q) (p : LP) (h : J Q S p) : J Q S (startATX x p) := by
  unfold startATX
  simp only []
  jok

theorem startFenced_J (hS : Sites x Q) (p : LP) (h : J Q S p) : J Q S (startFenced x p) := by
  unfold startFenced
  simp only []
  jok

theorem htmlStartLoop_J (hS : Sites x Q) (line : Bytes) : ∀ (fuel i : Nat) (p : LP), J Q S p →
    J Q S (htmlStartLoop x line fuel i p) := by
  intro fuel
  induction fuel with
  | zero => intro i p h; exact h
  | succ fuel ih =>
    intro i p h
    unfold htmlStartLoop
    split
    · exact h
    · split
      · simp only []
        jok
      · exact ih _ _ h

theorem startHTML_J (hS : Sites x Q) (p : LP) (h : J Q S p) : J Q S (startHTML x p) := by
  unfold startHTML
  simp only []
  split
  · exact h
  · split
    · exact h
    · exact htmlStartLoop_J hS _ _ _ _ h

theorem startSetext_J (hS : Sites x Q) (p : LP) (h : J Q S p) : J Q S (startSetext x p) := by
  unfold startSetext
  simp only []
  jok

theorem startThematicBreak_J (hS : Sites x Q) (p : LP) (h : J Q S p) : J Q S (startThematicBreak x p) := by
  unfold startThematicBreak
  simp only []
  jok

theorem startListItem_J (hS : Sites x Q) (p : LP) (h : J Q S p) : J Q S (startListItem x p) := by
  unfold startListItem
  simp only []
  jok

theorem startIndentedCode_J (hS : Sites x Q) (p : LP) (h : J Q S p) : J Q S (startIndentedCode x p) := by
  unfold startIndentedCode
  simp only []
  jok

theorem blockStartFns_J (hS : Sites x Q) : ∀ f ∈ blockStartFns x, ∀ q : LP, J Q S q → J Q S (f q) := by
  intro f hf q h
  simp only [blockStartFns, List.mem_cons, List.not_mem_nil, or_false] at hf
  rcases hf with rfl | rfl | rfl | rfl | rfl | rfl | rfl | rfl
  · exact startBlockQuote_J hS q h
  · exact startATX_J hS q h
  · exact startFenced_J hS q h
  · exact startHTML_J hS q h
  · exact startSetext_J hS q h
  · exact startThematicBreak_J hS q h
  · exact startListItem_J hS q h
  · exact startIndentedCode_J hS q h

/-! ### ruleMatch, descendLoop -/

theorem ruleMatch_J (hS : Sites x Q) (kind : Nat) (p : LP) (h : J Q S p) :
    ∀ ok q, ruleMatch x kind p = some (ok, q) → J Q S q := by
  intro ok q hr
  unfold ruleMatch at hr
  simp only [] at hr
  repeat' split at hr
  all_goals (cases hr <;> jok)

theorem descendLoop_J (hS : Sites x Q) : ∀ (fuel : Nat) (p : LP) (parent : Nat), J Q S p →
    J Q S (descendLoop x fuel p parent).2 := by
  intro fuel
  induction fuel with
  | zero => intro p parent h; exact h
  | succ fuel ih =>
    intro p parent h
    unfold descendLoop
    split
    · exact h
    rename_i c hc
    split
    · exact h
    simp only []
    split
    · exact h
    · rename_i ok p2 hrm
      have h2 : J Q S p2 := by
        refine ruleMatch_J hS c.kind _ ?_ ok p2 hrm
        exact h
      split
      · exact closeContainer_J hS p2 _ h2
      · split
        · exact h2
        · exact ih _ _ h2

theorem descendOpenBlocks_J (hS : Sites x Q) (p : LP) (h : J Q S p) : J Q S (descendOpenBlocks x p).2 :=
  descendLoop_J hS _ p 0 h

/-! ### tryStarts, openingLoop, openNewBlocks -/

theorem tryStarts_J : ∀ (fs : List (LP → LP)), (∀ f ∈ fs, ∀ q : LP, J Q S q → J Q S (f q)) →
    ∀ p : LP, J Q S p → J Q S (tryStarts fs p) := by
  intro fs
  induction fs with
  | nil => intro _ p h; exact h
  | cons f rest ih =>
    intro hf p h
    unfold tryStarts
    simp only []
    have sp := hf f (List.mem_cons_self ..) { p with state := stateOpening } h
    generalize f { p with state := stateOpening } = p' at sp
    split
    · exact sp
    · exact ih (fun g hg => hf g (List.mem_cons_of_mem _ hg)) p' sp

theorem openingLoop_J (hS : Sites x Q) : ∀ (fuel : Nat) (p : LP), J Q S p → J Q S (openingLoop x fuel p).2 := by
  intro fuel
  induction fuel with
  | zero => intro p h; exact h
  | succ fuel ih =>
    intro p h
    unfold openingLoop
    split
    · exact h
    · have ts := tryStarts_J _ (blockStartFns_J hS) p h
      simp only []
      generalize tryStarts (blockStartFns x) p = p' at ts
      split
      · exact ih p' ts
      · split
        · exact ts
        · exact ts

theorem openNewBlocks_J (hS : Sites x Q) (p : LP) (allMatched : Bool) (h : J Q S p) :
    J Q S (openNewBlocks x p allMatched).2 := by
  unfold openNewBlocks
  split
  · exact closeContainer_J hS _ _ h
  · have ol := openingLoop_J hS (p.line.length + 8) p h
    generalize openingLoop x (p.line.length + 8) p = r at ol
    obtain ⟨hasText, q⟩ := r
    simp only [] at ol ⊢
    split
    · exact ol
    · split
      · exact ol
      · exact closeLastChild_J hS q _ ol

/-! ### addLineText -/

theorem altBlank_J (p : LP) (h : J Q S p) : J Q S (altBlank p) := by
  unfold altBlank
  split
  · refine ⟨h.1, PBI_spineModify _ ?_ _ _ h.2⟩
    intro c hc
    obtain ⟨l, bs, is⟩ := c
    simp only []
    cases hgl : bs.getLast? with
    | none => exact hc
    | some c0 =>
      simp only []
      exact PBI_replaceLast hc
        (AllI.single (PBI_setLabel _ (((PBI_mk l bs is).1 hc).2 c0 (List.mem_of_getLast? hgl))))
  · exact h

theorem altFlags_J (b : Bool) (p : LP) (h : J Q S p) : J Q S (altFlags b p) :=
  ⟨h.1, PBI_setBlankFlags _ _ _ h.2⟩

theorem altCont_J (hS : Sites x Q) (b : Bool) (p : LP) (h : J Q S p) :
    ∀ q, altCont x b p = some q → J Q S q := by
  intro q hq
  unfold altCont at hq
  simp only [] at hq
  repeat' split at hq
  all_goals cases hq
  · apply consumeIndentN_J; exact appendInline_J _ _ (hS.indent S _ _ _) h
  · exact h
  · jok

theorem altTail_J (hS : Sites x Q) (q : LP) (h : J Q S q) : J Q S (altTail q) := by
  unfold altTail
  simp only []
  have hl : ∀ (k : Nat) (a b : Int), k = IK.text ∨ k = IK.rawHTML ∨ k = IK.unparsed → Q S (mkInline k a b) := by
    intro k a b hk
    refine hS.leaf S k a b ?_ ?_ <;> rcases hk with rfl | rfl | rfl <;> decide
  repeat' split
  all_goals first
    | (refine appendInline_J _ _ (hS.soft S _) (appendInline_J _ _ (hl _ _ _ ?_) h); simp)
    | (refine appendInline_J _ _ (hl _ _ _ ?_) h; simp)

theorem addLineText_J (hS : Sites x Q) (p : LP) (h : J Q S p) : J Q S (addLineText x p) := by
  rw [BT.addLineText_eq]
  have bG := altFlags_J p.isRestBlank (altBlank p) (altBlank_J p h)
  generalize altFlags p.isRestBlank (altBlank p) = pB at bG
  split
  · exact bG
  · rename_i q hq
    exact altTail_J hS q (altCont_J hS _ pB bG q hq)

/-- **One line through the line parser keeps the invariant.** -/
theorem processLine_J (hS : Sites x Q) (p : LP) (h : J Q S p) : J Q S (processLine x p) := by
  unfold processLine
  have d := descendOpenBlocks_J hS p h
  generalize descendOpenBlocks x p = r at d
  obtain ⟨allMatched, p1⟩ := r
  simp only [] at d ⊢
  split
  · exact d
  · have oG := openNewBlocks_J hS p1 allMatched d
    generalize openNewBlocks x p1 allMatched = r2 at oG
    obtain ⟨hasText, p2⟩ := r2
    simp only [] at oG ⊢
    split
    · exact addLineText_J hS p2 oG
    · exact oG

end Line

end CM.Proofs.PW
