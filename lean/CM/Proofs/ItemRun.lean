import CM.Proofs.ItemStep2
import CM.Proofs.QuoteGRun
/-
C09 (list-item half): the two runs of the stream machine (port of `QuoteRun` / `QuoteGRun`): one line of the prefixed run,
the end of the prefixed run, the tail of the bare run, the end of the input on both runs.
-/
namespace CM.Proofs.Item
open CM CM.Model CM.Gen CM.Proofs.BT CM.Proofs.BSp CM.Proofs.Quote CM.Proofs.Nest

/-- `L` is the list with one item around the blocks of the roots `rs` of `D` (as `ItemRelated`, with the inline
    children of the list block left open). -/
structure ItemRelatedS (DR : List Tree → List Tree → Prop) (I : IP) (D : Bytes) (rs : List Root) (L : PB) : Prop where
  shape : ∃ ll isL il kids, L = .mk ll [.mk il kids []] isL ∧
    (ll.kind = BK.list ∧ ll.start = 0 ∧ ll.stop = ((iq I D).length : Nat) ∧ ll.n = 0 ∧ ll.char = I.dl ∧ ll.indent = 0) ∧
    (il.kind = BK.listItem ∧ il.start = 0 ∧ il.stop = ((iq I D).length : Nat) ∧ il.n = 0 ∧ il.char = I.dl ∧
      il.indent = (I.k : Int) ∧ il.loose = ll.loose) ∧
    ∃ ks : List PB, kids.map pbToTree = markerTree I.m.length :: ks.map pbToTree ∧
      L2 (fun (r : Root) k => BR (envAtI DR I.m I.N D r.startOffset) r.block k) rs ks

/-- The prefixed run has delivered its only root. -/
structure FinalOKI (I : IP) (DR : List Tree → List Tree → Prop) (D : Bytes) (rs : List Root) (rq : Root) (pQ' : BP) : Prop where
  src : rq.source = iq I D
  so : rq.startOffset = 0
  eo : rq.endOffset = (iq I D).length
  rel : ItemRelatedS DR I D rs rq.block
  st : DSt (iq I D) (iq I D).length 0 [] pQ'

/-- If the bare run ends normally, the prefixed run delivers one root, related to the roots of the bare run. -/
def GoalI (I : IP) (DR : List Tree → List Tree → Prop) (D : Bytes) (resD : List Root × NBOut × BP) (resQ : NBOut × BP) : Prop :=
  resD.2.1 = .err .eof → ∃ rq pQ', resQ = (.block rq, pQ') ∧ FinalOKI I DR D resD.1 rq pQ'

theorem GoalI.of_ne {I : IP} {DR : List Tree → List Tree → Prop} {D : Bytes} {resD : List Root × NBOut × BP} {resQ : NBOut × BP}
    (h : resD.2.1 ≠ .err .eof) : GoalI I DR D resD resQ := fun e => absurd e h

/-! ### one line of the prefixed run -/

/-- The prefixed run feeds a line to its parser and goes on: the list is open, nothing is cut off. -/
theorem q_stepI (x : PExt) (k : Nat) (d : UInt8) (Q : Bytes) (lpQ : LP) (lsQ iQ f : Nat) (pQ : BP) (hd : DSt Q 0 iQ [] pQ)
    (hinv : LPInv' ((blocksLP x).line lpQ (Q.take iQ) lsQ))
    (hroot : ∃ (E : Env) (P : PB), Nest.RootR (iF k d) E P ((blocksLP x).line lpQ (Q.take iQ) lsQ).root) :
    parseLines (blocksLP x) (f + 1) lpQ lsQ pQ =
      parseLines (blocksLP x) f ((blocksLP x).line lpQ (Q.take iQ) lsQ) iQ { pQ with i := iQ + lineLen (Q.drop iQ) } ∧
    DSt Q 0 (iQ + lineLen (Q.drop iQ)) [] { pQ with i := iQ + lineLen (Q.drop iQ) } := by
  have hsrc : pQ.buf.take pQ.i = Q.take iQ := by rw [hd.source, List.drop_zero]
  obtain ⟨E, P, hr⟩ := hroot
  obtain ⟨lq, isQ, ll, isL, Qb, e, _, _, _, hlo, _⟩ := root_shape hr
  have hpan : (blocksLP x).panicked ((blocksLP x).line lpQ (pQ.buf.take pQ.i) lsQ) = none := by
    rw [hsrc]; exact hinv.panic
  have hopen : (PB.mk ll [Qb] isL).isOpen = true := by simp only [PB.isOpen, decide_eq_true_eq]; exact hlo
  have hmr : makeRoot pQ ((blocksLP x).kids ((blocksLP x).line lpQ (pQ.buf.take pQ.i) lsQ)) = none := by
    rw [hsrc]
    show makeRoot pQ ((blocksLP x).line lpQ (Q.take iQ) lsQ).root.blocks = none
    rw [e]
    exact makeRoot_open' pQ _ [] hopen
  obtain ⟨r1, r2⟩ := hd.readline_eq
  rw [Nat.zero_add] at r1 r2
  refine ⟨?_, r2⟩
  rw [parseLines_next (blocksLP x) hpan hmr, r1, hsrc, hd.ieq]

/-! ### the end of the prefixed run -/

/-- From the closed tree of the prefixed side to the final statement. -/
theorem final_of_finRI (I : IP) (DR : List Tree → List Tree → Prop) (D : Bytes) (hn0 : ∀ b ∈ iq I D, b ≠ 0) (c s : Nat) (done : List Tree)
    (Pb : List PB) (rs : List Root) (x : PExt) (lpQ : LP) (f : Nat) (pQ : BP)
    (hd : DSt (iq I D) 0 (iq I D).length [] pQ)
    (hinv : LPInv' ((blocksLP x).line lpQ ((iq I D).take (iq I D).length) (iq I D).length))
    (hfin : FinRI I.k I.dl (envOfI DR I.m I.N D c s (iq I D).length done) ((iq I D).length : Nat) Pb
      ((blocksLP x).line lpQ ((iq I D).take (iq I D).length) (iq I D).length).root)
    (hrel : ∀ pre bs'', Quote.PreOK (envOfI DR I.m I.N D c s (iq I D).length done) pre →
      L2 (BR (envOfI DR I.m I.N D c s (iq I D).length done)) Pb bs'' →
      ∃ ks : List PB, (pre ++ bs'').map pbToTree = markerTree I.m.length :: ks.map pbToTree ∧
        L2 (fun (r : Root) k => BR (envAtI DR I.m I.N D r.startOffset) r.block k) rs ks) :
    ∃ rq pQ', parseLines (blocksLP x) (f + 1) lpQ (iq I D).length pQ = (.block rq, pQ') ∧ FinalOKI I DR D rs rq pQ' := by
  obtain ⟨lq', isQ, ll', isL, il', pre, bs'', e, _, kl, ki, hpre, hr⟩ := hfin.shape
  have hsrc : pQ.buf.take pQ.i = (iq I D).take (iq I D).length := by rw [hd.source, List.drop_zero]
  have hpan : (blocksLP x).panicked ((blocksLP x).line lpQ (pQ.buf.take pQ.i) (iq I D).length) = none := by
    rw [hsrc]; exact hinv.panic
  have hclosed : (PB.mk ll' [.mk il' (pre ++ bs'') []] isL).isOpen = false := by
    simp only [PB.isOpen, PB.label, kl.2.2.1, decide_eq_false_iff_not]; omega
  have hstop : (PB.mk ll' [.mk il' (pre ++ bs'') []] isL).label.stop.toNat = (iq I D).length := by
    simp only [PB.label, kl.2.2.1]; omega
  obtain ⟨rq, pQ', hm, hb, hso, hsrcq, heo, hst⟩ := makeRoot_dst hd hn0 (PB.mk ll' [.mk il' (pre ++ bs'') []] isL) [] hclosed
    (by rw [hstop]; exact Nat.le_refl _)
  have hmr : makeRoot pQ ((blocksLP x).kids ((blocksLP x).line lpQ (pQ.buf.take pQ.i) (iq I D).length)) = some (rq, pQ') := by
    rw [hsrc]
    show makeRoot pQ ((blocksLP x).line lpQ ((iq I D).take (iq I D).length) (iq I D).length).root.blocks = _
    rw [e]
    exact hm
  refine ⟨rq, pQ', parseLines_root (blocksLP x) hpan hmr, ?_⟩
  rw [hstop] at hsrcq heo hst
  refine ⟨by rw [hsrcq, List.drop_zero, List.take_length], hso, by rw [heo, Nat.zero_add], ?_, ?_⟩
  · rw [hb]
    obtain ⟨ks, e1, e2⟩ := hrel pre bs'' hpre hr
    exact ⟨ll', isL, il', pre ++ bs'', rfl, kl, ki, ks, e1, e2⟩
  · rw [Nat.zero_add, Nat.sub_self] at hst
    have : offsetPBs (-((iq I D).length : Int)) [] = [] := by simp [offsetPBs]
    rw [this] at hst
    exact hst

/-- **The tail of the bare run**: the pending blocks `ks` (all closed) are delivered in order, each related to its image. -/
theorem tail_deliveryI (I : IP) (x : PExt) (DR : List Tree → List Tree → Prop) (hDR : DRShift DR) (D : Bytes) (hn0 : ∀ b ∈ D, b ≠ 0) (s' : Nat) :
    ∀ (m : Nat) (ks ks' : List PB) (c i : Nat) (done : List Tree) (p : BP) (lo : Int) (g : Nat) (acc : List Root),
      ks.length = m → DSt D c i ks p → c + i = D.length → 0 ≤ lo → PBSpansL QT false lo i ks →
      L2 (BR (envOfI DR I.m I.N D c i s' done)) ks ks' →
      (drain (blocksLPc x) g p acc).2.1 = .err .eof →
      ∃ rs, (drain (blocksLPc x) g p acc).1 = acc.reverse ++ rs ∧
        L2 (fun (r : Root) k' => BR (envAtI DR I.m I.N D r.startOffset) r.block k') rs ks' := by
  intro m
  induction m with
  | zero =>
    intro ks ks' c i done p lo g acc hlen hd hend _ _ hr hout
    have hks : ks = [] := List.length_eq_zero_iff.mp hlen
    subst hks
    cases hr
    cases g with
    | zero => simp [drain] at hout
    | succ g =>
      obtain ⟨p', hnb⟩ := nextBlock_done x D c i p hd hend
      rw [drain_succ, hnb, contD_err] at hout ⊢
      exact ⟨[], by simp, .nil⟩
  | succ m ih =>
    intro ks ks' c i done p lo g acc hlen hd hend hlo hsp hr hout
    obtain ⟨k, rest, rfl⟩ : ∃ k rest, ks = k :: rest := by
      cases ks with
      | nil => simp at hlen
      | cons k rest => exact ⟨k, rest, rfl⟩
    cases hr with
    | cons rk rrest =>
      rename_i k' rest'
      cases g with
      | zero => simp [drain] at hout
      | succ g =>
        rw [PBSpansL_cons] at hsp
        obtain ⟨s1, s2, s3⟩ := hsp
        have hkc : k.isOpen = false := by
          cases ho : k.isOpen with
          | false => rfl
          | true => exact absurd (s2 ho).2 (by decide)
        have hk0 : 0 ≤ k.label.stop := (isOpen_false_iff k).mp hkc
        have hb := PBSpans_closed_bounds s1 hk0
        have hn : ((k.label.stop.toNat : Nat) : Int) = k.label.stop := Int.toNat_of_nonneg hk0
        obtain ⟨r, p', hm, hrb, hso, _, _, hst⟩ := makeRoot_dst hd hn0 k rest hkc (by omega)
        have hnb : nextBlock (blocksLPc x) p = (.block r, p') := by
          rw [nextBlock_eq_F]
          exact nextBlockF_root (blocksLPc x) (by rw [hd.blocks]; exact hm)
        rw [drain_succ, hnb, contD_block] at hout ⊢
        have hsh := envOfI_shift DR hDR I.m I.N D c i s' k.label.stop.toNat done done
        have hrest : L2 (BR (envOfI DR I.m I.N D (c + k.label.stop.toNat) (i - k.label.stop.toNat) s' done))
            (offsetPBs (-(k.label.stop.toNat : Int)) rest) rest' :=
          BRs.offset hsh rest rest' rrest s3 (by omega)
        have hsp' : PBSpansL QT false (k.label.stop + -(k.label.stop.toNat : Int)) ((i : Int) + -(k.label.stop.toNat : Int))
            (offsetPBs (-(k.label.stop.toNat : Int)) rest) :=
          offsetPBs_spans (-(k.label.stop.toNat : Int)) rest hk0 (by omega) s3
        have e1 : ((i : Int) + -(k.label.stop.toNat : Int)) = ((i - k.label.stop.toNat : Nat) : Int) := by omega
        rw [e1] at hsp'
        have hlen' : (offsetPBs (-(k.label.stop.toNat : Int)) rest).length = m := by
          rw [CM.Proofs.offsetPBs_map, List.length_map]
          simp only [List.length_cons] at hlen
          omega
        obtain ⟨rs, h1, h2⟩ := ih _ rest' (c + k.label.stop.toNat) (i - k.label.stop.toNat) done p' _ g (r :: acc) hlen' hst
          (by omega) (by omega) hsp' hrest hout
        refine ⟨r :: rs, by rw [h1]; simp, .cons ?_ h2⟩
        rw [hso, hrb]
        exact BR.mono (envOfI_le_envAtI DR I.m I.N D c i s' done) k k' rk

/-! ### the standing assumptions -/

/-- No line of `D` is blank. -/
def NoBlankD (D : Bytes) : Prop := ∀ a b : Bytes, D = a ++ b → Whole a → b ≠ [] → isBlankLine (b.take (lineLen b)) = false

/-- The assumptions of the stream-level theorem about one document `D`. -/
structure SetupI (I : IP) (D : Bytes) : Prop where
  clean : Clean D
  ne : D ≠ []
  noul : NoULD D
  noblank : NoBlankD D
  /-- `D` begins with a non-space -/
  d0 : D.getD 0 0 ≠ SP
  /-- the first line of `item m N D` is not a thematic break -/
  notb : parseThematicBreak (I.m ++ (spaces I.N ++ D.take (lineLen D))) < 0

theorem LineAtI.noUL {I : IP} {D a b qa : Bytes} {c : Nat} (S : SetupI I D) (h : LineAtI I D a b qa c) : NoUL (b.take (lineLen b)) :=
  S.noul a b h.split h.whole h.bne

theorem LineAtI.noBlank {I : IP} {D a b qa : Bytes} {c : Nat} (S : SetupI I D) (h : LineAtI I D a b qa c) :
    isBlankLine (b.take (lineLen b)) = false :=
  S.noblank a b h.split h.whole h.bne

theorem igo_noNul (pre : Bytes) (hp : ∀ c ∈ pre, c ≠ 0) : ∀ (l : Bytes), (∀ c ∈ l, c ≠ 0) → ∀ b ∈ igo pre l, b ≠ 0 := by
  intro l
  induction l with
  | nil => intro _ b hb; simp [igo] at hb
  | cons a rest ih =>
    intro hl b hb
    have ha : a ≠ 0 := hl a (List.mem_cons_self ..)
    have hr := ih fun c hc => hl c (List.mem_cons_of_mem _ hc)
    simp only [igo] at hb
    split at hb
    · split at hb
      · simp only [List.mem_singleton] at hb; subst hb; decide
      · simp only [List.mem_cons, List.mem_append] at hb
        rcases hb with rfl | hb | hb
        · decide
        · exact hp b hb
        · exact hr b hb
    · simp only [List.mem_cons] at hb
      rcases hb with rfl | hb
      · exact ha
      · exact hr b hb

theorem clean_iq_noNul (I : IP) {D : Bytes} (h : Clean D) : ∀ b ∈ iq I D, b ≠ 0 := by
  intro b hb
  rw [iq_eq] at hb
  unfold ifrom at hb
  split at hb
  · simp at hb
  · rcases List.mem_append.mp hb with hb | hb
    · exact (I.pre_clean [] b hb).2.2.1
    · exact igo_noNul _ (fun c hc => by rw [spaces_mem hc]; decide) D h.noNul b hb

section run
variable {I : IP} {x : PExt} {D : Bytes} (S : SetupI I D)
include S

/-- **The end of the input, on both runs.** -/
theorem run_eofI {qa : Bytes} {c : Nat} (h : EofAtI I D qa c) (lpD lpQ : LP) (pD pQ : BP) (bsD : List PB) (done : List Tree)
    (acc : List Root) (dD : DSt D c (D.length - c) bsD pD) (dQ : DSt (iq I D) 0 qa.length [] pQ)
    (sD : DSessG D c (D.length - c) lpD) (first : ∀ k rest, lpD.root.blocks = k :: rest → k.isOpen = true)
    (iQ : LPInv' lpQ) (root : Nest.RootR (iF I.k I.dl) (envOfI (DRi I.m I.N D) I.m I.N D c (D.length - c) qa.length done) lpD.root lpQ.root)
    (hdone : DoneI I (DRi I.m I.N D) D acc done) (fD gD fQ : Nat) :
    GoalI I (DRi I.m I.N D) D (contD x gD acc (parseLines (blocksLPc x) fD (lpD, true) (D.length - c) pD))
      (parseLines (blocksLP x) (fQ + 1) lpQ qa.length pQ) := by
  cases fD with
  | zero => exact GoalI.of_ne (by simp [parseLines, contD])
  | succ fD =>
    have hq : iq I D = qa := h.q
    have hsrc : pD.buf.take pD.i = (D.drop c).take (D.length - c) := dD.source
    have hsl : ((D.drop c).take (D.length - c)).length = D.length - c := by
      rw [List.length_take, List.length_drop]; omega
    -- the line of the checked parser
    have hline : (blocksLPc x).line (lpD, true) (pD.buf.take pD.i) (D.length - c) =
        ((blocksLP x).line lpD ((D.drop c).take (D.length - c)) (D.length - c),
          true && pbSpans (RefDefSpansOK x ((D.drop c).take (D.length - c)) ((D.length - c : Nat) : Int)
            ((D.drop c).take (D.length - c)).length) 0 ((D.length - c : Nat) : Int) lpD.root) := by
      rw [hsrc]; rfl
    by_cases hchk : pbSpans (RefDefSpansOK x ((D.drop c).take (D.length - c)) ((D.length - c : Nat) : Int)
        ((D.drop c).take (D.length - c)).length) 0 ((D.length - c : Nat) : Int) lpD.root = true
    · rw [hchk] at hline
      have hinvD' := blocksLP_line_LPInv' x lpD sD.sess.inv ((D.drop c).take (D.length - c)) (D.length - c)
      have hpan : (blocksLPc x).panicked ((blocksLPc x).line (lpD, true) (pD.buf.take pD.i) (D.length - c)) = none := by
        rw [hline]; exact hinvD'.panic
      -- every child of the document is closed now
      obtain ⟨p1, p2, p3, p4, p5, p6⟩ := reset_fields lpD ((D.drop c).take (D.length - c)) (D.length - c)
      have hpl : (lpD.reset ((D.drop c).take (D.length - c)) (D.length - c)).line = [] := by
        rw [p4]; apply List.drop_eq_nil_of_le; rw [hsl]; exact Nat.le_refl _
      obtain ⟨hroot1, hne1, hterm1⟩ := sD.sess.well
      rw [hsl] at hroot1
      obtain ⟨e1, e2, e3, e4⟩ := processLine_eof (N := D.length - c) x (lpD.reset ((D.drop c).take (D.length - c)) (D.length - c))
        hpl p3 (by rw [p1]; exact hroot1) (by rw [p6, p1]; exact hterm1)
      have hne' := e3 (by rw [p1]; exact hne1)
      have hsp : PBSpans QT 0 ((D.drop c).take (D.length - c)).length
          ((blocksLP x).line lpD ((D.drop c).take (D.length - c)) (D.length - c)).root :=
        (processLine_spans x lpD ((D.drop c).take (D.length - c)) (D.length - c) sD.sess.inv (by rw [hsl]; exact Nat.le_refl _) sD.sess.openr hchk).1
      rw [hsl] at hsp
      generalize hlp' : (blocksLP x).line lpD ((D.drop c).take (D.length - c)) (D.length - c) = lpD' at hline hinvD' hsp
      obtain ⟨lo, hlo, hks⟩ := kids_spans hsp
      have e4' : ∀ k ∈ lpD'.root.blocks, 0 ≤ k.label.stop := by rw [← hlp']; exact e4
      have e1' : Kids (D.length - c) (D.length - c) lpD'.root.blocks := by rw [← hlp']; exact e1
      have hne'' : lpD'.root.blocks ≠ [] := by rw [← hlp']; exact hne'
      cases hkids : lpD'.root.blocks with
      | nil => exact absurd hkids hne''
      | cons k rest =>
        rw [hkids] at e4' e1' hks
        have hk0 : 0 ≤ k.label.stop := e4' k (List.mem_cons_self ..)
        have hkc : k.isOpen = false := (isOpen_false_iff k).mpr hk0
        have hkN := (e1'.kid k (List.mem_cons_self ..)).closed hk0
        have hn : ((k.label.stop.toNat : Nat) : Int) = k.label.stop := Int.toNat_of_nonneg hk0
        have hnle : k.label.stop.toNat ≤ D.length - c := by omega
        have hcle := h.cle
        obtain ⟨r, p', hm, hrb, hso, _, _, hst⟩ := makeRoot_dst dD S.clean.noNul k rest hkc hnle
        have hmr : makeRoot pD ((blocksLPc x).kids ((blocksLPc x).line (lpD, true) (pD.buf.take pD.i) (D.length - c))) =
            some (r, p') := by
          rw [hline]; show makeRoot pD lpD'.root.blocks = _; rw [hkids]; exact hm
        rw [parseLines_root (blocksLPc x) hpan hmr, contD_block]
        -- the prefixed side
        have hfin := step_eofI (x := x) h done lpD lpQ (hT_of sD.sess first) root sD.tp
        rw [hlp', hkids] at hfin
        intro hout
        have hcl := PBSpansL_closed hks e4'
        rw [PBSpansL_cons] at hcl
        obtain ⟨s1, s2, s3⟩ := hcl
        have hb := PBSpans_closed_bounds s1 hk0
        have hsp' : PBSpansL QT false (k.label.stop + -(k.label.stop.toNat : Int))
            (((D.length - c : Nat) : Int) + -(k.label.stop.toNat : Int)) (offsetPBs (-(k.label.stop.toNat : Int)) rest) :=
          offsetPBs_spans (-(k.label.stop.toNat : Int)) rest hk0 (by omega) s3
        have e5 : (((D.length - c : Nat) : Int) + -(k.label.stop.toNat : Int)) = ((D.length - c - k.label.stop.toNat : Nat) : Int) := by
          omega
        rw [e5] at hsp'
        have hinvQ' := blocksLP_line_LPInv' x lpQ iQ ((iq I D).take qa.length) qa.length
        rw [← hq] at dQ hfin hinvQ' ⊢
        apply final_of_finRI I (DRi I.m I.N D) D (clean_iq_noNul I S.clean) c (D.length - c) done (k :: rest) _ x lpQ fQ pQ dQ hinvQ' hfin
        intro pre bs'' hpre hr
        cases hr with
        | cons rk rrest =>
          rename_i k' rest'
          have hsh := envOfI_shift (DRi I.m I.N D) (DRi_shift I.m I.N D) I.m I.N D c (D.length - c) (iq I D).length k.label.stop.toNat done done
          have hrest : L2 (BR (envOfI (DRi I.m I.N D) I.m I.N D (c + k.label.stop.toNat) (D.length - c - k.label.stop.toNat) (iq I D).length done))
              (offsetPBs (-(k.label.stop.toNat : Int)) rest) rest' :=
            BRs.offset hsh rest rest' rrest s3 (by omega)
          obtain ⟨rs, h1, h2⟩ := tail_deliveryI I x (DRi I.m I.N D) (DRi_shift I.m I.N D) D S.clean.noNul (iq I D).length _
            (offsetPBs (-(k.label.stop.toNat : Int)) rest) rest' (c + k.label.stop.toNat)
            (D.length - c - k.label.stop.toNat) done p' (k.label.stop + -(k.label.stop.toNat : Int)) gD (r :: acc) rfl hst
            (by omega) (by omega) hsp' hrest hout
          obtain ⟨ks, hk1, hk2⟩ := hdone
          refine ⟨ks ++ k' :: rest', ?_, ?_⟩
          · have h2 : pre.map pbToTree = done := hpre.2
            rw [List.map_append, List.map_append, h2, ← hk1]; rfl
          · rw [h1, List.reverse_cons, List.append_assoc]
            refine hk2.append (.cons ?_ h2)
            rw [hso, hrb]
            exact BR.mono (envOfI_le_envAtI (DRi I.m I.N D) I.m I.N D c _ _ done) k k' rk
    · -- the span check fails: the run of the checked parser ends with that failure
      have hfalse : pbSpans (RefDefSpansOK x ((D.drop c).take (D.length - c)) ((D.length - c : Nat) : Int)
          ((D.drop c).take (D.length - c)).length) 0 ((D.length - c : Nat) : Int) lpD.root = false := by
        simpa using hchk
      rw [hfalse] at hline
      have hpan : (blocksLPc x).panicked ((blocksLPc x).line (lpD, true) (pD.buf.take pD.i) (D.length - c)) = some refDefFail := by
        rw [hline]; rfl
      rw [parseLines_panicked (blocksLPc x) hpan]
      exact GoalI.of_ne (by rw [contD_panic]; exact fun e => by cases e)

end run

end CM.Proofs.Item
