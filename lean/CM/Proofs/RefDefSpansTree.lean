import CM.Proofs.RefDefSpansDef
import CM.Proofs.BGClose
/-
C02, block half — `GoodT` under the tree operations of the block phase: a longer source, `spineModify`,
`spineReplaceLast`, `setBlankFlags`, relabelling, `closeBlock` (with `onCloseParagraph` / `refDefLoop`).
-/
namespace CM.Proofs.RDS
open CM CM.Model CM.Gen CM.Proofs.BSp CM.Proofs.BT CM.Proofs.BG

/-! ### a longer source -/

theorem getD_prefix {src src' : Bytes} (hp : src <+: src') {j : Nat} (hj : j < src.length) :
    src'.getD j 0 = src.getD j 0 := by
  obtain ⟨t, rfl⟩ := hp
  simp only [List.getD_eq_getElem?_getD]
  rw [List.getElem?_append_left hj]

theorem EolAtEnd_mono {src src' : Bytes} (hp : src <+: src') {s e : Int} (he : e ≤ (src.length : Int))
    (h : EolAtEnd src s e) : EolAtEnd src' s e := by
  intro j hs hj
  have hj' : j < src.length := by omega
  obtain ⟨h1, h2⟩ := h j hs hj
  rw [getD_prefix hp hj']
  refine ⟨h1, fun hc => ?_⟩
  rcases h2 hc with h3 | ⟨h3, h4⟩
  · exact Or.inl h3
  · refine Or.inr ⟨h3, ?_⟩
    rw [getD_prefix hp (by omega)]
    exact h4

theorem NodeOK_mono {src src' : Bytes} (hp : src <+: src') {t : Tree} (h : NodeOK src t) : NodeOK src' t := by
  obtain ⟨h1, h2, h3, h4⟩ := h
  have hl : src.length ≤ src'.length := hp.length_le
  exact ⟨h1, by omega, h3, fun hi => EolAtEnd_mono hp h2 (h4 hi)⟩

theorem NoBracket_mono {src src' : Bytes} (hp : src <+: src') {is : List Tree} (h : NoBracket src is) : NoBracket src' is := by
  obtain ⟨first, rest, e, h1, h2, h3, h4, h5⟩ := h
  have hl : src.length ≤ src'.length := hp.length_le
  refine ⟨first, rest, e, h1, h2, h3, by omega, ?_⟩
  rw [getD_prefix hp (by omega)]
  exact h5

theorem ParaGood_mono {src src' : Bytes} {bd bd' : Int} (hp : src <+: src') (hb : bd ≤ bd') {is : List Tree}
    (h : ParaGood src bd is) : ParaGood src' bd' is := by
  rcases h with h | h
  · exact Or.inl (fun t ht => ⟨NodeOK_mono hp (h t ht).1, by have := (h t ht).2; omega⟩)
  · exact Or.inr (NoBracket_mono hp h)

theorem BlockOK_mono {src src' : Bytes} {bd bd' : Int} (hp : src <+: src') (hb : bd ≤ bd') {b : PB} (h : BlockOK src bd b) :
    BlockOK src' bd' b :=
  ⟨fun hk => ParaGood_mono hp hb (h.1 hk), h.2⟩

theorem GoodT_mono {src src' : Bytes} {bd bd' : Int} (hp : src <+: src') (hb : bd ≤ bd') :
    ∀ b : PB, GoodT src bd b → GoodT src' bd' b := by
  apply PB.ind
  intro l bs is ih h
  rw [GoodT_mk] at h ⊢
  exact ⟨BlockOK_mono hp hb h.1, fun b hb' => ih b hb' (h.2 b hb')⟩

/-! ### `BlockOK` looks at the kind, the end and the inline children only -/

theorem BlockOK_congr {src : Bytes} {bd : Int} {b b' : PB} (hk : b'.kind = b.kind) (hs : b'.label.stop = b.label.stop)
    (hi : b'.inlines = b.inlines) (h : BlockOK src bd b) : BlockOK src bd b' := by
  unfold BlockOK at *
  rw [hk, hs, hi]
  exact h

theorem BlockOK_of_kind {src : Bytes} {bd : Int} {b : PB} (h1 : b.kind ≠ BK.paragraph) (h2 : b.kind ≠ BK.setextHeading) : BlockOK src bd b :=
  ⟨fun h => absurd h h1, fun _ => h2⟩

theorem GoodT_setLabel {src : Bytes} {bd : Int} {f : PLabel → PLabel} (hk : ∀ l, (f l).kind = l.kind) (hs : ∀ l, (f l).stop = l.stop)
    {b : PB} (h : GoodT src bd b) : GoodT src bd (b.setLabel f) := by
  obtain ⟨l, bs, is⟩ := b
  simp only [PB.setLabel]
  rw [GoodT_mk] at h ⊢
  refine ⟨BlockOK_congr (b := .mk l bs is) ?_ ?_ rfl h.1, h.2⟩
  · simp only [PB.kind, PB.label]; exact hk l
  · simp only [PB.label]; exact hs l

theorem GoodT.block {src : Bytes} {bd : Int} {b : PB} (h : GoodT src bd b) : BlockOK src bd b := by
  obtain ⟨l, bs, is⟩ := b
  exact ((GoodT_mk src bd l bs is).1 h).1

theorem GoodT.kids {src : Bytes} {bd : Int} {b : PB} (h : GoodT src bd b) : ∀ c ∈ b.blocks, GoodT src bd c := by
  obtain ⟨l, bs, is⟩ := b
  exact ((GoodT_mk src bd l bs is).1 h).2

/-! ### `ParaGood` -/

theorem ParaGood_snoc {src : Bytes} {bd : Int} {is : List Tree} {t : Tree} (h : ParaGood src bd is)
    (ht : NodeOK src t ∧ t.label.stop ≤ bd) : ParaGood src bd (is ++ [t]) := by
  rcases h with h | ⟨first, rest, e, h1⟩
  · left
    intro t' ht'
    rcases List.mem_append.mp ht' with h' | h'
    · exact h t' h'
    · simp only [List.mem_singleton] at h'; subst h'; exact ht
  · right
    exact ⟨first, rest ++ [t], by rw [e]; rfl, h1⟩

theorem ParaGood_nil (src : Bytes) (bd : Int) : ParaGood src bd [] := Or.inl (fun _ h => by cases h)

/-! ### spine operations -/

theorem GoodT_spineGet {src : Bytes} {bd : Int} : ∀ (d : Nat) (b c : PB), GoodT src bd b → spineGet b d = some c → GoodT src bd c := by
  intro d
  induction d with
  | zero => intro b c h e; rw [spineGet_zero] at e; cases e; exact h
  | succ d ih =>
    intro b c h e
    obtain ⟨l, bs, is⟩ := b
    rw [spineGet_succ] at e
    cases hgl : bs.getLast? with
    | none => rw [hgl] at e; cases e
    | some c' =>
      rw [hgl] at e
      exact ih c' c (h.kids c' (List.mem_of_getLast? hgl)) e

theorem GoodT_spineModify {src : Bytes} {bd : Int} (f : PB → PB) : ∀ (d : Nat) (b : PB), GoodT src bd b →
    (∀ c, spineGet b d = some c → GoodT src bd c → GoodT src bd (f c)) → GoodT src bd (spineModify f b d) := by
  intro d
  induction d with
  | zero => intro b h hf; rw [spineModify_zero]; exact hf b (spineGet_zero b) h
  | succ d ih =>
    intro b h hf
    obtain ⟨l, bs, is⟩ := b
    rw [spineModify_succ]
    rw [spineGet_succ] at hf
    cases hgl : bs.getLast? with
    | none => exact h
    | some c =>
      rw [hgl] at hf
      simp only [] at hf ⊢
      rw [GoodT_mk] at h ⊢
      refine ⟨BlockOK_congr (b := .mk l bs is) rfl rfl rfl h.1, ?_⟩
      intro b hb
      rcases List.mem_append.mp hb with h' | h'
      · exact h.2 b ((List.dropLast_sublist bs).subset h')
      · simp only [List.mem_singleton] at h'
        subst h'
        exact ih c (h.2 c (List.mem_of_getLast? hgl)) hf

theorem GoodT_spineReplaceLast {src : Bytes} {bd : Int} (g : PB → List PB) (root : PB) (d : Nat) (h : GoodT src bd root)
    (hg : ∀ c, spineGet root (d + 1) = some c → GoodT src bd c → ∀ c' ∈ g c, GoodT src bd c') :
    GoodT src bd (spineReplaceLast g root d) := by
  rw [spineReplaceLast_eq]
  apply GoodT_spineModify _ d root h
  intro b hb hbg
  obtain ⟨l, bs, is⟩ := b
  simp only [replaceLastFn]
  cases hgl : bs.getLast? with
  | none => exact hbg
  | some c =>
    simp only []
    have hc : spineGet root (d + 1) = some c := by
      rw [spineGet_succ_eq, hb]; simpa [PB.blocks] using hgl
    rw [GoodT_mk] at hbg ⊢
    refine ⟨BlockOK_congr (b := .mk l bs is) rfl rfl rfl hbg.1, ?_⟩
    intro b' hb'
    rcases List.mem_append.mp hb' with h' | h'
    · exact hbg.2 b' ((List.dropLast_sublist bs).subset h')
    · exact hg c hc (hbg.2 c (List.mem_of_getLast? hgl)) b' h'

theorem GoodT_setBlankFlags {src : Bytes} {bd : Int} (v : Bool) : ∀ (d : Nat) (b : PB), GoodT src bd b → GoodT src bd (setBlankFlags v b d) := by
  intro d
  induction d with
  | zero =>
    intro b h
    obtain ⟨l, bs, is⟩ := b
    simp only [setBlankFlags]
    rw [GoodT_mk] at h ⊢
    exact ⟨BlockOK_congr (b := .mk l bs is) rfl rfl rfl h.1, h.2⟩
  | succ d ih =>
    intro b h
    obtain ⟨l, bs, is⟩ := b
    simp only [setBlankFlags]
    rw [GoodT_mk] at h
    cases hgl : bs.getLast? with
    | none =>
      simp only []
      rw [GoodT_mk]
      exact ⟨BlockOK_congr (b := .mk l bs is) rfl rfl rfl h.1, h.2⟩
    | some c =>
      simp only []
      rw [GoodT_mk]
      refine ⟨BlockOK_congr (b := .mk l bs is) rfl rfl rfl h.1, ?_⟩
      intro b hb
      rcases List.mem_append.mp hb with h' | h'
      · exact h.2 b ((List.dropLast_sublist bs).subset h')
      · simp only [List.mem_singleton] at h'
        subst h'
        exact ih c (h.2 c (List.mem_of_getLast? hgl))

/-! ### `refDefLoop` / `onCloseParagraph` -/

/-- A list of good blocks. -/
def GoodAll (src : Bytes) (bd : Int) (L : List PB) : Prop := ∀ b ∈ L, GoodT src bd b

theorem GoodAll.append {src : Bytes} {bd : Int} {a b : List PB} (h1 : GoodAll src bd a) (h2 : GoodAll src bd b) : GoodAll src bd (a ++ b) := by
  intro c hc
  rcases List.mem_append.mp hc with h | h
  · exact h1 c h
  · exact h2 c h

theorem GoodAll.single {src : Bytes} {bd : Int} {b : PB} (h : GoodT src bd b) : GoodAll src bd [b] := by
  intro c hc; simp only [List.mem_singleton] at hc; subst hc; exact h

theorem GoodAll.nil (src : Bytes) (bd : Int) : GoodAll src bd [] := fun _ h => by cases h

theorem good_refdef (src : Bytes) (bd : Int) (s e : Int) (kids : List Tree) : GoodAll src bd [mkPB BK.linkRefDef s e kids] := by
  apply GoodAll.single
  rw [mkPB, GoodT_mk]
  exact ⟨BlockOK_of_kind (show BK.linkRefDef ≠ BK.paragraph by decide) (show BK.linkRefDef ≠ BK.setextHeading by decide),
    fun _ h => by cases h⟩

/-- The kind of a block handled by `onCloseParagraph`: a paragraph, or a setext heading that has been closed. -/
def PKind (l : PLabel) : Prop := l.kind = BK.paragraph ∨ (l.kind = BK.setextHeading ∧ 0 ≤ l.stop)

theorem good_rest {src : Bytes} {bd : Int} {l : PLabel} {is : List Tree} (hk : PKind l) (hN : ∀ t ∈ is, NodeOK src t ∧ t.label.stop ≤ bd) (s : Int) (fc : Nat) :
    GoodAll src bd [PB.mk { l with start := s } [] (is.drop fc)] := by
  apply GoodAll.single
  rw [GoodT_mk]
  refine ⟨⟨fun _ => Or.inl (fun t ht => hN t (List.mem_of_mem_drop ht)), fun ho => ?_⟩, fun _ h => by cases h⟩
  rcases hk with hk | ⟨_, hk⟩
  · simp only [PB.kind, PB.label]; rw [hk]; decide
  · simp only [PB.label] at ho; omega

theorem good_whole {src : Bytes} {bd : Int} {l : PLabel} {is : List Tree} (hk : PKind l) (hN : ParaGood src bd is) :
    GoodAll src bd [PB.mk l [] is] := by
  apply GoodAll.single
  rw [GoodT_mk]
  refine ⟨⟨fun _ => hN, fun ho => ?_⟩, fun _ h => by cases h⟩
  rcases hk with hk | ⟨_, hk⟩
  · simp only [PB.kind, PB.label]; rw [hk]; decide
  · simp only [PB.label] at ho; omega

theorem refDefLoop_good (x : PExt) (src : Bytes) (bd : Int) (orphan : Option PB)
    (fuel : Nat) (r : Rd) (l : PLabel) (is : List Tree) (result : List PB) :
    (∀ o, orphan = some o → GoodAll src bd [o]) → PKind l → (∀ t ∈ is, NodeOK src t ∧ t.label.stop ≤ bd) → GoodAll src bd result →
    GoodAll src bd (refDefLoop x src orphan fuel r l is result) := by
  cases orphan <;> fun_induction refDefLoop x src _ fuel r l is result
  all_goals intro ho hk hN hres
  all_goals first
    | exact hres.append (good_whole hk (Or.inl hN))
    | exact hres.append (good_refdef _ _ _ _ _)
    | exact (hres.append (good_refdef _ _ _ _ _)).append (ho _ rfl)
    | exact (hres.append (good_refdef _ _ _ _ _)).append (good_rest hk hN _ _)
    | (rename_i ih; exact ih ho (by exact hk) (fun t ht => hN t (List.mem_of_mem_drop ht)) (hres.append (good_refdef _ _ _ _ _)))

end CM.Proofs.RDS
