import CM.Proofs.QuoteRdJ
import CM.Proofs.QuoteSpine
/-
C09, `onCloseParagraph` with `[` (11): the blocks built by `refDefLoop` — the relation `KidR` between the inline children
of corresponding link reference definitions (label, destination, title: same kind and normalised label, corresponding
ends, the same concatenated text of the children), the blocks of the result, and the behaviour of a dead reader.
-/
namespace CM.Proofs.Quote
open CM CM.Model CM.Gen

variable {E : Env} {is is' : List Tree}

/-- Corresponding inline children of a link reference definition. -/
structure KidR (E : Env) (t t' : Tree) : Prop where
  label : { t'.label with start := t.label.start, stop := t.label.stop } = t.label
  start : E.PR t.label.start t'.label.start
  stop : E.PR t.label.stop t'.label.stop
  text : flat E.src t.children = flat E.src' t'.children

/-- The environment's relation `DR` contains `KidR`. -/
def DRIntro (E : Env) : Prop := ∀ ks ks' : List Tree, L2 (KidR E) ks ks' → E.DR ks ks'

theorem toNat_cast {a : Int} (h : 0 ≤ a) : ((a.toNat : Nat) : Int) = a := Int.toNat_of_nonneg h

theorem PosP.cast {a a' : Int} (hc : PC E is is') (h : PosP is is' a a') :
    PosP is is' ((a.toNat : Nat) : Int) ((a'.toNat : Nat) : Int) := by
  obtain ⟨h1, h2⟩ := h.nonneg hc
  rw [toNat_cast h1, toNat_cast h2]; exact h

theorem LiveP.cast {a a' : Int} (hc : PC E is is') (h : LiveP is is' a a') :
    LiveP is is' ((a.toNat : Nat) : Int) ((a'.toNat : Nat) : Int) := by
  obtain ⟨h1, h2⟩ := h.posP.nonneg hc
  rw [toNat_cast h1, toNat_cast h2]; exact h

theorem StartP.cast {a a' : Int} (hc : PC E is is') (h : StartP is is' a a') :
    StartP is is' ((a.toNat : Nat) : Int) ((a'.toNat : Nat) : Int) := by
  obtain ⟨h1, h2⟩ := (h.posP hc).nonneg hc
  rw [toNat_cast h1, toNat_cast h2]; exact h

/-- The label child. -/
theorem kid_label (hc : PC E is is') (x : PExt) {lab lab' : LinkLabel} (h : LabelR is is' lab lab') :
    KidR E
      (mkInlineRef IK.linkLabel lab.inner.start lab.inner.stop
        (transformLinkReferenceSpan x.fold E.src is lab.inner.start.toNat lab.inner.stop.toNat)
        (collectTextNodes x.ext E.src lab.inner.stop.toNat IK.text false (rdFuel E.src is)
          (newReader is lab.inner.start.toNat) lab.inner.start.toNat []))
      (mkInlineRef IK.linkLabel lab'.inner.start lab'.inner.stop
        (transformLinkReferenceSpan x.fold E.src' is' lab'.inner.start.toNat lab'.inner.stop.toNat)
        (collectTextNodes x.ext E.src' lab'.inner.stop.toNat IK.text false (rdFuel E.src' is')
          (newReader is' lab'.inner.start.toNat) lab'.inner.start.toNat [])) := by
  refine ⟨?_, h.istart.posP.pr hc, h.istop.pr hc, ?_⟩
  · simp only [mkInlineRef, Tree.label]
    rw [transform_sim hc x.fold (h.istart.cast hc) (h.istop.cast hc)]
  · exact cTN_fresh_sim hc x.ext IK.text false (Or.inl (h.istart.cast hc)) (h.istop.cast hc)

/-- The destination child. -/
theorem kid_dest (hc : PC E is is') (x : PExt) {d d' : LinkDest} (h : DestR is is' d d') :
    KidR E
      (mkInline IK.linkDest d.span.start d.span.stop
        (collectTextNodes x.ext E.src d.text.stop.toNat IK.text true (rdFuel E.src is)
          (newReader is d.text.start.toNat) d.text.start.toNat []))
      (mkInline IK.linkDest d'.span.start d'.span.stop
        (collectTextNodes x.ext E.src' d'.text.stop.toNat IK.text true (rdFuel E.src' is')
          (newReader is' d'.text.start.toNat) d'.text.start.toNat [])) := by
  refine ⟨rfl, h.start.posP.pr hc, h.stop.pr hc, ?_⟩
  exact cTN_fresh_sim hc x.ext IK.text true (h.tstart.cast hc) (h.tstop.cast hc)

/-- The title child. -/
theorem kid_title (hc : PC E is is') (x : PExt) {t t' : LinkTitle} (h : TitleR is is' t t') :
    KidR E
      (mkInline IK.linkTitle t.span.start t.span.stop
        (collectTextNodes x.ext E.src t.text.stop.toNat IK.text true (rdFuel E.src is)
          (newReader is t.text.start.toNat) t.text.start.toNat []))
      (mkInline IK.linkTitle t'.span.start t'.span.stop
        (collectTextNodes x.ext E.src' t'.text.stop.toNat IK.text true (rdFuel E.src' is')
          (newReader is' t'.text.start.toNat) t'.text.start.toNat [])) := by
  refine ⟨rfl, h.start.posP.pr hc, h.stop.pr hc, ?_⟩
  exact cTN_fresh_sim hc x.ext IK.text true (h.tstart.cast hc) (h.tstop.cast hc)

/-! ### the blocks of the result -/

/-- A link reference definition. -/
theorem br_refdef (hc : PC E is is') (HD : DRIntro E) {s s' e e' : Int} (hs : PosP is is' s s') (he : PosP is is' e e')
    {ks ks' : List Tree} (hk : L2 (KidR E) ks ks') : BR E (mkPB BK.linkRefDef s e ks) (mkPB BK.linkRefDef s' e' ks') := by
  obtain ⟨e0, e0'⟩ := he.nonneg hc
  unfold mkPB
  rw [BR_mk]
  refine ⟨⟨rfl, rfl, rfl, rfl, rfl, rfl, hs.pr hc, ?_, fun _ => he.pr hc⟩, .nil, ?_⟩
  · show e' < 0 ↔ e < 0
    constructor <;> intro h <;> omega
  · unfold InlR
    rw [if_pos rfl]
    exact HD _ _ hk

/-- A paragraph (or setext heading) with the remaining inline children. -/
theorem br_para {l l' : PLabel} (hl : LR E l l') (hk : l.kind ≠ BK.linkRefDef) {js js' : List Tree}
    (hj : L2 (IR E) js js') : BR E (.mk l [] js) (.mk l' [] js') := by
  rw [BR_mk]
  refine ⟨hl, .nil, ?_⟩
  unfold InlR
  rw [if_neg hk]; exact hj

theorem LR.setStart {l l' : PLabel} (hl : LR E l l') {a a' : Int} (h : E.PR a a') :
    LR E { l with start := a } { l' with start := a' } :=
  ⟨hl.kind, hl.n, hl.char, hl.indent, hl.loose, hl.blank, h, hl.openIff, hl.stop⟩

/-- `withOrphan`. -/
def wOrph (orphan : Option PB) (res : List PB) : List PB :=
  match orphan with
  | some o => res ++ [o]
  | none => res

theorem withOrphan_rel {o : Option PB} {o' : Option PB} (ho : OR (BR E) o o') {res res' : List PB}
    (h : L2 (BR E) res res') : L2 (BR E) (wOrph o res) (wOrph o' res') := by
  cases ho with
  | nn => exact h
  | ss r => exact h.concat r

/-! ### a dead reader -/

theorem skipLinkSpace_dead {src : Bytes} {is : List Tree} (hc : RDS.Ctx src is) {r : Rd} (h : RDS.RI src is r)
    (hd : r.spans = []) (f : Nat) : (skipLinkSpace src f r).2 = r := by
  cases f with
  | zero => rfl
  | succ f =>
    have e := RDS.current_eq hc h
    have n := RDS.next_dead hc h hd
    rw [skipLinkSpace, e]
    simp only [n]
    split
    · rfl
    · split
      · rfl
      · rfl

theorem parseLinkTitle_dead {src : Bytes} {is : List Tree} (hc : RDS.Ctx src is) {r : Rd} (h : RDS.RI src is r)
    (hd : r.spans = []) (f : Nat) : (parseLinkTitle src f r).1.span.isValid = false := by
  have e := RDS.current_eq hc h
  have n := RDS.next_dead hc h hd
  rw [parseLinkTitle, e]
  simp only
  split
  · exact RDS.noTitle_invalid
  · cases f with
    | zero => exact RDS.noTitle_invalid
    | succ f =>
      rw [titleLoop, n]
      exact RDS.noTitle_invalid

theorem nodeIndex_none_of : ∀ (is : List Tree) (pos i : Nat), (∀ t ∈ is, t.label.start ≤ (pos : Int) ∧ t.label.stop ≤ (pos : Int)) →
    nodeIndexForPosition is pos i = none := by
  intro is
  induction is with
  | nil => intro _ _ _; rfl
  | cons t rest ih =>
    intro pos i h
    obtain ⟨h1, h2⟩ := h t List.mem_cons_self
    simp only [nodeIndexForPosition]
    rw [if_neg (by omega)]
    have : spanContains t pos = false := by
      simp only [spanContains, Bool.and_eq_false_iff, decide_eq_false_iff_not]
      right; omega
    rw [this]
    simp only [Bool.false_eq_true, if_false]
    exact ih pos (i + 1) fun u hu => h u (List.mem_cons_of_mem _ hu)

/-- Behind the last node there is no node. -/
theorem nodeIndex_dead (hc : PC E is is') {r r' : Rd} (hr : RR E is is' r r') (hd : r.spans = []) :
    nodeIndexForPosition is r.pos 0 = none ∧ nodeIndexForPosition is' r'.pos 0 = none := by
  obtain ⟨t, t', g1, g2, p1, p2⟩ := hr.dead hd
  have g1' := getLast?_get g1
  have g2' := getLast?_get g2
  have side : ∀ {src : Bytes} {js : List Tree} (hcx : RDS.Ctx src js) {u : Tree} {pos : Nat}
      (gu : js[js.length - 1]? = some u) (pu : (pos : Int) = u.label.stop), nodeIndexForPosition js pos 0 = none := by
    intro src js hcx u pos gu pu
    apply nodeIndex_none_of
    intro v hv
    obtain ⟨j, hj⟩ := List.getElem?_of_mem hv
    have hjl : j < js.length := (List.getElem?_eq_some_iff.mp hj).1
    have nv := (hcx.ok v hv).1
    have nu := (hcx.ok u (List.mem_of_getElem? gu)).1
    by_cases hjj : j = js.length - 1
    · subst hjj
      rw [gu] at hj; cases hj
      constructor <;> omega
    · have := sorted_idx hcx.sorted hj gu (by omega)
      constructor <;> omega
  exact ⟨side hc.c g1' p1, side hc.c' g2' p2⟩

/-- At a live reader the node found is the reader's node, on both sides. -/
theorem nodeIndex_live (hc : PC E is is') {r r' : Rd} {k o : Nat} {t t' : Tree} (hl : LiveAt E is is' r r' k o t t') :
    nodeIndexForPosition is r.pos 0 = some k ∧ nodeIndexForPosition is' r'.pos 0 = some k := by
  have := hl.pos; have := hl.pos'; have := hl.nn; have := hl.nn'; have := hl.lt; have := hl.nr.len
  exact ⟨RDS.nodeIndex_of_drop hc.c k (drop_of_get hl.g) (by omega) (by omega),
    RDS.nodeIndex_of_drop hc.c' k (drop_of_get hl.g') (by omega) (by omega)⟩

/-- The reader continues on the remaining nodes. -/
theorem RR.dropLive (_hc : PC E is is') {r r' : Rd} (hr : RR E is is' r r') {k o : Nat} {t t' : Tree}
    (hl : LiveAt E is is' r r' k o t t') : RR E (is.drop k) (is'.drop k) r r' := by
  have d1 : r.spans = (is.drop k).drop 0 := by rw [hl.sp, List.drop_zero, drop_of_get hl.g]
  have d2 : r'.spans = (is'.drop k).drop 0 := by rw [hl.sp', List.drop_zero, drop_of_get hl.g']
  refine ⟨⟨⟨0, d1⟩, hr.ri.norm, hr.ri.vp, fun hd => absurd hd hl.ne⟩,
    ⟨⟨0, d2⟩, hr.ri'.norm, hr.ri'.vp, fun hd => ?_⟩, ⟨0, d1, d2⟩, hr.off, fun hd => absurd hd hl.ne⟩
  rw [hl.sp'] at hd; cases hd

end CM.Proofs.Quote
