import CM.Proofs.InlReadOnly
/-
The generic arena invariant of the inline phase: every node satisfies `φ` (for any `φ` closed under what the
parser does to nodes: `NodeInv`), the delimiter stack points to Text nodes, the root has kind 0.
Part 1: the invariant, the primitives and the tree surgery (`wrap`, `removeNode`, `processEmphasis`).
-/
namespace CM.Proofs.InlH
open CM CM.Model CM.Model.Inl
open Std.Do

set_option mvcgen.warning false

/-- The arena node made from a block-phase inline node (`importNode`). -/
def ofTree (t : Tree) : INode :=
  { kind := t.label.kind, start := t.label.start, stop := t.label.stop, indent := t.label.indent,
    ref := t.label.ref, sub := t.children }

/-- What a per-node property `φ` has to satisfy to be an invariant of the arena: it holds for every node the
    parser allocates (with what is known at the allocation site) and is kept by every modification the parser
    makes (children lists of any node, spans of delimiter nodes and of the root, span and reference of a fresh
    link). These are ALL allocation sites (`alloc`) and ALL node-modifying sites (`modifyNode`) of the model. -/
structure NodeInv (c : ICtx) (φ : INode → Prop) : Prop where
  /-- `addText`, delimiter runs, brackets, literal `]`, backslash escapes -/
  text : ∀ a b, φ { kind := IK.text, start := a, stop := b }
  hardBreak : ∀ a b, φ { kind := IK.hardBreak, start := a, stop := b }
  /-- `&…;` in `parseRun`: `e` is the result of `parseCharacterEscape` on `source[pos:spanEnd]` -/
  charRef : ∀ (pos se e : Int), 0 ≤ pos → pos ≤ se → se ≤ c.srcA.size → 0 ≤ e →
    parseCharacterEscape c.x.ext (c.srcA.extract pos.toNat se.toNat).toList = e →
    φ { kind := IK.charRef, start := pos, stop := pos + e }
  /-- a soft break at a lone LF or CR -/
  softBreak1 : ∀ (pos : Int), 0 ≤ pos → pos < c.srcA.size → (c.srcA[pos.toNat]! = LF ∨ c.srcA[pos.toNat]! = CR) →
    φ { kind := IK.softBreak, start := pos, stop := pos + 1 }
  /-- a soft break at CR LF -/
  softBreak2 : ∀ (pos : Int), 0 ≤ pos → pos + 1 < c.srcA.size → c.srcA[pos.toNat]! = CR →
    c.srcA[(pos + 1).toNat]! = LF → φ { kind := IK.softBreak, start := pos, stop := pos + 2 }
  /-- `wrap` -/
  wrapped : ∀ k a b, (k = IK.emphasis ∨ k = IK.strong ∨ k = IK.link ∨ k = IK.image) →
    φ { kind := k, start := a, stop := b }
  /-- nodes taken over from the block phase -/
  imported : ∀ t ∈ c.unparsed, t.label.isBlock = false → t.label.kind ≠ 0 → t.label.kind ≠ IK.unparsed → φ (ofTree t)
  codeSpan : ∀ a b (ks : Array CSN), CSNOK ks →
    φ { kind := IK.codeSpan, start := a, stop := b, sub := ks.toList.map CSN.toTree }
  autolink : ∀ a b a' b', φ { kind := IK.autolink, start := a, stop := b, sub := [mkInline IK.text a' b'] }
  htmlTag : ∀ a b stop fuel k p ps,
    φ { kind := IK.htmlTag, start := a, stop := b,
        sub := collectTextNodes c.x.ext c.src stop IK.rawHTML false fuel (newReader (c.unparsedL.drop k) p) ps [] }
  linkDest : ∀ a b stop fuel k p ps,
    φ { kind := IK.linkDest, start := a, stop := b,
        sub := collectTextNodes c.x.ext c.src stop IK.text true fuel (newReader (c.unparsedL.drop k) p) ps [] }
  linkDestEmpty : ∀ a b, φ { kind := IK.linkDest, start := a, stop := b, sub := [] }
  linkTitle : ∀ a b stop fuel k p ps,
    φ { kind := IK.linkTitle, start := a, stop := b,
        sub := collectTextNodes c.x.ext c.src stop IK.text true fuel (newReader (c.unparsedL.drop k) p) ps [] }
  linkTitleEmpty : ∀ a b, φ { kind := IK.linkTitle, start := a, stop := b, sub := [] }
  linkLabel : ∀ a b stop fuel k p ps ref, c.matchRef ref = true →
    φ { kind := IK.linkLabel, start := a, stop := b, ref := ref,
        sub := collectTextNodes c.x.ext c.src stop IK.text false fuel (newReader (c.unparsedL.drop k) p) ps [] }
  /-- children lists change (`addToRoot`, `wrap`, `removeNode`, `appendFinished`) -/
  modKids : ∀ n ks, φ n → φ { n with kids := ks }
  /-- delimiter nodes (Text) shrink in `processEmphasis` (kind 0 is the root) -/
  modSpan : ∀ n a b, φ n → n.kind ≤ 1 → φ { n with start := a, stop := b }
  /-- a fresh link / image gets its span and, for collapsed and shortcut references, its reference -/
  modLink : ∀ n a b r, φ n → (n.kind = IK.link ∨ n.kind = IK.image) → (r = n.ref ∨ c.matchRef r = true) →
    φ { n with start := a, stop := b, ref := r }

/-- Stack entries point to existing Text nodes. -/
def StackOK (a : Array INode) (st : Array DelimE) : Prop := ∀ e ∈ st, KindP (· = IK.text) a e.node

/-- The generic invariant, on the two components of the state it speaks about. -/
structure GA (φ : INode → Prop) (a : Array INode) (st : Array DelimE) : Prop where
  nodes : ANodes φ a
  stack : StackOK a st
  root : KindP (· = 0) a 0

/-- The generic invariant of the inline phase. (Reducible: a goal `G φ ⟨nodes, _, _, stack, _⟩` about a
    symbolically executed state is a goal `GA φ nodes stack`.) -/
abbrev G (φ : INode → Prop) (s : IState) : Prop := GA φ s.nodes s.stack

theorem StackOK.pushN {a : Array INode} {st : Array DelimE} {n : INode} (h : StackOK a st) : StackOK (a.push n) st :=
  fun e he => (h e he).push

theorem StackOK.modifyN {a : Array INode} {st : Array DelimE} {j : Nat} {f : INode → INode} (hf : KPres f)
    (h : StackOK a st) : StackOK (a.modify j f) st :=
  fun e he => (h e he).modify hf

theorem StackOK.extract {a : Array INode} {st : Array DelimE} (h : StackOK a st) (i j : Nat) :
    StackOK a (st.extract i j) := by
  intro e he
  obtain ⟨k, hk, rfl⟩ := Array.mem_extract_iff_getElem.1 he
  exact h _ (Array.getElem_mem _)

theorem StackOK.append {a : Array INode} {x y : Array DelimE} (hx : StackOK a x) (hy : StackOK a y) :
    StackOK a (x ++ y) := by
  intro e he
  rcases Array.mem_append.1 he with h | h
  · exact hx e h
  · exact hy e h

theorem StackOK.pushE {a : Array INode} {st : Array DelimE} {e : DelimE} (h : StackOK a st)
    (he : KindP (· = IK.text) a e.node) : StackOK a (st.push e) := by
  intro x hx
  rcases Array.mem_push.1 hx with h' | h'
  · exact h x h'
  · subst h'; exact he

theorem StackOK.set! {a : Array INode} {st : Array DelimE} {i : Nat} {e : DelimE} (h : StackOK a st)
    (he : KindP (· = IK.text) a e.node) : StackOK a (st.set! i e) := by
  intro x hx
  rw [Array.set!_eq_setIfInBounds] at hx
  rcases Array.mem_or_eq_of_mem_setIfInBounds hx with h' | h'
  · exact h x h'
  · subst h'; exact he

theorem StackOK.get {a : Array INode} {st : Array DelimE} (h : StackOK a st) (hr : KindP (· = 0) a 0) (i : Nat) :
    KindP (· ≤ 1) a (st[i]!).node := by
  by_cases hi : i < st.size
  · rw [getElem!_pos st i hi]
    exact (h _ (Array.getElem_mem hi)).mono (fun k hk => by rw [hk]; decide)
  · rw [getElem!_neg st i hi]
    exact hr.mono (fun k hk => by rw [hk]; decide)

theorem StackOK.empty {a : Array INode} : StackOK a #[] := fun e he => by simp at he

/-- A stack entry read with `st[i]!` points to a Text node, or (index out of range: the default entry) to the
    root. -/
theorem GA.stack_get {φ : INode → Prop} {a : Array INode} {st : Array DelimE} (h : GA φ a st) (i : Nat) :
    KindP (· ≤ 1) a (st[i]!).node := by
  by_cases hi : i < st.size
  · rw [getElem!_pos st i hi]
    exact (h.stack _ (Array.getElem_mem hi)).mono (fun k hk => by rw [hk]; decide)
  · rw [getElem!_neg st i hi]
    exact h.root.mono (fun k hk => by rw [hk]; decide)

/-! ### state updates -/

/-- `alloc` -/
theorem GA.push {φ : INode → Prop} {a : Array INode} {st : Array DelimE} {n : INode} (h : GA φ a st) (hn : φ n) :
    GA φ (a.push n) st := ⟨h.nodes.push hn, h.stack.pushN, h.root.push⟩

/-- `modifyNode id f` for a kind-preserving `f` that keeps `φ` on nodes whose kind satisfies `P` -/
theorem GA.modifyK {φ : INode → Prop} {P : Nat → Prop} {a : Array INode} {st : Array DelimE} {id : Nat}
    {f : INode → INode} (h : GA φ a st) (hk : KindP P a id) (hK : KPres f) (hf : ∀ n, φ n → P n.kind → φ (f n)) :
    GA φ (a.modify id f) st := ⟨h.nodes.modifyK hk hf, h.stack.modifyN hK, h.root.modify hK⟩

/-- `modifyNode id f` for a kind-preserving `f` that keeps `φ` on every node -/
theorem GA.modify {φ : INode → Prop} {a : Array INode} {st : Array DelimE} {id : Nat} {f : INode → INode}
    (h : GA φ a st) (hK : KPres f) (hf : ∀ n, φ n → φ (f n)) : GA φ (a.modify id f) st :=
  ⟨h.nodes.modify (fun hid => hf _ (h.nodes _ hid)), h.stack.modifyN hK, h.root.modify hK⟩

/-- a new stack -/
theorem GA.setStack {φ : INode → Prop} {a : Array INode} {st st' : Array DelimE} (h : GA φ a st)
    (hs : StackOK a st') : GA φ a st' := ⟨h.nodes, hs, h.root⟩

/-- `delStack i j` -/
theorem GA.delStack {φ : INode → Prop} {a : Array INode} {st : Array DelimE} (h : GA φ a st) (i j k l : Nat) :
    GA φ a (st.extract i j ++ st.extract k l) := h.setStack ((h.stack.extract i j).append (h.stack.extract k l))

/-- `pushStack e` -/
theorem GA.pushStack {φ : INode → Prop} {a : Array INode} {st : Array DelimE} {e : DelimE} (h : GA φ a st)
    (he : KindP (· = IK.text) a e.node) : GA φ a (st.push e) := h.setStack (h.stack.pushE he)

/-! ### tactics for symbolically executed states -/

section
variable {c : ICtx} {φ : INode → Prop}

/-- Normalise a goal `G φ s'` about a symbolically executed state `s'` to `GA φ nodes stack`. -/
macro "inl_state" : tactic =>
  `(tactic| (simp -failIfUnchanged +zetaDelta only []; try refine ⟨trivial, ?_⟩
             show GA _ _ _; try dsimp only))

/-- closes `G φ s'` where `s'` is `s` after `modifyNode id f` with `f` only changing `kids` -/
macro "inl_modkids " h:term " with " hN:term : tactic =>
  `(tactic| (inl_state
             refine GA.modify $h ?_ ?_
             · exact (fun _ => rfl)
             · exact (fun n hn => NodeInv.modKids $hN _ _ hn)))

/-- closes the verification conditions that need no thought -/
macro "inl_triv" : tactic =>
  `(tactic| all_goals (try (first
      | assumption
      | exact ExceptConds.entails.refl _
      | (intros
         inl_subst
         first
          | assumption
          | contradiction
          | exact (And.left ‹G _ _ ∧ _›)
          | exact ⟨trivial, ‹G _ _›⟩
          | exact ⟨trivial, And.left ‹G _ _ ∧ _›⟩))))

/-- `addToRoot`, with the frame: kinds of the nodes of the start state `s0` are unchanged -/
@[spec]
theorem addToRoot_spec (hN : NodeInv c φ) (id : Nat) (s0 : IState) :
    ⦃fun s => ⌜s = s0 ∧ G φ s⌝⦄ addToRoot id ⦃⇓? _ s => ⌜G φ s ∧ KExt s0.nodes s.nodes⌝⦄ := by
  mvcgen [addToRoot, nodeLen, getNode, setParent, modifyNode]
  · obtain ⟨rfl, h⟩ := ‹_ = s0 ∧ G φ _›
    exact ⟨h, KExt.refl _⟩
  · obtain ⟨rfl, h⟩ := ‹_ = s0 ∧ G φ _›
    refine ⟨?_, ?_⟩
    · inl_modkids h with hN
    · simp -failIfUnchanged +zetaDelta only []
      exact KExt.modify _ _ (by intro _; rfl)

@[spec]
theorem addLeaf_spec (hN : NodeInv c φ) (kind : Nat) (a b : Int)
    (hφ : spanLenI a b ≠ 0 → φ { kind := kind, start := a, stop := b }) :
    ⦃fun s => ⌜G φ s⌝⦄ addLeaf kind a b ⦃⇓? _ s => ⌜G φ s⌝⦄ := by
  mvcgen [addLeaf, alloc]
  inl_triv
  rename_i hne s h
  inl_state; exact GA.push h (hφ (by simpa using hne))

@[spec]
theorem importNode_spec (hN : NodeInv c φ) (t : Tree) (hφ : φ (ofTree t)) :
    ⦃fun s => ⌜G φ s⌝⦄ importNode t ⦃⇓? _ s => ⌜G φ s⌝⦄ := by
  mvcgen [importNode, alloc, modifyNode]
  rename_i s h _ 
  inl_modkids (GA.push h hφ) with hN

@[spec]
theorem removeNode_spec (hN : NodeInv c φ) (id : Nat) :
    ⦃fun s => ⌜G φ s⌝⦄ removeNode id ⦃⇓? _ s => ⌜G φ s⌝⦄ := by
  mvcgen [removeNode, setParent, modifyNode]
  · rename_i h _ _ _ _
    inl_modkids h with hN
  · intro h; exact h.elim

@[spec]
theorem delStack_spec (i j : Nat) :
    ⦃fun s => ⌜G φ s⌝⦄ delStack i j ⦃⇓? _ s => ⌜G φ s⌝⦄ := by
  mvcgen [delStack]
  rename_i h _ _; inl_state; exact GA.delStack h _ _ _ _

@[spec]
theorem wrap_spec (hN : NodeInv c φ) (kind sn : Nat) (en : Option Nat)
    (hk : kind = IK.emphasis ∨ kind = IK.strong ∨ kind = IK.link ∨ kind = IK.image) (s0 : IState) :
    ⦃fun s => ⌜s = s0 ∧ G φ s⌝⦄ wrap kind sn en ⦃⇓? r s => ⌜G φ s ∧ KindP (· = kind) s.nodes r⌝⦄ := by
  mvcgen [wrap, alloc, setParent, modifyNode]
  inl_inv (fun s => G φ s ∧ KindP (· = kind) s.nodes s0.nodes.size)
  inl_norm
  all_goals (try assumption)
  · obtain ⟨rfl, h⟩ := ‹_ = s0 ∧ G φ _›
    simp -failIfUnchanged +zetaDelta only []
    exact ⟨GA.push h (hN.wrapped kind _ _ hk), KindP.push_new rfl⟩
  · obtain ⟨h, hkp⟩ := ‹G φ _ ∧ KindP _ _ _›
    simp -failIfUnchanged +zetaDelta only []
    refine ⟨?_, (hkp.modify (by intro _; rfl)).modify (by intro _; rfl)⟩
    inl_modkids (GA.modify h (by intro _; rfl) (fun n hn => hN.modKids _ _ hn)) with hN
  · obtain ⟨rfl, _⟩ := ‹_ = s0 ∧ G φ _›
    assumption
  · intro h; exact h.elim

@[spec]
theorem processEmphasis_spec (hN : NodeInv c φ) (sb : Nat) :
    ⦃fun s => ⌜G φ s⌝⦄ Inl.processEmphasis sb ⦃⇓? _ s => ⌜G φ s⌝⦄ := by
  mvcgen [Inl.processEmphasis, nodeLen, getNode, modifyNode]
  -- the two search loops do not touch the state: the stack read at the start of the iteration stays valid
  all_goals (try (exact (PostCond.mayThrow (fun _ s => ⌜G φ s ∧ StackOK s.nodes ‹Array DelimE›⌝))))
  inl_inv (G φ)
  inl_norm
  inl_triv
  · exact ⟨‹G φ _›, (‹G φ _›).stack⟩
  · split <;> simp
  · obtain ⟨h, hst⟩ := ‹G φ _ ∧ StackOK _ _›
    refine ⟨trivial, ?_⟩
    inl_state
    have k1 := StackOK.get hst h.root
    refine GA.modifyK (GA.modifyK h (k1 _) (by intro _; rfl) (fun n hn hk => hN.modSpan n _ _ hn hk))
      ((k1 _).modify (by intro _; rfl)) (by intro _; rfl) (fun n hn hk => hN.modSpan n _ _ hn hk)

end

end CM.Proofs.InlH
