import CM.Proofs.BlocksContractRd
/-
C01 contract for the real block parser — the reader-based scanners of LinkParse.lean keep every reader invariant
that `current` and `next` keep (generic version of CM/Proofs/BlocksWellLink.lean).
-/
namespace CM.Proofs
open CM CM.Model CM.Gen

/-- A predicate on readers kept by `current` and `next`. -/
structure RdClosed (src : Bytes) (I : Rd → Prop) : Prop where
  cur : ∀ r, I r → I (r.current src).2
  nxt : ∀ r, I r → I (r.next src).2

variable {src : Bytes} {I : Rd → Prop}

theorem RdClosed.cur' (hI : RdClosed src I) {r r1 : Rd} {c : UInt8} (h : I r) (e : r.current src = (c, r1)) : I r1 := by
  have := hI.cur r h; rw [e] at this; exact this

theorem RdClosed.nxt' (hI : RdClosed src I) {r r1 : Rd} {b : Bool} (h : I r) (e : r.next src = (b, r1)) : I r1 := by
  have := hI.nxt r h; rw [e] at this; exact this

theorem skipLinkSpace_I (hI : RdClosed src I) : ∀ (f : Nat) (r : Rd), I r → I (skipLinkSpace src f r).2 := by
  intro f
  induction f with
  | zero => intro r h; exact h
  | succ f ih =>
    intro r h
    rcases hc : r.current src with ⟨c, r1⟩
    have h1 := hI.cur' h hc
    rcases hn : r1.next src with ⟨ok, r2⟩
    have h2 := hI.nxt' h1 hn
    simp only [skipLinkSpace, hc, hn]
    split
    · exact h1
    · split
      · split
        · exact h2
        · exact ih r2 h2
      · exact h1

theorem skipSpacesAndTabs_I (hI : RdClosed src I) : ∀ (f : Nat) (r : Rd), I r → I (skipSpacesAndTabs src f r).2 := by
  intro f
  induction f with
  | zero => intro r h; exact h
  | succ f ih =>
    intro r h
    rcases hc : r.current src with ⟨c, r1⟩
    have h1 := hI.cur' h hc
    rcases hn : r1.next src with ⟨ok, r2⟩
    have h2 := hI.nxt' h1 hn
    simp only [skipSpacesAndTabs, hc, hn]
    split
    · split
      · exact h2
      · exact ih r2 h2
    · exact h1

theorem readEOL_I (hI : RdClosed src I) (f : Nat) (r : Rd) (h : I r) : I (readEOL src f r).2 := by
  have h0 := skipSpacesAndTabs_I hI f r h
  rcases hs : skipSpacesAndTabs src f r with ⟨ok, r0⟩
  rw [hs] at h0
  simp only at h0
  rcases hc : r0.current src with ⟨c, r1⟩
  have h1 := hI.cur' h0 hc
  rcases hn : r1.next src with ⟨ok1, r2⟩
  have h2 := hI.nxt' h1 hn
  rcases hc2 : r2.current src with ⟨c2, r3⟩
  have h3 := hI.cur' h2 hc2
  rcases hn3 : r3.next src with ⟨ok3, r4⟩
  have h4 := hI.nxt' h3 hn3
  simp only [readEOL, hs, hc, hn, hc2, hn3]
  split
  · exact h0
  · split
    · split
      · exact h2
      · split
        · exact h4
        · exact h3
    · split
      · exact h2
      · exact h1

theorem labelSkip_I (hI : RdClosed src I) : ∀ (f : Nat) (r : Rd) (chars : Nat) (r' : Rd) (n : Nat), I r →
    labelSkip src f r chars = some (r', n) → I r' := by
  intro f
  induction f with
  | zero => intro r chars r' n _ e; simp [labelSkip] at e
  | succ f ih =>
    intro r chars r' n h e
    rcases hn : r.next src with ⟨ok, r1⟩
    rcases hc : r1.current src with ⟨c, r2⟩
    simp only [labelSkip, hn, hc] at e
    split at e
    · cases e
    · have h1 := hI.nxt' h hn
      have h2 := hI.cur' h1 hc
      split at e
      · cases e
      · split at e
        · cases e; exact h2
        · exact ih _ _ _ _ h2 e

theorem labelBody_I (hI : RdClosed src I) : ∀ (f : Nat) (r : Rd) (chars : Nat) (ie : Int) (r' : Rd) (ie' : Int), I r →
    labelBody src f r chars ie = some (r', ie') → I r' := by
  intro f
  induction f with
  | zero => intro r chars ie r' ie' _ e; simp [labelBody] at e
  | succ f ih =>
    intro r chars ie r' ie' h e
    rcases hc : r.current src with ⟨c, r1⟩
    have h1 := hI.cur' h hc
    rcases hn : r1.next src with ⟨ok, r2⟩
    have h2 := hI.nxt' h1 hn
    rcases hc2 : r2.current src with ⟨c2, r3⟩
    have h3 := hI.cur' h2 hc2
    rcases hn3 : r3.next src with ⟨ok3, r4⟩
    have h4 := hI.nxt' h3 hn3
    simp only [labelBody, hc, hn, hc2, hn3] at e
    split at e
    · cases e; exact h1
    · split at e
      · split at e
        · cases e
        · split at e
          · cases e
          · split at e
            · cases e
            · exact ih _ _ _ _ _ h4 e
      · split at e
        · cases e
        · exact ih _ _ _ _ _ h2 e

theorem parseLinkLabel_I (hI : RdClosed src I) (f : Nat) (r : Rd) (h : I r) : I (parseLinkLabel src f r).2 := by
  rcases hc : r.current src with ⟨c, r1⟩
  have h1 := hI.cur' h hc
  simp only [parseLinkLabel, hc]
  split
  · exact h1
  · cases hs : labelSkip src f r1 0 with
    | none => exact h1
    | some p =>
      obtain ⟨r2, chars⟩ := p
      have h2 := labelSkip_I hI f r1 0 r2 chars h1 hs
      simp only
      cases hb : labelBody src f r2 chars (-1) with
      | none => exact h2
      | some q =>
        obtain ⟨r3, ie⟩ := q
        have h3 := labelBody_I hI f r2 chars (-1) r3 ie h2 hb
        rcases hc3 : r3.current src with ⟨c3, r4⟩
        have h4 := hI.cur' h3 hc3
        rcases hn4 : r4.next src with ⟨ok, r5⟩
        have h5 := hI.nxt' h4 hn4
        simp only [hc3, hn4]
        split
        · exact h4
        · exact h5

theorem destAngle_I (hI : RdClosed src I) (start : Nat) : ∀ (f : Nat) (r : Rd), I r → I (destAngle src start f r).2 := by
  intro f
  induction f with
  | zero => intro r h; exact h
  | succ f ih =>
    intro r h
    rcases hn : r.next src with ⟨ok, r1⟩
    have h1 := hI.nxt' h hn
    rcases hc : r1.current src with ⟨c, r2⟩
    have h2 := hI.cur' h1 hc
    rcases hn2 : r2.next src with ⟨ok2, r3⟩
    have h3 := hI.nxt' h2 hn2
    rcases hc3 : r3.current src with ⟨c3, r4⟩
    have h4 := hI.cur' h3 hc3
    simp only [destAngle, hn, hc, hn2, hc3]
    split
    · exact h1
    · split
      · exact h2
      · split
        · split
          · exact h3
          · split
            · exact h4
            · exact ih _ h4
        · split
          · exact h3
          · exact ih _ h2

theorem destBare_I (hI : RdClosed src I) : ∀ (f : Nat) (r : Rd) (parens : Int), I r → I (destBare src f r parens) := by
  intro f
  induction f with
  | zero => intro r _ h; exact h
  | succ f ih =>
    intro r parens h
    rcases hc : r.current src with ⟨c, r1⟩
    have h1 := hI.cur' h hc
    rcases hn : r1.next src with ⟨ok, r2⟩
    have h2 := hI.nxt' h1 hn
    rcases hc2 : r2.current src with ⟨c2, r3⟩
    have h3 := hI.cur' h2 hc2
    rcases hn3 : r3.next src with ⟨ok3, r4⟩
    have h4 := hI.nxt' h3 hn3
    simp only [destBare, hc, hn, hc2, hn3]
    split
    · exact h1
    · split
      · split
        · exact h2
        · split
          · exact h3
          · split
            · exact h4
            · exact ih _ _ h4
      · split
        · split
          · exact h2
          · exact ih _ _ h2
        · split
          · split
            · exact h1
            · split
              · exact h2
              · exact ih _ _ h2
          · split
            · exact h2
            · exact ih _ _ h2

theorem parseLinkDestination_I (hI : RdClosed src I) (f : Nat) (r : Rd) (h : I r) : I (parseLinkDestination src f r).2 := by
  rcases hc : r.current src with ⟨c, r1⟩
  have h1 := hI.cur' h hc
  simp only [parseLinkDestination, hc]
  split
  · exact destAngle_I hI _ f r1 h1
  · split
    · exact destBare_I hI f r1 0 h1
    · exact h1

theorem titleLoop_I (hI : RdClosed src I) (start : Nat) (term : UInt8) : ∀ (f : Nat) (r : Rd), I r →
    I (titleLoop src start term f r).2 := by
  intro f
  induction f with
  | zero => intro r h; exact h
  | succ f ih =>
    intro r h
    rcases hn : r.next src with ⟨ok, r1⟩
    have h1 := hI.nxt' h hn
    rcases hc : r1.current src with ⟨c, r2⟩
    have h2 := hI.cur' h1 hc
    rcases hn2 : r2.next src with ⟨ok2, r3⟩
    have h3 := hI.nxt' h2 hn2
    simp only [titleLoop, hn, hc, hn2]
    split
    · exact h1
    · split
      · split
        · exact h3
        · exact ih _ h3
      · split
        · exact h3
        · exact ih _ h2

theorem parseLinkTitle_I (hI : RdClosed src I) (f : Nat) (r : Rd) (h : I r) : I (parseLinkTitle src f r).2 := by
  rcases hc : r.current src with ⟨c, r1⟩
  have h1 := hI.cur' h hc
  simp only [parseLinkTitle, hc]
  split
  · exact h1
  · exact titleLoop_I hI _ _ f r1 h1

/-! ### The instance: the reader over the text, not before a position `lb` -/

/-- The reader over the text that ends at `b`, at or after `lb`. -/
def RWL (b lb : Nat) (r : Rd) : Prop := RW b r ∧ lb ≤ r.pos

theorem rwl_closed {b lb : Nat} (hb : b ≤ src.length) : RdClosed src (RWL b lb) := by
  refine ⟨fun r h => ?_, fun r h => ?_⟩
  · obtain ⟨c1, c2, _⟩ := h.1.current src hb
    exact ⟨c1, by rw [c2]; exact h.2⟩
  · obtain ⟨n1, n2, n3⟩ := h.1.next src
    refine ⟨n1, ?_⟩
    cases hok : (r.next src).1 with
    | true => have := (n2 hok).2.1; have := h.2; omega
    | false =>
      obtain ⟨f1, _, f3, f4⟩ := n3 hok
      rcases h.1.sp with ⟨_, _, _, hlt⟩ | ⟨_, hp⟩
      · have := (f3 hlt).1; have := h.2; omega
      · rw [f4 hp]; exact h.2

end CM.Proofs
