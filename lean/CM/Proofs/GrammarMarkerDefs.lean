import CM.Proofs.BlocksGrammar
import CM.Proofs.Recognize1
import CM.Spec.TreeWF
/-
C05, block half — the list marker of an item: definitions and tree-level lemmas.

`PBMark src b` (`pbMark`): at every list item of `b` whose first block child is a list marker, that marker is closed, its
span lies inside `src`, and the bytes of `src` under it are the item's marker: for an ordered item (`char` = `.` or `)`)
1–9 ASCII digits followed by the item's `char`; for a bullet item the single byte `char` (one of `-`, `+`, `*`)
(`Spec.orderedItemOK`, and the bullet clause of the task statement).
-/
namespace CM.Proofs
open CM CM.Model CM.Gen
open CM.Proofs.BT CM.Proofs.BG

namespace GM

/-- The text of a list marker with delimiter `c`. -/
def markerShape (s : Bytes) (c : UInt8) : Bool :=
  if Spec.isOrderedChar c then
    let ds := s.takeWhile Spec.isASCIIDigit
    decide (1 ≤ ds.length) && decide (ds.length ≤ 9) && s.drop ds.length == [c]
  else s == [c] && (c == 0x2D || c == 0x2B || c == 0x2A)

/-- `src[s:e]`. -/
def sliceI (src : Bytes) (s e : Int) : Bytes := (src.drop s.toNat).take (e - s).toNat

/-- The marker block with label `m` of an item with delimiter `c`: closed, inside `src`, and its text is the marker. -/
def markOK (src : Bytes) (m : PLabel) (c : UInt8) : Bool :=
  decide (0 ≤ m.start) && decide (m.start ≤ m.stop) && decide (m.stop ≤ (src.length : Int)) &&
    markerShape (sliceI src m.start m.stop) c

/-- The rule at one block. -/
def markLocal (src : Bytes) (l : PLabel) (bs : List PB) : Bool :=
  l.kind != BK.listItem ||
    (match bs with
     | m :: _ => m.kind != BK.listMarker || markOK src m.label l.char
     | [] => true)

end GM
open GM

mutual
def pbMark (src : Bytes) : PB → Bool
  | .mk l bs _ => markLocal src l bs && pbMarkL src bs
def pbMarkL (src : Bytes) : List PB → Bool
  | [] => true
  | b :: bs => pbMark src b && pbMarkL src bs
end

/-- **The marker of every list item is its marker text in `src`.** -/
def PBMark (src : Bytes) (b : PB) : Prop := pbMark src b = true

instance (src : Bytes) (b : PB) : Decidable (PBMark src b) := inferInstanceAs (Decidable (pbMark src b = true))

namespace GM

theorem pbMarkL_iff (src : Bytes) (bs : List PB) : pbMarkL src bs = true ↔ ∀ b ∈ bs, PBMark src b := by
  induction bs with
  | nil => simp [pbMarkL]
  | cons b bs ih => simp [pbMarkL, ih, PBMark]

theorem PBMark_mk (src : Bytes) (l : PLabel) (bs : List PB) (is : List Tree) :
    PBMark src (.mk l bs is) ↔ markLocal src l bs = true ∧ ∀ b ∈ bs, PBMark src b := by
  unfold PBMark
  rw [pbMark, Bool.and_eq_true, pbMarkL_iff]
  exact Iff.rfl

theorem markLocal_of_ne {src : Bytes} {l : PLabel} (bs : List PB) (hk : l.kind ≠ BK.listItem) : markLocal src l bs = true := by
  unfold markLocal
  have : (l.kind != BK.listItem) = true := by simpa using hk
  rw [this]; rfl

theorem markLocal_nil (src : Bytes) (l : PLabel) : markLocal src l [] = true := by
  unfold markLocal; simp

/-- What the rule reads of the first child. -/
def headKey (bs : List PB) : Option (Nat × Int × Int) := bs.head?.map fun m => (m.kind, m.label.start, m.label.stop)

theorem markOK_congr {src : Bytes} {m m' : PLabel} (c : UInt8) (h1 : m'.start = m.start) (h2 : m'.stop = m.stop) :
    markOK src m' c = markOK src m c := by
  unfold markOK; rw [h1, h2]

theorem markLocal_congr {src : Bytes} {l l' : PLabel} {bs bs' : List PB} (hk : l'.kind = l.kind) (hc : l'.char = l.char)
    (hh : headKey bs' = headKey bs) : markLocal src l' bs' = markLocal src l bs := by
  unfold markLocal
  rw [hk, hc]
  cases bs with
  | nil =>
    cases bs' with
    | nil => rfl
    | cons m' r' => simp [headKey] at hh
  | cons m r =>
    cases bs' with
    | nil => simp [headKey] at hh
    | cons m' r' =>
      simp only [headKey, List.head?_cons, Option.map_some, Option.some.injEq, Prod.mk.injEq] at hh
      simp only []
      rw [hh.1, markOK_congr l.char hh.2.1 hh.2.2]

theorem PBM_relabel {src : Bytes} {l l' : PLabel} {bs : List PB} {is is' : List Tree} (hk : l'.kind = l.kind) (hc : l'.char = l.char)
    (h : PBMark src (.mk l bs is)) : PBMark src (.mk l' bs is') := by
  rw [PBMark_mk] at h ⊢
  rw [markLocal_congr hk hc rfl]
  exact h

theorem PBM_setLabel {src : Bytes} {f : PLabel → PLabel} (hk : ∀ l, (f l).kind = l.kind) (hc : ∀ l, (f l).char = l.char) {b : PB}
    (h : PBMark src b) : PBMark src (b.setLabel f) := by
  obtain ⟨l, bs, is⟩ := b
  exact PBM_relabel (hk l) (hc l) h

theorem PBM_leaf {src : Bytes} (l : PLabel) (is : List Tree) : PBMark src (.mk l [] is) := by
  rw [PBMark_mk]
  exact ⟨markLocal_nil src l, fun _ h => by cases h⟩

theorem PBM_of_para3 {src : Bytes} {b : PB} (hG : PBGrammar b) (hk : Para3 b.kind) : PBMark src b := by
  obtain ⟨l, bs, is⟩ := b
  have hk' : Para3 l.kind := hk
  have hloc := ((PBGrammar_mk l bs is).1 hG).1
  have hb := ((localOK_iff l bs is).1 hloc).1
  unfold blocksOK at hb
  have e1 : (l.kind == BK.document || l.kind == BK.blockQuote) = false := by
    rcases hk' with h | h | h <;> rw [h] <;> decide
  have e2 : (l.kind == BK.listItem) = false := by
    rcases hk' with h | h | h <;> rw [h] <;> decide
  have e3 : (l.kind == BK.list) = false := by
    rcases hk' with h | h | h <;> rw [h] <;> decide
  simp only [e1, e2, e3, Bool.false_eq_true, if_false] at hb
  have hbs : bs = [] := by simpa using hb
  subst hbs
  exact PBM_leaf l is

/-! ### the interface of a block to its parent -/

/-- What may replace a block in its parent: a closed list marker is replaced by one list marker with the same span. -/
def MRes (c : PB) (new : List PB) : Prop :=
  c.kind = BK.listMarker → 0 ≤ c.label.stop →
    ∃ c', new = [c'] ∧ c'.kind = BK.listMarker ∧ c'.label.start = c.label.start ∧ c'.label.stop = c.label.stop

theorem MRes.refl (c : PB) : MRes c [c] := fun hk _ => ⟨c, rfl, hk, rfl, rfl⟩

theorem MRes.same {c c' : PB} (hk : c'.kind = c.kind) (h1 : c'.label.start = c.label.start) (h2 : c'.label.stop = c.label.stop) :
    MRes c [c'] := fun hk' _ => ⟨c', rfl, by rw [hk]; exact hk', h1, h2⟩

theorem markOK_closed {src : Bytes} {m : PLabel} {c : UInt8} (h : markOK src m c = true) : 0 ≤ m.stop := by
  unfold markOK at h
  simp only [Bool.and_eq_true, decide_eq_true_eq] at h
  omega

/-- Replacing the last child. -/
theorem PBM_replaceLast {src : Bytes} {l : PLabel} {bs new : List PB} {is : List Tree} {c : PB} (hG : PBGrammar (.mk l bs is))
    (h : PBMark src (.mk l bs is)) (hl : bs.getLast? = some c) (hr : MRes c new) (hn : ∀ c' ∈ new, PBMark src c') :
    PBMark src (.mk l (bs.dropLast ++ new) is) := by
  rw [PBMark_mk] at h ⊢
  obtain ⟨hloc, hkids⟩ := h
  refine ⟨?_, ?_⟩
  · by_cases hk : l.kind = BK.listItem
    · obtain ⟨_, _, m, rest, hbs, hm, _⟩ := grammar_item_shape hk ((PBGrammar_mk l bs is).1 hG).1
      subst hbs
      have hmk : markOK src m.label l.char = true := by
        unfold markLocal at hloc
        have e1 : (l.kind != BK.listItem) = false := by simp [hk]
        have e2 : (m.kind != BK.listMarker) = false := by simp [hm]
        simpa [e1, e2] using hloc
      cases rest with
      | nil =>
        simp only [List.getLast?_singleton, Option.some.injEq] at hl
        subst hl
        obtain ⟨c', rfl, hk', h1, h2⟩ := hr hm (markOK_closed hmk)
        rw [← hloc]
        exact markLocal_congr rfl rfl (by simp [headKey, hk', hm, h1, h2])
      | cons r rest' =>
        rw [← hloc]
        exact markLocal_congr rfl rfl (by simp [headKey])
    · exact markLocal_of_ne _ hk
  · intro b hb
    rw [List.mem_append] at hb
    rcases hb with hb | hb
    · exact hkids b (List.dropLast_subset bs hb)
    · exact hn b hb

theorem PBM_spineGet {src : Bytes} : ∀ (d : Nat) (b c : PB), PBMark src b → spineGet b d = some c → PBMark src c := by
  intro d
  induction d with
  | zero => intro b c h hs; rw [spineGet_zero] at hs; cases hs; exact h
  | succ d ih =>
    intro b c h hs
    obtain ⟨l, bs, is⟩ := b
    rw [spineGet_succ] at hs
    cases hgl : bs.getLast? with
    | none => rw [hgl] at hs; cases hs
    | some c0 =>
      rw [hgl] at hs
      exact ih c0 c (((PBMark_mk src l bs is).1 h).2 c0 (List.mem_of_getLast? hgl)) hs

/-- The invariant under an edit of the block at depth `d` of the spine. -/
theorem PBM_spineModify {src : Bytes} (f : PB → PB) : ∀ (d : Nat) (b : PB),
    (∀ c, spineGet b d = some c → PBGrammar c → PBMark src c → PBMark src (f c) ∧ MRes c [f c]) →
    PBGrammar b → PBMark src b → PBMark src (spineModify f b d) ∧ MRes b [spineModify f b d] := by
  intro d
  induction d with
  | zero =>
    intro b hf hG h
    rw [spineModify_zero]
    exact hf b (spineGet_zero b) hG h
  | succ d ih =>
    intro b hf hG h
    obtain ⟨l, bs, is⟩ := b
    rw [spineModify_succ]
    rw [spineGet_succ] at hf
    cases hgl : bs.getLast? with
    | none => exact ⟨h, MRes.refl _⟩
    | some c =>
      rw [hgl] at hf
      simp only [] at hf ⊢
      have hcm : c ∈ bs := List.mem_of_getLast? hgl
      have hcG : PBGrammar c := ((PBGrammar_mk l bs is).1 hG).2 c hcm
      have hc : PBMark src c := ((PBMark_mk src l bs is).1 h).2 c hcm
      have r := ih c hf hcG hc
      refine ⟨PBM_replaceLast hG h hgl r.2 ?_, MRes.same rfl rfl rfl⟩
      intro c' hc'
      simp only [List.mem_singleton] at hc'
      subst hc'
      exact r.1

theorem PBM_setBlankFlags {src : Bytes} (v : Bool) : ∀ (d : Nat) (b : PB), PBGrammar b → PBMark src b →
    PBMark src (setBlankFlags v b d) ∧ MRes b [setBlankFlags v b d] := by
  intro d
  induction d with
  | zero =>
    intro b _ h
    obtain ⟨l, bs, is⟩ := b
    simp only [setBlankFlags]
    exact ⟨PBM_relabel (l := l) rfl rfl h, MRes.same rfl rfl rfl⟩
  | succ d ih =>
    intro b hG h
    obtain ⟨l, bs, is⟩ := b
    simp only [setBlankFlags]
    have h' : PBMark src (.mk { l with lastLineBlank := v } bs is) := PBM_relabel (l := l) rfl rfl h
    have hG' : PBGrammar (.mk { l with lastLineBlank := v } bs is) := PBG_relabel rfl rfl rfl hG
    cases hgl : bs.getLast? with
    | none => exact ⟨h', MRes.same rfl rfl rfl⟩
    | some c =>
      simp only []
      have hcm : c ∈ bs := List.mem_of_getLast? hgl
      have r := ih c (((PBGrammar_mk l bs is).1 hG).2 c hcm) (((PBMark_mk src l bs is).1 h).2 c hcm)
      refine ⟨PBM_replaceLast hG' h' hgl r.2 ?_, MRes.same rfl rfl rfl⟩
      intro c' hc'
      simp only [List.mem_singleton] at hc'
      subst hc'
      exact r.1

/-! ### the source grows -/

theorem sliceI_append {src t : Bytes} {s e : Int} (h0 : 0 ≤ s) (h1 : s ≤ e) (h2 : e ≤ (src.length : Int)) :
    sliceI (src ++ t) s e = sliceI src s e := by
  unfold sliceI
  have hs : s.toNat ≤ src.length := by omega
  rw [List.drop_append_of_le_length hs, List.take_append_of_le_length]
  rw [List.length_drop]; omega

theorem markOK_append {src t : Bytes} {m : PLabel} {c : UInt8} (h : markOK src m c = true) : markOK (src ++ t) m c = true := by
  unfold markOK at h ⊢
  simp only [Bool.and_eq_true, decide_eq_true_eq] at h ⊢
  obtain ⟨⟨⟨h0, h1⟩, h2⟩, h3⟩ := h
  refine ⟨⟨⟨h0, h1⟩, ?_⟩, ?_⟩
  · rw [List.length_append]; omega
  · rw [sliceI_append h0 h1 h2]; exact h3

/-- Appending to the source keeps the invariant. -/
theorem PBM_append (src t : Bytes) : ∀ b : PB, PBMark src b → PBMark (src ++ t) b := by
  apply PB.ind
  intro l bs is ih h
  rw [PBMark_mk] at h ⊢
  refine ⟨?_, fun b hb => ih b hb (h.2 b hb)⟩
  have h1 := h.1
  unfold markLocal at h1 ⊢
  simp only [Bool.or_eq_true] at h1 ⊢
  rcases h1 with h1 | h1
  · exact Or.inl h1
  · right
    cases bs with
    | nil => rfl
    | cons m r =>
      simp only [Bool.or_eq_true] at h1 ⊢
      rcases h1 with h1 | h1
      · exact Or.inl h1
      · exact Or.inr (markOK_append h1)

theorem PBM_prefix {src src' : Bytes} (hp : src <+: src') (b : PB) (h : PBMark src b) : PBMark src' b := by
  obtain ⟨t, rfl⟩ := hp
  exact PBM_append src t b h

end GM
end CM.Proofs
