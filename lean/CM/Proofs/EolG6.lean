import CM.Proofs.EolG5
/-
C14 (a), block phase with link reference definitions — part 6: the block starts under the invariant `LG` (fenced code,
HTML block, list item) and the list of starts.
-/
namespace CM.Proofs.EolG
open CM CM.Model CM.Gen CM.Proofs CM.Proofs.RDS CM.Proofs.BSp CM.Proofs.ERd CM.Proofs.BG CM.Proofs.BT

section
variable {x : PExt} {e X body nl : Bytes} {k : Nat} {bd : Int} {p : LP}

theorem startFencedG (he : StdEol e) (h : Inv p) (hs : p.state = 0) (hg : LG e X body nl k bd p) :
    startFenced x (mapLP e X p) = mapLP e X (startFenced x p) ∧ LG e X body nl k bd (startFenced x p) := by
  have hl := hg.ok
  unfold startFenced
  simp only []
  rw [mapLP_indent hl he, mapLP_bai_inv eolInv_fence hl he]
  by_cases c1 : p.indent ≥ codeBlockIndentLimit
  · rw [if_pos c1, if_pos c1]; exact ⟨rfl, hg⟩
  rw [if_neg c1, if_neg c1]
  by_cases c2 : ((parseCodeFence p.bytesAfterIndent).n == 0) = true
  · rw [if_pos c2, if_pos c2]; exact ⟨rfl, hg⟩
  rw [if_neg c2, if_neg c2]
  obtain ⟨ci, hdrop, hil⟩ := consumeAll p h
  rw [mapLP_consumeIndentN hl he]
  have hg1 := hg.consumeIndentN he p.indent
  have hl1 := hg1.ok
  have hrec := rec_body eolInv_fence hl1 _ hdrop
  generalize p.consumeIndentN p.indent = p1 at ci hdrop hil hg1 hl1 hrec ⊢
  have hpos : p1.i ≤ body.length := by
    rcases hl1.cursor (e := e) with ⟨c, _⟩ | ⟨c, _⟩
    · exact c
    · exfalso
      have : p1.line.drop p1.i = [] := by rw [c]; simp
      rw [this] at hdrop
      rw [← hdrop] at c2
      exact c2 (by decide)
  have hb := parseCodeFence_bound (body.drop p1.i)
  rw [← hrec] at hb
  have hb0 := parseCodeFence_bound p.bytesAfterIndent
  generalize parseCodeFence p.bytesAfterIndent = fc at hb hb0 c2 ⊢
  have i1 := ci.inv h
  have s1 := ci.st (by omega)
  have ob := openBlock_inv x p1 BK.fencedCode (fun l => { l with char := fc.char, n := fc.n }) (fun _ => rfl) i1 s1.2
    (Or.inl (by decide))
  obtain ⟨o1, hg2⟩ := openBlockG x hg1 he BK.fencedCode (fun l => { l with char := fc.char, n := fc.n }) (fun _ _ _ => rfl)
    (fun _ => rfl) (by decide)
  rw [o1]
  have c2cur := cur_openBlock x p1 BK.fencedCode (fun l => { l with char := fc.char, n := fc.n })
  generalize p1.openBlock x BK.fencedCode (fun l => { l with char := fc.char, n := fc.n }) = p2 at ob hg2 c2cur ⊢
  have i2 := ob.inv i1
  have s2 := ob.st s1.2
  have sc := setContainerIndent_post p2 (↑p.indent) i2.tree s2.2.2 s2.2.1 (Or.inr ob.ckind)
  rw [mapLP_setContainerIndent]
  have hg3 := hg2.setContainerIndent (p.indent : Int)
  have hl3 := hg3.ok
  have c3cur := cur_setContainerIndent p2 (p.indent : Int)
  generalize p2.setContainerIndent (p.indent : Int) = p3 at hg3 hl3 c3cur sc ⊢
  have i3 := sc.inv i2
  have e3i : p3.i = p1.i := by rw [cur_i c3cur, cur_i c2cur]
  have e3l : p3.line = p1.line := by rw [cur_line c3cur, cur_line c2cur]
  have k3 : p3.containerKind = BK.fencedCode := by rw [sc.kind, ob.ckind]
  by_cases c4 : (decide (fc.infoStart ≥ 0) && decide (fc.infoEnd ≥ 0) && decide (fc.infoStart ≤ fc.infoEnd)) = true
  · rw [if_pos c4, if_pos c4]
    simp only [Bool.and_eq_true, decide_eq_true_eq] at c4
    obtain ⟨⟨hc1, hc2⟩, hc3⟩ := c4
    obtain ⟨hb1, _, _⟩ := hb hc1 hc2
    obtain ⟨hb1', hb2, hb3⟩ := hb0 hc1 hc2
    have hlen : (body.drop p1.i).length = body.length - p1.i := List.length_drop
    rw [hlen] at hb1
    rw [mapLP_advance_rec hl3 he fc.infoStart.toNat (by rw [e3i, hlen]; omega)]
    have hg4 := hg3.advance fc.infoStart.toNat
    have hl4 := hg4.ok
    have hle4 : p3.i + fc.infoStart.toNat ≤ p3.line.length := by
      rw [e3i, e3l, hl1.shape, List.length_append]; omega
    have ad := advance_post p3 fc.infoStart.toNat i3.cur hle4
    have e4i : (p3.advance fc.infoStart.toNat).i = p1.i + fc.infoStart.toNat := by
      rw [advance_i p3 _ hle4, e3i]
    have e4l : (p3.advance fc.infoStart.toNat).line = p1.line := by rw [advance_line, e3l]
    generalize p3.advance fc.infoStart.toNat = p4 at hg4 hl4 e4i e4l ad ⊢
    have k4 : p4.containerKind ≠ BK.paragraph := by rw [ad.ckind, k3]; decide
    have hdrop4 : p4.line.getD p4.i 0 = p.bytesAfterIndent.getD fc.infoStart.toNat 0 := by
      rw [e4i, e4l]; exact getD_of_drop p1 _ _ hdrop
    have hind4 : p4.indent = 0 := indent_zero_of_getD p4 (by rw [hdrop4]; exact hb2) (by rw [hdrop4]; exact hb3)
    have hbody4 : p4.i + (fc.infoEnd - fc.infoStart).toNat ≤ body.length := by rw [e4i]; omega
    have hil4 : indentLength (p4.line.drop p4.i) = 0 := by
      by_cases hlt : p4.i < p4.line.length
      · rw [drop_cons_of_lt _ _ hlt]
        have h1 : p4.line.getD p4.i 0 ≠ SP := by rw [hdrop4]; exact hb2
        have h2 : p4.line.getD p4.i 0 ≠ TAB := by rw [hdrop4]; exact hb3
        exact indentLength_other _ _ h1 h2
      · rw [List.drop_eq_nil_of_le (by omega)]; rfl
    rw [mapLP_collectInline x hl4 he IK.infoString (fc.infoEnd - fc.infoStart).toNat (fc.infoEnd - fc.infoStart).toNat
      (by rw [hind4]; simp only [Nat.lt_irrefl, if_false, Nat.add_zero]
          rw [hl4.pos_body hbody4, hl4.pos_body (by omega)])
      (by intro _; rw [hil4, Nat.add_zero]; exact hbody4)]
    have hg5 := hg4.collectInline_np x (NotPara.of_kind k4) IK.infoString (fc.infoEnd - fc.infoStart).toNat
    generalize p4.collectInline x IK.infoString (fc.infoEnd - fc.infoStart).toNat = p5 at hg5 ⊢
    exact ⟨mapLP_consumeLine hg5.ok he, hg5.consumeLine⟩
  · rw [if_neg c4, if_neg c4]
    exact ⟨mapLP_consumeLine hl3 he, hg3.consumeLine⟩

theorem htmlStartLoopG (he : StdEol e) (L L' : Bytes) :
    ∀ (fuel i : Nat) (p : LP), Inv p → p.state = 0 → LG e X body nl k bd p → L = p.bytesAfterIndent →
      L' = (mapLP e X p).bytesAfterIndent →
      htmlStartLoop x L' fuel i (mapLP e X p) = mapLP e X (htmlStartLoop x L fuel i p) ∧
        LG e X body nl k bd (htmlStartLoop x L fuel i p) := by
  intro fuel
  induction fuel with
  | zero => intro i p _ _ hg _ _; exact ⟨rfl, hg⟩
  | succ fuel ih =>
    intro i p h hs hg hL hL'
    have hl := hg.ok
    unfold htmlStartLoop
    by_cases c1 : i ≥ 7
    · rw [if_pos c1, if_pos c1]; exact ⟨rfl, hg⟩
    rw [if_neg c1, if_neg c1]
    have hst : htmlBlockStart i L' = htmlBlockStart i L := by rw [hL, hL']; exact htmlBlockStart_bai start7Inv hl he i
    have hen : htmlBlockEnd i L' = htmlBlockEnd i L := by rw [hL, hL']; exact htmlBlockEnd_bai hl he i
    rw [hst, hen]
    by_cases c2 : htmlBlockStart i L = true
    · rw [if_pos c2, if_pos c2, mapLP_containerKind]
      by_cases c3 : (!htmlBlockCanInterrupt i && p.containerKind == BK.paragraph) = true
      · rw [if_pos c3, if_pos c3]; exact ⟨rfl, hg⟩
      rw [if_neg c3, if_neg c3]
      simp only []
      have ob := openBlock_inv x p BK.htmlBlock (fun l => { l with n := (i : Int) }) (fun _ => rfl) h (by omega) (Or.inl (by decide))
      obtain ⟨o1, hg2⟩ := openBlockG x hg he BK.htmlBlock (fun l => { l with n := (i : Int) }) (fun _ _ _ => rfl) (fun _ => rfl)
        (by decide)
      rw [o1]
      have c2cur := cur_openBlock x p BK.htmlBlock (fun l => { l with n := (i : Int) })
      generalize p.openBlock x BK.htmlBlock (fun l => { l with n := (i : Int) }) = p2 at hg2 c2cur ob ⊢
      have k2 : p2.containerKind ≠ BK.paragraph := by rw [ob.ckind]; decide
      by_cases c4 : htmlBlockEnd i L = true
      · rw [if_pos c4, if_pos c4]
        rw [mapLP_collectInline_rest hg2.ok he (CurOK_of_cur c2cur h.cur) IK.rawHTML (by decide)]
        have hg4 := hg2.collectInline_np x (NotPara.of_kind k2) IK.rawHTML p2.bytesAfterIndent.length
        generalize p2.collectInline x IK.rawHTML p2.bytesAfterIndent.length = p4 at hg4 ⊢
        rw [mapLP_consumeLine hg4.ok he]
        have hg5 := hg4.consumeLine
        generalize p4.consumeLine = p5 at hg5 ⊢
        exact endBlockG x hg5 he
      · rw [if_neg c4, if_neg c4]; exact ⟨rfl, hg2⟩
    · rw [if_neg c2, if_neg c2]
      exact ih (i + 1) p h hs hg hL hL'

theorem startHTMLG (he : StdEol e) (h : Inv p) (hs : p.state = 0) (hg : LG e X body nl k bd p) :
    startHTML x (mapLP e X p) = mapLP e X (startHTML x p) ∧ LG e X body nl k bd (startHTML x p) := by
  have hl := hg.ok
  unfold startHTML
  simp only []
  rw [mapLP_indent hl he, mapLP_bai_inv eolInv_headLT hl he]
  by_cases c1 : p.indent ≥ codeBlockIndentLimit
  · rw [if_pos c1, if_pos c1]; exact ⟨rfl, hg⟩
  rw [if_neg c1, if_neg c1]
  by_cases c2 : (p.bytesAfterIndent.head? != some 0x3C) = true
  · rw [if_pos c2, if_pos c2]; exact ⟨rfl, hg⟩
  rw [if_neg c2, if_neg c2]
  exact htmlStartLoopG he _ _ 8 0 p h hs hg rfl rfl

theorem listItemTailG (he : StdEol e) (delim : UInt8) (stop ind : Nat) (hg : LG e X body nl k bd p)
    (hb : stop ≤ (body.drop p.i).length) :
    listItemTail x delim stop ind (mapLP e X p) = mapLP e X (listItemTail x delim stop ind p) ∧
      LG e X body nl k bd (listItemTail x delim stop ind p) := by
  unfold listItemTail
  simp only []
  obtain ⟨o1, hq2⟩ := openBlockG x hg he BK.listItem (fun l => { l with char := delim }) (fun _ _ _ => rfl) (fun _ => rfl) (by decide)
  rw [o1]
  have c2cur := cur_openBlock x p BK.listItem (fun l => { l with char := delim })
  generalize p.openBlock x BK.listItem (fun l => { l with char := delim }) = q2 at hq2 c2cur ⊢
  obtain ⟨o2, hq3⟩ := openBlockG x hq2 he BK.listMarker id posFree_id (fun _ => rfl) (by decide)
  rw [o2]
  have c3cur := cur_openBlock x q2 BK.listMarker id
  generalize q2.openBlock x BK.listMarker id = q3 at hq3 c3cur ⊢
  have e3i : q3.i = p.i := by rw [cur_i c3cur, cur_i c2cur]
  rw [mapLP_advance_rec hq3.ok he stop (by rw [e3i]; exact hb)]
  have hq4 := hq3.advance stop
  generalize q3.advance stop = q4 at hq4 ⊢
  obtain ⟨o5, hq5⟩ := endBlockG x hq4 he
  rw [o5]
  generalize q4.endBlock x = q5 at hq5 ⊢
  rw [mapLP_isRestBlank hq5.ok he]
  by_cases d1 : q5.isRestBlank = true
  · rw [if_pos d1, if_pos d1, mapLP_setContainerIndent]
    have hq6 := hq5.setContainerIndent ((ind : Int) + (stop : Int) + 1)
    exact ⟨mapLP_consumeLine hq6.ok he, hq6.consumeLine⟩
  · rw [if_neg d1, if_neg d1, mapLP_indent hq5.ok he]
    by_cases d2 : q5.indent < 1
    · rw [if_pos d2, if_pos d2]
      exact ⟨mapLP_setContainerIndent _, hq5.setContainerIndent _⟩
    · rw [if_neg d2, if_neg d2]
      by_cases d3 : q5.indent > 4
      · rw [if_pos d3, if_pos d3, mapLP_consumeIndentN hq5.ok he 1]
        exact ⟨mapLP_setContainerIndent _, (hq5.consumeIndentN he 1).setContainerIndent _⟩
      · rw [if_neg d3, if_neg d3, mapLP_consumeIndentN hq5.ok he q5.indent]
        exact ⟨mapLP_setContainerIndent _, (hq5.consumeIndentN he q5.indent).setContainerIndent _⟩

theorem startListItemG (he : StdEol e) (h : Inv p) (hg : LG e X body nl k bd p) :
    startListItem x (mapLP e X p) = mapLP e X (startListItem x p) ∧ LG e X body nl k bd (startListItem x p) := by
  have hl := hg.ok
  unfold startListItem
  simp only []
  rw [mapLP_indent hl he, mapLP_bai_inv eolInv_listMarker hl he, mapLP_containerKind]
  by_cases c1 : p.indent ≥ codeBlockIndentLimit
  · rw [if_pos c1, if_pos c1]; exact ⟨rfl, hg⟩
  rw [if_neg c1, if_neg c1]
  by_cases c2 : (decide ((parseListMarker p.bytesAfterIndent).stop < 0) ||
      (p.containerKind == BK.paragraph &&
        ((parseListMarker p.bytesAfterIndent).delim == 0x2E || (parseListMarker p.bytesAfterIndent).delim == 0x29) &&
        (parseListMarker p.bytesAfterIndent).n != 1)) = true
  · rw [if_pos c2, if_pos c2]; exact ⟨rfl, hg⟩
  rw [if_neg c2, if_neg c2]
  rw [mapLP_bai_inv (eolInv_blankAfter (parseListMarker p.bytesAfterIndent).stop.toNat) hl he]
  by_cases c3 : (p.containerKind == BK.paragraph &&
      isBlankLine (p.bytesAfterIndent.drop (parseListMarker p.bytesAfterIndent).stop.toNat)) = true
  · rw [if_pos c3, if_pos c3]; exact ⟨rfl, hg⟩
  rw [if_neg c3, if_neg c3]
  obtain ⟨ci, hdrop, hil⟩ := consumeAll p h
  rw [mapLP_consumeIndentN hl he]
  have hg1 := hg.consumeIndentN he p.indent
  have hrec := rec_body eolInv_listMarker hg1.ok _ hdrop
  generalize p.consumeIndentN p.indent = p1 at ci hdrop hil hg1 hrec ⊢
  have hb := parseListMarker_toNat_le (body.drop p1.i)
  rw [← hrec] at hb
  generalize parseListMarker p.bytesAfterIndent = m at hb c2 c3 ⊢
  have hcondEq : ((mapLP e X p1).containerKind != BK.list ||
      (if ((mapLP e X p1).containerKind != BK.list && (mapLP e X p1).containerKind != BK.listItem) = true then (0 : UInt8)
        else (mapLP e X p1).container.label.char) != m.delim) =
      (p1.containerKind != BK.list ||
      (if (p1.containerKind != BK.list && p1.containerKind != BK.listItem) = true then (0 : UInt8)
        else p1.container.label.char) != m.delim) := by
    rw [mapLP_containerKind, mapLP_container_char]
  generalize hc' : ((mapLP e X p1).containerKind != BK.list ||
      (if ((mapLP e X p1).containerKind != BK.list && (mapLP e X p1).containerKind != BK.listItem) = true then (0 : UInt8)
        else (mapLP e X p1).container.label.char) != m.delim) = c'
  rw [hcondEq] at hc'
  generalize hc : (p1.containerKind != BK.list ||
      (if (p1.containerKind != BK.list && p1.containerKind != BK.listItem) = true then (0 : UInt8)
        else p1.container.label.char) != m.delim) = c at hc'
  subst hc'
  cases c with
  | true =>
    simp only [if_true]
    obtain ⟨o1, hq⟩ := openBlockG x hg1 he BK.list (fun l => { l with char := m.delim }) (fun _ _ _ => rfl) (fun _ => rfl) (by decide)
    rw [o1]
    have hcq := cur_openBlock x p1 BK.list (fun l => { l with char := m.delim })
    generalize p1.openBlock x BK.list (fun l => { l with char := m.delim }) = q1 at hq hcq ⊢
    exact listItemTailG he m.delim m.stop.toNat p.indent hq (by rw [cur_i hcq]; exact hb)
  | false =>
    simp only [Bool.false_eq_true, if_false]
    exact listItemTailG he m.delim m.stop.toNat p.indent hg1 hb

end

end CM.Proofs.EolG
