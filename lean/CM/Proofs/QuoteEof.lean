import CM.Proofs.QuoteLine
/-
C09 (block-quote half): the empty line at the end of the input. On the bare side the document block is closed; on the
prefixed side the block quote's `match` fails on the empty line, and closing the document closes the block quote (at the
end of the source) and, through it, the same open blocks.
-/
namespace CM.Proofs.Quote
open CM CM.Model CM.Gen CM.Proofs.BT

variable {E : Env} {p q : LP} {x : PExt}

/-- Closing an open document or block quote: the label gets its end, the last child is closed. -/
theorem closeBlock_container (x : PExt) (src : Bytes) (e : Int) (l : PLabel) (bs : List PB) (is : List Tree)
    (ho : l.stop < 0) (hk : l.kind = BK.document ∨ l.kind = BK.blockQuote) :
    closeBlock x src e (.mk l bs is) = [.mk { l with stop := e } (closeLast x src e bs) is] := by
  rw [closeBlock]
  rw [if_neg (by omega)]
  have h1 : (l.kind == BK.list) = false := by rcases hk with h | h <;> rw [h] <;> rfl
  have h2 : (l.kind == BK.paragraph || l.kind == BK.setextHeading) = false := by rcases hk with h | h <;> rw [h] <;> rfl
  have h3 : (l.kind == BK.indentedCode) = false := by rcases hk with h | h <;> rw [h] <;> rfl
  simp only [h1, h2, h3, Bool.false_eq_true, if_false]

theorem closeLast_closed (x : PExt) (src : Bytes) (e : Int) (pre : List PB) (h : ∀ b ∈ pre, 0 ≤ b.label.stop) :
    closeLast x src e pre = pre := by
  rw [CM.Proofs.closeLast_eq]
  cases hl : pre.getLast? with
  | none => simp only []; exact (List.getLast?_eq_none_iff.mp hl).symm
  | some c =>
    simp only []
    rw [BSp.closeBlock_closed x src e c (h c (List.mem_of_getLast? hl))]
    have hne : pre ≠ [] := by intro e0; rw [e0] at hl; cases hl
    have h1 := List.dropLast_concat_getLast hne
    rw [List.getLast?_eq_some_getLast hne] at hl
    cases hl
    exact h1

theorem closeLast_append (x : PExt) (src : Bytes) (e : Int) (pre bs : List PB) (hne : bs ≠ []) :
    closeLast x src e (pre ++ bs) = pre ++ closeLast x src e bs := by
  rw [CM.Proofs.closeLast_eq, CM.Proofs.closeLast_eq, getLast?_append_ne' _ _ hne]
  cases hl : bs.getLast? with
  | none => exact absurd (List.getLast?_eq_none_iff.mp hl) hne
  | some c =>
    simp only []
    rw [dropLast_append_ne' _ _ hne, List.append_assoc]

/-- The tree of the prefixed side after the end of the input: the document, with the closed block quote as its only
    child; the block quote ends at `e'`, and its children are closed blocks followed by the images of `Pb`. -/
structure FinR (E : Env) (e' : Int) (Pb : List PB) (Q' : PB) : Prop where
  shape : ∃ lq' isQ ql' pre bs'', Q' = .mk lq' [.mk ql' (pre ++ bs'') []] isQ ∧
    ql'.kind = BK.blockQuote ∧ ql'.start = 0 ∧ ql'.stop = e' ∧ ql'.n = 0 ∧ ql'.char = 0 ∧ ql'.indent = 0 ∧ ql'.loose = false ∧
    PreOK E pre ∧ L2 (BR E) Pb bs''

/-- Closing both documents. -/
theorem closeDoc_rel (HC : CloseParaSim x E) {P Q : PB} (h : RootR E P Q) {e e' : Int} (he : 0 ≤ e) (he' : 0 ≤ e')
    (hp : E.PR e e') :
    FinR E e' ((closeBlock x E.src e P).headD P).blocks ((closeBlock x E.src' e' Q).headD Q) := by
  obtain ⟨lq, isQ, Qb, rfl, hk, ho, ht⟩ := h
  obtain ⟨lp, bs, isP⟩ := P
  obtain ⟨ql, bq, isq⟩ := Qb
  obtain ⟨pre, bs', ebq, hpre, hr⟩ := ht.kids
  simp only [PB.blocks] at ebq hr
  subst ebq
  have hqi : isq = [] := ht.qinl
  subst hqi
  rw [closeBlock_container x _ e lp bs isP ht.popen (Or.inl ht.pkind)]
  rw [closeBlock_container x _ e' lq _ isQ ho (Or.inl hk)]
  simp only [List.headD_cons, PB.blocks]
  rw [BSp.closeLast_single, closeBlock_container x _ e' ql _ [] ht.qlab.stop (Or.inr ht.qlab.kind)]
  have hcl := closeLast_rel HC he he' hp bs bs' hr
  by_cases hne : bs' = []
  · subst hne
    have hb : bs = [] := hr.nil_iff.mpr rfl
    subst hb
    rw [List.append_nil, closeLast_closed x _ e' pre hpre.1]
    refine ⟨{ lq with stop := e' }, isQ, { ql with stop := e' }, pre, [], by simp, ht.qlab.kind, ht.qlab.start, rfl,
      ht.qlab.n, ht.qlab.char, ht.qlab.indent, ht.qlab.loose, hpre, ?_⟩
    rw [BSp.closeLast_nil]; exact .nil
  · rw [closeLast_append x _ e' pre bs' hne]
    exact ⟨{ lq with stop := e' }, isQ, { ql with stop := e' }, pre, _, rfl, ht.qlab.kind, ht.qlab.start, rfl,
      ht.qlab.n, ht.qlab.char, ht.qlab.indent, ht.qlab.loose, hpre, hcl⟩

/-- The empty line on the prefixed side: the block quote does not match; the document is closed. -/
theorem processLine_eof_q (q : LP) (hl : q.line = []) (hroot : ∃ P, RootR E P q.root) :
    (processLine x q).root = (closeBlock x q.source q.lineStart q.root).headD q.root ∧ (processLine x q).panic = q.panic := by
  obtain ⟨P, lq, isQ, Qb, e, hk, ho, ht⟩ := hroot
  have hd : descendOpenBlocks x q = (false, { q with depth := 0, state := stateDescending }) := by
    unfold descendOpenBlocks
    unfold descendLoop
    have hg : spineGet q.root (0 + 1) = some Qb := by rw [e, spineGet_wrap, spineGet_zero]
    rw [hg]
    simp only []
    have hopen : Qb.isOpen = true := by simp only [PB.isOpen, decide_eq_true_eq]; exact ht.qlab.stop
    rw [if_neg (by simp [hopen])]
    have hkq : Qb.kind = BK.blockQuote := ht.qlab.kind
    have hrm : ruleMatch x Qb.kind { q with depth := 0 + 1, state := stateDescending } =
        some (false, { q with depth := 0 + 1, state := stateDescending }) := by
      rw [hkq, rm_quote]
      have h1 : ({ q with depth := 0 + 1, state := stateDescending } : LP).indent = 0 := CM.Proofs.empty_indent hl
      have h2 : ({ q with depth := 0 + 1, state := stateDescending } : LP).bytesAfterIndent = [] := CM.Proofs.empty_bytes hl
      rw [h1, h2]
      rfl
    rw [hrm]
    rfl
  rw [processLine_eq, hd]
  simp only []
  rw [if_neg (by decide)]
  unfold lineTail openNewBlocks
  simp only [hl, List.isEmpty_nil, if_true, Bool.false_eq_true, if_false]
  unfold LP.closeContainer
  simp only [beq_self_eq_true, if_true]
  constructor <;> first | rfl | trivial

/-- The empty line on the bare side: the document is closed (unless a stale "descend terminated" state survives, which
    the hypothesis `hT` excludes). -/
theorem processLine_eof_p (p : LP) (hl : p.line = [])
    (hT : p.state = stateDescendTerminated → ∃ c, spineGet p.root 1 = some c ∧ c.isOpen = true ∧ hasMatch c.label.kind) :
    (processLine x p).root = (closeBlock x p.source p.lineStart p.root).headD p.root ∧ (processLine x p).panic = p.panic := by
  obtain ⟨d, s, h1, h2⟩ := CM.Proofs.descend_empty_top x p hl
  have hs : s ≠ stateDescendTerminated := by
    intro e
    obtain ⟨t1, t2⟩ := h2 e
    obtain ⟨c, hc, ho, hm⟩ := hT t1
    rw [CM.Proofs.spineGet_one] at hc
    exact t2 c hc ho hm
  rw [processLine_eq]
  generalize descendOpenBlocks x p = r at h1
  obtain ⟨b, p1⟩ := r
  simp only at h1
  subst h1
  simp only []
  rw [if_neg (by simpa using hs)]
  unfold lineTail openNewBlocks
  simp only [hl, List.isEmpty_nil, if_true, Bool.false_eq_true, if_false]
  unfold LP.closeContainer
  simp only [beq_self_eq_true, if_true]
  constructor <;> first | rfl | trivial

/-- **The end of the input** on both sides. -/
theorem processLine_eof_sim (HC : CloseParaSim x E) (hpl : p.line = []) (hql : q.line = []) (hroot : RootR E p.root q.root)
    (hsp : p.source = E.src) (hsq : q.source = E.src') (hstart : E.PR (p.lineStart : Int) (q.lineStart : Int))
    (hT : p.state = stateDescendTerminated → ∃ c, spineGet p.root 1 = some c ∧ c.isOpen = true ∧ hasMatch c.label.kind) :
    FinR E q.lineStart (processLine x p).root.blocks (processLine x q).root := by
  rw [(processLine_eof_p (x := x) p hpl hT).1, (processLine_eof_q (x := x) q hql ⟨_, hroot⟩).1, hsp, hsq]
  exact closeDoc_rel HC hroot (Int.natCast_nonneg _) (Int.natCast_nonneg _) hstart

end CM.Proofs.Quote
