import CM.Proofs.EolN2
/-
C14 (a), block phase, inputs with NUL bytes — part 3: the blank-line loop and the per-line loop on the two sides, with the C01
invariant (`MInv`, and the contract sessions `C.Ok` / `PendInv`) carried along.
-/
namespace CM.Proofs.EolN
open CM CM.Model CM.Gen CM.Spec CM.Proofs CM.Proofs.RDS CM.Proofs.BSp CM.Proofs.ERd CM.Proofs.BG CM.Proofs.BT CM.Proofs.EolX
  CM.Proofs.EolG

section
variable {e inp : Bytes}

theorem skipBlank_simN (he : StdEol e) (hcr : NoCR inp) :
    ∀ (f f' : Nat) (p p' : BP) (c y : Bytes), f ≤ f' → MInv inp p c y → BPRelN e inp p p' → p.blocks = [] → p.i = 0 →
      ((skipBlank f p).1 = none ∧ (skipBlank f p).2.panic.isSome = true) ∨
      ((skipBlank f p).1 = none ∧ (skipBlank f' p').1 = none ∧ (skipBlank f' p').2.panic = (skipBlank f p).2.panic ∧
        (skipBlank f' p').2.err = (skipBlank f p).2.err) ∨
      (∃ q q' c' y', (skipBlank f p).1 = some q ∧ (skipBlank f' p').1 = some q' ∧ MInv inp q c' y' ∧ BPRelN e inp q q' ∧
        q.blocks = [] ∧ LineCond q 0 ∧ isBlankLine (q.buf.take q.i) = false ∧ q.i = lineLen q.buf ∧ 0 < q.i) := by
  intro f
  induction f with
  | zero =>
    intro f' p p' c y _ _ R _ _; left
    refine ⟨rfl, ?_⟩
    show (p.panic <|> some "skipBlank: fuel").isSome = true
    cases p.panic <;> rfl
  | succ f ih =>
    intro f' p p' c y hff h R hb hi0
    obtain ⟨g, rfl⟩ : ∃ g, f' = g + 1 := ⟨f' - 1, by omega⟩
    have hne := stdEol_ne_nil he
    have hC := MInv.noCR hcr h
    obtain ⟨Rn, hflag⟩ := R.readline he hC
    have h1 := h.readline
    have hm : p.i + lineLen (p.buf.drop p.i) = lineLen p.buf := by rw [hi0]; simp
    unfold skipBlank
    rw [readline_step p R.err R.ile, readline_step p' R.err' (R.ile' he), hflag]
    simp only []
    by_cases hmove : decide (0 < lineLen (p.buf.drop p.i)) = true
    · rw [hmove]
      simp only [Bool.not_true, Bool.false_eq_true, if_false]
      have hbl := isBlankLine_take_relN he Rn
      simp only [] at hbl
      rw [hbl]
      by_cases hblank : isBlankLine (p.buf.take (p.i + lineLen (p.buf.drop p.i))) = true
      · rw [hblank]
        simp only [Bool.not_true, Bool.false_eq_true, if_false]
        have Ra := Rn.advance he h1 hb (p.lineno + 1) (p'.lineno + 1) (by rw [R.lineno])
        have hline : p.buf.drop (p.i + lineLen (p.buf.drop p.i)) ≠ [] →
            p.lineno + 1 = p.lineno + lineCount (p.buf.take (p.i + lineLen (p.buf.drop p.i))) := by
          intro hne'
          rw [hm] at hne' ⊢
          rw [lineCount_line hne']
        obtain ⟨y₁, y₂, e1, ht, -, hM⟩ :=
          h1.advance (n := p.i + lineLen (p.buf.drop p.i)) (Nat.le_refl _) h1.cut_i
            { ({ p with i := p.i + lineLen (p.buf.drop p.i) } : BP) with
                     offset := p.offset + unpaddedNullLength (p.buf.take (p.i + lineLen (p.buf.drop p.i))),
                     lineno := p.lineno + 1, buf := p.buf.drop (p.i + lineLen (p.buf.drop p.i)), i := 0 }
            rfl rfl hline (by show 0 = (p.i + lineLen (p.buf.drop p.i)) - (p.i + lineLen (p.buf.drop p.i)); omega) rfl rfl h.panic
        exact ih g _ _ _ _ (by omega) hM Ra hb rfl
      · have hnb : isBlankLine (p.buf.take (p.i + lineLen (p.buf.drop p.i))) = false := by
          cases h' : isBlankLine (p.buf.take (p.i + lineLen (p.buf.drop p.i)))
          · rfl
          · exact absurd h' hblank
        rw [hnb]
        simp only [Bool.not_false, if_true]
        right; right
        refine ⟨_, _, c, y, rfl, rfl, h1, Rn, hb, ?_, hnb, hm, ?_⟩
        · have h' := lineCond_nextN (p := p) hC
          simp only [hi0] at h' ⊢
          exact h'
        · show 0 < p.i + lineLen (p.buf.drop p.i)
          have : 0 < lineLen (p.buf.drop p.i) := by simpa using hmove
          omega
    · have hm' : decide (0 < lineLen (p.buf.drop p.i)) = false := by
        cases h' : decide (0 < lineLen (p.buf.drop p.i))
        · rfl
        · exact absurd h' hmove
      rw [hm']
      simp only [Bool.not_false, if_true]
      right; left
      exact ⟨trivial, trivial, R.panic, by rw [R.err, R.err']⟩

/-! ### The per-line loop -/

variable {x : PExt}

/-- Corresponding outcomes, with the invariants of the stream state after a delivered root. -/
def OutRelN (C : LPContract (blocksLP x)) (e inp : Bytes) (o o' : NBOut × BP) : Prop :=
  match o.1, o'.1 with
  | .block r, .block r' => r' = mapRootN e inp r ∧ BPRelN e inp o.2 o'.2 ∧ BPInv2 o.2 ∧
      (∀ b ∈ o.2.blocks, XT (o.2.buf.take o.2.i) b) ∧
      ∃ c y, MInv inp o.2 c y ∧ PendInv C o.2.blocks (o.2.buf.take o.2.i)
  | .err a, .err b => a = b
  | _, _ => False

theorem parseLines_simN (C : LPContract (blocksLP x)) (he : StdEol e) (hcr : NoCR inp) :
    ∀ (f f' : Nat) (lp : LP) (ok : Bool) (ls : Nat) (p p' : BP) (c y : Bytes), f ≤ f' → MInv inp p c y →
      BPRelN e inp p p' → LineCond p ls →
      p.i = ls + lineLen (p.buf.drop ls) → p.panic ≠ some refDefFail → Sess2 ls p lp → XT (p.buf.take ls) lp.root →
      C.Ok ((blocksLP x).line lp (p.buf.take p.i) ls) (p.buf.take p.i) ls →
      IsPanic (parseLines (blocksLPq x (e.length - 1)) f (lp, ok) ls p).1 ∨
      OutRelN C e inp (parseLines (blocksLPq x (e.length - 1)) f (lp, ok) ls p)
        (parseLines (blocksLP x) f' (mapLP e p.buf lp) (eolPos e p.buf ls) p') := by
  intro f
  induction f with
  | zero => intro f' lp ok ls p p' c y _ _ _ _ _ _ _ _ _; exact Or.inl ⟨_, rfl⟩
  | succ f ih =>
    intro f' lp ok ls p p' c y hff hM R hline hrel hnpf hsess hxt hCok
    obtain ⟨g, rfl⟩ : ∃ g, f' = g + 1 := ⟨f' - 1, by omega⟩
    obtain ⟨hlp, hspans, hlive, hgood⟩ := hsess
    have hne := stdEol_ne_nil he
    have hbufC : NoCR p.buf := MInv.noCR hcr hM
    have herr : p.err.isSome = true := by rw [R.err]; rfl
    have hi := R.ile
    obtain ⟨hls, body, nl, hshape, hb, hnl⟩ := hline
    have hsl : (p.buf.take p.i).length = p.i := by simp [hi]
    -- the line on the two sides
    have hsrc' : p'.buf.take p'.i = toEol e (p.buf.take p.i) := by rw [R.buf', R.i', take_toEol e hne]
    obtain ⟨r1, r2⟩ := reset_sim (e := e) he hbufC lp p.i ls hls R.ile body nl hshape hb hnl
    have hinv : BT.Inv (lp.reset (p.buf.take p.i) ls) := (reset_LPInv lp hlp _ _).toInv
    have hnp := processLine_no_panic x _ (reset_LPInv lp hlp (p.buf.take p.i) ls)
    have hgsrc : GoodT (p.buf.take p.i) (ls : Int) lp.root :=
      GoodT_mono (take_prefix_take p.buf hls) (Int.le_refl _) _ hgood
    have hcheck : pbSpans (RefDefSpansOK x (p.buf.take p.i) ↑ls ↑(p.buf.take p.i).length) 0 ↑ls lp.root = true :=
      pbSpans_upgrade x (p.buf.take p.i) ls ls (by rw [hsl]; omega) lp.root 0 (Int.le_refl _) hspans hgsrc
    -- what the contract says about the children after this line
    obtain ⟨_, _, hkidsOK, _⟩ := checkStep_elim (C.obs _ _ _ hCok)
    have hCok0 := hCok
    change C.Ok (processLine x (lp.reset (p.buf.take p.i) ls)) (p.buf.take p.i) ls at hCok
    change kidsOK (p.buf.take p.i) 0 (processLine x (lp.reset (p.buf.take p.i) ls)).root.blocks = true at hkidsOK
    generalize ht : processLine x (lp.reset (p.buf.take p.i) ls) = t at hnp hCok hkidsOK
    have hxsrc : XT (p.buf.take p.i) lp.root := xt_mono (take_prefix_take p.buf hls) _ hxt
    have hlineq : (blocksLPq x (e.length - 1)).line (lp, ok) (p.buf.take p.i) ls =
        (t, ok && chkB (e.length - 1) (p.buf.take p.i) lp.root) := by
      show (processLine x _, ok && chkB _ _ lp.root) = _
      rw [ht]
    cases hok : (ok && chkB (e.length - 1) (p.buf.take p.i) lp.root) with
    | false =>
      left
      have hpan : (blocksLPq x (e.length - 1)).panicked ((blocksLPq x (e.length - 1)).line (lp, ok) (p.buf.take p.i) ls) =
          some chkFail := by
        rw [hlineq, hok]; rfl
      rw [parseLines_panicked _ hpan]
      exact ⟨_, rfl⟩
    | true =>
      simp only [Bool.and_eq_true] at hok
      obtain ⟨hok1, hchk⟩ := hok
      have hok' : (ok && chkB (e.length - 1) (p.buf.take p.i) lp.root) = true := by
        rw [hok1, hchk]; rfl
      obtain ⟨rf1, rf2, rf3, rf4⟩ := BSp.reset_fields lp (p.buf.take p.i) ls
      have hfine : FineT e p.buf p.i (ls : Int) lp.root :=
        fineT_of_chk ls lp.root 0 ls (Int.le_refl _) hspans hgsrc hxsrc hchk
      have hg : LG e p.buf body nl p.i (ls : Int) (lp.reset (p.buf.take p.i) ls) :=
        ⟨r2, rf2, by rw [rf1]; exact hfine, by rw [rf1]; exact hxsrc⟩
      have hbd : (ls : Int) ≤ (((p.buf.take p.i).length - (body ++ nl).length : Nat) : Int) := by
        have := congrArg List.length hshape
        simp only [List.length_drop] at this
        omega
      obtain ⟨s1, s2, s3⟩ := processLineG (x := x) he hbd hinv hg
      rw [ht] at s1 s2 s3
      have hline' : (blocksLP x).line (mapLP e p.buf lp) (p'.buf.take p'.i) (eolPos e p.buf ls) = mapLP e p.buf t := by
        show processLine x ((mapLP e p.buf lp).reset (p'.buf.take p'.i) (eolPos e p.buf ls)) = _
        rw [hsrc', r1, s1]
      have hpan : (blocksLPq x (e.length - 1)).panicked ((blocksLPq x (e.length - 1)).line (lp, ok) (p.buf.take p.i) ls) = none := by
        rw [hlineq, hok']; exact hnp.1
      have hpan' : (blocksLP x).panicked ((blocksLP x).line (mapLP e p.buf lp) (p'.buf.take p'.i) (eolPos e p.buf ls)) = none := by
        rw [hline']; exact hnp.1
      have hkids : (blocksLPq x (e.length - 1)).kids ((blocksLPq x (e.length - 1)).line (lp, ok) (p.buf.take p.i) ls) =
          t.root.blocks := by
        rw [hlineq]; rfl
      have hkids' : (blocksLP x).kids ((blocksLP x).line (mapLP e p.buf lp) (p'.buf.take p'.i) (eolPos e p.buf ls)) =
          mapPBs (eolPosZ e p.buf) t.root.blocks := by
        rw [hline']; show (mapPB (eolPosZ e p.buf) t.root).blocks = _; rw [mapPB_blocks]
      -- the invariants after the line (C02)
      have hLO : RDS.LineOK ((p.buf.take p.i).drop ls) := by rw [hrel]; exact lineOK_source p.buf ls
      have hgi : GI (p.buf.take p.i) (ls : Int) ls (lp.reset (p.buf.take p.i) ls) :=
        ⟨rf2, rf3, rf4, by rw [rf1]; exact hgsrc⟩
      have hgood' : GoodT (p.buf.take p.i) (p.i : Int) t.root := by
        have := processLine_st x _ (reset_LPInv lp hlp (p.buf.take p.i) ls).toInv hLO (by rw [hsl]; exact hls) (Int.le_refl _) hgi
        rw [hsl, ht] at this
        exact this
      have hspans' : PBSpans QT 0 p.i t.root ∧
          (t.root.label.stop < 0 ∨
            (t.root = lp.root ∧ lp.root.blocks = [] ∧ ls = p.i ∧ p.buf.drop p.i = []) ∨
            (0 ≤ t.root.label.stop ∧ ls = p.i)) := by
        by_cases hopen : lp.root.label.stop < 0
        · have key := processLine_spans x lp (p.buf.take p.i) ls hlp (by rw [hsl]; exact hls) hopen hcheck
          rw [hsl, ht] at key
          refine ⟨key.1, ?_⟩
          by_cases hro : t.root.label.stop < 0
          · exact Or.inl hro
          · right; right
            refine ⟨by omega, ?_⟩
            have : ¬ ls < p.i := fun hlt => hro (key.2 hlt)
            omega
        · rcases hlive with hl | ⟨hb', hlsi, hdrop⟩
          · exact absurd hl hopen
          · have hdl : (p.buf.take p.i).drop ls = [] := by rw [hlsi]; simp
            have hroot := processLine_dead x lp (p.buf.take p.i) ls hdl (by omega) hb'
            rw [ht] at hroot
            rw [hroot]
            refine ⟨?_, Or.inr (Or.inl ⟨rfl, hb', hlsi, hdrop⟩)⟩
            rw [← hlsi]; exact hspans
      obtain ⟨hsp', hcase⟩ := hspans'
      rcases hr : t.root with ⟨l, bs, is⟩
      have hkb : t.root.blocks = bs := by rw [hr]; rfl
      have hsp'' := hsp'
      rw [hr, PBSpans_mk] at hsp''
      obtain ⟨a1, a2, a3, a4, a5, a6⟩ := hsp''
      have hgk : ∀ b ∈ bs, GoodT (p.buf.take p.i) (p.i : Int) b := by
        have := hgood'
        rw [hr, GoodT_mk] at this
        exact this.2
      have hxk : ∀ b ∈ bs, XT (p.buf.take p.i) b := by
        have := s3
        rw [hr, XT_mk] at this
        exact this.2
      have hord : kidsOrd bs = true := kidsOrd_of_xt a5 hxk
      rw [hkb] at hkids hkids' hkidsOK
      have hgc : ∀ k rest, bs = k :: rest → k.isOpen = false → GoodCut p.buf (stopOf k) := by
        intro k rest hbs hko
        rw [hbs] at hkidsOK
        obtain ⟨_, hle, hgcut, _⟩ := kidsOK_cons_closed hko hkidsOK
        rw [hsl] at hle
        exact goodCut_of_take hle hgcut hM.cut_i
      rcases makeRoot_simN he hcr hM R bs hord hgc with ⟨m1, m2⟩ | ⟨r, q, q', m1, m2, m3⟩
      · -- no root yet: the next line
        rw [parseLines_next _ hpan (by rw [hkids]; exact m1), parseLines_next _ hpan' (by rw [hkids']; exact m2),
          readline_step p R.err R.ile, readline_step p' R.err' (R.ile' he)]
        simp only []
        obtain ⟨Rn, _⟩ := R.readline he hbufC
        have hsess' : Sess2 p.i ({ p with i := p.i + lineLen (p.buf.drop p.i) } : BP) t := by
          refine ⟨hnp.2, hsp', ?_, hgood'⟩
          rcases hcase with hro | ⟨hroot, hb', hlsi, hdrop⟩ | ⟨hrc, hlsi⟩
          · exact Or.inl hro
          · right
            have h0 : lineLen (p.buf.drop p.i) = 0 := by rw [hdrop]; rfl
            refine ⟨by rw [hroot]; exact hb', ?_, ?_⟩
            · show p.i = p.i + lineLen (p.buf.drop p.i); omega
            · show p.buf.drop (p.i + lineLen (p.buf.drop p.i)) = []
              rw [h0, Nat.add_zero]; exact hdrop
          · right
            have h0 : lineLen (p.buf.drop p.i) = 0 := by
              have : lineLen (p.buf.drop ls) = 0 := by omega
              rw [← hlsi]; exact this
            have hd := lineLen_eq_zero h0
            refine ⟨?_, ?_, ?_⟩
            · rw [hkb]
              cases bs with
              | nil => rfl
              | cons k rest =>
                exfalso
                have hrc' : 0 ≤ l.stop := by rw [hr] at hrc; exact hrc
                have hd1 : decide (l.stop < 0) = false := by simp; omega
                rw [hd1] at a5
                have hkc := allClosed_of_false a5 k (by simp)
                have : k.isOpen = false := (isOpen_false_iff k).mpr hkc
                simp [makeRoot, this] at m1
            · show p.i = p.i + lineLen (p.buf.drop p.i); omega
            · show p.buf.drop (p.i + lineLen (p.buf.drop p.i)) = []
              rw [h0, Nat.add_zero]; exact hd
        -- the contract session continues with the next line
        have hopen : headOpen ((blocksLP x).kids t) = true := by
          show headOpen t.root.blocks = true
          rw [hkb]
          cases hbs : bs with
          | nil =>
            obtain ⟨_, hne', _, _⟩ := checkStep_elim (C.obs _ _ _ hCok)
            exact absurd (by show t.root.blocks = []; rw [hkb, hbs]) hne'
          | cons k rest =>
            show k.isOpen = true
            cases hko : k.isOpen with
            | true => rfl
            | false =>
              rw [hbs] at m1
              simp [makeRoot, hko] at m1
        obtain ⟨hpad, hlinef, hns, htake, -⟩ := hM.line_facts
        have hok2 := C.next _ _ ls _ hCok hopen hpad hlinef hns
        rw [hsl, ← htake] at hok2
        have := ih g t (ok && chkB (e.length - 1) (p.buf.take p.i) lp.root) p.i _ _ c y (by omega) hM.readline Rn
          (lineCond_nextN hbufC) rfl hnpf hsess' s3 hok2
        rw [hlineq, hline']
        have hi' : eolPos e p.buf p.i = p'.i := R.i'.symm
        simp only [] at this
        rw [hi'] at this
        exact this
      · right
        rw [parseLines_root _ hpan (by rw [hkids]; exact m1), parseLines_root _ hpan' (by rw [hkids']; exact m2)]
        have a5' : PBSpansL QT (decide (l.stop < 0)) l.start p.i bs := PBSpansL_mono' (Int.le_refl _) a3 a5
        have hgd := makeRoot_good p bs _ l.start hi a5' hgk hnpf _ _ m1
        have hbase := (makeRoot_spans p bs _ _ _ herr hi a1 a3 a5 _ _ m1).2
        -- the C01 invariant after the cut
        have hmi : ∃ c' y', MInv inp q c' y' ∧ PendInv C q.blocks (q.buf.take q.i) := by
          cases hbs : bs with
          | nil => rw [hbs] at m1; simp [makeRoot] at m1
          | cons k rest =>
            rw [hbs] at m1 hkidsOK
            have hko : k.isOpen = false := by
              cases hko : k.isOpen with
              | false => rfl
              | true => simp [makeRoot, hko] at m1
            obtain ⟨r0, q0, hmk, y₁, y₂, _, _, hMq, hPq, _⟩ := makeRoot_out C hM k rest hko hkidsOK (by
              intro k' r' e'
              subst e'
              exact C.cut _ _ ls k k' r' hCok (by show t.root.blocks = _; rw [hkb, hbs]) hko)
            rw [m1] at hmk
            simp only [Option.some.injEq, Prod.mk.injEq] at hmk
            obtain ⟨_, rfl⟩ := hmk
            exact ⟨_, _, hMq, hPq⟩
        exact ⟨rfl, m3, ⟨hbase, hgd.1, hgd.2⟩, makeRoot_xt p bs hord hxk _ _ m1, hmi⟩

end

end CM.Proofs.EolN
