import CM.Proofs.ParseWholeGrammarSub
/-
C05, inline half — the delimiter-stack discipline `SOK` (pure part) and the combined invariant `Om`.

`N` is the list of the nodes of the stack entries, bottom first.  `SOK a pm N b P0`: the nodes of the entries `≥ b` are
children of `P0` (as `parentMap` says), in stack order; those `< b` are children of the root, in stack order, and are
not children of `P0`.  Outside `finishLink`: `b = 0`, `P0 = 0`.
-/
namespace CM.Proofs.InlH
open CM CM.Model CM.Model.Inl CM.Spec

structure SOK (a : Array INode) (pm : Array (Option Nat)) (N : List Nat) (b P0 : Nat) : Prop where
  pmsz : pm.size = a.size
  stk : ∀ x ∈ N, x < a.size ∧ kindOf a x = IK.text
  p0 : P0 < a.size
  p0k : P0 = 0 ∨ isLinkKind (kindOf a P0)
  bz : P0 = 0 → b = 0
  ble : b ≤ N.length
  lower : (N.take b).Sublist (a[0]!).kids.toList
  lowerP : ∀ x ∈ N.take b, (pm[x]?).join = some 0
  upper : (N.drop b).Sublist (a[P0]!).kids.toList
  upperP : ∀ x ∈ N.drop b, (pm[x]?).join = some P0
  disj : P0 ≠ 0 → ∀ x ∈ N.take b, x ∉ (a[P0]!).kids.toList

/-- the node list of a stack -/
def stN (st : Array DelimE) : List Nat := st.toList.map (·.node)

theorem stN_del (st : Array DelimE) (i j : Nat) :
    stN (st.extract 0 i ++ st.extract j st.size) = (stN st).take i ++ (stN st).drop j := by
  unfold stN
  rw [Array.toList_append, Array.toList_extract, Array.toList_extract, List.map_append]
  simp only [List.extract_eq_take_drop, Nat.sub_zero, List.drop_zero, List.map_take, List.map_drop]
  rw [List.take_of_length_le (l := List.drop j (List.map (fun x => x.node) st.toList)) (by simp)]

theorem stN_push (st : Array DelimE) (e : DelimE) : stN (st.push e) = stN st ++ [e.node] := by
  unfold stN; simp

theorem stN_length (st : Array DelimE) : (stN st).length = st.size := by unfold stN; simp

theorem stN_get (st : Array DelimE) (i : Nat) (h : i < st.size) : (stN st)[i]? = some (st[i]!).node := by
  unfold stN
  rw [List.getElem?_map, Array.getElem?_toList, Array.getElem?_eq_getElem h, getElem!_pos st i h]
  rfl

/-- the arena changed, but the kinds did not, the two children lists only grew, and `parentMap` is the same at the
    stack nodes -/
theorem SOK.frame {a a' : Array INode} {pm pm' : Array (Option Nat)} {N : List Nat} {b P0 : Nat} (h : SOK a pm N b P0)
    (hs : KSame a a') (hsz : pm'.size = a'.size)
    (h0 : (a[0]!).kids.toList.Sublist (a'[0]!).kids.toList)
    (hP : (a[P0]!).kids.toList.Sublist (a'[P0]!).kids.toList)
    (hd : P0 ≠ 0 → ∀ x ∈ N.take b, x ∉ (a'[P0]!).kids.toList)
    (hpm : ∀ x ∈ N, (pm'[x]?).join = (pm[x]?).join) : SOK a' pm' N b P0 where
  pmsz := hsz
  stk x hx := ⟨Nat.lt_of_lt_of_le (h.stk x hx).1 hs.1, by rw [hs.2 x (h.stk x hx).1]; exact (h.stk x hx).2⟩
  p0 := Nat.lt_of_lt_of_le h.p0 hs.1
  p0k := by rw [hs.2 P0 h.p0]; exact h.p0k
  bz := h.bz
  ble := h.ble
  lower := h.lower.trans h0
  lowerP x hx := by rw [hpm x ((List.take_sublist _ _).subset hx)]; exact h.lowerP x hx
  upper := h.upper.trans hP
  upperP x hx := by rw [hpm x ((List.drop_sublist _ _).subset hx)]; exact h.upperP x hx
  disj := hd

/-- the same arena and `parentMap`, fewer stack entries in the upper part (`delStack i j`, `b ≤ i ≤ j`) -/
theorem SOK.del {a : Array INode} {pm : Array (Option Nat)} {N : List Nat} {b P0 : Nat} (h : SOK a pm N b P0)
    {i j : Nat} (hbi : b ≤ i) (hij : i ≤ j) (hi : i ≤ N.length) : SOK a pm (N.take i ++ N.drop j) b P0 := by
  have htk : (N.take i ++ N.drop j).take b = N.take b := by
    rw [List.take_append_of_le_length (by rw [List.length_take]; omega), List.take_take]
    congr 1; omega
  have hdr : ((N.take i ++ N.drop j).drop b).Sublist (N.drop b) := by
    rw [List.drop_append_of_le_length (by rw [List.length_take]; omega)]
    have e : N.drop b = (N.take i).drop b ++ N.drop i := by
      conv => lhs; rw [← List.take_append_drop i N]
      rw [List.drop_append_of_le_length (by rw [List.length_take]; omega)]
    rw [e]
    exact (List.Sublist.refl _).append (List.drop_sublist_drop_left N hij)
  have hsub : (N.take i ++ N.drop j).Sublist N := by
    conv => rhs; rw [← List.take_append_drop i N]
    exact (List.Sublist.refl _).append (List.drop_sublist_drop_left N hij)
  exact {
    pmsz := h.pmsz
    stk := fun x hx => h.stk x (hsub.subset hx)
    p0 := h.p0
    p0k := h.p0k
    bz := h.bz
    ble := by rw [List.length_append, List.length_take]; omega
    lower := by rw [htk]; exact h.lower
    lowerP := by rw [htk]; exact h.lowerP
    upper := hdr.trans h.upper
    upperP := fun x hx => h.upperP x (hdr.subset hx)
    disj := by rw [htk]; exact h.disj }

/-- a new stack with the same nodes -/
theorem SOK.sameN {a : Array INode} {pm : Array (Option Nat)} {N N' : List Nat} {b P0 : Nat} (h : SOK a pm N b P0)
    (e : N' = N) : SOK a pm N' b P0 := e ▸ h

/-- when no entry is left in the upper part, the lower part is the whole stack, under the root -/
theorem SOK.rebase {a : Array INode} {pm : Array (Option Nat)} {N : List Nat} {b P0 : Nat} (h : SOK a pm N b P0)
    (hA : AOK a) (hb : b = N.length) : SOK a pm N 0 0 := by
  have e : N.take b = N := by rw [hb]; exact List.take_length
  exact {
    pmsz := h.pmsz
    stk := h.stk
    p0 := hA.pos
    p0k := Or.inl rfl
    bz := fun _ => rfl
    ble := Nat.zero_le _
    lower := by simp
    lowerP := by intro x hx; simp at hx
    upper := by rw [List.drop_zero, ← e]; exact h.lower
    upperP := by
      intro x hx
      rw [List.drop_zero, ← e] at hx
      exact h.lowerP x hx
    disj := fun hne => absurd rfl hne }

/-- a Text node was allocated, hung under the root, and pushed on the stack (`parseDelimiterRun`, `[`, `![`) -/
theorem SOK.pushDelim {a : Array INode} {pm : Array (Option Nat)} {N : List Nat} (h : SOK a pm N 0 0) (hA : AOK a)
    (n : INode) (hk : n.kind = IK.text) :
    SOK ((a.push n).modify 0 (fun m => { m with kids := m.kids.push a.size })) ((pm.push none).set! a.size (some 0))
      (N ++ [a.size]) 0 0 := by
  have hs : KSame a ((a.push n).modify 0 (fun m => { m with kids := m.kids.push a.size })) :=
    (KSame.push a n).trans (KSame.modify _ _ (by intro _; rfl))
  have hroot : (((a.push n).modify 0 (fun m => { m with kids := m.kids.push a.size }))[0]!).kids.toList =
      (a[0]!).kids.toList ++ [a.size] := by
    rw [getElem!_pos _ 0 (by simp), Array.getElem_modify, if_pos rfl, Array.getElem_push_lt hA.pos,
      getElem!_pos a 0 hA.pos]
    simp
  have hpmget : (((pm.push none).set! a.size (some 0))[a.size]?).join = some 0 := by
    rw [Array.set!_eq_setIfInBounds, Array.getElem?_setIfInBounds, if_pos rfl, if_pos (by simp [h.pmsz])]
    rfl
  have hpmother : ∀ x, x < a.size → (((pm.push none).set! a.size (some 0))[x]?).join = (pm[x]?).join := by
    intro x hx
    rw [Array.set!_eq_setIfInBounds, Array.getElem?_setIfInBounds, if_neg (by omega), Array.getElem?_push,
      if_neg (by rw [h.pmsz]; omega)]
  exact {
    pmsz := by simp [h.pmsz]
    stk := by
      intro x hx
      rcases List.mem_append.1 hx with hx | hx
      · exact ⟨Nat.lt_of_lt_of_le (h.stk x hx).1 hs.1, by rw [hs.2 x (h.stk x hx).1]; exact (h.stk x hx).2⟩
      · rw [List.mem_singleton.1 hx]
        refine ⟨by simp, ?_⟩
        rw [kindOf_modify (by intro _; rfl), kindOf_push_size]; exact hk
    p0 := by simp
    p0k := Or.inl rfl
    bz := fun _ => rfl
    ble := Nat.zero_le _
    lower := by simp
    lowerP := by intro x hx; simp at hx
    upper := by
      rw [List.drop_zero, hroot]
      have := h.upper
      rw [List.drop_zero] at this
      exact this.append (List.Sublist.refl _)
    upperP := by
      intro x hx
      rw [List.drop_zero] at hx
      rcases List.mem_append.1 hx with hx | hx
      · rw [hpmother x (h.stk x hx).1]
        exact h.upperP x (by rw [List.drop_zero]; exact hx)
      · rw [List.mem_singleton.1 hx]; exact hpmget
    disj := fun hne => absurd rfl hne }

end CM.Proofs.InlH
