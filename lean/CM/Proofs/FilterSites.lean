import CM.Proofs.FilterSitesTok
import CM.Proofs.FilterSitesCompose
import CM.Proofs.FilterSitesRender
/-
C17 (b) for the repaired, STATELESS tag filter: after `Model.filterRaw p`, an HTML tokenizer
(`Spec.startTags`: WHATWG newline preprocessing, then the tag-related tokenizer states) sees no start tag
whose name `p` rejects.

The argument has two independent halves that meet in a purely syntactic, decidable property of a byte string:

  `sitesOK p html` — no `<` directly followed by an ASCII letter whose name candidate
                     (`nameAt`: the lower-cased `[A-Za-z][A-Za-z0-9-]*` run after the `<`) is rejected by `p`.

  * `startTags_of_sitesOK` — tokenizer side, for ARBITRARY byte strings: if `html` is `sitesOK` and `p` is
    `NameClosed`, every start tag the tokenizer emits for `html` is accepted by `p`. (Invariant over
    `tokenizeAux` in `FilterSitesTok.lean`; the newline preprocessing is handled by
    `sitesOK_normalizeNewlines`.) Because it needs nothing but `sitesOK`, it applies to the whole rendered
    output, whatever node boundaries, comments, quotes or renderer markup surround a raw node.
  * `filterRaw_sitesOK` — filter side, for EVERY predicate and raw text: the filter's output is `sitesOK`.
  * `sitesOK_append_of_seam`, `sitesOK_of_noLt`, `sitesOK_startTag`, `sitesOK_endTag`,
    `sitesOK_flatten_closed/open` (in `FilterSitesCompose.lean`) — lifting to an output made of segments.

`NameClosed p` is necessary: the tokenizer's tag name runs up to white space, `/` or `>`, the filter's only
over letters, digits and `-`; a predicate rejecting `s_x` but not `s` is defeated by `<s_x>` (example below).
Every predicate given by a finite list of names made of letters, digits and `-` is `NameClosed`
(`nameClosed_of_list`), in particular `filterTagGFM` (re-checked by kernel evaluation over the generated list).

Definitions: `nameChar`, `nameAt`, `sitesOK`, `NameClosed` are in `FilterSitesBase.lean` exactly as in the task
statement; `sitesOK_cons` restates `sitesOK` through `siteOK p rest = !(startsLetter rest && p (nameAt rest))`.
-/
namespace CM.Proofs
open CM CM.Model CM.Spec
open FilterSites

/-! ### `NameClosed` -/

/-- Sufficient: `p` only rejects names consisting of letters, digits and `-`. -/
theorem nameClosed_of_clean (p : Bytes → Bool) (h : ∀ n, p n = true → n.all nameChar = true) : NameClosed p := by
  intro n hn
  rw [takeWhile_eq_self_of_all nameChar n (h n hn)]; exact hn

/-- Sufficient and decidable: `p` is membership in a finite list of clean names. -/
theorem nameClosed_of_list (L : List Bytes) (h : L.all (fun n => n.all nameChar) = true) :
    NameClosed (fun n => L.contains n) := by
  apply nameClosed_of_clean
  intro n hn
  have hm : n ∈ L := by simpa using hn
  exact List.all_eq_true.mp h n hm

/-- The same for any predicate that agrees with list membership. -/
theorem nameClosed_of_list' (p : Bytes → Bool) (L : List Bytes) (hpL : ∀ n, p n = L.contains n)
    (h : L.all (fun n => n.all nameChar) = true) : NameClosed p := by
  have : p = fun n => L.contains n := funext hpL
  rw [this]; exact nameClosed_of_list L h

/-- Name-closed predicates are closed under union … -/
theorem nameClosed_or (p q : Bytes → Bool) (hp : NameClosed p) (hq : NameClosed q) :
    NameClosed (fun n => p n || q n) := by
  intro n hn
  simp only [Bool.or_eq_true] at hn ⊢
  exact hn.imp (hp n) (hq n)

/-- … and a predicate that rejects nothing is name-closed. -/
theorem nameClosed_false : NameClosed (fun _ => false) := by
  intro n hn; exact hn

/-- The real predicate satisfies the hypothesis (checked over the generated name list in the kernel, so it
    re-checks when the generated list changes). -/
theorem filterTagGFM_nameClosed : NameClosed filterTagGFM :=
  nameClosed_of_list Gen.filterTagGFMNames (by decide +kernel)

/-! ### The tokenizer-level core -/

/-- For ARBITRARY `html`: if no `<`+letter site of `html` has a rejected name candidate, the tokenizer emits
    no start tag with a rejected name. -/
theorem startTags_of_sitesOK (p : Bytes → Bool) (hp : NameClosed p) (html : Bytes) (h : sitesOK p html = true) :
    ∀ name ∈ Spec.startTags html, p name = false := by
  unfold Spec.startTags
  exact startTagsRaw_of_sitesOK p hp _ (by rw [sitesOK_normalizeNewlines]; exact h)

/-- The invariant form: from any data-state tokenizer configuration with only accepted names emitted so far,
    nothing rejected is ever added (useful when the tokenizer is resumed). -/
theorem tokenize_data_safe (p : Bytes → Bool) (hp : NameClosed p) (html : Bytes) (h : sitesOK p html = true)
    (nm : Bytes) (e : Bool) (o : List Bytes) (ho : ∀ n ∈ o, p n = false) :
    ∀ n ∈ (tokenizeAux html ⟨.data, nm, e, o⟩ 0).out, p n = false :=
  tokenizeAux_inv p hp html ⟨.data, nm, e, o⟩ 0 ⟨ho, True.intro⟩ h

/-! ### The filter establishes the premise -/

/-- For every predicate and every raw text, the filter's output has no rejected site. -/
theorem filterRaw_sitesOK (p : Bytes → Bool) (raw : Bytes) : sitesOK p (Model.filterRaw p raw) = true :=
  filterLoop_sitesOK p raw

/-- C17 (b): after tag filtering, an HTML tokenizer sees no start tag with a rejected name. -/
theorem no_rejected_start_tag (p : Bytes → Bool) (hp : NameClosed p) (raw : Bytes) :
    ∀ name ∈ Spec.startTags (Model.filterRaw p raw), p name = false :=
  startTags_of_sitesOK p hp _ (filterRaw_sitesOK p raw)

/-- The real predicate: GFM tag filtering leaves no `<script>`, `<style>`, … start tag in any raw text. -/
theorem no_rejected_start_tag_gfm (raw : Bytes) :
    ∀ name ∈ Spec.startTags (filterRaw filterTagGFM raw), filterTagGFM name = false :=
  no_rejected_start_tag filterTagGFM filterTagGFM_nameClosed raw

/-- Several raw nodes filtered separately and concatenated with arbitrary `<`-free text in between
    (cross-node form; the general tool is `sitesOK_append_of_seam`): here for two nodes whose seam is
    innocuous. -/
theorem no_rejected_start_tag_two (p : Bytes → Bool) (hp : NameClosed p) (raw1 raw2 : Bytes)
    (hseam : seamOK (filterRaw p raw1) (filterRaw p raw2) = true) :
    ∀ name ∈ Spec.startTags (filterRaw p raw1 ++ filterRaw p raw2), p name = false :=
  startTags_of_sitesOK p hp _
    (sitesOK_append_of_seam p _ _ (filterRaw_sitesOK p raw1) (filterRaw_sitesOK p raw2) hseam)

/-- Raw nodes that each end in a byte that is neither a name character nor `<` (a line ending, `>` …),
    filtered separately, with any site-free segments that do not end in a candidate in between. -/
theorem no_rejected_start_tag_segments (p : Bytes → Bool) (hp : NameClosed p) (segs : List Bytes)
    (h : ∀ s ∈ segs, sitesOK p s = true ∧ endsInCandidate s = false) :
    ∀ name ∈ Spec.startTags segs.flatten, p name = false :=
  startTags_of_sitesOK p hp _ (sitesOK_flatten_closed p segs h).1

/-- The seam condition can be checked on the raw texts. -/
theorem no_rejected_start_tag_two_raw (p : Bytes → Bool) (hp : NameClosed p) (raw1 raw2 : Bytes)
    (hseam : seamOK raw1 raw2 = true) :
    ∀ name ∈ Spec.startTags (filterRaw p raw1 ++ filterRaw p raw2), p name = false :=
  no_rejected_start_tag_two p hp raw1 raw2 (seamOK_filterLoop p raw1 raw2 hseam)

/-- Any number of raw nodes, none ending in an open candidate `<` nameChar* (e.g. each ends in `>` or a
    line ending), filtered one by one and concatenated. -/
theorem no_rejected_start_tag_nodes (p : Bytes → Bool) (hp : NameClosed p) (raws : List Bytes)
    (h : ∀ r ∈ raws, endsInCandidate r = false) :
    ∀ name ∈ Spec.startTags ((raws.map (filterRaw p)).flatten), p name = false := by
  apply no_rejected_start_tag_segments p hp
  intro s hs
  obtain ⟨r, hr, rfl⟩ := List.mem_map.mp hs
  exact ⟨filterRaw_sitesOK p r, endsInCandidate_filterLoop p r (h r hr)⟩

/-! ### Examples (kernel evaluation) -/

private def b (s : String) : Bytes := s.toUTF8.toList

/-- Rejects exactly the element name `s` (name-closed: a one-element list of a clean name). -/
private def rejectS (n : Bytes) : Bool := [[0x73]].contains n
private theorem rejectS_nameClosed : NameClosed rejectS := nameClosed_of_list [[0x73]] (by decide +kernel)

-- (5a) The cross-node bypass input of the old (stateful) filter: two lines filtered separately.
private def line1 : Bytes := b "<a x=\n"
private def line2 : Bytes := b "'><!--'><script>alert(1)</script>-->\n"
example : filterRaw filterTagGFM line1 ++ filterRaw filterTagGFM line2 =
    b "<a x=\n'><!--'>&lt;script>alert(1)</script>-->\n" := by decide +kernel
example : Spec.startTags (filterRaw filterTagGFM line1 ++ filterRaw filterTagGFM line2) = [b "a"] := by
  decide +kernel
example : seamOK (filterRaw filterTagGFM line1) (filterRaw filterTagGFM line2) = true := by decide +kernel
/-- … and the theorem applies to it (non-vacuity of the cross-node form). -/
example : ∀ name ∈ Spec.startTags (filterRaw filterTagGFM line1 ++ filterRaw filterTagGFM line2),
    filterTagGFM name = false :=
  no_rejected_start_tag_two filterTagGFM filterTagGFM_nameClosed line1 line2 (by decide +kernel)
example : ∀ name ∈ Spec.startTags (([line1, line2].map (filterRaw filterTagGFM)).flatten), filterTagGFM name = false :=
  no_rejected_start_tag_nodes filterTagGFM filterTagGFM_nameClosed [line1, line2] (by decide +kernel)
/-- Unfiltered, the tokenizer sees the script element. -/
example : Spec.startTags (line1 ++ line2) = [b "a", b "script"] := by decide +kernel

-- (5b) The end-tag bypass of the old filter.
example : filterRaw filterTagGFM (b "</x =\"><script>\">") = b "</x =\">&lt;script>\">" := by decide +kernel
example : Spec.startTags (filterRaw filterTagGFM (b "</x =\"><script>\">")) = [] := by decide +kernel
example : Spec.startTags (b "</x =\"><script>\">") = [b "script"] := by decide +kernel
example : Spec.startTags (filterRaw filterTagGFM (b "</x=\"><script>\">")) = [] := by decide +kernel

-- (5c) `<S<S>`: the tokenizer's name is `s<s`; both sites show `s` to the predicate.
example : Spec.startTags (b "<S<S>") = [b "s<s"] := by decide +kernel
example : filterRaw rejectS (b "<S<S>") = b "&lt;S&lt;S>" := by decide +kernel
example : Spec.startTags (filterRaw rejectS (b "<S<S>")) = [] := by decide +kernel
example : filterRaw filterTagGFM (b "<S<S>") = b "<S<S>" := by decide +kernel
example : Spec.startTags (filterRaw filterTagGFM (b "<S<S>")) = [b "s<s"] := by decide +kernel
example : filterTagGFM (b "s<s") = false := by decide +kernel

-- (5d) CR / CRLF: preprocessing turns them into LF, which ends the tag name in the tokenizer.
example : Spec.startTags (b "<script\r\n><xmp\r>") = [b "script", b "xmp"] := by decide +kernel
example : filterRaw filterTagGFM (b "<script\r\n><xmp\r>") = b "&lt;script\r\n>&lt;xmp\r>" := by decide +kernel
example : Spec.startTags (filterRaw filterTagGFM (b "<script\r\n><xmp\r>")) = [] := by decide +kernel
example : Spec.startTags (filterRaw filterTagGFM (b "<a\r\n><b\r>")) = [b "a", b "b"] := by decide +kernel
example : sitesOK filterTagGFM (b "<a\r\n><script\r>") = false := by decide +kernel
example : sitesOK filterTagGFM (normalizeNewlines (b "<a\r\n><script\r>")) = false := by decide +kernel

-- (5e) A predicate that is not name-closed, with its counterexample `<s_x>`: the hypothesis is necessary.
private def rejSX (n : Bytes) : Bool := filterTagGFM n || n == b "s_x"
example : rejSX (b "s_x") = true ∧ rejSX ((b "s_x").takeWhile nameChar) = false := by decide +kernel
example : ¬ NameClosed rejSX := by
  intro h
  exact absurd (h (b "s_x") (by decide +kernel)) (by decide +kernel)
example : filterRaw rejSX (b "<s_x>") = b "<s_x>" := by decide +kernel
example : sitesOK rejSX (filterRaw rejSX (b "<s_x>")) = true := by decide +kernel
example : Spec.startTags (filterRaw rejSX (b "<s_x>")) = [b "s_x"] := by decide +kernel
/-- So the statement without `NameClosed` is false. -/
def no_rejected_start_tag_unconditional_target : Prop :=
  ∀ (p : Bytes → Bool) (raw : Bytes), ∀ name ∈ Spec.startTags (filterRaw p raw), p name = false
example : ¬ no_rejected_start_tag_unconditional_target := by
  intro h
  exact absurd (h rejSX (b "<s_x>") (b "s_x") (by decide +kernel)) (by decide +kernel)

-- Non-vacuity of the main theorems on a non-trivial input with the real predicate.
private def raw1 : Bytes :=
  b "<a title='>'><SCRIPT x>1</script ><!-- <style> --><!--><xmp></a b=\"c\"><s_x><![CDATA[<title>]]><title/></x=\"><iframe>\">"
example : filterRaw filterTagGFM raw1 =
    b "<a title='>'>&lt;SCRIPT x>1</script ><!-- &lt;style> --><!-->&lt;xmp></a b=\"c\"><s_x><![CDATA[&lt;title>]]>&lt;title/></x=\">&lt;iframe>\">" := by
  decide +kernel
example : Spec.startTags (filterRaw filterTagGFM raw1) = [b "a", b "s_x"] := by decide +kernel
example : Spec.startTags raw1 = [b "a", b "script", b "xmp", b "s_x", b "title", b "iframe"] := by decide +kernel
example : sitesOK filterTagGFM raw1 = false := by decide +kernel
example : sitesOK filterTagGFM (filterRaw filterTagGFM raw1) = true := by decide +kernel
example : ∀ name ∈ Spec.startTags (filterRaw filterTagGFM raw1), filterTagGFM name = false :=
  no_rejected_start_tag_gfm raw1

-- `startTags_of_sitesOK` on text that never went through the filter (renderer markup around a comment).
private def page : Bytes := b "<p><em>x</em> <!-- <b --> <a href=\"<script\">k</a></p>\n<S-1 y='<xmp>'>"
example : sitesOK rejectS page = true := by decide +kernel
example : Spec.startTags page = [b "p", b "em", b "a", b "s-1"] := by decide +kernel
example : ∀ name ∈ Spec.startTags page, rejectS name = false :=
  startTags_of_sitesOK rejectS rejectS_nameClosed page (by decide +kernel)
/-- `sitesOK` is sufficient, not necessary: it also looks at `<` inside comments and attribute values. -/
example : sitesOK filterTagGFM page = false ∧ (∀ name ∈ Spec.startTags page, filterTagGFM name = false) := by
  decide +kernel

-- Composition lemmas on concrete segments.
example : sitesOK filterTagGFM (0x3C :: (b "a" ++ b " href=\"x\">")) = true :=
  sitesOK_startTag_lower filterTagGFM (b "a") (b " href=\"x\">") (by decide +kernel) (by decide +kernel)
    (by decide +kernel) (by decide +kernel) (by decide +kernel)
example : sitesOK filterTagGFM (0x3C :: 0x2F :: b "script>") = true := sitesOK_endTag filterTagGFM (b "script>") (by decide +kernel)
example : sitesOK filterTagGFM (b "a &lt; b &amp; c") = true := sitesOK_of_noLt _ _ (by decide +kernel)
private def cxF : RCtx := { ext := ⟨id⟩, src := [], filter := some filterTagGFM }
example : sitesOK filterTagGFM (openTag cxF (b "title")) = true :=
  sitesOK_openTag_filter filterTagGFM _ rfl (b "title") (by decide +kernel) (by decide +kernel)
example : openTag cxF (b "title") = b "&lt;title>" := by decide +kernel
example : openTag cxF (b "em") = b "<em>" := by decide +kernel
/-- A seam that is NOT innocuous: `<scr` then `ipt>` — each half is site-free, the whole is not. -/
example : sitesOK filterTagGFM (b "<scr") = true ∧ sitesOK filterTagGFM (b "ipt>") = true ∧
    seamOK (b "<scr") (b "ipt>") = false ∧ sitesOK filterTagGFM (b "<scr" ++ b "ipt>") = false := by decide +kernel
/-- `seamOK` is sufficient, not necessary. -/
example : seamOK (b "<a") (b "b>") = false ∧ sitesOK filterTagGFM (b "<a" ++ b "b>") = true := by decide +kernel

end CM.Proofs
