import CM.Proofs.QuoteGMain
import CM.Proofs.RefDefSpansMain
import CM.Props.C01Blocks
/-
C09, block-quote half, block phase — **documents with link reference definitions**.

`blocks_quote_sim_bracket`: for every document `D` without tab, carriage return and NUL, not empty, none of whose lines
is (or ends with, behind container markers) a setext heading underline: `quote D` parses to exactly one root, a block
quote spanning the whole input, whose children are related one by one to the root blocks of `D` (`QuoteRelated (DRq D)`):
in particular the link reference definitions extracted from a quoted paragraph correspond to those extracted from the
bare paragraph, with the same normalised labels and the same text of label, destination and title.
-/
namespace CM.Proofs.Quote
open CM CM.Model CM.Gen CM.Proofs.BT CM.Proofs.BSp CM.Proofs.Nest

/-- The run of the (checked) block parser on any input ends with end of input (C01 + C02). -/
theorem run_ends_eof' (x : PExt) (D : Bytes) :
    isEof (drain (BSp.blocksLPc x) (D.length + 8) (memParser D) []).2.1 = true := by
  rw [← RDS.drain_checked_eq_uncond x D (D.length + 8)]
  obtain ⟨rs, p', h, -, -⟩ := CM.Props.C01.C01_tiling_blocks x D (D.length + 8) (by omega)
  rw [h]; rfl

/-! ### the hypothesis on setext underlines, as a Boolean check -/

/-- No suffix of the line is a setext heading underline. -/
def noULlineB (l : Bytes) : Bool :=
  (List.range (l.length + 1)).all fun j =>
    parseSetextHeadingUnderline ((l.drop j).dropWhile (fun c => c == SP || c == TAB)) == 0

theorem noUL_of_check {l : Bytes} (h : noULlineB l = true) : NoUL l := by
  intro i
  by_cases hi : i < l.length + 1
  · unfold noULlineB at h
    rw [List.all_eq_true] at h
    have := h i (List.mem_range.mpr hi)
    simpa using this
  · rw [List.drop_eq_nil_of_le (by omega)]
    rfl

/-- Every line of `D` passes the check. -/
def noULB (D : Bytes) : Bool :=
  (List.range D.length).all fun i =>
    !(i == 0 || D.getD (i - 1) 0 == LF) || noULlineB ((D.drop i).take (lineLen (D.drop i)))

theorem noULD_of_check {D : Bytes} (h : noULB D = true) : NoULD D := by
  intro a b hD hw hb
  unfold noULB at h
  rw [List.all_eq_true] at h
  have hlen : a.length < D.length := by
    rw [hD, List.length_append]
    have : 0 < b.length := List.length_pos_iff.mpr hb
    omega
  have := h a.length (List.mem_range.mpr hlen)
  have hdrop : D.drop a.length = b := by rw [hD, List.drop_left]
  rw [hdrop] at this
  have hstart : (a.length == 0 || D.getD (a.length - 1) 0 == LF) = true := by
    rcases hw with hw | hw
    · rw [hw]; rfl
    · have hne : a ≠ [] := by intro e; rw [e] at hw; cases hw
      have hpos : 0 < a.length := List.length_pos_iff.mpr hne
      rw [List.getLast?_eq_getElem?] at hw
      have : D.getD (a.length - 1) 0 = LF := by
        rw [hD, List.getD_eq_getElem?_getD, List.getElem?_append_left (by omega), hw]; rfl
      rw [this]
      simp
  rw [hstart] at this
  simp only [Bool.not_true, Bool.false_or] at this
  exact noUL_of_check this

/-- **C09, block-quote half, block phase, documents with `[`.** -/
theorem blocks_quote_sim_bracket (x : PExt) (D : Bytes) (hc : Clean D) (hne : D ≠ []) (hul : NoULD D) :
    ∃ (rq : Root) (pQ : BP),
      drain (blocksLP x) ((quote D).length + 8) (memParser (quote D)) [] = ([rq], .err .eof, pQ) ∧
      rq.source = quote D ∧ rq.startOffset = 0 ∧ rq.endOffset = (quote D).length ∧
      QuoteRelated (DRq D) D (drain (blocksLP x) (D.length + 8) (memParser D) []).1 rq.block :=
  blocks_quote_simG (x := x) ⟨hc, hne, hul⟩ (run_ends_eof' x D)

/-- A document with a link reference definition (with a two-line title), a paragraph that uses it, a list and a fenced
    code block. -/
def qDocB : Bytes :=
  Bytes.ofString "[foo]: /url 'two\nlines'\n[bar]: <b>\nsee [foo] and [bar]\n\n- item\n\n```\ncode [x]\n```\n"

example : Clean qDocB ∧ qDocB ≠ [] ∧ noULB qDocB = true ∧ (0x5B : UInt8) ∈ qDocB := by decide +kernel

example (x : PExt) : ∃ (rq : Root) (pQ : BP),
    drain (blocksLP x) ((quote qDocB).length + 8) (memParser (quote qDocB)) [] = ([rq], .err .eof, pQ) ∧
    rq.source = quote qDocB ∧ rq.startOffset = 0 ∧ rq.endOffset = (quote qDocB).length ∧
    QuoteRelated (DRq qDocB) qDocB (drain (blocksLP x) (qDocB.length + 8) (memParser qDocB) []).1 rq.block :=
  blocks_quote_sim_bracket x qDocB (by decide +kernel) (by decide +kernel) (noULD_of_check (by decide +kernel))

end CM.Proofs.Quote
