import CM.Model.Format
/-
The formatter's writer: sticky error, and no write is issued after a failed one.
-/
namespace CM.Proofs
open CM CM.Model

/-- No write issued so far has failed. -/
def Clean (w : ScriptW) : Prop := ∀ i, i < w.log.length → w.failAt ≠ some i

/-- The last write issued is the one that failed (and no earlier one did). -/
def JustFailed (w : ScriptW) : Prop := w.log.length ≥ 1 ∧ w.failAt = some (w.log.length - 1)

theorem write_spec (w : ScriptW) (s : Bytes) (h : Clean w) :
    ((w.write s).2 = false → Clean (w.write s).1) ∧ ((w.write s).2 = true → JustFailed (w.write s).1) := by
  simp only [ScriptW.write]
  constructor
  · intro hf i hi
    simp only [List.length_append, List.length_cons, List.length_nil] at hi
    by_cases hlt : i < w.log.length
    · exact h i hlt
    · have : i = w.log.length := by omega
      subst this
      intro heq
      have hf' : ¬ w.failAt = some w.log.length := by simpa using hf
      exact hf' heq
  · intro hf
    simp only [JustFailed, List.length_append, List.length_cons, List.length_nil]
    refine ⟨by omega, ?_⟩
    have : w.failAt = some w.log.length := by simpa using hf
    rw [this]; simp

/-- Outcome of a sequence of writes that stops at the first failure. -/
def Outcome (r : ScriptW × Bool) : Prop := (r.2 = false → Clean r.1) ∧ (r.2 = true → JustFailed r.1)

theorem writeStrings_spec (w : ScriptW) (l : List Bytes) (h : Clean w) : Outcome (writeStrings w l) := by
  induction l generalizing w with
  | nil => exact ⟨fun _ => h, fun hf => by simp [writeStrings] at hf⟩
  | cons s rest ih =>
    simp only [writeStrings]
    have hw := write_spec w s h
    cases hr : (w.write s).2 with
    | true => simp only [if_true]; exact ⟨fun hf => by simp [hr] at hf, fun _ => hw.2 hr⟩
    | false => simp only [Bool.false_eq_true, if_false]; exact ih _ (hw.1 hr)

theorem writeTrimmedIndent_spec (w : ScriptW) (ind : List Bytes) (h : Clean w) :
    Outcome (writeTrimmedIndent w ind) := by
  unfold writeTrimmedIndent
  split
  · exact ⟨fun _ => h, fun hf => by simp at hf⟩
  · rename_i front last _
    have hs := writeStrings_spec w front h
    cases hr : (writeStrings w front).2 with
    | true =>
      rw [if_pos hr]
      exact hs
    | false =>
      rw [if_neg (by simp [hr])]
      exact write_spec (writeStrings w front).1 last (hs.1 hr)

/-- The writer's invariant: while `err` is unset no issued write has failed; once it is set, the failing
    write is the last one issued. -/
def FwInv (fw : FW) : Prop := (fw.err = false → Clean fw.w) ∧ (fw.err = true → JustFailed fw.w)

theorem fwLoop_inv (fuel : Nat) (fw : FW) (s : Bytes) (he : fw.err = false) (h : Clean fw.w) :
    FwInv (fwLoop fuel fw s) := by
  induction fuel generalizing fw s with
  | zero => exact ⟨fun _ => h, fun hf => by simp [fwLoop, he] at hf⟩
  | succ f ih =>
    simp only [fwLoop]
    split
    · -- a line feed in s
      rename_i ln rest _
      split
      · -- blank line
        have h1 := writeTrimmedIndent_spec fw.w fw.indents h
        cases hr : (writeTrimmedIndent fw.w fw.indents).2 with
        | true => simp only [if_true]; exact ⟨fun hf => by simp at hf, fun _ => h1.2 hr⟩
        | false =>
          simp only [Bool.false_eq_true, if_false]
          have h2 := write_spec (writeTrimmedIndent fw.w fw.indents).1 [LF] (h1.1 hr)
          cases hr2 : ((writeTrimmedIndent fw.w fw.indents).1.write [LF]).2 with
          | true => simp only [if_true]; exact ⟨fun hf => by simp at hf, fun _ => h2.2 hr2⟩
          | false => simp only [Bool.false_eq_true, if_false]; exact ih _ _ he (h2.1 hr2)
      · -- ordinary line
        have h1 : Outcome (if (!fw.startedLine) = true then writeStrings fw.w fw.indents else (fw.w, false)) := by
          split
          · exact writeStrings_spec fw.w fw.indents h
          · exact ⟨fun _ => h, fun hf => by simp at hf⟩
        generalize (if (!fw.startedLine) = true then writeStrings fw.w fw.indents else (fw.w, false)) = r at h1
        cases hr : r.2 with
        | true => simp only [if_true]; exact ⟨fun hf => by simp at hf, fun _ => h1.2 hr⟩
        | false =>
          simp only [Bool.false_eq_true, if_false]
          have h2 := write_spec r.1 ln (h1.1 hr)
          cases hr2 : (r.1.write ln).2 with
          | true => simp only [if_true]; exact ⟨fun hf => by simp at hf, fun _ => h2.2 hr2⟩
          | false => simp only [Bool.false_eq_true, if_false]; exact ih _ _ he (h2.1 hr2)
    · -- no line feed left
      split
      · exact ⟨fun _ => h, fun hf => by simp [he] at hf⟩
      · have h1 : Outcome (if (!fw.startedLine) = true then writeStrings fw.w fw.indents else (fw.w, false)) := by
          split
          · exact writeStrings_spec fw.w fw.indents h
          · exact ⟨fun _ => h, fun hf => by simp at hf⟩
        generalize (if (!fw.startedLine) = true then writeStrings fw.w fw.indents else (fw.w, false)) = r at h1
        cases hr : r.2 with
        | true => simp only [if_true]; exact ⟨fun hf => by simp at hf, fun _ => h1.2 hr⟩
        | false =>
          simp only [Bool.false_eq_true, if_false]
          have h2 := write_spec r.1 s (h1.1 hr)
          exact ⟨fun hf => h2.1 hf, fun hf => h2.2 hf⟩

theorem fwS_inv (fw : FW) (s : Bytes) (h : FwInv fw) : FwInv (fwS fw s) := by
  unfold fwS
  cases he : fw.err with
  | true => simpa [he] using h
  | false => simp only [Bool.false_eq_true, if_false]; exact fwLoop_inv _ fw s he (h.1 he)

theorem fwRun_inv (fw : FW) (ops : List FwOp) (h : FwInv fw) : FwInv (fwRun fw ops) := by
  induction ops generalizing fw with
  | nil => exact h
  | cons op ops ih =>
    cases op with
    | s b => exact ih _ (fwS_inv fw b h)
    | push b => exact ih _ h
    | pop => exact ih _ h

end CM.Proofs
