import CM.Proofs.InlineSerNodes
/-
Inline serialisation — part 7a, code spans: `collectCodeSpan` (with `csAddSpan`, `stripCodeSpanSpace`) as equations, for
a code span inside one run whose content does not end in a line ending.
-/
namespace CM.Proofs.InlSer
open CM CM.Gen CM.Model CM.Model.Inl CM.Proofs.EscText

theorem csAddSpan_run {c : ICtx} {src : Bytes} (hA : c.srcA = src.toArray) (s : IState) (a b : Nat) (hab : a < b)
    (hb : b ≤ src.length) (x : UInt8) (hx : src[b - 1]? = some x) (hLF : x ≠ LF) (hCR : x ≠ CR) :
    (csAddSpan c #[] (a : Int) (b : Int)).run s = pure (#[{ kind := IK.text, start := (a : Int), stop := (b : Int) }], s) := by
  unfold csAddSpan
  obtain ⟨h1, h2⟩ := getA hA hx
  have hsz : c.srcA.size = src.length := by rw [hA]; simp
  have hn : ¬ ((a : Int) < 0 ∨ (b : Int) < (a : Int) ∨ (b : Int) > (c.srcA.size : Int)) := by omega
  have e1 : ((b : Int) - 1).toNat = b - 1 := by omega
  have hlen : spanLenI (a : Int) (b : Int) > 0 := by rw [spanLenI_cast]; omega
  have hn2 : ¬ (((a : Int) < 0 ∨ b < a) ∨ c.srcA.size < b) := by omega
  have h1le : (1 : Int) ≤ (b : Int) - (a : Int) := by omega
  simp [hn2, e1, h2, hLF, hCR, hlen, h1le]

/-- the content after the one-space strip rule -/
def stripped (src : Bytes) (a b : Nat) : Nat × Nat :=
  if src[a]? = some SP ∧ src[b - 1]? = some SP ∧ ¬ isOnlySpaces ((src.drop a).take (b - a)) = true then (a + 1, b - 1) else (a, b)

theorem strip_run {c : ICtx} {src : Bytes} (hA : c.srcA = src.toArray) (s : IState) (a b : Nat) (hab : a < b)
    (hb : b ≤ src.length) :
    (stripCodeSpanSpace c #[{ kind := IK.text, start := (a : Int), stop := (b : Int) }]).run s =
      pure (#[{ kind := IK.text, start := ((stripped src a b).1 : Int), stop := ((stripped src a b).2 : Int) }], s) := by
  unfold stripCodeSpanSpace
  have hsl := sliceA hA s a b (Nat.le_of_lt hab) hb
  by_cases hall : isOnlySpaces ((src.drop a).take (b - a)) = true
  · have hst : stripped src a b = (a, b) := by simp [stripped, hall]
    simp [StateT.run_bind, hsl, IK.text, IK.indent, hall, hst]
  · have hall' : isOnlySpaces ((src.drop a).take (b - a)) = false := by simpa using hall
    have ha : a < src.length := by omega
    have hb1 : b - 1 < src.length := by omega
    obtain ⟨h1, h2⟩ := getA hA (List.getElem?_eq_getElem ha)
    obtain ⟨h3, h4⟩ := getA hA (List.getElem?_eq_getElem hb1)
    have hat1 : (srcIs c (a : Int) SP).run s = pure (src[a] == SP, s) := by
      simp [srcIs, srcAt_run c a s h1, h2]
    have hat2 : (srcIs c ((b - 1 : Nat) : Int) SP).run s = pure (src[b - 1] == SP, s) := by
      simp [srcIs, srcAt_run c (b - 1) s h3, h4]
    by_cases hf : src[a] = SP
    · by_cases hl : src[b - 1] = SP
      · have hge : a + 3 ≤ b := by
          rcases Nat.lt_or_ge b (a + 3) with hlt | hge
          · exfalso
            apply hall
            have hcases : b = a + 1 ∨ b = a + 2 := by omega
            rcases hcases with rfl | rfl
            · have : (src.drop a).take (a + 1 - a) = [src[a]] := by
                rw [show a + 1 - a = 1 by omega, List.drop_eq_getElem_cons ha]; simp only [List.take_succ_cons, List.take_zero]
              rw [this, hf]; rfl
            · have ha1 : a + 1 < src.length := by omega
              have : (src.drop a).take (a + 2 - a) = [src[a], src[a + 1]] := by
                rw [show a + 2 - a = 2 by omega, List.drop_eq_getElem_cons ha, List.drop_eq_getElem_cons ha1]; simp only [List.take_succ_cons, List.take_zero]
              have hl' : src[a + 1] = SP := by simpa using hl
              rw [this, hf, hl']; rfl
          · exact hge
        have hst : stripped src a b = (a + 1, b - 1) := by
          simp [stripped, hall', List.getElem?_eq_getElem ha, List.getElem?_eq_getElem hb1, hf, hl]
        have l1 : ({ kind := 1, start := (a : Int) + 1, stop := (b : Int) } : CSN).len ≠ 0 := by
          have : (a : Int) + 1 = ((a + 1 : Nat) : Int) := by simp
          simp only [CSN.len]; rw [this, spanLenI_cast]; omega
        have l2 : ({ kind := 1, start := (a : Int) + 1, stop := ((b - 1 : Nat) : Int) } : CSN).len ≠ 0 := by
          have e1 : (a : Int) + 1 = ((a + 1 : Nat) : Int) := by simp
          simp only [CSN.len]; rw [e1, spanLenI_cast]; omega
        have e2 : (b : Int) - 1 = ((b - 1 : Nat) : Int) := by omega
        simp [StateT.run_bind, hsl, IK.text, IK.indent, hall', hat1, hat2, hf, hl, l1, l2, hst, e2]
      · have hst : stripped src a b = (a, b) := by
          simp [stripped, List.getElem?_eq_getElem hb1, hl]
        have e2 : (b : Int) - 1 = ((b - 1 : Nat) : Int) := by omega
        simp [StateT.run_bind, hsl, IK.text, IK.indent, hall', hat1, hat2, hf, hl, hst, e2]
    · have hst : stripped src a b = (a, b) := by
        simp [stripped, List.getElem?_eq_getElem ha, hf]
      simp [StateT.run_bind, hsl, IK.text, IK.indent, hall', hat1, hf, hst]

def codeNode (src : Bytes) (p q a b : Nat) : INode :=
  { kind := IK.codeSpan, start := (p : Int), stop := (q : Int),
    sub := [mkInline IK.text ((stripped src a b).1 : Int) ((stripped src a b).2 : Int)] }

theorem collectCodeSpan_run {c : ICtx} {src : Bytes} (hA : c.srcA = src.toArray) (s : IState) (p q a b : Nat)
    (hpq : p < q) (hab : a < b) (hb : b ≤ src.length) (x : UInt8) (hx : src[b - 1]? = some x) (hLF : x ≠ LF) (hCR : x ≠ CR)
    (t : Tree) (more : List Tree) (hL : c.unparsedL.drop s.unparsedPos = t :: more) (hup : s.unparsedPos ≤ c.unparsed.size)
    (ht : spanContains t b = true) :
    (collectCodeSpan c { span := ⟨(p : Int), (q : Int)⟩, content := ⟨(a : Int), (b : Int)⟩ }).run s =
      pure ((), pushP (codeNode src p q a b) s) := by
  unfold collectCodeSpan
  have hni : nodeIndexForPosition (t :: more) b 0 = some 0 := by
    unfold nodeIndexForPosition
    have : ¬ (t.label.start > (b : Int)) := by
      simp only [spanContains, Bool.and_eq_true, decide_eq_true_eq] at ht
      omega
    rw [if_neg this, if_pos ht]
  have hlen : spanLenI (p : Int) (q : Int) ≠ 0 := by rw [spanLenI_cast]; omega
  have hun : (unparsedFrom c).run s = pure (t :: more, s) := by
    simp [unparsedFrom, StateT.run_bind, hL, Nat.not_lt.2 hup]
  have hnb : ¬ ((b : Int) < 0) := by omega
  simp [StateT.run_bind, hun, hni, csAddSpan_run hA s a b hab hb x hx hLF hCR, strip_run hA s a b hab hb,
    alloc, addToRoot, nodeLen, getNode, setParent, modifyNode, hlen, pushP, codeNode, CSN.toTree, mkInline, hnb]

end CM.Proofs.InlSer
