import CM.Proofs.EolN4
/-
C14 (a), block phase — corollaries and instances of `blocks_eol_sim_nul` / `blocks_eol_sim_chk` (`EolN4`); the statements at
the level of `Parse` (`parseDoc`), with the loop fuel of the model discharged by C01 (`C01_tiling_blocks`).
-/
namespace CM.Proofs.EolG
open CM CM.Model CM.Gen CM.Proofs CM.Proofs.BT CM.Proofs.EolN

theorem blocks_crlf_sim_chk (x : PExt) (inp : Bytes) (hcr : NoCR inp) (hnul : NoNul inp) (n : Nat)
    (hend : ∃ er, (drain (blocksLPq x 1) n (memParser inp) []).2.1 = .err er) :
    (drain (blocksLP x) n (memParser (toCRLF inp)) []).1 =
      (drain (blocksLP x) n (memParser inp) []).1.map (mapRoot [CR, LF] inp) :=
  (blocks_eol_sim_chk x (Or.inr (Or.inr rfl)) inp hcr hnul n hend).1

theorem blocks_cr_sim_chk (x : PExt) (inp : Bytes) (hcr : NoCR inp) (hnul : NoNul inp) (n : Nat)
    (hend : ∃ er, (drain (blocksLPq x 0) n (memParser inp) []).2.1 = .err er) :
    (drain (blocksLP x) n (memParser (toCR inp)) []).1 =
      (drain (blocksLP x) n (memParser inp) []).1.map (mapRoot [CR] inp) :=
  (blocks_eol_sim_chk x (Or.inr (Or.inl rfl)) inp hcr hnul n hend).1

/-! ### Non-vacuity: an input with link reference definitions -/

/-- Two definitions (one with a two-line title, one whose destination is on the next line), followed in the same paragraph
    by the text of a setext heading that mentions a label, then a block quote with a definition. -/
def refDemo : Bytes :=
  Bytes.ofString "[foo]: /url\n  'a\nb'\n[bar]:\n<x>\ntext [foo]\n===\n\n> [z]: /w\n> rest\n"

example : NoCR refDemo ∧ NoNul refDemo := by decide +kernel

/-- The checked run ends with end of input … -/
theorem refDemo_chk : ∃ er, (drain (blocksLPq eolDemoX 1) 80 (memParser refDemo) []).2.1 = .err er :=
  exists_err_of_outIsErr (by decide +kernel)

/-- … so the theorem applies: the CRLF form has the mapped roots … -/
example : (drain (blocksLP eolDemoX) 80 (memParser (toCRLF refDemo)) []).1 =
    (drain (blocksLP eolDemoX) 80 (memParser refDemo) []).1.map (mapRoot [CR, LF] refDemo) :=
  blocks_crlf_sim_chk eolDemoX refDemo (by decide +kernel) (by decide +kernel) 80 refDemo_chk

/-- … which are two link reference definitions, a setext heading and a block quote. -/
example : ((drain (blocksLP eolDemoX) 80 (memParser refDemo) []).1.map fun r => (r.block.kind, r.startOffset, r.endOffset)) =
    [(BK.linkRefDef, 0, 20), (BK.linkRefDef, 20, 31), (BK.setextHeading, 31, 46), (BK.blockQuote, 47, 64)] := by
  decide +kernel

/-! ### At the level of `Parse` -/

theorem drainEnds_of_err (L : LineParserI) : ∀ (n : Nat) (p : BP) (acc : List Root) (er : PErr),
    (drain L n p acc).2.1 = .err er → drainEnds L n p = true := by
  intro n
  induction n with
  | zero => intro p acc er h; simp [drain] at h
  | succ n ih =>
    intro p acc er h
    unfold drain at h
    unfold drainEnds
    rcases hnb : nextBlock L p with ⟨o, p'⟩
    rw [hnb] at h
    cases o with
    | block r => exact ih p' (r :: acc) er h
    | err e' => rfl
    | panic m => rfl

/-- The loop of `Parse` ends within the model's fuel (C01). -/
theorem parse_ends (x : PExt) (inp : Bytes) : drainEnds (blocksLP x) (inp.length + 8) (memParser inp) = true := by
  obtain ⟨rs, p', h, _⟩ := C01_tiling_blocks x inp (inp.length + 8) (by omega)
  exact drainEnds_of_err _ _ _ [] .eof (by rw [h])

/-- **The block roots of the model's `Parse`, inputs without `[`** — `parseDoc_blocks_eol` with its fuel hypothesis
    discharged by C01. -/
theorem parseDoc_blocks_eol_plain (x : PExt) (ix : IExt) {e : Bytes} (he : StdEol e) (inp : Bytes) (hcr : NoCR inp)
    (hnul : NoNul inp) (hb : NoBracket inp) :
    (parseDoc x ix (toEol e inp)).roots.map (·.root) = (parseDoc x ix inp).roots.map (fun r => mapRoot e inp r.root) ∧
    (parseDoc x ix (toEol e inp)).ending = (parseDoc x ix inp).ending :=
  parseDoc_blocks_eol x ix he inp hcr hnul hb (parse_ends x inp)

/-- The drained roots and ending of the re-written input, in the fuel of `parseDoc`. -/
theorem drain_eol_parse (x : PExt) {e : Bytes} (he : StdEol e) (inp : Bytes) (hcr : NoCR inp)
    (hchk : ∃ er, (drain (blocksLPq x (e.length - 1)) (inp.length + 8) (memParser inp) []).2.1 = .err er) :
    (drain (blocksLP x) ((toEol e inp).length + 8) (memParser (toEol e inp)) []).1 =
      (drain (blocksLP x) (inp.length + 8) (memParser inp) []).1.map (mapRootN e inp) ∧
    (drain (blocksLP x) ((toEol e inp).length + 8) (memParser (toEol e inp)) []).2.1 =
      (drain (blocksLP x) (inp.length + 8) (memParser inp) []).2.1 := by
  have hge : inp.length + 8 ≤ (toEol e inp).length + 8 := by
    have := length_toEol_ge e (stdEol_ne_nil he) inp
    omega
  obtain ⟨er, her⟩ := hchk
  have hq := drain_more_fuel (blocksLPq x (e.length - 1)) (inp.length + 8) (memParser inp) []
    (drainEnds_of_err _ _ _ [] er her) _ hge
  have hmore := drain_more_fuel (blocksLP x) (inp.length + 8) (memParser inp) [] (parse_ends x inp) _ hge
  obtain ⟨h1, h2⟩ := blocks_eol_sim_nul x he inp hcr ((toEol e inp).length + 8) ⟨er, by rw [hq]; exact her⟩
  rw [hmore] at h1 h2
  exact ⟨h1, h2⟩

/-- **The block roots of the model's `Parse`, any CR-free input that passes the check** (NUL bytes allowed). -/
theorem parseDoc_blocks_eol_nul (x : PExt) (ix : IExt) {e : Bytes} (he : StdEol e) (inp : Bytes) (hcr : NoCR inp)
    (hchk : ∃ er, (drain (blocksLPq x (e.length - 1)) (inp.length + 8) (memParser inp) []).2.1 = .err er) :
    (parseDoc x ix (toEol e inp)).roots.map (·.root) = (parseDoc x ix inp).roots.map (fun r => mapRootN e inp r.root) ∧
    (parseDoc x ix (toEol e inp)).ending = (parseDoc x ix inp).ending := by
  obtain ⟨h1, h2⟩ := drain_eol_parse x he inp hcr hchk
  constructor
  · rw [parseDoc_roots, h1, ← parseDoc_roots x ix inp, List.map_map]; rfl
  · rw [parseDoc_ending, h2, parseDoc_ending]

/-- **Re-writing LF to CR, at the level of `Parse`: no hypothesis but "no CR in the input"**. -/
theorem parseDoc_blocks_cr_all (x : PExt) (ix : IExt) (inp : Bytes) (hcr : NoCR inp) :
    (parseDoc x ix (toCR inp)).roots.map (·.root) = (parseDoc x ix inp).roots.map (fun r => mapRootN [CR] inp r.root) ∧
    (parseDoc x ix (toCR inp)).ending = (parseDoc x ix inp).ending := by
  apply parseDoc_blocks_eol_nul x ix (Or.inr (Or.inl rfl)) inp hcr
  obtain ⟨rs, p', h, _⟩ := C01_tiling_blocks x inp (inp.length + 8) (by omega)
  refine ⟨.eof, ?_⟩
  show (drain (blocksLPq x 0) (inp.length + 8) (memParser inp) []).2.1 = .err .eof
  rw [← drain_q_all (fun src b => chkB_zero src b) _ _ [], h]

/-- The same for an input without NUL bytes, with `mapRoot`. -/
theorem parseDoc_blocks_eol_chk (x : PExt) (ix : IExt) {e : Bytes} (he : StdEol e) (inp : Bytes) (hcr : NoCR inp)
    (hnul : NoNul inp) (hchk : ∃ er, (drain (blocksLPq x (e.length - 1)) (inp.length + 8) (memParser inp) []).2.1 = .err er) :
    (parseDoc x ix (toEol e inp)).roots.map (·.root) = (parseDoc x ix inp).roots.map (fun r => mapRoot e inp r.root) ∧
    (parseDoc x ix (toEol e inp)).ending = (parseDoc x ix inp).ending := by
  obtain ⟨h1, h2⟩ := parseDoc_blocks_eol_nul x ix he inp hcr hchk
  refine ⟨?_, h2⟩
  rw [h1]
  apply List.map_congr_left
  intro r _
  exact mapRootN_noNul hnul r.root

end CM.Proofs.EolG
