import CM.Proofs.BlocksWellText
/-
One non-empty line through the line parser: `openNewBlocks`, `addLineText`, `processLine`.
-/
namespace CM.Proofs
open CM CM.Model CM.Gen

/-! ### tipDepth -/

theorem tipDepth_spec (b : PB) (d : Nat) : ∃ k, tipDepth b d = d + k ∧ ∃ y, spineGet b k = some y := by
  fun_induction tipDepth b d with
  | case1 l bs is d c hc ho ih =>
    obtain ⟨k, h1, y, h2⟩ := ih
    refine ⟨k + 1, by omega, y, ?_⟩
    rw [spineGet_succ, hc]; exact h2
  | case2 l bs is d c hc ho => exact ⟨0, rfl, _, spineGet_zero _⟩
  | case3 l bs is d hc => exact ⟨0, rfl, _, spineGet_zero _⟩

theorem tipDepth_dv (root : PB) : ∃ y, spineGet root (tipDepth root 0) = some y := by
  obtain ⟨k, h1, h2⟩ := tipDepth_spec root 0
  rw [h1, Nat.zero_add]; exact h2

theorem replLast_closed_id (x : PExt) (src : Bytes) (e : Int) (root : PB) (h : LastClosed root) :
    replLast (closeBlock x src e) root = root := by
  cases root with
  | mk l bs is =>
    simp only [replLast]
    cases hb : bs.getLast? with
    | none => rfl
    | some c =>
      simp only
      rw [closeBlock_closed x src e c (h c hb), ← getLast?_split hb]

/-! ### addLineText -/

theorem acceptsLines_document : acceptsLines BK.document = false := by decide

theorem containerKind_depth0 {p : LP} (h : p.depth = 0) : p.containerKind = p.root.label.kind := by
  unfold LP.containerKind LP.container
  rw [h, spineGet_zero]; rfl

theorem altCont_isSome (x : PExt) (q : LP) (h : acceptsLines q.containerKind = false) :
    ∃ r, altCont x false q = some r := by
  unfold altCont
  simp only [h]
  exact ⟨_, rfl⟩

theorem addLineText_ok {N : Nat} (x : PExt) (p : LP) (h : LA true N p) :
    RootOK N N N (addLineText x p).root ∧ (NE p.root → NE (addLineText x p).root) ∧
    (p.depth = 0 → p.isRestBlank = false → ¬ (p.state = stateDescending ∨ p.state = stateDescendTerminated) →
      NE (addLineText x p).root) ∧ StateStep p.state (addLineText x p).state := by
  rw [addLineText_eq]
  obtain ⟨q1, q2, q3, q4, q5⟩ := altPrep_ok h
  generalize altPrep p = q at q1 q2 q3 q4 q5
  have hfresh : p.depth = 0 → acceptsLines q.containerKind = false := by
    intro hd
    rw [containerKind_depth0 (by rw [q5]; exact hd), q1.root.kind]; exact acceptsLines_document
  cases hc : altCont x p.isRestBlank q with
  | none =>
    simp only
    refine ⟨q1.toLEnd.final (by have := q1.cur; omega), q2, ?_, by rw [q4]; exact StateStep.refl _⟩
    intro hd hb _
    rw [hb] at hc
    obtain ⟨r, hr⟩ := altCont_isSome x q (hfresh hd)
    rw [hr] at hc; cases hc
  | some r =>
    simp only
    obtain ⟨Q, c1, c2, c3, c4, c5⟩ := altCont_ok x p.isRestBlank q1 hc
    obtain ⟨f1, f2⟩ := altFinish_ok c1 c2
    refine ⟨f1, fun hn => f2 (c3 (q2 hn)), ?_, by rw [altFinish_state, ← q4]; exact c5⟩
    intro hd _ hs
    exact f2 (c4 (hfresh hd) (by rw [q4]; exact hs))

/-! ### openNewBlocks -/

/-- The result of `openNewBlocks` on a non-empty line. -/
structure ONB (N : Nat) (p : LP) (ht : Bool) (p' : LP) : Prop where
  ne : NE p.root → NE p'.root
  res : LA true N p' ∨ (RootOK N N N p'.root ∧ ht = false)
  st : p'.state = p.state ∨ InOpen p'.state ∨ p'.state = stateLineConsumed

theorem lb_final {am : Bool} {N : Nat} {p : LP} (h : LB am N p) : RootOK N N N p.root := h.root

theorem openNewBlocks_nonempty (x : PExt) (p : LP) (am : Bool) (hl : p.line ≠ []) :
    openNewBlocks x p am =
      (if am then openingLoop x (p.line.length + 8) p else
        let q := (openingLoop x (p.line.length + 8) p).2
        let tip := tipDepth q.root 0
        if !q.isRestBlank && ((spineGet q.root tip).getD q.root).kind == BK.paragraph
        then ((openingLoop x (p.line.length + 8) p).1, { q with depth := tip })
        else ((openingLoop x (p.line.length + 8) p).1, q.closeLastChild x q.lineStart)) := by
  unfold openNewBlocks
  have : p.line.isEmpty = false := by
    cases hp : p.line with
    | nil => exact absurd hp hl
    | cons a t => rfl
  rw [this]
  simp only [Bool.false_eq_true, if_false]
  all_goals (cases am <;> rfl)

theorem openNewBlocks_ok {N : Nat} (x : PExt) (p : LP) (am : Bool) (h : LA am N p) (hl : p.line ≠ []) :
    ONB N p (openNewBlocks x p am).1 (openNewBlocks x p am).2 := by
  rw [openNewBlocks_nonempty x p am hl]
  have ho := openingLoop_ok x (p.line.length + 8) p h
  generalize openingLoop x (p.line.length + 8) p = r at ho
  obtain ⟨ht, q⟩ := r
  simp only at ho
  cases am with
  | true =>
    simp only [if_true]
    refine ⟨ho.ne, ?_, ho.st⟩
    rcases ho.res with h' | ⟨h', e⟩
    · exact Or.inl h'
    · exact Or.inr ⟨h'.root, e⟩
  | false =>
    simp only [Bool.false_eq_true, if_false]
    rcases ho.res with hla | ⟨hlb, e⟩
    · split
      · refine ⟨ho.ne, Or.inl ?_, ho.st⟩
        exact la_setDepth hla.weaken _ (tipDepth_dv q.root)
      · obtain ⟨c1, c2⟩ := closeLastChild_LA x hla
        exact ⟨fun hn => c2 (ho.ne hn), Or.inl c1.weaken, ho.st⟩
    · have hlc : LastClosed q.root := by
        rcases hlb.last with h' | h'
        · exact h'
        · cases h'
      split
      · exact ⟨ho.ne, Or.inr ⟨hlb.root, e⟩, ho.st⟩
      · refine ⟨?_, Or.inr ⟨?_, e⟩, ho.st⟩ <;>
          simp only [LP.closeLastChild, spineReplaceLast_eq, hlb.depth, spineModify_zero, replLast_closed_id x _ _ q.root hlc]
        · exact ho.ne
        · exact hlb.root

/-! ### processLine -/

theorem descend_fresh (x : PExt) (p : LP) (h : p.root.blocks = []) :
    descendOpenBlocks x p = (true, { p with depth := 0 }) := by
  unfold descendOpenBlocks descendLoop
  have : spineGet p.root (0 + 1) = none := by
    rw [spineGet_one, h]; rfl
  simp only [this]

/-- One non-empty line. -/
theorem processLine_ok {N : Nat} (x : PExt) (p : LP) (h : LA true N p) (hl : p.line ≠ [])
    (hT : p.state = stateDescendTerminated → TermOK p.root) :
    RootOK N N N (processLine x p).root ∧ (NE p.root → NE (processLine x p).root) ∧
    ((processLine x p).state = stateDescendTerminated → TermOK (processLine x p).root) := by
  unfold processLine
  have hd := descendOpenBlocks_ok x p h hT
  generalize descendOpenBlocks x p = r at hd
  obtain ⟨b, p1⟩ := r
  simp only at hd ⊢
  split
  · rename_i hterm
    have hterm' : p1.state = stateDescendTerminated := by simpa using hterm
    rcases hd.res with ⟨_, h', ht'⟩ | ⟨h', _⟩
    · exact ⟨h', hd.ne, fun _ => ht'⟩
    · exact absurd hterm' h'
  · rename_i hterm
    have hterm' : p1.state ≠ stateDescendTerminated := by simpa using hterm
    rcases hd.res with ⟨h', _⟩ | ⟨_, hla, hu, _⟩
    · exact absurd h' hterm'
    · -- the ghost: when a block did not match, the container has an open block child
      have hlab : LA b N p1 := by
        refine ⟨hla.cur, hla.ile, hla.dv, hla.root, ?_⟩
        intro hb hd1 c hc hneg hkp
        obtain ⟨c2, hc2⟩ := hu hb
        rw [hd1] at hc2
        exact not_para_of_kids hla.root hc (kids_of_depth2 hc hc2) ⟨hneg, hkp⟩
      have ho := openNewBlocks_ok x p1 b hlab (by rw [hd.line]; exact hl)
      generalize openNewBlocks x p1 b = r2 at ho
      obtain ⟨ht, p2⟩ := r2
      simp only at ho ⊢
      have hst2 : p2.state ≠ stateDescendTerminated := by
        rcases ho.st with h' | (h' | h') | h'
        · rw [h']; exact hterm'
        · rw [h']; decide
        · rw [h']; decide
        · rw [h']; decide
      split
      · rename_i hht
        rcases ho.res with h' | ⟨_, e⟩
        · obtain ⟨a1, a2, _, a4⟩ := addLineText_ok x p2 h'
          refine ⟨a1, fun hn => a2 (ho.ne (hd.ne hn)), fun hte => ?_⟩
          rcases a4 with h'' | ⟨_, h''⟩
          · rw [h''] at hte; exact absurd hte hst2
          · rw [h''] at hte; exact absurd hte (by decide)
        · rw [e] at hht; cases hht
      · rcases ho.res with h' | ⟨h', _⟩
        · exact ⟨h'.toLEnd.final (by have := h'.cur; omega), fun hn => ho.ne (hd.ne hn), fun hte => absurd hte hst2⟩
        · exact ⟨h', fun hn => ho.ne (hd.ne hn), fun hte => absurd hte hst2⟩

/-- The first (non-blank) line of a parser without pending blocks opens a block. -/
theorem processLine_fresh {N : Nat} (x : PExt) (p : LP) (h : LA true N p) (hl : p.line ≠ [])
    (hb : p.root.blocks = []) (hi : p.i = 0) (hbl : isBlankLine p.line = false) (hs : p.state = stateOpening) :
    NE (processLine x p).root := by
  unfold processLine
  rw [descend_fresh x p hb]
  generalize hp1 : ({ p with depth := 0 } : LP) = p1
  have f1 : p1.line = p.line ∧ p1.root = p.root ∧ p1.i = p.i ∧ p1.state = p.state ∧ p1.depth = 0 := by
    rw [← hp1]; exact ⟨rfl, rfl, rfl, rfl, rfl⟩
  have hst : (p1.state == stateDescendTerminated) = false := by rw [f1.2.2.2.1, hs]; decide
  simp only [hst, Bool.false_eq_true, if_false]
  have hla1 : LA true N p1 := by rw [← hp1]; exact la_setDepth h 0 ⟨_, spineGet_zero _⟩
  rw [openNewBlocks_nonempty x p1 true (by rw [f1.1]; exact hl)]
  simp only [if_true]
  have ho := openingLoop_ok x (p1.line.length + 8) p1 hla1
  generalize openingLoop x (p1.line.length + 8) p1 = r at ho
  obtain ⟨ht, p2⟩ := r
  simp only at ho ⊢
  rcases ho.fresh with ⟨hsame, hht, hst2⟩ | hne
  · subst hht
    simp only [if_true]
    have hla2 : LA true N p2 := by
      rcases ho.res with h' | ⟨_, e⟩
      · exact h'
      · cases e
    have f2 : p2.depth = 0 ∧ p2.i = 0 ∧ p2.line = p.line ∧ (p2.state = stateOpening) := by
      unfold SameButState at hsame
      refine ⟨by rw [hsame]; exact f1.2.2.2.2, by rw [hsame]; exact f1.2.2.1.trans hi, by rw [hsame]; exact f1.1, ?_⟩
      rcases hst2 with h' | h'
      · rw [h', f1.2.2.2.1]; exact hs
      · exact h'
    refine (addLineText_ok x p2 hla2).2.2.1 f2.1 ?_ (by rw [f2.2.2.2]; decide)
    unfold LP.isRestBlank
    rw [f2.2.1, f2.2.2.1, List.drop_zero]; exact hbl
  · split
    · rename_i hht
      rcases ho.res with h' | ⟨_, e⟩
      · exact (addLineText_ok x p2 h').2.1 hne
      · rw [e] at hht; cases hht
    · exact hne

end CM.Proofs
