import CM.Proofs.InlShapeCodeInv
import CM.Proofs.InlShapeSiteRun
/-
C13, inline half — code spans: what `parseCodeSpan` returns (`parseCodeSpan_good`), by the loop invariants of
`InlShapeCodeInv.lean`.
-/
namespace CM.Proofs.InlH
open CM CM.Model CM.Model.Inl
open Std.Do

set_option mvcgen.warning false

theorem u8_of_not_bne' {a b : UInt8} (h : ¬ (a != b) = true) : a = b := by simpa using h

/-- What a valid result of `parseCodeSpan c start` says: it starts at `start` with exactly `n ≥ 1` backticks and ends
    with exactly `n` backticks (from `pE`, after the opening run). -/
def CSRes (src : Bytes) (start : Int) (cs : CodeSpan) : Prop :=
  cs.span.isValid = true → cs.span.start = start ∧
    ∃ n pE : Nat, 1 ≤ n ∧ TickRun src start.toNat n ∧ src[start.toNat + n]? ≠ some 0x60 ∧
      cs.span.stop = ((pE + n : Nat) : Int) ∧ start.toNat + n < pE ∧ TickRun src pE n ∧ NoTickBefore src pE

theorem CSRes.of_good {src : Bytes} {start : Int} {n : Nat} {cs : CodeSpan} (h : Good src start.toNat n start cs)
    (hn : 1 ≤ n) (hr : TickRun src start.toNat n) (hnt : src[start.toNat + n]? ≠ some 0x60) : CSRes src start cs := by
  intro hv
  obtain ⟨h1, pE, h2, h3, h4, h5⟩ := h hv
  exact ⟨h1, n, pE, hn, hr, hnt, h2, h3, h4, h5⟩

theorem parseCodeSpan_good (c : ICtx) (start : Int) (N : Nat) (h0 : 0 ≤ start) (hN : start.toNat ≤ N)
    (hstart : c.src[start.toNat]? = some 0x60) (H : CSHyp c.unparsedL c.src N) :
    ⦃fun _ => ⌜True⌝⦄ parseCodeSpan c start ⦃⇓? r _ => ⌜CSRes c.src start r⌝⦄ := by
  mvcgen [parseCodeSpan, -parseCodeSpan_spec, -parseCodeSpan_specT]
  case inv1 =>
    exact PostCond.mayThrow (fun p _ => ⌜I1 c.unparsedL c.src start.toNat N p.2.1 p.2.2.1 p.2.2.2.2.1 p.2.2.2.2.2 ∧
      (p.1.suffix ≠ [] → p.2.1 = none ∧ p.2.2.2.2.2 = false)⌝)
  case inv3 =>
    exact PostCond.mayThrow (fun _ _ => ⌜True⌝)
  case inv4 =>
    exact PostCond.mayThrow (fun p _ => ⌜I2 c.unparsedL c.src start.toNat N
      (‹Option CodeSpan × Rd × Int × Nat × Bool›).2.2.2.1 start p.2.1 p.2.2 ∧ (p.1.suffix ≠ [] → p.2.1 = none)⌝)
  case inv5 =>
    exact PostCond.mayThrow (fun p _ => ⌜I3 c.unparsedL c.src
      (start.toNat + (‹Option CodeSpan × Rd × Int × Nat × Bool›).2.2.2.1) N
      (Rd.current c.src (‹Option CodeSpan × Rd›).2).2.pos p.2.1 p.2.2.1 p.2.2.2 ∧
      (p.1.suffix ≠ [] → p.2.2.2 = false)⌝)
  inl_norm
  all_goals (try (exact fun h => h))
  all_goals (try (exact ExceptConds.entails.refl _))
  -- the opening run
  · obtain ⟨hI, hc⟩ := ‹I1 _ _ _ _ _ _ _ _ ∧ _›
    obtain ⟨hn, ho⟩ := hc (by simp)
    rw [hn, ho] at hI
    exact ⟨I1.opened H hstart hI (by simpa using ‹(_ != (96 : UInt8)) = true›), fun h' => absurd rfl h'⟩
  · exact ⟨I1.ret_invalid _ _ _, fun h' => absurd rfl h'⟩
  · obtain ⟨hI, hc⟩ := ‹I1 _ _ _ _ _ _ _ _ ∧ _›
    obtain ⟨hn, ho⟩ := hc (by simp)
    rw [hn, ho] at hI
    refine ⟨?_, fun _ => ⟨trivial, ho⟩⟩
    simp +zetaDelta only [ho]
    exact I1.tick H hI (u8_of_not_bne' ‹¬(_ != (96 : UInt8)) = true›) (by simpa using ‹¬(!_) = true›)
  · obtain ⟨-, hsp⟩ := ‹(_ : IState) = _ ∧ (_ : List Tree) = _›
    subst hsp
    exact ⟨I1.init H _ _ hN, fun _ => ⟨trivial, trivial⟩⟩
  · obtain ⟨hI, -⟩ := ‹I1 _ _ _ _ _ _ _ _ ∧ _›
    intro hv
    have := hI.1 _ ‹_ = some _›
    rw [this] at hv; cases hv
  -- the body: a byte that is not a backtick
  · exact ⟨I2.ret (Good.invalid _ _ _), fun h' => absurd rfl h'⟩
  · obtain ⟨hI, hc⟩ := ‹I2 _ _ _ _ _ _ _ _ ∧ _›
    have hn := hc (by simp)
    rw [hn] at hI
    exact ⟨I2.step H hI (by simpa using ‹(_ != (96 : UInt8)) = true›) (by simpa using ‹¬(!_) = true›), fun _ => trivial⟩
  -- the closing run
  · obtain ⟨hI, hc⟩ := ‹I3 _ _ _ _ _ _ _ _ ∧ _›
    have hd := hc (by simp)
    rw [hd] at hI
    exact ⟨I3.stop_fail H hI (by simpa using ‹(!_) = true›), fun h' => absurd rfl h'⟩
  · obtain ⟨hI, hc⟩ := ‹I3 _ _ _ _ _ _ _ _ ∧ _›
    have hd := hc (by simp)
    rw [hd] at hI
    exact ⟨I3.stop_byte H hI (by simpa using ‹¬(!_) = true›) (by simpa using ‹(_ != (96 : UInt8)) = true›),
      fun h' => absurd rfl h'⟩
  · obtain ⟨hI, hc⟩ := ‹I3 _ _ _ _ _ _ _ _ ∧ _›
    have hd := hc (by simp)
    rw [hd] at hI
    refine ⟨?_, fun _ => hd⟩
    simp +zetaDelta only [hd]
    exact I3.tick H hI (by simpa using ‹¬(!_) = true›) (u8_of_not_bne' ‹¬(_ != (96 : UInt8)) = true›)
  -- a closing run starts
  · obtain ⟨hI2, hc⟩ := ‹I2 _ _ _ _ _ _ _ _ ∧ _›
    have hn := hc (by simp)
    rw [hn] at hI2
    obtain ⟨hI1, -⟩ := ‹I1 _ _ _ _ _ _ _ _ ∧ _›
    have hr1 : (‹Option CodeSpan × Rd × Int × Nat × Bool›).1 = none := ‹_ = none›
    have ho : (‹Option CodeSpan × Rd × Int × Nat × Bool›).2.2.2.2 = true := by simpa using ‹¬(!_) = true›
    rw [hr1, ho] at hI1
    obtain ⟨-, hnt, -, -⟩ := I2.init (start := start) H hI1
    exact ⟨(I2.found H hI2 hnt (u8_of_not_bne' ‹¬(_ != (96 : UInt8)) = true›)).1, fun _ => trivial⟩
  -- the closing run is over: the result, the end of the reader, or on with the body
  · obtain ⟨hI2, hc⟩ := ‹I2 _ _ _ _ _ _ _ _ ∧ _›
    have hn := hc (by simp)
    rw [hn] at hI2
    obtain ⟨hI1, -⟩ := ‹I1 _ _ _ _ _ _ _ _ ∧ _›
    have hr1 : (‹Option CodeSpan × Rd × Int × Nat × Bool›).1 = none := ‹_ = none›
    have ho : (‹Option CodeSpan × Rd × Int × Nat × Bool›).2.2.2.2 = true := by simpa using ‹¬(!_) = true›
    rw [hr1, ho] at hI1
    obtain ⟨-, hnt, -, -⟩ := I2.init (start := start) H hI1
    obtain ⟨-, hpre, hlt⟩ := I2.found H hI2 hnt (u8_of_not_bne' ‹¬(_ != (96 : UInt8)) = true›)
    obtain ⟨hI3, -⟩ := ‹I3 _ _ _ _ _ _ _ _ ∧ _›
    have hd : (‹Rd × Nat × Bool›).2.2 = true := by simpa using ‹¬(!_) = true›
    rw [hd] at hI3
    have hrn : (‹Rd × Nat × Bool›).2.1 = (‹Option CodeSpan × Rd × Int × Nat × Bool›).2.2.2.1 := by
      have := ‹((_ : Nat) == _) = true›
      simpa +zetaDelta using this
    exact ⟨I2.ret (I3.result hI3 h0 hrn hpre hlt _ _), fun h' => absurd rfl h'⟩
  · exact ⟨I2.ret (Good.invalid _ _ _), fun h' => absurd rfl h'⟩
  · obtain ⟨hI3, -⟩ := ‹I3 _ _ _ _ _ _ _ _ ∧ _›
    have hd : (‹Rd × Nat × Bool›).2.2 = true := by simpa using ‹¬(!_) = true›
    rw [hd] at hI3
    exact ⟨I3.continue hI3 (by simpa using ‹¬(!(Rd.next _ _).fst) = true›), fun _ => trivial⟩
  -- the body starts; the result
  · obtain ⟨hI1, -⟩ := ‹I1 _ _ _ _ _ _ _ _ ∧ _›
    have hr1 : (‹Option CodeSpan × Rd × Int × Nat × Bool›).1 = none := ‹_ = none›
    have ho : (‹Option CodeSpan × Rd × Int × Nat × Bool›).2.2.2.2 = true := by simpa using ‹¬(!_) = true›
    rw [hr1, ho] at hI1
    exact ⟨(I2.init (start := start) H hI1).1, fun _ => trivial⟩
  · obtain ⟨hI1, -⟩ := ‹I1 _ _ _ _ _ _ _ _ ∧ _›
    have hr1 : (‹Option CodeSpan × Rd × Int × Nat × Bool›).1 = none := ‹_ = none›
    have ho : (‹Option CodeSpan × Rd × Int × Nat × Bool›).2.2.2.2 = true := by simpa using ‹¬(!_) = true›
    rw [hr1, ho] at hI1
    obtain ⟨-, hnt, hn1, hrun⟩ := I2.init (start := start) H hI1
    obtain ⟨hI2, -⟩ := ‹I2 _ _ _ _ _ _ _ _ ∧ _›
    exact CSRes.of_good (hI2.1 _ ‹_ = some _›) hn1 hrun hnt
  · intro h; exact h.elim

end CM.Proofs.InlH
