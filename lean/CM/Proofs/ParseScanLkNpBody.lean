import CM.Proofs.InlNpBody
import CM.Proofs.ParseScanLkNpRunM

/-
C04, inline half, with `LinkScan2` / `TokScan2` — `parseInlines` does not panic.
(Generated from `InlNpBody.lean`: the same proofs with `LinkScan2` in the place of `LinkScan`.)
-/

namespace CM.Proofs.InlH2
open CM CM.Model CM.Model.Inl CM.Gen CM.Spec CM.Proofs CM.Proofs.InlH
open Std.Do

set_option mvcgen.warning false

theorem parseBody_np (L : Lims) (c : ICtx) (hU : UnpOK c L) (hT : TokScan2 c L.hi) (hS : LinkScan2 c L.hi) (hN : TokNP c)
    (hA : L.hi ≤ c.srcA.size) :
    ⦃fun s => ⌜BodyInv L c s⌝⦄ parseBody c ⦃⇓! _ s => ⌜∃ F, SPT L.lo L.hi F s⌝⦄ := by
  mvcgen [parseBody, setIgnoreNextIndent, setUnparsedPos, parseRun_np, processEmphasis0_np, -parseBody_spec, 
    -parseBody_specS, -parseRun_spec, -parseRun_specS, -processEmphasis_spec, -processEmphasis_specS, 
    -processEmphasis_specGS, -processEmphasis_specP, -CM.Proofs.InlH2.parseRun_specP, -processEmphasis_np, 
    -CM.Proofs.InlH.refPart_specP, -CM.Proofs.InlH.parseEndBracket_specP, -CM.Proofs.InlH.tokC_specP, 
    -CM.Proofs.InlH.tokA_specP, -CM.Proofs.InlH.tokCode_specP, -CM.Proofs.InlH.tokLt_specP, 
    -CM.Proofs.InlH.runBody_specP, -CM.Proofs.InlH.refPart_np, -CM.Proofs.InlH.parseEndBracket_np, 
    -CM.Proofs.InlH.tokC_np, -CM.Proofs.InlH.tokCode_np, -CM.Proofs.InlH.tokLt_np, -CM.Proofs.InlH.tokA_np, 
    -CM.Proofs.InlH.runBody_np, -CM.Proofs.InlH.parseRun_np]
  case inv1 => exact PostCond.np (fun _ s => ⌜BodyInv L c s⌝)
  np_norm
  all_goals (try (intros; assumption))
  all_goals (try (exact fun h => h))
  all_goals (try (exact ExceptConds.entails.refl _))
  -- the entry is there
  all_goals (try (
    have hu := ‹¬(!decide (_ < _)) = true›
    simp only [Bool.not_eq_true', Bool.not_eq_false, decide_eq_true_eq] at hu
    have hb := hU.bounds _ hu
    obtain ⟨F, hsp, hF⟩ := ‹BodyInv L c _›
    have hF' := hF hu))
  -- nothing imported: on to the next entry
  all_goals (try (
    exact BodyInv.next hU F hsp ⟨rfl, rfl, rfl⟩ rfl (fun _ => by omega)))
  -- the preconditions of `importNode` and `parseRun`
  all_goals (try (
    first
    | exact ⟨trivial, hsp.mono hF' (by omega), hb.2.1, hb.2.2, hU.kids _ hu⟩
    | exact ⟨trivial, (hsp.mono hF' (by omega)).congr rfl rfl rfl, hb.2.1, hb.2.2, hU.kids _ hu⟩
    | exact ⟨trivial, hsp.mono hF' (by omega), hu⟩))
  -- after `importNode`
  all_goals (try (
    obtain ⟨hq, hq2, -⟩ := ‹SPT _ _ _ _ ∧ _ = _ ∧ _›
    exact BodyInv.next hU _ hq ⟨rfl, rfl, rfl⟩ rfl (fun _ => by rw [hq2]; exact Int.le_refl _)))
  -- after `parseRun`
  all_goals (try (
    obtain ⟨F', hq, hq2⟩ := ‹∃ F, SPT _ _ F _ ∧ PosOK _ _ F›
    exact BodyInv.next hU F' hq ⟨rfl, rfl, rfl⟩ rfl hq2))
  -- `processEmphasis 0`
  all_goals (try (
    obtain ⟨F, hsp, -⟩ := ‹BodyInv L c _›
    exact ⟨F, hsp⟩))

/-- **The inline phase does not panic** (C04, inline half): on the inline children `unparsed` of a container with span
    `[cstart, cstop]` inside the source that are in order inside it, `parseInlines` returns a result or runs out of
    fuel (`IErr.fuel`), it never hits one of the panic sites of the model (index or slice out of range, `wrap` not
    finding its start node, …). `TokScan2` / `LinkScan2`: the facts about the byte scanners assumed for the span
    discipline; `TokNP`: `collectCodeSpan` does not panic after a successful scan. -/
theorem parseInlines_noPanic (x : IExt) (src : Bytes) (srcA : Array UInt8) (matchRef : Bytes → Bool)
    (cstart cstop : Int) (unparsed : List Tree) (h0 : 0 ≤ cstart) (hA : cstop ≤ srcA.size)
    (hU : WFL cstart cstop unparsed)
    (hT : TokScan2 (inlCtx x src srcA matchRef unparsed) cstop) (hS : LinkScan2 (inlCtx x src srcA matchRef unparsed) cstop)
    (hN : TokNP (inlCtx x src srcA matchRef unparsed)) (msg : String) :
    parseInlines x src srcA matchRef cstart cstop unparsed ≠ .error (.panic msg) := by
  let L : Lims := ⟨cstart, cstop, h0⟩
  have hUL := UnpOK_of_WFL x src srcA matchRef unparsed L hU
  have hB0 := init_BodyInv L _ hUL hU.le
  have hnp := (triple_run_np (parseBody_np L (inlCtx x src srcA matchRef unparsed) hUL hT hS hN hA) hB0).1 msg
  intro h
  unfold parseInlines at h
  simp only [] at h
  split at h
  · rename_i e hrun
    cases h
    exact hnp hrun
  · cases h

end CM.Proofs.InlH2
