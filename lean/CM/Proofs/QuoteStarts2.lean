import CM.Proofs.QuoteStarts
import CM.Proofs.BlocksWellLine
/-
C09 (block-quote half), step (2) for the block starts, continued: the tip of the tree (`findTip`), list items, indented
code blocks, and the `openingLoop` over all block starts.
-/
namespace CM.Proofs.Quote
open CM CM.Model CM.Gen CM.Proofs.BT

variable {E : Env} {k : Nat} {p q : LP} {x : PExt}

/-! ### the tip -/

theorem tipDepth_shift (b : PB) (d : Nat) : tipDepth b (d + 1) = tipDepth b d + 1 := by
  fun_induction tipDepth b d with
  | case1 l bs is d c hc ho ih =>
    rw [tipDepth_mk, hc]; simp only [ho, if_true]; exact ih
  | case2 l bs is d c hc ho =>
    rw [tipDepth_mk, hc]; simp only [ho]; rfl
  | case3 l bs is d hc =>
    rw [tipDepth_mk, hc]

theorem TopR.tipDepth_eq {P Qb : PB} (h : TopR E P Qb) (d : Nat) : tipDepth Qb d = tipDepth P d := by
  obtain ⟨lp, bs, isP⟩ := P
  obtain ⟨lq, bq, isq⟩ := Qb
  obtain ⟨pre, bs', ebq, hpre, hr⟩ := h.kids
  simp only [PB.blocks] at ebq hr
  subst ebq
  rw [tipDepth_mk, tipDepth_mk]
  obtain ⟨hl, _⟩ := hr.getLast
  cases hc : bs.getLast? with
  | none =>
    have hnil : bs = [] := List.getLast?_eq_none_iff.mp hc
    have hnil' : bs' = [] := hr.nil_iff.mp hnil
    subst hnil'
    rw [List.append_nil]
    cases hp2 : pre.getLast? with
    | none => rfl
    | some c' =>
      have hcl : 0 ≤ c'.label.stop := hpre.1 c' (List.mem_of_getLast? hp2)
      have : c'.isOpen = false := by simp only [PB.isOpen, decide_eq_false_iff_not]; omega
      simp only [this]; rfl
  | some a =>
    rw [hc] at hl
    obtain ⟨a', ea, r⟩ := hl.some_left
    have hne : bs ≠ [] := by intro e0; rw [e0] at hc; cases hc
    have hne' : bs' ≠ [] := fun e0 => hne (hr.nil_iff.mpr e0)
    rw [getLast?_append_ne' _ _ hne', ea]
    simp only []
    rw [r.isOpen, BR.tipDepth_eq (sizeOf a) a a' (d + 1) (Nat.le_refl _) r]

theorem RootR.tipDepth_eq {P Q : PB} (h : RootR E P Q) : tipDepth Q 0 = tipDepth P 0 + 1 := by
  obtain ⟨lq, isQ, Qb, rfl, _, _, ht⟩ := h
  rw [tipDepth_mk]
  have : Qb.isOpen = true := by
    simp only [PB.isOpen, decide_eq_true_eq]; exact ht.qlab.stop
  simp only [List.getLast?_singleton, this, if_true]
  rw [ht.tipDepth_eq, tipDepth_shift]

/-- Moving both containers to the tips. -/
theorem Sim.toTip (h : Sim E k p q) :
    Sim E k { p with depth := tipDepth p.root 0 } { q with depth := tipDepth q.root 0 } := by
  obtain ⟨y, hy⟩ := tipDepth_dv p.root
  have := h.setRoot p.root q.root (tipDepth p.root 0) h.root (by rw [hy]; rfl)
  rw [h.root.tipDepth_eq]
  exact this

/-- Whether the container is of a kind other than document / block quote, on both sides. -/
theorem Sim.ckind_beq (h : Sim E k p q) (kd : Nat) (h1 : kd ≠ BK.document) (h2 : kd ≠ BK.blockQuote) :
    (q.containerKind == kd) = (p.containerKind == kd) := by
  have := h.containerKind_eq_iff kd h1 h2
  by_cases hp : p.containerKind = kd
  · rw [hp, this.mpr hp]
  · have hq : ¬ q.containerKind = kd := fun e => hp (this.mp e)
    rw [beq_eq_false_iff_ne.mpr hq, beq_eq_false_iff_ne.mpr hp]

theorem Sim.ckind_bne (h : Sim E k p q) (kd : Nat) (h1 : kd ≠ BK.document) (h2 : kd ≠ BK.blockQuote) :
    (q.containerKind != kd) = (p.containerKind != kd) := by
  simp only [bne, h.ckind_beq kd h1 h2]

theorem Sim.tipKind (h : Sim E k p q) : (q.tipKind == BK.paragraph) = (p.tipKind == BK.paragraph) :=
  h.toTip.ckind_beq BK.paragraph (by decide) (by decide)

/-! ### indented code -/

theorem startIndentedCode_sim (HC : CloseParaSim x E) (h : Sim E k p q) :
    Sim E k (startIndentedCode x p) (startIndentedCode x q) := by
  unfold startIndentedCode
  rw [h.cur.indent, h.cur.isRestBlank, h.tipKind]
  split
  · exact h
  · have h1 := h.consumeIndentN codeBlockIndentLimit
    exact h1.openBlock HC BK.indentedCode id (fun _ _ r => r) (fun _ => rfl) (Or.inl (by decide)) (by decide)

/-! ### list items -/

/-- The delimiter of the enclosing list (item). -/
def liDelim (p : LP) : UInt8 :=
  if p.containerKind != BK.list && p.containerKind != BK.listItem then 0 else p.container.label.char

/-- Open a new list unless the container is a list with the same delimiter. -/
def liList (x : PExt) (d : UInt8) (p : LP) : LP :=
  if p.containerKind != BK.list || liDelim p != d then p.openBlock x BK.list (fun l => { l with char := d }) else p

/-- The content indentation of the new item. -/
def liTail (ind stop : Nat) (p : LP) : LP :=
  if p.isRestBlank then (p.setContainerIndent (ind + stop + 1)).consumeLine
  else
    if p.indent < 1 then p.setContainerIndent (ind + stop + 1)
    else if p.indent > 4 then (p.consumeIndentN 1).setContainerIndent (ind + stop + 1)
    else (p.consumeIndentN p.indent).setContainerIndent (ind + stop + p.indent)

theorem startListItem_eq (x : PExt) (p : LP) : startListItem x p =
    if p.indent ≥ codeBlockIndentLimit then p else
    if ((parseListMarker p.bytesAfterIndent).stop < 0 || (p.containerKind == BK.paragraph &&
        ((parseListMarker p.bytesAfterIndent).delim == 0x2E || (parseListMarker p.bytesAfterIndent).delim == 0x29) &&
        (parseListMarker p.bytesAfterIndent).n != 1)) then p else
    if p.containerKind == BK.paragraph && isBlankLine (p.bytesAfterIndent.drop (parseListMarker p.bytesAfterIndent).stop.toNat) then p else
    liTail p.indent (parseListMarker p.bytesAfterIndent).stop.toNat
      ((((((liList x (parseListMarker p.bytesAfterIndent).delim (p.consumeIndentN p.indent)).openBlock x BK.listItem
        (fun l => { l with char := (parseListMarker p.bytesAfterIndent).delim })).openBlock x BK.listMarker).advance
        (parseListMarker p.bytesAfterIndent).stop.toNat).endBlock x)) := rfl

theorem Sim.liDelim_eq (h : Sim E k p q) : liDelim q = liDelim p := by
  unfold liDelim
  rw [h.ckind_bne BK.list (by decide) (by decide), h.ckind_bne BK.listItem (by decide) (by decide)]
  split
  · rfl
  · rename_i hc
    have hd : 1 ≤ p.depth := by
      apply h.depth_pos_of_kind
      intro e
      rw [e] at hc
      exact hc (by decide)
    exact (h.container_pos hd).label.char

theorem liList_sim (HC : CloseParaSim x E) (h : Sim E k p q) (hs : p.state ≤ 2) (d : UInt8) :
    Sim E k (liList x d p) (liList x d q) ∧ (liList x d p).state ≤ 2 ∧ (liList x d p).containerKind = BK.list := by
  unfold liList
  rw [h.ckind_bne BK.list (by decide) (by decide), h.liDelim_eq]
  split
  · have h2 := h.openBlock HC BK.list (fun l => { l with char := d }) (fun _ _ r => r.setChar _) (fun _ => rfl)
      (Or.inl (by decide)) (by decide)
    have g2 := good_openBlock x p BK.list (fun l => { l with char := d }) (fun _ => rfl) h.treeOK_p hs (Or.inl (by decide))
    exact ⟨h2, g2.st, g2.ck⟩
  · rename_i hc
    have : p.containerKind = BK.list := by
      simp only [Bool.or_eq_true, not_or, bne_iff_ne, ne_eq, Decidable.not_not] at hc
      exact hc.1
    exact ⟨h, hs, this⟩

theorem liTail_sim (h : Sim E k p q) (ind stop : Nat) : Sim E k (liTail ind stop p) (liTail ind stop q) := by
  unfold liTail
  rw [h.cur.isRestBlank, h.cur.indent]
  split
  · exact (h.setContainerIndent _).consumeLine
  · split
    · exact h.setContainerIndent _
    · split
      · exact (h.consumeIndentN 1).setContainerIndent _
      · exact (h.consumeIndentN _).setContainerIndent _

theorem startListItem_sim (HC : CloseParaSim x E) (h : Sim E k p q) (hs : p.state ≤ 2) :
    Sim E k (startListItem x p) (startListItem x q) := by
  rw [startListItem_eq, startListItem_eq]
  rw [h.cur.indent, h.cur.bai, h.ckind_beq BK.paragraph (by decide) (by decide)]
  split
  · exact h
  · split
    · exact h
    · split
      · exact h
      · have h1 := h.consumeIndentN p.indent
        have s1 : (p.consumeIndentN p.indent).state ≤ 2 := consumeIndent_state_le _ _ _ hs
        generalize parseListMarker p.bytesAfterIndent = m
        obtain ⟨h2, s2, ck2⟩ := liList_sim HC h1 s1 m.delim
        have hcc : canContain (liList x m.delim (p.consumeIndentN p.indent)).containerKind BK.listItem = true := by
          rw [ck2]; decide
        have h3 := h2.openBlock HC BK.listItem (fun l => { l with char := m.delim }) (fun _ _ r => r.setChar _) (fun _ => rfl)
          (Or.inr hcc) (by decide)
        have g3 := good_openBlock x _ BK.listItem (fun l => { l with char := m.delim }) (fun _ => rfl) h2.treeOK_p s2
          (Or.inr hcc)
        have h4 := h3.openBlock HC BK.listMarker id (fun _ _ r => r) (fun _ => rfl) (Or.inl (by decide)) (by decide)
        have g4 := good_openBlock x _ BK.listMarker id (fun _ => rfl) g3.ok g3.st (Or.inl (by decide))
        have h5 := h4.advance m.stop.toNat
        have g5 := g4.advance m.stop.toNat
        have h6 := h5.endBlock HC g5.dep
        exact liTail_sim h6 _ _

/-! ### all block starts -/

theorem blockStartFns_sim (HC : CloseParaSim x E) : ∀ i (hi : i < (blockStartFns x).length), ∀ {p q : LP},
    Sim E k p q → p.state ≤ 2 → Sim E k ((blockStartFns x)[i] p) ((blockStartFns x)[i] q) := by
  intro i hi p q h hs
  simp only [blockStartFns, List.length_cons, List.length_nil] at hi
  match i, hi with
  | 0, _ => exact startBlockQuote_sim HC h
  | 1, _ => exact startATX_sim HC h hs
  | 2, _ => exact startFenced_sim HC h hs
  | 3, _ => exact startHTML_sim HC h hs
  | 4, _ => exact startSetext_sim HC h
  | 5, _ => exact startThematicBreak_sim HC h hs
  | 6, _ => exact startListItem_sim HC h hs
  | 7, _ => exact startIndentedCode_sim HC h

/-- One pass over a list of start rules that respect `Sim`. -/
theorem tryStarts_sim : ∀ (fs : List (LP → LP)), (∀ f ∈ fs, ∀ {p q : LP}, Sim E k p q → p.state ≤ 2 → Sim E k (f p) (f q)) →
    ∀ {p q : LP}, Sim E k p q → Sim E k (tryStarts fs p) (tryStarts fs q) := by
  intro fs
  induction fs with
  | nil => intro _ p q h; exact h
  | cons f rest ih =>
    intro hf p q h
    unfold tryStarts
    simp only []
    have h1 := hf f (List.mem_cons_self ..) (h.setState stateOpening) (by show stateOpening ≤ 2; decide)
    rw [h1.cur.state]
    split
    · exact h1
    · exact ih (fun g hg => hf g (List.mem_cons_of_mem _ hg)) h1

theorem tryStarts_blockStarts_sim (HC : CloseParaSim x E) (h : Sim E k p q) :
    Sim E k (tryStarts (blockStartFns x) p) (tryStarts (blockStartFns x) q) := by
  apply tryStarts_sim _ _ h
  intro f hf p q h hs
  obtain ⟨i, hi, rfl⟩ := List.getElem_of_mem hf
  exact blockStartFns_sim HC i hi h hs

/-- The `openingLoop`. -/
theorem openingLoop_sim (HC : CloseParaSim x E) : ∀ (fuel : Nat) {p q : LP}, Sim E k p q →
    (openingLoop x fuel q).1 = (openingLoop x fuel p).1 ∧ Sim E k (openingLoop x fuel p).2 (openingLoop x fuel q).2 := by
  intro fuel
  induction fuel with
  | zero => intro p q h; exact ⟨rfl, h⟩
  | succ fuel ih =>
    intro p q h
    unfold openingLoop
    rw [h.ckind_beq BK.paragraph (by decide) (by decide), h.acceptsLines_eq]
    split
    · exact ⟨rfl, h⟩
    · simp only []
      have h1 := tryStarts_blockStarts_sim HC h
      rw [h1.cur.state]
      split
      · exact ih h1
      · split
        · exact ⟨rfl, h1⟩
        · exact ⟨rfl, h1⟩

end CM.Proofs.Quote
