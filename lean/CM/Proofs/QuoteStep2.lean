import CM.Proofs.QuoteStream
/-
C09 (block-quote half), step (4): the other kinds of line steps, in the coordinates of the stream machine —
the first line of a fresh session of the bare side (`step_fresh`), the very first line of both runs (`step_first`), a
blank line that only the prefixed run feeds to its parser (`step_qblank`), and the end of the input (`step_eof`).
-/
namespace CM.Proofs.Quote
open CM CM.Model CM.Gen CM.Proofs.BT CM.Proofs.BSp

variable {D a b qa : Bytes} {c : Nat} {x : PExt}

/-- `RootR` when the bare side has no blocks does not depend on the coordinates of the bare side. -/
theorem RootR.rebase_nil {E F : Env} {P P' Q : PB} (h : RootR E P Q) (hb : P.blocks = []) (hb' : P'.blocks = [])
    (hk : P'.label.kind = BK.document) (ho : P'.label.stop < 0) (hd : F.done = E.done) : RootR F P' Q := by
  obtain ⟨lq, isQ, Qb, e, h1, h2, ht⟩ := h
  obtain ⟨pre, bs', e1, hpre, hr⟩ := ht.kids
  rw [hb] at hr
  cases hr
  exact ⟨lq, isQ, Qb, e, h1, h2, hk, ho, ht.qlab, ht.qinl, pre, [], e1, ⟨hpre.1, by rw [hd]; exact hpre.2⟩, by rw [hb']; exact .nil⟩

/-! ### the relation alone (no span check needed) -/

/-- One line through both parsers: the relation and the panic-freedom of both. -/
theorem step_rel (DR : List Tree → List Tree → Prop) (h : LineAt D a b qa c) (done : List Tree) (lpD lpQ : LP)
    (HC : CloseParaSim x (envOf DR D c (a.length - c + lineLen b) (qa.length + (lineLen b + 2)) done))
    (hDi : LPInv' lpD) (hQ : LPInv' lpQ)
    (hT : lpD.state = stateDescendTerminated → ∃ c0, spineGet lpD.root 1 = some c0 ∧ c0.isOpen = true ∧ hasMatch c0.label.kind)
    (hroot : RootR (envOf DR D c (a.length - c) qa.length done) lpD.root lpQ.root) :
    LPInv' ((blocksLP x).line lpD ((D.drop c).take (a.length - c + lineLen b)) (a.length - c)) ∧
    LPInv' ((blocksLP x).line lpQ ((quote D).take (qa.length + (lineLen b + 2))) qa.length) ∧
    RootR (envOf DR D c (a.length - c + lineLen b) (qa.length + (lineLen b + 2)) done)
      ((blocksLP x).line lpD ((D.drop c).take (a.length - c + lineLen b)) (a.length - c)).root
      ((blocksLP x).line lpQ ((quote D).take (qa.length + (lineLen b + 2))) qa.length).root := by
  have hls := lineStart_of h DR done lpD lpQ hDi hQ hroot
  obtain ⟨p1, p2, p3, p4, p5, p6⟩ := reset_fields lpD ((D.drop c).take (a.length - c + lineLen b)) (a.length - c)
  have hpl : (lpD.reset ((D.drop c).take (a.length - c + lineLen b)) (a.length - c)).line ≠ [] := by
    rw [p4, h.lineD]
    intro e
    have := congrArg List.length e
    rw [List.length_take] at this
    have h3 : 0 < b.length := List.length_pos_iff.mpr h.bne
    have := lineLen_pos h.bne
    simp only [List.length_nil] at *
    omega
  have hsim := processLine_sim (x := x) HC hls hpl (reset_LPInv lpD hDi _ _).toInv (reset_LPInv lpQ hQ _ _).toInv
    (by rw [p6, p1]; exact hT)
  exact ⟨blocksLP_line_LPInv' x lpD hDi _ _, blocksLP_line_LPInv' x lpQ hQ _ _, hsim.root⟩

/-- The span invariant of the bare side after the line (this is where the monitored `RefDefSpansOK` check is used). -/
theorem step_spans (h : LineAt D a b qa c) (lpD : LP) (hDi : LPInv' lpD) (hDo : lpD.root.label.stop < 0)
    (hchk : pbSpans (RefDefSpansOK x ((D.drop c).take (a.length - c + lineLen b)) ((a.length - c : Nat) : Int)
      ((D.drop c).take (a.length - c + lineLen b)).length) 0 ((a.length - c : Nat) : Int) lpD.root = true) :
    ((blocksLP x).line lpD ((D.drop c).take (a.length - c + lineLen b)) (a.length - c)).root.label.stop < 0 ∧
    PBSpans QT 0 ((a.length - c + lineLen b : Nat) : Int)
      ((blocksLP x).line lpD ((D.drop c).take (a.length - c + lineLen b)) (a.length - c)).root := by
  have hlenD : ((D.drop c).take (a.length - c + lineLen b)).length = a.length - c + lineLen b := by
    rw [List.length_take, List.length_drop]; have := h.lenD; omega
  have hpos := lineLen_pos h.bne
  have hs := processLine_spans x lpD _ (a.length - c) hDi (by rw [hlenD]; omega) hDo hchk
  refine ⟨hs.2 (by rw [hlenD]; omega), ?_⟩
  have := hs.1
  rw [hlenD] at this
  exact this

/-! ### a fresh session of the bare side -/

/-- `newLineParser(bs)` before its first `reset`, as an `LP`. -/
def newOf (bs : List PB) : LP := { source := [], root := docRoot bs, lineStart := 0, line := [] }

theorem new_eq (x : PExt) (bs : List PB) : (blocksLP x).new bs = newOf bs := rfl
theorem newOf_inv (bs : List PB) : LPInv' (newOf bs) := ⟨rfl, rfl⟩
theorem new_state (bs : List PB) : (newOf bs).state = 0 := rfl
theorem new_root (bs : List PB) : (newOf bs).root = docRoot bs := rfl

/-- The first line of a session of the bare side that starts with no pending blocks, at `c = |a|`; the prefixed side is
    in the middle of its only session. -/
theorem step_fresh (DR : List Tree → List Tree → Prop) (h : LineAt D a b qa c) (hc : c = a.length) (done : List Tree) (lpQ : LP)
    (HC : CloseParaSim x (envOf DR D c (a.length - c + lineLen b) (qa.length + (lineLen b + 2)) done))
    (hQ : LPInv' lpQ) (hnb : isBlankLine (b.take (lineLen b)) = false)
    (hroot : RootR (envOf DR D c (a.length - c) qa.length done) (docRoot []) lpQ.root)
    (hchk : pbSpans (RefDefSpansOK x ((D.drop c).take (a.length - c + lineLen b)) ((a.length - c : Nat) : Int)
      ((D.drop c).take (a.length - c + lineLen b)).length) 0 ((a.length - c : Nat) : Int) (newOf []).root = true) :
    DSess D c (a.length - c + lineLen b)
      ((blocksLP x).line (newOf []) ((D.drop c).take (a.length - c + lineLen b)) (a.length - c)) ∧
    LPInv' ((blocksLP x).line lpQ ((quote D).take (qa.length + (lineLen b + 2))) qa.length) ∧
    RootR (envOf DR D c (a.length - c + lineLen b) (qa.length + (lineLen b + 2)) done)
      ((blocksLP x).line (newOf []) ((D.drop c).take (a.length - c + lineLen b)) (a.length - c)).root
      ((blocksLP x).line lpQ ((quote D).take (qa.length + (lineLen b + 2))) qa.length).root := by
  obtain ⟨r1, r2, r3⟩ := step_rel (x := x) DR h done (newOf []) lpQ HC (newOf_inv []) hQ
    (fun hs => by rw [new_state] at hs; cases hs) hroot
  obtain ⟨s1, s2⟩ := step_spans (x := x) h (newOf []) (newOf_inv []) (by show (-1 : Int) < 0; decide) hchk
  refine ⟨⟨r1, s1, s2, ?_⟩, r2, r3⟩
  -- the well-formedness invariant, from the first line of a fresh parser
  have e0 : a.length - c = 0 := by omega
  have hsrc : (D.drop c).take (a.length - c + lineLen b) = b.take (lineLen b) := by
    have := h.lineD
    rw [e0, List.drop_zero] at this
    rw [e0]
    exact this
  have key : ∀ (s : Bytes) (n : Nat), s = b.take (lineLen b) → n = 0 →
      blocksI s ((blocksLP x).line (newOf []) s n) := by
    intro s n hs hn
    subst hs hn
    exact blocks_fresh x _ hnb
  exact key _ _ hsrc e0

/-! ### the very first line of both runs -/

/-- Both parsers at the start of the first line of their documents. -/
theorem firstStart_of (DR : List Tree → List Tree → Prop) (h : LineAt D [] b [] 0) :
    FirstStart (envOf DR D 0 (lineLen b) (lineLen b + 2) [])
      ((newOf []).reset (D.take (lineLen b)) 0) ((newOf []).reset ((quote D).take (lineLen b + 2)) 0) := by
  have hD : D = b := by have := h.split; simpa using this
  have hlD := h.lineD
  have hlQ := h.lineQ
  simp only [List.length_nil, Nat.sub_zero, Nat.zero_add, List.drop_zero] at hlD hlQ
  obtain ⟨p1, p2, p3, p4, p5, _⟩ := reset_fields (newOf []) (D.take (lineLen b)) 0
  obtain ⟨q1, q2, q3, q4, q5, _⟩ := reset_fields (newOf []) ((quote D).take (lineLen b + 2)) 0
  have hpl : ((newOf []).reset (D.take (lineLen b)) 0).line = b.take (lineLen b) := by rw [p4]; exact hlD
  have hql : ((newOf []).reset ((quote D).take (lineLen b + 2)) 0).line = GT :: SP :: b.take (lineLen b) := by
    rw [q4]; exact hlQ
  have hll : (b.take (lineLen b)).length = lineLen b := by rw [List.length_take]; exact Nat.min_eq_left (lineLen_le b)
  have hcr := h.clean.noCR
  refine ⟨by rw [hql, hpl], p5, q5, ?_, ?_, ?_, ?_, reset_source _ _ _, reset_source _ _ _, ?_, ?_, ?_, ?_, q3, ?_, ?_, ?_, rfl⟩
  · rw [hpl]
    intro y hy
    apply h.clean.noTab
    rw [hD]
    exact List.mem_of_mem_take hy
  · rw [reset_panic, reset_panic]
  · rw [p1]; exact ⟨rfl, rfl, by show (-1 : Int) < 0; decide⟩
  · rw [q1]; exact ⟨_, _, rfl, rfl, by show (-1 : Int) < 0; decide⟩
  · rw [p4, reset_source, p3]
  · rw [p3]; exact Nat.zero_le _
  · rw [q4, reset_source, q3]
  · rw [q3]; exact Nat.zero_le _
  · intro j hj
    rw [hpl, hll] at hj
    rw [p3, q3]
    have := prabs_here (a := []) (b := b) h.split hcr h.whole 0 (Nat.le_refl _) j hj
    show PRabs D 0 _ _
    simpa [nLF_zero] using this
  · rw [p3, q3]
    have := prabs_start (a := []) (b := b) h.split hcr h.whole 0 (Nat.le_refl _)
    show PRabs D 0 _ _
    simpa [nLF_zero] using this
  · intro y y' hy
    rw [p3, q3]
    have := prabs_ord (a := []) (b := b) h.split hcr h.whole 0 (Nat.le_refl _) y y' hy
    simpa [nLF_zero] using this

/-- **The first line of both runs.** -/
theorem step_first (DR : List Tree → List Tree → Prop) (h : LineAt D [] b [] 0)
    (HC : CloseParaSim x (envOf DR D 0 (lineLen b) (lineLen b + 2) []))
    (hnb : isBlankLine (b.take (lineLen b)) = false)
    (hchk : pbSpans (RefDefSpansOK x (D.take (lineLen b)) ((0 : Nat) : Int) (D.take (lineLen b)).length) 0 ((0 : Nat) : Int)
      (newOf []).root = true) :
    DSess D 0 (lineLen b) ((blocksLP x).line (newOf []) (D.take (lineLen b)) 0) ∧
    LPInv' ((blocksLP x).line (newOf []) ((quote D).take (lineLen b + 2)) 0) ∧
    RootR (envOf DR D 0 (lineLen b) (lineLen b + 2) [])
      ((blocksLP x).line (newOf []) (D.take (lineLen b)) 0).root
      ((blocksLP x).line (newOf []) ((quote D).take (lineLen b + 2)) 0).root := by
  have hD : D = b := by have := h.split; simpa using this
  have hfs := firstStart_of DR h
  have hlD := h.lineD
  simp only [List.length_nil, Nat.sub_zero, Nat.zero_add, List.drop_zero] at hlD
  obtain ⟨p1, p2, p3, p4, p5, p6⟩ := reset_fields (newOf []) (D.take (lineLen b)) 0
  obtain ⟨q1, q2, q3, q4, q5, q6⟩ := reset_fields (newOf []) ((quote D).take (lineLen b + 2)) 0
  have hpl : ((newOf []).reset (D.take (lineLen b)) 0).line ≠ [] := by
    rw [p4]
    intro e
    have h1 := congrArg List.length e
    rw [List.drop_zero, List.length_take, hD] at h1
    have h3 : 0 < b.length := List.length_pos_iff.mpr h.bne
    have := lineLen_pos h.bne
    simp only [List.length_nil] at h1
    omega
  have hsim := processLine_first_sim (x := x) HC hfs hpl (reset_LPInv _ (newOf_inv []) _ _).toInv
    (reset_LPInv _ (newOf_inv []) _ _).toInv (by rw [p6]; decide) (by rw [q6]; decide)
  have hlenD : (D.take (lineLen b)).length = lineLen b := by
    rw [List.length_take, hD]; exact Nat.min_eq_left (lineLen_le b)
  have hpos := lineLen_pos h.bne
  have hs := processLine_spans x (newOf []) (D.take (lineLen b)) 0 (newOf_inv []) (Nat.zero_le _)
    (by show (-1 : Int) < 0; decide) hchk
  refine ⟨⟨blocksLP_line_LPInv' x _ (newOf_inv []) _ _, hs.2 (by rw [hlenD]; omega), ?_, ?_⟩,
    blocksLP_line_LPInv' x _ (newOf_inv []) _ _, hsim.root⟩
  · have := hs.1; rw [hlenD] at this; exact this
  · have := blocks_fresh x (b.take (lineLen b)) hnb
    rw [hD] at *
    exact this

/-! ### a blank line that only the prefixed run feeds to its parser -/

theorem dropWhile_blank_line : ∀ (b : Bytes), NoCR b → NoTab b → isBlankLine (b.take (lineLen b)) = true →
    (b.take (lineLen b)).dropWhile (fun c => c == SP || c == TAB) = [] ∨
    (b.take (lineLen b)).dropWhile (fun c => c == SP || c == TAB) = [LF] := by
  intro b
  induction b with
  | nil => intro _ _ _; left; rfl
  | cons a rest ih =>
    intro hcr htab hbl
    rw [lineLen_noCR_cons hcr] at hbl ⊢
    by_cases ha : a = LF
    · subst ha
      right
      simp only [if_true, List.take_succ_cons, List.take_zero]
      rfl
    · rw [if_neg ha] at hbl ⊢
      simp only [List.take_succ_cons] at hbl ⊢
      have hsp : a = SP := by
        have h1 : isSpaceTabOrLineEnding a = true := by
          simp only [isBlankLine, List.all_cons, Bool.and_eq_true] at hbl
          exact hbl.1
        have h2 : a ≠ TAB := htab a (List.mem_cons_self ..)
        have h3 : a ≠ CR := hcr a (List.mem_cons_self ..)
        simp only [isSpaceTabOrLineEnding, Bool.or_eq_true, beq_iff_eq] at h1
        rcases h1 with ((h1 | h1) | h1) | h1
        · exact h1
        · exact absurd h1 h2
        · exact absurd h1 ha
        · exact absurd h1 h3
      subst hsp
      have hbl' : isBlankLine (rest.take (lineLen rest)) = true := by
        simp only [isBlankLine, List.all_cons, Bool.and_eq_true] at hbl
        exact hbl.2
      have := ih hcr.tail htab.tail hbl'
      simpa [List.dropWhile_cons] using this

/-- **A blank line on the prefixed side only** (the bare side has no pending block and skips the line). -/
theorem step_qblank (DR : List Tree → List Tree → Prop) (h : LineAt D a b qa c) (hc : c = a.length) (done : List Tree) (lpQ : LP)
    (HC : CloseParaSim x (envOf DR D c (a.length - c + lineLen b) (qa.length + (lineLen b + 2)) done))
    (hQ : LPInv' lpQ) (hbl : isBlankLine (b.take (lineLen b)) = true)
    (hroot : RootR (envOf DR D c (a.length - c) qa.length done) (docRoot []) lpQ.root) :
    LPInv' ((blocksLP x).line lpQ ((quote D).take (qa.length + (lineLen b + 2))) qa.length) ∧
    RootR (envOf DR D (c + lineLen b) 0 (qa.length + (lineLen b + 2)) done) (docRoot [])
      ((blocksLP x).line lpQ ((quote D).take (qa.length + (lineLen b + 2))) qa.length).root := by
  obtain ⟨r1, r2, r3⟩ := step_rel (x := x) DR h done (newOf []) lpQ HC (newOf_inv []) hQ
    (fun hs => by rw [new_state] at hs; cases hs) hroot
  refine ⟨r2, ?_⟩
  -- the virtual parser of the bare side opens nothing on the blank line
  have e0 : a.length - c = 0 := by omega
  obtain ⟨p1, p2, p3, p4, p5, p6⟩ := reset_fields (newOf []) ((D.drop c).take (a.length - c + lineLen b)) (a.length - c)
  have hline : ((newOf []).reset ((D.drop c).take (a.length - c + lineLen b)) (a.length - c)).line = b.take (lineLen b) := by
    rw [p4, h.lineD]
  have hnil : ((blocksLP x).line (newOf []) ((D.drop c).take (a.length - c + lineLen b)) (a.length - c)).root.blocks = [] := by
    apply processLine_blank_empty
    · rw [p1]; rfl
    · rw [p1]; rfl
    · rw [hline]
      intro e
      have h1 := congrArg List.length e
      rw [List.length_take] at h1
      have h3 : 0 < b.length := List.length_pos_iff.mpr h.bne
      have := lineLen_pos h.bne
      simp only [List.length_nil] at h1
      omega
    · constructor
      · unfold LP.isRestBlank; rw [hline, p5, List.drop_zero]; exact hbl
      · unfold LP.bytesAfterIndent
        rw [hline, p5, List.drop_zero]
        have hb : NoCR b := h.noCRb
        have ht : NoTab b := fun y hy => h.clean.noTab y (by rw [h.split]; exact List.mem_append_right _ hy)
        exact dropWhile_blank_line b hb ht hbl
    · rw [p6]; decide
  exact r3.rebase_nil hnil rfl rfl (by show (-1 : Int) < 0; decide) rfl

/-- **A blank first line**: the prefixed run opens the block quote; the bare run skips the line. -/
theorem step_qblank_first (DR : List Tree → List Tree → Prop) (h : LineAt D [] b [] 0)
    (HC : CloseParaSim x (envOf DR D 0 (lineLen b) (lineLen b + 2) []))
    (hbl : isBlankLine (b.take (lineLen b)) = true) :
    LPInv' ((blocksLP x).line (newOf []) ((quote D).take (lineLen b + 2)) 0) ∧
    RootR (envOf DR D (lineLen b) 0 (lineLen b + 2) []) (docRoot [])
      ((blocksLP x).line (newOf []) ((quote D).take (lineLen b + 2)) 0).root := by
  have hD : D = b := by have := h.split; simpa using this
  have hfs := firstStart_of DR h
  have hlD := h.lineD
  simp only [List.length_nil, Nat.sub_zero, Nat.zero_add, List.drop_zero] at hlD
  obtain ⟨p1, p2, p3, p4, p5, p6⟩ := reset_fields (newOf []) (D.take (lineLen b)) 0
  obtain ⟨q1, q2, q3, q4, q5, q6⟩ := reset_fields (newOf []) ((quote D).take (lineLen b + 2)) 0
  have hline : ((newOf []).reset (D.take (lineLen b)) 0).line = b.take (lineLen b) := by rw [p4, List.drop_zero, hlD]
  have hpl : ((newOf []).reset (D.take (lineLen b)) 0).line ≠ [] := by
    rw [hline]
    intro e
    have h1 := congrArg List.length e
    rw [List.length_take] at h1
    have h3 : 0 < b.length := List.length_pos_iff.mpr h.bne
    have := lineLen_pos h.bne
    simp only [List.length_nil] at h1
    omega
  have hsim := processLine_first_sim (x := x) HC hfs hpl (reset_LPInv _ (newOf_inv []) _ _).toInv
    (reset_LPInv _ (newOf_inv []) _ _).toInv (by rw [p6]; decide) (by rw [q6]; decide)
  refine ⟨blocksLP_line_LPInv' x _ (newOf_inv []) _ _, ?_⟩
  have hnil : (processLine x ((newOf []).reset (D.take (lineLen b)) 0)).root.blocks = [] := by
    apply processLine_blank_empty
    · rw [p1]; rfl
    · rw [p1]; rfl
    · exact hpl
    · constructor
      · unfold LP.isRestBlank; rw [hline, p5, List.drop_zero]; exact hbl
      · unfold LP.bytesAfterIndent
        rw [hline, p5, List.drop_zero]
        have hb : NoCR b := h.noCRb
        have ht : NoTab b := fun y hy => h.clean.noTab y (by rw [hD]; exact hy)
        exact dropWhile_blank_line b hb ht hbl
    · rw [p6]; decide
  exact hsim.root.rebase_nil hnil rfl rfl (by show (-1 : Int) < 0; decide) rfl

/-! ### the end of the input -/

/-- The coordinates at the end of the input. -/
structure EofAt (D qa : Bytes) (c : Nat) : Prop where
  clean : Clean D
  ne : D ≠ []
  q : quote D = qa
  qlen : qa.length = psiE D D.length
  cle : c ≤ D.length

theorem prabs_eof {qa : Bytes} (h : EofAt D qa c) : PRabs D c ((D.length - c : Nat) : Int) ((qa.length : Nat) : Int) := by
  refine ⟨Int.natCast_nonneg _, Or.inr ?_⟩
  have e : ((D.length - c : Nat) : Int).toNat + c = D.length := by have := h.cle; omega
  rw [e, h.qlen]

/-- **The end of the input on both sides.** -/
theorem step_eof (DR : List Tree → List Tree → Prop) {qa : Bytes} (h : EofAt D qa c) (done : List Tree) (lpD lpQ : LP)
    (HC : CloseParaSim x (envOf DR D c (D.length - c) qa.length done))
    (hT : lpD.state = stateDescendTerminated → ∃ c0, spineGet lpD.root 1 = some c0 ∧ c0.isOpen = true ∧ hasMatch c0.label.kind)
    (hroot : RootR (envOf DR D c (D.length - c) qa.length done) lpD.root lpQ.root) :
    FinR (envOf DR D c (D.length - c) qa.length done) (qa.length : Nat)
      ((blocksLP x).line lpD ((D.drop c).take (D.length - c)) (D.length - c)).root.blocks
      ((blocksLP x).line lpQ ((quote D).take qa.length) qa.length).root := by
  obtain ⟨p1, p2, p3, p4, p5, p6⟩ := reset_fields lpD ((D.drop c).take (D.length - c)) (D.length - c)
  obtain ⟨q1, q2, q3, q4, q5, q6⟩ := reset_fields lpQ ((quote D).take qa.length) qa.length
  have hpl : (lpD.reset ((D.drop c).take (D.length - c)) (D.length - c)).line = [] := by
    rw [p4]; apply List.drop_eq_nil_of_le
    rw [List.length_take, List.length_drop]; omega
  have hql : (lpQ.reset ((quote D).take qa.length) qa.length).line = [] := by
    rw [q4]; apply List.drop_eq_nil_of_le
    rw [List.length_take]; omega
  have := processLine_eof_sim (x := x) (E := envOf DR D c (D.length - c) qa.length done) HC hpl hql
    (by rw [p1, q1]; exact hroot) (reset_source _ _ _) (reset_source _ _ _)
    (by rw [p3, q3]; exact prabs_eof h) (by rw [p6, p1]; exact hT)
  rw [q3] at this
  exact this

/-- The empty line at the end of the input, fed to a parser with an empty document: the document stays empty. -/
theorem eof_empty_blocks (lp : LP) (src : Bytes) (hb : lp.root.blocks = []) (hk : lp.root.label.kind = BK.document)
    (ho : lp.root.label.stop < 0) (hs : lp.state ≠ stateDescendTerminated) :
    ((blocksLP x).line lp src src.length).root.blocks = [] := by
  obtain ⟨p1, p2, p3, p4, p5, p6⟩ := reset_fields lp src src.length
  have hpl : (lp.reset src src.length).line = [] := by rw [p4]; exact List.drop_eq_nil_of_le (Nat.le_refl _)
  have := (processLine_eof_p (x := x) (lp.reset src src.length) hpl (fun h => by rw [p6] at h; exact absurd h hs)).1
  show (processLine x (lp.reset src src.length)).root.blocks = []
  rw [this, p1]
  rcases hlp : lp.root with ⟨l, bs, is⟩
  rw [hlp] at hb hk ho
  simp only [PB.blocks, PB.label] at hb hk ho
  subst hb
  rw [closeBlock_container x _ _ l [] is ho (Or.inl hk)]
  simp only [List.headD_cons, PB.blocks]
  exact BSp.closeLast_nil _ _ _

end CM.Proofs.Quote
