import CM.Proofs.RefKeysInv
import CM.Proofs.BGStarts
/-
C12 — keys are normal forms, part 3: the operations of the line parser and the eight block starts keep `PBRefs P` of
the root (unconditionally: the predicate does not depend on the parser state or on the cursor).
-/
namespace CM.Proofs.RK
open CM CM.Model CM.Gen
open CM.Proofs.BT CM.Proofs.BG

variable {P : Bytes → Prop} {x : PExt}

theorem PBRefs_appendChild {child C : PB} (hc : PBRefs P child) (hC : PBRefs P C) : PBRefs P (appendChild child C) := by
  obtain ⟨l, bs, is⟩ := C
  simp only [appendChild]
  rw [PBRefs_mk] at hC ⊢
  refine ⟨hC.1, ?_⟩
  intro b hb
  rcases List.mem_append.1 hb with hb | hb
  · exact hC.2 b hb
  · simp only [List.mem_singleton] at hb; subst hb; exact hc

theorem PBRefs_appendInl {t : Tree} {C : PB} (ht : P t.label.ref) (hC : PBRefs P C) : PBRefs P (appendInl t C) := by
  obtain ⟨l, bs, is⟩ := C
  simp only [appendInl]
  rw [PBRefs_mk] at hC ⊢
  refine ⟨?_, hC.2⟩
  intro u hu
  rcases List.mem_append.1 hu with hu | hu
  · exact hC.1 u hu
  · simp only [List.mem_singleton] at hu; subst hu; exact ht

/-! ### cursor operations -/

theorem setPanic_R (p : LP) (m : String) (h : PBRefs P p.root) : PBRefs P (p.setPanic m).root := by
  rw [(setPanic_root p m).1]; exact h

theorem markMatched_R (p : LP) (h : PBRefs P p.root) : PBRefs P p.markMatched.root := by
  rw [markMatched_eq]; exact h

theorem advance_R (p : LP) (n : Nat) (h : PBRefs P p.root) : PBRefs P (p.advance n).root := by
  rw [(advance_root p n).1]; exact h

theorem consumeIndentN_R (p : LP) (n : Nat) (h : PBRefs P p.root) : PBRefs P (p.consumeIndentN n).root := by
  rw [consumeIndentN_root]; exact h

theorem consumeLine_R (p : LP) (h : PBRefs P p.root) : PBRefs P p.consumeLine.root := by
  rw [consumeLine_root]; exact h

theorem setState_R (p : LP) (s : Nat) (h : PBRefs P p.root) : PBRefs P ({ p with state := s } : LP).root := h
theorem setDepth_R (p : LP) (d : Nat) (h : PBRefs P p.root) : PBRefs P ({ p with depth := d } : LP).root := h

/-! ### tree operations -/

theorem closeContainer_R (hP : RefPred x P) (p : LP) (e : Int) (h : PBRefs P p.root) :
    PBRefs P (p.closeContainer x e).root := by
  unfold LP.closeContainer
  split
  · show PBRefs P ((closeBlock x p.source e p.root).headD p.root)
    have r := closeBlock_refs hP p.source e p.root h
    cases hc : closeBlock x p.source e p.root with
    | nil => exact h
    | cons a rest => exact r a (by rw [hc]; exact List.mem_cons_self ..)
  · exact spineReplaceLast_refs hP p.source e p.root _ h

theorem closeLastChild_R (hP : RefPred x P) (p : LP) (e : Int) (h : PBRefs P p.root) :
    PBRefs P (p.closeLastChild x e).root :=
  spineReplaceLast_refs hP p.source e p.root _ h

theorem endBlock_R (hP : RefPred x P) (p : LP) (h : PBRefs P p.root) : PBRefs P (p.endBlock x).root := by
  unfold LP.endBlock
  split
  · exact setPanic_R _ _ h
  · exact closeContainer_R hP _ _ (markMatched_R _ h)

theorem openBlockLoop_R (hP : RefPred x P) (kind : Nat) : ∀ (fuel : Nat) (p : LP), PBRefs P p.root →
    PBRefs P (LP.openBlockLoop x kind fuel p).root := by
  intro fuel
  induction fuel with
  | zero => intro p h; exact h
  | succ fuel ih =>
    intro p h
    unfold LP.openBlockLoop
    split
    · exact h
    · split
      · exact setPanic_R _ _ h
      · exact ih _ (closeContainer_R hP p _ h)

theorem modifyContainer_R (p : LP) (f : PB → PB) (hf : ∀ c, PBRefs P c → PBRefs P (f c)) (h : PBRefs P p.root) :
    PBRefs P (p.modifyContainer f).root :=
  PBRefs_spineModify f hf p.depth p.root h

theorem appendInline_R (p : LP) (t : Tree) (ht : P t.label.ref) (h : PBRefs P p.root) :
    PBRefs P (p.appendInline t).root := by
  rw [appendInline_eq]
  exact modifyContainer_R p _ (fun c hc => PBRefs_appendInl ht hc) h

theorem setContainerIndent_R (p : LP) (n : Int) (h : PBRefs P p.root) : PBRefs P (p.setContainerIndent n).root := by
  unfold LP.setContainerIndent
  split
  · exact setPanic_R _ _ h
  · split
    · exact setPanic_R _ _ h
    · exact modifyContainer_R p _ (fun c hc => PBRefs_setLabel _ hc) h

theorem openBlock_R (hP : RefPred x P) (p : LP) (kind : Nat) (attrs : PLabel → PLabel) (h : PBRefs P p.root) :
    PBRefs P (p.openBlock x kind attrs).root := by
  unfold LP.openBlock
  split
  · exact setPanic_R _ _ h
  · simp only []
    have h3 := closeLastChild_R hP _ (LP.openBlockLoop x kind (p.markMatched.depth + 1) p.markMatched).lineStart
      (openBlockLoop_R hP kind (p.markMatched.depth + 1) _ (markMatched_R p h))
    refine PBRefs_spineModify _ ?_ _ _ h3
    intro c hc
    obtain ⟨l, bs, is⟩ := c
    simp only []
    rw [PBRefs_mk] at hc ⊢
    refine ⟨hc.1, ?_⟩
    intro b hb
    rcases List.mem_append.1 hb with hb | hb
    · exact hc.2 b hb
    · simp only [List.mem_singleton] at hb
      subst hb
      rw [PBRefs_mk]
      exact ⟨fun _ ht => (by cases ht), fun _ hb => (by cases hb)⟩

theorem collectInline_R (hnil : P []) (p : LP) (kind n : Nat) (h : PBRefs P p.root) :
    PBRefs P (p.collectInline x kind n).root := by
  unfold LP.collectInline
  split
  · exact setPanic_R _ _ h
  · simp only []
    have h1 := markMatched_R p h
    generalize p.markMatched = p1 at h1
    split
    · refine appendInline_R _ _ hnil (advance_R _ _ ?_)
      split
      · exact appendInline_R _ _ hnil (advance_R _ _ h1)
      · exact h1
    · refine appendInline_R _ _ hnil (advance_R _ _ ?_)
      split
      · exact appendInline_R _ _ hnil (advance_R _ _ h1)
      · exact h1

/-! ### automation: goals `PBRefs P (op … q).root` from `PBRefs P p.root` -/

syntax "rok" : tactic
macro_rules
  | `(tactic| rok) => `(tactic| first
    | assumption
    | (apply setPanic_R; rok)
    | (apply markMatched_R; rok)
    | (apply advance_R; rok)
    | (apply consumeIndentN_R; rok)
    | (apply consumeLine_R; rok)
    | (apply setContainerIndent_R; rok)
    | (apply endBlock_R (by assumption); rok)
    | (apply closeContainer_R (by assumption); rok)
    | (apply closeLastChild_R (by assumption); rok)
    | (apply openBlock_R (by assumption); rok)
    | (apply collectInline_R (RefPred.nil (by assumption)); rok)
    | (apply modifyContainer_R _ _ (fun c hc => PBRefs_setLabel _ hc); rok)
    | (split <;> rok))

/-! ### the eight block starts -/

attribute [local irreducible] LP.advance LP.consumeIndentN LP.consumeLine LP.openBlock LP.endBlock LP.collectInline
  LP.setContainerIndent LP.closeContainer LP.closeLastChild LP.modifyContainer LP.setPanic LP.markMatched LP.appendInline

theorem startBlockQuote_R (hP : RefPred x P) (p : LP) (h : PBRefs P p.root) : PBRefs P (startBlockQuote x p).root := by
  unfold startBlockQuote
  simp only []
  rok

theorem startATX_R (hP : RefPred x P) (p : LP) (h : PBRefs P p.root) : PBRefs P (startATX x p).root := by
  unfold startATX
  simp only []
  rok

theorem startFenced_R (hP : RefPred x P) (p : LP) (h : PBRefs P p.root) : PBRefs P (startFenced x p).root := by
  unfold startFenced
  simp only []
  rok

theorem htmlStartLoop_R (hP : RefPred x P) (line : Bytes) : ∀ (fuel i : Nat) (p : LP), PBRefs P p.root →
    PBRefs P (htmlStartLoop x line fuel i p).root := by
  intro fuel
  induction fuel with
  | zero => intro i p h; exact h
  | succ fuel ih =>
    intro i p h
    unfold htmlStartLoop
    split
    · exact h
    · split
      · simp only []
        rok
      · exact ih _ _ h

theorem startHTML_R (hP : RefPred x P) (p : LP) (h : PBRefs P p.root) : PBRefs P (startHTML x p).root := by
  unfold startHTML
  simp only []
  split
  · exact h
  · split
    · exact h
    · exact htmlStartLoop_R hP _ _ _ _ h

theorem startSetext_R (hP : RefPred x P) (p : LP) (h : PBRefs P p.root) : PBRefs P (startSetext x p).root := by
  unfold startSetext
  simp only []
  rok

theorem startThematicBreak_R (hP : RefPred x P) (p : LP) (h : PBRefs P p.root) :
    PBRefs P (startThematicBreak x p).root := by
  unfold startThematicBreak
  simp only []
  rok

theorem startListItem_R (hP : RefPred x P) (p : LP) (h : PBRefs P p.root) : PBRefs P (startListItem x p).root := by
  unfold startListItem
  simp only []
  rok

theorem startIndentedCode_R (hP : RefPred x P) (p : LP) (h : PBRefs P p.root) :
    PBRefs P (startIndentedCode x p).root := by
  unfold startIndentedCode
  simp only []
  rok

theorem blockStartFns_R (hP : RefPred x P) : ∀ f ∈ blockStartFns x, ∀ q : LP, PBRefs P q.root → PBRefs P (f q).root := by
  intro f hf q h
  simp only [blockStartFns, List.mem_cons, List.not_mem_nil, or_false] at hf
  rcases hf with rfl | rfl | rfl | rfl | rfl | rfl | rfl | rfl
  · exact startBlockQuote_R hP q h
  · exact startATX_R hP q h
  · exact startFenced_R hP q h
  · exact startHTML_R hP q h
  · exact startSetext_R hP q h
  · exact startThematicBreak_R hP q h
  · exact startListItem_R hP q h
  · exact startIndentedCode_R hP q h

end CM.Proofs.RK
