import CM.Proofs.CodeVerbatimOpen
import CM.Proofs.CodeVerbatimBytes
import CM.Proofs.TilingMachine
import CM.Proofs.StreamSim
/-
C06 (block piece), helper: the stream machine (`parseLines`, `nextBlock`, `drain`) on the in-memory parser, line by line,
while the only child of the document is an open top-level fenced code block.
-/
namespace CM.Proofs
open CM CM.Model CM.Gen
open CM.Proofs.BT

/-! ### `reset` -/

theorem updateTab_tabPartial (q : LP) : q.updateTabRemaining.tabPartial = false := by
  unfold LP.updateTabRemaining; split <;> rfl

/-- At a tab, `tabRem` is the full width of the tab (as `updateTabRemaining` leaves it). -/
def Fresh (p : LP) : Prop := p.i < p.line.length → p.line.getD p.i 0 = TAB → p.tabRem = columnWidth p.col [TAB]

theorem updateTab_fresh (q : LP) : Fresh q.updateTabRemaining := by
  intro h1 h2
  rw [updateTab_i, updateTab_line] at h1 h2
  rw [updateTab_tabRem_tab q h1 h2, updateTab_col]

/-- What `reset` establishes. -/
structure ResetFacts (lp : LP) (src : Bytes) (s : Nat) (p : LP) : Prop where
  source : p.source = src
  root : p.root = lp.root
  depth : p.depth = 0
  lineStart : p.lineStart = s
  line : p.line = src.drop s
  i : p.i = 0
  tabPartial : p.tabPartial = false
  state : p.state = lp.state
  panic : p.panic = lp.panic
  cur : CurOK p
  indent : p.indent = wsWidth 0 (src.drop s)
  col : p.col = 0
  fresh : Fresh p

theorem reset_facts (lp : LP) (src : Bytes) (s : Nat) : ResetFacts lp src s (lp.reset src s) := by
  unfold LP.reset
  generalize hq : ({ lp with lineStart := s, source := src, line := src.drop s, i := 0, col := 0, depth := 0 } : LP) = q
  have ht := updateTab_tree q
  simp only [tree, Prod.mk.injEq] at ht
  obtain ⟨t1, t2, t3, t4⟩ := ht
  subst hq
  exact ⟨t1, t2, t3, t4, updateTab_line _, updateTab_i _, updateTab_tabPartial _, updateTab_state _, updateTab_panic _,
    updateTab_cur _ (Nat.zero_le _), indent_updateTab _, updateTab_col _, updateTab_fresh _⟩

/-- The closing test of `ruleMatch` at the start of a line is `lineClosing` of the line. -/
theorem lpClosing_start (p : LP) (c : UInt8) (n : Nat) (hi : p.i = 0) (hind : p.indent = wsWidth 0 p.line) :
    lpClosing { p with depth := 1, state := stateDescending } c n = lineClosing c n p.line := by
  have e1 : ({ p with depth := 1, state := stateDescending } : LP).indent = p.indent := indent_of_cur rfl
  have e2 : ({ p with depth := 1, state := stateDescending } : LP).bytesAfterIndent = p.line.drop (indentLength p.line) := by
    rw [drop_indentLength]
    show (p.line.drop p.i).dropWhile _ = _
    rw [hi, List.drop_zero]
  unfold lpClosing lineClosing
  rw [e1, e2, hind]

/-! ### one line of an open fenced code block through `blocksLP` -/

/-- The Text node of a content line: the line with its terminator. -/
def textNode (s len : Nat) : Tree := mkInline IK.text (s : Int) ((s + len : Nat) : Int)

theorem blocksLP_line (x : PExt) (lp : LP) (src : Bytes) (s : Nat) :
    (blocksLP x).line lp src s = processLine x (lp.reset src s) := rfl

theorem line_content (x : PExt) (lp : LP) (c : UInt8) (n : Nat) (inl : List Tree) (src : Bytes) (s : Nat) (l : Bytes)
    (hroot : lp.root = docRoot [fcOpen c n inl]) (hsrc : src.drop s = l ++ [LF])
    (hnc : lineClosing c n (l ++ [LF]) = false) :
    ((blocksLP x).line lp src s).root = docRoot [fcOpen c n (inl ++ [textNode s (l.length + 1)])] ∧
    ((blocksLP x).line lp src s).panic = lp.panic := by
  rw [blocksLP_line]
  have r := reset_facts lp src s
  generalize lp.reset src s = p at r
  have hline : p.line = l ++ [LF] := by rw [r.line, hsrc]
  have hcl : lpClosing { p with depth := 1, state := stateDescending } c n = false := by
    rw [lpClosing_start p c n r.i (by rw [r.indent, r.line]), hline, hnc]
  rw [processLine_fenced_cont x p c n inl (by rw [r.root, hroot]) r.tabPartial (by rw [hline]; exact hasByteSuffix_LF l)
    (by rw [hline]; simp) hcl]
  refine ⟨?_, r.panic⟩
  show docRoot _ = docRoot _
  rw [r.lineStart, r.i, hline]
  simp only [textNode, List.length_append, List.length_singleton, Int.natCast_add, Int.natCast_zero, Int.add_zero,
    Int.natCast_one]

theorem line_close (x : PExt) (lp : LP) (c : UInt8) (n : Nat) (inl : List Tree) (src : Bytes) (s : Nat) (ln : Bytes)
    (hroot : lp.root = docRoot [fcOpen c n inl]) (hsrc : src.drop s = ln)
    (hcl : lineClosing c n ln = true) :
    ((blocksLP x).line lp src s).root = docRoot [.mk (fcLabel c n ((s + ln.length : Nat) : Int)) [] inl] ∧
    ((blocksLP x).line lp src s).panic = lp.panic := by
  rw [blocksLP_line]
  have r := reset_facts lp src s
  generalize lp.reset src s = p at r
  have hline : p.line = ln := by rw [r.line, hsrc]
  have hcl' : lpClosing { p with depth := 1, state := stateDescending } c n = true := by
    rw [lpClosing_start p c n r.i (by rw [r.indent, r.line]), hline, hcl]
  have := processLine_fenced_close x p c n inl (by rw [r.root, hroot]) r.cur hcl'
  rw [this.1, this.2, r.lineStart, hline, r.panic]
  simp only [Int.natCast_add, and_self]

/-! ### the in-memory parser -/

/-- The parser `Parse` builds, at position `i` of a buffer without NUL bytes. -/
def memBP (buf : Bytes) (i : Nat) : BP := { buf := buf, i := i, err := some .eof, lineno := 1 }

theorem memParser_eq (doc : Bytes) (h : ∀ b ∈ doc, b ≠ 0) : memParser doc = memBP doc 0 := by
  simp only [memParser, memBP, padNulls_eq_self h]

theorem readline_memBP (buf : Bytes) (i : Nat) (hi : i ≤ buf.length) :
    readline ((memBP buf i).rd.data.length + (memBP buf i).rd.sched.length + 2) (memBP buf i) =
      (decide (0 < lineLen (buf.drop i)), memBP buf (i + lineLen (buf.drop i))) := by
  exact CM.Model.readline_mem 1 (memBP buf i) rfl hi

theorem take_line (l rest : Bytes) : (l ++ LF :: rest).take (l.length + 1) = l ++ [LF] := by
  have : l ++ LF :: rest = (l ++ [LF]) ++ rest := by simp
  rw [this, List.take_left' (by simp)]

theorem drop_line (l rest : Bytes) : (l ++ LF :: rest).drop (l.length + 1) = rest := by
  have : l ++ LF :: rest = (l ++ [LF]) ++ rest := by simp
  rw [this, List.drop_left' (by simp)]

theorem makeRoot_memBP_open (buf : Bytes) (i : Nat) (c : UInt8) (n : Nat) (inl : List Tree) :
    makeRoot (memBP buf i) (docRoot [fcOpen c n inl]).blocks = none := by
  simp [makeRoot, docRoot, PB.blocks, fcOpen, PB.isOpen, PB.label, fcLabel]

/-- One content line through `parseLines`. -/
theorem parseLines_content (x : PExt) (fuel : Nat) (lp : LP) (c : UInt8) (n : Nat) (inl : List Tree)
    (buf : Bytes) (s : Nat) (l rest : Bytes)
    (hroot : lp.root = docRoot [fcOpen c n inl]) (hpanic : lp.panic = none)
    (hbuf : buf.drop s = l ++ LF :: rest) (hnc : lineClosing c n (l ++ [LF]) = false) :
    ∃ lp' : LP, lp'.root = docRoot [fcOpen c n (inl ++ [textNode s (l.length + 1)])] ∧ lp'.panic = none ∧
      parseLines (blocksLP x) (fuel + 1) lp s (memBP buf (s + (l.length + 1))) =
        parseLines (blocksLP x) fuel lp' (s + (l.length + 1)) (memBP buf (s + (l.length + 1) + lineLen rest)) := by
  have hlen : s + (l.length + 1) + rest.length = buf.length := by
    have := congrArg List.length hbuf
    simp only [List.length_drop, List.length_append, List.length_cons] at this
    omega
  have hsrc : ((memBP buf (s + (l.length + 1))).buf.take (memBP buf (s + (l.length + 1))).i).drop s = l ++ [LF] := by
    show (buf.take (s + (l.length + 1))).drop s = _
    rw [List.drop_take, hbuf, Nat.add_sub_cancel_left, take_line]
  have hrest : buf.drop (s + (l.length + 1)) = rest := by
    rw [← List.drop_drop, hbuf, drop_line]
  obtain ⟨h1, h2⟩ := line_content x lp c n inl _ s l hroot hsrc hnc
  refine ⟨_, h1, h2.trans hpanic, ?_⟩
  have hk : makeRoot (memBP buf (s + (l.length + 1))) ((blocksLP x).kids ((blocksLP x).line lp
      ((memBP buf (s + (l.length + 1))).buf.take (memBP buf (s + (l.length + 1))).i) s)) = none := by
    show makeRoot _ (LP.root _).blocks = none
    rw [h1, makeRoot_memBP_open]
  rw [parseLines_next (blocksLP x) (h2.trans hpanic) hk, readline_memBP buf _ (by omega), hrest]
  rfl

/-! ### the opening line -/

theorem head_facts (c : UInt8) (rest : Bytes) (hc : isFenceChar c = true) :
    hasBytePrefix (c :: rest) blockQuotePrefix = false ∧ (parseATXHeading (c :: rest)).level = 0 ∧
    wsWidth 0 (c :: rest) = 0 := by
  have hne := fence_ne_LF hc
  refine ⟨?_, ?_, wsWidth_other 0 c rest hne.2.2.2.1 hne.2.2.2.2.1⟩
  · simp [hasBytePrefix, blockQuotePrefix, hne.2.2.2.2.2.1]
  · simp [parseATXHeading, countPrefix, hne.2.2.2.2.2.2]

/-- The inline children the opening line contributes: the InfoString node, if there is an info string. -/
def infoNodes (x : PExt) (c : UInt8) (n : Nat) (info : Bytes) : List Tree :=
  if info = [] then [] else [infoNode x (fenceLine c n info) n info.length]

/-- The line parser `blocksLP` starts from (no pending blocks). -/
def newLP : LP := { source := [], root := docRoot [], lineStart := 0, line := [] }

theorem line_open (x : PExt) (c : UInt8) (n : Nat) (info : Bytes) (src : Bytes) (hsrc : src = fenceLine c n info)
    (hc : isFenceChar c = true) (hn : 3 ≤ n) (hi : infoOK c info = true) :
    ((blocksLP x).line ((blocksLP x).new []) src 0).root = docRoot [fcOpen c n (infoNodes x c n info)] ∧
    ((blocksLP x).line ((blocksLP x).new []) src 0).panic = none := by
  subst hsrc
  show (processLine x (newLP.reset (fenceLine c n info) 0)).root = _ ∧
    (processLine x (newLP.reset (fenceLine c n info) 0)).panic = none
  have r := reset_facts newLP (fenceLine c n info) 0
  generalize newLP.reset (fenceLine c n info) 0 = p at r
  have hline : p.line = fenceLine c n info := by rw [r.line]; rfl
  obtain ⟨rest, hr⟩ : ∃ rest, fenceLine c n info = c :: rest := by
    have hh := fenceLine_head c n info hn
    cases h : fenceLine c n info with
    | nil => rw [h] at hh; simp at hh
    | cons b rest => rw [h] at hh; simp at hh; exact ⟨rest, by rw [hh]⟩
  have hf := head_facts c rest hc
  have hind : p.indent = 0 := by rw [r.indent, List.drop_zero, hr]; exact hf.2.2
  have hbai : p.bytesAfterIndent = fenceLine c n info := by
    rw [bai_of_indent_zero p r.cur hind, r.i, hline]; rfl
  have hroot : p.root = docRoot [] := by rw [r.root]; rfl
  have hst : p.state = stateOpening := by rw [r.state]; rfl
  have hpn : p.panic = none := by rw [r.panic]; rfl
  have hpf : parseCodeFence p.bytesAfterIndent = fenceRes c n info := by
    rw [hbai]; exact parseCodeFence_fenceLine c n info hc hn hi
  have hn0 : n ≠ 0 := by omega
  have key : (startFenced x p).root = docRoot [fcOpen c n (infoNodes x c n info)] ∧ (startFenced x p).panic = p.panic ∧
      (startFenced x p).state = stateLineConsumed := by
    by_cases hinfo : info = []
    · subst hinfo
      have := startFenced_noinfo x p c n hroot r.depth r.i r.lineStart hst r.cur hind (by rw [hpf]; rfl) hn0
      simpa [infoNodes] using this
    · have hfr : fenceRes c n info = ⟨c, n, (n : Nat), ((n + info.length : Nat) : Int)⟩ := by simp [fenceRes, hinfo]
      obtain ⟨b, t, hbt⟩ : ∃ b t, info = b :: t := by
        cases info with
        | nil => exact absurd rfl hinfo
        | cons b t => exact ⟨b, t, rfl⟩
      have hb := infoOK_head (hbt ▸ hi)
      have hget : p.line.getD n 0 = b := by
        rw [hline, hbt, fenceLine, List.append_assoc, List.getD_eq_getElem?_getD,
          List.getElem?_append_right (by simp)]
        simp
      have := startFenced_info x p c n info.length hroot r.depth r.i r.lineStart hst r.cur hind (by rw [hpf, hfr]) hn0
        (by rw [hline, fenceLine_length]; omega) (by rw [hget]; exact hb.1) (by rw [hget]; exact hb.2.1)
      rw [r.source] at this
      simpa [infoNodes, hinfo] using this
  rw [processLine_open x p hroot r.depth hst (by rw [hline, hr]; simp) (by rw [hind]; decide)
    (by rw [hbai, hr]; exact hf.1) (by rw [hbai, hr]; exact hf.2.1) key.2.2]
  exact ⟨key.1, key.2.1.trans hpn⟩

theorem parseLines_open (x : PExt) (fuel : Nat) (c : UInt8) (n : Nat) (info rest buf : Bytes)
    (hbuf : buf = fenceLine c n info ++ rest)
    (hc : isFenceChar c = true) (hn : 3 ≤ n) (hi : infoOK c info = true) :
    ∃ lp' : LP, lp'.root = docRoot [fcOpen c n (infoNodes x c n info)] ∧ lp'.panic = none ∧
      parseLines (blocksLP x) (fuel + 1) ((blocksLP x).new []) 0 (memBP buf (n + info.length + 1)) =
        parseLines (blocksLP x) fuel lp' (n + info.length + 1) (memBP buf (n + info.length + 1 + lineLen rest)) := by
  have hlenf := fenceLine_length c n info
  have htake : (memBP buf (n + info.length + 1)).buf.take (memBP buf (n + info.length + 1)).i = fenceLine c n info := by
    show buf.take (n + info.length + 1) = _
    rw [hbuf, List.take_left' hlenf]
  have hdrop : buf.drop (n + info.length + 1) = rest := by rw [hbuf, List.drop_left' hlenf]
  obtain ⟨h1, h2⟩ := line_open x c n info _ htake hc hn hi
  refine ⟨_, h1, h2, ?_⟩
  have hk : makeRoot (memBP buf (n + info.length + 1)) ((blocksLP x).kids ((blocksLP x).line ((blocksLP x).new [])
      ((memBP buf (n + info.length + 1)).buf.take (memBP buf (n + info.length + 1)).i) 0)) = none := by
    show makeRoot _ (LP.root _).blocks = none
    rw [h1, makeRoot_memBP_open]
  rw [parseLines_next (blocksLP x) h2 hk, readline_memBP buf _ (by rw [hbuf, List.length_append, hlenf]; omega), hdrop]
  rfl

/-! ### the content lines -/

/-- The content lines with their terminators. -/
def body (ls : List Bytes) : Bytes := (ls.map (· ++ [LF])).flatten

/-- One Text node per content line, each spanning the line and its terminator. -/
def textNodes (s : Nat) : List Bytes → List Tree
  | [] => []
  | l :: ls => textNode s (l.length + 1) :: textNodes (s + (l.length + 1)) ls

theorem body_cons (l : Bytes) (ls : List Bytes) : body (l :: ls) = l ++ LF :: body ls := by
  simp [body]

theorem body_length_cons (l : Bytes) (ls : List Bytes) : (body (l :: ls)).length = (l.length + 1) + (body ls).length := by
  rw [body_cons]; simp; omega

theorem parseLines_body (x : PExt) (c : UInt8) (n : Nat) (buf tail : Bytes) :
    ∀ (ls : List Bytes) (fuel : Nat) (lp : LP) (inl : List Tree) (s : Nat),
    lp.root = docRoot [fcOpen c n inl] → lp.panic = none → buf.drop s = body ls ++ tail →
    (∀ l ∈ ls, plainLine l = true ∧ lineClosing c n (l ++ [LF]) = false) →
    ∃ lp' : LP, lp'.root = docRoot [fcOpen c n (inl ++ textNodes s ls)] ∧ lp'.panic = none ∧
      parseLines (blocksLP x) (fuel + ls.length) lp s (memBP buf (s + lineLen (body ls ++ tail))) =
        parseLines (blocksLP x) fuel lp' (s + (body ls).length) (memBP buf (s + (body ls).length + lineLen tail)) := by
  intro ls
  induction ls with
  | nil =>
    intro fuel lp inl s hroot hpanic _ _
    exact ⟨lp, by simpa [textNodes] using hroot, hpanic, by simp [body]⟩
  | cons l ls ih =>
    intro fuel lp inl s hroot hpanic hbuf hls
    have hl := hls l List.mem_cons_self
    have hbuf' : buf.drop s = l ++ LF :: (body ls ++ tail) := by rw [hbuf, body_cons]; simp
    have hll : lineLen (body (l :: ls) ++ tail) = l.length + 1 := by
      rw [body_cons, List.append_assoc, List.cons_append]; exact lineLen_plain l _ hl.1
    obtain ⟨lp1, r1, p1, e1⟩ := parseLines_content x (fuel + ls.length) lp c n inl buf s l (body ls ++ tail) hroot hpanic hbuf' hl.2
    have hrest : buf.drop (s + (l.length + 1)) = body ls ++ tail := by
      rw [← List.drop_drop, hbuf', drop_line]
    obtain ⟨lp2, r2, p2, e2⟩ := ih fuel lp1 (inl ++ [textNode s (l.length + 1)]) (s + (l.length + 1)) r1 p1 hrest
      (fun l' hl' => hls l' (List.mem_cons_of_mem _ hl'))
    refine ⟨lp2, ?_, p2, ?_⟩
    · rw [r2]; simp [textNodes]
    · rw [hll]
      show parseLines (blocksLP x) (fuel + ls.length + 1) lp s _ = _
      rw [e1, e2, body_length_cons]
      simp only [Nat.add_assoc]
