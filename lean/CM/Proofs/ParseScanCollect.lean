import CM.Proofs.ParseScanRd
import CM.Proofs.BGCollect
import CM.Proofs.RefDefCoverCollect2
import CM.Proofs.RefDefCoverRd3
import CM.Proofs.InlSpanScan
/-
C02 / C04, inline halves, for the whole of `Parse` — **the pieces `collectTextNodes` cuts a span `[a, b)` into are a chain
inside `[a, b]`** (`collect_WFL`), for the inline children of a container as the block phase produces them (`RC2`: `RC`,
leaves, and every child that has a successor, Indent nodes excepted, ends with a line ending — so a backslash is never the
last byte of such a child).  With escapes, `b` must not cut a character reference (`RDC.StopOK`).

Unlike `RDC.collect_ok` (C03: coverage, for the lines of a paragraph) this also covers the content run of an ATX heading,
which does not end with a line ending; it only states the order of the pieces.  Fuel: `RDS.mu` (the number of successful
`next`s left) stays below the fuel — needed, because `skipNode` out of fuel would make the loop collect an Indent node twice.
-/
namespace CM.Proofs.PSc
open CM CM.Model CM.Gen CM.Proofs CM.Proofs.PS CM.Proofs.InlH
open CM.Proofs.BG (goFn)

/-- `RC`, and: leaves; a child with a successor that is not an Indent node ends with a line ending. -/
structure RC2 (src : Bytes) (L : List Tree) (N : Nat) : Prop extends RC src L N where
  leaf : ∀ t ∈ L, t.children = []
  lines : ∀ k t u rest, L.drop k = t :: u :: rest → isIndent t = false → EolEnd src t.label.stop

variable {src : Bytes} {L : List Tree} {N : Nat}

/-- the reader and the start of the pending plain text -/
structure CI (L : List Tree) (r : Rd) (ps : Nat) : Prop where
  st : Live L r ∨ r.spans = []
  le : ps ≤ r.pos
  pend : ps < r.pos → (ps : Int) ≤ r.prev + 1 ∧ r.prev + 1 ≤ (r.pos : Int)

theorem CI.here {r : Rd} (h : Live L r ∨ r.spans = []) : CI L r r.pos := ⟨h, Nat.le_refl _, fun hh => by omega⟩

/-- the pieces collected so far: a chain inside `[a, min ps b]` -/
def AccW (a b : Nat) (acc : List Tree) (ps : Nat) : Prop := WFL (a : Int) ((min ps b : Nat) : Int) acc

theorem AccW.mono {a b : Nat} {acc : List Tree} {ps ps' : Nat} (h : AccW a b acc ps) (hle : ps ≤ ps') : AccW a b acc ps' := by
  unfold AccW at *
  exact h.mono (Int.le_refl _) (by omega)

theorem WFT_mkInline (k : Nat) (s e : Int) (h : s ≤ e) : WFT (mkInline k s e) := WFT_leaf _ h

/-- append a leaf `[s, e)` with `ps ≤ s ≤ e ≤ b` -/
theorem AccW.snoc {a b : Nat} {acc : List Tree} {ps : Nat} (h : AccW a b acc ps) (t : Tree) (ht : WFT t) {e : Nat}
    (hs : (ps : Int) ≤ t.label.start) (he : t.label.stop = (e : Int)) (heb : e ≤ b) : AccW a b (acc ++ [t]) e := by
  unfold AccW at *
  rw [WFL_append]
  have hv := ((WFT_iff t).1 ht).1
  refine ⟨((min ps b : Nat) : Int), h, WFL_single (by omega) ht (by omega)⟩

theorem finish_WFL {a b : Nat} {acc : List Tree} {ps : Nat} (h : AccW a b acc ps) (k : Nat) :
    WFL (a : Int) (b : Int) (collectTextNodes.finish b k ps acc) := by
  unfold collectTextNodes.finish
  split
  · rename_i hlt
    have := h.snoc (mkInline k ps b) (WFT_mkInline _ _ _ (by omega)) (e := b) (Int.le_refl _) rfl (Nat.le_refl _)
    unfold AccW at this
    exact this.mono (Int.le_refl _) (by omega)
  · unfold AccW at h
    exact h.mono (Int.le_refl _) (by omega)

section
variable (ext : Ext) (src : Bytes) (L : List Tree) (a b k : Nat) (esc : Bool)

/-- The statement for one fuel value. -/
def CollectW (f : Nat) : Prop :=
  ∀ (r : Rd) (ps : Nat) (acc : List Tree), CI L r ps → RDS.mu src r < f → AccW a b acc ps →
    WFL (a : Int) (b : Int) (collectTextNodes ext src b k esc f r ps acc)

variable {ext src L a b k esc}
variable (hc : RC2 src L N)

include hc in
/-- The common tail of the loop body, for a reader that is not inside an Indent node. -/
theorem goFn_W (f : Nat) (ih : CollectW ext src L a b k esc f) (r : Rd) (ps : Nat) (acc : List Tree)
    (hp : CI L r ps) (hni : ∀ t rest, r.spans = t :: rest → isIndent t = false) (hmu : RDS.mu src r ≤ f)
    (hacc : AccW a b acc ps) : WFL (a : Int) (b : Int) (goFn ext src b k esc f r ps acc) := by
  unfold goFn
  split
  · exact finish_WFL hacc k
  · rename_i hlt
    have hlt' : r.pos < b := by omega
    rcases hp.st with hl | hd
    · have hn1 := (hl.next (src := src) hc.toRC)
      rcases hnx : r.next src with ⟨ok, r1⟩
      rw [hnx] at hn1
      simp only [] at hn1 ⊢
      split
      · exact finish_WFL hacc k
      · rename_i hok
        have hok' : ok = true := by simpa using hok
        subst hok'
        have hl1 : Live L r1 := hn1.2.1 rfl
        have hpv : r1.prev = (r.pos : Int) := hn1.1
        have hpos := hl.next_ok_pos (src := src) hc.toRC (by rw [hnx])
        rw [hnx] at hpos
        simp only [] at hpos
        obtain ⟨t, rest, hs, _⟩ := hl.2
        have hstrict : r.pos + 1 ≤ r1.pos := hpos.2.2 t rest hs (hni t rest hs)
        have hple := hp.le
        split
        · -- jumped
          refine ih r1 r1.pos _ (CI.here (Or.inl hl1)) (by omega) ?_
          split
          · have := hacc.snoc (mkInline k ps (r1.prev + 1)) (WFT_mkInline _ _ _ (by omega)) (e := r.pos + 1)
              (Int.le_refl _) (by show r1.prev + 1 = ((r.pos + 1 : Nat) : Int); omega) (by omega)
            exact this.mono hstrict
          · exact hacc.mono (by omega)
        · exact ih r1 ps acc ⟨Or.inl hl1, by omega, fun _ => ⟨by omega, by omega⟩⟩ (by omega) hacc
    · rw [dead_next hd]
      simp only [Bool.not_false, if_true]
      exact finish_WFL hacc k

include hc in
/-- A run of `next`s inside one node that is not an Indent node. -/
theorem foldl_next_in {t : Tree} {rest : List Tree} (hi : isIndent t = false) :
    ∀ (l : List Nat) (r : Rd), Live L r → r.spans = t :: rest → (r.pos : Int) + (l.length : Int) < t.label.stop →
      Live L (l.foldl (fun r _ => (r.next src).2) r) ∧ (l.foldl (fun r _ => (r.next src).2) r).spans = t :: rest ∧
      (l.foldl (fun r _ => (r.next src).2) r).pos = r.pos + l.length ∧
      RDS.mu src (l.foldl (fun r _ => (r.next src).2) r) ≤ RDS.mu src r := by
  intro l
  induction l with
  | nil => intro r h hs _; exact ⟨h, hs, rfl, Nat.le_refl _⟩
  | cons x l ih =>
    intro r h hs hlen
    simp only [List.length_cons] at hlen
    rw [List.foldl_cons]
    obtain ⟨t1, rest1, hs1, _, _, _, hcase⟩ := h.next_cases (src := src) hc.toRC
    rw [hs] at hs1; cases hs1
    have hmu := h.next_ok_pos (src := src) hc.toRC
    rcases hcase with ⟨hi', _, _⟩ | ⟨_, hlt, v, e⟩ | ⟨hst, _, _⟩ | ⟨hst, _⟩
    · exact absurd (hi'.symm.trans hi) (by decide)
    · have hl1 : Live L (r.next src).2 := (h.next hc.toRC).2.1 (by rw [e])
      have hm1 := (hmu (by rw [e])).2.1
      rw [e] at hl1 hm1 ⊢
      simp only [] at hl1 hm1 ⊢
      obtain ⟨b1, b2, b3, b4⟩ := ih _ hl1 hs (by show ((r.pos + 1 : Nat) : Int) + _ < _; omega)
      refine ⟨b1, b2, ?_, by omega⟩
      rw [b3]; simp only [List.length_cons]; omega
    · omega
    · omega

variable (hstop : esc = true → RDC.StopOK src L b)

include hc hstop in
/-- The part of the loop body after the Indent check. -/
theorem collectStep_W (f : Nat) (ih : CollectW ext src L a b k esc f) (cn : Tree) (r : Rd) (ps : Nat) (acc : List Tree)
    (hp : CI L r ps) (hlt : r.pos < b) (hmu : RDS.mu src r ≤ f) (hacc : AccW a b acc ps)
    (hcn : (∃ rest, r.spans = cn :: rest ∧ isIndent cn = false) ∨ (r.spans = [] ∧ isUnparsed cn = false)) :
    WFL (a : Int) (b : Int) (collectTextNodes.collectStep ext src b k esc cn r ps acc f) := by
  have hni : ∀ t rest, r.spans = t :: rest → isIndent t = false := by
    intro t rest hs
    rcases hcn with ⟨rest', hs', hi⟩ | ⟨hs', _⟩
    · rw [hs] at hs'; cases hs'; exact hi
    · rw [hs] at hs'; cases hs'
  have go := goFn_W hc f ih
  rw [collectTextNodes.collectStep.eq_1]
  split
  · rename_i hesc
    simp only [Bool.and_eq_true] at hesc
    obtain ⟨hesc', hun⟩ := hesc
    -- the reader is live, in the Unparsed node `cn`
    obtain ⟨rest, hs, hi⟩ : ∃ rest, r.spans = cn :: rest ∧ isIndent cn = false := by
      rcases hcn with h | ⟨_, h⟩
      · exact h
      · rw [hun] at h; cases h
    have hl : Live L r := by
      rcases hp.st with h | h
      · exact h
      · rw [hs] at h; cases h
    obtain ⟨t1, rest1, hs1, htm, hin1, hin2, hcur⟩ := (fun h => h) (hl.currentNode hc.toRC)
    rw [hs] at hs1; cases hs1
    have hcur' : r.current src = (liveByte src cn r, r) := by
      obtain ⟨t2, rest2, hs2, _, _, e⟩ := hl.current (src := src) hc.toRC
      rw [hs] at hs2; cases hs2; exact e
    have hbyte : liveByte src cn r = if src.getD r.pos 0 == 0 then nullReplacementString.getD r.vpos 0 else src.getD r.pos 0 := by
      unfold liveByte; rw [hi]; rfl
    rw [hcur']
    simp only []
    have hple := hp.le
    split
    · -- backslash
      rename_i hbs
      have hbs' : liveByte src cn r = 0x5C := by simpa using hbs
      have hsrc : src.getD r.pos 0 = 0x5C := by
        rw [hbyte] at hbs'
        split at hbs'
        · exfalso
          have : ∀ v : Nat, nullReplacementString.getD v 0 ≠ 0x5C := by
            intro v
            unfold nullReplacementString
            match v with
            | 0 => decide
            | 1 => decide
            | 2 => decide
            | (n + 3) => simp
          exact this _ hbs'
        · exact hbs'
      obtain ⟨t2, rest2, hs2, _, _, _, hcase⟩ := hl.next_cases (src := src) hc.toRC
      rw [hs] at hs2; cases hs2
      have hnx1 := hl.next (src := src) hc.toRC
      have hpos1 := hl.next_ok_pos (src := src) hc.toRC
      rcases hnx : r.next src with ⟨ok, r1⟩
      rw [hnx] at hnx1 hpos1
      simp only [] at hnx1 hpos1 ⊢
      have hpv : r1.prev = (r.pos : Int) := hnx1.1
      cases ok with
      | false =>
        -- the reader is dead
        have hd1 : r1.spans = [] := (hnx1.2.2 rfl).1
        have hp1 : r1.pos = r.pos + 1 := (hnx1.2.2 rfl).2.1
        simp only [Bool.false_eq_true, if_false, Bool.false_and]
        exact go r1 ps acc ⟨Or.inr hd1, by omega, fun _ => ⟨by omega, by omega⟩⟩
          (fun t rest' e => by rw [hd1] at e; cases e) (by rw [mu_dead hd1]; omega) hacc
      | true =>
        have hl1 : Live L r1 := hnx1.2.1 rfl
        have hstrict : r.pos + 1 ≤ r1.pos := (hpos1 rfl).2.2 cn rest hs hi
        have hm1 : RDS.mu src r1 < RDS.mu src r := (hpos1 rfl).2.1
        have hcs1 := hl1.current_snd (src := src) hc.toRC
        -- the next byte is in the same node (a backslash is not the last byte of a node with a successor)
        have hsame : r1.spans = cn :: rest := by
          rcases hcase with ⟨hi', _, _⟩ | ⟨_, _, v, e⟩ | ⟨_, _, e⟩ | ⟨hst, t', rest', hr, _, _, _, _, v, e⟩
          · exact absurd (hi'.symm.trans hi) (by decide)
          · rw [e] at hnx; simp only [Prod.mk.injEq, true_and] at hnx; rw [← hnx]; exact hs
          · rw [e] at hnx; simp only [Prod.mk.injEq] at hnx; cases hnx.1
          · exfalso
            obtain ⟨kk, hk⟩ := hl.1
            have hd : L.drop kk = cn :: t' :: rest' := by rw [← hk, hs, hr]
            obtain ⟨_, he⟩ := hc.lines kk cn t' rest' hd hi
            rcases he with he | he
            · omega
            · have e1 : cn.label.stop.toNat - 1 = r.pos := by omega
              rw [e1, hsrc] at he
              revert he; decide
        simp only [if_true, Bool.true_and]
        rw [show r1.current src = ((r1.current src).1, r1) from Prod.ext rfl hcs1]
        simp only []
        have hni1 : ∀ t rest', r1.spans = t :: rest' → isIndent t = false := by
          intro t rest' e; rw [hsame] at e; cases e; exact hi
        split
        · refine go r1 r1.pos _ (CI.here (Or.inl hl1)) hni1 (by omega) ?_
          split
          · rename_i hgt
            have := hacc.snoc (mkInline k ps r1.prev) (WFT_mkInline _ _ _ (by omega)) (e := r.pos)
              (Int.le_refl _) (by show r1.prev = ((r.pos : Nat) : Int); omega) (by omega)
            exact this.mono (by omega)
          · exact hacc.mono (by omega)
        · exact go r1 ps acc ⟨Or.inl hl1, by omega, fun _ => ⟨by omega, by omega⟩⟩ hni1 (by omega) hacc
    · split
      · -- ampersand
        have hrem : r.remainingNodeBytes src = ((src.drop r.pos).take (cn.label.stop.toNat - r.pos), r) := by
          unfold Rd.remainingNodeBytes
          rw [hcur]
        rw [hrem]
        simp only []
        split
        · rename_i e he
          obtain ⟨he2, hchars⟩ := RDC.parseCharacterEscape_chars ext _ e he
          have hb := hc.bound cn htm
          have hlen := hc.len
          have h0 := hc.nn cn htm
          have hel : (e : Int) ≤ cn.label.stop - r.pos := by
            have := charEsc_bound ext ((src.drop r.pos).take (cn.label.stop.toNat - r.pos))
            rw [he] at this
            simp only [List.length_take, List.length_drop, Int.ofNat_eq_natCast] at this
            omega
          -- the reference ends at or before `b`
          have heb : r.pos + e ≤ b := by
            apply Classical.byContradiction
            intro hgt
            have hbin := hstop hesc' cn htm hi (by omega) (by omega)
            have := hchars (b - r.pos) (by omega) (by omega)
            have e1 : ((src.drop r.pos).take (cn.label.stop.toNat - r.pos)).getD (b - r.pos) 0 = src.getD b 0 := by
              rw [List.getD_eq_getElem?_getD, List.getD_eq_getElem?_getD, List.getElem?_take, if_pos (by omega),
                List.getElem?_drop]
              congr 2; omega
            rw [e1, hbin] at this
            cases this
          have hacc2 : AccW a b ((if r.pos > ps then acc ++ [mkInline k ↑ps ↑r.pos] else acc) ++
              [mkInline IK.charRef (↑r.pos) (↑r.pos + ↑e)]) (r.pos + e) := by
            have h1 : AccW a b (if r.pos > ps then acc ++ [mkInline k ↑ps ↑r.pos] else acc) r.pos := by
              split
              · exact hacc.snoc (mkInline k ps r.pos) (WFT_mkInline _ _ _ (by omega)) (e := r.pos) (Int.le_refl _) rfl
                  (by omega)
              · exact hacc.mono hple
            exact h1.snoc (mkInline IK.charRef r.pos (r.pos + e)) (WFT_mkInline _ _ _ (by omega)) (e := r.pos + e)
              (Int.le_refl _) (by show (r.pos : Int) + e = ((r.pos + e : Nat) : Int); omega) heb
          obtain ⟨f1, f2, f3, f4⟩ := foldl_next_in (src := src) hc hi (List.range (e - 1)) r hl hs
            (by simp only [List.length_range]; omega)
          simp only [List.length_range] at f3
          generalize List.foldl (fun r x => (Rd.next src r).snd) r (List.range (e - 1)) = r3 at f1 f2 f3 f4
          have hnx3 := f1.next (src := src) hc.toRC
          have hpos3 := f1.next_ok_pos (src := src) hc.toRC
          rcases hnx : r3.next src with ⟨ok, r4⟩
          rw [hnx] at hnx3 hpos3
          simp only [] at hnx3 hpos3 ⊢
          split
          · exact finish_WFL hacc2 k
          · rename_i hok
            have hok' : ok = true := by simpa using hok
            subst hok'
            have hl4 : Live L r4 := hnx3.2.1 rfl
            have hpv : r4.prev = (r3.pos : Int) := hnx3.1
            have hst4 : r3.pos + 1 ≤ r4.pos := (hpos3 rfl).2.2 cn rest f2 hi
            have hm4 := (hpos3 rfl).2.1
            exact ih r4 (r.pos + e) _ ⟨Or.inl hl4, by omega, fun _ => ⟨by omega, by omega⟩⟩ (by omega) hacc2
        · exact go r ps acc hp hni hmu hacc
      · exact go r ps acc hp hni hmu hacc
  · exact go r ps acc hp hni hmu hacc

include hc in
/-- `skipNode` on an Indent node leaves the node: afterwards the reader is live in a later node, or dead. -/
theorem skipNode_W {t : Tree} (hi : isIndent t = true) :
    ∀ (f : Nat) (r : Rd) (rest : List Tree), Live L r → r.spans = t :: rest → RDS.mu src r ≤ f →
      (Live L (skipNode src t f r) ∨ (skipNode src t f r).spans = []) ∧ r.pos + 1 ≤ (skipNode src t f r).pos ∧
      RDS.mu src (skipNode src t f r) < RDS.mu src r := by
  intro f
  induction f with
  | zero =>
    intro r rest h hs hm
    have := h.mu_pos (src := src) hc.toRC
    omega
  | succ f ih =>
    intro r rest h hs hm
    obtain ⟨t1, rest1, hs1, htm, hin1, hin2, hcase⟩ := h.next_cases (src := src) hc.toRC
    rw [hs] at hs1; cases hs1
    have hst := hc.ind1 t htm hi
    have hpos := h.next_ok_pos (src := src) hc.toRC
    have hnx := h.next (src := src) hc.toRC
    rw [RDC.skipNode_succ]
    rcases hcase with ⟨_, _, e⟩ | ⟨hi', _, _⟩ | ⟨_, _, e⟩ | ⟨_, t', rest', hr, ht'm, hadj, h0, hne, v, e⟩
    · -- a column of the Indent node
      have hl1 : Live L (r.next src).2 := hnx.2.1 (by rw [e])
      have hm1 := (hpos (by rw [e])).2.1
      have hcn1 := (hl1.currentNode hc.toRC)
      rw [e] at hl1 hm1 hcn1 ⊢
      simp only [] at hl1 hm1 hcn1 ⊢
      obtain ⟨t2, rest2, hs2, _, _, _, hcn2⟩ := hcn1
      have hs2' : r.spans = t2 :: rest2 := hs2
      rw [hs] at hs2'; cases hs2'
      rw [hcn2]
      simp only [Option.map_some, if_true]
      rw [if_pos (by simp [RDC.label_beq_refl])]
      obtain ⟨g1, g2, g3⟩ := ih _ rest hl1 hs (by omega)
      exact ⟨g1, g2, by omega⟩
    · exact absurd (hi.symm.trans hi') (by decide)
    · rw [e]
      simp only [Bool.false_eq_true, if_false]
      refine ⟨Or.inr trivial, Nat.le_refl _, ?_⟩
      rw [mu_dead (src := src) rfl]
      exact h.mu_pos hc.toRC
    · have hl1 : Live L (r.next src).2 := hnx.2.1 (by rw [e])
      have hm1 := (hpos (by rw [e])).2.1
      have hcn1 := (hl1.currentNode hc.toRC)
      rw [e] at hl1 hm1 hcn1 ⊢
      simp only [] at hl1 hm1 hcn1 ⊢
      obtain ⟨t2, rest2, hs2, _, _, _, hcn2⟩ := hcn1
      have hs2' : t' :: rest' = t2 :: rest2 := hs2
      cases hs2'
      rw [hcn2]
      simp only [Option.map_some, if_true]
      have hne' : (some t'.label == some t.label) = false := by
        cases hq : (some t'.label == some t.label) with
        | false => rfl
        | true =>
          exfalso
          have : (t'.label == t.label) = true := by simpa using hq
          have := RDC.label_beq_start this
          omega
      rw [if_neg (by rw [hne']; decide)]
      exact ⟨Or.inl hl1, by show r.pos + 1 ≤ t'.label.start.toNat; omega, hm1⟩

include hc hstop in
theorem collect_W : ∀ f : Nat, CollectW ext src L a b k esc f := by
  intro f
  induction f with
  | zero => intro r ps acc _ hm _; omega
  | succ f ih =>
    intro r ps acc hp hm hacc
    rw [collectTextNodes.eq_2]
    split
    · exact finish_WFL hacc k
    · rename_i hlt
      have hlt' : r.pos < b := by simpa using hlt
      rcases hp.st with hl | hd
      · obtain ⟨t, rest, hs, htm, hin1, hin2, hcn⟩ := hl.currentNode hc.toRC
        rw [hcn]
        simp only []
        split
        · rename_i hind
          -- an Indent node: one byte
          have hst := hc.ind1 t htm hind
          have hple := hp.le
          have hacc1 : AccW a b (if r.pos > ps then acc ++ [mkInline k ↑ps (r.prev + 1)] else acc) r.pos := by
            split
            · rename_i hgt
              obtain ⟨q1, q2⟩ := hp.pend (by omega)
              have := hacc.snoc (mkInline k ps (r.prev + 1)) (WFT_mkInline _ _ _ q1) (e := (r.prev + 1).toNat)
                (Int.le_refl _) (by show r.prev + 1 = (((r.prev + 1).toNat : Nat) : Int); omega) (by omega)
              exact this.mono (by omega)
            · exact hacc.mono hple
          have htw : WFT t := by
            rw [WFT_iff, hc.leaf t htm, WFL_nil]
            exact ⟨hc.le t htm, hc.le t htm⟩
          have hacc2 := hacc1.snoc t htw (e := r.pos + 1) (by omega) (by omega) (by omega)
          obtain ⟨g1, g2, g3⟩ := skipNode_W (src := src) hc hind f r rest hl hs (by omega)
          exact ih _ _ _ (CI.here g1) (by omega) (hacc2.mono g2)
        · rename_i hind
          exact collectStep_W hc hstop f ih t r ps acc hp hlt' (by omega) hacc
            (Or.inl ⟨rest, hs, by simpa using hind⟩)
      · rw [dead_currentNode hd]
        simp only []
        exact collectStep_W hc hstop f ih _ r ps acc hp hlt' (by omega) hacc (Or.inr ⟨hd, rfl⟩)

end

theorem rdFuel_drop_le (src : Bytes) (L : List Tree) (u : Nat) : rdFuel src (L.drop u) ≤ rdFuel src L := by
  unfold rdFuel
  have : ((L.drop u).map (fun t => t.label.indent.toNat + 1)).sum ≤ (L.map (fun t => t.label.indent.toNat + 1)).sum := by
    have e : L = L.take u ++ L.drop u := (List.take_append_drop u L).symm
    conv => rhs; rw [e]
    rw [List.map_append, List.sum_append]
    omega
  omega

/-- **The pieces of `[a, b)` are a chain inside `[a, b]`**, for a fresh reader at `a` over the children (any fuel that is at
    least `rdFuel src L`). -/
theorem collect_WFL (hc : RC2 src L N) (ext : Ext) (a b k : Nat) (esc : Bool) (f : Nat) (hf : rdFuel src L ≤ f)
    (hstop : esc = true → RDC.StopOK src L b) (hab : a ≤ b) :
    WFL (a : Int) (b : Int) (collectTextNodes ext src b k esc f (newReader L a) a []) := by
  rw [RDC.collect_congr]
  have hnr : newReader L a = newReader (L.drop 0) a := by simp
  obtain ⟨h1, _, _, hst⟩ := newReader_cn (L := L) 0 a
  rw [← hnr] at h1 hst
  have hacc : AccW a b [] a := by
    unfold AccW; rw [WFL_nil]; omega
  generalize (newReader L a).currentNode.2 = r at h1 hst
  have hci : CI L r a := by
    refine ⟨hst.imp id (fun h => h.1), by omega, fun h => by omega⟩
  have hmu : RDS.mu src r < f := by
    rcases hst with h | h
    · have := h.mu_lt_fuel (src := src); omega
    · rw [mu_dead h.1]
      obtain ⟨f', hf'⟩ := CM.Proofs.rdFuel_pos src L
      omega
  exact collect_W hc hstop f r a [] hci hmu hacc

/-- an empty range gives no piece -/
theorem collect_nil (ext : Ext) (src : Bytes) (a b k : Nat) (esc : Bool) (f : Nat) (r : Rd) (hr : r.pos = a) (hab : b ≤ a) :
    collectTextNodes ext src b k esc f r a [] = [] := by
  cases f with
  | zero => rw [collectTextNodes.eq_1]
  | succ f =>
    rw [collectTextNodes.eq_2, if_pos (by simp; omega), if_neg (by omega)]

end CM.Proofs.PSc
