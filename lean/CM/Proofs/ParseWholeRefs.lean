import CM.Proofs.ParseWholeStream
import CM.Proofs.ParseWholeShape
import CM.Proofs.RefKeysRewrite
/-
Whole-`Parse` theorems, part 7: **the references of block-phase trees are keys of the reference map.**

* `ref_mem_defs`: in a block-phase tree that obeys the node grammar and whose inline children are `Good`, an inline node
  with a non-empty `ref` is the LinkLabel of a link reference definition, and `(ref, d)` is one of the definitions
  `defsNode` reads off the tree;
* `blockphase_refs_are_labels`: for every root the block phase of `Parse` delivers;
* `blockphase_defs_are_keys`: hence `ref` is a key of the map `Parse` returns (`extractAll` inserts the definition unless
  the key is already present; it refuses only the empty key).
-/
namespace CM.Proofs.PW
open CM CM.Model CM.Gen CM.Spec
open CM.Proofs.BT CM.Proofs.BG CM.Proofs.RK

theorem mem_defsForest_of_mem {ext : Ext} {src : Bytes} {p : Bytes × LinkDef} : ∀ {cs : List Tree} {c : Tree},
    c ∈ cs → p ∈ defsNode ext src c → p ∈ defsForest ext src cs := by
  intro cs
  induction cs with
  | nil => intro c h; cases h
  | cons d rest ih =>
    intro c h hp
    rw [defsForest, List.mem_append]
    rcases List.mem_cons.1 h with rfl | h
    · exact Or.inl hp
    · exact Or.inr (ih h hp)

theorem kind_of_inl {K : List Nat} {t : Tree} (h : inl K t = true) : t.label.kind ∈ K := by
  unfold inl at h
  simp only [Bool.and_eq_true, List.contains_iff_mem] at h
  exact h.1.2

/-- Under the local grammar rule, an inline child of kind LinkLabel is the first child of a link reference
    definition. -/
theorem label_first {l : PLabel} {is : List Tree} (hi : inlinesOK l is = true) {t : Tree} (ht : t ∈ is)
    (hk : t.label.kind = IK.linkLabel) : l.kind = BK.linkRefDef ∧ ∃ b rest, is = t :: b :: rest := by
  have no : ∀ K : List Nat, IK.linkLabel ∉ K → inl K t = true → False := by
    intro K hK h
    exact hK (hk ▸ kind_of_inl h)
  rcases inlinesOK_cases hi with ⟨_, h0⟩ | ⟨_, hp⟩ | ⟨_, hc⟩ | ⟨_, hf⟩ | ⟨_, hh⟩ | ⟨hlk, hr⟩
  · subst h0; cases ht
  · exact (no paraKinds (by decide) (List.all_eq_true.1 hp t ht)).elim
  · exact (no codeKinds (by decide) (List.all_eq_true.1 hc t ht)).elim
  · cases is with
    | nil => cases ht
    | cons c rest =>
      simp only [fencedKids, Bool.and_eq_true, Bool.or_eq_true] at hf
      rcases List.mem_cons.1 ht with rfl | ht
      · rcases hf.1 with hinfo | hcode
        · unfold infoOK at hinfo
          simp only [Bool.and_eq_true, beq_iff_eq] at hinfo
          rw [hk] at hinfo
          exact absurd hinfo.1.2 (by decide)
        · exact (no codeKinds (by decide) hcode).elim
      · exact (no codeKinds (by decide) (List.all_eq_true.1 hf.2 t ht)).elim
  · exact (no htmlKinds (by decide) (List.all_eq_true.1 hh t ht)).elim
  · obtain ⟨a, b, rest, rfl, ha, hb, hrest⟩ := refDefKids_cases hr
    refine ⟨hlk, ?_⟩
    rcases List.mem_cons.1 ht with rfl | ht
    · exact ⟨b, rest, rfl⟩
    · rcases List.mem_cons.1 ht with rfl | ht
      · have := (isInl_nonblock hb).2
        rw [hk] at this; exact absurd this (by decide)
      · have := (isInl_nonblock (hrest t ht)).2
        rw [hk] at this; exact absurd this (by decide)

/-- **In a grammatical block-phase tree with `Good` inline children, an inline node with a non-empty `ref` is the
    LinkLabel of a link reference definition, and its `ref` is the key of one of the tree's definitions.** -/
theorem ref_mem_defs (ext : Ext) (src S : Bytes) : ∀ b : PB, PBGrammar b → PBI (Good S) b →
    ∀ u ∈ T.nodes (pbToTree b), u.label.isBlock = false → u.label.ref ≠ [] →
      u.label.kind = IK.linkLabel ∧ ∃ d, (u.label.ref, d) ∈ defsNode ext src (pbToTree b) := by
  apply PB.ind
  intro l bs is ih hg hgood u hu hub hur
  obtain ⟨hloc, hkids⟩ := (PBGrammar_mk l bs is).1 hg
  obtain ⟨hb, hi⟩ := (localOK_iff l bs is).1 hloc
  obtain ⟨hgis, hgbs⟩ := (PBI_mk l bs is).1 hgood
  have hch := pbToTree_children l bs is
  have hlab : (pbToTree (.mk l bs is)).label.isBlock = true ∧ (pbToTree (.mk l bs is)).label.kind = l.kind := ⟨rfl, rfl⟩
  generalize pbToTree (.mk l bs is) = T at hu hch hlab ⊢
  obtain ⟨L, cs⟩ := T
  have hL1 : L.isBlock = true := hlab.1
  have hL2 : L.kind = l.kind := hlab.2
  have hcs : cs = if bs.isEmpty then is else bs.map pbToTree := hch
  rw [T.nodes, List.mem_cons] at hu
  rcases hu with rfl | hu
  · rw [show (Tree.node L cs).label.isBlock = L.isBlock from rfl, hL1] at hub; cases hub
  · obtain ⟨c, hc, huc⟩ := InlH.mem_nodesL hu
    by_cases hbe : bs.isEmpty = true
    · rw [if_pos hbe] at hcs
      subst hcs
      have hgc := hgis c hc
      rw [InlH.nodes_eq, List.mem_cons] at huc
      rcases huc with rfl | huc
      · have hk := (hgc.1.1 hur).2
        obtain ⟨hlk, b', rest, his⟩ := label_first hi hc hk
        refine ⟨hk, ?_⟩
        subst his
        have hisI : isInl IK.linkLabel u = true := by
          unfold isInl
          rw [hub, hk]; rfl
        obtain ⟨d, e⟩ : ∃ d, defsNode ext src (Tree.node L (u :: b' :: rest)) = [(Node.linkReference u, d)] := by
          constructor
          simp only [defsNode, hL1, Bool.not_true, Bool.false_eq_true, if_false, hL2, hlk, beq_self_eq_true, if_true]
          rfl
        rw [e, ← linkReference_label hisI]
        exact ⟨_, List.mem_singleton.2 rfl⟩
      · exact absurd ((hgc.2.1 u huc).1 hur).1 (by decide)
    · rw [if_neg hbe] at hcs
      subst hcs
      rw [List.mem_map] at hc
      obtain ⟨b', hb', rfl⟩ := hc
      obtain ⟨hk, d, hd⟩ := ih b' hb' (hkids b' hb') (hgbs b' hb') u huc hub hur
      refine ⟨hk, d, ?_⟩
      have hlk : l.kind ≠ BK.linkRefDef := by
        intro hlk
        have := refdef_no_blocks hlk hb
        subst this
        exact hbe rfl
      have hk' : (l.kind == BK.linkRefDef) = false := by simpa using hlk
      simp only [defsNode, hL1, Bool.not_true, Bool.false_eq_true, if_false, hL2, hk']
      exact mem_defsForest_of_mem (List.mem_map_of_mem hb') hd

/-- A key defined by some root is a key of the map. -/
theorem lookup_of_defined (x : PExt) (ix : IExt) (inp : Bytes) (pr : ParsedRoot) (hpr : pr ∈ (parseDoc x ix inp).roots)
    (k : Bytes) (d : LinkDef) (hk : k ≠ []) (hd : (k, d) ∈ defsNode x.ext pr.root.source (pbToTree pr.root.block)) :
    ((parseDoc x ix inp).refs.lookup k).isSome = true := by
  have hke : k.isEmpty = false := by
    cases k with
    | nil => exact absurd rfl hk
    | cons a b => rfl
  rw [parse_lookup_first x ix inp k hke, Option.isSome_map, List.find?_isSome]
  refine ⟨(k, d), ?_, by simp⟩
  rw [List.mem_flatMap]
  exact ⟨pr, hpr, hd⟩

theorem root_mem_drain (x : PExt) (ix : IExt) (inp : Bytes) (pr : ParsedRoot) (hpr : pr ∈ (parseDoc x ix inp).roots) :
    pr.root ∈ (drain (blocksLP x) (inp.length + 8) (memParser inp) []).1 := by
  rw [← parseDoc_roots x ix inp]
  exact List.mem_map_of_mem hpr

/-- **Non-empty references in block-phase trees are exactly the LinkLabel nodes of link reference definitions** — for
    every root delivered by the block phase of `Parse` (any fuel). -/
theorem blockphase_refs_are_labels (x : PExt) (fuel : Nat) (inp : Bytes) :
    ∀ r ∈ (drain (blocksLP x) fuel (memParser inp) []).1,
      ∀ u ∈ T.nodes (pbToTree r.block), u.label.isBlock = false → u.label.ref ≠ [] →
        u.label.kind = IK.linkLabel ∧ ∃ d, (u.label.ref, d) ∈ defsNode x.ext r.source (pbToTree r.block) := by
  intro r hr
  obtain ⟨S, _, hgood⟩ := drain_good_mem x fuel inp r hr
  exact ref_mem_defs x.ext r.source S r.block (drain_grammar_mem x fuel inp r hr).1 hgood

/-- **3. Every non-empty `ref` attribute of an inline node in a block-phase tree of `Parse` is a key of the reference
    map `Parse` returns.** -/
theorem blockphase_defs_are_keys (x : PExt) (ix : IExt) (inp : Bytes) :
    ∀ pr ∈ (parseDoc x ix inp).roots, ∀ u ∈ T.nodes (pbToTree pr.root.block), u.label.isBlock = false →
      u.label.ref ≠ [] → ((parseDoc x ix inp).refs.lookup u.label.ref).isSome = true := by
  intro pr hpr u hu hub hur
  obtain ⟨_, d, hd⟩ := blockphase_refs_are_labels x _ inp pr.root (root_mem_drain x ix inp pr hpr) u hu hub hur
  exact lookup_of_defined x ix inp pr hpr _ d hur hd

/-- The same, stated over the roots the block phase delivers (with `Parse`'s fuel). -/
theorem blockphase_defs_are_keys' (x : PExt) (ix : IExt) (inp : Bytes) :
    ∀ r ∈ (drain (blocksLP x) (inp.length + 8) (memParser inp) []).1,
      ∀ u ∈ T.nodes (pbToTree r.block), u.label.isBlock = false → u.label.ref ≠ [] →
        ((parseDoc x ix inp).refs.lookup u.label.ref).isSome = true := by
  intro r hr u hu hub hur
  rw [← parseDoc_roots x ix inp, List.mem_map] at hr
  obtain ⟨pr, hpr, rfl⟩ := hr
  exact blockphase_defs_are_keys x ix inp pr hpr u hu hub hur

/-- In the form the inline-phase theorem `InlH.rewriteE_refs` asks for (`matchRef` as `parseDoc` builds it, every kind
    selector `K`). -/
theorem blockphase_refOK (x : PExt) (ix : IExt) (inp : Bytes) (K : Nat → Prop) :
    ∀ pr ∈ (parseDoc x ix inp).roots, ∀ u ∈ T.nodes (pbToTree pr.root.block),
      InlH.RefOK (fun k => ((parseDoc x ix inp).refs.lookup k).isSome) K u :=
  fun pr hpr u hu hub _ hur => blockphase_defs_are_keys x ix inp pr hpr u hu hub hur

/-! ### Non-vacuity -/

section Examples

/-- Two definitions (no titles: `decide +kernel` does not evaluate `collectTextNodes`), the second with the key of the
    first, and a paragraph. -/
def pwRefDoc : Bytes := Bytes.ofString "[Foo]: /a\n[foo]: /b\n\n[foo] x\n"

-- three roots, the LinkLabel nodes of the two definitions carry the (same, folded) key `foo`
example : (parseDoc exX exIX pwRefDoc).roots.map (fun pr => pr.root.block.inlines.map (fun t => (t.label.kind, t.label.ref)))
    = [[(IK.linkLabel, [0x66, 0x6F, 0x6F]), (IK.linkDest, [])], [(IK.linkLabel, [0x66, 0x6F, 0x6F]), (IK.linkDest, [])],
       [(IK.unparsed, [])]] := by decide +kernel

-- the map has one entry (first definition wins), and the key is found
example : (parseDoc exX exIX pwRefDoc).refs.map (·.1) = [[0x66, 0x6F, 0x6F]] := by decide +kernel
example : ((parseDoc exX exIX pwRefDoc).refs.lookup [0x66, 0x6F, 0x6F]).isSome = true := by decide +kernel

end Examples

end CM.Proofs.PW
