import CM.Proofs.InlNpEmph
/-
C04, inline half — the tokenizer's leaf operations do not panic.
-/
namespace CM.Proofs.InlH
open CM CM.Model CM.Model.Inl CM.Gen
open Std.Do

set_option mvcgen.warning false

/-- a precondition may be strengthened -/
theorem np_pre {α} {P P' : IState → Prop} {m : IM α} {Q : α → IState → Prop}
    (h : ⦃fun s => ⌜P' s⌝⦄ m ⦃⇓! r s => ⌜Q r s⌝⦄) (hp : ∀ s, P s → P' s) :
    ⦃fun s => ⌜P s⌝⦄ m ⦃⇓! r s => ⌜Q r s⌝⦄ := by
  apply (triple_iff_postNP _ _ _).2
  intro s hs
  exact (triple_iff_postNP _ _ _).1 h s (hp s hs)

theorem addLeaf_np0 (kind : Nat) (a e : Int) : ⦃fun _ => ⌜True⌝⦄ addLeaf kind a e ⦃⇓! _ _ => ⌜True⌝⦄ := by
  mvcgen [addLeaf, alloc, addToRoot, nodeLen, getNode, setParent, modifyNode, -addLeaf_spec, -addLeaf_specS,
    -addLeaf_specP, -addToRoot_spec, -addToRoot_specS]

@[spec 30000]
theorem addLeaf_np (L : Lims) (kind : Nat) (a e : Int) (s0 : IState) :
    ⦃fun s => ⌜s = s0 ∧ SPT L.lo L.hi a s ∧ e ≤ L.hi⌝⦄ addLeaf kind a e
    ⦃⇓! _ s => ⌜SPT L.lo L.hi (max a e) s ∧ s.unparsedPos = s0.unparsedPos ∧ s.ignoreNextIndent = s0.ignoreNextIndent⌝⦄ :=
  np_of_post (np_pre (addLeaf_np0 kind a e) (fun _ _ => trivial)) (addLeaf_specP L kind a e s0)

theorem importNode_np0 (t : Tree) : ⦃fun _ => ⌜True⌝⦄ importNode t ⦃⇓! _ _ => ⌜True⌝⦄ := by
  mvcgen [importNode, alloc, modifyNode, -importNode_spec, -importNode_specS, -importNode_specP]

@[spec 30000]
theorem importNode_np (L : Lims) (t : Tree) (s0 : IState) :
    ⦃fun s => ⌜s = s0 ∧ SPT L.lo L.hi t.label.start s ∧ t.label.start ≤ t.label.stop ∧ t.label.stop ≤ L.hi ∧
        WFL t.label.start t.label.stop t.children⌝⦄ importNode t
    ⦃⇓! _ s => ⌜SPT L.lo L.hi t.label.stop s ∧ s.unparsedPos = s0.unparsedPos ∧
        s.ignoreNextIndent = s0.ignoreNextIndent⌝⦄ :=
  np_of_post (np_pre (importNode_np0 t) (fun _ _ => trivial)) (importNode_specP L t s0)

theorem parseDelimiterRun_np0 (c : ICtx) (start : Int) (s0 : IState) :
    ⦃fun s => ⌜s = s0 ∧ 0 ≤ start ∧ start < spanEndOf c s0 ∧ spanEndOf c s0 ≤ c.srcA.size⌝⦄
    parseDelimiterRun c start ⦃⇓! _ _ => ⌜True⌝⦄ := by
  mvcgen [parseDelimiterRun, spanEnd, alloc, addToRoot, nodeLen, getNode, setParent, modifyNode, pushStack,
    -parseDelimiterRun_spec, -parseDelimiterRun_specS, -parseDelimiterRun_specP, -addToRoot_spec, -addToRoot_specS]
  case inv1 =>
    exact PostCond.np (fun (q : _ × Int) s => ⌜s = s0 ∧ start + 1 ≤ q.2⌝)
  np_norm
  all_goals (try (exact fun h => h))
  all_goals (try (exact ExceptConds.entails.refl _))
  all_goals sp_norm
  all_goals (first
    | (refine ⟨trivial, ?_, ?_⟩ <;>
        first | omega | (simp only [Bool.not_eq_true', decide_eq_false_iff_not, Int.not_lt] at *; omega))
    | (refine ⟨trivial, ?_⟩ <;>
        first | omega | (simp only [Bool.not_eq_true', decide_eq_false_iff_not, Int.not_lt] at *; omega))
    | (refine ⟨rfl, ?_⟩ <;>
        first | omega | (simp only [Bool.not_eq_true', decide_eq_false_iff_not, Int.not_lt] at *; omega)))

@[spec 30000]
theorem parseDelimiterRun_np (L : Lims) (c : ICtx) (hA : L.hi ≤ c.srcA.size) (start : Int) (s0 : IState) :
    ⦃fun s => ⌜s = s0 ∧ SPT L.lo L.hi start s ∧ start < spanEndOf c s0 ∧ spanEndOf c s0 ≤ L.hi⌝⦄
    parseDelimiterRun c start
    ⦃⇓! r s => ⌜SPT L.lo L.hi r s ∧ start < r ∧ r ≤ spanEndOf c s0 ∧ s.unparsedPos = s0.unparsedPos ∧
        s.ignoreNextIndent = s0.ignoreNextIndent⌝⦄ :=
  np_of_post (np_pre (parseDelimiterRun_np0 c start s0) (fun s h => by
      obtain ⟨h1, h2, h3, h4⟩ := h
      have := h2.lo_le; have := L.nn
      exact ⟨h1, by omega, h3, by omega⟩))
    (parseDelimiterRun_specP L c start s0)

theorem parseBackslash_np0 (c : ICtx) (start : Int) (s0 : IState) :
    ⦃fun s => ⌜s = s0 ∧ 0 ≤ start ∧ start < spanEndOf c s0 ∧ spanEndOf c s0 ≤ c.srcA.size⌝⦄
    parseBackslash c start ⦃⇓! _ _ => ⌜True⌝⦄ := by
  mvcgen [parseBackslash, spanEnd, isLastSpan, setIgnoreNextIndent, addLeaf_np0, -parseBackslash_spec,
    -parseBackslash_specS, -parseBackslash_specP, -addLeaf_np, -addLeaf_specP, -addLeaf_spec, -addLeaf_specS]
  np_norm
  all_goals (try (exact fun h => h))
  all_goals (try (exact ExceptConds.entails.refl _))
  all_goals sp_norm
  all_goals (first
    | (refine ⟨trivial, ?_, ?_⟩ <;> omega)
    | (refine ⟨trivial, fun hlt => ?_⟩
       constructor <;> omega))

@[spec 30000]
theorem parseBackslash_np (L : Lims) (c : ICtx) (hA : L.hi ≤ c.srcA.size) (start : Int) (s0 : IState) :
    ⦃fun s => ⌜s = s0 ∧ SPT L.lo L.hi start s ∧ start < spanEndOf c s0 ∧ spanEndOf c s0 ≤ L.hi⌝⦄ parseBackslash c start
    ⦃⇓! r s => ⌜SPT L.lo L.hi r s ∧ start < r ∧ r ≤ spanEndOf c s0 ∧ s.unparsedPos = s0.unparsedPos⌝⦄ :=
  np_of_post (np_pre (parseBackslash_np0 c start s0) (fun s h => by
      obtain ⟨h1, h2, h3, h4⟩ := h
      have := h2.lo_le; have := L.nn
      exact ⟨h1, by omega, h3, by omega⟩))
    (parseBackslash_specP L c start s0)

end CM.Proofs.InlH
