import CM.Proofs.ShapesTrail
import CM.Proofs.BlocksSpansStream
/-
C13, block half — the source: `Sh` is stable when the source grows by a line (`Grow`), and under the re-basing of
left-over blocks (`offsetPB` on the tree, `drop` on the source).
-/
namespace CM.Proofs.Shp
open CM CM.Model CM.Gen

/-! ### runs -/

theorem runAt_iff {src : Bytes} {s n : Nat} {ch : UInt8} :
    runAt src s n ch = true ↔ (src.drop s).take n = List.replicate n ch := by
  unfold runAt; exact beq_iff_eq

theorem runAt_len {src : Bytes} {s n : Nat} {ch : UInt8} (hn : 0 < n) (h : runAt src s n ch = true) : s + n ≤ src.length := by
  rw [runAt_iff] at h
  have := congrArg List.length h
  simp only [List.length_take, List.length_drop, List.length_replicate] at this
  omega

theorem runAt_get {src : Bytes} {s n : Nat} {ch : UInt8} (h : runAt src s n ch = true) (j : Nat) (hj : j < n) :
    src[s + j]? = some ch := by
  rw [runAt_iff] at h
  have : ((src.drop s).take n)[j]? = (List.replicate n ch)[j]? := by rw [h]
  rw [List.getElem?_take_of_lt hj, List.getElem?_drop, List.getElem?_replicate] at this
  simpa [hj] using this

theorem runAt_append {src more : Bytes} {s n : Nat} {ch : UInt8} (h : runAt src s n ch = true) :
    runAt (src ++ more) s n ch = true := by
  rcases Nat.eq_zero_or_pos n with rfl | hn
  · rw [runAt_iff]; simp
  have hl := runAt_len hn h
  rw [runAt_iff] at h ⊢
  rw [List.drop_append_of_le_length (by omega), List.take_append_of_le_length (by simp; omega)]
  exact h

/-! ### growing the source -/

/-- The source grows by `more`: the old source is empty or ends with a line ending, unless nothing is added. -/
def Grow (src more : Bytes) : Prop := more = [] ∨ src = [] ∨ ∃ c, src.getLast? = some c ∧ (c = LF ∨ c = CR)

theorem getLast?_eq_getElem? (l : Bytes) : l.getLast? = l[l.length - 1]? := by
  rw [List.getLast?_eq_getElem?]

theorem runOK_append {src more : Bytes} {e : Int} {l : PLabel} {ch : UInt8} (hg : Grow src more) (hn : 1 ≤ l.n)
    (hch : ch ≠ LF ∧ ch ≠ CR) (h : runOK src e l ch = true) : runOK (src ++ more) e l ch = true := by
  unfold runOK at h ⊢
  simp only [Bool.and_eq_true, decide_eq_true_eq] at h ⊢
  obtain ⟨⟨⟨⟨h1, h2⟩, h3⟩, h4⟩, h5⟩ := h
  refine ⟨⟨⟨⟨h1, h2⟩, runAt_append h3⟩, h4⟩, ?_⟩
  have hl := runAt_len (by omega) h3
  by_cases ho : l.stop < 0
  · rw [if_pos ho] at h5 ⊢
    by_cases hlt : l.start.toNat + l.n.toNat < src.length
    · rw [List.getElem?_append_left hlt]; exact h5
    · -- the run ends at the end of the old source: nothing is added
      have heq : l.start.toNat + l.n.toNat = src.length := by omega
      have hn' : 1 ≤ l.n.toNat := by omega
      have hlast := runAt_get h3 (l.n.toNat - 1) (by omega)
      have hidx : l.start.toNat + (l.n.toNat - 1) = src.length - 1 := by omega
      rw [hidx, ← getLast?_eq_getElem?] at hlast
      rcases hg with rfl | rfl | ⟨c, hc, hcc⟩
      · rw [List.append_nil]; exact h5
      · simp at heq; omega
      · rw [hlast] at hc
        simp only [Option.some.injEq] at hc
        subst hc
        rcases hcc with hcc | hcc
        · exact absurd hcc hch.1
        · exact absurd hcc hch.2
  · rw [if_neg ho] at h5 ⊢
    simp only [Bool.or_eq_true, beq_iff_eq] at h5 ⊢
    rcases h5 with h5 | h5
    · exact Or.inl h5
    · right
      cases hs : src[l.start.toNat + l.n.toNat]? with
      | none => rw [hs] at h5; cases h5
      | some c =>
        rw [hs] at h5
        have hlt : l.start.toNat + l.n.toNat < src.length := by
          rcases Nat.lt_or_ge (l.start.toNat + l.n.toNat) src.length with h' | h'
          · exact h'
          · rw [List.getElem?_eq_none h'] at hs; cases hs
        rw [List.getElem?_append_left hlt, hs]
        exact h5

theorem sliceI_append {src more : Bytes} {a b : Int} (ha : 0 ≤ a) (hab : a ≤ b) (hb : b ≤ src.length) :
    sliceI (src ++ more) a b = sliceI src a b := by
  unfold sliceI
  rw [List.drop_append_of_le_length (by omega), List.take_append_of_le_length (by simp; omega)]

theorem closedIn_iff {src : Bytes} {l : PLabel} : closedIn src l = true ↔ 0 ≤ l.start ∧ l.start ≤ l.stop ∧ l.stop ≤ src.length := by
  unfold closedIn
  simp only [Bool.and_eq_true, decide_eq_true_eq, and_assoc]

theorem shapeOK_append {setx : Bool} {src more : Bytes} {e : Int} {l : PLabel}
    (hg : Grow src more) (h : shapeOK setx src e l = true) : shapeOK setx (src ++ more) e l = true := by
  unfold shapeOK at h ⊢
  split
  · rename_i hk; rw [if_pos hk] at h
    simp only [Bool.and_eq_true, decide_eq_true_eq, beq_iff_eq] at h ⊢
    refine ⟨⟨h.1.1, ?_⟩, h.2⟩
    have hlt : l.start.toNat < src.length := by
      rcases Nat.lt_or_ge l.start.toNat src.length with h' | h'
      · exact h'
      · have := h.1.2; rw [List.getElem?_eq_none h'] at this; cases this
    rw [List.getElem?_append_left hlt]; exact h.1.2
  · rename_i hk1; rw [if_neg hk1] at h
    split
    · rename_i hk; rw [if_pos hk] at h
      simp only [Bool.and_eq_true, decide_eq_true_eq] at h ⊢
      exact ⟨h.1, runOK_append hg h.1 (by decide) h.2⟩
    · rename_i hk2; rw [if_neg hk2] at h
      split
      · rename_i hk; rw [if_pos hk] at h
        simp only [Bool.and_eq_true, decide_eq_true_eq, Bool.or_eq_true, beq_iff_eq] at h ⊢
        refine ⟨h.1, runOK_append hg (by omega) ?_ h.2⟩
        rcases h.1.2 with hc | hc <;> rw [hc] <;> decide
      · rename_i hk3; rw [if_neg hk3] at h
        split
        · rename_i hk; rw [if_pos hk] at h
          simp only [Bool.and_eq_true] at h ⊢
          have hc := closedIn_iff.mp h.1
          refine ⟨closedIn_iff.mpr ⟨hc.1, hc.2.1, by simp; omega⟩, ?_⟩
          rw [sliceI_append hc.1 hc.2.1 hc.2.2]; exact h.2
        · rename_i hk4; rw [if_neg hk4] at h
          split
          · rename_i hk; rw [if_pos hk] at h
            simp only [Bool.or_eq_true, Bool.not_eq_true', Bool.and_eq_true] at h ⊢
            rcases h with h | h
            · exact Or.inl h
            · right; exact setextOK_append h
          · rfl

theorem anchor_append {setx : Bool} {src more : Bytes} {e : Int} {l : PLabel} (h : shapeOK setx src e l = true) :
    anchor setx (src ++ more) l = anchor setx src l := by
  unfold anchor
  split
  · rename_i hc
    simp only [Bool.and_eq_true, beq_iff_eq] at hc
    obtain ⟨rfl, hk⟩ := hc
    have := setextOK_iff.mp (shapeOK_setext hk h)
    rw [bodyLen_append this.2.1]
  · rfl

theorem kindOK_append {setx : Bool} {src more : Bytes} {lo e : Int} {l : PLabel} {leaf : Bool} {is : List Tree}
    (hg : Grow src more) (h : kindOK setx src lo e l leaf is = true) : kindOK setx (src ++ more) lo e l leaf is = true := by
  rw [kindOK_iff] at h ⊢
  exact ⟨shapeOK_append hg h.1, h.2.1, h.2.2⟩

theorem nodeOK_append {setx : Bool} {src more : Bytes} {lo e : Int} {l : PLabel} {leaf : Bool} {is : List Tree}
    (hg : Grow src more) (h : nodeOK setx src lo e l leaf is = true) : nodeOK setx (src ++ more) lo e l leaf is = true := by
  rw [nodeOK_iff] at h ⊢
  refine ⟨h.1, h.2.1, ?_, kindOK_append hg h.2.2.2⟩
  rw [anchor_append (kindOK_iff.mp h.2.2.2).1]
  exact h.2.2.1

/-- **`Sh` is stable when the source grows by a line.** -/
theorem Sh_append' {setx : Bool} {src more : Bytes} (hg : Grow src more) : ∀ (b : PB) (lo lo' e : Int), lo' ≤ lo →
    Sh setx src lo e b → Sh setx (src ++ more) lo' e b := by
  apply PB.ind
  intro l bs is ih lo lo' e hlo h
  rw [Sh_mk] at h ⊢
  exact ⟨nodeOK_append hg (nodeOK_mono hlo (Int.le_refl _) h.1),
    ShL_imp (fun c hc lo lo' hlo hc' => ih c hc lo lo' _ hlo hc') lo lo' hlo h.2⟩

theorem Sh_append {setx : Bool} {src more : Bytes} {e : Int} (hg : Grow src more) (b : PB) (lo lo' : Int) (hlo : lo' ≤ lo)
    (h : Sh setx src lo e b) : Sh setx (src ++ more) lo' e b := Sh_append' hg b lo lo' e hlo h

/-! ### re-basing -/

/-- `offsetPB` on a label. -/
def shiftL (n : Int) (l : PLabel) : PLabel :=
  { l with start := l.start + n, stop := if l.stop ≥ 0 then l.stop + n else l.stop }

theorem offsetPB_mk (n : Int) (l : PLabel) (bs : List PB) (is : List Tree) :
    offsetPB n (.mk l bs is) = .mk (shiftL n l) (offsetPBs n bs) (offsetTrees n is) := by
  rw [offsetPB]; rfl

theorem offsetPBs_length (n : Int) : ∀ bs : List PB, (offsetPBs n bs).length = bs.length := by
  intro bs
  induction bs with
  | nil => simp [offsetPBs]
  | cons b rest ih => rw [BSp.offsetPBs_cons']; simp [ih]

theorem getElem?_drop_toNat {src : Bytes} {k : Nat} {a : Int} (hk : (k : Int) ≤ a) :
    (src.drop k)[(a - k).toNat]? = src[a.toNat]? := by
  rw [List.getElem?_drop]
  congr 1
  omega

theorem runAt_drop {src : Bytes} {k s n : Nat} {ch : UInt8} (h : runAt src (k + s) n ch = true) :
    runAt (src.drop k) s n ch = true := by
  rw [runAt_iff] at h ⊢
  rw [List.drop_drop]
  exact h

theorem endOf_shift {e : Int} {k : Nat} {l : PLabel} (h : 0 ≤ l.stop → (k : Int) ≤ l.stop) :
    endOf (e - k) (shiftL (-(k : Int)) l) = endOf e l - k := by
  unfold endOf shiftL
  by_cases hs : l.stop < 0
  · have : ¬ l.stop ≥ 0 := by omega
    simp [hs, this]
  · have h0 : l.stop ≥ 0 := by omega
    have := h h0
    have h1 : ¬ (l.stop + -(k : Int) < 0) := by omega
    simp only [h0, if_true, h1, hs, if_false]
    omega

theorem runOK_drop {src : Bytes} {e : Int} {k : Nat} {l : PLabel} {ch : UInt8} (hk : (k : Int) ≤ l.start)
    (h : runOK src e l ch = true) : runOK (src.drop k) (e - k) (shiftL (-(k : Int)) l) ch = true := by
  unfold runOK at h ⊢
  simp only [Bool.and_eq_true, decide_eq_true_eq] at h ⊢
  obtain ⟨⟨⟨⟨h1, h2⟩, h3⟩, h4⟩, h5⟩ := h
  have hE : endOf e l = if l.stop < 0 then e else l.stop := rfl
  have hstop : 0 ≤ l.stop → (k : Int) ≤ l.stop := by
    intro h0
    have : ¬ l.stop < 0 := by omega
    rw [hE, if_neg this] at h4
    omega
  have hs : (shiftL (-(k : Int)) l).start = l.start - k := by show l.start + -(k : Int) = _; omega
  have hn : (shiftL (-(k : Int)) l).n = l.n := rfl
  have hidx : k + (l.start - ↑k).toNat = l.start.toNat := by omega
  refine ⟨⟨⟨⟨by rw [hs]; omega, by rw [hn]; exact h2⟩, ?_⟩, ?_⟩, ?_⟩
  · rw [hs, hn]
    apply runAt_drop
    rw [hidx]; exact h3
  · rw [endOf_shift hstop, hs, hn]; omega
  · have hget : (src.drop k)[(l.start - ↑k).toNat + l.n.toNat]? = src[l.start.toNat + l.n.toNat]? := by
      rw [List.getElem?_drop]; congr 1; omega
    rw [hs, hn, hget]
    by_cases ho : l.stop < 0
    · have : (shiftL (-(k : Int)) l).stop < 0 := by
        show (if l.stop ≥ 0 then l.stop + -(k : Int) else l.stop) < 0
        have : ¬ l.stop ≥ 0 := by omega
        simp [this, ho]
      rw [if_pos this]
      rw [if_pos ho] at h5
      exact h5
    · have h0 : l.stop ≥ 0 := by omega
      have hst : (shiftL (-(k : Int)) l).stop = l.stop - k := by
        show (if l.stop ≥ 0 then l.stop + -(k : Int) else l.stop) = _
        simp only [h0, if_true]; omega
      have := hstop h0
      have hno : ¬ (shiftL (-(k : Int)) l).stop < 0 := by rw [hst]; omega
      rw [if_neg hno]
      rw [if_neg ho] at h5
      simp only [Bool.or_eq_true, beq_iff_eq] at h5 ⊢
      rcases h5 with h5 | h5
      · left; rw [hst]; omega
      · right; exact h5

theorem sliceI_drop {src : Bytes} {k : Nat} {a b : Int} (hk : (k : Int) ≤ a) :
    sliceI (src.drop k) (a - k) (b - k) = sliceI src a b := by
  unfold sliceI
  rw [List.drop_drop]
  have e1 : k + (a - ↑k).toNat = a.toNat := by omega
  have e2 : (b - ↑k - (a - ↑k)).toNat = (b - a).toNat := by congr 1; omega
  rw [e1, e2]

theorem closedIn_drop {src : Bytes} {k : Nat} {l : PLabel} (hk : (k : Int) ≤ l.start) (h : closedIn src l = true) :
    closedIn (src.drop k) (shiftL (-(k : Int)) l) = true ∧
    (shiftL (-(k : Int)) l).start = l.start - k ∧ (shiftL (-(k : Int)) l).stop = l.stop - k := by
  rw [closedIn_iff] at h
  have h0 : l.stop ≥ 0 := by omega
  have hs : (shiftL (-(k : Int)) l).start = l.start - k := by show l.start + -(k : Int) = _; omega
  have hst : (shiftL (-(k : Int)) l).stop = l.stop - k := by
    show (if l.stop ≥ 0 then l.stop + -(k : Int) else l.stop) = _
    simp only [h0, if_true]; omega
  refine ⟨?_, hs, hst⟩
  rw [closedIn_iff, hs, hst, List.length_drop]
  omega

theorem shapeOK_drop {setx : Bool} {src : Bytes} {lo e : Int} {k : Nat} {l : PLabel}
    (hklo : (k : Int) ≤ lo) (hs : shapeKind setx l.kind = true → lo ≤ anchor setx src l) (hst : 0 ≤ l.stop → lo ≤ l.stop)
    (h : shapeOK setx src e l = true) : shapeOK setx (src.drop k) (e - k) (shiftL (-(k : Int)) l) = true := by
  have hkind : (shiftL (-(k : Int)) l).kind = l.kind := rfl
  have hst0 : ∀ K : Nat, (l.kind == K) = true → K ≠ BK.setextHeading → shapeKind setx l.kind = true → (k : Int) ≤ l.start := by
    intro K hK hne hsk
    have := hs hsk
    rw [anchor_start (Or.inr (by rw [beq_iff_eq.mp hK]; exact hne))] at this
    omega
  have hstop : 0 ≤ l.stop → (k : Int) ≤ l.stop := fun h0 => by have := hst h0; omega
  unfold shapeOK at h ⊢
  rw [hkind]
  split
  · rename_i hk; rw [if_pos hk] at h
    have hsk : shapeKind setx l.kind = true := by simp [shapeKind, hk]
    have hks : (k : Int) ≤ l.start := hst0 _ hk (by decide) hsk
    simp only [Bool.and_eq_true, decide_eq_true_eq, beq_iff_eq] at h ⊢
    have hs' : (shiftL (-(k : Int)) l).start = l.start - k := by show l.start + -(k : Int) = _; omega
    rw [endOf_shift hstop, hs', getElem?_drop_toNat hks]
    exact ⟨⟨by omega, h.1.2⟩, by omega⟩
  · rename_i hk1; rw [if_neg hk1] at h
    split
    · rename_i hk; rw [if_pos hk] at h
      have hsk : shapeKind setx l.kind = true := by simp [shapeKind, hk]
      have hks : (k : Int) ≤ l.start := hst0 _ hk (by decide) hsk
      simp only [Bool.and_eq_true, decide_eq_true_eq] at h ⊢
      exact ⟨h.1, runOK_drop hks h.2⟩
    · rename_i hk2; rw [if_neg hk2] at h
      split
      · rename_i hk; rw [if_pos hk] at h
        have hsk : shapeKind setx l.kind = true := by simp [shapeKind, hk]
        have hks : (k : Int) ≤ l.start := hst0 _ hk (by decide) hsk
        simp only [Bool.and_eq_true, decide_eq_true_eq] at h ⊢
        exact ⟨h.1, runOK_drop hks h.2⟩
      · rename_i hk3; rw [if_neg hk3] at h
        split
        · rename_i hk; rw [if_pos hk] at h
          have hsk : shapeKind setx l.kind = true := by simp [shapeKind, hk]
          have hks : (k : Int) ≤ l.start := hst0 _ hk (by decide) hsk
          simp only [Bool.and_eq_true] at h ⊢
          obtain ⟨c1, c2, c3⟩ := closedIn_drop hks h.1
          rw [c2, c3, sliceI_drop hks]
          exact ⟨c1, h.2⟩
        · rename_i hk4; rw [if_neg hk4] at h
          split
          · rename_i hk; rw [if_pos hk] at h
            cases hsx : setx
            · simp
            · rw [hsx] at h hs
              have hsk : shapeKind true l.kind = true := by simp [shapeKind, hk]
              have hke : l.kind = BK.setextHeading := beq_iff_eq.mp hk
              have hks := hs hsk
              rw [anchor_setext hke] at hks
              simp only [Bool.not_true, Bool.false_or] at h ⊢
              have h0 := (setextOK_iff.mp h).1
              refine setextOK_drop (l := l) (by omega) (by show l.start + -(k : Int) = _; omega) ?_ rfl h
              show (if l.stop ≥ 0 then l.stop + -(k : Int) else l.stop) = _
              have : l.stop ≥ 0 := h0
              simp only [this, if_true]; omega
          · rfl

theorem textOK_drop {lo e : Int} {k : Nat} {l : PLabel} {leaf : Bool} {is : List Tree}
    (hklo : (k : Int) ≤ lo) (hst : 0 ≤ l.stop → lo ≤ l.stop) (h : textOK lo e l leaf is = true) :
    textOK (lo - k) (e - k) (shiftL (-(k : Int)) l) leaf (offsetTrees (-(k : Int)) is) = true := by
  rw [textOK_iff] at h ⊢
  intro hp ho
  have hkind : (shiftL (-(k : Int)) l).kind = l.kind := rfl
  rw [hkind] at hp
  have ho' : l.stop < 0 := by
    by_cases h0 : 0 ≤ l.stop
    · exfalso
      have hsh : (shiftL (-(k : Int)) l).stop = l.stop + -(k : Int) := by
        show (if l.stop ≥ 0 then l.stop + -(k : Int) else l.stop) = _
        have : l.stop ≥ 0 := h0
        simp only [this, if_true]
      rw [hsh] at ho
      have := hst h0
      omega
    · omega
  obtain ⟨h1, h2⟩ := h hp ho'
  refine ⟨h1, ?_⟩
  have := BSp.offsetTrees_inls (-(k : Int)) is lo e (by omega) h2
  have e1 : lo + -(k : Int) = lo - k := by omega
  have e2 : e + -(k : Int) = e - k := by omega
  rw [e1, e2] at this
  exact this

theorem offsetTrees_ne_nil (n : Int) {is : List Tree} (h : is ≠ []) : offsetTrees n is ≠ [] := by
  cases is with
  | nil => exact absurd rfl h
  | cons t rest => rw [offsetTrees]; simp

theorem openOK_drop {lo e : Int} {k : Nat} {l : PLabel} {is : List Tree}
    (hklo : (k : Int) ≤ lo) (hst : 0 ≤ l.stop → lo ≤ l.stop) (h : openOK lo e l is = true) :
    openOK (lo - k) (e - k) (shiftL (-(k : Int)) l) (offsetTrees (-(k : Int)) is) = true := by
  rw [openOK_iff] at h ⊢
  intro ho
  have hkind : (shiftL (-(k : Int)) l).kind = l.kind := rfl
  have hs' : (shiftL (-(k : Int)) l).start = l.start - k := by show l.start + -(k : Int) = _; omega
  have ho' : l.stop < 0 := by
    by_cases h0 : 0 ≤ l.stop
    · exfalso
      have hsh : (shiftL (-(k : Int)) l).stop = l.stop + -(k : Int) := by
        show (if l.stop ≥ 0 then l.stop + -(k : Int) else l.stop) = _
        have : l.stop ≥ 0 := h0
        simp only [this, if_true]
      rw [hsh] at ho
      have := hst h0
      omega
    · omega
  rw [hkind, hs']
  refine ⟨(h ho').1, by have := (h ho').2.1; omega, ?_⟩
  rcases (h ho').2.2 with h | h
  · exact Or.inl ⟨h.1, offsetTrees_ne_nil _ h.2⟩
  · exact Or.inr (by omega)

theorem shiftL_stop_closed {k : Nat} {l : PLabel} (h0 : 0 ≤ l.stop) : (shiftL (-(k : Int)) l).stop = l.stop - k := by
  show (if l.stop ≥ 0 then l.stop + -(k : Int) else l.stop) = _
  have : l.stop ≥ 0 := h0
  simp only [this, if_true]; omega

theorem shiftL_stop_open {k : Nat} {l : PLabel} (h0 : l.stop < 0) : (shiftL (-(k : Int)) l).stop = l.stop := by
  show (if l.stop ≥ 0 then l.stop + -(k : Int) else l.stop) = _
  have : ¬ l.stop ≥ 0 := by omega
  simp only [this, if_false]

theorem nodeOK_drop {setx : Bool} {src : Bytes} {lo e : Int} {k : Nat} {l : PLabel} {leaf : Bool} {is : List Tree}
    (hklo : (k : Int) ≤ lo) (hke : (k : Int) ≤ e) (h : nodeOK setx src lo e l leaf is = true) :
    nodeOK setx (src.drop k) (lo - k) (e - k) (shiftL (-(k : Int)) l) leaf (offsetTrees (-(k : Int)) is) = true := by
  rw [nodeOK_iff] at h ⊢
  obtain ⟨h1, h2, h3, h4⟩ := h
  have hkind : (shiftL (-(k : Int)) l).kind = l.kind := rfl
  have hs' : (shiftL (-(k : Int)) l).start = l.start - k := by show l.start + -(k : Int) = _; omega
  rw [kindOK_iff] at h4 ⊢
  refine ⟨?_, ?_, ?_, shapeOK_drop hklo h3 h2 h4.1, textOK_drop hklo h2 h4.2.1, openOK_drop hklo h2 h4.2.2⟩
  · by_cases h0 : 0 ≤ l.stop
    · rw [shiftL_stop_closed h0]; omega
    · rw [shiftL_stop_open (by omega)]; omega
  · intro hc
    by_cases h0 : 0 ≤ l.stop
    · rw [shiftL_stop_closed h0]; have := h2 h0; omega
    · rw [shiftL_stop_open (by omega)] at hc; omega
  · intro hk
    rw [hkind] at hk
    have h3' := h3 hk
    unfold anchor at h3' ⊢
    rw [hkind]
    split
    · rename_i hc
      rw [if_pos hc] at h3'
      simp only [Bool.and_eq_true, beq_iff_eq] at hc
      obtain ⟨rfl, hke⟩ := hc
      have hso := setextOK_iff.mp (shapeOK_setext hke h4.1)
      have hb := bodyLen_le hso.2.1 hso.1
      rw [shiftL_stop_closed hso.1, bodyLen_drop (by omega) (by omega)]
      omega
    · rename_i hc
      rw [if_neg hc] at h3'
      rw [hs']; omega

theorem max_shift {lo : Int} {k : Nat} {l : PLabel} (hklo : (k : Int) ≤ lo) (hst : 0 ≤ l.stop → lo ≤ l.stop) :
    max (lo - k) (shiftL (-(k : Int)) l).stop = max lo l.stop - k := by
  by_cases h0 : 0 ≤ l.stop
  · rw [shiftL_stop_closed h0]; have := hst h0; omega
  · rw [shiftL_stop_open (by omega)]; omega

theorem Sh_label_stop {setx : Bool} {src : Bytes} {lo e : Int} {b : PB} (h : Sh setx src lo e b) :
    0 ≤ b.label.stop → lo ≤ b.label.stop := by
  obtain ⟨l, bs, is⟩ := b
  rw [Sh_mk, nodeOK_iff] at h
  exact h.1.2.1

theorem shiftL_isOpen {lo : Int} {k : Nat} {l : PLabel} (hklo : (k : Int) ≤ lo) (hst : 0 ≤ l.stop → lo ≤ l.stop) :
    decide ((shiftL (-(k : Int)) l).stop < 0) = decide (l.stop < 0) := by
  by_cases h0 : 0 ≤ l.stop
  · rw [shiftL_stop_closed h0]
    have := hst h0
    have a : ¬ (l.stop - k < 0) := by omega
    have b : ¬ (l.stop < 0) := by omega
    simp [a, b]
  · rw [shiftL_stop_open (by omega)]

theorem offsetPB_label' (k : Nat) (c : PB) : (offsetPB (-(k : Int)) c).label = shiftL (-(k : Int)) c.label := by
  obtain ⟨l', bs', is'⟩ := c
  rw [offsetPB_mk]; rfl

theorem offsetPB_isOpen {setx : Bool} {src : Bytes} {lo e : Int} {k : Nat} (hklo : (k : Int) ≤ lo) {c : PB}
    (h : Sh setx src lo e c) : (offsetPB (-(k : Int)) c).isOpen = c.isOpen := by
  have hl := offsetPB_label' k c
  have := shiftL_isOpen hklo (Sh_label_stop h)
  obtain ⟨l, bs, is⟩ := c
  rw [offsetPB_mk] at hl ⊢
  exact this

/-- **`Sh` under re-basing**: the blocks after a root that ends at `k` live in the source without its first `k`
    bytes. -/
theorem Sh_offset' {setx : Bool} {src : Bytes} {k : Nat} : ∀ (b : PB) (lo e : Int), (k : Int) ≤ lo → (k : Int) ≤ e →
    Sh setx src lo e b → Sh setx (src.drop k) (lo - k) (e - k) (offsetPB (-(k : Int)) b) := by
  apply PB.ind
  intro l bs is ih lo e hklo hke h
  rw [offsetPB_mk]
  rw [Sh_mk] at h ⊢
  have hlen : (offsetPBs (-(k : Int)) bs).isEmpty = bs.isEmpty := by
    cases bs with
    | nil => simp [offsetPBs]
    | cons b rest => rw [BSp.offsetPBs_cons']; rfl
  rw [hlen]
  have hn := h.1
  rw [nodeOK_iff] at hn
  have hstop : 0 ≤ l.stop → (k : Int) ≤ l.stop := fun h0 => by have := hn.2.1 h0; omega
  refine ⟨nodeOK_drop hklo hke h.1, ?_⟩
  rw [shiftL_isOpen hklo hn.2.1, endOf_shift hstop]
  have h2 := h.2
  have hkE : (k : Int) ≤ endOf e l := by
    unfold endOf
    split
    · exact hke
    · exact hstop (by omega)
  clear h hlen hn
  generalize endOf e l = f at h2 hkE ⊢
  generalize decide (l.stop < 0) = po at h2 ⊢
  induction bs generalizing lo with
  | nil => rw [BSp.offsetPBs_nil']; exact ShL_nil _ _ _ _ _
  | cons c rest ihr =>
    rw [BSp.offsetPBs_cons']
    rw [ShL_cons] at h2 ⊢
    refine ⟨ih c (by simp) lo f hklo hkE h2.1, ?_, ?_⟩
    · intro ho
      rw [offsetPB_isOpen hklo h2.1] at ho
      obtain ⟨h1, h2'⟩ := h2.2.1 ho
      rw [h1]
      exact ⟨BSp.offsetPBs_nil' _, h2'⟩
    · rw [offsetPB_label', max_shift hklo (Sh_label_stop h2.1)]
      exact ihr (fun c' hc' => ih c' (by simp [hc'])) _ (by omega) h2.2.2

theorem Sh_offset {setx : Bool} {src : Bytes} {e : Int} {k : Nat} (hke : (k : Int) ≤ e) (b : PB) (lo : Int) (hklo : (k : Int) ≤ lo)
    (h : Sh setx src lo e b) : Sh setx (src.drop k) (lo - k) (e - k) (offsetPB (-(k : Int)) b) := Sh_offset' b lo e hklo hke h

theorem ShL_offset {setx : Bool} {src : Bytes} {po : Bool} {e : Int} {k : Nat} (hke : (k : Int) ≤ e) : ∀ (bs : List PB) (lo : Int),
    (k : Int) ≤ lo → ShL setx src po lo e bs → ShL setx (src.drop k) po (lo - k) (e - k) (offsetPBs (-(k : Int)) bs) := by
  intro bs
  induction bs with
  | nil => intro lo _ _; rw [BSp.offsetPBs_nil']; exact ShL_nil _ _ _ _ _
  | cons c rest ih =>
    intro lo hklo h
    rw [BSp.offsetPBs_cons']
    rw [ShL_cons] at h ⊢
    refine ⟨Sh_offset hke c lo hklo h.1, ?_, ?_⟩
    · intro ho
      rw [offsetPB_isOpen hklo h.1] at ho
      obtain ⟨h1, h2'⟩ := h.2.1 ho
      rw [h1]
      exact ⟨BSp.offsetPBs_nil' _, h2'⟩
    · rw [offsetPB_label', max_shift hklo (Sh_label_stop h.1)]
      exact ih _ (by omega) h.2.2

end CM.Proofs.Shp
