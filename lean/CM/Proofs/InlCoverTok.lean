import CM.Proofs.InlCoverInv
/-
C03, inline half — the tokenizer's leaf operations: `addLeaf`, `importNode`, `parseBackslash`, `parseDelimiterRun`
(fourth chain of specifications, priority 40000: the span invariant and the coverage invariant together).
-/
namespace CM.Proofs.InlH
open CM CM.Model CM.Model.Inl CM.Gen CM.Spec
open Std.Do

set_option mvcgen.warning false

/-- every position of `[lo, hi)` is covered -/
def CovAll (a : Array INode) (lo hi : Int) : Prop := ∀ j, lo ≤ j → j < hi → CovA a j

theorem CovAll.seg {c : ICtx} {a : Array INode} {lo hi : Int} (h : CovAll a lo hi) : CovSeg c a lo hi :=
  fun j h1 h2 _ _ => h j h1 h2

theorem CovAll.empty {a : Array INode} {lo hi : Int} (h : hi ≤ lo) : CovAll a lo hi := fun j h1 h2 => by omega

theorem addLeaf_cov (L : Lims) (c : ICtx) (kind : Nat) (a e : Int) (s0 : IState) :
    ⦃fun s => ⌜s = s0 ∧ SPT L.lo L.hi a s ∧ e ≤ L.hi ∧ StkNN c s⌝⦄ addLeaf kind a e
    ⦃⇓? _ s => ⌜StkNN c s ∧ Keep c s0.nodes s.nodes ∧ CovAll s.nodes a e⌝⦄ := by
  mvcgen [addLeaf, alloc, addToRoot, nodeLen, getNode, setParent, modifyNode, -addLeaf_spec, -addLeaf_specS,
    -addToRoot_spec, -addToRoot_specS, -addLeaf_specP]
  · obtain ⟨rfl, hsp, he, hnn⟩ := ‹_ = s0 ∧ _›
    have hem := ‹(spanLenI a e == 0) = true›
    have h1 := hsp.lo_le
    have h0 := L.nn
    exact ⟨hnn, Keep.refl _ _, CovAll.empty (spanLen_zero hem (by omega))⟩
  · exfalso
    have h1 := ‹¬(spanLenI a e == 0) = true›
    have h2 := ‹(spanLenI _ _ == 0) = true›
    rw [get!_push_eq] at h2
    exact h1 h2
  · obtain ⟨rfl, hsp, he, hnn⟩ := ‹_ = s0 ∧ _›
    simp -failIfUnchanged +zetaDelta only [] at *
    refine cov_addLeaf hsp hnn { kind := kind, start := a, stop := e } ?_ ?_ ?_ ?_ ?_ ?_ <;> rfl

@[spec 40000]
theorem addLeaf_specC (L : Lims) (c : ICtx) (kind : Nat) (a e : Int) (s0 : IState) :
    ⦃fun s => ⌜s = s0 ∧ SPT L.lo L.hi a s ∧ e ≤ L.hi ∧ StkNN c s⌝⦄ addLeaf kind a e
    ⦃⇓? _ s => ⌜(SPT L.lo L.hi (max a e) s ∧ s.unparsedPos = s0.unparsedPos ∧
        s.ignoreNextIndent = s0.ignoreNextIndent) ∧ StkNN c s ∧ Keep c s0.nodes s.nodes ∧ CovAll s.nodes a e⌝⦄ :=
  triple_and (addLeaf_specP L kind a e s0) (addLeaf_cov L c kind a e s0) fun _ h => ⟨⟨h.1, h.2.1, h.2.2.1⟩, h⟩

theorem importNode_cov (L : Lims) (c : ICtx) (t : Tree) (s0 : IState) :
    ⦃fun s => ⌜s = s0 ∧ SPT L.lo L.hi t.label.start s ∧ StkNN c s⌝⦄ importNode t
    ⦃⇓? _ s => ⌜StkNN c s ∧ Keep c s0.nodes s.nodes ∧ ∀ j, CovN (ofTree t) j → CovA s.nodes j⌝⦄ := by
  mvcgen [importNode, alloc, modifyNode, -importNode_spec, -importNode_specS, -importNode_specP]
  sp_norm
  obtain ⟨hsp, hnn⟩ := ‹SPT _ _ _ _ ∧ _›
  refine cov_addRoot hsp hnn (ofTree t) ?_ ?_ <;> rfl

@[spec 40000]
theorem importNode_specC (L : Lims) (c : ICtx) (t : Tree) (s0 : IState) :
    ⦃fun s => ⌜s = s0 ∧ SPT L.lo L.hi t.label.start s ∧ t.label.start ≤ t.label.stop ∧ t.label.stop ≤ L.hi ∧
        WFL t.label.start t.label.stop t.children ∧ StkNN c s⌝⦄ importNode t
    ⦃⇓? _ s => ⌜(SPT L.lo L.hi t.label.stop s ∧ s.unparsedPos = s0.unparsedPos ∧
        s.ignoreNextIndent = s0.ignoreNextIndent) ∧
        StkNN c s ∧ Keep c s0.nodes s.nodes ∧ ∀ j, CovN (ofTree t) j → CovA s.nodes j⌝⦄ :=
  triple_and (importNode_specP L t s0) (importNode_cov L c t s0)
    fun _ h => ⟨⟨h.1, h.2.1, h.2.2.1, h.2.2.2.1, h.2.2.2.2.1⟩, h.1, h.2.1, h.2.2.2.2.2⟩

theorem parseBackslash_cov (L : Lims) (c : ICtx) (start : Int) (s0 : IState) :
    ⦃fun s => ⌜s = s0 ∧ SPT L.lo L.hi start s ∧ start < spanEndOf c s0 ∧ spanEndOf c s0 ≤ L.hi ∧ StkNN c s ∧
        needsCover (c.srcA[start.toNat]!) = false⌝⦄ parseBackslash c start
    ⦃⇓? r s => ⌜StkNN c s ∧ Keep c s0.nodes s.nodes ∧ CovSeg c s.nodes start r⌝⦄ := by
  mvcgen [parseBackslash, spanEnd, isLastSpan, setIgnoreNextIndent, -parseBackslash_spec, -parseBackslash_specS,
    -parseBackslash_specP]
  all_goals sp_norm
  all_goals (
    obtain ⟨hsp, hlt, hhi, hnn, hb⟩ := ‹SPT _ _ _ _ ∧ _ < _ ∧ _ ≤ _ ∧ _›
    first
    | (refine ⟨trivial, ?_, by omega, hnn⟩
       first
       | exact hsp
       | exact SP.congr hsp rfl rfl rfl
       | exact SP.mono hsp (by omega) (by omega)
       | exact SP.congr (SP.mono hsp (by omega) (by omega)) rfl rfl rfl)
    | (obtain ⟨-, g1, g2, g3⟩ := ‹(SPT _ _ (max _ _) _ ∧ _) ∧ _›
       first
       | exact ⟨g1, g2, g3.seg⟩
       | exact ⟨g1, g2, (CovSeg.of_noNeed (noNeed_byte hb)).append g3.seg⟩))

@[spec 40000]
theorem parseBackslash_specC (L : Lims) (c : ICtx) (start : Int) (s0 : IState) :
    ⦃fun s => ⌜s = s0 ∧ SPT L.lo L.hi start s ∧ start < spanEndOf c s0 ∧ spanEndOf c s0 ≤ L.hi ∧ StkNN c s ∧
        needsCover (c.srcA[start.toNat]!) = false⌝⦄ parseBackslash c start
    ⦃⇓? r s => ⌜(SPT L.lo L.hi r s ∧ start < r ∧ r ≤ spanEndOf c s0 ∧ s.unparsedPos = s0.unparsedPos) ∧
        StkNN c s ∧ Keep c s0.nodes s.nodes ∧ CovSeg c s.nodes start r⌝⦄ :=
  triple_and (parseBackslash_specP L c start s0) (parseBackslash_cov L c start s0)
    fun _ h => ⟨⟨h.1, h.2.1, h.2.2.1, h.2.2.2.1⟩, h⟩

theorem run_ext {f : Int → UInt8} {start B : Int} (h3 : ∀ j : Int, start ≤ j → j < B → f j = f start)
    (hB : f B = f start) : ∀ j : Int, start ≤ j → j < B + 1 → f j = f start := by
  intro j h1 h2
  rcases Int.lt_or_le j B with hlt | hge
  · exact h3 j h1 hlt
  · have : j = B := by omega
    rw [this]; exact hB

theorem parseDelimiterRun_cov (L : Lims) (c : ICtx) (start : Int) (s0 : IState) :
    ⦃fun s => ⌜s = s0 ∧ SPT L.lo L.hi start s ∧ start < spanEndOf c s0 ∧ spanEndOf c s0 ≤ L.hi ∧ StkNN c s ∧
        needsCover (c.srcA[start.toNat]!) = false⌝⦄
    parseDelimiterRun c start
    ⦃⇓? r s => ⌜StkNN c s ∧ Keep c s0.nodes s.nodes ∧ CovAll s.nodes start r⌝⦄ := by
  mvcgen [parseDelimiterRun, spanEnd, alloc, addToRoot, nodeLen, getNode, setParent, modifyNode, pushStack,
    -parseDelimiterRun_spec, -parseDelimiterRun_specS, -addToRoot_spec, -addToRoot_specS, -parseDelimiterRun_specP]
  case inv1 =>
    exact PostCond.mayThrow (fun (q : _ × Int) s => ⌜s = s0 ∧ start + 1 ≤ q.2 ∧ q.2 ≤ spanEndOf c s0 ∧
      ∀ j : Int, start ≤ j → j < q.2 → c.srcA[j.toNat]! = c.srcA[start.toNat]!⌝)
  inl_norm
  all_goals sp_norm
  all_goals (try (exact fun h => h))
  -- the loop
  · exact ⟨trivial, ‹_ ≤ _ ∧ _ ≤ _ ∧ _›⟩
  · exact ⟨trivial, ‹_ ≤ _ ∧ _ ≤ _ ∧ _›⟩
  · obtain ⟨h1, h2, h3⟩ := ‹_ ≤ _ ∧ _ ≤ _ ∧ _›
    obtain ⟨-, -, hr⟩ := ‹(0 : Int) ≤ start ∧ _›
    obtain ⟨-, -, hr'⟩ := ‹(0 : Int) ≤ _ ∧ _ < _ ∧ _ = c.srcA[Int.toNat _]!›
    have hne := ‹¬(_ != _) = true›
    have hlt := ‹¬(!decide (_ < _)) = true›
    simp only [Bool.not_eq_true', Bool.not_eq_false, decide_eq_true_eq] at hlt
    have hne' := hne
    simp only [bne_iff_ne, ne_eq, Decidable.not_not] at hne'
    refine ⟨trivial, by omega, by omega, run_ext (f := fun j => c.srcA[j.toNat]!) h3 ?_⟩
    show c.srcA[Int.toNat _]! = _
    rw [← hr', hne', hr]
  · obtain ⟨hsp, hlt, hhi, hnn, hb⟩ := ‹SPT _ _ _ _ ∧ _›
    refine ⟨trivial, Int.le_refl _, by omega, fun j h1 h2 => ?_⟩
    have : j = start := by omega
    rw [this]
  -- the dead branch of `addToRoot`
  · exfalso
    have h2 := ‹(spanLenI _ _ == 0) = true›
    obtain ⟨h1, -⟩ := ‹_ ≤ _ ∧ _ ≤ _ ∧ _›
    obtain ⟨h0, -⟩ := ‹(0 : Int) ≤ start ∧ _›
    rw [get!_push_eq] at h2
    dsimp only at h2
    have := spanLen_zero h2 (by omega)
    omega
  · obtain ⟨hsp, hlt, hhi, hnn, hb⟩ := ‹SPT _ _ _ _ ∧ _›
    obtain ⟨h1, h2, h3⟩ := ‹_ ≤ _ ∧ _ ≤ _ ∧ _›
    obtain ⟨h0, -⟩ := ‹(0 : Int) ≤ start ∧ _›
    refine cov_addLeafPush hsp hnn ?n ?e ?hk ?hs ?hn ?hst ?ha ?hb ?_
    case hn => rfl
    case hst => rfl
    case hk => rfl
    case hs => rfl
    case ha => rfl
    case hb => rfl
    intro j hj1 hj2 hn
    have := hn.2
    rw [h3 j hj1 hj2, hb] at this; cases this

@[spec 40000]
theorem parseDelimiterRun_specC (L : Lims) (c : ICtx) (start : Int) (s0 : IState) :
    ⦃fun s => ⌜s = s0 ∧ SPT L.lo L.hi start s ∧ start < spanEndOf c s0 ∧ spanEndOf c s0 ≤ L.hi ∧ StkNN c s ∧
        needsCover (c.srcA[start.toNat]!) = false⌝⦄
    parseDelimiterRun c start
    ⦃⇓? r s => ⌜(SPT L.lo L.hi r s ∧ start < r ∧ r ≤ spanEndOf c s0 ∧ s.unparsedPos = s0.unparsedPos ∧
        s.ignoreNextIndent = s0.ignoreNextIndent) ∧ StkNN c s ∧ Keep c s0.nodes s.nodes ∧ CovAll s.nodes start r⌝⦄ :=
  triple_and (parseDelimiterRun_specP L c start s0) (parseDelimiterRun_cov L c start s0)
    fun _ h => ⟨⟨h.1, h.2.1, h.2.2.1, h.2.2.2.1⟩, h⟩

end CM.Proofs.InlH
