import CM.Proofs.BlocksSpansDescend
/-
C02, block half — `addLineText`: the blank-line flags change labels only; the text of the line goes to the container
(or to a new paragraph) as inline children that end at the end of the line.
-/
namespace CM.Proofs.BSp
open CM CM.Model CM.Gen CM.Proofs.BT

/-! ### `setBlankFlags` -/

theorem setBlankFlags_label (v : Bool) (b : PB) (d : Nat) :
    (setBlankFlags v b d).label = { b.label with lastLineBlank := v } := by
  obtain ⟨l, bs, is⟩ := b
  cases d with
  | zero => rfl
  | succ d =>
    simp only [setBlankFlags]
    split <;> rfl

theorem setBlankFlags_zero (v : Bool) (b : PB) : setBlankFlags v b 0 = b.setLabel (fun l => { l with lastLineBlank := v }) := by
  cases b; rfl

theorem not_container_paragraph {k : Nat} (h : isContainerKind k = true) : k ≠ BK.paragraph := by
  intro e; rw [e] at h; revert h; decide

theorem setBlankFlags_spans {Q : ParaPred} (v : Bool) : ∀ (d : Nat) (b : PB) (lo hi : Int), PBSpans Q lo hi b →
    ((∀ l is, Q l is = true) ∨ ∃ bd, spineGet b d = some bd ∧ bd.kind ≠ BK.paragraph) →
    PBSpans Q lo hi (setBlankFlags v b d) := by
  intro d
  induction d with
  | zero =>
    intro b lo hi h hq
    rw [setBlankFlags_zero]
    apply PBSpans_setLabel_Q (f := fun l => { l with lastLineBlank := v }) (fun _ => rfl) (fun _ => rfl) (fun _ => rfl) _ h
    rcases hq with hq | ⟨bd, hbd, hk⟩
    · exact Or.inr hq
    · rw [spineGet_zero] at hbd; cases hbd; exact Or.inl hk
  | succ d ih =>
    intro b lo hi h hq
    obtain ⟨l, bs, is⟩ := b
    simp only [setBlankFlags]
    cases hgl : bs.getLast? with
    | none =>
      simp only []
      have : PB.mk { l with lastLineBlank := v } bs is = (PB.mk l bs is).setLabel (fun l => { l with lastLineBlank := v }) := rfl
      rw [this]
      apply PBSpans_setLabel_Q (f := fun l => { l with lastLineBlank := v }) (fun _ => rfl) (fun _ => rfl) (fun _ => rfl) _ h
      rcases hq with hq | ⟨bd, hbd, hk⟩
      · exact Or.inr hq
      · rw [spineGet_succ, hgl] at hbd; cases hbd
    | some c =>
      simp only []
      rw [PBSpans_mk] at h ⊢
      obtain ⟨a1, a2, a3, a4, a5, a6, a7⟩ := h
      have hcont : isContainerKind l.kind = true := by
        rcases a6 with a6 | a6
        · exact a6
        · rw [a6] at hgl; cases hgl
      obtain ⟨e, hinit, hc, hpo, hge⟩ := getLast_split hgl a5
      have hc' := ih c _ _ hc (by
        rcases hq with hq | ⟨bd, hbd, hk⟩
        · exact Or.inl hq
        · right; rw [spineGet_succ, hgl] at hbd; exact ⟨bd, hbd, hk⟩)
      have e1 : endOf hi { l with lastLineBlank := v } = endOf hi l := rfl
      rw [e1]
      refine ⟨a1, a2, a3, a4, ?_, ⟨Or.inl hcont, fun ho => ⟨(a7 ho).1, fun hk1 => absurd hk1 (not_container_paragraph hcont)⟩⟩⟩
      rw [PBSpansL_snoc]
      refine ⟨hinit, hc', fun ho => hpo ?_⟩
      rw [isOpen_iff, setBlankFlags_label] at ho
      rw [isOpen_iff]; exact ho

theorem spineGet_setBlankFlags (v : Bool) : ∀ (d : Nat) (b : PB) (j : Nat),
    spineGet (setBlankFlags v b d) j = (spineGet b j).map (fun c => if j ≤ d then setBlankFlags v c (d - j) else c) := by
  intro d
  induction d with
  | zero =>
    intro b j
    obtain ⟨l, bs, is⟩ := b
    cases j with
    | zero => simp [spineGet_zero]
    | succ j =>
      simp only [setBlankFlags]
      rw [spineGet_succ, spineGet_succ]
      cases bs.getLast? with
      | none => rfl
      | some c =>
        simp only []
        cases spineGet c j with
        | none => rfl
        | some c' => simp
  | succ d ih =>
    intro b j
    obtain ⟨l, bs, is⟩ := b
    cases j with
    | zero => simp [spineGet_zero]
    | succ j =>
      simp only [setBlankFlags]
      cases hgl : bs.getLast? with
      | none =>
        simp only []
        rw [spineGet_succ, spineGet_succ, hgl]; rfl
      | some c =>
        simp only []
        rw [spineGet_succ, spineGet_succ, hgl]
        simp only [List.getLast?_append, List.getLast?_singleton, Option.some_or]
        rw [ih c j]
        simp only [Nat.add_le_add_iff_right, Nat.add_sub_add_right]

theorem ChainAbove_setBlankFlags {L : Int} (v : Bool) : ∀ (k : Nat) (b : PB) (d : Nat), ChainAbove L k b →
    ChainAbove L k (setBlankFlags v b d) := by
  intro k
  induction k with
  | zero => intro b d _; exact ChainAbove_zero _ _
  | succ k ih =>
    intro b d h
    obtain ⟨l, bs, is⟩ := b
    cases hgl : bs.getLast? with
    | none =>
      have : ∀ d, setBlankFlags v (PB.mk l bs is) d = PB.mk { l with lastLineBlank := v } bs is := by
        intro d; cases d with
        | zero => rfl
        | succ d => simp only [setBlankFlags, hgl]
      rw [this]
      exact ChainAbove_none hgl
    | some c =>
      rw [ChainAbove_succ hgl] at h
      cases d with
      | zero =>
        show ChainAbove L (k + 1) (PB.mk { l with lastLineBlank := v } bs is)
        rw [ChainAbove_succ hgl]
        exact h
      | succ d =>
        simp only [setBlankFlags, hgl]
        have hgl' : (bs.dropLast ++ [setBlankFlags v c d]).getLast? = some (setBlankFlags v c d) := by simp
        rw [ChainAbove_succ hgl']
        refine ⟨?_, ih c d h.2⟩
        rcases h.1 with h1 | h1 | h1
        · exact Or.inl h1
        · right; left
          obtain ⟨c1, c2, c3⟩ := h1
          refine ⟨c1, c2, ?_⟩
          intro c' hc' hcc
          rcases List.mem_append.mp hc' with hm | hm
          · exact c3 c' ((List.dropLast_sublist bs).subset hm) hcc
          · simp only [List.mem_singleton] at hm
            subst hm
            rw [setBlankFlags_label] at hcc ⊢
            exact c3 c (List.mem_of_getLast? hgl) hcc
        · right; right
          simp only [PB.kind, setBlankFlags_label] at h1 ⊢
          exact h1

/-- `altFlags` keeps the invariant and the chain. -/
theorem altFlags_MI {Q : ParaPred} (b : Bool) (p : LP) (hmi : MI Q p)
    (hq : (∀ l is, Q l is = true) ∨ p.containerKind ≠ BK.paragraph) : MI Q (altFlags b p) := by
  unfold altFlags
  simp only []
  generalize (b && !(p.containerKind == BK.blockQuote || p.containerKind == BK.fencedCode ||
    (p.containerKind == BK.listItem && p.container.childCount == 1 && decide (p.container.label.start ≥ p.lineStart)))) = v
  obtain ⟨bd, hbd, _, hbc⟩ := hmi.container_open
  refine ⟨?_, ?_, hmi.ile⟩
  · show PBSpans Q 0 (curPos p) (setBlankFlags v p.root p.depth)
    apply setBlankFlags_spans v _ _ _ _ hmi.base
    rcases hq with hq | hq
    · exact Or.inl hq
    · exact Or.inr ⟨bd, hbd, by rw [← kind_of_container hbd]; exact hq⟩
  · intro j hj
    have hj : j ≤ p.depth := hj
    obtain ⟨l, hl, ho⟩ := hmi.sopen j hj
    obtain ⟨bj, hbj, e⟩ := labelAt_eq_some hl
    refine ⟨{ l with lastLineBlank := v }, ?_, ho⟩
    show labelAt (setBlankFlags v p.root p.depth) j = _
    simp only [labelAt, spineGet_setBlankFlags, hbj, Option.map_some, if_pos hj, setBlankFlags_label, e]

theorem altFlags_frame (b : Bool) (p : LP) : LFrame p (altFlags b p) := by
  unfold altFlags
  simp only []
  generalize (b && !(p.containerKind == BK.blockQuote || p.containerKind == BK.fencedCode ||
    (p.containerKind == BK.listItem && p.container.childCount == 1 && decide (p.container.label.start ≥ p.lineStart)))) = v
  refine ⟨rfl, rfl, rfl, rfl, ?_, fun h => ChainAbove_setBlankFlags v _ _ _ h, Nat.le_refl _⟩
  show spineGet (setBlankFlags v p.root p.depth) (p.depth + 1) = _
  rw [spineGet_setBlankFlags]
  cases spineGet p.root (p.depth + 1) with
  | none => rfl
  | some c => simp only [Option.map_some]; rw [if_neg (by omega)]

theorem altFlags_at {Q : ParaPred} (b : Bool) (p : LP) (hmi : MI Q p) (h : ChainAt p) : ChainAt (altFlags b p) := by
  unfold altFlags
  simp only []
  generalize (b && !(p.containerKind == BK.blockQuote || p.containerKind == BK.fencedCode ||
    (p.containerKind == BK.listItem && p.container.childCount == 1 && decide (p.container.label.start ≥ p.lineStart)))) = v
  obtain ⟨bd, hbd, _, hbc⟩ := hmi.container_open
  have hnew : spineGet (setBlankFlags v p.root p.depth) p.depth = some (setBlankFlags v bd 0) := by
    rw [spineGet_setBlankFlags, hbd]; simp
  unfold ChainAt at h ⊢
  rw [kind_of_container (p := { p with root := setBlankFlags v p.root p.depth }) hnew,
    container_of_spineGet (p := { p with root := setBlankFlags v p.root p.depth }) hnew]
  rw [kind_of_container hbd, hbc] at h
  obtain ⟨l, bs, is⟩ := bd
  exact h

/-! ### `altBlank` -/

theorem altBlank_MI (p : LP) (hmi : MI QT p) : MI QT (altBlank p) := by
  unfold altBlank
  split
  · refine ⟨?_, ?_, hmi.ile⟩
    · show PBSpans QT 0 (curPos p) (spineModify _ p.root p.depth)
      apply spineModify_spans _ p.depth p.root 0 hmi.base (fun j hj => hmi.sopen j (by omega))
      intro b lo' hb _ hsp
      obtain ⟨l, bs, is⟩ := b
      simp only []
      cases hgl : bs.getLast? with
      | none => exact hsp
      | some c =>
        simp only []
        rw [PBSpans_mk] at hsp ⊢
        obtain ⟨a1, a2, a3, a4, a5, a6, a7⟩ := hsp
        obtain ⟨e, hinit, hc, hpo, hge⟩ := getLast_split hgl a5
        refine ⟨a1, a2, a3, a4, ?_, ⟨?_, a7⟩⟩
        · rw [PBSpansL_snoc]
          refine ⟨hinit, PBSpans_setLabel (f := fun cl => { cl with lastLineBlank := true }) (fun _ => rfl) (fun _ => rfl)
            (fun _ => rfl) hc, fun ho => hpo ?_⟩
          rw [isOpen_iff, setLabel_label] at ho
          rw [isOpen_iff]; exact ho
        · rcases a6 with a6 | a6
          · exact Or.inl a6
          · rw [a6] at hgl; cases hgl
    · intro j hj
      obtain ⟨l, hl, ho⟩ := hmi.sopen j hj
      refine ⟨l, ?_, ho⟩
      show labelAt (spineModify _ p.root p.depth) j = some l
      rw [labelAt_modify_le _ blankFn_label _ _ _ hj]
      exact hl
  · exact hmi

theorem altBlank_src (p : LP) : (altBlank p).source = p.source ∧ (altBlank p).lineStart = p.lineStart ∧
    (altBlank p).line = p.line ∧ (altBlank p).i = p.i ∧ (altBlank p).depth = p.depth := by
  unfold altBlank
  split <;> exact ⟨rfl, rfl, rfl, rfl, rfl⟩

/-! ### appending inline children with an arbitrary upper bound -/

theorem appendInline_spans {Q : ParaPred} (root : PB) (d : Nat) (t : Tree) (C0 hi : Int) (h0 : PBSpans Q 0 C0 root)
    (hopen : SpineOpen root d) (h1 : C0 ≤ t.label.start) (h2 : t.label.start ≤ t.label.stop) (h3 : t.label.stop ≤ hi)
    (hQ : ∀ l is, Q l is = true) :
    PBSpans Q 0 hi (spineModify (fun b => match b with | .mk l bs is => .mk l bs (is ++ [t])) root d) ∧
    SpineOpen (spineModify (fun b => match b with | .mk l bs is => .mk l bs (is ++ [t])) root d) d := by
  refine ⟨?_, ?_⟩
  · apply spineModify_spans _ d root 0 (PBSpans_mono' (Int.le_refl _) (by omega) h0) (fun j hj => hopen j (by omega))
    intro b lo' hb _ hsp
    have hbo := hopen.open_of_get (Nat.le_refl _) hb
    obtain ⟨lo'', _, hsp0⟩ := spineGet_spans d root 0 b h0 hb
    obtain ⟨l, bs, is⟩ := b
    simp only [PB.label] at hbo
    show PBSpans Q lo' hi (PB.mk l bs (is ++ [t]))
    rw [PBSpans_mk, endOf_open hbo] at hsp hsp0 ⊢
    obtain ⟨a1, a2, a3, a4, a5, a6, a7⟩ := hsp
    obtain ⟨b1, b2, b3, b4, _⟩ := hsp0
    have hl := inlLast_le b2 b4
    exact ⟨a1, a2, a3, InlsOK_snoc b4 (by omega) h2 _ h3 (by omega), a5, a6, fun ho => ⟨(a7 ho).1, fun _ => hQ _ _⟩⟩
  · intro j hj
    obtain ⟨l, hl, ho⟩ := hopen j hj
    refine ⟨l, ?_, ho⟩
    exact (labelAt_modify_le _ (appendFn_label t) d root j hj).trans hl

/-- `altTail`: the text node (and the synthetic line break of a code block at the end of input). -/
theorem altTail_spans (q : LP) (C0 : Int) (h0 : PBSpans QT 0 C0 q.root) (hopen : SpineOpen q.root q.depth)
    (hC : C0 ≤ curPos q) (hile : q.i ≤ q.line.length) :
    PBSpans QT 0 (lineEnd q) (altTail q).root ∧ (altTail q).root.label.stop < 0 := by
  unfold altTail
  simp only []
  generalize (if (q.containerKind == BK.indentedCode || q.containerKind == BK.fencedCode) = true then IK.text
    else if (q.containerKind == BK.htmlBlock) = true then IK.rawHTML else IK.unparsed) = kd
  have hle := curPos_le_lineEnd hile
  have s1 := appendInline_spans (Q := QT) q.root q.depth
    (mkInline kd ((q.lineStart : Int) + (q.i : Int)) ((q.lineStart : Int) + (q.line.length : Int)))
    C0 (lineEnd q) h0 hopen hC hle (Int.le_refl _) (fun _ _ => rfl)
  split
  · have s2 := appendInline_spans (Q := QT) _ q.depth
      (mkInline IK.softBreak ((q.lineStart : Int) + (q.line.length : Int)) ((q.lineStart : Int) + (q.line.length : Int)))
      (lineEnd q) (lineEnd q) s1.1 s1.2 (Int.le_refl _) (Int.le_refl _) (Int.le_refl _) (fun _ _ => rfl)
    exact ⟨s2.1, s2.2.root_open⟩
  · exact ⟨s1.1, s1.2.root_open⟩

/-! ### the partially consumed tab -/

theorem consumeIndent_zero (fuel : Nat) (q : LP) : LP.consumeIndent fuel q 0 = q := by
  cases fuel with
  | zero => rfl
  | succ f => unfold LP.consumeIndent; simp

theorem consumeIndentN_tab (p : LP) (hlen : p.i < p.line.length) (htab : p.line.getD p.i 0 = TAB) (hrem : 0 < p.tabRem) :
    (p.consumeIndentN p.tabRem).i = p.i + 1 := by
  unfold LP.consumeIndentN LP.consumeIndent
  have hn : (p.tabRem == 0) = false := by simp; omega
  simp only [hn, Bool.false_eq_true, if_false]
  rw [markMatched_eq]
  have hsp' : ((TAB : UInt8) == CM.SP) = false := by decide
  simp only [hlen, htab, decide_true, Bool.true_and, hsp', Bool.false_eq_true, if_false, beq_self_eq_true, if_true,
    Nat.lt_irrefl, Nat.sub_self]
  rw [consumeIndent_zero, updateTab_i]

end CM.Proofs.BSp
