import CM.Proofs.CoverageOffset
import CM.Proofs.CoverageDoc
/-
C03, part B, stream level — **every root block delivered by `Parse` (block phase) covers every needed byte of its own
source.** `drain (blocksLP x) fuel (memParser inp) []` is the in-memory run of the stream machine over the model of the
real block parser. The decidable hypotheses of the per-line theorems are packaged as a *checked* line parser `blocksLPk`
(the same machine, which additionally evaluates before every line: `RefDefSpansOK` — the hypothesis of C02's `drain_spans`
— and `RefDefCoverOK` on the open paragraphs); a checked run that does not end in `coverFail` is the unchecked run
(`drainK_checked_eq`). The hypothesis `Fresh` of the per-line theorem is *proved* along the run: the state left by a line
that ended in `stateDescendTerminated` is reset by the next descent, because the document's only open child is its last
child and has a `match` function (`TopOK`), and `NextBlock` returns as soon as the document's first child is closed.

The parser works on the NUL-padded buffer; a delivered `Source` is `fillNulls head` for a slice `head` of that buffer.
`RootK` states the coverage on `head` (with NUL counted as needed); for an input without NUL bytes `head = Source`
(`drain_coverage`: the executable statement `Spec.coverage` holds for every delivered root).
-/
namespace CM.Proofs.Cov
open CM CM.Model CM.Gen CM.Spec CM.Spec.T CM.Proofs.BT CM.Proofs.BSp CM.Proofs.BG

def coverFail : String := "RefDefCoverOK failed"

/-- The block-phase line parser that also evaluates the decidable hypotheses before every line. -/
def blocksLPk (x : PExt) : LineParserI where
  σ := LP × Bool
  new children := ((blocksLP x).new children, true)
  line s source lineStart := (processLine x (s.1.reset source lineStart),
    s.2 && pbSpans (RefDefSpansOK x source lineStart source.length) 0 lineStart s.1.root
      && opB (RefDefCoverOK x source lineStart source.length) s.1.root)
  kids s := s.1.root.blocks
  panicked s := if s.2 then s.1.panic else some coverFail

def isCoverFail : NBOut → Bool
  | .panic m => m == coverFail
  | _ => false

/-- The blocks cover every needed byte of `buf[:i]`. -/
def CovL (buf : Bytes) (i : Nat) (bs : List PB) : Prop := ∀ j, j < i → need (buf.getD j 0) = true → covPBs bs j = true

/-- The invariant of the (in-memory) stream state between `NextBlock` calls. -/
structure BPK (buf0 : Bytes) (p : BP) : Prop where
  sp : BPInv p
  wf : ∀ b ∈ p.blocks, WF QT b
  cov : CovL p.buf p.i p.blocks
  sub : ∀ c ∈ p.buf, c ∈ buf0

/-- What is proved of a delivered root: its spans (C02), its well-formedness, and the coverage of the slice `head` of the
    padded buffer its `Source` was made from. -/
def RootK (buf0 : Bytes) (r : Root) : Prop :=
  RootSpansOK r ∧ WF QT r.block ∧
  ∃ head : Bytes, r.source = fillNulls head ∧ head.length = r.source.length ∧ (∀ c ∈ head, c ∈ buf0) ∧
    ∀ j, j < head.length → need (head.getD j 0) = true → covPB r.block j = true

theorem getD_take {l : Bytes} {n j : Nat} (h : j < n) : (l.take n).getD j 0 = l.getD j 0 := by
  simp only [List.getD_eq_getElem?_getD, List.getElem?_take, h, if_true]

theorem makeRoot_K (buf0 : Bytes) (p : BP) (kids : List PB) (po : Bool) (lo e : Int) (herr : p.err.isSome = true)
    (hi : p.i ≤ p.buf.length) (hlo : 0 ≤ lo) (he : e ≤ p.i) (hk : PBSpansL QT po lo e kids) (hwf : ∀ b ∈ kids, WF QT b)
    (hcov : CovL p.buf p.i kids) (hsub : ∀ c ∈ p.buf, c ∈ buf0) (r : Root) (p' : BP) (hm : makeRoot p kids = some (r, p')) :
    RootK buf0 r ∧ BPK buf0 p' := by
  have hsp := makeRoot_spans p kids po lo e herr hi hlo he hk r p' hm
  cases kids with
  | nil => simp [makeRoot] at hm
  | cons k rest =>
    simp only [makeRoot] at hm
    split at hm
    · cases hm
    · rename_i hko
      have hkc : 0 ≤ k.label.stop := by
        rw [← isOpen_false_iff]; simpa using hko
      simp only [Option.some.injEq, Prod.mk.injEq] at hm
      obtain ⟨rfl, rfl⟩ := hm
      rw [PBSpansL_cons] at hk
      obtain ⟨hk1, _, hk3⟩ := hk
      have hb := PBSpans_closed_bounds hk1 hkc
      have hn : ((k.label.stop.toNat : Nat) : Int) = k.label.stop := Int.toNat_of_nonneg hkc
      have hnle : k.label.stop.toNat ≤ p.i := by omega
      have hkw : WF QT k := hwf k List.mem_cons_self
      -- the leaves of `k` lie before `n`, those of the rest at or after `n`
      have hin_k : ∀ j : Nat, covPB k j = true → j < k.label.stop.toNat := by
        intro j hc
        have := (cov_in_span k e lo hk1 hkw j hc).2
        rw [endOf_closed hkc] at this
        omega
      have hin_rest : ∀ j : Nat, covPBs rest j = true → k.label.stop.toNat ≤ j := by
        intro j hc
        rw [covPBs_iff] at hc
        obtain ⟨b, hbm, hcb⟩ := hc
        obtain ⟨lo', hlo', hsb⟩ := PBSpansL_mem_ge hk3 b hbm
        have := (cov_in_span b e lo' hsb (hwf b (List.mem_cons_of_mem _ hbm)) j hcb).1
        have := PBSpans_start_ge hsb
        omega
      refine ⟨⟨hsp.1, hkw, p.buf.take k.label.stop.toNat, rfl, ?_, fun c hc => hsub c (List.mem_of_mem_take hc), ?_⟩,
        ⟨hsp.2, ?_, ?_, fun c hc => hsub c (List.mem_of_mem_drop hc)⟩⟩
      · show (p.buf.take k.label.stop.toNat).length = (fillNulls (p.buf.take k.label.stop.toNat)).length
        rw [fillNulls_length _ _ (Nat.le_refl _)]
      · intro j hj hn'
        have hjn : j < k.label.stop.toNat := by
          simp only [List.length_take] at hj; omega
        rw [getD_take hjn] at hn'
        have := hcov j (by omega) hn'
        rw [covPBs_cons, Bool.or_eq_true] at this
        rcases this with h' | h'
        · exact h'
        · have := hin_rest j h'; omega
      · intro b' hb'
        show WF QT b'
        have hb'' : b' ∈ offsetPBs (-(k.label.stop.toNat : Int)) rest := hb'
        rw [BG.offsetPBs_eq_map, List.mem_map] at hb''
        obtain ⟨b, hbm, rfl⟩ := hb''
        obtain ⟨lo', hlo', hsb⟩ := PBSpansL_mem_ge hk3 b hbm
        exact WF_offset k.label.stop.toNat b e lo' (by omega) hsb (hwf b (List.mem_cons_of_mem _ hbm))
      · intro j hj hn'
        show covPBs (offsetPBs (-(k.label.stop.toNat : Int)) rest) j = true
        have hj' : j < p.i - k.label.stop.toNat := hj
        have hn'' : need ((p.buf.drop k.label.stop.toNat).getD j 0) = true := hn'
        rw [getD_drop_add] at hn''
        rw [covPBs_offset]
        have := hcov (k.label.stop.toNat + j) (by omega) hn''
        rw [covPBs_cons, Bool.or_eq_true] at this
        rcases this with h' | h'
        · have := hin_k _ h'; omega
        · rw [Nat.add_comm]; exact h'

/-! ### one session -/

/-- The state of a session before its next line (which starts at `ls`). -/
structure SessK (ls : Nat) (p : BP) (lp : LP) : Prop where
  s : Sess ls p lp
  wf : WF QT lp.root
  cov : ∀ j, j < ls → need (p.buf.getD j 0) = true → covPB lp.root j = true
  /-- a state left in `stateDescendTerminated`: the document's last child is closed or can be matched -/
  fr : lp.root.label.stop < 0 → lp.state = 4 → TopOK lp.root
  /-- `makeRoot` found nothing to deliver: the document's first child (if any) is open -/
  fo : ∀ k rest, lp.root.blocks = k :: rest → k.isOpen = true

theorem reset_state (p : LP) (source : Bytes) (lineStart : Nat) : (p.reset source lineStart).state = p.state := by
  unfold LP.reset
  rw [updateTab_state]

theorem makeRoot_none_open {p : BP} {k : PB} {rest : List PB} (h : makeRoot p (k :: rest) = none) : k.isOpen = true := by
  cases hk : k.isOpen with
  | true => rfl
  | false => simp [makeRoot, hk] at h

theorem covPB_doc {l : PLabel} {bs : List PB} {is : List Tree} (hk : l.kind = BK.document) (hne : bs ≠ []) (j : Nat) :
    covPB (.mk l bs is) j = covPBs bs j := by
  rw [covPB_mk_blocks _ _ _ _ hne]
  have : markerCov l j = false := by simp [markerCov, hk, BK.document, BK.listMarker]
  rw [this, Bool.false_or]

theorem parseLines_K (x : PExt) (buf0 : Bytes) : ∀ (fuel : Nat) (lp : LP) (ok : Bool) (ls : Nat) (p : BP), p.err.isSome = true →
    p.i ≤ p.buf.length → p.i = ls + lineLen (p.buf.drop ls) → (∀ c ∈ p.buf, c ∈ buf0) → SessK ls p lp →
    ∀ r p', parseLines (blocksLPk x) fuel (lp, ok) ls p = (.block r, p') → RootK buf0 r ∧ BPK buf0 p' := by
  intro fuel
  induction fuel with
  | zero => intro lp ok ls p _ _ _ _ _ r p' h; simp [parseLines] at h
  | succ fuel ih =>
    intro lp ok ls p herr hi hline hsub hsess r p' h
    obtain ⟨hlp, hcase⟩ := hsess.s
    have hls : ls ≤ p.i := by omega
    have hrel : ls = p.i → p.buf.drop p.i = [] := by
      intro e
      have h0 : lineLen (p.buf.drop ls) = 0 := by omega
      rw [← e]; exact lineLen_eq_zero h0
    have hsl : (p.buf.take p.i).length = p.i := by simp [hi]
    have hnp := processLine_no_panic x _ (reset_LPInv lp hlp (p.buf.take p.i) ls)
    have hrl : readline (p.rd.data.length + p.rd.sched.length + 2) p =
        (decide (0 < lineLen (p.buf.drop p.i)), { p with i := p.i + lineLen (p.buf.drop p.i) }) :=
      CM.Model.readline_mem (p.rd.data.length + p.rd.sched.length + 1) p herr hi
    have hi2 : p.i + lineLen (p.buf.drop p.i) ≤ p.buf.length := by
      have := lineLen_le (p.buf.drop p.i)
      simp only [List.length_drop] at this
      omega
    simp only [parseLines, blocksLPk] at h
    cases hok : (ok && pbSpans (RefDefSpansOK x (p.buf.take p.i) ↑ls ↑(p.buf.take p.i).length) 0 ↑ls lp.root
        && opB (RefDefCoverOK x (p.buf.take p.i) ↑ls ↑(p.buf.take p.i).length) lp.root)
    · rw [hok] at h
      simp at h
    · rw [hok] at h
      simp only [if_true, hnp.1] at h
      simp only [Bool.and_eq_true] at hok
      obtain ⟨⟨_, hc1⟩, hc2⟩ := hok
      rcases hcase with ⟨hopen, hsp⟩ | ⟨hclosed, hnob, hlsi, hdrop⟩
      · -- a live session
        have key := BSp.processLine_spans x lp (p.buf.take p.i) ls hlp (by rw [hsl]; exact hls) hopen hc1
        have heol : EolOK ((p.buf.take p.i).drop ls) := by
          have e : (p.buf.take p.i).drop ls = (p.buf.drop ls).take (lineLen (p.buf.drop ls)) := by
            rw [List.drop_take]; congr 1; omega
          rw [e]; exact eolOK_line _
        -- the state left by the previous line is not mistaken for "line consumed"
        have hfresh : Fresh x (lp.reset (p.buf.take p.i) ls) := by
          by_cases h4 : lp.state = 4
          · right
            obtain ⟨c, hc, hcm⟩ := hsess.fr hopen h4
            have hmk := hsess.fo
            have hsp2 := hsp
            rcases hlr : lp.root with ⟨l, bs, is⟩
            rw [hlr] at hc hsp2 hmk
            rw [spineGet_succ] at hc
            cases hgl : bs.getLast? with
            | none => rw [hgl] at hc; cases hc
            | some c0 =>
              rw [hgl] at hc
              have hc' : spineGet c0 0 = some c := hc
              rw [spineGet_zero] at hc'
              have hcc : c0 = c := Option.some.inj hc'
              subst hcc
              cases bs with
              | nil => cases hgl
              | cons k rest =>
                have hko := hmk k rest rfl
                rw [PBSpans_mk] at hsp2
                obtain ⟨_, _, _, _, a5, _⟩ := hsp2
                rw [PBSpansL_cons] at a5
                have hrest := (a5.2.1 hko).1
                subst hrest
                simp only [List.getLast?_singleton, Option.some.injEq] at hgl
                subst hgl
                refine ⟨k, ?_, hko, ?_⟩
                · rw [(BSp.reset_fields lp (p.buf.take p.i) ls).1, hlr, spineGet_succ]
                  simp [spineGet_zero]
                · rw [ruleMatch_isSome]; exact hcm hko
          · left; rw [reset_state]; exact h4
        have d := processLine_cover x lp (p.buf.take p.i) ls hlp (by rw [hsl]; exact hls) heol hsess.wf
          (fun j hj hn => hsess.cov j hj (by rw [← getD_take (show j < p.i by omega)]; exact hn)) hc2 hfresh
        rw [hsl] at key
        generalize processLine x (lp.reset (p.buf.take p.i) ls) = lp' at h hnp key d
        rcases hr : lp'.root with ⟨l, bs, is⟩
        have hkids : lp'.root.blocks = bs := by rw [hr]; rfl
        have hkd : l.kind = BK.document := by
          have := hnp.2.root
          rw [hr] at this; exact this
        rw [hkids] at h
        have hsp' := key.1
        rw [hr, PBSpans_mk] at hsp'
        obtain ⟨a1, a2, a3, a4, a5, a6⟩ := hsp'
        have hwr := d.ci.wf
        rw [hr] at hwr
        have hwk := (WF_mk.mp hwr).2.2.2
        have hall : ∀ j, j < p.i → need (p.buf.getD j 0) = true → covPB lp'.root j = true := by
          intro j hj hn
          exact d.all j (by rw [hsl]; exact hj) (by rw [getD_take hj]; exact hn)
        cases hmk : makeRoot p bs with
        | some rp =>
          obtain ⟨r0, p0⟩ := rp
          rw [hmk] at h
          simp only [Prod.mk.injEq, NBOut.block.injEq] at h
          obtain ⟨rfl, rfl⟩ := h
          have hne : bs ≠ [] := by
            intro e; rw [e] at hmk; simp [makeRoot] at hmk
          apply makeRoot_K buf0 p bs _ _ _ herr hi a1 a3 a5 hwk _ hsub _ _ hmk
          intro j hj hn
          have := hall j hj hn
          rw [hr, covPB_doc hkd hne] at this
          exact this
        | none =>
          rw [hmk] at h
          simp only [hrl] at h
          apply ih lp' true p.i ({ p with i := p.i + lineLen (p.buf.drop p.i) } : BP) herr hi2 rfl hsub _ r p' h
          refine ⟨⟨hnp.2, ?_⟩, d.ci.wf, hall, fun _ h4 => d.top h4, fun k rest e => by
            rw [hkids] at e; rw [e] at hmk; exact makeRoot_none_open hmk⟩
          by_cases hro : lp'.root.label.stop < 0
          · exact Or.inl ⟨hro, key.1⟩
          · right
            have hrc : 0 ≤ l.stop := by rw [hr] at hro; simp only [PB.label] at hro; omega
            have hlt : ¬ ls < p.i := fun hlt => hro (key.2 hlt)
            have hlsi : ls = p.i := by omega
            have hd := hrel hlsi
            have h0 : lineLen (p.buf.drop p.i) = 0 := by rw [hd]; rfl
            refine ⟨by rw [hr]; exact hrc, ?_, ?_, ?_⟩
            · rw [hkids]
              cases bs with
              | nil => rfl
              | cons k rest =>
                exfalso
                have hd1 : decide (l.stop < 0) = false := by simp; omega
                rw [hd1] at a5
                have hkc := allClosed_of_false a5 k (by simp)
                have : k.isOpen = false := (isOpen_false_iff k).mpr hkc
                simp [makeRoot, this] at hmk
            · show p.i = p.i + lineLen (p.buf.drop p.i)
              omega
            · show p.buf.drop (p.i + lineLen (p.buf.drop p.i)) = []
              rw [h0, Nat.add_zero]; exact hd
      · -- a dead session
        have hdl : (p.buf.take p.i).drop ls = [] := by
          rw [hlsi]; simp
        have hroot := processLine_dead x lp (p.buf.take p.i) ls hdl hclosed hnob
        generalize processLine x (lp.reset (p.buf.take p.i) ls) = lp' at h hnp hroot
        rw [hroot, hnob] at h
        simp only [makeRoot, hrl] at h
        have h0 : lineLen (p.buf.drop p.i) = 0 := by rw [hdrop]; rfl
        apply ih lp' true p.i ({ p with i := p.i + lineLen (p.buf.drop p.i) } : BP) herr hi2 rfl hsub _ r p' h
        refine ⟨⟨hnp.2, Or.inr ⟨by rw [hroot]; exact hclosed, by rw [hroot]; exact hnob, ?_, ?_⟩⟩, by rw [hroot]; exact hsess.wf,
          fun j hj hn => by rw [hroot]; exact hsess.cov j (by omega) hn,
          fun ho => by rw [hroot] at ho; omega, fun k rest e => by rw [hroot, hnob] at e; cases e⟩
        · show p.i = p.i + lineLen (p.buf.drop p.i)
          omega
        · show p.buf.drop (p.i + lineLen (p.buf.drop p.i)) = []
          rw [h0, Nat.add_zero]; exact hdrop

/-! ### `skipBlank`, `NextBlock`, `drain` -/

theorem skipBlank_K : ∀ (fuel : Nat) (p q q' : BP), p.err.isSome = true → p.i ≤ p.buf.length → p.i = 0 →
    skipBlank fuel p = (some q, q') →
    q.err.isSome = true ∧ q.i ≤ q.buf.length ∧ q.blocks = p.blocks ∧ q.i = 0 + lineLen (q.buf.drop 0) ∧ (∀ c ∈ q.buf, c ∈ p.buf) := by
  intro fuel
  induction fuel with
  | zero => intro p q q' _ _ _ h; simp [skipBlank] at h
  | succ fuel ih =>
    intro p q q' herr hi h0 h
    have hrl : readline (p.rd.data.length + p.rd.sched.length + 2) p =
        (decide (0 < lineLen (p.buf.drop p.i)), { p with i := p.i + lineLen (p.buf.drop p.i) }) :=
      CM.Model.readline_mem (p.rd.data.length + p.rd.sched.length + 1) p herr hi
    have hi2 : p.i + lineLen (p.buf.drop p.i) ≤ p.buf.length := by
      have := lineLen_le (p.buf.drop p.i)
      simp only [List.length_drop] at this
      omega
    simp only [skipBlank, hrl] at h
    split at h
    · cases h
    · split at h
      · simp only [Prod.mk.injEq, Option.some.injEq] at h
        obtain ⟨rfl, _⟩ := h
        exact ⟨herr, hi2, rfl, by show p.i + lineLen (p.buf.drop p.i) = 0 + lineLen (p.buf.drop 0); rw [h0], fun c hc => hc⟩
      · have := ih _ q q' (by exact herr) (by simp) rfl h
        obtain ⟨r1, r2, r3, r4, r5⟩ := this
        exact ⟨r1, r2, r3, r4, fun c hc => List.mem_of_mem_drop (r5 c hc)⟩

theorem docRoot_WF (bs : List PB) (h : ∀ b ∈ bs, WF QT b) : WF QT (docRoot bs) := by
  unfold docRoot
  rw [WF_mk]
  refine ⟨⟨?_, fun hk => (by cases hk)⟩, ⟨fun _ hc => (by cases hc), fun _ _ hc => (by cases hc)⟩,
    fun _ => ⟨(by decide), fun hk => (by cases hk)⟩, h⟩
  rw [if_pos (by decide)]

theorem new_sessK (x : PExt) (bs : List PB) (ls : Nat) (p : BP) (h : PBSpansL QT true 0 ls bs) (hw : ∀ b ∈ bs, WF QT b)
    (hc : CovL p.buf ls bs) (hmk : ∀ k rest, bs = k :: rest → k.isOpen = true) : SessK ls p ((blocksLP x).new bs) := by
  refine ⟨new_sess x bs ls p h, docRoot_WF bs hw, ?_, fun _ h4 => (by cases h4), fun k rest e => hmk k rest e⟩
  intro j hj hn
  show covPB (docRoot bs) j = true
  have := hc j hj hn
  have hne : bs ≠ [] := by intro e; rw [e] at this; cases this
  unfold docRoot
  rw [covPB_doc rfl hne]; exact this

theorem nextBlock_K (x : PExt) (buf0 : Bytes) (p : BP) (hp : BPK buf0 p) (r : Root) (p' : BP)
    (h : nextBlock (blocksLPk x) p = (.block r, p')) : RootK buf0 r ∧ BPK buf0 p' := by
  unfold nextBlock at h
  cases hmk0 : makeRoot p p.blocks with
  | some rp =>
    obtain ⟨r0, p0⟩ := rp
    rw [hmk0] at h
    simp only [Prod.mk.injEq, NBOut.block.injEq] at h
    obtain ⟨rfl, rfl⟩ := h
    exact makeRoot_K buf0 p p.blocks true 0 p.i hp.sp.err hp.sp.ile (Int.le_refl _) (Int.le_refl _) hp.sp.blocks hp.wf hp.cov
      hp.sub _ _ hmk0
  | none =>
    rw [hmk0] at h
    simp only [] at h
    have hrl : readline (p.rd.data.length + p.rd.sched.length + 2) p =
        (decide (0 < lineLen (p.buf.drop p.i)), { p with i := p.i + lineLen (p.buf.drop p.i) }) :=
      CM.Model.readline_mem (p.rd.data.length + p.rd.sched.length + 1) p hp.sp.err hp.sp.ile
    have hi2 : p.i + lineLen (p.buf.drop p.i) ≤ p.buf.length := by
      have := lineLen_le (p.buf.drop p.i)
      simp only [List.length_drop] at this
      have := hp.sp.ile
      omega
    split at h
    · -- left-over blocks: continue their session
      simp only [hrl] at h
      exact parseLines_K x buf0 _ _ true p.i ({ p with i := p.i + lineLen (p.buf.drop p.i) } : BP) hp.sp.err hi2 rfl hp.sub
        (new_sessK x p.blocks p.i _ hp.sp.blocks hp.wf hp.cov (fun k rest e => by
          rw [e] at hmk0; exact makeRoot_none_open hmk0)) r p' h
    · -- a fresh session
      rename_i hlen
      have hbl : p.blocks = [] := by
        cases hb : p.blocks with
        | nil => rfl
        | cons a t => rw [hb] at hlen; simp at hlen
      split at h
      · split at h
        · simp at h
        · simp at h
      · rename_i q q2 hsk
        have hq := skipBlank_K _ _ q q2 (by exact hp.sp.err) (by simp) rfl hsk
        obtain ⟨q1, q2', q3, q4, q5⟩ := hq
        have hqb : q.blocks = [] := by rw [q3]; exact hbl
        rw [hqb] at h
        refine parseLines_K x buf0 _ _ true 0 q q1 q2' q4 (fun c hc => hp.sub c (List.mem_of_mem_drop (q5 c hc)))
          (new_sessK x [] 0 q (PBSpansL_nil _ _ _ _) (fun _ hc => by cases hc) (fun j hj => by omega)
            (fun _ _ e => by cases e)) r p' h

theorem drainK_roots (x : PExt) (buf0 : Bytes) : ∀ (fuel : Nat) (p : BP) (acc : List Root), BPK buf0 p →
    (∀ r ∈ acc, RootK buf0 r) → ∀ r ∈ (drain (blocksLPk x) fuel p acc).1, RootK buf0 r := by
  intro fuel
  induction fuel with
  | zero => intro p acc _ hacc r hr; simp only [drain, List.mem_reverse] at hr; exact hacc r hr
  | succ fuel ih =>
    intro p acc hp hacc r hr
    unfold drain at hr
    split at hr
    · rename_i r0 p0 hnb
      obtain ⟨h1, h2⟩ := nextBlock_K x buf0 p hp r0 p0 hnb
      exact ih p0 (r0 :: acc) h2 (fun r' hr' => by
        rcases List.mem_cons.mp hr' with rfl | hr'
        · exact h1
        · exact hacc r' hr') r hr
    · simp only [List.mem_reverse] at hr; exact hacc r hr

theorem memParser_K (inp : Bytes) : BPK (padNulls inp 0) (memParser inp) :=
  ⟨memParser_inv inp, fun _ h => (by cases h), fun j hj => (by
    have : (memParser inp).i = 0 := rfl
    omega), fun c hc => hc⟩

/-! ### the checked machine is the machine -/

theorem parseLinesK_checked_eq (x : PExt) : ∀ (fuel : Nat) (lp : LP) (ok : Bool) (ls : Nat) (p : BP),
    isCoverFail (parseLines (blocksLPk x) fuel (lp, ok) ls p).1 = false →
    parseLines (blocksLP x) fuel lp ls p = parseLines (blocksLPk x) fuel (lp, ok) ls p := by
  intro fuel
  induction fuel with
  | zero => intro lp ok ls p _; rfl
  | succ fuel ih =>
    intro lp ok ls p h
    simp only [parseLines, blocksLPk, blocksLP] at h ⊢
    cases hok : (ok && pbSpans (RefDefSpansOK x (p.buf.take p.i) ↑ls ↑(p.buf.take p.i).length) 0 ↑ls lp.root
        && opB (RefDefCoverOK x (p.buf.take p.i) ↑ls ↑(p.buf.take p.i).length) lp.root)
    · rw [hok] at h
      simp [isCoverFail] at h
    · rw [hok] at h
      simp only [if_true] at h ⊢
      cases hpan : (processLine x (lp.reset (p.buf.take p.i) ls)).panic with
      | some m => rfl
      | none =>
        rw [hpan] at h
        simp only [] at h ⊢
        cases hmk : makeRoot p (processLine x (lp.reset (p.buf.take p.i) ls)).root.blocks with
        | some rp => rfl
        | none =>
          rw [hmk] at h
          simp only [] at h ⊢
          exact ih _ true _ _ h

theorem nextBlockK_checked_eq (x : PExt) (p : BP) (h : isCoverFail (nextBlock (blocksLPk x) p).1 = false) :
    nextBlock (blocksLP x) p = nextBlock (blocksLPk x) p := by
  unfold nextBlock at h ⊢
  cases hmk : makeRoot p p.blocks with
  | some rp => rfl
  | none =>
    rw [hmk] at h
    simp only [] at h ⊢
    split
    · rename_i hlen
      simp only [hlen, if_true] at h
      exact parseLinesK_checked_eq x _ _ true _ _ h
    · rename_i hlen
      simp only [hlen, if_false] at h
      split
      · rfl
      · rename_i q q2 hsk
        rw [hsk] at h
        exact parseLinesK_checked_eq x _ _ true _ _ h

theorem drainK_checked_eq (x : PExt) : ∀ (fuel : Nat) (p : BP) (acc : List Root),
    isCoverFail (drain (blocksLPk x) fuel p acc).2.1 = false →
    drain (blocksLP x) fuel p acc = drain (blocksLPk x) fuel p acc := by
  intro fuel
  induction fuel with
  | zero => intro p acc _; rfl
  | succ fuel ih =>
    intro p acc h
    unfold drain at h ⊢
    cases hnb : nextBlock (blocksLPk x) p with
    | mk o p' =>
      rw [hnb] at h
      cases o with
      | block r =>
        simp only [] at h
        rw [nextBlockK_checked_eq x p (by rw [hnb]; rfl)]
        rw [hnb]
        exact ih p' (r :: acc) h
      | err e =>
        rw [nextBlockK_checked_eq x p (by rw [hnb]; rfl)]
        rw [hnb]
      | panic m =>
        simp only [] at h
        rw [nextBlockK_checked_eq x p (by rw [hnb]; exact h)]
        rw [hnb]

/-! ### the theorems -/

/-- **Every root block delivered by the block parser on an in-memory input**: valid spans (C02), well formed, and every
    needed byte of the slice of the padded buffer its `Source` was made from is covered by a leaf — provided the checks
    never fail along the run (a decidable property of `(x, inp, fuel)`). -/
theorem drain_cover (x : PExt) (inp : Bytes) (fuel : Nat)
    (h : isCoverFail (drain (blocksLPk x) fuel (memParser inp) []).2.1 = false) :
    ∀ r ∈ (drain (blocksLP x) fuel (memParser inp) []).1, RootK (padNulls inp 0) r := by
  rw [drainK_checked_eq x fuel _ [] h]
  exact drainK_roots x _ fuel _ [] (memParser_K inp) (fun _ hr => by cases hr)

theorem fillNulls_no_nul : ∀ (b : Bytes), (∀ c ∈ b, c ≠ 0) → fillNulls b = b := by
  intro b
  induction b with
  | nil => intro _; exact fillNulls_nil
  | cons c rest ih =>
    intro h
    rw [fillNulls_cons_ne (h c List.mem_cons_self), ih (fun d hd => h d (List.mem_cons_of_mem _ hd))]

theorem padNulls_no_nul : ∀ (b : Bytes), (∀ c ∈ b, c ≠ 0) → padNulls b 0 = b := by
  intro b
  induction b with
  | nil => intro _; exact padNulls_nil
  | cons c rest ih =>
    intro h
    rw [padNulls_cons_ne (h c List.mem_cons_self), ih (fun d hd => h d (List.mem_cons_of_mem _ hd))]

/-- **C03 for the block phase, input without NUL bytes**: the executable statement `Spec.coverage` (no byte of `Source`
    covered twice, every letter, digit and byte ≥ 0x80 covered exactly once) holds for every root block `Parse` delivers
    (before inline rewriting), provided the checks never fail along the run. -/
theorem drain_coverage (x : PExt) (inp : Bytes) (fuel : Nat) (hz : ∀ c ∈ inp, c ≠ 0)
    (h : isCoverFail (drain (blocksLPk x) fuel (memParser inp) []).2.1 = false) :
    ∀ r ∈ (drain (blocksLP x) fuel (memParser inp) []).1, coverage r.source (pbToTree r.block) = true := by
  intro r hr
  obtain ⟨hsp, hwf, head, hsrc, hlen, hsub, hcov⟩ := drain_cover x inp fuel h r hr
  have hg := (drain_grammar_mem x fuel inp r hr).1
  have hdup := root_no_duplication r hsp hwf hg
  have hnz : ∀ c ∈ head, c ≠ 0 := by
    intro c hc
    have := hsub c hc
    rw [padNulls_no_nul inp hz] at this
    exact hz c this
  have hhead : r.source = head := by rw [hsrc]; exact fillNulls_no_nul head hnz
  simp only [coverage, List.all_eq_true, List.mem_range, Bool.and_eq_true, decide_eq_true_eq, Bool.or_eq_true,
    Bool.not_eq_true', beq_iff_eq]
  intro j hj
  refine ⟨hdup j, ?_⟩
  cases hn : needsCover (r.source.getD j 0) with
  | false => exact Or.inl rfl
  | true =>
    right
    have h1 : 1 ≤ coverCount (leaves (pbToTree r.block)) j := by
      rw [← covT_iff_count]
      apply hcov j (by rw [← hhead]; exact hj)
      rw [← hhead]
      simp only [need, hn, Bool.true_or]
    have := hdup j
    omega

/-! ### Non-vacuity -/

section Examples

-- the checks never fail on `dupDoc` (nested lists in a block quote, a fenced code block with an info string, a setext
-- heading; three roots) …
example : isCoverFail (drain (blocksLPk btX) 20 (memParser dupDoc) []).2.1 = false := by decide +kernel
-- … so `Spec.coverage` holds for every root block delivered:
example : ∀ r ∈ (drain (blocksLP btX) 20 (memParser dupDoc) []).1, coverage r.source (pbToTree r.block) = true :=
  drain_coverage btX dupDoc 20 (by decide +kernel) (by decide +kernel)
example : (drain (blocksLP btX) 20 (memParser dupDoc) []).1.length = 3 := by decide +kernel

end Examples

end CM.Proofs.Cov
