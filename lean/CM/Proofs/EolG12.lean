import CM.Proofs.EolG11
/-
C14 (a), block phase with link reference definitions — part 12: as long as no check fails, the checked run (`blocksLPq`) is
the run (`blocksLP`).
-/
namespace CM.Proofs.EolG
open CM CM.Model CM.Gen CM.Proofs CM.Proofs.RDS CM.Proofs.BSp CM.Proofs.ERd CM.Proofs.BG CM.Proofs.BT CM.Proofs.EolX

section
variable {x : PExt} {e inp : Bytes} {w : Nat}

/-! ### The checked run is the run -/

theorem parseLines_q_eq : ∀ (fuel : Nat) (lp : LP) (ok : Bool) (ls : Nat) (p : BP),
    ¬ IsPanic (parseLines (blocksLPq x w) fuel (lp, ok) ls p).1 →
    parseLines (blocksLP x) fuel lp ls p = parseLines (blocksLPq x w) fuel (lp, ok) ls p := by
  intro fuel
  induction fuel with
  | zero => intro lp ok ls p _; rfl
  | succ fuel ih =>
    intro lp ok ls p h
    simp only [parseLines, blocksLPq, blocksLP] at h ⊢
    cases hok : (ok && chkB w (p.buf.take p.i) lp.root)
    · rw [hok] at h
      exact absurd ⟨_, rfl⟩ h
    · rw [hok] at h
      simp only [if_true] at h ⊢
      cases hpan : (processLine x (lp.reset (p.buf.take p.i) ls)).panic with
      | some m => rfl
      | none =>
        rw [hpan] at h
        simp only [] at h ⊢
        cases hmk : makeRoot p (processLine x (lp.reset (p.buf.take p.i) ls)).root.blocks with
        | some rp => rfl
        | none =>
          rw [hmk] at h
          simp only [] at h ⊢
          exact ih _ true _ _ h

theorem nextBlock_q_eq (p : BP) (h : ¬ IsPanic (nextBlock (blocksLPq x w) p).1) :
    nextBlock (blocksLP x) p = nextBlock (blocksLPq x w) p := by
  unfold nextBlock at h ⊢
  cases hmk : makeRoot p p.blocks with
  | some rp => rfl
  | none =>
    rw [hmk] at h
    simp only [] at h ⊢
    split
    · rename_i hlen
      simp only [hlen, if_true] at h
      exact parseLines_q_eq _ _ true _ _ h
    · rename_i hlen
      simp only [hlen, if_false] at h
      split
      · rfl
      · rename_i q q2 hsk
        rw [hsk] at h
        exact parseLines_q_eq _ _ true _ _ h

theorem drain_q_eq : ∀ (n : Nat) (p : BP) (acc : List Root), ¬ IsPanic (drain (blocksLPq x w) n p acc).2.1 →
    drain (blocksLP x) n p acc = drain (blocksLPq x w) n p acc := by
  intro n
  induction n with
  | zero => intro p acc _; rfl
  | succ n ih =>
    intro p acc h
    unfold drain at h ⊢
    cases hnb : nextBlock (blocksLPq x w) p with
    | mk o p' =>
      rw [hnb] at h
      cases o with
      | block r =>
        simp only [] at h
        rw [nextBlock_q_eq p (by rw [hnb]; rintro ⟨m, hm⟩; cases hm), hnb]
        exact ih p' (r :: acc) h
      | err er =>
        rw [nextBlock_q_eq p (by rw [hnb]; rintro ⟨m, hm⟩; cases hm), hnb]
      | panic m =>
        exact absurd ⟨m, rfl⟩ h

/-! ### A check that always passes -/

theorem parseLines_q_all (hall : ∀ src b, chkB w src b = true) : ∀ (fuel : Nat) (lp : LP) (ls : Nat) (p : BP),
    parseLines (blocksLP x) fuel lp ls p = parseLines (blocksLPq x w) fuel (lp, true) ls p := by
  intro fuel
  induction fuel with
  | zero => intro lp ls p; rfl
  | succ fuel ih =>
    intro lp ls p
    simp only [parseLines, blocksLPq, blocksLP]
    rw [hall]
    simp only [Bool.and_self, if_true]
    cases hpan : (processLine x (lp.reset (p.buf.take p.i) ls)).panic with
    | some m => rfl
    | none =>
      simp only []
      cases hmk : makeRoot p (processLine x (lp.reset (p.buf.take p.i) ls)).root.blocks with
      | some rp => rfl
      | none =>
        simp only []
        exact ih _ _ _

theorem nextBlock_q_all (hall : ∀ src b, chkB w src b = true) (p : BP) :
    nextBlock (blocksLP x) p = nextBlock (blocksLPq x w) p := by
  unfold nextBlock
  cases hmk : makeRoot p p.blocks with
  | some rp => rfl
  | none =>
    simp only []
    split
    · exact parseLines_q_all hall _ _ _ _
    · split
      · rfl
      · exact parseLines_q_all hall _ _ _ _

theorem drain_q_all (hall : ∀ src b, chkB w src b = true) : ∀ (n : Nat) (p : BP) (acc : List Root),
    drain (blocksLP x) n p acc = drain (blocksLPq x w) n p acc := by
  intro n
  induction n with
  | zero => intro p acc; rfl
  | succ n ih =>
    intro p acc
    unfold drain
    rw [nextBlock_q_all hall p]
    cases hnb : nextBlock (blocksLPq x w) p with
    | mk o p' =>
      cases o with
      | block r => exact ih p' (r :: acc)
      | err er => rfl
      | panic m => rfl

end

end CM.Proofs.EolG
