import CM.Model.Inlines
import CM.Spec.TreeWF
/-
C02, inline half — definitions and pure lemmas.
`WFT t` / `WFL lo hi ts`: the span discipline of a tree / of a forest inside `[lo, hi]` (valid spans, children in order,
disjoint, inside the parent) — the per-node conjunct of `Spec.spansOK`, recursively.
`ChainA a lo hi ks`: the same for a list of arena indices (the `kids` of an arena node): `lo ≤ s₁ ≤ e₁ ≤ s₂ ≤ … ≤ eₙ ≤ hi`.
-/
namespace CM.Proofs.InlH
open CM CM.Model CM.Model.Inl CM.Spec

/-! ### trees -/

mutual
/-- The span of the node is valid and its children form a chain inside it, recursively. -/
def WFT : Tree → Prop
  | .node l cs => l.start ≤ l.stop ∧ WFL l.start l.stop cs
/-- The trees are well-formed, in order, disjoint, inside `[lo, hi]`. -/
def WFL : Int → Int → List Tree → Prop
  | lo, hi, [] => lo ≤ hi
  | lo, hi, c :: cs => lo ≤ c.label.start ∧ WFT c ∧ WFL c.label.stop hi cs
end

theorem WFT_iff (t : Tree) : WFT t ↔ t.label.start ≤ t.label.stop ∧ WFL t.label.start t.label.stop t.children := by
  obtain ⟨l, cs⟩ := t
  rw [WFT]; rfl

theorem WFL_nil (lo hi : Int) : WFL lo hi [] ↔ lo ≤ hi := by rw [WFL]

theorem WFL_cons (lo hi : Int) (c : Tree) (cs : List Tree) :
    WFL lo hi (c :: cs) ↔ lo ≤ c.label.start ∧ WFT c ∧ WFL c.label.stop hi cs := by rw [WFL]

theorem WFL.le : ∀ {ts : List Tree} {lo hi : Int}, WFL lo hi ts → lo ≤ hi := by
  intro ts
  induction ts with
  | nil => intro lo hi h; exact (WFL_nil _ _).1 h
  | cons c cs ih =>
    intro lo hi h
    rw [WFL_cons] at h
    have := ih h.2.2
    have := ((WFT_iff c).1 h.2.1).1
    omega

theorem WFL.mono : ∀ {ts : List Tree} {lo hi lo' hi' : Int}, WFL lo hi ts → lo' ≤ lo → hi ≤ hi' → WFL lo' hi' ts := by
  intro ts
  induction ts with
  | nil => intro lo hi lo' hi' h h1 h2; rw [WFL_nil] at h ⊢; omega
  | cons c cs ih =>
    intro lo hi lo' hi' h h1 h2
    rw [WFL_cons] at h ⊢
    exact ⟨by omega, h.2.1, ih h.2.2 (Int.le_refl _) h2⟩

theorem WFL_append : ∀ {xs ys : List Tree} {lo hi : Int},
    WFL lo hi (xs ++ ys) ↔ ∃ m, WFL lo m xs ∧ WFL m hi ys := by
  intro xs
  induction xs with
  | nil =>
    intro ys lo hi
    constructor
    · intro h; exact ⟨lo, (WFL_nil _ _).2 (Int.le_refl _), h⟩
    · rintro ⟨m, h1, h2⟩; exact h2.mono ((WFL_nil _ _).1 h1) (Int.le_refl _)
  | cons c cs ih =>
    intro ys lo hi
    rw [List.cons_append, WFL_cons]
    constructor
    · rintro ⟨h1, h2, h3⟩
      obtain ⟨m, h4, h5⟩ := ih.1 h3
      exact ⟨m, (WFL_cons _ _ _ _).2 ⟨h1, h2, h4⟩, h5⟩
    · rintro ⟨m, h1, h2⟩
      rw [WFL_cons] at h1
      exact ⟨h1.1, h1.2.1, ih.2 ⟨m, h1.2.2, h2⟩⟩

/-- A leaf `[a, b)`. -/
theorem WFT_leaf (l : Label) (h : l.start ≤ l.stop) : WFT (.node l []) := by
  rw [WFT, WFL_nil]; exact ⟨h, h⟩

theorem WFL_single {lo hi : Int} {t : Tree} (h1 : lo ≤ t.label.start) (h2 : WFT t) (h3 : t.label.stop ≤ hi) :
    WFL lo hi [t] := by
  rw [WFL_cons, WFL_nil]; exact ⟨h1, h2, h3⟩

/-- What `WFL` gives for every tree of the list. -/
theorem WFL.mem : ∀ {ts : List Tree} {lo hi : Int}, WFL lo hi ts →
    ∀ t ∈ ts, lo ≤ t.label.start ∧ t.label.stop ≤ hi ∧ WFT t := by
  intro ts
  induction ts with
  | nil => intro lo hi _ t ht; cases ht
  | cons c cs ih =>
    intro lo hi h t ht
    rw [WFL_cons] at h
    have hc := ((WFT_iff c).1 h.2.1).1
    rcases List.mem_cons.1 ht with rfl | ht
    · exact ⟨h.1, h.2.2.le, h.2.1⟩
    · obtain ⟨a, b, d⟩ := ih h.2.2 t ht
      exact ⟨by omega, b, d⟩

/-- `WFL` implies the sibling order of `Spec.siblingsOrdered`. -/
theorem WFL.ordered : ∀ {ts : List Tree} {lo hi : Int}, WFL lo hi ts → siblingsOrdered ts = true := by
  intro ts
  induction ts with
  | nil => intro _ _ _; rfl
  | cons a rest ih =>
    intro lo hi h
    rw [WFL_cons] at h
    cases rest with
    | nil => rfl
    | cons b rest' =>
      rw [siblingsOrdered]
      have h2 := h.2.2
      rw [WFL_cons] at h2
      simp only [Bool.and_eq_true, decide_eq_true_eq]
      exact ⟨h2.1, ih h.2.2⟩

/-! ### chains of arena nodes -/

/-- The spans of the arena nodes `ks` form a chain inside `[lo, hi]`. -/
def ChainA (a : Array INode) : Int → Int → List Nat → Prop
  | lo, hi, [] => lo ≤ hi
  | lo, hi, k :: ks => lo ≤ (a[k]!).start ∧ (a[k]!).start ≤ (a[k]!).stop ∧ ChainA a (a[k]!).stop hi ks

theorem ChainA_nil (a : Array INode) (lo hi : Int) : ChainA a lo hi [] ↔ lo ≤ hi := by rw [ChainA]

theorem ChainA_cons (a : Array INode) (lo hi : Int) (k : Nat) (ks : List Nat) :
    ChainA a lo hi (k :: ks) ↔ lo ≤ (a[k]!).start ∧ (a[k]!).start ≤ (a[k]!).stop ∧ ChainA a (a[k]!).stop hi ks := by
  rw [ChainA]

theorem ChainA.le {a : Array INode} : ∀ {ks : List Nat} {lo hi : Int}, ChainA a lo hi ks → lo ≤ hi := by
  intro ks
  induction ks with
  | nil => intro lo hi h; exact (ChainA_nil _ _ _).1 h
  | cons k ks ih =>
    intro lo hi h
    rw [ChainA_cons] at h
    have := ih h.2.2
    omega

theorem ChainA.mono {a : Array INode} : ∀ {ks : List Nat} {lo hi lo' hi' : Int},
    ChainA a lo hi ks → lo' ≤ lo → hi ≤ hi' → ChainA a lo' hi' ks := by
  intro ks
  induction ks with
  | nil => intro lo hi lo' hi' h h1 h2; rw [ChainA_nil] at h ⊢; omega
  | cons k ks ih =>
    intro lo hi lo' hi' h h1 h2
    rw [ChainA_cons] at h ⊢
    exact ⟨by omega, h.2.1, ih h.2.2 (Int.le_refl _) h2⟩

theorem ChainA_append {a : Array INode} : ∀ {xs ys : List Nat} {lo hi : Int},
    ChainA a lo hi (xs ++ ys) ↔ ∃ m, ChainA a lo m xs ∧ ChainA a m hi ys := by
  intro xs
  induction xs with
  | nil =>
    intro ys lo hi
    constructor
    · intro h; exact ⟨lo, (ChainA_nil _ _ _).2 (Int.le_refl _), h⟩
    · rintro ⟨m, h1, h2⟩; exact h2.mono ((ChainA_nil _ _ _).1 h1) (Int.le_refl _)
  | cons c cs ih =>
    intro ys lo hi
    rw [List.cons_append, ChainA_cons]
    constructor
    · rintro ⟨h1, h2, h3⟩
      obtain ⟨m, h4, h5⟩ := ih.1 h3
      exact ⟨m, (ChainA_cons _ _ _ _ _).2 ⟨h1, h2, h4⟩, h5⟩
    · rintro ⟨m, h1, h2⟩
      rw [ChainA_cons] at h1
      exact ⟨h1.1, h1.2.1, ih.2 ⟨m, h1.2.2, h2⟩⟩

/-- The chain ends at the stop of its last element: the upper bound can be lowered to any `m` above it. -/
def lastStop (a : Array INode) : Int → List Nat → Int
  | lo, [] => lo
  | _, k :: ks => lastStop a (a[k]!).stop ks

theorem ChainA.tighten {a : Array INode} : ∀ {ks : List Nat} {lo hi : Int}, ChainA a lo hi ks →
    ChainA a lo (lastStop a lo ks) ks ∧ lastStop a lo ks ≤ hi := by
  intro ks
  induction ks with
  | nil => intro lo hi h; rw [ChainA_nil] at h; exact ⟨(ChainA_nil _ _ _).2 (Int.le_refl _), h⟩
  | cons k ks ih =>
    intro lo hi h
    rw [ChainA_cons] at h
    obtain ⟨h1, h2⟩ := ih h.2.2
    exact ⟨(ChainA_cons _ _ _ _ _).2 ⟨h.1, h.2.1, h1⟩, h2⟩

/-- Appending one node at the end. -/
theorem ChainA.snoc {a : Array INode} {ks : List Nat} {lo m hi : Int} {k : Nat} (h : ChainA a lo m ks)
    (h1 : m ≤ (a[k]!).start) (h2 : (a[k]!).start ≤ (a[k]!).stop) (h3 : (a[k]!).stop ≤ hi) :
    ChainA a lo hi (ks ++ [k]) :=
  ChainA_append.2 ⟨m, h, (ChainA_cons _ _ _ _ _).2 ⟨h1, h2, (ChainA_nil _ _ _).2 h3⟩⟩

/-- Only the spans of the listed nodes matter. -/
theorem ChainA.congr {a a' : Array INode} : ∀ {ks : List Nat} {lo hi : Int},
    (∀ k ∈ ks, (a'[k]!).start = (a[k]!).start ∧ (a'[k]!).stop = (a[k]!).stop) →
    ChainA a lo hi ks → ChainA a' lo hi ks := by
  intro ks
  induction ks with
  | nil => intro lo hi _ h; rw [ChainA_nil] at h ⊢; exact h
  | cons k ks ih =>
    intro lo hi hk h
    rw [ChainA_cons] at h ⊢
    obtain ⟨e1, e2⟩ := hk k (List.mem_cons_self ..)
    rw [e1, e2]
    exact ⟨h.1, h.2.1, ih (fun j hj => hk j (List.mem_cons_of_mem _ hj)) h.2.2⟩

/-- Nodes may shrink (and stay valid). -/
theorem ChainA.shrink {a a' : Array INode} : ∀ {ks : List Nat} {lo hi : Int},
    (∀ k ∈ ks, (a[k]!).start ≤ (a'[k]!).start ∧ (a'[k]!).start ≤ (a'[k]!).stop ∧ (a'[k]!).stop ≤ (a[k]!).stop) →
    ChainA a lo hi ks → ChainA a' lo hi ks := by
  intro ks
  induction ks with
  | nil => intro lo hi _ h; rw [ChainA_nil] at h ⊢; exact h
  | cons k ks ih =>
    intro lo hi hk h
    rw [ChainA_cons] at h ⊢
    obtain ⟨e1, e2, e3⟩ := hk k (List.mem_cons_self ..)
    exact ⟨by omega, e2, (ih (fun j hj => hk j (List.mem_cons_of_mem _ hj)) h.2.2).mono e3 (Int.le_refl _)⟩

/-- A sub-list of a chain is a chain. -/
theorem ChainA.sublist {a : Array INode} : ∀ {ks ks' : List Nat} {lo hi : Int},
    ks'.Sublist ks → ChainA a lo hi ks → ChainA a lo hi ks' := by
  intro ks ks' lo hi hs
  induction hs generalizing lo with
  | slnil => exact id
  | cons k _ ih =>
    intro h
    rw [ChainA_cons] at h
    exact ih (h.2.2.mono (by omega) (Int.le_refl _))
  | cons_cons k _ ih =>
    intro h
    rw [ChainA_cons] at h ⊢
    exact ⟨h.1, h.2.1, ih h.2.2⟩

/-- Every element of a chain lies inside the bounds and is valid. -/
theorem ChainA.mem {a : Array INode} : ∀ {ks : List Nat} {lo hi : Int}, ChainA a lo hi ks →
    ∀ k ∈ ks, lo ≤ (a[k]!).start ∧ (a[k]!).start ≤ (a[k]!).stop ∧ (a[k]!).stop ≤ hi := by
  intro ks
  induction ks with
  | nil => intro lo hi _ k hk; cases hk
  | cons c cs ih =>
    intro lo hi h k hk
    rw [ChainA_cons] at h
    rcases List.mem_cons.1 hk with rfl | hk
    · exact ⟨h.1, h.2.1, h.2.2.le⟩
    · obtain ⟨x, y, z⟩ := ih h.2.2 k hk
      exact ⟨by omega, y, z⟩

end CM.Proofs.InlH
