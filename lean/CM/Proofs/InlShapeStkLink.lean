import CM.Proofs.InlShapeStkTok
/-
C13, inline half — links and images: the pure lemmas (`parseLinkLabel` ends at a `]`; filling in the span of a fresh
link) and `parseEndBracket`.
-/
namespace CM.Proofs.InlH
open CM CM.Model CM.Model.Inl
open Std.Do

set_option mvcgen.warning false

theorem parseLinkLabel_cases (src : Bytes) (fuel : Nat) (r : Rd) :
    (parseLinkLabel src fuel r).1 = noLabel ∨
    ∃ q : Nat, (parseLinkLabel src fuel r).1.span.stop = (q : Int) + 1 ∧ src[q]? = some 0x5D := by
  unfold parseLinkLabel
  simp only []
  split
  · exact Or.inl rfl
  · split
    · exact Or.inl rfl
    · split
      · exact Or.inl rfl
      · rename_i r2 ie hb
        split
        · exact Or.inl rfl
        · rename_i hc
          have hc' := of_not_bne hc
          obtain ⟨h1, h2⟩ := current_byte (r := r2) (c := (0x5D : UInt8)) (Prod.ext hc' rfl) (by decide) (by decide)
            (by decide)
          exact Or.inr ⟨r2.pos, by simp only [h1]; omega, h2⟩

/-- A valid link label ends right after a `]`. -/
theorem parseLinkLabel_end (src : Bytes) (fuel : Nat) (r : Rd)
    (hv : (parseLinkLabel src fuel r).1.span.isValid = true) :
    ∃ q : Nat, (parseLinkLabel src fuel r).1.span.stop = (q : Int) + 1 ∧ src[q]? = some 0x5D := by
  rcases parseLinkLabel_cases src fuel r with h | h
  · rw [h] at hv; exact absurd hv (by decide)
  · exact h

section
variable {c : ICtx} {Q : Nat → Int → Int → Prop}

/-- A fresh link / image `r` (made by `wrap` from the bracket entry `e`) gets its span: from the start of the bracket
    node to a `]` or `)`. -/
theorem Wg.fillLink {a : Array INode} {st : Array DelimE} {r : Nat} (h : Wg c Q NoN (· = r) a st) (hr : r < a.size)
    (e : DelimE) (he : e ∈ st) (ht : e.elem.typ = 3 ∨ e.elem.typ = 4)
    (hk : (a[r]!).kind = if (e.elem.typ == 4) = true then IK.image else IK.link)
    (f : INode → INode) (stop : Int) (hend : EndAt c stop)
    (hfk : (f (a[r]!)).kind = (a[r]!).kind) (hfs : (f (a[r]!)).start = (a[e.node]!).start) (hfe : (f (a[r]!)).stop = stop) :
    Wg c Q NoN NoN (a.modify r f) st := by
  obtain ⟨elt, ew⟩ := h.stk.ok e he
  have hkr : (a[r]!).kind = IK.link ∨ (a[r]!).kind = IK.image := by
    rw [hk]; split
    · exact Or.inr rfl
    · exact Or.inl rfl
  -- `r` is not a stack node: those are Text nodes
  have hoff : ∀ x ∈ st, x.node ≠ r := by
    intro x hx hxr
    have := (h.stk.ok x hx).2.kind
    rw [hxr] at this
    rcases hkr with h' | h' <;> (rw [h'] at this; cases this)
  refine ⟨h.stk.modify_off hoff, ?_, ?_⟩
  · -- the nodes
    intro i hi
    simp only [Array.size_modify] at hi
    simp only [Array.getElem_modify]
    split
    · rename_i hir
      subst hir
      right
      rw [getElem!_pos a r hi] at hfk hfs hfe hk
      refine Or.inr ⟨fun hx => ?_, fun hx => ?_, fun hx => ?_, fun hx => ?_⟩
      · rw [hfk, hk] at hx; split at hx <;> cases hx
      · rw [hfk, hk] at hx; split at hx <;> cases hx
      · -- a link: the bracket node is `[`
        rw [hfs, hfe]
        rcases ew.chars with ⟨t, _⟩ | ⟨t, _⟩ | ⟨t, _, hb⟩ | ⟨t, _, _, _⟩
        · rcases ht with h' | h' <;> omega
        · rcases ht with h' | h' <;> omega
        · exact ⟨ew.lo, hb, hend⟩
        · rw [hfk, hk, t] at hx; cases hx
      · rw [hfs, hfe]
        rcases ew.chars with ⟨t, _⟩ | ⟨t, _⟩ | ⟨t, _, _⟩ | ⟨t, _, hb1, hb2⟩
        · rcases ht with h' | h' <;> omega
        · rcases ht with h' | h' <;> omega
        · rw [hfk, hk, t] at hx; cases hx
        · exact ⟨ew.lo, hb1, hb2, hend⟩
    · rename_i hir
      rcases h.em i hi with h' | h'
      · exact absurd h'.symm hir
      · exact Or.inr h'
  · refine ⟨by simpa using h.root.1, ?_⟩
    have h0r : r ≠ 0 := by
      intro h0
      have := h.root.2
      rw [h0] at hkr
      rw [this] at hkr
      rcases hkr with h' | h' <;> exact absurd h' (by decide)
    rw [get!_modify_ne h0r]; exact h.root.2

/-- `lookForLinkOrImage`: a non-negative result is the index of a bracket entry of the (unchanged) stack. -/
@[spec 31000]
theorem lookForLinkOrImage_specW' :
    ⦃fun s => ⌜Wv c Q s⌝⦄ lookForLinkOrImage
    ⦃⇓? r s => ⌜Wv c Q s ∧ (0 ≤ r → ∃ e, s.stack[r.toNat]? = some e ∧ (e.elem.typ = 3 ∨ e.elem.typ = 4))⌝⦄ := by
  mvcgen [lookForLinkOrImage, -lookForLinkOrImage_spec, -lookForLinkOrImage_specS, -lookForLinkOrImage_specT,
    -lookForLinkOrImage_specW]
  case inv1 =>
    rename_i s1 _ st _
    exact PostCond.mayThrow (fun p s => ⌜Wv c Q s ∧
      (∀ r, p.2.1 = some r → p.1.suffix = [] ∧ (0 ≤ r → s = s1 ∧ r.toNat < st.size ∧
        ((st[r.toNat]!).elem.typ = 3 ∨ (st[r.toNat]!).elem.typ = 4))) ∧
      (p.2.1 = none → s = s1 ∧ (p.1.suffix ≠ [] → p.2.2 = (st.size : Int) - 1 - p.1.prefix.length))⌝)
  inl_norm
  all_goals (try (exact fun h => h))
  · exact (‹Wv c Q _ ∧ _›).1
  · exact ⟨‹Wv c Q _›, fun r hr => ⟨trivial, fun h0 => (by cases hr; omega)⟩, fun h => (by cases h)⟩
  · -- `return i`
    obtain ⟨hW, h1, h2⟩ := ‹Wv c Q _ ∧ _›
    have hnone : (‹Option Int × Int›).1 = none := by
      cases hb : (‹Option Int × Int›).1 with
      | none => rfl
      | some r => have := (h1 r hb).1; cases this
    obtain ⟨hs, hi⟩ := h2 hnone
    have hi' := hi (by simp)
    have hlen := congrArg List.length ‹_ = (_ : List Nat) ++ _ :: _›
    simp only [List.length_append, List.length_cons] at hlen
    have hl2 : ([:(‹Array DelimE›).size].toList).length = (‹Array DelimE›).size := by simp
    rw [hl2] at hlen
    refine ⟨hW, fun r hr => ⟨trivial, fun h0 => ?_⟩, fun h => (by cases h)⟩
    cases hr
    refine ⟨hs, by omega, ?_⟩
    have ht : ((‹DelimE›).elem.typ == 3 || (‹DelimE›).elem.typ == 4) = true := by assumption
    simpa using ht
  · -- next entry
    obtain ⟨hW, h1, h2⟩ := ‹Wv c Q _ ∧ _›
    have hnone : (‹Option Int × Int›).1 = none := by
      cases hb : (‹Option Int × Int›).1 with
      | none => rfl
      | some r => have := (h1 r hb).1; cases this
    obtain ⟨hs, hi⟩ := h2 hnone
    have hi' := hi (by simp)
    refine ⟨hW, fun r hr => (by cases hr), fun _ => ⟨hs, fun _ => ?_⟩⟩
    simp only [List.length_append, List.length_cons, List.length_nil]
    simp +zetaDelta only [] at hi' ⊢
    omega
  · exact ⟨‹Wv c Q _›, fun r hr => (by cases hr), fun _ => ⟨trivial, fun _ => (by simp +zetaDelta)⟩⟩
  · obtain ⟨hW, h1, h2⟩ := ‹Wv c Q _ ∧ _›
    refine ⟨hW, fun h0 => ?_⟩
    have hx := ‹(_ : Option Int) = some _›
    obtain ⟨-, h3⟩ := h1 _ (by rw [← hx])
    obtain ⟨hs, hlt, ht⟩ := h3 h0
    refine ⟨_, ?_, ht⟩
    rw [hs]
    simp +zetaDelta [hlt]
  · exact ⟨(‹Wv c Q _ ∧ _›).1, fun h => (by omega)⟩

theorem Wg.weakenX {E X X' : Nat → Prop} {a : Array INode} {st : Array DelimE} (h : Wg c Q E X a st)
    (hX : ∀ i, X i → X' i) : Wg c Q E X' a st :=
  ⟨h.stk, h.em.mono (fun i _ hx => Or.inl (hX i hx)), h.root⟩

/-- after `wrap kind e.node none` (for the bracket entry `e`): the invariant holds except for the new node -/
theorem link_pre {s1 s : IState} {kind : Nat} {e : DelimE} (hW1 : Wv c Q s1) (hfr : WrapFr s1 kind e.node none s)
    (he : e ∈ s1.stack) :
    Wg c Q NoN (· = s1.nodes.size) s.nodes s.stack ∧ s1.nodes.size < s.nodes.size ∧ e ∈ s.stack ∧
      (s.nodes[s1.nodes.size]!).kind = kind := by
  refine ⟨Wg.wrapFr (hW1.weakenX (fun _ h => h.elim)) hfr (Or.inl rfl), by rw [hfr.2.2.1]; omega, by rw [hfr.1]; exact he,
    hfr.2.2.2.2.1⟩

theorem Wg.modify_kids {E X : Nat → Prop} {a : Array INode} {st : Array DelimE} (h : Wg c Q E X a st) (id : Nat)
    (ks : INode → Array Nat) : Wg c Q E X (a.modify id (fun n => { n with kids := ks n })) st :=
  h.modify_pres (fun _ => ⟨rfl, rfl, rfl⟩)

theorem notEm_linkDest : NotEm IK.linkDest := by unfold NotEm; decide
theorem notEm_linkTitle : NotEm IK.linkTitle := by unfold NotEm; decide
theorem notEm_linkLabel : NotEm IK.linkLabel := by unfold NotEm; decide

set_option maxHeartbeats 400000 in
@[spec 30000]
theorem parseEndBracket_specW (hsrc : c.srcA = c.src.toArray) (start : Int) (h0 : 0 ≤ start)
    (hb : c.srcA[start.toNat]! = 0x5D) :
    ⦃fun s => ⌜Wv c Q s⌝⦄ parseEndBracket c start ⦃⇓? _ s => ⌜Wv c Q s⌝⦄ := by
  mvcgen [parseEndBracket, spanEnd, getNode, modifyNode, setUnparsedPos, appendFinished, alloc,
    -parseEndBracket_spec, -parseEndBracket_specS, -parseEndBracket_specT,
    -appendFinished_spec, -appendFinished_specS, -appendFinished_specT]
  inl_trivW
  all_goals
    obtain ⟨hr, hfr⟩ := ‹_ = _ ∧ WrapFr _ _ _ _ _›
    have hxe := ‹(_ : Array DelimE)[_]? = some _›
    have hlook := ‹Wv c Q _ ∧ ((0 : Int) ≤ _ → _)›
    obtain ⟨e', he', ht⟩ := hlook.2 (by omega)
    rw [he'] at hxe
    have hee : e' = _ := Option.some.inj hxe
    rw [hee] at ht he'
    have hmem := Array.mem_of_getElem? he'
    inl_subst
    -- the invariant before `wrap`, and the bracket entry in that state
    obtain ⟨hX, hlt, hmemS, hkr⟩ := link_pre (c := c) (Q := Q)
      (by first | exact (‹Wv c Q _ ∧ _ = _ ∧ _›).1 | exact hlook.1) hfr
      (by first | exact hmem | (have hf := ‹Wv c Q _ ∧ _ = _ ∧ _›; rw [hf.2.2.1]; exact hmem))
    subst hr
    inl_stateW
    repeat (first
      | (refine Wg.modify_kids ?_ _ _)
      | (refine Wg.push ?_ (Or.inr (EmP.notEm (by first | exact notEm_linkDest | exact notEm_linkTitle | exact notEm_linkLabel)))))
    refine Wg.fillLink (c := c) (Q := Q) ?hX ?hr _ hmemS ht ?hk _ _ ?hend rfl rfl rfl
    case hX =>
      repeat (first
        | (refine Wg.modify_kids ?_ _ _)
        | (refine Wg.push ?_ (Or.inr (EmP.notEm (by first | exact notEm_linkDest | exact notEm_linkTitle | exact notEm_linkLabel)))))
      exact hX
    case hr => first | exact hlt | (simp; omega)
    case hk =>
      first
        | exact hkr
        | (rw [get!_modify_eq (by simp; omega), getElem!_push_lt hlt]; exact hkr)
    case hend =>
      first
        | exact (‹Wv c Q _ ∧ _ = _ ∧ _ = _ ∧ (_ → EndAt _ _)›).2.2.2 (by assumption)
        | (show EndAt c (start + 3)
           have hx := ‹(0 : Int) ≤ start + 2 ∧ _ ∧ (_ : Bool) = _›
           obtain ⟨-, -, hr3⟩ := hx
           have ht3 : (c.srcA[(start + 2).toNat]! == 93) = true := by rw [← hr3]; assumption
           refine ⟨by omega, Or.inl ?_⟩
           have e : (start + 3 - 1).toNat = (start + 2).toNat := by omega
           rw [e]
           simpa using ht3)
        | (show EndAt c (start + 1)
           refine ⟨by omega, Or.inl ?_⟩
           have e : (start + 1 - 1).toNat = start.toNat := by omega
           rw [e]
           exact hb)
        | (have hv := ‹¬(!(parseLinkLabel _ _ _).fst.span.isValid) = true›
           simp only [Bool.not_eq_true', Bool.not_eq_false] at hv
           obtain ⟨q, hq1, hq2⟩ := parseLinkLabel_end _ _ _ hv
           show EndAt c (parseLinkLabel _ _ _).1.span.stop
           rw [hq1]
           exact endAt_of hsrc hq2 (Or.inl rfl))

end

end CM.Proofs.InlH
