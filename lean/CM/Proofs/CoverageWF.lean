import CM.Proofs.CoveragePB
import CM.Proofs.BlocksSpansDef
import CM.Proofs.BlocksSpine
/-
C03, part B — the structural side condition `WF Q` carried along with the coverage, and the edits along the last-child
spine (`spineModify`, `spineReplaceLast`).

`WF Q b` (Boolean `wfB`): at every block of `b`
  * shape: block children only under a container kind, and then no inline children (so `pbToTree` drops nothing);
  * every inline child is `deepOK`: below it, spans are valid, children lie inside their parent and siblings are ordered
    (this is what the span discipline of C02 needs below the inline children, which `PBSpans` does not look at);
  * an open block is not a setext heading, and an open paragraph satisfies the parameter `Q` ("closing it is fine").
-/
namespace CM.Proofs.Cov
open CM CM.Model CM.Spec CM.Spec.T CM.Proofs.BT
open CM.Proofs.BSp (ParaPred QT isContainerKind)

/-- Below an inline child: valid spans, children inside, siblings ordered. -/
def deepOK (t : Tree) : Bool :=
  (nodesL t.children).all (fun u => decide (start u ≤ stop u)) &&
  (nodes t).all (fun u => childrenInside u && siblingsOrdered u.children)

theorem deepOK_leaf (l : Label) : deepOK (.node l []) = true := by
  simp [deepOK, Tree.children, nodesL_nil, nodes_node, childrenInside, siblingsOrdered]

theorem deepOK_mkInline (k : Nat) (a b : Int) : deepOK (mkInline k a b) = true := deepOK_leaf _

/-- An inline child: a valid span, and `deepOK` below. -/
def inlOK (t : Tree) : Bool := decide (0 ≤ start t) && decide (start t ≤ stop t) && deepOK t

theorem inlOK_iff (t : Tree) : inlOK t = true ↔ 0 ≤ start t ∧ start t ≤ stop t ∧ deepOK t = true := by
  simp only [inlOK, Bool.and_eq_true, decide_eq_true_eq, and_assoc]

theorem inlOK_mkInline (k : Nat) (a b : Int) (h0 : 0 ≤ a) (h1 : a ≤ b) : inlOK (mkInline k a b) = true :=
  (inlOK_iff _).mpr ⟨h0, h1, deepOK_mkInline k a b⟩

mutual
/-- Boolean version of `WF`. -/
def wfB (Q : ParaPred) : PB → Bool
  | .mk l bs is =>
    (if isContainerKind l.kind then is.isEmpty else bs.isEmpty) && (l.kind != BK.list || bs.all (fun c => c.kind == BK.listItem))
      && is.all inlOK && (l.kind != BK.indentedCode || is.all (fun t => t.children.isEmpty))
      && (!decide (l.stop < 0) || (l.kind != BK.setextHeading && (l.kind != BK.paragraph || Q l is)))
      && wfBL Q bs
def wfBL (Q : ParaPred) : List PB → Bool
  | [] => true
  | b :: rest => wfB Q b && wfBL Q rest
end

def WF (Q : ParaPred) (b : PB) : Prop := wfB Q b = true

instance (Q b) : Decidable (WF Q b) := by unfold WF; infer_instance

/-- The trivially false parameter: no open paragraph at all. -/
def QF0 : ParaPred := fun _ _ => false

theorem wfBL_iff (Q : ParaPred) (bs : List PB) : wfBL Q bs = true ↔ ∀ b ∈ bs, WF Q b := by
  induction bs with
  | nil => simp [wfBL]
  | cons b rest ih => simp [wfBL, ih, WF]

/-- The shape clause. -/
def Shape (l : PLabel) (bs : List PB) (is : List Tree) : Prop :=
  (if isContainerKind l.kind = true then is = [] else bs = []) ∧ (l.kind = BK.list → ∀ c ∈ bs, c.kind = BK.listItem)

/-- The clause about open blocks. -/
def OpenOK (Q : ParaPred) (l : PLabel) (is : List Tree) : Prop :=
  l.stop < 0 → l.kind ≠ BK.setextHeading ∧ (l.kind = BK.paragraph → Q l is = true)

/-- The clause about inline children. -/
def InlsWF (l : PLabel) (is : List Tree) : Prop :=
  (∀ t ∈ is, inlOK t = true) ∧ (l.kind = BK.indentedCode → ∀ t ∈ is, t.children = [])

theorem WF_mk {Q : ParaPred} {l : PLabel} {bs : List PB} {is : List Tree} :
    WF Q (.mk l bs is) ↔ Shape l bs is ∧ InlsWF l is ∧ OpenOK Q l is ∧ ∀ b ∈ bs, WF Q b := by
  unfold WF
  rw [wfB, Bool.and_eq_true, Bool.and_eq_true, Bool.and_eq_true, Bool.and_eq_true, Bool.and_eq_true, wfBL_iff]
  have hsh : (if isContainerKind l.kind then is.isEmpty else bs.isEmpty) = true ↔
      (if isContainerKind l.kind = true then is = [] else bs = []) := by
    split <;> simp [List.isEmpty_iff]
  rw [hsh]
  simp only [Shape, OpenOK, InlsWF, Bool.or_eq_true, Bool.and_eq_true, List.isEmpty_iff, List.all_eq_true, Bool.not_eq_true',
    decide_eq_false_iff_not, bne_iff_ne, ne_eq, and_assoc, beq_iff_eq]
  constructor
  · rintro ⟨h1, h1', h2, h2', h3, h4⟩
    refine ⟨h1, fun hk => ?_, h2, fun hk => ?_, fun ho => ?_, h4⟩
    · rcases h1' with h1' | h1'
      · exact absurd hk h1'
      · exact h1'
    · rcases h2' with h2' | h2'
      · exact absurd hk h2'
      · exact h2'
    rcases h3 with h3 | h3
    · exact absurd ho h3
    · refine ⟨h3.1, fun hk => ?_⟩
      rcases h3.2 with h5 | h5
      · exact absurd hk h5
      · exact h5
  · rintro ⟨h1, h1', h2, h2', h3, h4⟩
    refine ⟨h1, ?_, h2, ?_, ?_, h4⟩
    · by_cases hk : l.kind = BK.list
      · right; exact h1' hk
      · left; exact hk
    · by_cases hk : l.kind = BK.indentedCode
      · right; exact h2' hk
      · left; exact hk
    by_cases ho : l.stop < 0
    · right
      refine ⟨(h3 ho).1, ?_⟩
      by_cases hk : l.kind = BK.paragraph
      · right; exact (h3 ho).2 hk
      · left; exact hk
    · left; exact ho

/-- Induction over `PB` (a nested inductive type). -/
theorem PB.ind {P : PB → Prop} (h : ∀ l bs is, (∀ c ∈ bs, P c) → P (.mk l bs is)) : ∀ b, P b
  | .mk l bs is => h l bs is (fun c _ => PB.ind h c)
termination_by b => sizeOf b
decreasing_by
  rename_i hc
  have := List.sizeOf_lt_of_mem hc
  simp_wf
  omega

theorem WF.mono {Q Q' : ParaPred} (hq : ∀ l is, Q l is = true → Q' l is = true) : ∀ b, WF Q b → WF Q' b := by
  apply PB.ind
  intro l bs is ih h
  rw [WF_mk] at h ⊢
  exact ⟨h.1, h.2.1, fun ho => ⟨(h.2.2.1 ho).1, fun hk => hq _ _ ((h.2.2.1 ho).2 hk)⟩, fun b hb => ih b hb (h.2.2.2 b hb)⟩

theorem WF.toQT {Q : ParaPred} {b : PB} (h : WF Q b) : WF QT b := WF.mono (fun _ _ _ => rfl) b h
theorem WF.ofQF0 {Q : ParaPred} {b : PB} (h : WF QF0 b) : WF Q b := WF.mono (fun _ _ h => by cases h) b h

theorem isContainerKind_not_para {k : Nat} (h : isContainerKind k = true) : k ≠ BK.paragraph ∧ k ≠ BK.setextHeading := by
  simp only [isContainerKind, Bool.or_eq_true, beq_iff_eq, BK.document, BK.list, BK.listItem, BK.blockQuote] at h
  simp only [BK.paragraph, BK.setextHeading]
  omega

/-- A block with block children is of a container kind and has no inline children. -/
theorem Shape.of_child {l : PLabel} {bs : List PB} {is : List Tree} (h : Shape l bs is) (hne : bs ≠ []) :
    isContainerKind l.kind = true ∧ is = [] := by
  have h1 := h.1
  split at h1
  · rename_i hk; exact ⟨hk, h1⟩
  · exact absurd h1 hne

/-! ### sub-blocks on the spine -/

theorem WF_spineGet {Q : ParaPred} : ∀ (d : Nat) (b c : PB), WF Q b → spineGet b d = some c → WF Q c := by
  intro d
  induction d with
  | zero => intro b c h hs; rw [spineGet_zero] at hs; cases hs; exact h
  | succ d ih =>
    intro b c h hs
    obtain ⟨l, bs, is⟩ := b
    rw [spineGet_succ] at hs
    cases hgl : bs.getLast? with
    | none => rw [hgl] at hs; cases hs
    | some c0 =>
      rw [hgl] at hs
      exact ih c0 c ((WF_mk.mp h).2.2.2 c0 (List.mem_of_getLast? hgl)) hs

theorem eq_dropLast_append {α} {l : List α} {c : α} (h : l.getLast? = some c) : l = l.dropLast ++ [c] := by
  have hne : l ≠ [] := by intro e; rw [e] at h; cases h
  have := List.dropLast_concat_getLast hne
  rw [List.getLast?_eq_some_getLast hne] at h
  simp only [Option.some.injEq] at h
  rw [h] at this
  exact this.symm

/-- Replacing the last child `c` of a block by the blocks `new`. -/
theorem replaceLast_ok {Q Q' : ParaPred} {N : Nat → Prop} (hq : ∀ l is, Q l is = true → Q' l is = true)
    {l : PLabel} {bs new : List PB} {is : List Tree} {c : PB}
    (h : WF Q (.mk l bs is)) (hgl : bs.getLast? = some c) (hn : ∀ c' ∈ new, WF Q' c') (hle : LeL N [c] new)
    (hkind : c.kind = BK.listItem → ∀ c' ∈ new, c'.kind = BK.listItem) :
    WF Q' (.mk l (bs.dropLast ++ new) is) ∧ Le N (.mk l bs is) (.mk l (bs.dropLast ++ new) is) := by
  have hne : bs ≠ [] := by intro e; rw [e] at hgl; cases hgl
  have e := eq_dropLast_append hgl
  rw [WF_mk] at h
  obtain ⟨h1, h2, h3, h4⟩ := h
  obtain ⟨hk, his⟩ := h1.of_child hne
  constructor
  · rw [WF_mk]
    refine ⟨⟨by rw [if_pos hk]; exact his, fun hl b hb => ?_⟩, h2, fun ho => ?_, ?_⟩
    · rw [List.mem_append] at hb
      rcases hb with hb | hb
      · exact h1.2 hl b (List.dropLast_subset bs hb)
      · exact hkind (h1.2 hl c (List.mem_of_getLast? hgl)) b hb
    · exact ⟨(isContainerKind_not_para hk).2, fun hp => absurd hp (isContainerKind_not_para hk).1⟩
    · intro b hb
      rw [List.mem_append] at hb
      rcases hb with hb | hb
      · exact WF.mono hq b (h4 b (List.dropLast_subset bs hb))
      · exact hn b hb
  · have hL : LeL N bs (bs.dropLast ++ new) := by
      have := LeL.append (LeL.refl N bs.dropLast) hle
      rw [← e] at this
      exact this
    apply Le.kids hL
    intro e'; exact absurd e' hne

/-- An edit at depth `d` of the spine that is fine for the block found there is fine for the whole tree. -/
theorem spineModify_ok {Q Q' : ParaPred} {N : Nat → Prop} (hq : ∀ l is, Q l is = true → Q' l is = true) (f : PB → PB) :
    ∀ (d : Nat) (b : PB), WF Q b →
    (∀ c, spineGet b d = some c → WF Q c → WF Q' (f c) ∧ Le N c (f c) ∧ (f c).kind = c.kind) →
    WF Q' (spineModify f b d) ∧ Le N b (spineModify f b d) ∧ (spineModify f b d).kind = b.kind := by
  intro d
  induction d with
  | zero =>
    intro b h hf
    rw [spineModify_zero]
    exact hf b (spineGet_zero b) h
  | succ d ih =>
    intro b h hf
    obtain ⟨l, bs, is⟩ := b
    rw [spineModify_succ]
    rw [spineGet_succ] at hf
    cases hgl : bs.getLast? with
    | none => exact ⟨WF.mono hq _ h, Le.refl _ _, rfl⟩
    | some c =>
      rw [hgl] at hf
      simp only [] at hf ⊢
      have hc : WF Q c := (WF_mk.mp h).2.2.2 c (List.mem_of_getLast? hgl)
      have r := ih c hc hf
      have := replaceLast_ok (N := N) (new := [spineModify f c d]) hq h hgl
        (by intro c' hc'
            simp only [List.mem_singleton] at hc'
            subst hc'
            exact r.1)
        (LeL.single r.2.1)
        (by intro hk c' hc'
            simp only [List.mem_singleton] at hc'
            subst hc'
            rw [r.2.2]; exact hk)
      exact ⟨this.1, this.2, rfl⟩

/-- The edit of `spineReplaceLast`. -/
theorem replaceLastFn_ok {Q Q' : ParaPred} {N : Nat → Prop} (hq : ∀ l is, Q l is = true → Q' l is = true) (g : PB → List PB)
    (b : PB) (h : WF Q b)
    (hg : ∀ c, b.blocks.getLast? = some c → WF Q c → (∀ c' ∈ g c, WF Q' c') ∧ LeL N [c] (g c) ∧
      (c.kind = BK.listItem → ∀ c' ∈ g c, c'.kind = BK.listItem)) :
    WF Q' (replaceLastFn g b) ∧ Le N b (replaceLastFn g b) ∧ (replaceLastFn g b).kind = b.kind := by
  obtain ⟨l, bs, is⟩ := b
  simp only [replaceLastFn]
  cases hgl : bs.getLast? with
  | none => exact ⟨WF.mono hq _ h, Le.refl _ _, rfl⟩
  | some c =>
    simp only []
    have hc : WF Q c := (WF_mk.mp h).2.2.2 c (List.mem_of_getLast? hgl)
    have r := hg c hgl hc
    have := replaceLast_ok hq h hgl r.1 r.2.1 r.2.2
    exact ⟨this.1, this.2, rfl⟩

/-- The child at depth `d + 1` is the last child of the block at depth `d`. -/
theorem spineGet_last : ∀ (d : Nat) (b p c : PB), spineGet b d = some p → p.blocks.getLast? = some c →
    spineGet b (d + 1) = some c := by
  intro d
  induction d with
  | zero =>
    intro b p c hp hc
    rw [spineGet_zero] at hp
    cases hp
    obtain ⟨l, bs, is⟩ := b
    rw [spineGet_succ]
    have : bs.getLast? = some c := hc
    rw [this]
    exact spineGet_zero c
  | succ d ih =>
    intro b p c hp hc
    obtain ⟨l0, bs0, is0⟩ := b
    rw [spineGet_succ] at hp ⊢
    cases hgl : bs0.getLast? with
    | none => rw [hgl] at hp; cases hp
    | some c0 =>
      rw [hgl] at hp
      exact ih c0 p c hp hc

theorem spineReplaceLast_ok {Q Q' : ParaPred} {N : Nat → Prop} (hq : ∀ l is, Q l is = true → Q' l is = true) (g : PB → List PB)
    (d : Nat) (b : PB) (h : WF Q b)
    (hg : ∀ c, spineGet b (d + 1) = some c → WF Q c → (∀ c' ∈ g c, WF Q' c') ∧ LeL N [c] (g c) ∧
      (c.kind = BK.listItem → ∀ c' ∈ g c, c'.kind = BK.listItem)) :
    WF Q' (spineReplaceLast g b d) ∧ Le N b (spineReplaceLast g b d) := by
  rw [spineReplaceLast_eq]
  have key := spineModify_ok (N := N) hq (replaceLastFn g) d b h (by
    intro p hp hpw
    apply replaceLastFn_ok hq g p hpw
    intro c hc hcw
    exact hg c (spineGet_last d b p c hp hc) hcw)
  exact ⟨key.1, key.2.1⟩

end CM.Proofs.Cov
