import CM.Proofs.BGDefs
/-
C05, block half — the children `collectTextNodes` gives the LinkLabel / LinkDestination / LinkTitle nodes of a link
reference definition: Text leaves, the Indent leaves of the paragraph, and (with escapes) CharacterReference leaves.

The reader (`Rd`) only ever drops nodes from its span list, so every node it hands out is one of the paragraph's inline
children — all of which are leaves.
-/
namespace CM.Proofs.BG
open CM CM.Model CM.Gen

/-- All nodes of a span list are leaves. -/
def SpLeaf (sp : List Tree) : Prop := ∀ t ∈ sp, t.children = []

theorem SpLeaf.sub {a b : List Tree} (h : SpLeaf b) (hs : ∀ t ∈ a, t ∈ b) : SpLeaf a := fun t ht => h t (hs t ht)

/-! ### the reader only drops nodes -/

theorem currentNode_sub (r : Rd) :
    (∀ t ∈ r.currentNode.2.spans, t ∈ r.spans) ∧ (∀ t, r.currentNode.1 = some t → t ∈ r.spans) := by
  unfold Rd.currentNode
  split
  · constructor
    · intro t ht; simp at ht
    · intro t ht; simp at ht
  · rename_i i _
    refine ⟨fun t ht => List.mem_of_mem_drop ht, fun t ht => ?_⟩
    simp only [] at ht
    exact List.mem_of_mem_drop (List.mem_of_mem_head? ht)

theorem current_sub (src : Bytes) (r : Rd) : ∀ t ∈ (r.current src).2.spans, t ∈ r.spans := by
  have hc := (currentNode_sub r).1
  unfold Rd.current
  split
  · exact fun t ht => ht
  · generalize r.currentNode = cn at hc
    obtain ⟨n, r'⟩ := cn
    simp only [] at hc ⊢
    split
    · split
      · exact hc
      · split <;> exact hc
    · split <;> exact hc

theorem nextTextNode_sub : ∀ (l : List Tree) (t : Tree) (sp : List Tree), nextTextNode l = some (t, sp) → ∀ u ∈ sp, u ∈ l := by
  intro l
  induction l with
  | nil => intro t sp h; simp [nextTextNode] at h
  | cons a rest ih =>
    intro t sp h
    unfold nextTextNode at h
    split at h
    · simp only [Option.some.injEq, Prod.mk.injEq] at h
      rw [← h.2]; exact fun u hu => hu
    · exact fun u hu => List.mem_cons_of_mem _ (ih t sp h u hu)

theorem next_sub (src : Bytes) (r : Rd) : ∀ t ∈ (r.next src).2.spans, t ∈ r.spans := by
  have hc := (currentNode_sub r).1
  unfold Rd.next
  generalize r.currentNode = cn at hc
  obtain ⟨n, r'⟩ := cn
  simp only [] at hc ⊢
  split
  · exact hc
  · split
    · exact hc
    · split
      · exact hc
      · split
        · rename_i t' sp hnt
          intro u hu
          exact hc u (List.mem_of_mem_drop (nextTextNode_sub _ _ _ hnt u hu))
        · exact fun u hu => by cases hu

theorem remainingNodeBytes_sub (src : Bytes) (r : Rd) : ∀ t ∈ (r.remainingNodeBytes src).2.spans, t ∈ r.spans := by
  have hc := (currentNode_sub r).1
  unfold Rd.remainingNodeBytes
  generalize r.currentNode = cn at hc
  obtain ⟨n, r'⟩ := cn
  simp only [] at hc ⊢
  split <;> exact hc

theorem skipNode_sub (src : Bytes) (curr : Tree) : ∀ (fuel : Nat) (r : Rd), ∀ t ∈ (skipNode src curr fuel r).spans, t ∈ r.spans := by
  intro fuel
  induction fuel with
  | zero => intro r t ht; exact ht
  | succ fuel ih =>
    intro r
    unfold skipNode
    have hn := next_sub src r
    generalize r.next src = nx at hn
    obtain ⟨ok, r1⟩ := nx
    simp only [] at hn ⊢
    split
    · exact hn
    · have hc := (currentNode_sub r1).1
      generalize r1.currentNode = cn at hc
      obtain ⟨n, r2⟩ := cn
      simp only [] at hc ⊢
      split
      · exact fun t ht => hn t (hc t (ih r2 t ht))
      · exact fun t ht => hn t (hc t ht)

theorem foldl_next_sub (src : Bytes) : ∀ (l : List Nat) (r : Rd),
    ∀ t ∈ (l.foldl (fun r _ => (r.next src).2) r).spans, t ∈ r.spans := by
  intro l
  induction l with
  | nil => intro r t ht; exact ht
  | cons a rest ih =>
    intro r t ht
    rw [List.foldl_cons] at ht
    exact next_sub src r t (ih _ t ht)

/-! ### collectTextNodes -/

/-- The accumulated children are leaves of kinds in `K`. -/
def AccOK (K : List Nat) (acc : List Tree) : Prop := acc.all (inl K) = true

theorem AccOK.snoc {K : List Nat} {acc : List Tree} {t : Tree} (h : AccOK K acc) (ht : inl K t = true) : AccOK K (acc ++ [t]) := by
  unfold AccOK at h ⊢
  simp [List.all_append, h, ht]

theorem AccOK.ite {K : List Nat} {acc : List Tree} {t : Tree} (c : Prop) [Decidable c] (h : AccOK K acc) (ht : inl K t = true) :
    AccOK K (if c then acc ++ [t] else acc) := by
  split
  · exact h.snoc ht
  · exact h

theorem inl_mkInline {K : List Nat} {k : Nat} (hk : K.contains k = true) (a b : Int) : inl K (mkInline k a b) = true := by
  simpa [inl, mkInline, Tree.label, Tree.children] using hk

theorem finish_ok {K : List Nat} {textKind : Nat} (hT : K.contains textKind = true) (stop ps : Nat) (acc : List Tree)
    (h : AccOK K acc) : AccOK K (collectTextNodes.finish stop textKind ps acc) := by
  unfold collectTextNodes.finish
  exact AccOK.ite _ h (inl_mkInline hT _ _)

/-- The common tail of the loop body (`go`). -/
def goFn (ext : Ext) (src : Bytes) (stop textKind : Nat) (escapes : Bool) (fuel : Nat) (r : Rd) (plainStart : Nat)
    (acc : List Tree) : List Tree :=
  if r.pos ≥ stop then collectTextNodes.finish stop textKind plainStart acc
  else
    match Rd.next src r with
    | (ok, r) =>
      if (!ok) = true then collectTextNodes.finish stop textKind plainStart acc
      else
        if r.jumped = true then
          collectTextNodes ext src stop textKind escapes fuel r r.pos
            (if r.prev ≥ ↑plainStart then acc ++ [mkInline textKind (↑plainStart) (r.prev + 1)] else acc)
        else collectTextNodes ext src stop textKind escapes fuel r plainStart acc

section
variable (ext : Ext) (src : Bytes) (stop textKind : Nat) (escapes : Bool) (K : List Nat)
variable (hT : K.contains textKind = true) (hI : K.contains IK.indent = true)
variable (hC : escapes = true → K.contains IK.charRef = true)

/-- The statement for one fuel value. -/
def CollectOK (fuel : Nat) : Prop :=
  ∀ (r : Rd) (ps : Nat) (acc : List Tree), SpLeaf r.spans → AccOK K acc →
    AccOK K (collectTextNodes ext src stop textKind escapes fuel r ps acc)

include hT in
theorem goFn_ok (fuel : Nat) (ih : CollectOK ext src stop textKind escapes K fuel) (r : Rd) (ps : Nat) (acc : List Tree)
    (hsp : SpLeaf r.spans) (hacc : AccOK K acc) : AccOK K (goFn ext src stop textKind escapes fuel r ps acc) := by
  unfold goFn
  split
  · exact finish_ok hT _ _ _ hacc
  · have hn := next_sub src r
    generalize r.next src = nx at hn
    obtain ⟨ok, r1⟩ := nx
    simp only [] at hn ⊢
    split
    · exact finish_ok hT _ _ _ hacc
    · split
      · exact ih r1 _ _ (hsp.sub hn) (AccOK.ite _ hacc (inl_mkInline hT _ _))
      · exact ih r1 _ _ (hsp.sub hn) hacc

include hT hC in
theorem collectStep_ok (fuel : Nat) (ih : CollectOK ext src stop textKind escapes K fuel) (cn : Tree) (r : Rd) (ps : Nat)
    (acc : List Tree) (hsp : SpLeaf r.spans) (hacc : AccOK K acc) :
    AccOK K (collectTextNodes.collectStep ext src stop textKind escapes cn r ps acc fuel) := by
  have go := goFn_ok ext src stop textKind escapes K hT fuel ih
  rw [collectTextNodes.collectStep.eq_1]
  split
  · rename_i hesc
    have hesc' : escapes = true := by
      simp only [Bool.and_eq_true] at hesc; exact hesc.1
    have hc1 := current_sub src r
    generalize r.current src = cu at hc1
    obtain ⟨c, r1⟩ := cu
    simp only [] at hc1 ⊢
    have hsp1 : SpLeaf r1.spans := hsp.sub hc1
    split
    · -- backslash
      have hn := next_sub src r1
      generalize r1.next src = nx at hn
      obtain ⟨ok, r2⟩ := nx
      simp only [] at hn ⊢
      have hsp2 : SpLeaf r2.spans := hsp1.sub hn
      have hc3 : ∀ t ∈ (if ok = true then Rd.current src r2 else (0, r2)).2.spans, t ∈ r2.spans := by
        split
        · exact current_sub src r2
        · exact fun t ht => ht
      generalize (if ok = true then Rd.current src r2 else (0, r2)) = cu2 at hc3
      obtain ⟨c2, r3⟩ := cu2
      simp only [] at hc3 ⊢
      have hsp3 : SpLeaf r3.spans := hsp2.sub hc3
      split
      · exact go r3 _ _ hsp3 (AccOK.ite _ hacc (inl_mkInline hT _ _))
      · exact go r3 _ _ hsp3 hacc
    · split
      · -- ampersand
        have hrn := remainingNodeBytes_sub src r1
        generalize r1.remainingNodeBytes src = rb at hrn
        obtain ⟨rest, r2⟩ := rb
        simp only [] at hrn ⊢
        have hsp2 : SpLeaf r2.spans := hsp1.sub hrn
        split
        · rename_i e _
          have hacc2 : AccOK K ((if r2.pos > ps then acc ++ [mkInline textKind ↑ps ↑r2.pos] else acc) ++
              [mkInline IK.charRef (↑r2.pos) (↑r2.pos + ↑e)]) :=
            (AccOK.ite _ hacc (inl_mkInline hT _ _)).snoc (inl_mkInline (hC hesc') _ _)
          have hf := foldl_next_sub src (List.range (e - 1)) r2
          generalize List.foldl (fun r x => (Rd.next src r).snd) r2 (List.range (e - 1)) = r3 at hf
          have hsp3 : SpLeaf r3.spans := hsp2.sub hf
          have hn := next_sub src r3
          generalize r3.next src = nx at hn
          obtain ⟨ok, r4⟩ := nx
          simp only [] at hn ⊢
          split
          · exact finish_ok hT _ _ _ hacc2
          · exact ih r4 _ _ (hsp3.sub hn) hacc2
        · exact go r2 _ _ hsp2 hacc
      · exact go r1 _ _ hsp1 hacc
  · exact go r _ _ hsp hacc

include hT hI hC in
/-- `collectTextNodes` only produces leaves of the text kind, Indent leaves taken from the reader's span list and
    (with escapes) CharacterReference leaves. -/
theorem collectTextNodes_ok : ∀ fuel : Nat, CollectOK ext src stop textKind escapes K fuel := by
  intro fuel
  induction fuel with
  | zero => intro r ps acc _ hacc; rw [collectTextNodes.eq_1]; exact hacc
  | succ fuel ih =>
    intro r ps acc hsp hacc
    rw [collectTextNodes.eq_2]
    split
    · exact AccOK.ite _ hacc (inl_mkInline hT _ _)
    · have hc := currentNode_sub r
      generalize r.currentNode = cn at hc
      obtain ⟨curr, r1⟩ := cn
      simp only [] at hc ⊢
      have hsp1 : SpLeaf r1.spans := hsp.sub hc.1
      split
      · rename_i cn
        split
        · rename_i hind
          have hcn : inl K cn = true := by
            have hmem := hc.2 cn rfl
            have hleaf := hsp cn hmem
            unfold isIndent Node.isI at hind
            simp only [Bool.and_eq_true, beq_iff_eq] at hind
            unfold inl
            rw [hleaf, hind.2]
            simpa [hind.1] using hI
          exact ih _ _ _ (hsp1.sub (skipNode_sub src cn fuel r1)) ((AccOK.ite _ hacc (inl_mkInline hT _ _)).snoc hcn)
        · exact collectStep_ok ext src stop textKind escapes K hT hC fuel ih cn r1 ps acc hsp1 hacc
      · exact collectStep_ok ext src stop textKind escapes K hT hC fuel ih _ r1 ps acc hsp1 hacc

end

/-- The children of a LinkLabel: Text / Indent leaves. -/
theorem collect_label_ok (ext : Ext) (src : Bytes) (stop fuel : Nat) (is : List Tree) (start ps : Nat) (hsp : SpLeaf is) :
    (collectTextNodes ext src stop IK.text false fuel (newReader is start) ps []).all (inl [IK.text, IK.indent]) = true :=
  collectTextNodes_ok ext src stop IK.text false [IK.text, IK.indent] rfl rfl (fun h => by cases h) fuel _ _ _ hsp rfl

/-- The children of a LinkDestination / LinkTitle: Text / CharacterReference / Indent leaves. -/
theorem collect_dest_ok (ext : Ext) (src : Bytes) (stop fuel : Nat) (is : List Tree) (start ps : Nat) (hsp : SpLeaf is) :
    (collectTextNodes ext src stop IK.text true fuel (newReader is start) ps []).all (inl [IK.text, IK.charRef, IK.indent]) = true :=
  collectTextNodes_ok ext src stop IK.text true [IK.text, IK.charRef, IK.indent] rfl rfl (fun _ => rfl) fuel _ _ _ hsp rfl

end CM.Proofs.BG
