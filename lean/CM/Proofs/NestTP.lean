import CM.Proofs.QuoteClose
import CM.Proofs.BGClose
import CM.Proofs.BlocksSpansSpine
/-
C09 (nested documents, with link reference definitions): a one-sided invariant of the bare document's parser.

`TP G root`: the inline children of every paragraph and setext heading of the tree satisfy `G`.  `G` is what the
simulation of `onCloseParagraph` needs to know about the bare side (the children are the lines of the paragraph);
here it is abstract.  `GOK x E G` bundles what the simulation assumes about `G`:
  * `close` — `onCloseParagraph` on related paragraphs whose bare side satisfies `G` yields related blocks
    (the weakening of the former hypothesis `CloseParaSim` that is actually provable, see `QuoteRdN`);
  * `keep` — the blocks `onCloseParagraph` yields on the bare side satisfy `TP G` again.
This file: `TP` under the tree operations of the block phase.
-/
namespace CM.Proofs.Nest
open CM CM.Model CM.Gen CM.Proofs.BSp CM.Proofs.BT CM.Proofs.BG CM.Proofs.Quote

/-- The kinds handled by `onCloseParagraph`. -/
def PKind (k : Nat) : Prop := k = BK.paragraph ∨ k = BK.setextHeading

instance (k : Nat) : Decidable (PKind k) := by unfold PKind; infer_instance

mutual
/-- The inline children of every paragraph-like block satisfy `G`; there is no setext heading (the simulation of
    `onCloseParagraph` does not cover the orphan paragraph a setext heading can leave behind). -/
def TP (G : List Tree → Prop) : PB → Prop
  | .mk l bs is => (PKind l.kind → G is ∧ l.kind = BK.paragraph) ∧ TPs G bs
def TPs (G : List Tree → Prop) : List PB → Prop
  | [] => True
  | b :: rest => TP G b ∧ TPs G rest
end

variable {G : List Tree → Prop}

theorem TPs_iff (bs : List PB) : TPs G bs ↔ ∀ b ∈ bs, TP G b := by
  induction bs with
  | nil => simp [TPs]
  | cons b rest ih => simp [TPs, ih]

theorem TP_mk (l : PLabel) (bs : List PB) (is : List Tree) :
    TP G (.mk l bs is) ↔ (PKind l.kind → G is ∧ l.kind = BK.paragraph) ∧ ∀ b ∈ bs, TP G b := by
  rw [TP, TPs_iff]

theorem TP.kids {b : PB} (h : TP G b) : ∀ c ∈ b.blocks, TP G c := by
  obtain ⟨l, bs, is⟩ := b
  rw [TP_mk] at h
  exact h.2

theorem TP.inl {b : PB} (h : TP G b) (hk : PKind b.kind) : G b.inlines ∧ b.kind = BK.paragraph := by
  obtain ⟨l, bs, is⟩ := b
  rw [TP_mk] at h
  exact h.1 hk

/-! ### spine operations -/

theorem TP_spineGet : ∀ (d : Nat) (b c : PB), TP G b → spineGet b d = some c → TP G c := by
  intro d
  induction d with
  | zero => intro b c h e; rw [spineGet_zero] at e; cases e; exact h
  | succ d ih =>
    intro b c h e
    obtain ⟨l, bs, is⟩ := b
    rw [spineGet_succ] at e
    cases hgl : bs.getLast? with
    | none => rw [hgl] at e; cases e
    | some c' =>
      rw [hgl] at e
      exact ih c' c (h.kids c' (List.mem_of_getLast? hgl)) e

theorem TP_spineModify (f : PB → PB) : ∀ (d : Nat) (b : PB), TP G b →
    (∀ c, spineGet b d = some c → TP G c → TP G (f c)) → TP G (spineModify f b d) := by
  intro d
  induction d with
  | zero => intro b h hf; rw [spineModify_zero]; exact hf b (spineGet_zero b) h
  | succ d ih =>
    intro b h hf
    obtain ⟨l, bs, is⟩ := b
    rw [spineModify_succ]
    rw [spineGet_succ] at hf
    cases hgl : bs.getLast? with
    | none => exact h
    | some c =>
      rw [hgl] at hf
      simp only [] at hf ⊢
      rw [TP_mk] at h ⊢
      refine ⟨h.1, ?_⟩
      intro b hb
      rcases List.mem_append.mp hb with h' | h'
      · exact h.2 b ((List.dropLast_sublist bs).subset h')
      · simp only [List.mem_singleton] at h'
        subst h'
        exact ih c (h.2 c (List.mem_of_getLast? hgl)) hf

theorem TP_spineReplaceLast (g : PB → List PB) (root : PB) (d : Nat) (h : TP G root)
    (hg : ∀ c, spineGet root (d + 1) = some c → TP G c → ∀ c' ∈ g c, TP G c') :
    TP G (spineReplaceLast g root d) := by
  rw [spineReplaceLast_eq]
  apply TP_spineModify _ d root h
  intro b hb hbg
  obtain ⟨l, bs, is⟩ := b
  simp only [replaceLastFn]
  cases hgl : bs.getLast? with
  | none => exact hbg
  | some c =>
    simp only []
    have hc : spineGet root (d + 1) = some c := by
      rw [spineGet_succ_eq, hb]; simpa [PB.blocks] using hgl
    rw [TP_mk] at hbg ⊢
    refine ⟨hbg.1, ?_⟩
    intro b' hb'
    rcases List.mem_append.mp hb' with h' | h'
    · exact hbg.2 b' ((List.dropLast_sublist bs).subset h')
    · exact hg c hc (hbg.2 c (List.mem_of_getLast? hgl)) b' h'

theorem TP_setLabel {f : PLabel → PLabel} (hk : ∀ l, (f l).kind = l.kind) {b : PB} (h : TP G b) :
    TP G (b.setLabel f) := by
  obtain ⟨l, bs, is⟩ := b
  simp only [PB.setLabel]
  rw [TP_mk] at h ⊢
  rw [hk l]
  exact h

theorem TP_setBlankFlags (v : Bool) : ∀ (d : Nat) (b : PB), TP G b → TP G (setBlankFlags v b d) := by
  intro d
  induction d with
  | zero =>
    intro b h
    obtain ⟨l, bs, is⟩ := b
    simp only [setBlankFlags]
    rw [TP_mk] at h ⊢
    exact h
  | succ d ih =>
    intro b h
    obtain ⟨l, bs, is⟩ := b
    simp only [setBlankFlags]
    rw [TP_mk] at h
    cases hgl : bs.getLast? with
    | none =>
      simp only []
      rw [TP_mk]
      exact h
    | some c =>
      simp only []
      rw [TP_mk]
      refine ⟨h.1, ?_⟩
      intro b hb
      rcases List.mem_append.mp hb with h' | h'
      · exact h.2 b ((List.dropLast_sublist bs).subset h')
      · simp only [List.mem_singleton] at h'
        subst h'
        exact ih c (h.2 c (List.mem_of_getLast? hgl))

theorem TP_appendChild {child b : PB} (hc : TP G child) (hb : TP G b) :
    TP G (match b with | .mk l bs is => .mk l (bs ++ [child]) is) := by
  obtain ⟨l, bs, is⟩ := b
  simp only []
  rw [TP_mk] at hb ⊢
  refine ⟨hb.1, ?_⟩
  intro c hcm
  rcases List.mem_append.mp hcm with h' | h'
  · exact hb.2 c h'
  · simp only [List.mem_singleton] at h'
    subst h'; exact hc

/-- A new block (no children yet). -/
theorem TP_new (hnil : G []) (l : PLabel) (hk : l.kind ≠ BK.setextHeading) : TP G (.mk l [] []) := by
  rw [TP_mk]
  refine ⟨fun hp => ⟨hnil, ?_⟩, fun _ h => by cases h⟩
  rcases hp with hp | hp
  · exact hp
  · exact absurd hp hk

/-- Appending an inline child to a block that is not paragraph-like. -/
theorem TP_appendInl_np {t : Tree} {b : PB} (hk : ¬ PKind b.kind) (hb : TP G b) :
    TP G (match b with | .mk l bs is => .mk l bs (is ++ [t])) := by
  obtain ⟨l, bs, is⟩ := b
  simp only []
  rw [TP_mk] at hb ⊢
  exact ⟨fun hp => absurd hp hk, hb.2⟩

/-! ### what the simulation assumes about `G` -/

structure GOK (x : PExt) (E : Env) (G : List Tree → Prop) : Prop where
  nil : G []
  close : ∀ (l l' : PLabel) (bs bs' : List PB) (is is' : List Tree),
    LR E l l' → 0 ≤ l.stop → l.kind = BK.paragraph → L2 (BR E) bs bs' → L2 (IR E) is is' → G is →
    L2 (BR E) (onCloseParagraph x E.src (.mk l bs is)) (onCloseParagraph x E.src' (.mk l' bs' is'))
  keep : ∀ (l : PLabel) (bs : List PB) (is : List Tree), l.kind = BK.paragraph → G is → (∀ c ∈ bs, TP G c) →
    ∀ b ∈ onCloseParagraph x E.src (.mk l bs is), TP G b

/-! ### `closeBlock` -/

/-- **`closeBlock` keeps `TP`**. -/
theorem closeBlock_TP {x : PExt} {E : Env} (HG : GOK x E G) (e : Int) : ∀ b : PB, TP G b →
    ∀ c ∈ closeBlock x E.src e b, TP G c := by
  apply PB.ind
  intro l bs is ih h
  rw [closeBlock]
  split
  · intro c hc
    simp only [List.mem_singleton] at hc
    subst hc; exact h
  rename_i hopen
  simp only []
  rw [TP_mk] at h
  -- the children after `closeLast`
  have hcl : ∀ c ∈ closeLast x E.src e bs, TP G c := by
    cases hgl : bs.getLast? with
    | none => rw [closeLast_none x E.src e bs hgl]; exact h.2
    | some c =>
      rw [closeLast_some x E.src e bs c hgl]
      have hcm : c ∈ bs := List.mem_of_getLast? hgl
      intro c' hc'
      rcases List.mem_append.mp hc' with h' | h'
      · exact h.2 c' ((List.dropLast_sublist bs).subset h')
      · exact ih c hcm (h.2 c hcm) c' h'
  split
  · -- a list
    rename_i hk
    have hkl : l.kind = BK.list := by simpa using hk
    have hnp : ∀ l' : PLabel, l'.kind = BK.list → ¬ PKind l'.kind := by
      intro l' hk' hp
      rcases hp with hp | hp <;> rw [hk'] at hp <;> revert hp <;> decide
    split
    · intro c hc
      simp only [List.mem_singleton] at hc
      subst hc
      rw [TP_mk]
      refine ⟨fun hp => absurd hp (hnp _ hkl), ?_⟩
      intro b hb'
      rw [List.mem_map] at hb'
      obtain ⟨c, hc, rfl⟩ := hb'
      exact TP_setLabel (f := fun il => { il with loose := true }) (fun _ => rfl) (hcl c hc)
    · intro c hc
      simp only [List.mem_singleton] at hc
      subst hc
      rw [TP_mk]
      exact ⟨fun hp => absurd hp (hnp _ hkl), hcl⟩
  split
  · -- paragraph or setext heading
    rename_i hk
    have hkp : PKind l.kind := by
      simp only [Bool.or_eq_true, beq_iff_eq] at hk
      exact hk
    exact HG.keep { l with stop := e } bs is (h.1 hkp).2 (h.1 hkp).1 h.2
  split
  · -- indented code
    rename_i hk
    have hki : l.kind = BK.indentedCode := by simpa using hk
    obtain ⟨is', heq, _⟩ := indentedOnClose_eq E.src { l with stop := e } bs is
    rw [heq]
    intro c hc
    simp only [List.mem_singleton] at hc
    subst hc
    rw [TP_mk]
    refine ⟨fun hp => ?_, h.2⟩
    exfalso
    rcases hp with hp | hp <;> simp only [] at hp <;> rw [hki] at hp <;> revert hp <;> decide
  · rename_i hk1 hk2 hk3
    intro c hc
    simp only [List.mem_singleton] at hc
    subst hc
    rw [TP_mk]
    refine ⟨fun hp => ?_, hcl⟩
    exfalso
    apply hk2
    simp only [Bool.or_eq_true, beq_iff_eq]
    exact hp

theorem closeLast_TP {x : PExt} {E : Env} (HG : GOK x E G) (e : Int) (bs : List PB) (h : ∀ b ∈ bs, TP G b) :
    ∀ c ∈ closeLast x E.src e bs, TP G c := by
  cases hgl : bs.getLast? with
  | none => rw [closeLast_none x E.src e bs hgl]; exact h
  | some c =>
    rw [closeLast_some x E.src e bs c hgl]
    have hcm : c ∈ bs := List.mem_of_getLast? hgl
    intro c' hc'
    rcases List.mem_append.mp hc' with h' | h'
    · exact h c' ((List.dropLast_sublist bs).subset h')
    · exact closeBlock_TP HG e c (h c hcm) c' h'

end CM.Proofs.Nest
