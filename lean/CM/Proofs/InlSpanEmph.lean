import CM.Proofs.InlSpanInv
/-
C02, inline half — the pure core of `processEmphasis`: what one match (shrink the two delimiter nodes, `wrap` what
lies between them, drop the stack entries in between) does to the invariant `SPA`.
-/
namespace CM.Proofs.InlH
open CM CM.Model CM.Model.Inl

/-! ### list lemmas -/

/-- An embedding of `l1 ++ o :: r` into `K` splits `K` at (an occurrence of) `o`. -/
theorem sublist_split {l1 r : List Nat} {o : Nat} : ∀ {K : List Nat}, (l1 ++ o :: r).Sublist K →
    ∃ A R, K = A ++ o :: R ∧ l1.Sublist A ∧ r.Sublist R := by
  induction l1 with
  | nil =>
    intro K h
    induction K with
    | nil => cases h
    | cons k K' ih =>
      rw [List.nil_append] at h
      cases h with
      | cons _ h' =>
        obtain ⟨A, R, e, s1, s2⟩ := ih (by rw [List.nil_append]; exact h')
        exact ⟨k :: A, R, by rw [e]; rfl, List.Sublist.cons _ s1, s2⟩
      | cons_cons _ h' => exact ⟨[], K', rfl, List.Sublist.refl _, h'⟩
  | cons a l1 ih =>
    intro K h
    induction K with
    | nil => cases h
    | cons k K' ihK =>
      rw [List.cons_append] at h
      cases h with
      | cons _ h' =>
        obtain ⟨A, R, e, s1, s2⟩ := ihK (by rw [List.cons_append]; exact h')
        exact ⟨k :: A, R, by rw [e]; rfl, List.Sublist.cons _ s1, s2⟩
      | cons_cons _ h' =>
        obtain ⟨A, R, e, s1, s2⟩ := ih h'
        exact ⟨a :: A, R, by rw [e]; rfl, List.Sublist.cons_cons _ s1, s2⟩

theorem pairwise_shrink {a a' : Array INode} {sk : List Nat}
    (h : ∀ k ∈ sk, (a[k]!).start ≤ (a'[k]!).start ∧ (a'[k]!).stop ≤ (a[k]!).stop)
    (hs : sk.Pairwise (fun i j => (a[i]!).stop ≤ (a[j]!).start)) :
    sk.Pairwise (fun i j => (a'[i]!).stop ≤ (a'[j]!).start) := by
  induction sk with
  | nil => exact List.Pairwise.nil
  | cons k ks ih =>
    rw [List.pairwise_cons] at hs ⊢
    refine ⟨fun j hj => ?_, ih (fun j hj => h j (List.mem_cons_of_mem _ hj)) hs.2⟩
    have h1 := hs.1 j hj
    have h2 := (h k (List.mem_cons_self ..)).2
    have h3 := (h j (List.mem_cons_of_mem _ hj)).1
    omega

theorem drop_sublist_of {l' l : List Nat} {b : Nat} (hs : l'.Sublist l) (ht : l'.take b = l.take b) :
    (l'.drop b).Sublist (l.drop b) := by
  have e1 : l' = l'.take b ++ l'.drop b := (List.take_append_drop b l').symm
  have e2 : l = l.take b ++ l.drop b := (List.take_append_drop b l).symm
  generalize hd' : l'.drop b = d' at e1
  generalize hd : l.drop b = d at e2
  rw [e1, e2, ht] at hs
  exact (List.append_sublist_append_left _).1 hs

/-! ### deleting stack entries -/

/-- `delStack i j` for `b ≤ i ≤ j`: the entries `[i, j)` go. -/
theorem SPA.delStk {lo hi : Int} {x : Option Nat} {b p : Nat} {F : Int} {Z : List Nat} {a : Array INode}
    {sk : List Nat} {pm : Nat → Option Nat} (h : SPA lo hi x b p F Z a sk pm) (i j : Nat) (hbi : b ≤ i) (hij : i ≤ j) :
    SPA lo hi x b p F Z a (sk.take i ++ sk.drop j) pm := by
  have hsub : (sk.take i ++ sk.drop j).Sublist sk := by
    have h1 : sk = sk.take i ++ (sk.drop i) := (List.take_append_drop i sk).symm
    have h2 : (sk.drop j).Sublist (sk.drop i) := by
      have : sk.drop j = (sk.drop i).drop (j - i) := by rw [List.drop_drop]; congr 1; omega
      rw [this]; exact List.drop_sublist _ _
    calc (sk.take i ++ sk.drop j).Sublist (sk.take i ++ sk.drop i) := List.Sublist.append_left h2 _
      _ = sk := h1.symm
  have htake : (sk.take i ++ sk.drop j).take b = sk.take b := by
    by_cases hlen : i ≤ sk.length
    · rw [List.take_append_of_le_length (by rw [List.length_take]; omega), List.take_take]
      congr 1; omega
    · have : sk.take i = sk := List.take_of_length_le (by omega)
      have h2 : sk.drop j = [] := List.drop_of_length_le (by omega)
      rw [this, h2, List.append_nil]
  have hdrop : ((sk.take i ++ sk.drop j).drop b).Sublist (sk.drop b) := by
    exact drop_sublist_of hsub htake
  exact { pos := h.pos, root := h.root, front := h.front, Fhi := h.Fhi, nodes := h.nodes, klt := h.klt, nodup := h.nodup
          uniqp := h.uniqp
          plain := fun k hk => h.plain k (hsub.subset hk)
          sorted := h.sorted.sublist hsub
          low := by rw [htake]; exact h.low
          high := ⟨hdrop.trans h.high.1, fun k hk => h.high.2 k (hdrop.subset hk)⟩
          plt := h.plt, pb := h.pb }

/-- Nodes in `Z` that are not on the stack any more, or are non-empty, can be forgotten. -/
theorem SPA.forget {lo hi : Int} {x : Option Nat} {b p : Nat} {F : Int} {Z : List Nat} {a : Array INode}
    {sk : List Nat} {pm : Nat → Option Nat} (h : SPA lo hi x b p F Z a sk pm)
    (hz : ∀ k ∈ sk, k ∈ Z → (a[k]!).start < (a[k]!).stop) : SPA lo hi x b p F [] a sk pm :=
  { h with plain := fun k hk =>
      { lt := (h.plain k hk).lt, ne0 := (h.plain k hk).ne0, kids := (h.plain k hk).kids, sub := (h.plain k hk).sub
        len := fun _ => by
          by_cases hkz : k ∈ Z
          · exact hz k hk hkz
          · exact (h.plain k hk).len hkz } }

end CM.Proofs.InlH
