import CM.Proofs.QuoteText
/-
C09 (block-quote half), step (3): one (non-empty) line through both line parsers.

* `marker_cursor`: what consuming `> ` does to the cursor of the prefixed side.
* `quote_step`: on the prefixed side the first iteration of `descendOpenBlocks` runs the block quote's `match`, which
  consumes the marker; the rest of the loop runs below the block quote.
* `lineTail_sim`: `openNewBlocks` followed by `addLineText`, from parsers related up to their state.
* `processLine_sim`: the whole line.
-/
namespace CM.Proofs.Quote
open CM CM.Model CM.Gen CM.Proofs.BT

variable {E : Env} {p q : LP} {x : PExt}

def GT : UInt8 := 0x3E

/-! ### consuming the marker -/

/-- The cursor after `Advance(1)`, then `ConsumeIndent(1)` on a line that starts with `> `. -/
def afterMarker (q : LP) : LP :=
  if (q.advance blockQuotePrefix.length).indent > 0 then (q.advance blockQuotePrefix.length).consumeIndentN 1
  else q.advance blockQuotePrefix.length

structure MarkerPost (q q1 : LP) : Prop where
  line : q1.line = q.line
  i : q1.i = 2
  tree : tree q1 = tree q
  state : q1.state = mm q.state
  panic : q1.panic = q.panic
  cur : CurOK q1

theorem marker_cursor (q : LP) (l : Bytes) (hl : q.line = GT :: SP :: l) (hi : q.i = 0) : MarkerPost q (afterMarker q) := by
  have hlen : q.line.length = l.length + 2 := by rw [hl]; simp
  have a_line := advance_line q 1
  have a_i : (q.advance 1).i = 1 := by rw [advance_i, hi, if_pos (by omega)]
  have a_state : (q.advance 1).state = mm q.state := by rw [advance_state]; simp
  have a_panic : (q.advance 1).panic = q.panic := by rw [advance_panic, if_neg (by omega)]
  have a_tree := advance_tree q 1
  have hsp : (q.advance 1).line.getD (q.advance 1).i 0 = SP := by rw [a_line, a_i, hl]; rfl
  have hlt : (q.advance 1).i < (q.advance 1).line.length := by rw [a_line, a_i]; omega
  have hind : (q.advance 1).indent > 0 := by rw [indent_sp _ hlt hsp]; omega
  unfold afterMarker
  have e1 : blockQuotePrefix.length = 1 := rfl
  rw [e1, if_pos hind]
  -- ConsumeIndent(1): one space
  have e2 : (q.advance 1).consumeIndentN 1 =
      ({ (q.advance 1).markMatched with col := (q.advance 1).markMatched.col + 1, i := (q.advance 1).markMatched.i + 1 } : LP).updateTabRemaining := by
    unfold LP.consumeIndentN
    show LP.consumeIndent 2 (q.advance 1) 1 = _
    unfold LP.consumeIndent
    simp only [show (1 == 0) = false from rfl, Bool.false_eq_true, if_false]
    have c : (decide ((q.advance 1).markMatched.i < (q.advance 1).markMatched.line.length) &&
        (q.advance 1).markMatched.line.getD (q.advance 1).markMatched.i 0 == SP) = true := by
      rw [markMatched_i, markMatched_line, hsp]
      simp [hlt]
    rw [if_pos c]
    unfold LP.consumeIndent
    simp
  rw [e2]
  refine ⟨?_, ?_, ?_, ?_, ?_, ?_⟩
  · rw [updateTab_line]; show (q.advance 1).markMatched.line = _; rw [markMatched_line, a_line]
  · rw [updateTab_i]; show (q.advance 1).markMatched.i + 1 = 2; rw [markMatched_i, a_i]
  · rw [updateTab_tree]
    show tree (q.advance 1).markMatched = _
    rw [markMatched_tree, a_tree]
  · rw [updateTab_state]; show (q.advance 1).markMatched.state = _; rw [markMatched_state, a_state, mm_mm]
  · rw [updateTab_panic]; show (q.advance 1).markMatched.panic = _; rw [markMatched_panic, a_panic]
  · apply updateTab_cur
    show (q.advance 1).markMatched.i + 1 ≤ (q.advance 1).markMatched.line.length
    rw [markMatched_i, markMatched_line, a_i, a_line]; omega

/-- The block quote's `match` on a line that starts with `> `. -/
theorem ruleMatch_marker (q : LP) (l : Bytes) (hl : q.line = GT :: SP :: l) (hi : q.i = 0) :
    ruleMatch x BK.blockQuote q = some (true, afterMarker q) := by
  have hlt : q.i < q.line.length := by rw [hl, hi]; simp
  have hind : q.indent = 0 := by
    apply indent_other
    · rw [hl, hi]; show GT ≠ SP; decide
    · rw [hl, hi]; show GT ≠ TAB; decide
  have hbai : q.bytesAfterIndent = GT :: SP :: l := by
    unfold LP.bytesAfterIndent
    rw [hl, hi]; rfl
  rw [rm_quote, hind, hbai, CM.Proofs.consumeIndentN_zero]
  rfl

/-! ### the state of both parsers at the start of a line -/

/-- `p` at the start of a line of the bare document, `q` at the start of the prefixed line. -/
structure LineStart (E : Env) (p q : LP) : Prop where
  lineq : q.line = GT :: SP :: p.line
  pi : p.i = 0
  qi : q.i = 0
  notab : NoTab p.line
  panic : q.panic = p.panic
  root : RootR E p.root q.root
  srcp : p.source = E.src
  srcq : q.source = E.src'
  linep : p.line = p.source.drop p.lineStart
  lsp : p.lineStart ≤ p.source.length
  lineqs : q.line = q.source.drop q.lineStart
  lsq : q.lineStart ≤ q.source.length
  here : ∀ j : Nat, j ≤ p.line.length → E.PR ((p.lineStart + j : Nat) : Int) ((q.lineStart + 2 + j : Nat) : Int)
  start : E.PR (p.lineStart : Int) (q.lineStart : Int)
  ord : ∀ a a' : Int, E.PR a a' → ((p.lineStart : Int) ≤ a ↔ (q.lineStart : Int) ≤ a')

/-- After the marker: related up to the state, at depths 0 / 1. -/
theorem LineStart.simS (h : LineStart E p q) (q1 : LP) (m : MarkerPost { q with depth := 1, state := stateDescending } q1) :
    SimS E 2 { p with depth := 0 } { q1 with depth := 1 } := by
  have mt := m.tree
  simp only [tree, Prod.mk.injEq] at mt
  obtain ⟨m1, m2, m3, m4⟩ := mt
  have hv : (spineGet p.root 0).isSome := by rw [spineGet_zero]; rfl
  refine ⟨⟨?_, ?_, ?_, ?_, h.notab, rfl, ?_⟩, rfl, hv, ?_, h.srcp, ?_, h.linep, h.lsp, ?_, ?_, ?_, ?_, ?_⟩
  · show q1.line.drop 2 = p.line
    rw [m.line]; show q.line.drop 2 = _; rw [h.lineq]; rfl
  · show 2 ≤ q1.line.length
    rw [m.line]; show 2 ≤ q.line.length; rw [h.lineq]; simp
  · show q1.i = p.i + 2; rw [m.i, h.pi]
  · show p.i ≤ p.line.length; rw [h.pi]; exact Nat.zero_le _
  · show q1.panic = p.panic; rw [m.panic]; exact h.panic
  · show RootR E p.root q1.root; rw [m2]; exact h.root
  · show q1.source = _; rw [m1]; exact h.srcq
  · show q1.line = q1.source.drop q1.lineStart; rw [m.line, m1, m4]; exact h.lineqs
  · show q1.lineStart ≤ q1.source.length; rw [m1, m4]; exact h.lsq
  · show ∀ j : Nat, j ≤ p.line.length → E.PR ((p.lineStart + j : Nat) : Int) ((q1.lineStart + 2 + j : Nat) : Int)
    rw [m4]; exact h.here
  · show E.PR (p.lineStart : Int) (q1.lineStart : Int); rw [m4]; exact h.start
  · show ∀ a a' : Int, E.PR a a' → ((p.lineStart : Int) ≤ a ↔ (q1.lineStart : Int) ≤ a')
    rw [m4]; exact h.ord

theorem TopR.spineLength_ge {P Qb : PB} (h : TopR E P Qb) : spineLength P ≤ spineLength Qb := by
  obtain ⟨lp, bs, isP⟩ := P
  obtain ⟨lq, bq, isq⟩ := Qb
  obtain ⟨pre, bs', ebq, hpre, hr⟩ := h.kids
  simp only [PB.blocks] at ebq hr
  subst ebq
  rw [spineLength_mk, spineLength_mk]
  obtain ⟨hl, _⟩ := hr.getLast
  cases hc : bs.getLast? with
  | none => exact Nat.zero_le _
  | some a =>
    rw [hc] at hl
    obtain ⟨a', ea, r⟩ := hl.some_left
    have hne : bs ≠ [] := by intro e0; rw [e0] at hc; cases hc
    have hne' : bs' ≠ [] := fun e0 => hne (hr.nil_iff.mpr e0)
    rw [getLast?_append_ne' _ _ hne', ea]
    simp only []
    rw [BR.spineLength_eq (sizeOf a) a a' (Nat.le_refl _) r]
    exact Nat.le_refl _

theorem RootR.spineLength_ge {P Q : PB} (h : RootR E P Q) : spineLength P + 1 ≤ spineLength Q := by
  obtain ⟨lq, isQ, Qb, rfl, _, _, ht⟩ := h
  rw [spineLength_mk]
  simp only [List.getLast?_singleton]
  have := ht.spineLength_ge
  omega

/-- The first iteration of `descendOpenBlocks` on the prefixed side. -/
theorem quote_step (h : LineStart E p q) :
    descendOpenBlocks x q =
      descendLoop x (spineLength q.root) (afterMarker { q with depth := 1, state := stateDescending }) 1 := by
  obtain ⟨lq, isQ, Qb, e, _, _, ht⟩ := h.root
  unfold descendOpenBlocks
  conv => lhs; unfold descendLoop
  have hg : spineGet q.root (0 + 1) = some Qb := by rw [e, spineGet_wrap, spineGet_zero]
  rw [hg]
  simp only []
  have ho : Qb.isOpen = true := by simp only [PB.isOpen, decide_eq_true_eq]; exact ht.qlab.stop
  rw [if_neg (by simp [ho])]
  have hk : Qb.kind = BK.blockQuote := ht.qlab.kind
  rw [hk, ruleMatch_marker (x := x) ({ q with depth := 0 + 1, state := stateDescending } : LP) p.line h.lineq h.qi]
  simp only []
  have m := marker_cursor ({ q with depth := 0 + 1, state := stateDescending } : LP) p.line h.lineq h.qi
  have hs : (afterMarker ({ q with depth := 0 + 1, state := stateDescending } : LP)).state = 3 := by rw [m.state]; rfl
  rw [if_neg (by rw [hs]; decide)]
  simp only [Bool.not_true, Bool.false_eq_true, if_false]

/-! ### `openNewBlocks`, then `addLineText` -/

/-- The rest of `processLine` after `descendOpenBlocks`. -/
def lineTail (x : PExt) (am : Bool) (p : LP) : LP :=
  if (openNewBlocks x p am).1 then addLineText x (openNewBlocks x p am).2 else (openNewBlocks x p am).2

theorem processLine_eq (x : PExt) (p : LP) : processLine x p =
    if (descendOpenBlocks x p).2.state == stateDescendTerminated then (descendOpenBlocks x p).2
    else lineTail x (descendOpenBlocks x p).1 (descendOpenBlocks x p).2 := rfl

theorem openingLoop_state (x : PExt) (fuel : Nat) (p : LP) (s : Nat) (h : acceptsLines p.containerKind = false) :
    openingLoop x (fuel + 1) { p with state := s } = openingLoop x (fuel + 1) p := by
  unfold openingLoop
  have c1 : ¬ (!(({ p with state := s } : LP).containerKind == BK.paragraph || !acceptsLines ({ p with state := s } : LP).containerKind)) = true := by
    show ¬ (!(p.containerKind == BK.paragraph || !acceptsLines p.containerKind)) = true
    simp [h]
  have c2 : ¬ (!(p.containerKind == BK.paragraph || !acceptsLines p.containerKind)) = true := by simp [h]
  rw [if_neg c1, if_neg c2]
  rfl

/-- The opening loop from parsers related up to the state. -/
theorem openingLoop_simS {k : Nat} (HC : CloseParaSim x E) (fuel : Nat) (h : SimS E k p q) (hst : q.state = p.state ∨ p.depth = 0) :
    (openingLoop x (fuel + 1) q).1 = (openingLoop x (fuel + 1) p).1 ∧
    Sim E k (openingLoop x (fuel + 1) p).2 (openingLoop x (fuel + 1) q).2 := by
  rcases hst with hs | hd
  · exact openingLoop_sim HC (fuel + 1) (h.toSim hs)
  · have h' : Sim E k { p with state := stateDescending } { q with state := stateDescending } := h
    obtain ⟨e1, e2⟩ := h'.containerKind_zero hd
    have a1 : acceptsLines p.containerKind = false := by
      have : ({ p with state := stateDescending } : LP).containerKind = p.containerKind := rfl
      rw [← this, e1]; rfl
    have a2 : acceptsLines q.containerKind = false := by
      have : ({ q with state := stateDescending } : LP).containerKind = q.containerKind := rfl
      rw [← this, e2]; rfl
    have := openingLoop_sim (x := x) HC (fuel + 1) h'
    rw [openingLoop_state x fuel p _ a1, openingLoop_state x fuel q _ a2] at this
    exact this

theorem openNewBlocks_sim {k : Nat} (HC : CloseParaSim x E) (h : SimS E k p q) (hst : q.state = p.state ∨ p.depth = 0)
    (hne : p.line ≠ []) (hq : Inv q) (am : Bool) :
    (openNewBlocks x q am).1 = (openNewBlocks x p am).1 ∧ Sim E k (openNewBlocks x p am).2 (openNewBlocks x q am).2 := by
  have h' : Sim E k { p with state := stateDescending } { q with state := stateDescending } := h
  have hlen : q.line.length = p.line.length + k := h'.cur.len
  have hqi : q.i = p.i + k := h'.cur.i
  unfold openNewBlocks
  have c1 : ¬ p.line.isEmpty = true := by simpa using hne
  have c2 : ¬ q.line.isEmpty = true := by
    intro e
    have : q.line.length = 0 := by rw [List.isEmpty_iff.mp e]; rfl
    have : p.line.length = 0 := by omega
    exact hne (List.length_eq_zero_iff.mp this)
  rw [if_neg c1, if_neg c2]
  -- the same fuel on both sides
  have hf : openingLoop x (q.line.length + 8) q = openingLoop x (p.line.length + 7 + 1) q :=
    openingLoop_fuel_adequate x q hq _ (by omega)
  rw [hf]
  have e8 : p.line.length + 8 = p.line.length + 7 + 1 := rfl
  rw [e8]
  obtain ⟨o1, o2⟩ := openingLoop_simS (x := x) HC (p.line.length + 7) h hst
  generalize openingLoop x (p.line.length + 7 + 1) p = rp at o1 o2 ⊢
  generalize openingLoop x (p.line.length + 7 + 1) q = rq at o1 o2 ⊢
  obtain ⟨htp, p2⟩ := rp
  obtain ⟨htq, q2⟩ := rq
  simp only at o1 o2 ⊢
  subst o1
  cases am with
  | true => exact ⟨rfl, o2⟩
  | false =>
    simp only [Bool.false_eq_true, if_false]
    rw [o2.cur.isRestBlank]
    have ht := o2.toTip
    have hk : (((spineGet q2.root (tipDepth q2.root 0)).getD q2.root).kind == BK.paragraph) =
        (((spineGet p2.root (tipDepth p2.root 0)).getD p2.root).kind == BK.paragraph) :=
      ht.ckind_beq BK.paragraph (by decide) (by decide)
    rw [hk]
    split
    · exact ⟨rfl, ht⟩
    · exact ⟨rfl, o2.closeLastChild HC (Int.natCast_nonneg _) (Int.natCast_nonneg _) o2.start⟩

theorem lineTail_sim {k : Nat} (HC : CloseParaSim x E) (h : SimS E k p q) (hst : q.state = p.state ∨ p.depth = 0)
    (hne : p.line ≠ []) (hp : Inv p) (hq : Inv q) (am : Bool) : Sim E k (lineTail x am p) (lineTail x am q) := by
  unfold lineTail
  obtain ⟨o1, o2⟩ := openNewBlocks_sim (x := x) HC h hst hne hq am
  have op := openNewBlocks_post x p am hp
  rw [o1]
  have hl : (openNewBlocks x p am).2.line = p.line := by
    unfold openNewBlocks
    rw [if_neg (by simpa using hne)]
    have ol := openingLoop_post x (p.line.length + 8) p hp (fun e => by omega)
    generalize openingLoop x (p.line.length + 8) p = r at ol ⊢
    obtain ⟨a, b⟩ := r
    simp only
    split
    · exact ol.line
    · split
      · exact ol.line
      · exact ol.line
  split
  · rename_i ht
    exact addLineText_sim HC o2 (by rw [hl]; exact hne) (op.st ht)
  · exact o2

/-! ### the line itself is never modified -/

theorem collectInline_line (x : PExt) (p : LP) (kind n : Nat) : (p.collectInline x kind n).line = p.line := by
  by_cases hst : p.state = 4
  · unfold LP.collectInline
    rw [if_pos (by simp [stateDescendTerminated, hst])]
    exact setPanic_line _ _
  · rw [BG.collectInline_eq x p kind n hst]
    simp only []
    have e : (BG.ciIndent { p with state := mm p.state }).line = p.line := by
      unfold BG.ciIndent
      split
      · show (LP.advance _ _).line = _; rw [advance_line]
      · rfl
    split
    · show (LP.advance _ n).line = _; rw [advance_line, e]
    · show (LP.advance _ n).line = _; rw [advance_line, e]

theorem ruleMatch_line (x : PExt) (kind : Nat) (p : LP) {ok : Bool} {p' : LP} (h : ruleMatch x kind p = some (ok, p')) :
    p'.line = p.line := by
  have hm := hasMatch_of_some x kind p h
  unfold hasMatch at hm
  rcases hm with rfl | rfl | rfl | rfl | rfl | rfl | rfl | rfl
  · rw [rm_doc] at h; cases h; rfl
  · rw [rm_list] at h; cases h; rfl
  · rw [rm_item] at h
    split at h
    · split at h
      · cases h; rfl
      · cases h; exact consumeIndentN_line _ _
    · split at h
      · split at h
        · cases h; exact consumeIndentN_line _ _
        · cases h; rfl
      · cases h; rfl
  · rw [rm_quote] at h
    split at h
    · cases h; rfl
    · split at h
      · cases h; rfl
      · cases h
        split
        · rw [consumeIndentN_line, advance_line, consumeIndentN_line]
        · rw [advance_line, consumeIndentN_line]
  · rw [rm_fenced] at h
    split at h
    · cases h; exact consumeLine_line _
    · cases h
      split
      · exact consumeIndentN_line _ _
      · exact consumeIndentN_line _ _
  · rw [rm_indented] at h
    split at h
    · split at h
      · cases h; rfl
      · cases h; exact consumeIndentN_line _ _
    · cases h; exact consumeIndentN_line _ _
  · rw [rm_html] at h
    split at h
    · split at h
      · cases h; rfl
      · cases h; rw [consumeLine_line, collectInline_line]
    · cases h; rfl
  · rw [rm_para] at h; cases h; rfl

theorem closeContainer_line (x : PExt) (p : LP) (e : Int) : (p.closeContainer x e).line = p.line := by
  unfold LP.closeContainer; split <;> rfl

theorem descendLoop_line (x : PExt) : ∀ (fuel : Nat) (p : LP) (parent : Nat), (descendLoop x fuel p parent).2.line = p.line := by
  intro fuel
  induction fuel with
  | zero => intro p parent; rfl
  | succ fuel ih =>
    intro p parent
    unfold descendLoop
    split
    · rfl
    · split
      · rfl
      · simp only []
        split
        · rfl
        · rename_i ok p2 hrm
          have hl := ruleMatch_line x _ _ hrm
          split
          · show (LP.closeContainer x p2 _).line = _
            rw [closeContainer_line]; exact hl
          · split
            · exact hl
            · rw [ih]; exact hl

/-! ### the whole line -/

/-- What the next line needs to know about the two parsers. -/
structure Btw (E : Env) (p q : LP) : Prop where
  root : RootR E p.root q.root
  panic : q.panic = p.panic

/-- **One non-empty line** through both parsers. -/
theorem processLine_sim (HC : CloseParaSim x E) (h : LineStart E p q) (hne : p.line ≠ []) (hp : Inv p) (hq : Inv q)
    (hT : p.state = stateDescendTerminated → ∃ c, spineGet p.root 1 = some c ∧ c.isOpen = true ∧ hasMatch c.label.kind) :
    Btw E (processLine x p) (processLine x q) := by
  rw [processLine_eq, processLine_eq, quote_step (x := x) h]
  have m := marker_cursor ({ q with depth := 1, state := stateDescending } : LP) p.line h.lineq h.qi
  generalize hq1 : afterMarker ({ q with depth := 1, state := stateDescending } : LP) = q1 at m
  have hS := h.simS q1 m
  have hfuel : spineLength p.root + 1 ≤ spineLength q.root := h.root.spineLength_ge
  have hinv0 : Inv { p with depth := 0 } := hp.setDepth 0 (Nat.zero_le _)
  have dl := descendLoop_sim (x := x) HC (spineLength p.root + 1) (spineLength q.root) p q1 0 hfuel hinv0 (by omega) hS
  have hdP : descendOpenBlocks x p = descendLoop x (spineLength p.root + 1) p 0 := rfl
  rw [hdP]
  have hrootq : q1.root = q.root := by
    have := m.tree; simp only [tree, Prod.mk.injEq] at this; exact this.2.1
  -- the invariants after the loops
  have ip := descendLoop_inv x (spineLength p.root + 1) p 0 hinv0
  have hq1inv : Inv { q1 with depth := 0 + 1 } := by
    have mt := m.tree
    simp only [tree, Prod.mk.injEq] at mt
    refine ⟨by show q1.panic = none; rw [m.panic]; exact hq.panic, ⟨m.cur.hi, m.cur.htab⟩, ⟨?_, ?_⟩⟩
    · show q1.root.kind = _; rw [mt.2.1]; exact hq.tree.root
    · show (spineGet q1.root 1).isSome
      rw [mt.2.1]
      obtain ⟨Qb, e, _⟩ := h.root.quote
      rw [e]; rfl
  have iq := descendLoop_inv x (spineLength q.root) q1 (0 + 1) hq1inv
  have hl0 := descendLoop_line x (spineLength p.root + 1) p 0
  generalize descendLoop x (spineLength p.root + 1) p 0 = rp at dl ip hl0 ⊢
  generalize descendLoop x (spineLength q.root) q1 (0 + 1) = rq at dl iq ⊢
  obtain ⟨amp, p2⟩ := rp
  obtain ⟨amq, q2⟩ := rq
  obtain ⟨d1, d2, d3⟩ := dl
  simp only at d1 d2 d3 ip iq hl0 ⊢
  subst d1
  have hq1s : q1.state = 3 := by rw [m.state]; rfl
  -- the test for "descend terminated"
  have hterm : (q2.state == stateDescendTerminated) = (p2.state == stateDescendTerminated) := by
    rcases d3 with e | ⟨e1, e2, _, hnc⟩
    · rw [e]
    · rw [e1, e2, hq1s]
      have : p.state ≠ stateDescendTerminated := by
        intro e4
        obtain ⟨c, hc, ho, hm⟩ := hT e4
        exact hnc c hc ho hm
      rw [beq_eq_false_iff_ne.mpr this]
      rfl
  rw [hterm]
  split
  · rename_i ht
    rcases d3 with e | ⟨e1, e2, _, hnc⟩
    · have := d2.toSim e
      exact ⟨this.root, this.cur.panic⟩
    · exfalso
      have hp4 : p.state = stateDescendTerminated := by rw [← e1]; simpa using ht
      obtain ⟨c, hc, ho, hm⟩ := hT hp4
      exact hnc c hc ho hm
  · have hst : q2.state = p2.state ∨ p2.depth = 0 := by
      rcases d3 with e | ⟨_, _, e3, _⟩
      · exact Or.inl e
      · exact Or.inr e3
    have hl2 : p2.line = p.line := hl0
    have := lineTail_sim (x := x) HC d2 hst (by rw [hl2]; exact hne) ip iq amq
    exact ⟨this.root, this.cur.panic⟩

end CM.Proofs.Quote
