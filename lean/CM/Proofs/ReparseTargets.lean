import CM.Proofs.ReparseC16
import CM.Spec.Tiling
/-
C16: the form of the block-phase statement that IS proved (`C16_blocks_restricted`), and the exact statements of what
remains (`nulSubst_target`, `pendShift_target`), with the reduction of the NUL case to the first of them.

Evidence for the open statements (`#eval` on the model, random documents of 2–9 tokens over alphabets of 16–30 tokens
that include all block markers, link reference definitions, tabs, CRLF and NUL):
* `C16_blocks_target` (all kinds, all roots outside the excluded class): 300 000 documents without NUL, 260 000 with
  NUL — no counterexample;
* `nulSubst_target`: 200 000 documents with NUL bytes in text, labels, destinations, titles, HTML, entities, escapes,
  before tabs — no counterexample;
* `pendShift_target` (checked on the states between `NextBlock` calls of 300 000 documents): the only pending blocks
  that are not the shifted fresh parse of the closing line are the open "orphan underline" paragraphs of a setext
  heading whose text was all link reference definitions (the recorded finding; inside the excluded class).
-/
namespace CM.Proofs.Rp
open CM CM.Model CM.Gen CM.Proofs

/-- **C16, block phase, the form that is proved**: inputs without NUL bytes, roots of leaf kinds (`GoodK`: everything
    but block quotes, lists and link reference definitions), delivered by a `NextBlock` call that started with no
    pending blocks (the first root, a root after a blank line — `C16_blocks_gap` —, a root after a block that ended
    with its own last line). No other hypothesis (`ParaCloseLocal` is a theorem). -/
theorem C16_blocks_restricted (x : PExt) (inp : Bytes) (hnn : NoNul inp) (n : Nat) (r : Root)
    (hr : (drain (blocksLP x) (inp.length + 8) (memParser inp) []).1[n]? = some r)
    (hbl : (stateBefore (blocksLP x) inp n).blocks = []) (hgood : GoodK r.block.kind) :
    ∃ r' pB, drain (blocksLP x) (r.source.length + 8) (memParser r.source) [] = ([r'], .err .eof, pB) ∧
      r'.source = r.source ∧ r'.startOffset = 0 ∧ r'.endOffset = r.source.length ∧ r'.startLine = 1 ∧
      pbToTree r'.block = pbToTree r.block := by
  obtain ⟨r', pB, hd, h⟩ := C16_blocks_drain x hnn _ n r hr hbl hgood (r.source.length + 6)
  exact ⟨r', pB, hd, h.source, h.startOffset, h.endOffset, h.startLine, h.tree.symm⟩

/-! ### NUL bytes

`Parse` pads every NUL of the input to three zero bytes, the block phase runs on the padded buffer, and `Source` is the
slice with the padding overwritten by U+FFFD. Re-parsing a `Source` therefore runs the block phase on DIFFERENT bytes
(`EF BF BD` where the document's run saw `00 00 00`): lifting `NoNul` needs an invariance of the block parser itself
under this substitution (column arithmetic: three one-column bytes against one three-byte rune; byte classes), not only
the contract on cut positions. The reduction: -/

/-- What a client sees of the roots, but for the offsets (which count the original bytes). -/
def obsRoots (x : PExt) (F : Nat) (inp : Bytes) : List (Bytes × Nat × Tree) :=
  (drain (blocksLP x) F (memParser inp) []).1.map fun r => (r.source, r.startLine, pbToTree r.block)

/-- The block phase does not distinguish a NUL byte from U+FFFD. -/
def nulSubst_target (x : PExt) : Prop := ∀ (inp : Bytes) (F : Nat), obsRoots x F inp = obsRoots x F (Spec.replNul inp)

theorem replNul_noNul (b : Bytes) : NoNul (Spec.replNul b) := by
  intro c hc
  unfold Spec.replNul at hc
  rw [List.mem_flatMap] at hc
  obtain ⟨a, _, ha⟩ := hc
  split at ha
  · simp only [List.mem_cons, List.mem_nil_iff, or_false] at ha
    rcases ha with rfl | rfl | rfl <;> decide
  · rename_i hne
    simp only [List.mem_cons, List.mem_nil_iff, or_false] at ha
    subst ha
    simpa using hne

theorem pbToTree_kind (b : PB) : (pbToTree b).label.kind = b.kind := by
  cases b with
  | mk l bs is => rfl

/-- **C16 with NUL bytes, given `nulSubst_target`.** -/
theorem C16_blocks_nul (x : PExt) (hN : nulSubst_target x) (inp : Bytes) (n : Nat) (r : Root)
    (hr : (drain (blocksLP x) (inp.length + 8) (memParser inp) []).1[n]? = some r)
    (hbl : (stateBefore (blocksLP x) (Spec.replNul inp) n).blocks = []) (hgood : GoodK r.block.kind) :
    ∃ r' pB, drain (blocksLP x) (r.source.length + 8) (memParser r.source) [] = ([r'], .err .eof, pB) ∧
      r'.source = r.source ∧ r'.startOffset = 0 ∧ r'.endOffset = r.source.length ∧ r'.startLine = 1 ∧
      pbToTree r'.block = pbToTree r.block := by
  have h := hN inp (inp.length + 8)
  have h1 : (obsRoots x (inp.length + 8) inp)[n]? = some (r.source, r.startLine, pbToTree r.block) := by
    unfold obsRoots; rw [List.getElem?_map, hr]; rfl
  rw [h] at h1
  unfold obsRoots at h1
  rw [List.getElem?_map] at h1
  cases h2 : (drain (blocksLP x) (inp.length + 8) (memParser (Spec.replNul inp)) []).1[n]? with
  | none => rw [h2] at h1; cases h1
  | some r2 =>
    rw [h2] at h1
    simp only [Option.map_some, Option.some.injEq, Prod.mk.injEq] at h1
    obtain ⟨e1, _, e3⟩ := h1
    have hg2 : GoodK r2.block.kind := by rw [← pbToTree_kind, e3, pbToTree_kind]; exact hgood
    obtain ⟨r', pB, hd, hrep⟩ := C16_blocks_drain x (replNul_noNul inp) _ n r2 h2 hbl hg2 (r2.source.length + 6)
    rw [e1] at hd
    refine ⟨r', pB, hd, by rw [hrep.source, e1], hrep.startOffset, by rw [hrep.endOffset, e1], hrep.startLine, ?_⟩
    rw [← e3]; exact hrep.tree.symm

/-! ### Roots delivered from pending blocks

A root that starts exactly where the previous root ends was opened by the line that closed its predecessor; the machine
cuts the predecessor off, re-bases what is left (`offsetPBs`) and goes on from `L.new` of these blocks. The block-level
statement that is missing: what such a line leaves behind the closed first child is the fresh parse of that line
alone, shifted. (With link reference definitions split off the paragraph the closed prefix has several elements, and
the orphan underline of an all-definitions setext heading is the exception.) -/
def pendShift_target (x : PExt) : Prop :=
  ∀ (src : Bytes) (σ : LP) (ln : Bytes) (k : PB) (rest : List PB), BI src σ → headOpen ((blocksLP x).kids σ) = true →
    IsLine ln → NoNul ln → Joins src ln →
    ((blocksLP x).line σ (src ++ ln) src.length).root.blocks = k :: rest → k.isOpen = false → rest ≠ [] →
    (∀ b ∈ k :: rest, b.kind ≠ BK.linkRefDef) →
    isBlankLine ln = false ∧ k.label.stop = (src.length : Int) ∧
      rest = offsetPBs (src.length : Int) ((blocksLP x).line ((blocksLP x).new []) ln 0).root.blocks

end CM.Proofs.Rp

/-! ### Instances -/

namespace CM.Proofs.Rp
open CM CM.Model CM.Gen CM.Proofs

/-- The paragraph `[a] b` (it begins with `[`), closed by a blank line: no hypothesis left. -/
example : ∃ r' pB, drain (blocksLP demoExt) ((Bytes.ofString "[a] b\n").length + 8) (memParser (Bytes.ofString "[a] b\n")) [] =
    ([r'], .err .eof, pB) ∧ r'.startOffset = 0 := by
  obtain ⟨r', pB, h, _, h2, _⟩ := C16_blocks_restricted demoExt (Bytes.ofString "[a] b\n\nc\n") (by decide +kernel) 0
    ((drain (blocksLP demoExt) ((Bytes.ofString "[a] b\n\nc\n").length + 8) (memParser (Bytes.ofString "[a] b\n\nc\n")) []).1.getD 0 default)
    (getElem?_getD _ _ _ (by decide +kernel)) (by decide +kernel) (by decide +kernel)
  have e : ((drain (blocksLP demoExt) ((Bytes.ofString "[a] b\n\nc\n").length + 8) (memParser (Bytes.ofString "[a] b\n\nc\n")) []).1.getD 0 default).source =
      Bytes.ofString "[a] b\n" := by decide +kernel
  rw [e] at h
  exact ⟨r', pB, h, h2⟩

/-- A NUL byte: the document's run sees `00 00 00`, the `Source` of the root has `EF BF BD`. -/
example : (memParser (Bytes.ofString "a\x00\n")).buf = [97, 0, 0, 0, 10] ∧
    ((drain (blocksLP demoExt) 12 (memParser (Bytes.ofString "a\x00\n")) []).1.map Root.source) = [[97, 0xEF, 0xBF, 0xBD, 10]] := by
  decide +kernel

end CM.Proofs.Rp
