import CM.Proofs.StreamSim
/-
Fuel of the two loops of `NextBlock` (blank-line skipping, per-line loop) on the in-memory parser:
a measure (`linesLeft`) that every successful `readline` decreases, and independence of the results from the
fuel above that measure.
-/
namespace CM.Proofs
open CM CM.Model CM.Gen

/-! ### Counting line ends: the measure that bounds the loops of `NextBlock` -/

def isEOL (c : UInt8) : Bool := c == CR || c == LF

/-- Number of end-of-line bytes. -/
def eolCount (b : Bytes) : Nat := b.countP isEOL

/-- Upper bound on the number of lines `readline` can still return from position `i` of a complete buffer. -/
def linesLeft (b : Bytes) (i : Nat) : Nat := eolCount (b.drop i) + (if i < b.length then 1 else 0)

theorem eolCount_append (a b : Bytes) : eolCount (a ++ b) = eolCount a + eolCount b := by
  simp [eolCount, List.countP_append]

theorem eolCount_le_length (b : Bytes) : eolCount b ≤ b.length := List.countP_le_length

theorem eolCount_padNulls (b : Bytes) : eolCount (padNulls b 0) = eolCount b := by
  rw [padNulls_zero]
  induction b with
  | nil => rfl
  | cons c t ih =>
    simp only [List.flatMap_cons, eolCount_append, ih]
    have : eolCount (padByte c) = eolCount [c] := by
      unfold padByte
      split
      · rename_i h
        have : c = 0 := by simpa using h
        subst this
        decide
      · rfl
    rw [this, ← eolCount_append]; rfl

theorem eolCount_drop_mono (b : Bytes) {i j : Nat} (h : i ≤ j) : eolCount (b.drop j) ≤ eolCount (b.drop i) := by
  have : b.drop j = (b.drop i).drop (j - i) := by rw [List.drop_drop]; congr 1; omega
  rw [this]
  exact List.Sublist.countP_le (List.drop_sublist _ _)

theorem indexEOL_isEOL {l : Bytes} {k j : Nat} (h : indexEOL l k = some j) :
    ∃ c, l[j - k]? = some c ∧ isEOL c = true := by
  induction l generalizing k with
  | nil => simp [indexEOL] at h
  | cons c t ih =>
    simp only [indexEOL] at h
    split at h
    · rename_i hc
      cases h
      exact ⟨c, by simp, by simpa [isEOL] using hc⟩
    · obtain ⟨c', h1, h2⟩ := ih h
      have := (indexEOL_some h).1
      refine ⟨c', ?_, h2⟩
      have : j - k = (j - (k + 1)) + 1 := by omega
      rw [this, List.getElem?_cons_succ]; exact h1

theorem eolCount_drop_eol {b : Bytes} {s : Nat} {c : UInt8} (h : b[s]? = some c) (hc : isEOL c = true) :
    eolCount (b.drop s) = eolCount (b.drop (s + 1)) + 1 := by
  have hlt : s < b.length := (List.getElem?_eq_some_iff.mp h).1
  have hc' : isEOL b[s] = true := by
    have := (List.getElem?_eq_some_iff.mp h).2; rw [this]; exact hc
  unfold eolCount
  rw [List.drop_eq_getElem_cons hlt, List.countP_cons, if_pos hc']

/-- A successful `readline` consumes a line. -/
theorem linesLeft_lt {b : Bytes} {i e : Nat} (h : eolEndB b i true = some e) (hlt : i < e) :
    linesLeft b e < linesLeft b i := by
  have hb := eolEndB_bounds h
  unfold eolEndB at h
  split at h
  · rename_i k hk
    have hk1 := indexEOL_some hk
    simp only [List.length_drop] at hk1
    obtain ⟨c, hc1, hc2⟩ := indexEOL_isEOL hk
    simp only [Nat.sub_zero, List.getElem?_drop] at hc1
    have hs := (eolAt_bounds (by omega) h).2
    have e1 := eolCount_drop_eol hc1 hc2
    have e2 := eolCount_drop_mono b (show i ≤ i + k by omega)
    have e3 := eolCount_drop_mono b (show i + k + 1 ≤ e by omega)
    unfold linesLeft
    have : (if i < b.length then 1 else 0) = 1 := by rw [if_pos (by omega)]
    rw [this]
    split <;> omega
  · simp at h
    subst h
    unfold linesLeft
    rw [if_pos hlt]
    simp [eolCount]

theorem linesLeft_length (b : Bytes) : linesLeft b b.length = 0 := by
  simp [linesLeft, eolCount]

theorem linesLeft_drop (b : Bytes) (i : Nat) : linesLeft (b.drop i) 0 = linesLeft b i := by
  unfold linesLeft
  simp only [List.drop_zero, List.length_drop]
  congr 1
  by_cases h : i < b.length
  · rw [if_pos h, if_pos (by omega)]
  · rw [if_neg h, if_neg (by omega)]

theorem linesLeft_le (b : Bytes) (i : Nat) : linesLeft b i ≤ eolCount b + 1 := by
  unfold linesLeft
  have := eolCount_drop_mono b (Nat.zero_le i)
  simp only [List.drop_zero] at this
  split <;> omega

theorem readline_site_mem {p : BP} (h : p.err.isSome = true) :
    ∃ e, eolEndB p.buf p.i true = some e ∧
      readline (p.rd.data.length + p.rd.sched.length + 2) p = (decide (p.i < e), { p with i := e }) :=
  readline_mem h (p.rd.data.length + p.rd.sched.length + 1)

/-- Frame of the loops on the in-memory parser. -/
structure Frame (p p' : BP) : Prop where
  err : p'.err = p.err
  panic : p'.panic = p.panic
  blocks : p'.blocks = p.blocks

theorem Frame.refl (p : BP) : Frame p p := ⟨rfl, rfl, rfl⟩

theorem skipBlank_mem : ∀ (f1 f2 : Nat) (p : BP), p.err.isSome = true →
    linesLeft p.buf p.i + 1 ≤ f1 → linesLeft p.buf p.i + 1 ≤ f2 →
    skipBlank f1 p = skipBlank f2 p ∧ Frame p (skipBlank f1 p).2 ∧
    (∀ p', (skipBlank f1 p).1 = some p' → p' = (skipBlank f1 p).2 ∧
       linesLeft p'.buf p'.i ≤ linesLeft p.buf p.i ∧ p'.i ≤ p'.buf.length ∧
       isBlankLine (p'.buf.take p'.i) = false) := by
  intro f1
  induction f1 with
  | zero => intro f2 p _ h; omega
  | succ f1 ih =>
    intro f2 p herr h1 h2
    cases f2 with
    | zero => omega
    | succ f2 =>
      obtain ⟨e, he, hr⟩ := readline_site_mem herr
      have hb := eolEndB_bounds he
      simp only [skipBlank, hr]
      by_cases hlt : p.i < e
      · have hll := linesLeft_lt he hlt
        simp only [hlt, decide_true, Bool.not_true, Bool.false_eq_true, if_false]
        by_cases hbl : isBlankLine (p.buf.take e) = true
        · simp only [hbl, Bool.not_true, Bool.false_eq_true, if_false]
          have hd := linesLeft_drop p.buf e
          obtain ⟨a1, a2, a3⟩ := ih f2 { p with offset := p.offset + unpaddedNullLength (p.buf.take e), lineno := p.lineno + 1, buf := p.buf.drop e, i := 0 } herr (by simp only; omega) (by simp only; omega)
          refine ⟨a1, ⟨a2.err, a2.panic, a2.blocks⟩, ?_⟩
          intro p' hp'
          obtain ⟨b1, b2, b3, b4⟩ := a3 p' hp'
          refine ⟨b1, ?_, b3, b4⟩
          simp only at b2
          omega
        · simp only [hbl]
          refine ⟨by trivial, ⟨rfl, rfl, rfl⟩, ?_⟩
          intro p' hp'
          simp at hp'
          subst hp'
          refine ⟨rfl, ?_, hb.1, by simpa using hbl⟩
          simp only
          omega
      · simp only [hlt, decide_false, Bool.not_false, if_true]
        refine ⟨by trivial, ⟨rfl, rfl, rfl⟩, ?_⟩
        intro p' hp'
        simp at hp'

theorem mem_offsetPBs {n : Int} {l : List PB} {k' : PB} (h : k' ∈ offsetPBs n l) : ∃ k ∈ l, k' = offsetPB n k := by
  induction l with
  | nil => simp [offsetPBs] at h
  | cons a t ih =>
    simp only [offsetPBs, List.mem_cons] at h
    rcases h with h | h
    · exact ⟨a, by simp, h⟩
    · obtain ⟨k, hk, e⟩ := ih h
      exact ⟨k, by simp [hk], e⟩

theorem offsetPB_stop (n : Int) (k : PB) :
    (offsetPB n k).label.stop = if k.label.stop ≥ 0 then k.label.stop + n else k.label.stop := by
  cases k with
  | mk l bs is => simp [offsetPB, PB.label]

/-- Every closed pending block ends at or before the parse position. -/
def BlocksOK (p : BP) : Prop := ∀ k ∈ p.blocks, k.isOpen = false → k.label.stop.toNat ≤ p.i

theorem afterRoot_inv {p : BP} {k : PB} {rest : List PB}
    (hk : ∀ k' ∈ k :: rest, k'.isOpen = false → k'.label.stop.toNat ≤ p.i) (hc : k.isOpen = false)
    (hi : p.i ≤ p.buf.length) :
    (afterRoot p k rest).panic = p.panic ∧ (afterRoot p k rest).err = p.err ∧
    (afterRoot p k rest).i ≤ (afterRoot p k rest).buf.length ∧ BlocksOK (afterRoot p k rest) := by
  have hn := hk k (by simp) hc
  refine ⟨?_, rfl, ?_, ?_⟩
  · show (if _ then _ else _) = _
    rw [if_neg]; simp; omega
  · show p.i - _ ≤ (p.buf.drop _).length
    simp only [List.length_drop]; omega
  · intro k' hk' hc'
    obtain ⟨k0, hk0, e⟩ := mem_offsetPBs hk'
    subst e
    show _ ≤ p.i - _
    have hs := offsetPB_stop (-(k.label.stop.toNat : Int)) k0
    simp only [PB.isOpen] at hc'
    by_cases h0 : k0.label.stop ≥ 0
    · rw [if_pos h0] at hs
      have := hk k0 (by simp [hk0]) (by simp [PB.isOpen]; omega)
      rw [hs]
      omega
    · rw [if_neg h0] at hs
      rw [hs] at hc'
      simp at hc'; omega

end CM.Proofs
