import CM.Proofs.ItemArith
import CM.Proofs.QuoteGStep
/-
C09 (list-item half): the coordinates of a line in both runs (port of `QuoteStep`): `LineAtI`, the two line parsers at
the start of a line behind the first (`lineStart_ofI`) and of the first line (`firstStart_ofI`).
-/
namespace CM.Proofs.Item
open CM CM.Model CM.Gen CM.Proofs.BT CM.Proofs.Quote CM.Proofs.Nest

theorem envOfI_le (DR : List Tree → List Tree → Prop) (m : Bytes) (N : Nat) (D : Bytes) (c s s' t t' : Nat) (done : List Tree)
    (h : s ≤ t) (h' : s' ≤ t') : (envOfI DR m N D c s s' done).le (envOfI DR m N D c t t' done) :=
  ⟨rfl, by show (D.drop c).take s <+: (D.drop c).take t; exact (List.take_prefix_take_left (by omega)),
    by show (item m N D).take s' <+: (item m N D).take t'; exact (List.take_prefix_take_left (by omega)), fun _ _ h => h⟩

theorem envOfI_le_envAtI (DR : List Tree → List Tree → Prop) (m : Bytes) (N : Nat) (D : Bytes) (c s s' : Nat) (done : List Tree) :
    (envOfI DR m N D c s s' done).le (envAtI DR m N D c) :=
  ⟨rfl, List.take_prefix _ _, List.take_prefix _ _, fun _ _ h => h⟩

section line
variable {I : IP} {D a b qa : Bytes} {c : Nat}

/-- The coordinates of a line. -/
structure LineAtI (I : IP) (D a b qa : Bytes) (c : Nat) : Prop where
  split : D = a ++ b
  qsplit : iq I D = qa ++ ifrom (I.pre a) I.k b
  clean : Clean D
  whole : Whole a
  cle : c ≤ a.length
  qlen : qa.length = a.length + I.k * nLF a a.length
  bne : b ≠ []

variable (h : LineAtI I D a b qa c)
include h

theorem LineAtI.noCRb : NoCR b := noCR_b h.split h.clean.noCR

/-- The source of the bare side up to the end of the line, behind the line start. -/
theorem LineAtI.lineD : ((D.drop c).take (a.length - c + lineLen b)).drop (a.length - c) = b.take (lineLen b) := by
  have e : D.drop c = a.drop c ++ b := by rw [h.split, List.drop_append_of_le_length h.cle]
  have hl : (a.drop c).length = a.length - c := by simp
  rw [e, List.take_append, List.drop_append]
  rw [hl]
  have e1 : (a.drop c).take (a.length - c + lineLen b) = a.drop c := List.take_of_length_le (by omega)
  have e2 : a.length - c + lineLen b - (a.length - c) = lineLen b := by omega
  rw [e1, e2, List.drop_eq_nil_of_le (by omega), List.nil_append]
  rw [hl, Nat.sub_self, List.drop_zero]

/-- The source of the prefixed side up to the end of the line, behind the line start. -/
theorem LineAtI.lineQ : ((iq I D).take (qa.length + (lineLen b + I.k))).drop qa.length = I.pre a ++ b.take (lineLen b) := by
  rw [h.qsplit, List.take_append, List.drop_append]
  have e1 : qa.take (qa.length + (lineLen b + I.k)) = qa := List.take_of_length_le (by omega)
  have e2 : qa.length + (lineLen b + I.k) - qa.length = lineLen b + I.k := by omega
  rw [e1, e2, List.drop_eq_nil_of_le (by omega), List.nil_append, Nat.sub_self, List.drop_zero]
  have := take_line_ifrom (I.pre a) I.k b (I.pre_noLF a) h.noCRb h.bne
  rw [lineLen_ifrom (I.pre a) I.k b (I.pre_noLF a) h.noCRb h.bne, I.pre_length] at this
  exact this

theorem LineAtI.lenD : c + (a.length - c + lineLen b) ≤ D.length := by
  have := lineLen_le b
  rw [h.split, List.length_append]
  have := h.cle
  omega

theorem LineAtI.lenQ : qa.length + (lineLen b + I.k) ≤ (iq I D).length := by
  have := lineLen_le (ifrom (I.pre a) I.k b)
  rw [lineLen_ifrom (I.pre a) I.k b (I.pre_noLF a) h.noCRb h.bne, I.pre_length] at this
  rw [h.qsplit, List.length_append]
  omega

theorem LineAtI.takeLen : (b.take (lineLen b)).length = lineLen b := by
  rw [List.length_take]; exact Nat.min_eq_left (lineLen_le b)

theorem LineAtI.takeNe : a ++ b.take (lineLen b) ≠ [] := by
  intro e
  have h1 := congrArg List.length e
  rw [List.length_append, h.takeLen] at h1
  have := lineLen_pos h.bne
  simp only [List.length_nil] at h1
  omega

/-- The next line. -/
theorem LineAtI.next : D = (a ++ b.take (lineLen b)) ++ b.drop (lineLen b) ∧
    iq I D = (qa ++ (I.pre a ++ b.take (lineLen b))) ++ ifrom (I.pre (a ++ b.take (lineLen b))) I.k (b.drop (lineLen b)) ∧
    (b.drop (lineLen b) ≠ [] → Whole (a ++ b.take (lineLen b))) ∧
    (b.drop (lineLen b) ≠ [] → (qa ++ (I.pre a ++ b.take (lineLen b))).length =
      (a ++ b.take (lineLen b)).length + I.k * nLF (a ++ b.take (lineLen b)) (a ++ b.take (lineLen b)).length) := by
  have hnb := h.noCRb
  refine ⟨by rw [List.append_assoc, List.take_append_drop]; exact h.split, ?_, ?_, ?_⟩
  · rw [h.qsplit, ifrom_line (I.pre a) I.k b hnb h.bne, I.pre_ne h.takeNe]
    simp [List.append_assoc]
  · intro hne
    right
    have hne2 : b.take (lineLen b) ≠ [] := by
      intro e
      have h1 := congrArg List.length e
      rw [h.takeLen] at h1
      have h2 := lineLen_pos h.bne
      simp only [List.length_nil] at h1
      omega
    rw [getLast?_append_ne' _ _ hne2]
    rcases line_end b with hl | hl | hl
    · exact absurd hl hne
    · exact hl
    · exfalso
      have hmem : CR ∈ b.take (lineLen b) := List.mem_of_getLast? hl
      exact hnb CR (List.mem_of_mem_take hmem) rfl
  · intro hne
    have hl2 := h.takeLen
    have hf := filter_line_LF b hnb hne
    have hq := h.qlen
    rw [nLF_take_length] at hq
    rw [nLF_take_length, List.filter_append]
    simp only [List.length_append, hl2, hf, hq, I.pre_length, Nat.mul_add, Nat.mul_one]
    omega

/-- After the last line: the end of `item m N D`. -/
theorem LineAtI.next_eof (hlast : b.drop (lineLen b) = []) :
    (qa ++ (I.pre a ++ b.take (lineLen b))).length = psiEk I.k D D.length := by
  have hnb := h.noCRb
  have hl2 := h.takeLen
  have hbl : lineLen b = b.length := by
    have h1 := congrArg List.length hlast
    rw [List.length_drop] at h1
    have := lineLen_le b
    simp only [List.length_nil] at h1
    omega
  have hpos := lineLen_pos h.bne
  have hDl : D.length = a.length + lineLen b := by rw [h.split, List.length_append, hbl]
  rw [hDl, psiEk_line h.split h.clean.noCR h.whole (lineLen b) hpos (Nat.le_refl _)]
  simp only [List.length_append, hl2, h.qlen, I.pre_length]
  omega

theorem LineAtI.noTabLine : NoTab (b.take (lineLen b)) := by
  intro x hx
  apply h.clean.noTab
  rw [h.split]
  exact List.mem_append_right _ (List.mem_of_mem_take hx)

/-- **The two parsers at the start of a line behind the first.** -/
theorem lineStart_ofI (DR : List Tree → List Tree → Prop) (G : List Tree → Prop) (ha : a ≠ []) (done : List Tree) (lpD lpQ : LP)
    (hD' : LPInv' lpD) (hQ' : LPInv' lpQ)
    (hroot : Nest.RootR (iF I.k I.dl) (envOfI DR I.m I.N D c (a.length - c) qa.length done) lpD.root lpQ.root)
    (htp : TP G lpD.root) (hul : NoUL (b.take (lineLen b))) (hnb : isBlankLine (b.take (lineLen b)) = false) :
    LineStartI I.k I.dl (envOfI DR I.m I.N D c (a.length - c + lineLen b) (qa.length + (lineLen b + I.k)) done) G
      (lpD.reset ((D.drop c).take (a.length - c + lineLen b)) (a.length - c))
      (lpQ.reset ((iq I D).take (qa.length + (lineLen b + I.k))) qa.length) := by
  obtain ⟨p1, p2, p3, p4, p5, _⟩ := CM.Proofs.reset_fields lpD ((D.drop c).take (a.length - c + lineLen b)) (a.length - c)
  obtain ⟨q1, q2, q3, q4, q5, _⟩ := CM.Proofs.reset_fields lpQ ((iq I D).take (qa.length + (lineLen b + I.k))) qa.length
  have hpl : (lpD.reset ((D.drop c).take (a.length - c + lineLen b)) (a.length - c)).line = b.take (lineLen b) := by
    rw [p4, h.lineD]
  have hql : (lpQ.reset ((iq I D).take (qa.length + (lineLen b + I.k))) qa.length).line = spaces I.k ++ b.take (lineLen b) := by
    rw [q4, h.lineQ, I.pre_ne ha]
  have hll := h.takeLen
  have hcr := h.clean.noCR
  refine ⟨by rw [hql, hpl], p5, q5, ?_, ?_, ?_, ?_, ?_, ?_, reset_source _ _ _, reset_source _ _ _, ?_, ?_, ?_, ?_, ?_, ?_, ?_⟩
  · rw [hpl]; exact h.noTabLine
  · rw [hpl]; exact hnb
  · rw [reset_panic, reset_panic, hD'.panic, hQ'.panic]
  · rw [p1, q1]
    exact hroot.mono (envOfI_le DR I.m I.N D c (a.length - c) qa.length (a.length - c + lineLen b) (qa.length + (lineLen b + I.k)) done
      (by omega) (by omega)) rfl
  · rw [p1]; exact htp
  · rw [hpl]; exact hul
  · rw [p4, reset_source, p3]
  · rw [reset_source, p3, List.length_take, List.length_drop]
    have := h.lenD
    omega
  · rw [q4, reset_source, q3]
  · rw [reset_source, q3, List.length_take]
    have := h.lenQ
    omega
  · intro j hj
    rw [hpl, hll] at hj
    rw [p3, q3]
    have := prabsK_here (k := I.k) h.split hcr h.whole c h.cle j hj
    rw [h.qlen]
    exact this
  · rw [p3, q3, h.qlen]
    exact prabsK_start (k := I.k) h.split h.whole c h.cle
  · intro x x' hx
    rw [p3, q3, h.qlen]
    exact prabsK_ord (k := I.k) h.split h.whole c h.cle x x' hx

end line

/-! ### the very first line of both runs -/

theorem spaces_succ (n : Nat) : spaces (n + 1) = SP :: spaces n := rfl

/-- Both parsers at the start of the first line of their documents. -/
theorem firstStart_ofI {I : IP} {D b : Bytes} (DR : List Tree → List Tree → Prop) (h : LineAtI I D [] b [] 0)
    (hp0 : b.getD 0 0 ≠ SP) (hnb : isBlankLine (b.take (lineLen b)) = false)
    (htb : parseThematicBreak (I.m ++ (spaces I.N ++ b.take (lineLen b))) < 0) :
    FirstStartI I.m I.N I.dl (envOfI DR I.m I.N D 0 (lineLen b) (lineLen b + I.k) [markerTree I.m.length])
      ((newOf []).reset (D.take (lineLen b)) 0) ((newOf []).reset ((iq I D).take (lineLen b + I.k)) 0) := by
  have hD : D = b := by have := h.split; simpa using this
  have hlD := h.lineD
  have hlQ := h.lineQ
  simp only [List.length_nil, Nat.sub_zero, Nat.zero_add, List.drop_zero] at hlD hlQ
  obtain ⟨p1, p2, p3, p4, p5, _⟩ := CM.Proofs.reset_fields (newOf []) (D.take (lineLen b)) 0
  obtain ⟨q1, q2, q3, q4, q5, _⟩ := CM.Proofs.reset_fields (newOf []) ((iq I D).take (lineLen b + I.k)) 0
  have hpl : ((newOf []).reset (D.take (lineLen b)) 0).line = b.take (lineLen b) := by rw [p4]; exact hlD
  have hpre : I.pre [] = I.m ++ spaces I.N := by unfold IP.pre; rw [if_pos rfl]
  have hql : ((newOf []).reset ((iq I D).take (lineLen b + I.k)) 0).line = I.m ++ (spaces I.N ++ b.take (lineLen b)) := by
    rw [q4, List.drop_zero, hlQ, hpre, List.append_assoc]
  have hll := h.takeLen
  have hcr := h.clean.noCR
  have hbpos := lineLen_pos h.bne
  obtain ⟨c0, mr, hm⟩ : ∃ c0 mr, I.m = c0 :: mr := by
    cases hm : I.m with
    | nil => have := I.mlen; rw [hm] at this; simp at this
    | cons c r => exact ⟨c, r, rfl⟩
  have hg0 : (I.m ++ (spaces I.N ++ b.take (lineLen b))).getD 0 0 = I.m.getD 0 0 := by rw [hm]; rfl
  obtain ⟨n', hn'⟩ : ∃ n', I.N = n' + 1 := ⟨I.N - 1, by have := I.n1; omega⟩
  refine ⟨by rw [hql, hpl], p5, q5, ?_, I.mlen, I.n1, I.n4, ?_, ?_, ?_, ⟨I.nn, ?_⟩, ?_, ?_, ?_, ?_, reset_source _ _ _, reset_source _ _ _,
    ?_, ?_, ?_, ?_, q3, ?_, ?_, ?_, rfl⟩
  · rw [hql]
    intro y hy
    rcases List.mem_append.mp hy with hy | hy
    · exact (I.mclean y hy).1
    · rcases List.mem_append.mp hy with hy | hy
      · rw [spaces_mem hy]; decide
      · exact h.noTabLine y hy
  · rw [hql, hg0]; exact I.m0
  · rw [hpl]
    cases hb : b with
    | nil => exact absurd hb h.bne
    | cons y r =>
      rw [hb] at hp0 hbpos
      obtain ⟨t, ht⟩ : ∃ t, lineLen (y :: r) = t + 1 := ⟨lineLen (y :: r) - 1, by omega⟩
      rw [ht]
      exact hp0
  · rw [hpl]; exact hnb
  · rw [hql, hn', spaces_succ]
    exact I.parse _
  · rw [hql]; exact htb
  · rw [reset_panic, reset_panic]
  · rw [p1]; exact ⟨rfl, rfl, by show (-1 : Int) < 0; decide⟩
  · rw [q1]; exact ⟨_, _, rfl, rfl, by show (-1 : Int) < 0; decide⟩
  · rw [p4, reset_source, p3]
  · rw [p3]; exact Nat.zero_le _
  · rw [q4, reset_source, q3]
  · rw [q3]; exact Nat.zero_le _
  · intro j hj
    rw [hpl, hll] at hj
    rw [p3, q3]
    have := prabsK_here (k := I.k) (a := []) (b := b) h.split hcr h.whole 0 (Nat.le_refl _) j hj
    show PRabsK I.k D 0 _ _
    simpa [nLF_zero, IP.k] using this
  · rw [p3, q3]
    have := prabsK_start (k := I.k) (a := []) (b := b) h.split h.whole 0 (Nat.le_refl _)
    show PRabsK I.k D 0 _ _
    simpa [nLF_zero] using this
  · intro y y' hy
    rw [p3, q3]
    have := prabsK_ord (k := I.k) (a := []) (b := b) h.split h.whole 0 (Nat.le_refl _) y y' hy
    simpa [nLF_zero] using this

end CM.Proofs.Item
