import CM.Proofs.InlSpanBracketR
import CM.Proofs.ParseScanLkDef

/-
C02, inline half, with `LinkScan2` / `TokScan2` — the reference-link part of `parseEndBracket`.
(Generated from `InlSpanBracketR.lean`: the same proofs with `LinkScan2` in the place of `LinkScan`.)
-/

namespace CM.Proofs.InlH2
open CM CM.Model CM.Model.Inl CM.Gen CM.Spec CM.Proofs CM.Proofs.InlH
open Std.Do

set_option mvcgen.warning false

@[spec 21000]
theorem refPart_specP (L : Lims) (c : ICtx) (hc : c.unparsed = c.unparsedL.toArray) (hS : LinkScan2 c L.hi)
    (start : Int) (odi : Nat) (opener : DelimE) (kind : Nat) (s0 : IState) :
    ⦃fun s => ⌜s = s0 ∧ SPT L.lo L.hi start s ∧ odi < s0.stack.size ∧ s0.stack[odi]? = some opener ∧
        s0.unparsedPos < c.unparsed.size ∧ start < spanEndOf c s0 ∧ spanEndOf c s0 ≤ L.hi⌝⦄
    refPart c start odi opener kind
    ⦃⇓? r s => ⌜SPT L.lo L.hi r s ∧ start < r ∧ PosOK c s r⌝⦄ := by
  mvcgen [refPart, spanEnd, getNode, modifyNode, appendFinished, alloc, delStack, setUnparsedPos, 
    -appendFinished_spec, -appendFinished_specS, -delStack_spec, -delStack_specS, -finishLink_spec, 
    -finishLink_specS, -CM.Proofs.InlH.refPart_specP]
  all_goals (try (exact fun h => h))
  all_goals (try (exact ExceptConds.entails.refl _))
  all_goals rp_setup
  -- the preconditions of `wrap` and of `addLeaf`; the failure paths
  all_goals (try (first
    | exact (link_wrap_pre' hsp (Same.rfl' _) hodi hx).1
    | exact (link_wrap_pre' hsp (Same.rfl' _) hodi hx).2.1
    | exact (link_wrap_pre' hsp (Same.rfl' _) hodi hx).2.2.1
    | exact (link_wrap_pre' hsp (Same.rfl' _) hodi hx).2.2.2
    | exact ⟨trivial, hsp, by omega⟩
    | (obtain ⟨hq, hq2, -⟩ := ‹SPT _ _ (max _ _) _ ∧ _›
       exact ⟨(hq.mono (by omega) (by omega)).delStack _ _ (Nat.zero_le _) (by omega), by omega,
         posOK_of hq2 (by omega)⟩)))
  -- collapsed and shortcut references
  all_goals (try (
    obtain ⟨hL0, hu1⟩ := LinkInv.wrap' hsp (Same.rfl' _) hodi hx ‹_ = _ ∧ _ = wrapNodes _ _ _ _ _ _ _ _ ∧ _›
    have hfin := ‹∀ (lo hi : Int) (o N : Nat) (K E : Int), LinkInv lo hi o N _ K E true _ → _›
    refine fin_goal (hfin _ _ _ _ _ _ (hL0.respan _ ?_ ?_ (fun _ => _))) ?_ ?_
    all_goals first | omega | exact posOK_raw hu1 (by omega)))
  -- full references
  all_goals (
    simp -failIfUnchanged +zetaDelta only [] at *
    obtain ⟨hL0, hu1⟩ := LinkInv.wrap' hsp (Same.rfl' _) hodi hx ‹_ = _ ∧ _ = wrapNodes _ _ _ _ _ _ _ _ ∧ _›
    have hfin := ‹∀ (lo hi : Int) (o N : Nat) (K E : Int), LinkInv lo hi o N _ K E true _ → _›
    have hvalid := ‹(!SpanI.isValid _) = false›
    simp only [Bool.not_eq_false'] at hvalid
    obtain ⟨-, g0, g1, g2⟩ := ‹_ < spanEndOf c _ ∧ (0 : Int) ≤ _ ∧ _ < (c.srcA.size : Int) ∧ _ = (91 : UInt8)›
    obtain ⟨l1, l2, l3, l4, l5⟩ := hS.label _ (start + 1) _ _ g0 g1 g2 (Prod.eta _).symm hvalid
    have hx2 := ‹nodeIndexForPosition _ _ _ = _›
    first
    | (refine fin_goal_some (hfin _ _ _ _ _ _ ((hL0.appendKid _ rfl ?_ ?_ ?_ ?_).respan _ ?_ ?_ (fun r => r))) ?_
        ⟨rfl, rfl, rfl⟩ rfl ?_
       all_goals first
         | omega
         | (dsimp only; omega)
         | exact l4
         | exact Int.le_refl _
         | (intro _; exact posOK_of_index c hc _ _ (by omega) _ hx2))
    | (refine fin_goal_none (hfin _ _ _ _ _ _ ((hL0.appendKid _ rfl ?_ ?_ ?_ ?_).respan _ ?_ ?_ (fun r => r))) ?_ ?_
       all_goals first
         | omega
         | (dsimp only; omega)
         | exact l4
         | exact Int.le_refl _
         | (intro hq hlt
            have e : (‹IState›).unparsedPos = _ := hq.trans hu1
            rw [e] at hx2 hlt ⊢
            exact l5 hx2 hlt)))

end CM.Proofs.InlH2
