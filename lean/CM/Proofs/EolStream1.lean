import CM.Proofs.EolLine2
import CM.Proofs.StreamSim
import CM.Proofs.BlocksSpansDef
/-
C14 (a), stream level, part 1 — the correspondence between the two in-memory parsers (`BPRel`), the image of a delivered
root (`mapRoot`), and `makeRoot`: cutting the first closed child off and re-basing the left-over siblings
(`offsetPBs`) commutes with the position map, provided every position of the left-over siblings lies at or after the
cut (`pbsGE`).
-/
namespace CM.Proofs
open CM CM.Model CM.Gen

/-! ### No NUL bytes -/

/-- No NUL byte (the stream machine pads NULs to three bytes; the line-ending theorems are stated for inputs without). -/
def NoNul (x : Bytes) : Prop := ∀ c ∈ x, c ≠ 0

instance (x : Bytes) : Decidable (NoNul x) := by unfold NoNul; infer_instance

theorem noNul_take {x : Bytes} (h : NoNul x) (n : Nat) : NoNul (x.take n) := fun c hc => h c (List.mem_of_mem_take hc)
theorem noNul_drop {x : Bytes} (h : NoNul x) (n : Nat) : NoNul (x.drop n) := fun c hc => h c (List.mem_of_mem_drop hc)

theorem noNul_toEol {e : Bytes} (he : StdEol e) {x : Bytes} (h : NoNul x) : NoNul (toEol e x) := by
  have hee : NoNul e := by
    rcases he with h1 | h1 | h1 <;> subst h1 <;> decide
  induction x with
  | nil => intro c hc; simp at hc
  | cons a t ih =>
    have ht : NoNul t := fun c hc => h c (by simp [hc])
    by_cases ha : a = LF
    · subst ha
      rw [toEol_cons_LF]
      intro c hc
      rcases List.mem_append.1 hc with h1 | h1
      · exact hee c h1
      · exact ih ht c h1
    · rw [toEol_cons_ne _ ha]
      intro c hc
      rcases List.mem_cons.1 hc with h1 | h1
      · subst h1; exact h c (by simp)
      · exact ih ht c h1

theorem nullCount_noNul {y : Bytes} (h : NoNul y) : nullCount y = 0 := by
  induction y with
  | nil => rfl
  | cons c t ih =>
    rw [nullCount_cons, if_neg (h c (by simp)), ih (fun x hx => h x (by simp [hx]))]

theorem unpaddedNullLength_noNul {y : Bytes} (h : NoNul y) : unpaddedNullLength y = y.length := by
  simp [unpaddedNullLength, nullCount_noNul h]

theorem fillNulls_noNul {y : Bytes} (h : NoNul y) : fillNulls y = y := by
  induction y with
  | nil => exact fillNulls_nil
  | cons c t ih =>
    rw [fillNulls_cons_ne (h c (by simp)), ih (fun x hx => h x (by simp [hx]))]

theorem padNulls_noNul {y : Bytes} (h : NoNul y) : padNulls y 0 = y := padNulls_eq_self h

/-! ### Positions at or after a cut -/

mutual
def treeGE (m : Int) : Tree → Bool
  | .node l cs => decide (m ≤ l.start) && decide (m ≤ l.stop) && treesGE m cs
def treesGE (m : Int) : List Tree → Bool
  | [] => true
  | t :: ts => treeGE m t && treesGE m ts
end

mutual
/-- Every position of the block (its start, its end if it is closed, its nested blocks, all its inline nodes) is `≥ m`. -/
def pbGE (m : Int) : PB → Bool
  | .mk l bs is => decide (m ≤ l.start) && (decide (l.stop < 0) || decide (m ≤ l.stop)) && pbsGE m bs && treesGE m is
def pbsGE (m : Int) : List PB → Bool
  | [] => true
  | b :: bs => pbGE m b && pbsGE m bs
end

/-- Closed children are followed only by blocks that lie after them. -/
def kidsOrd : List PB → Bool
  | [] => true
  | k :: rest => (k.isOpen || pbsGE k.label.stop rest) && kidsOrd rest

section
variable {e X : Bytes}

theorem eolPosZ_sub (n : Nat) {j : Int} (hj : (n : Int) ≤ j) :
    eolPosZ e (X.drop n) (j - n) = eolPosZ e X j - (eolPos e X n : Nat) := by
  obtain ⟨k, rfl⟩ : ∃ k : Nat, j = ((n + k : Nat) : Int) := ⟨(j - n).toNat, by omega⟩
  have h1 : (((n + k : Nat) : Int) - (n : Int)) = (k : Int) := by omega
  rw [h1, eolPosZ_ofNat, eolPosZ_ofNat, eolPos_add]
  omega

theorem mapTree_offset (n : Nat) : ∀ t : Tree, treeGE n t = true →
    mapTree (eolPosZ e (X.drop n)) (offsetTree (-(n : Int)) t) =
      offsetTree (-((eolPos e X n : Nat) : Int)) (mapTree (eolPosZ e X) t) := by
  intro t
  induction hs : sizeOf t using Nat.strongRecOn generalizing t with
  | ind s ih =>
    obtain ⟨l, cs⟩ := t
    intro h
    rw [treeGE] at h
    simp only [Bool.and_eq_true, decide_eq_true_eq] at h
    obtain ⟨⟨h1, h2⟩, h3⟩ := h
    have hkids : mapTrees (eolPosZ e (X.drop n)) (offsetTrees (-(n : Int)) cs) =
        offsetTrees (-((eolPos e X n : Nat) : Int)) (mapTrees (eolPosZ e X) cs) := by
      have hsz : ∀ c ∈ cs, sizeOf c < s := by
        intro c hc; subst hs
        have := List.sizeOf_lt_of_mem hc
        simp; omega
      clear hs
      induction cs with
      | nil => rfl
      | cons c rest ihl =>
        rw [treesGE] at h3
        simp only [Bool.and_eq_true] at h3
        rw [offsetTrees, mapTrees, mapTrees, offsetTrees]
        rw [ih (sizeOf c) (hsz c (by simp)) c rfl h3.1, ihl h3.2 (fun c' hc' => hsz c' (by simp [hc']))]
    rw [offsetTree, mapTree, mapTree, offsetTree, hkids]
    have hn0 : (0 : Int) ≤ n := Int.natCast_nonneg n
    have hs0 : l.stop ≥ 0 := by omega
    have hgs : eolPosZ e X l.stop ≥ 0 := (eolPosZ_nonneg_iff e X _).2 hs0
    simp only [hs0, hgs, if_true]
    congr 2
    · have := eolPosZ_sub (e := e) (X := X) n h1
      rw [show l.start + -(n : Int) = l.start - n by omega, this]; omega
    · have := eolPosZ_sub (e := e) (X := X) n h2
      rw [show l.stop + -(n : Int) = l.stop - n by omega, this]; omega

theorem mapTrees_offset (n : Nat) : ∀ ts : List Tree, treesGE n ts = true →
    mapTrees (eolPosZ e (X.drop n)) (offsetTrees (-(n : Int)) ts) =
      offsetTrees (-((eolPos e X n : Nat) : Int)) (mapTrees (eolPosZ e X) ts) := by
  intro ts
  induction ts with
  | nil => intro _; rfl
  | cons t rest ih =>
    intro h
    rw [treesGE] at h
    simp only [Bool.and_eq_true] at h
    rw [offsetTrees, mapTrees, mapTrees, offsetTrees, mapTree_offset n t h.1, ih h.2]

theorem mapPB_offset (n : Nat) : ∀ b : PB, pbGE n b = true →
    mapPB (eolPosZ e (X.drop n)) (offsetPB (-(n : Int)) b) =
      offsetPB (-((eolPos e X n : Nat) : Int)) (mapPB (eolPosZ e X) b) := by
  intro b
  induction hs : sizeOf b using Nat.strongRecOn generalizing b with
  | ind s ih =>
    obtain ⟨l, bs, is⟩ := b
    intro h
    rw [pbGE] at h
    simp only [Bool.and_eq_true, Bool.or_eq_true, decide_eq_true_eq] at h
    obtain ⟨⟨⟨h1, h2⟩, h3⟩, h4⟩ := h
    have hkids : mapPBs (eolPosZ e (X.drop n)) (offsetPBs (-(n : Int)) bs) =
        offsetPBs (-((eolPos e X n : Nat) : Int)) (mapPBs (eolPosZ e X) bs) := by
      have hsz : ∀ c ∈ bs, sizeOf c < s := by
        intro c hc; subst hs
        have := List.sizeOf_lt_of_mem hc
        simp; omega
      clear hs
      induction bs with
      | nil => rfl
      | cons c rest ihl =>
        rw [pbsGE] at h3
        simp only [Bool.and_eq_true] at h3
        rw [offsetPBs, mapPBs, mapPBs, offsetPBs]
        rw [ih (sizeOf c) (hsz c (by simp)) c rfl h3.1, ihl h3.2 (fun c' hc' => hsz c' (by simp [hc']))]
    rw [offsetPB, mapPB, mapPB, offsetPB, hkids, mapTrees_offset n is h4]
    have hn0 : (0 : Int) ≤ n := Int.natCast_nonneg n
    simp only []
    congr 2
    · have := eolPosZ_sub (e := e) (X := X) n h1
      rw [show l.start + -(n : Int) = l.start - n by omega, this]; omega
    · rcases h2 with h2 | h2
      · have hg : eolPosZ e X l.stop < 0 := (eolPosZ_neg_iff e X _).2 h2
        have a1 : ¬ l.stop ≥ 0 := by omega
        have a2 : ¬ eolPosZ e X l.stop ≥ 0 := by omega
        simp only [a1, a2, if_false]
        rw [eolPosZ_neg _ _ h2, eolPosZ_neg _ _ h2]
      · have hs0 : l.stop ≥ 0 := by omega
        have hgs : eolPosZ e X l.stop ≥ 0 := (eolPosZ_nonneg_iff e X _).2 hs0
        simp only [hs0, hgs, if_true]
        have := eolPosZ_sub (e := e) (X := X) n h2
        rw [show l.stop + -(n : Int) = l.stop - n by omega, this]; omega

theorem mapPBs_offset (n : Nat) : ∀ bs : List PB, pbsGE n bs = true →
    mapPBs (eolPosZ e (X.drop n)) (offsetPBs (-(n : Int)) bs) =
      offsetPBs (-((eolPos e X n : Nat) : Int)) (mapPBs (eolPosZ e X) bs) := by
  intro bs
  induction bs with
  | nil => intro _; rfl
  | cons b rest ih =>
    intro h
    rw [pbsGE] at h
    simp only [Bool.and_eq_true] at h
    rw [offsetPBs, mapPBs, mapPBs, offsetPBs, mapPB_offset n b h.1, ih h.2]

end

/-! ### Re-basing keeps the order -/

theorem treeGE_offset (m n : Int) (hn : n ≤ 0) : ∀ t : Tree, treeGE m t = true → treeGE (m + n) (offsetTree n t) = true := by
  intro t
  induction hs : sizeOf t using Nat.strongRecOn generalizing t with
  | ind s ih =>
    obtain ⟨l, cs⟩ := t
    intro h
    rw [treeGE] at h
    simp only [Bool.and_eq_true, decide_eq_true_eq] at h
    obtain ⟨⟨h1, h2⟩, h3⟩ := h
    have hkids : treesGE (m + n) (offsetTrees n cs) = true := by
      have hsz : ∀ c ∈ cs, sizeOf c < s := by
        intro c hc; subst hs
        have := List.sizeOf_lt_of_mem hc
        simp; omega
      clear hs
      induction cs with
      | nil => rfl
      | cons c rest ihl =>
        rw [treesGE] at h3
        simp only [Bool.and_eq_true] at h3
        rw [offsetTrees, treesGE, ih (sizeOf c) (hsz c (by simp)) c rfl h3.1,
          ihl h3.2 (fun c' hc' => hsz c' (by simp [hc']))]
        rfl
    rw [offsetTree, treeGE, hkids]
    simp only [Bool.and_eq_true, decide_eq_true_eq, and_true]
    refine ⟨by omega, ?_⟩
    by_cases hs0 : l.stop ≥ 0
    · simp only [hs0, if_true]; omega
    · simp only [hs0, if_false]; omega

theorem treesGE_offset (m n : Int) (hn : n ≤ 0) : ∀ ts : List Tree, treesGE m ts = true →
    treesGE (m + n) (offsetTrees n ts) = true := by
  intro ts
  induction ts with
  | nil => intro _; rfl
  | cons t rest ih =>
    intro h
    rw [treesGE] at h
    simp only [Bool.and_eq_true] at h
    rw [offsetTrees, treesGE, treeGE_offset m n hn t h.1, ih h.2]; rfl

theorem pbGE_offset (m n : Int) (hn : n ≤ 0) : ∀ b : PB, pbGE m b = true → pbGE (m + n) (offsetPB n b) = true := by
  intro b
  induction hs : sizeOf b using Nat.strongRecOn generalizing b with
  | ind s ih =>
    obtain ⟨l, bs, is⟩ := b
    intro h
    rw [pbGE] at h
    simp only [Bool.and_eq_true, Bool.or_eq_true, decide_eq_true_eq] at h
    obtain ⟨⟨⟨h1, h2⟩, h3⟩, h4⟩ := h
    have hkids : pbsGE (m + n) (offsetPBs n bs) = true := by
      have hsz : ∀ c ∈ bs, sizeOf c < s := by
        intro c hc; subst hs
        have := List.sizeOf_lt_of_mem hc
        simp; omega
      clear hs
      induction bs with
      | nil => rfl
      | cons c rest ihl =>
        rw [pbsGE] at h3
        simp only [Bool.and_eq_true] at h3
        rw [offsetPBs, pbsGE, ih (sizeOf c) (hsz c (by simp)) c rfl h3.1,
          ihl h3.2 (fun c' hc' => hsz c' (by simp [hc']))]
        rfl
    rw [offsetPB, pbGE, hkids, treesGE_offset m n hn is h4]
    simp only [Bool.and_eq_true, Bool.or_eq_true, decide_eq_true_eq, and_true]
    refine ⟨by omega, ?_⟩
    by_cases hs0 : l.stop ≥ 0
    · simp only [hs0, if_true]
      rcases h2 with h2 | h2
      · omega
      · right; omega
    · simp only [hs0, if_false]; left; omega

theorem pbsGE_offset (m n : Int) (hn : n ≤ 0) : ∀ bs : List PB, pbsGE m bs = true →
    pbsGE (m + n) (offsetPBs n bs) = true := by
  intro bs
  induction bs with
  | nil => intro _; rfl
  | cons b rest ih =>
    intro h
    rw [pbsGE] at h
    simp only [Bool.and_eq_true] at h
    rw [offsetPBs, pbsGE, pbGE_offset m n hn b h.1, ih h.2]; rfl

theorem closed_of_isOpen_false {k : PB} (h : k.isOpen = false) : 0 ≤ k.label.stop := (BSp.isOpen_false_iff k).1 h

theorem isOpen_of_neg {k : PB} (h : k.label.stop < 0) : k.isOpen = true := (BSp.isOpen_iff k).2 h

theorem kidsOrd_offset (n : Int) (hn : n ≤ 0) : ∀ bs : List PB, kidsOrd bs = true → kidsOrd (offsetPBs n bs) = true := by
  intro bs
  induction bs with
  | nil => intro _; rfl
  | cons k rest ih =>
    intro h
    rw [kidsOrd] at h
    simp only [Bool.and_eq_true, Bool.or_eq_true] at h
    rw [offsetPBs, kidsOrd, ih h.2, Bool.and_true]
    have hlab : (offsetPB n k).label.stop = if k.label.stop ≥ 0 then k.label.stop + n else k.label.stop := by
      obtain ⟨l, bs, is⟩ := k; rfl
    rw [Bool.or_eq_true]
    by_cases hs : k.label.stop ≥ 0
    · rw [if_pos hs] at hlab
      rcases h.1 with h1 | h1
      · exfalso
        have := (BSp.isOpen_iff k).1 h1
        omega
      · right
        rw [hlab]
        exact pbsGE_offset k.label.stop n hn rest h1
    · rw [if_neg hs] at hlab
      left
      apply isOpen_of_neg
      rw [hlab]; omega

/-! ### The two parsers -/

/-- The image of a delivered root: re-written source, mapped offsets, every position of the tree mapped (relative to the
    root's start offset in the input; inside the root's own source this is `eolPos e r.source`). -/
def mapRoot (e inp : Bytes) (r : Root) : Root :=
  { source := toEol e r.source
    startLine := r.startLine
    startOffset := eolPos e inp r.startOffset
    endOffset := eolPos e inp r.endOffset
    block := mapPB (eolPosZ e (inp.drop r.startOffset)) r.block }

/-- The in-memory parser on the re-written input corresponds to the one on the original input. -/
structure BPRel (e inp : Bytes) (p p' : BP) : Prop where
  buf : p.buf = inp.drop p.offset
  off : p.offset ≤ inp.length
  buf' : p'.buf = toEol e p.buf
  i' : p'.i = eolPos e p.buf p.i
  ile : p.i ≤ p.buf.length
  off' : p'.offset = eolPos e inp p.offset
  lineno : p'.lineno = p.lineno
  err : p.err = some .eof
  err' : p'.err = some .eof
  rd : p'.rd.data.length + p'.rd.sched.length = p.rd.data.length + p.rd.sched.length
  blocks : p'.blocks = mapPBs (eolPosZ e p.buf) p.blocks
  panic : p'.panic = p.panic

theorem memParser_rel {e inp : Bytes} (he : StdEol e) (hn : NoNul inp) :
    BPRel e inp (memParser inp) (memParser (toEol e inp)) := by
  have h1 : (memParser inp).buf = inp := padNulls_noNul hn
  have h2 : (memParser (toEol e inp)).buf = toEol e inp := padNulls_noNul (noNul_toEol he hn)
  exact ⟨by rw [h1]; rfl, Nat.zero_le _, by rw [h2, h1], by simp [memParser], Nat.zero_le _, by simp [memParser],
    rfl, rfl, rfl, rfl, rfl, rfl⟩

/-! ### makeRoot -/

theorem isOpen_mapPB_eol {e X : Bytes} (b : PB) : (mapPB (eolPosZ e X) b).isOpen = b.isOpen :=
  mapPB_isOpen (signOK_eolPosZ e X) b

/-- Cutting the first child off on the two sides. -/
theorem makeRoot_eolSim {e inp : Bytes} (he : StdEol e) (hcr : NoCR inp) (hnul : NoNul inp) {p p' : BP}
    (R : BPRel e inp p p') (kids : List PB) (hord : kidsOrd kids = true) :
    (makeRoot p kids = none ∧ makeRoot p' (mapPBs (eolPosZ e p.buf) kids) = none) ∨
    ∃ r q q', makeRoot p kids = some (r, q) ∧
      makeRoot p' (mapPBs (eolPosZ e p.buf) kids) = some (mapRoot e inp r, q') ∧ BPRel e inp q q' ∧
      kidsOrd q.blocks = true := by
  cases kids with
  | nil => left; exact ⟨rfl, rfl⟩
  | cons k rest =>
    rw [mapPBs]
    cases ho : k.isOpen with
    | true =>
      left
      exact ⟨makeRoot_open _ _ _ ho, makeRoot_open _ _ _ (by rw [isOpen_mapPB_eol]; exact ho)⟩
    | false =>
      right
      have ho' : (mapPB (eolPosZ e p.buf) k).isOpen = false := by rw [isOpen_mapPB_eol]; exact ho
      rw [makeRoot_closed _ _ _ ho, makeRoot_closed _ _ _ ho']
      refine ⟨rootOf p k, afterRoot p k rest,
        afterRoot p' (mapPB (eolPosZ e p.buf) k) (mapPBs (eolPosZ e p.buf) rest), rfl, ?_, ?_, ?_⟩
      all_goals
        have hne := stdEol_ne_nil he
        have hk0 : 0 ≤ k.label.stop := closed_of_isOpen_false ho
        have hstop : (mapPB (eolPosZ e p.buf) k).label.stop.toNat = eolPos e p.buf k.label.stop.toNat := by
          rw [mapPB_label]; exact eolPosZ_toNat e p.buf hk0
        have hbufN : NoNul p.buf := by rw [R.buf]; exact noNul_drop hnul _
        have hbufC : NoCR p.buf := by rw [R.buf]; exact noCR_drop hcr _
        have hhead : p'.buf.take (eolPos e p.buf k.label.stop.toNat) = toEol e (p.buf.take k.label.stop.toNat) := by
          rw [R.buf', take_toEol e hne]
        have hlen : (toEol e (p.buf.take k.label.stop.toNat)).length =
            eolPos e inp (p.offset + (p.buf.take k.label.stop.toNat).length) - eolPos e inp p.offset := by
          have h1 : (p.buf.take k.label.stop.toNat).length ≤ p.buf.length := by simp; omega
          have hm : p.buf.take (p.buf.take k.label.stop.toNat).length = p.buf.take k.label.stop.toNat := by
            rw [List.length_take]
            by_cases hle : k.label.stop.toNat ≤ p.buf.length
            · rw [Nat.min_eq_left hle]
            · rw [Nat.min_eq_right (by omega), List.take_length, List.take_of_length_le (by omega)]
          rw [eolPos_add, ← R.buf, eolPos_eq_length e hne p.buf h1, hm]
          omega
      · -- the root
        have e1 : fillNulls (p'.buf.take (mapPB (eolPosZ e p.buf) k).label.stop.toNat) =
            toEol e (fillNulls (p.buf.take k.label.stop.toNat)) := by
          rw [hstop, hhead, fillNulls_noNul (noNul_toEol he (noNul_take hbufN _)), fillNulls_noNul (noNul_take hbufN _)]
        have e4 : p'.offset + unpaddedNullLength (p'.buf.take (mapPB (eolPosZ e p.buf) k).label.stop.toNat) =
            eolPos e inp (p.offset + unpaddedNullLength (p.buf.take k.label.stop.toNat)) := by
          rw [hstop, hhead, unpaddedNullLength_noNul (noNul_toEol he (noNul_take hbufN _)),
            unpaddedNullLength_noNul (noNul_take hbufN _), R.off', hlen]
          have := eolPos_mono e inp (j := p.offset) (k := p.offset + (p.buf.take k.label.stop.toNat).length) (by omega)
          omega
        unfold rootOf mapRoot
        simp only []
        rw [e1, e4, R.lineno, R.off', ← R.buf]
      · -- the state after the cut
        rw [kidsOrd] at hord
        simp only [ho, Bool.false_or, Bool.and_eq_true] at hord
        have hge : pbsGE (k.label.stop.toNat : Int) rest = true := by
          rw [Int.toNat_of_nonneg hk0]; exact hord.1
        have hunp : unpaddedNullLength (p.buf.take k.label.stop.toNat) = (p.buf.take k.label.stop.toNat).length :=
          unpaddedNullLength_noNul (noNul_take hbufN _)
        refine ⟨?_, ?_, ?_, ?_, ?_, ?_, ?_, ?_, ?_, ?_, ?_, ?_⟩
        · show p.buf.drop _ = inp.drop (p.offset + unpaddedNullLength _)
          rw [hunp, R.buf, List.drop_drop, List.length_take, List.length_drop]
          by_cases hle : k.label.stop.toNat ≤ inp.length - p.offset
          · rw [Nat.min_eq_left hle]
          · rw [Nat.min_eq_right (by omega), List.drop_eq_nil_of_le (by omega), List.drop_eq_nil_of_le (by omega)]
        · show p.offset + unpaddedNullLength _ ≤ inp.length
          rw [hunp, R.buf, List.length_take, List.length_drop]
          have := R.off; omega
        · show p'.buf.drop _ = toEol e (p.buf.drop _)
          rw [hstop, R.buf', drop_toEol e hne]
        · show p'.i - _ = eolPos e (p.buf.drop _) (p.i - _)
          rw [hstop, R.i']
          by_cases hle : k.label.stop.toNat ≤ p.i
          · obtain ⟨d, hd⟩ := Nat.exists_eq_add_of_le hle
            rw [hd, eolPos_add, Nat.add_sub_cancel_left, Nat.add_sub_cancel_left]
          · have := eolPos_mono e p.buf (j := p.i) (k := k.label.stop.toNat) (by omega)
            rw [Nat.sub_eq_zero_of_le this, Nat.sub_eq_zero_of_le (by omega)]; simp
        · show p.i - _ ≤ (p.buf.drop _).length
          rw [List.length_drop]; have := R.ile; omega
        · show p'.offset + unpaddedNullLength _ = eolPos e inp (p.offset + unpaddedNullLength _)
          rw [hstop, hhead, unpaddedNullLength_noNul (noNul_toEol he (noNul_take hbufN _)), hunp, R.off', hlen]
          have := eolPos_mono e inp (j := p.offset) (k := p.offset + (p.buf.take k.label.stop.toNat).length) (by omega)
          omega
        · show p'.lineno + lineCount _ = p.lineno + lineCount _
          rw [hstop, hhead, lineCount_toEol he _ (noCR_take hbufC _), R.lineno]
        · exact R.err
        · exact R.err'
        · exact R.rd
        · show offsetPBs _ (mapPBs (eolPosZ e p.buf) rest) = mapPBs (eolPosZ e (p.buf.drop _)) (offsetPBs _ rest)
          rw [hstop, mapPBs_offset _ rest hge]
        · show (if _ then _ else _) = (if _ then _ else _)
          rw [hstop, R.i', R.buf', R.panic]
          have c1 : (eolPos e p.buf k.label.stop.toNat > eolPos e p.buf p.i) ↔ (k.label.stop.toNat > p.i) :=
            eolPos_lt_iff e p.buf
          have c2 : (eolPos e p.buf k.label.stop.toNat > (toEol e p.buf).length) ↔ (k.label.stop.toNat > p.buf.length) := by
            rw [← eolPos_length e hne]; exact eolPos_lt_iff e p.buf
          simp only [c1, c2]
      · -- the pending blocks stay ordered
        rw [kidsOrd] at hord
        simp only [ho, Bool.false_or, Bool.and_eq_true] at hord
        show kidsOrd (offsetPBs _ rest) = true
        exact kidsOrd_offset _ (by omega) rest hord.2

end CM.Proofs
