import CM.Proofs.InlShapeHtml
/-
C13, inline half — code spans: the reader lemmas.  Reading a run of backticks is reading CONSECUTIVE source positions
(a non-last inline child does not end in a backtick: `TickEdges`), and the byte before the position the reader
reaches after a byte that is not a backtick is not a backtick (…nor does the byte before a non-first child's start).
-/
namespace CM.Proofs.InlH
open CM CM.Model CM.Gen CM.Proofs CM.Proofs.BG

/-- the reader's span list is a suffix of `U` -/
def Suf (U : List Tree) (r : Rd) : Prop := ∃ k, r.spans = U.drop k

/-- No inline child but the last ends in a backtick; no inline child but the first is preceded by one. -/
def TickEdges (src : Bytes) (U : List Tree) : Prop :=
  (∀ (k : Nat) (t : Tree), k + 1 < U.length → U[k]? = some t → ∀ q : Nat, (q : Int) + 1 = t.label.stop → src[q]? ≠ some 0x60) ∧
  (∀ (k : Nat) (t : Tree), 0 < k → U[k]? = some t → ∀ q : Nat, (q : Int) + 1 = t.label.start → src[q]? ≠ some 0x60)

/-- the byte before position `p` is not a backtick -/
def NoTickBefore (src : Bytes) (p : Nat) : Prop := ∀ q, q + 1 = p → src[q]? ≠ some 0x60

theorem Suf.drop {U : List Tree} {r r' : Rd} (h : Suf U r) (k : Nat) (h' : r'.spans = r.spans.drop k) : Suf U r' := by
  obtain ⟨j, hj⟩ := h
  exact ⟨j + k, by rw [h', hj, List.drop_drop]⟩

theorem Suf.currentNode {U : List Tree} {r : Rd} (h : Suf U r) : Suf U r.currentNode.2 := by
  obtain ⟨k, hk⟩ := currentNode_spans r
  exact h.drop k hk

theorem Suf.current {U : List Tree} {r : Rd} (src : Bytes) (h : Suf U r) : Suf U (r.current src).2 := by
  rcases current_cases src r with e | e <;> rw [e]
  · exact h
  · exact h.currentNode

theorem Suf.nil {U : List Tree} {r : Rd} (h : r.spans = []) : Suf U r := ⟨U.length, by rw [h]; simp⟩

/-- `next` on a reader without spans fails -/
theorem next_nil (src : Bytes) (r : Rd) (h : r.spans = []) : (r.next src).1 = false ∧ (r.next src).2.spans = [] := by
  have hcn : r.currentNode = (none, { r with spans := [] }) := by
    unfold Rd.currentNode
    rw [h]
    rfl
  unfold Rd.next
  rw [hcn]
  exact ⟨rfl, rfl⟩

/-- The reader stands on a backtick it has just read with `current`. -/
structure OnTick (U : List Tree) (src : Bytes) (r : Rd) (p : Nat) : Prop where
  suf : Suf U r
  pos : r.pos = p
  tick : src[p]? = some 0x60
  node : (∃ t, AtHead r t ∧ isIndent t = false) ∨ r.spans = []

theorem onTick_of_current {U : List Tree} {src : Bytes} {r r1 : Rd} (h : r.current src = (0x60, r1)) (hs : Suf U r) :
    OnTick U src r1 r.pos ∧ r1.prev = r.prev := by
  have hsuf : Suf U r1 := by have := hs.current src; rw [h] at this; exact this
  have hpos : r1.pos = r.pos := by have := current_pos src r; rw [h] at this; exact this
  obtain ⟨_, htick⟩ := current_byte h (by decide) (by decide) (by decide)
  by_cases hp : r.pos ≥ src.length
  · have : r.current src = (0, r) := by unfold Rd.current; rw [if_pos hp]
    rw [this] at h
    cases h
  · have e := current_snd_of_lt src r hp
    rw [h] at e
    simp only at e
    have hprev : r1.prev = r.prev := by rw [e]; exact (currentNode_pos r).2.1
    refine ⟨⟨hsuf, hpos, htick, ?_⟩, hprev⟩
    cases hn : r.currentNode.1 with
    | none =>
      right
      have hni : nodeIndexForPosition r.spans r.pos 0 = none := by
        unfold Rd.currentNode at hn
        split at hn
        · assumption
        · rename_i i hi
          simp only [List.head?_drop] at hn
          obtain ⟨_, t', h2, _, _⟩ := nodeIndex_spec hi
          simp only [Nat.sub_zero] at h2
          rw [h2] at hn; cases hn
      rw [e, currentNode_none_eq hni]
    | some t =>
      left
      obtain ⟨_, hcont, rest, hrest⟩ := currentNode_some hn
      refine ⟨t, ⟨rest, by rw [e]; exact hrest, by rw [hpos]; exact hcont⟩, ?_⟩
      -- not an Indent node: `current` would have returned a space
      cases hi : isIndent t with
      | false => rfl
      | true =>
        exfalso
        unfold Rd.current at h
        rw [if_neg hp] at h
        simp only [hn, hi, if_true, Prod.mk.injEq] at h
        exact absurd h.1 (by decide)

/-- every inline child has a non-empty span inside the non-negative positions -/
def NodesNE (U : List Tree) : Prop := ∀ t ∈ U, 0 ≤ t.label.start ∧ t.label.start < t.label.stop

theorem nextTextNode_head : ∀ (l : List Tree) (t : Tree) (sp : List Tree), nextTextNode l = some (t, sp) →
    ∃ j tail, sp = l.drop j ∧ sp = t :: tail := by
  intro l
  induction l with
  | nil => intro t sp h; simp [nextTextNode] at h
  | cons a rest ih =>
    intro t sp h
    simp only [nextTextNode] at h
    split at h
    · cases h
      exact ⟨0, rest, rfl, rfl⟩
    · obtain ⟨j, tail, h1, h2⟩ := ih t sp h
      exact ⟨j + 1, tail, by simpa using h1, h2⟩

theorem spanContains_start {t : Tree} (h : 0 ≤ t.label.start ∧ t.label.start < t.label.stop) :
    spanContains t t.label.start.toNat = true := by
  unfold spanContains Node.spanValid
  simp only [Bool.and_eq_true, decide_eq_true_eq]
  omega

/-- `U[k] = t` when `U.drop k = t :: rest` -/
theorem getElem?_of_drop {U : List Tree} {k : Nat} {t : Tree} {rest : List Tree} (h : U.drop k = t :: rest) :
    U[k]? = some t ∧ k < U.length ∧ U.drop (k + 1) = rest := by
  have hk : k < U.length := by
    by_cases hk : k < U.length
    · exact hk
    · rw [List.drop_of_length_le (by omega)] at h; cases h
  rw [List.drop_eq_getElem_cons hk] at h
  simp only [List.cons.injEq] at h
  exact ⟨by rw [List.getElem?_eq_getElem hk, h.1], hk, h.2⟩

/-- the reader stands in a node of its list -/
def InNode (r : Rd) : Prop := ∃ t, AtHead r t

section
variable {U : List Tree} {src : Bytes}

/-- `next` from a backtick inside a node: one byte forward (never a jump: `TickEdges`), or the end. -/
theorem next_onTick (hte : TickEdges src U) (hne : NodesNE U) {r : Rd} {p : Nat} (h : OnTick U src r p)
    (hn : ∃ t, AtHead r t ∧ isIndent t = false) :
    ((r.next src).1 = true → Suf U (r.next src).2 ∧ InNode (r.next src).2 ∧ (r.next src).2.pos = p + 1 ∧
      (r.next src).2.prev = p) ∧
    ((r.next src).1 = false → (r.next src).2.prev = p ∧ (r.next src).2.spans = []) := by
  obtain ⟨t, hat, hni⟩ := hn
  have hcn := currentNode_atHead hat
  obtain ⟨rest, hs, hc⟩ := hat
  have hpos := h.pos
  by_cases hlt : ((r.pos + 1 : Nat) : Int) < t.label.stop
  · obtain ⟨h1, h2⟩ := next_atHead src ⟨rest, hs, hc⟩ hni hlt
    have hnx : (r.next src).1 = true ∧ (r.next src).2.prev = r.pos ∧ (r.next src).2.spans = r.spans := by
      unfold Rd.next
      rw [hcn]
      simp only [hni, Bool.false_and, Bool.not_false, Bool.true_and, decide_eq_true_eq, hlt, if_true,
        Bool.false_eq_true, if_false, and_self]
    refine ⟨fun _ => ⟨h.suf.drop 0 (by rw [hnx.2.2]; rfl), ⟨t, h2⟩, by rw [h1, hpos], by rw [hnx.2.1, hpos]⟩, fun hf => ?_⟩
    rw [hnx.1] at hf; cases hf
  · -- the node ends here: it is the last text node (a non-last one does not end in a backtick)
    have hstop : ((r.pos : Int) + 1) = t.label.stop := by
      have := spanContains_lt hc
      omega
    obtain ⟨k, hk⟩ := h.suf
    rw [hs] at hk
    obtain ⟨hUk, hklt, hrest⟩ := getElem?_of_drop hk.symm
    cases hnt : nextTextNode (r.spans.drop 1) with
    | none =>
      have hnx : (r.next src).1 = false ∧ (r.next src).2.prev = r.pos ∧ (r.next src).2.spans = [] := by
        unfold Rd.next
        rw [hcn]
        simp only [hni, Bool.false_and, Bool.not_false, Bool.true_and, decide_eq_true_eq, hlt, if_false,
          Bool.false_eq_true, hnt, and_self]
      exact ⟨fun hf => (by rw [hnx.1] at hf; cases hf), fun _ => ⟨by rw [hnx.2.1, hpos], hnx.2.2⟩⟩
    | some pr =>
      exfalso
      obtain ⟨t', sp⟩ := pr
      obtain ⟨hm, _⟩ := nextTextNode_spec hnt
      rw [hs] at hm
      simp only [List.drop_succ_cons, List.drop_zero] at hm
      have hk1 : k + 1 < U.length := by
        have : (U.drop (k + 1)).length ≠ 0 := by
          rw [hrest]
          intro h0
          rw [List.length_eq_zero_iff] at h0
          rw [h0] at hm
          cases hm
        rw [List.length_drop] at this
        omega
      exact hte.1 k t hk1 hUk r.pos hstop (by rw [hpos]; exact h.tick)

/-- the reader (standing in a node) returns the same reader from `current` -/
theorem current_snd_atHead {r : Rd} {t : Tree} (h : AtHead r t) : (r.current src).2 = r := by
  by_cases hp : r.pos ≥ src.length
  · unfold Rd.current; rw [if_pos hp]
  · rw [current_snd_of_lt src r hp, currentNode_atHead h]

/-- what `current` returns inside a node that is not an Indent node -/
theorem current_val_atHead {r : Rd} {t : Tree} (h : AtHead r t) (hni : isIndent t = false) {b : UInt8}
    (hb : src[r.pos]? = some b) : (r.current src).1 = b ∨ b = 0 := by
  obtain ⟨hlt, hget⟩ := List.getElem?_eq_some_iff.1 hb
  have hgd : src.getD r.pos 0 = b := by
    rw [List.getD_eq_getElem?_getD, hb]; rfl
  unfold Rd.current
  rw [if_neg (by omega), currentNode_atHead h]
  simp only [hni, Bool.false_eq_true, if_false, hgd]
  by_cases h0 : (b == 0) = true
  · right; simpa using h0
  · left; rw [if_neg h0]

/-- `current` inside an Indent node is a space (or the end marker) -/
theorem current_indent {r : Rd} {t : Tree} (h : AtHead r t) (hi : isIndent t = true) :
    (r.current src).1 = SP ∨ (r.current src).1 = 0 := by
  unfold Rd.current
  split
  · right; rfl
  · left
    rw [currentNode_atHead h]
    simp only [hi, if_true]

/-- AFTER A BYTE THAT IS NOT A BACKTICK: the next position the reader reaches is not preceded by a backtick (if it
    holds a backtick at all). -/
theorem next_pre (hte : TickEdges src U) (hne : NodesNE U) {r : Rd} {t : Tree} (hs : Suf U r) (hat : AtHead r t)
    (hch : (r.current src).1 ≠ 0x60) (hok : (r.next src).1 = true) :
    Suf U (r.next src).2 ∧ InNode (r.next src).2 ∧
      (((r.next src).2.current src).1 = 0x60 → NoTickBefore src (r.next src).2.pos) := by
  have hcn := currentNode_atHead hat
  obtain ⟨rest, hsp, hc⟩ := hat
  -- the byte at the reader's position is not a backtick, unless the node is an Indent node
  have hbyte : isIndent t = false → src[r.pos]? ≠ some 0x60 := by
    intro hni hb
    rcases current_val_atHead (src := src) ⟨rest, hsp, hc⟩ hni hb with h' | h'
    · exact hch h'
    · cases h'
  unfold Rd.next at hok ⊢
  rw [hcn] at hok ⊢
  simp only [] at hok ⊢
  split
  · -- a further column of an Indent node
    rename_i hi
    simp only [Bool.and_eq_true, decide_eq_true_eq] at hi
    have hat2 : AtHead (Rd.mk r.spans r.pos (r.vpos + 1) (r.pos : Int)) t := ⟨rest, hsp, hc⟩
    refine ⟨hs.drop 0 rfl, ⟨t, hat2⟩, fun htk => ?_⟩
    rcases current_indent (src := src) hat2 hi.1 with h' | h' <;> (rw [h'] at htk; cases htk)
  · split
    · -- one byte forward in the node
      rename_i _ h2
      simp only [Bool.and_eq_true, Bool.not_eq_true', decide_eq_true_eq] at h2
      refine ⟨hs.drop 0 rfl, ⟨t, rest, hsp, ?_⟩, fun _ q hq => ?_⟩
      · unfold spanContains at hc ⊢
        simp only [Bool.and_eq_true, decide_eq_true_eq] at hc ⊢
        exact ⟨⟨hc.1.1, by omega⟩, h2.2⟩
      · have : q = r.pos := by simp only at hq; omega
        rw [this]; exact hbyte h2.1
    · -- the next text node
      rename_i hni1 hni2
      split
      · rename_i t' sp hnt
        obtain ⟨j, tail, hj, htl⟩ := nextTextNode_head _ _ _ hnt
        obtain ⟨k, hk⟩ := hs
        rw [hsp] at hk
        obtain ⟨_, _, hrest⟩ := getElem?_of_drop hk.symm
        have hsp' : sp = U.drop (k + 1 + j) := by
          rw [hj, hsp]
          simp only [List.drop_succ_cons, List.drop_zero]
          rw [← hrest, List.drop_drop]
        have hU : U[k + 1 + j]? = some t' := (getElem?_of_drop (by rw [← hsp', htl])).1
        have ht'mem : t' ∈ U := List.mem_of_getElem? hU
        have hne' := hne t' ht'mem
        refine ⟨⟨k + 1 + j, hsp'⟩, ⟨t', tail, htl, spanContains_start hne'⟩, fun _ q hq => ?_⟩
        simp only at hq
        exact hte.2 (k + 1 + j) t' (by omega) hU q (by omega)
      · rename_i hnt
        exfalso
        rw [if_neg hni1, if_neg hni2] at hok
        simp only [hnt] at hok
        cases hok

end

end CM.Proofs.InlH
