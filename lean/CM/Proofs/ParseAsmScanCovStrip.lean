import CM.Proofs.ParseAsmScanCovCS
import CM.Proofs.ParseScanCS3
/-
C03, inline half, the field `TokCover.code` — the two surgeries of `stripCodeSpanSpace` keep the coverage: what they remove
is a space at each end, or Indent pieces.
-/
namespace CM.Proofs.PSc
open CM CM.Model CM.Model.Inl CM.Gen CM.Spec CM.Proofs CM.Proofs.InlH
open Std.Do

set_option mvcgen.warning false

theorem needsCover_sp : needsCover SP = false := by decide +kernel

theorem noNeed_sp {c : ICtx} {j : Int} (h : c.srcA[j.toNat]! = SP) : ¬ NeedAt c j := by
  intro hn
  have := hn.2
  rw [h, needsCover_sp] at this
  cases this

theorem cov_afterFirst {c : ICtx} {lo hi : Int} {a : Array CSN} (h : CsCovA c lo hi a) (hsz : 0 < a.size)
    (hok : (a[0]!).kind ≠ IK.indent → c.srcA[(a[0]!).start.toNat]! = SP) :
    CsCovA c lo hi (if csFirstGone a[0]! = true then (a.set! 0 (csFirst' a[0]!)).extract 1 else a.set! 0 (csFirst' a[0]!)) := by
  intro j h1 h2 hr hn
  obtain ⟨n, hmem, hk, hn0, k1, k2⟩ := h j h1 h2 hr hn
  cases hl : a.toList with
  | nil =>
    have h1 : a.toList.length = a.size := Array.length_toList
    rw [hl] at h1; simp at h1; omega
  | cons f rest =>
    have hf : a[0]! = f := by
      rw [getElem!_pos a 0 hsz]
      have : a.toList[0]? = some f := by rw [hl]; rfl
      rw [Array.getElem?_toList, Array.getElem?_eq_getElem hsz] at this
      exact Option.some.inj this
    rw [hf] at hok ⊢
    rw [hl] at hmem
    have e1 := toList_set!_zero a (csFirst' f) f rest hl
    have e2 := toList_extract_one _ (csFirst' f) rest e1
    rcases List.mem_cons.1 hmem with rfl | hmem'
    · -- the first piece: a Text piece
      have hki : (n.kind == IK.indent) = false := by simpa using hk
      have hsp := hok hk
      have hne : j ≠ n.start := fun e => noNeed_sp (by rw [e]; exact hsp) hn
      have hcov : (csFirst' n).kind ≠ IK.indent ∧ 0 ≤ (csFirst' n).start ∧ (csFirst' n).start ≤ j ∧ j < (csFirst' n).stop := by
        unfold csFirst'
        simp only [hki, Bool.false_eq_true, if_false]
        exact ⟨hk, by omega, by omega, k2⟩
      have hng : csFirstGone n = false := by
        unfold csFirstGone
        simp only [hki, Bool.false_eq_true, if_false]
        have := spanLenI_of_lt (a := (csFirst' n).start) (b := (csFirst' n).stop) hcov.2.1 (by omega)
        unfold CSN.len
        cases hz : spanLenI (csFirst' n).start (csFirst' n).stop with
        | zero => omega
        | succ k => rfl
      rw [hng]
      simp only [Bool.false_eq_true, if_false]
      exact ⟨csFirst' n, by rw [e1]; exact List.mem_cons_self, hcov⟩
    · split
      · exact ⟨n, by rw [e2]; exact hmem', hk, hn0, k1, k2⟩
      · exact ⟨n, by rw [e1]; exact List.mem_cons_of_mem _ hmem', hk, hn0, k1, k2⟩

theorem cov_afterLast {c : ICtx} {lo hi : Int} {a : Array CSN} (h : CsCovA c lo hi a)
    (hok : 0 < a.size → (a[a.size - 1]!).kind ≠ IK.indent → c.srcA[((a[a.size - 1]!).stop - 1).toNat]! = SP) :
    CsCovA c lo hi (if csLastGone a[a.size - 1]! = true then (a.set! (a.size - 1) (csLast' a[a.size - 1]!)).extract 0 (a.size - 1)
      else a.set! (a.size - 1) (csLast' a[a.size - 1]!)) := by
  intro j h1 h2 hr hn
  obtain ⟨n, hmem, hk, hn0, k1, k2⟩ := h j h1 h2 hr hn
  have hsz : 0 < a.size := by
    have h1 : a.toList.length = a.size := Array.length_toList
    have := List.length_pos_of_mem hmem
    omega
  have hok := hok hsz
  have hsplit := toList_split_last a hsz
  generalize hl : a[a.size - 1]! = l at hsplit hok
  generalize hi' : a.toList.take (a.size - 1) = init at hsplit
  have hlen : a.toList.length = a.size := Array.length_toList
  have hinit : init.length = a.size - 1 := by rw [← hi', List.length_take]; omega
  have hset : ∀ x, (a.set! (a.size - 1) x).toList = init ++ [x] := by
    intro x
    rw [Array.set!_eq_setIfInBounds, Array.toList_setIfInBounds, hsplit]
    rw [List.set_append_right _ _ (by omega)]
    simp [hinit]
  have hext : ((a.set! (a.size - 1) (csLast' l)).extract 0 (a.size - 1)).toList = init := by
    rw [Array.toList_extract, hset]
    simp [hinit]
  rw [hsplit] at hmem
  rcases List.mem_append.1 hmem with hmem' | hmem'
  · split
    · exact ⟨n, by rw [hext]; exact hmem', hk, hn0, k1, k2⟩
    · exact ⟨n, by rw [hset]; exact List.mem_append_left _ hmem', hk, hn0, k1, k2⟩
  · rw [List.mem_singleton] at hmem'
    subst hmem'
    have hki : (n.kind == IK.indent) = false := by simpa using hk
    have hsp := hok hk
    have hne : j ≠ n.stop - 1 := fun e => noNeed_sp (by rw [e]; exact hsp) hn
    have hcov : (csLast' n).kind ≠ IK.indent ∧ 0 ≤ (csLast' n).start ∧ (csLast' n).start ≤ j ∧ j < (csLast' n).stop := by
      unfold csLast'
      simp only [hki, Bool.false_eq_true, if_false]
      exact ⟨hk, hn0, k1, by omega⟩
    have hng : csLastGone n = false := by
      unfold csLastGone
      simp only [hki, Bool.false_eq_true, if_false]
      have := spanLenI_of_lt (a := (csLast' n).start) (b := (csLast' n).stop) hcov.2.1 (by omega)
      unfold CSN.len
      cases hz : spanLenI (csLast' n).start (csLast' n).stop with
      | zero => omega
      | succ k => rfl
    rw [hng]
    simp only [Bool.false_eq_true, if_false]
    exact ⟨csLast' n, by rw [hset]; simp, hcov⟩

theorem get!_last_toList (a : Array CSN) (hsz : 0 < a.size) : a.toList.getLast? = some a[a.size - 1]! := by
  rw [toList_split_last a hsz]
  simp

/-- the first surgery does not change the kind and the end of the last piece -/
theorem last_afterFirst {a : Array CSN} (hsz : 0 < a.size) (x3 : Array CSN)
    (e3 : x3 = (if csFirstGone a[0]! = true then (a.set! 0 (csFirst' a[0]!)).extract 1 else a.set! 0 (csFirst' a[0]!)))
    (h3 : 0 < x3.size) :
    (x3[x3.size - 1]!).kind = (a[a.size - 1]!).kind ∧ (x3[x3.size - 1]!).stop = (a[a.size - 1]!).stop := by
  have g1 := get!_last_toList a hsz
  have g3 := get!_last_toList x3 h3
  cases hl : a.toList with
  | nil =>
    have h1 : a.toList.length = a.size := Array.length_toList
    rw [hl] at h1; simp at h1; omega
  | cons f rest =>
    have hf : a[0]! = f := by
      rw [getElem!_pos a 0 hsz]
      have : a.toList[0]? = some f := by rw [hl]; rfl
      rw [Array.getElem?_toList, Array.getElem?_eq_getElem hsz] at this
      exact Option.some.inj this
    rw [hf] at e3
    have e1 := toList_set!_zero a (csFirst' f) f rest hl
    have e2 := toList_extract_one _ (csFirst' f) rest e1
    have hk' : (csFirst' f).kind = f.kind ∧ (csFirst' f).stop = f.stop := by
      unfold csFirst'; split <;> exact ⟨rfl, rfl⟩
    rw [hl] at g1
    cases rest with
    | nil =>
      -- a single piece
      have hx : x3.toList = [csFirst' f] := by
        by_cases hg : csFirstGone f = true
        · rw [if_pos hg] at e3
          have : x3.toList = [] := by rw [e3, e2]
          have h1 : x3.toList.length = x3.size := Array.length_toList
          rw [this] at h1; simp at h1; omega
        · rw [if_neg hg] at e3
          rw [e3, e1]
      rw [hx] at g3
      simp only [List.getLast?_singleton, Option.some.injEq] at g1 g3
      rw [← g1, ← g3]; exact hk'
    | cons r rest' =>
      have hx : x3.toList.getLast? = (r :: rest').getLast? := by
        by_cases hg : csFirstGone f = true
        · rw [if_pos hg] at e3; rw [e3, e2]
        · rw [if_neg hg] at e3; rw [e3, e1]; rfl
      rw [hx] at g3
      have : (f :: r :: rest').getLast? = (r :: rest').getLast? := rfl
      rw [this, g3] at g1
      have := Option.some.inj g1
      rw [this]; exact ⟨rfl, rfl⟩

/-- the result of the two surgeries (the hypotheses as `mvcgen +jp` presents them) -/
theorem strip_result_cov {c : ICtx} {lo hi : Int} {slice : Array CSN} (hch : CsCovA c lo hi slice) (x3 x : Array CSN)
    (h3 : if csFirstGone slice[0]! = true then True ∧ x3 = (slice.set! 0 (csFirst' slice[0]!)).extract 1
      else True ∧ x3 = slice.set! 0 (csFirst' slice[0]!))
    (h : if csLastGone x3[x3.size - 1]! = true then
        True ∧ x = (x3.set! (x3.size - 1) (csLast' x3[x3.size - 1]!)).extract 0 (x3.size - 1)
      else True ∧ x = x3.set! (x3.size - 1) (csLast' x3[x3.size - 1]!))
    (hfirst : (slice[0]!).kind ≠ IK.indent → c.srcA[(slice[0]!).start.toNat]! = SP)
    (hlast : (slice[slice.size - 1]!).kind ≠ IK.indent → c.srcA[((slice[slice.size - 1]!).stop - 1).toNat]! = SP) :
    CsCovA c lo hi x := by
  by_cases hsz : 0 < slice.size
  · have h1 := cov_afterFirst hch hsz hfirst
    have e3 : x3 = (if csFirstGone slice[0]! = true then (slice.set! 0 (csFirst' slice[0]!)).extract 1
        else slice.set! 0 (csFirst' slice[0]!)) := by
      split at h3 <;> rename_i hg <;> simp only [hg, if_true, if_false, Bool.false_eq_true] <;> exact h3.2
    rw [← e3] at h1
    have h2 := cov_afterLast h1 (fun h3' hk => by
      obtain ⟨q1, q2⟩ := last_afterFirst hsz x3 e3 h3'
      rw [q2]; rw [q1] at hk; exact hlast hk)
    have e : x = (if csLastGone x3[x3.size - 1]! = true then
        (x3.set! (x3.size - 1) (csLast' x3[x3.size - 1]!)).extract 0 (x3.size - 1)
        else x3.set! (x3.size - 1) (csLast' x3[x3.size - 1]!)) := by
      split at h <;> rename_i hg <;> simp only [hg, if_true, if_false, Bool.false_eq_true] <;> exact h.2
    rw [e]; exact h2
  · have he : slice = #[] := Array.eq_empty_of_size_eq_zero (by omega)
    intro j a b hr hn
    obtain ⟨n, hm, _⟩ := hch j a b hr hn
    rw [he] at hm
    simp at hm

/-
NOT proved here: `StripCov` (`ParseAsmScanCovCode2.lean`), i.e. the Hoare triple
  ⦃CsCovA c lo hi slice⦄ stripCodeSpanSpace c slice ⦃⇓? r _ => CsCovA c lo hi r⦄.
`strip_result_cov` is its mathematical content.  What is missing is the plumbing: `mvcgen` on `stripCodeSpanSpace` produces
the five result conditions with the hypotheses `h3`, `h` above and the fact `firstOK = (srcA[first.start] == SP)` of the first
`srcIs`, but DROPS the fact about the result of the second `srcIs` (`lastOK`, bound by `let lastOK ← if … then … else srcIs …`:
the value goes through a join point and arrives as a bare `r : Bool` with only `¬(!firstOK || !r) = true`), so `hlast` cannot
be discharged from the generated conditions; a hand-rolled rule for that `let` (or a run-based proof of the part after the
loop) is needed.
-/

end CM.Proofs.PSc

#print axioms CM.Proofs.PSc.strip_result_cov
