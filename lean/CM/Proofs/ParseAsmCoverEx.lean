import CM.Proofs.ParseAsmCoverRuns
import CM.Proofs.InlCoverScan
/-
C03, inline half — non-vacuity of `parse_cover_of_tails` / `parse_cover_of_tails_scan`: a source without `<`, a backtick, `(`
and `[` meets the scanner coverage facts (the scanners are never called), and a concrete document with an ATX heading, a
content-less ATX heading (`EmptyRun`) and a block quote meets all hypotheses.
-/
namespace CM.Proofs.PSc
open CM CM.Model CM.Gen CM.Spec CM.Model.Inl
open CM.Proofs CM.Proofs.PW CM.Proofs.RK CM.Proofs.InlH CM.Proofs.InlH2 CM.Proofs.PS CM.Proofs.PSh

/-- No byte of the source starts a scanner. -/
def PlainSrc (src : Bytes) : Prop := ∀ b ∈ src, b ≠ 0x3C ∧ b ≠ 0x60 ∧ b ≠ 0x28 ∧ b ≠ 0x5B

instance (src : Bytes) : Decidable (PlainSrc src) := by unfold PlainSrc; exact inferInstance

theorem plain_no {src : Bytes} (h : PlainSrc src) (x : IExt) (m : Bytes → Bool) (L : List Tree) (pos : Int) (h0 : 0 ≤ pos)
    (h1 : pos < ((inlCtx x src src.toArray m L).srcA.size : Int)) :
    (inlCtx x src src.toArray m L).srcA[pos.toNat]! ≠ 0x3C ∧ (inlCtx x src src.toArray m L).srcA[pos.toNat]! ≠ 0x60 ∧
    (inlCtx x src src.toArray m L).srcA[pos.toNat]! ≠ 0x28 ∧ (inlCtx x src src.toArray m L).srcA[pos.toNat]! ≠ 0x5B := by
  have hA : (inlCtx x src src.toArray m L).srcA = src.toArray := rfl
  rw [hA] at h1 ⊢
  have hlt : pos.toNat < src.length := by
    have : (src.toArray.size : Int) = src.length := by simp
    omega
  have hget : src.toArray[pos.toNat]! = src[pos.toNat]'hlt := by
    rw [getElem!_pos _ _ (by simpa using hlt)]; simp
  rw [hget]
  exact h _ (List.getElem_mem hlt)

/-- A plain source meets the two scanner coverage facts at every container. -/
theorem scanCovE_of_plain {src : Bytes} (h : PlainSrc src) (x : IExt) (m : Bytes → Bool) (t : Tree) :
    ScanCovE x src src.toArray m t := by
  intro p _
  right
  exact ⟨⟨fun s s' start info h0 h1 hb => absurd hb (plain_no h x m p.2 start h0 h1).2.2.1,
      fun u start label r' h0 h1 hb => absurd hb (plain_no h x m p.2 start h0 h1).2.2.2⟩,
    TokCover.mk' _
      (fun u pos span r' h0 h1 hb => absurd hb (plain_no h x m p.2 pos h0 h1).1)
      (fun s s' pos cs h0 h1 hb => absurd hb (plain_no h x m p.2 pos h0 h1).2.1)⟩

section Examples

/-- An ATX heading with emphasis and closing `#`s, a content-less ATX heading, a block quote of two lines, a setext heading. -/
def covDoc : Bytes := Bytes.ofString "# H *a* ##\n#\n> b\n> c\n\nt\n==\n"

example : (parseDoc exX exIX covDoc).roots.length = 4 := by decide +kernel
example : ParseTails exX exIX covDoc := by decide +kernel
example : ∀ pr ∈ (parseDoc exX exIX covDoc).roots, PlainSrc pr.root.source := by decide +kernel

/-- `parse_cover_of_tails_scan` (hence `parse_cover_of_tails`) on that document. -/
example : ∀ pr ∈ (parseDoc exX exIX covDoc).roots, ∀ t', pr.tree = .ok t' →
    ∀ j : Int, 0 ≤ j → needsCover (pr.root.source.toArray[j.toNat]!) = true →
      CovTs [pbToTree pr.root.block] j → CovTs [t'] j :=
  parse_cover_of_tails_scan exX exIX covDoc (by decide +kernel)
    (fun pr hpr => scanCovE_of_plain
      ((by decide +kernel : ∀ pr ∈ (parseDoc exX exIX covDoc).roots, PlainSrc pr.root.source) pr hpr) _ _ _)

end Examples

end CM.Proofs.PSc

#print axioms CM.Proofs.PSc.scanCovE_of_plain
