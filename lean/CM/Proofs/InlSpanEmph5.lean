import CM.Proofs.InlSpanEmph4
/-
C02, inline half — the steps of one iteration of `processEmphasis` on states: the preconditions of `wrap`, the match
(`emph_glue'`), the removal of an emptied delimiter node (`remove_step`), and the four ways an iteration ends
(`emph_fin_nn`, `emph_fin_on`, `emph_fin_nc`, `emph_fin_oc`).
-/
namespace CM.Proofs.InlH
open CM CM.Model CM.Model.Inl CM.Gen

theorem openersBottomIndex_lt (e : DelimElem) (i : Nat) (h : openersBottomIndex e = some i) : i < 14 := by
  unfold openersBottomIndex at h
  split at h
  · split at h <;> (cases h; omega)
  · split at h
    · split at h <;> (cases h; omega)
    · split at h
      · cases h; omega
      · split at h
        · cases h; omega
        · cases h

theorem extract_prefix (st : Array DelimE) (i j b : Nat) (hb : b ≤ i) (hi : i ≤ st.size) :
    (st.extract 0 i ++ st.extract j).extract 0 b = st.extract 0 b := by
  apply Array.ext'
  simp only [Array.toList_extract, Array.toList_append, List.extract_eq_take_drop, List.drop_zero, Nat.sub_zero]
  rw [List.take_append_of_le_length (by simp; omega), List.take_take]
  congr 1; omega

/-- `delStack i j` (`b ≤ i ≤ j`) on states -/
theorem SP.delStack {lo hi : Int} {x : Option Nat} {b p : Nat} {F : Int} {s : IState} (h : SP lo hi x b p F s)
    (i j : Nat) (hbi : b ≤ i) (hij : i ≤ j) :
    SP lo hi x b p F ⟨s.nodes, s.parentMap, s.unparsedPos, s.stack.extract 0 i ++ s.stack.extract j,
      s.ignoreNextIndent⟩ := by
  obtain ⟨inv, hsz⟩ := h
  refine ⟨?_, hsz⟩
  have e : stkOf ⟨s.nodes, s.parentMap, s.unparsedPos, s.stack.extract 0 i ++ s.stack.extract j,
      s.ignoreNextIndent⟩ = (stkOf s).take i ++ (stkOf s).drop j := stkOf_del' s.stack i j
  rw [e]
  exact inv.delStk i j hbi hij

/-- the `openers bottom` table stays above the stack bottom -/
theorem ob_set (ob : Array Nat) (k v b : Nat) (h : ∀ i, i < ob.size → b ≤ ob[i]!) (hv : b ≤ v) :
    ∀ i, i < (ob.set! k v).size → b ≤ (ob.set! k v)[i]! := by
  intro i hi
  have hi' : i < ob.size := by simpa using hi
  have := h i hi'
  rw [getElem!_pos ob i hi'] at this
  rw [getElem!_pos _ i hi]
  simp only [Array.set!_eq_setIfInBounds]
  rw [Array.getElem_setIfInBounds (by simpa using hi')]
  split
  · exact hv
  · exact this

theorem ob_map (ob : Array Nat) (c b : Nat) (h : ∀ i, i < ob.size → b ≤ ob[i]!) (hc : b ≤ c) :
    ∀ i, i < (ob.map (fun v => if v > c then c else v)).size →
      b ≤ (ob.map (fun v => if v > c then c else v))[i]! := by
  intro i hi
  have hi' : i < ob.size := by simpa using hi
  rw [getElem!_pos _ i hi, Array.getElem_map]
  have := h i hi'; rw [getElem!_pos ob i hi'] at this
  split <;> omega

/-- `removeNode k; delStack i (i+1)` for the stack entry `i` (a child `k` of `p`). -/
theorem remove_glue {lo hi : Int} {x : Option Nat} {b p : Nat} {F : Int} {Z : List Nat} {s4 s5 : IState}
    (h : SPA lo hi x b p F Z s4.nodes (stkOf s4) (pmOf s4)) (hsz : s4.parentMap.size = s4.nodes.size)
    (T X Y : List Nat) (k : Nat) (hsk : stkOf s4 = T ++ (X ++ k :: Y)) (hT : T.length = b)
    (i : Nat) (hidx : i = b + X.length)
    (hn : s5.nodes = s4.nodes.modify p (fun n => { n with kids := n.kids.filter (· != k) }))
    (hp : s5.parentMap = s4.parentMap.set! k none)
    (hst : stkOf s5 = (stkOf s4).take i ++ (stkOf s4).drop (i + 1)) :
    SPA lo hi x b p F Z s5.nodes (stkOf s5) (pmOf s5) ∧ stkOf s5 = T ++ (X ++ Y) ∧
      s5.parentMap.size = s5.nodes.size := by
  have hdrop : (stkOf s4).drop b = X ++ k :: Y := by rw [hsk, ← hT]; exact List.drop_left' rfl
  have hpm : ∀ j, pmOf s5 j = if j = k then none else pmOf s4 j := pmOf_set_none s4 _ k rfl s5 hp
  have := h.removeLeaf X Y k hdrop hn hpm
  rw [← hidx] at this
  refine ⟨by rw [hst]; exact this, ?_, by rw [hp, hn]; simpa using hsz⟩
  rw [hst, hsk, hidx]
  have e : T ++ (X ++ k :: Y) = (T ++ X) ++ k :: Y := by simp
  have hl : (T ++ X).length = b + X.length := by simp [hT]
  rw [e, ← hl, List.take_left' rfl, ← List.drop_drop, List.drop_left' rfl]
  simp

/-- The preconditions of `wrap` in `processEmphasis`. -/
theorem emph_wrap_pre {lo hi : Int} {x : Option Nat} {b p : Nat} {F : Int} {s s2 : IState} (hsp : SP lo hi x b p F s)
    (oi cur : Nat) (hb : b ≤ oi) (hoc : oi < cur) (hcur : cur < s.stack.size) (f g : INode → INode)
    (hs2n : s2.nodes = (s.nodes.modify (s.stack[oi]!).node f).modify (s.stack[cur]!).node g)
    (hs2p : s2.parentMap = s.parentMap) :
    (pmOf s2 (s.stack[oi]!).node).isSome = true ∧
    (s.stack[oi]!).node ∈ (s2.nodes[(pmOf s2 (s.stack[oi]!).node).getD 0]!).kids.toList ∧
    s2.parentMap.size = s2.nodes.size ∧
    ∀ k ∈ (s2.nodes[(pmOf s2 (s.stack[oi]!).node).getD 0]!).kids.toList, k < s2.nodes.size := by
  obtain ⟨inv, hpsz⟩ := hsp
  have hlen := stkOf_length s
  obtain ⟨l1, l2, l3, hdrop, _, _⟩ := split_two (stkOf s) b oi cur hb hoc (by rw [hlen]; exact hcur)
  rw [stkOf_get s oi (by omega), stkOf_get s cur hcur] at hdrop
  generalize (s.stack[oi]!).node = o at *
  generalize (s.stack[cur]!).node = c at *
  have hod : o ∈ (stkOf s).drop b := by rw [hdrop]; exact List.mem_append_right _ (List.mem_cons_self ..)
  have hcd : c ∈ (stkOf s).drop b := by
    rw [hdrop]; exact List.mem_append_right _ (List.mem_cons_of_mem _ (List.mem_append_right _ (List.mem_cons_self ..)))
  have po := inv.plain o (List.mem_of_mem_drop hod)
  have pc := inv.plain c (List.mem_of_mem_drop hcd)
  have hoK : o ∈ kidsLS s.nodes p := inv.high.1.subset hod
  have hpo : p ≠ o := by
    rintro rfl
    have : kidsLS s.nodes p = [] := by unfold kidsLS; rw [po.kids]
    rw [this] at hoK; cases hoK
  have hpc : p ≠ c := by
    rintro rfl
    have : kidsLS s.nodes p = [] := by unfold kidsLS; rw [pc.kids]
    rw [this] at hoK; cases hoK
  have hpm : pmOf s2 o = some p := by rw [pmOf_congr hs2p]; exact inv.high.2 o hod
  have hkp : (s2.nodes[p]!).kids.toList = kidsLS s.nodes p := by
    rw [hs2n, get!_modify_neS hpc, get!_modify_neS hpo]; rfl
  rw [hpm]
  simp only [Option.isSome_some, Option.getD_some, hkp]
  refine ⟨trivial, hoK, by rw [hs2p, hs2n]; simpa using hpsz, fun k hk => ?_⟩
  rw [hs2n]; simpa using inv.klt p inv.plt k hk

/-- `emph_wrap_pre` for the state as `mvcgen` presents it -/
theorem emph_wrap_pre' {lo hi : Int} {x : Option Nat} {b p : Nat} {F : Int} {s : IState} (hsp : SP lo hi x b p F s)
    (oi cur : Nat) (hb : b ≤ oi) (hoc : oi < cur) (hcur : cur < s.stack.size) (f g : INode → INode) :
    let s2 : IState := { s with nodes := (s.nodes.modify (s.stack[oi]!).node f).modify (s.stack[cur]!).node g }
    (pmOf s2 (s.stack[oi]!).node).isSome = true ∧
    (s.stack[oi]!).node ∈ (s2.nodes[(pmOf s2 (s.stack[oi]!).node).getD 0]!).kids.toList ∧
    s2.parentMap.size = s2.nodes.size ∧
    ∀ k ∈ (s2.nodes[(pmOf s2 (s.stack[oi]!).node).getD 0]!).kids.toList, k < s2.nodes.size :=
  emph_wrap_pre hsp oi cur hb hoc hcur f g rfl rfl


/-! ### the states of one iteration -/

/-- `delStack i j` -/
@[reducible] def delSt (s : IState) (i j : Nat) : IState :=
  { s with stack := s.stack.extract 0 i ++ s.stack.extract j }

/-- `removeNode k` when `k`'s parent is `parent` -/
@[reducible] def rmSt (s : IState) (parent k : Nat) : IState :=
  { s with nodes := s.nodes.modify parent (fun n => { n with kids := n.kids.filter (· != k) }),
           parentMap := s.parentMap.set! k none }

/-- the width of a match -/
@[reducible] def emphW (s : IState) (o c : Nat) : Int :=
  if (decide (spanLenI (s.nodes[o]!).start (s.nodes[o]!).stop ≥ 2) &&
      decide (spanLenI (s.nodes[c]!).start (s.nodes[c]!).stop ≥ 2)) = true then 2 else 1

/-- the two delimiter nodes shortened -/
@[reducible] def shrinkSt (s : IState) (o c : Nat) (w : Int) : IState :=
  { s with nodes := (s.nodes.modify o (fun n => { n with stop := n.stop - w })).modify c
                      (fun n => { n with start := n.start + w }) }

/-- what `wrap_exact'` says about `wrap kind o (some c)` from state `s2` to `s3` -/
@[reducible] def WrapPostS (s2 s3 : IState) (kind o c : Nat) : Prop :=
  s3.nodes = wrapNodes s2 kind o (some c) ((pmOf s2 o).getD 0)
      (cutA (s2.nodes[(pmOf s2 o).getD 0]!).kids.toList o)
      (cutM (cutR (s2.nodes[(pmOf s2 o).getD 0]!).kids.toList o) (some c))
      (cutT (cutR (s2.nodes[(pmOf s2 o).getD 0]!).kids.toList o) (some c)) ∧
  s3.parentMap.size = s2.nodes.size + 1 ∧
  ∀ i, pmOf s3 i =
    if i ∈ cutM (cutR (s2.nodes[(pmOf s2 o).getD 0]!).kids.toList o) (some c) then some s2.nodes.size
    else if i = s2.nodes.size then some ((pmOf s2 o).getD 0) else pmOf s2 i

theorem SPA.stk_nodup {lo hi : Int} {x : Option Nat} {b p : Nat} {F : Int} {Z : List Nat} {a : Array INode}
    {sk : List Nat} {pm : Nat → Option Nat} (h : SPA lo hi x b p F Z a sk pm) : sk.Nodup := by
  have e : sk = sk.take b ++ sk.drop b := (List.take_append_drop b sk).symm
  rw [e, List.nodup_append]
  refine ⟨List.Nodup.sublist h.low.1 (h.nodup 0 h.pos), List.Nodup.sublist h.high.1 (h.nodup p h.plt), ?_⟩
  intro k hk k' hk' hkk
  subst hkk
  have h0 := h.uniqp 0 p k h.pos h.plt (h.low.1.subset hk) (h.high.1.subset hk')
  have hb0 := (h.pb h0.symm).1
  rw [hb0] at hk; simp at hk

theorem spanLen_posS {s e : Int} (h : ¬(spanLenI s e == 0) = true) : s < e := by
  unfold spanLenI at h
  split at h
  · have : (e - s).toNat ≠ 0 := by simpa using h
    omega
  · simp at h

/-- The match, up to the deletion of the stack entries between the two delimiters. -/
theorem emph_glue' {lo hi : Int} {x : Option Nat} {b p : Nat} {F : Int} {s : IState} (hsp : SP lo hi x b p F s)
    (oi cur : Nat) (hb : b ≤ oi) (hoc : oi < cur) (hcur : cur < s.stack.size) (kind : Nat) (s3 : IState)
    (h3 : WrapPostS (shrinkSt s (s.stack[oi]!).node (s.stack[cur]!).node
      (emphW s (s.stack[oi]!).node (s.stack[cur]!).node)) s3 kind (s.stack[oi]!).node (s.stack[cur]!).node)
    (h3st : s3.stack = s.stack) :
    ∃ T l1 l3 : List Nat, T.length = b ∧ l1.length = oi - b ∧
      stkOf (delSt s3 (oi + 1) cur) = T ++ (l1 ++ (s.stack[oi]!).node :: (s.stack[cur]!).node :: l3) ∧
      SPA lo hi x b p F [(s.stack[oi]!).node, (s.stack[cur]!).node] (delSt s3 (oi + 1) cur).nodes
        (stkOf (delSt s3 (oi + 1) cur)) (pmOf (delSt s3 (oi + 1) cur)) ∧
      (delSt s3 (oi + 1) cur).parentMap.size = (delSt s3 (oi + 1) cur).nodes.size := by
  obtain ⟨h3n, h3s, h3p⟩ := h3
  obtain ⟨l1, l3, hl1, hT, hsplit, core, hsz⟩ :=
    emph_glue hsp oi cur hb hoc hcur kind _ rfl (s2 := shrinkSt s _ _ _) rfl rfl h3n h3s h3p
  have e : stkOf (delSt s3 (oi + 1) cur) = (stkOf s).take (oi + 1) ++ (stkOf s).drop cur := by
    show List.map (·.node) (s3.stack.extract 0 (oi + 1) ++ s3.stack.extract cur).toList = _
    rw [h3st]
    exact stkOf_del' s.stack (oi + 1) cur
  refine ⟨(stkOf s).take b, l1, l3, hT, hl1, by rw [e]; exact hsplit, ?_, hsz⟩
  rw [e]; exact core

/-- `removeNode k; delStack i (i+1)` for the stack entry `i` (a child `k` of `p`), on states. -/
theorem remove_step {lo hi : Int} {x : Option Nat} {b p : Nat} {F : Int} {Z : List Nat} {s4 : IState}
    (h : SPA lo hi x b p F Z s4.nodes (stkOf s4) (pmOf s4)) (hsz : s4.parentMap.size = s4.nodes.size)
    (T X Y : List Nat) (k : Nat) (hsk : stkOf s4 = T ++ (X ++ k :: Y)) (hT : T.length = b)
    (i : Nat) (hidx : i = b + X.length) (parent : Nat) (hpar : (s4.parentMap[k]?).join = some parent) :
    SPA lo hi x b p F Z (delSt (rmSt s4 parent k) i (i + 1)).nodes (stkOf (delSt (rmSt s4 parent k) i (i + 1)))
        (pmOf (delSt (rmSt s4 parent k) i (i + 1))) ∧
      stkOf (delSt (rmSt s4 parent k) i (i + 1)) = T ++ (X ++ Y) ∧
      (delSt (rmSt s4 parent k) i (i + 1)).parentMap.size = (delSt (rmSt s4 parent k) i (i + 1)).nodes.size ∧
      (∀ j : Nat, ((delSt (rmSt s4 parent k) i (i + 1)).nodes[j]!).start = (s4.nodes[j]!).start ∧
            ((delSt (rmSt s4 parent k) i (i + 1)).nodes[j]!).stop = (s4.nodes[j]!).stop) := by
  have hdrop : (stkOf s4).drop b = X ++ k :: Y := by rw [hsk, ← hT]; exact List.drop_left' rfl
  have hkp : pmOf s4 k = some p := h.high.2 k (by rw [hdrop]; exact List.mem_append_right _ (List.mem_cons_self ..))
  have hpp : parent = p := by
    have : pmOf s4 k = some parent := hpar
    rw [hkp] at this; exact (Option.some.inj this).symm
  subst hpp
  obtain ⟨h1, h2, h3⟩ := remove_glue (s5 := delSt (rmSt s4 parent k) i (i + 1)) h hsz T X Y k hsk hT i hidx rfl rfl
    (stkOf_del' s4.stack i (i + 1))
  refine ⟨h1, h2, h3, fun j => ?_⟩
  show ((s4.nodes.modify parent _)[j]!).start = _ ∧ ((s4.nodes.modify parent _)[j]!).stop = _
  rw [get!_modify]
  split <;> exact ⟨rfl, rfl⟩

/-- Both delimiter nodes are left non-empty. -/
theorem emph_fin_nn {lo hi : Int} {x : Option Nat} {b p : Nat} {F : Int} {s : IState} (hsp : SP lo hi x b p F s)
    (oi cur : Nat) (hb : b ≤ oi) (hoc : oi < cur) (hcur : cur < s.stack.size) (kind : Nat) (s3 : IState)
    (h3 : WrapPostS (shrinkSt s (s.stack[oi]!).node (s.stack[cur]!).node
      (emphW s (s.stack[oi]!).node (s.stack[cur]!).node)) s3 kind (s.stack[oi]!).node (s.stack[cur]!).node)
    (h3st : s3.stack = s.stack)
    (ho : ¬(spanLenI (s3.nodes[(s.stack[oi]!).node]!).start (s3.nodes[(s.stack[oi]!).node]!).stop == 0) = true)
    (hc : ¬(spanLenI (s3.nodes[(s.stack[cur]!).node]!).start (s3.nodes[(s.stack[cur]!).node]!).stop == 0) = true) :
    SP lo hi x b p F (delSt s3 (oi + 1) cur) := by
  obtain ⟨T, l1, l3, hT, hl1, hstk, inv, hsz⟩ := emph_glue' hsp oi cur hb hoc hcur kind s3 h3 h3st
  refine ⟨inv.forget fun k _ hk => ?_, hsz⟩
  simp only [List.mem_cons, List.not_mem_nil, or_false] at hk
  rcases hk with rfl | rfl
  · exact spanLen_posS ho
  · exact spanLen_posS hc

/-- The opener is emptied and removed; the closer is left non-empty. -/
theorem emph_fin_on {lo hi : Int} {x : Option Nat} {b p : Nat} {F : Int} {s : IState} (hsp : SP lo hi x b p F s)
    (oi cur : Nat) (hb : b ≤ oi) (hoc : oi < cur) (hcur : cur < s.stack.size) (kind : Nat) (s3 : IState)
    (h3 : WrapPostS (shrinkSt s (s.stack[oi]!).node (s.stack[cur]!).node
      (emphW s (s.stack[oi]!).node (s.stack[cur]!).node)) s3 kind (s.stack[oi]!).node (s.stack[cur]!).node)
    (h3st : s3.stack = s.stack) (par : Nat)
    (hpar : ((delSt s3 (oi + 1) cur).parentMap[(s.stack[oi]!).node]?).join = some par)
    (hc : ¬(spanLenI ((rmSt (delSt s3 (oi + 1) cur) par (s.stack[oi]!).node).nodes[(s.stack[cur]!).node]!).start
            ((rmSt (delSt s3 (oi + 1) cur) par (s.stack[oi]!).node).nodes[(s.stack[cur]!).node]!).stop == 0) = true) :
    SP lo hi x b p F (delSt (rmSt (delSt s3 (oi + 1) cur) par (s.stack[oi]!).node) oi (oi + 1)) := by
  obtain ⟨T, l1, l3, hT, hl1, hstk, inv, hsz⟩ := emph_glue' hsp oi cur hb hoc hcur kind s3 h3 h3st
  have hnd := inv.stk_nodup
  rw [hstk] at hnd
  obtain ⟨inv5, hstk5, hsz5, hsp5⟩ := remove_step inv hsz T l1 _ _ hstk hT oi (by omega) par hpar
  refine ⟨inv5.forget fun k hk hkz => ?_, hsz5⟩
  rw [hstk5] at hk
  simp only [List.mem_cons, List.not_mem_nil, or_false] at hkz
  rcases hkz with rfl | rfl
  · exfalso
    simp only [List.nodup_append, List.nodup_cons, List.mem_append, List.mem_cons] at hnd hk
    rcases hk with hk | hk | hk | hk
    · exact hnd.2.2 _ hk _ (Or.inr (Or.inl rfl)) rfl
    · exact hnd.2.1.2.2 _ hk _ (Or.inl rfl) rfl
    · exact hnd.2.1.2.1.1 (Or.inl hk)
    · exact hnd.2.1.2.1.1 (Or.inr hk)
  · rw [(hsp5 _).1, (hsp5 _).2]
    have := spanLen_posS hc
    have e : ∀ j : Nat, ((rmSt (delSt s3 (oi + 1) cur) par (s.stack[oi]!).node).nodes[j]!).start =
        ((delSt s3 (oi + 1) cur).nodes[j]!).start ∧
        ((rmSt (delSt s3 (oi + 1) cur) par (s.stack[oi]!).node).nodes[j]!).stop =
        ((delSt s3 (oi + 1) cur).nodes[j]!).stop := by
      intro j
      show ((s3.nodes.modify par _)[j]!).start = _ ∧ ((s3.nodes.modify par _)[j]!).stop = _
      rw [get!_modify]
      split <;> exact ⟨rfl, rfl⟩
    rw [(e _).1, (e _).2] at this
    exact this

/-- The opener is left non-empty; the closer is emptied and removed. -/
theorem emph_fin_nc {lo hi : Int} {x : Option Nat} {b p : Nat} {F : Int} {s : IState} (hsp : SP lo hi x b p F s)
    (oi cur : Nat) (hb : b ≤ oi) (hoc : oi < cur) (hcur : cur < s.stack.size) (kind : Nat) (s3 : IState)
    (h3 : WrapPostS (shrinkSt s (s.stack[oi]!).node (s.stack[cur]!).node
      (emphW s (s.stack[oi]!).node (s.stack[cur]!).node)) s3 kind (s.stack[oi]!).node (s.stack[cur]!).node)
    (h3st : s3.stack = s.stack) (par : Nat)
    (ho : ¬(spanLenI (s3.nodes[(s.stack[oi]!).node]!).start (s3.nodes[(s.stack[oi]!).node]!).stop == 0) = true)
    (hpar : ((delSt s3 (oi + 1) cur).parentMap[(s.stack[cur]!).node]?).join = some par) :
    SP lo hi x b p F (delSt (rmSt (delSt s3 (oi + 1) cur) par (s.stack[cur]!).node) (oi + 1) (oi + 1 + 1)) := by
  obtain ⟨T, l1, l3, hT, hl1, hstk, inv, hsz⟩ := emph_glue' hsp oi cur hb hoc hcur kind s3 h3 h3st
  have hnd := inv.stk_nodup
  rw [hstk] at hnd
  have hstk' : stkOf (delSt s3 (oi + 1) cur) = T ++ ((l1 ++ [(s.stack[oi]!).node]) ++ (s.stack[cur]!).node :: l3) := by
    rw [hstk]; simp
  obtain ⟨inv5, hstk5, hsz5, hsp5⟩ := remove_step inv hsz T _ _ _ hstk' hT (oi + 1) (by simp; omega) par hpar
  refine ⟨inv5.forget fun k hk hkz => ?_, hsz5⟩
  rw [hstk5] at hk
  simp only [List.mem_cons, List.not_mem_nil, or_false] at hkz
  rcases hkz with rfl | rfl
  · rw [(hsp5 _).1, (hsp5 _).2]
    exact spanLen_posS ho
  · exfalso
    simp only [List.nodup_append, List.nodup_cons, List.mem_append, List.mem_cons, List.mem_singleton,
      List.not_mem_nil, or_false] at hnd hk
    rcases hk with hk | (hk | hk) | hk
    · exact hnd.2.2 _ hk _ (Or.inr (Or.inr (Or.inl rfl))) rfl
    · exact hnd.2.1.2.2 _ hk _ (Or.inr (Or.inl rfl)) rfl
    · exact hnd.2.1.2.1.1 (Or.inl hk.symm)
    · exact hnd.2.1.2.1.2.1 hk

/-- Both delimiter nodes are emptied and removed. -/
theorem emph_fin_oc {lo hi : Int} {x : Option Nat} {b p : Nat} {F : Int} {s : IState} (hsp : SP lo hi x b p F s)
    (oi cur : Nat) (hb : b ≤ oi) (hoc : oi < cur) (hcur : cur < s.stack.size) (kind : Nat) (s3 : IState)
    (h3 : WrapPostS (shrinkSt s (s.stack[oi]!).node (s.stack[cur]!).node
      (emphW s (s.stack[oi]!).node (s.stack[cur]!).node)) s3 kind (s.stack[oi]!).node (s.stack[cur]!).node)
    (h3st : s3.stack = s.stack) (par : Nat)
    (hpar : ((delSt s3 (oi + 1) cur).parentMap[(s.stack[oi]!).node]?).join = some par)
    (i' : Nat) (hi' : i' = oi) (par' : Nat)
    (hpar' : ((delSt (rmSt (delSt s3 (oi + 1) cur) par (s.stack[oi]!).node) oi (oi + 1)).parentMap[
      (s.stack[cur]!).node]?).join = some par') :
    SP lo hi x b p F (delSt (rmSt (delSt (rmSt (delSt s3 (oi + 1) cur) par (s.stack[oi]!).node) oi (oi + 1))
      par' (s.stack[cur]!).node) i' (i' + 1)) := by
  subst hi'
  obtain ⟨T, l1, l3, hT, hl1, hstk, inv, hsz⟩ := emph_glue' hsp i' cur hb hoc hcur kind s3 h3 h3st
  have hnd := inv.stk_nodup
  rw [hstk] at hnd
  obtain ⟨inv5, hstk5, hsz5, hsp5⟩ := remove_step inv hsz T l1 _ _ hstk hT i' (by omega) par hpar
  obtain ⟨inv6, hstk6, hsz6, hsp6⟩ := remove_step inv5 hsz5 T l1 _ _ hstk5 hT i' (by omega) par' hpar'
  refine ⟨inv6.forget fun k hk hkz => ?_, hsz6⟩
  exfalso
  rw [hstk6] at hk
  simp only [List.mem_cons, List.not_mem_nil, or_false] at hkz
  simp only [List.nodup_append, List.nodup_cons, List.mem_append, List.mem_cons] at hnd hk
  rcases hkz with rfl | rfl
  · rcases hk with hk | hk | hk
    · exact hnd.2.2 _ hk _ (Or.inr (Or.inl rfl)) rfl
    · exact hnd.2.1.2.2 _ hk _ (Or.inl rfl) rfl
    · exact hnd.2.1.2.1.1 (Or.inr hk)
  · rcases hk with hk | hk | hk
    · exact hnd.2.2 _ hk _ (Or.inr (Or.inr (Or.inl rfl))) rfl
    · exact hnd.2.1.2.2 _ hk _ (Or.inr (Or.inl rfl)) rfl
    · exact hnd.2.1.2.1.2.1 hk

end CM.Proofs.InlH
