import CM.Model.Emphasis
import CM.Spec.Flanking
/-
parse.go `isUnicodeWhitespace` / `isUnicodePunctuation` (models in `Model/Emphasis.lean`) against CommonMark 0.30 §2.1, for
every code point, with the Unicode tables as parameters. The two hypotheses are facts about the tables (U+0020 is in Zs; the
only ASCII characters in the P categories are ASCII punctuation); the harness checks them on Go's tables on every run.
-/
namespace CM.Proofs
open CM CM.Model CM.Gen

private theorem ws_ascii : ∀ c : Fin 128, c.val ≠ 0x20 →
    (isSpaceTabOrLineEnding (UInt8.ofNat c.val) || c.val == 0x0C) =
      (c.val == 0x09 || c.val == 0x0A || c.val == 0x0C || c.val == 0x0D) := by decide

theorem isUnicodeWhitespace_eq_spec (u : UExt) (hsp : u.isZs 0x20 = true) (c : Nat) :
    isUnicodeWhitespace u c = Spec.isUnicodeWhitespaceSpec u.isZs c := by
  unfold isUnicodeWhitespace Spec.isUnicodeWhitespaceSpec
  by_cases h20 : c = 0x20
  · subst h20; simp [hsp]
  · by_cases hc : c ≤ 0x7F
    · have := ws_ascii ⟨c, by omega⟩ h20
      simp only at this
      cases hz : u.isZs c <;> simp [hc, this]
    · have h9 : (c == 0x09) = false := by simp; omega
      have hA : (c == 0x0A) = false := by simp; omega
      have hC : (c == 0x0C) = false := by simp; omega
      have hD : (c == 0x0D) = false := by simp; omega
      simp [hc, h9, hA, hC, hD]

private theorem punct_ascii : ∀ c : Fin 128,
    isASCIIPunctuation (UInt8.ofNat c.val) = Spec.asciiPunctuationChars.contains (UInt8.ofNat c.val) := by decide

theorem isUnicodePunctuation_eq_spec (u : UExt)
    (hP : ∀ c, c < 0x80 → u.isP c = true → isASCIIPunctuation (UInt8.ofNat c) = true) (c : Nat) :
    isUnicodePunctuation u c = Spec.isUnicodePunctuationSpec u.isP c := by
  unfold isUnicodePunctuation Spec.isUnicodePunctuationSpec
  by_cases hc : c < 0x80
  · have := punct_ascii ⟨c, hc⟩
    simp only at this
    rw [if_pos hc, ← this]
    cases hp : u.isP c
    · simp [hc]
    · simp [hP c hc hp]
  · rw [if_neg hc]; simp [hc]

end CM.Proofs
