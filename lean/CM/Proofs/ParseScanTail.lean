import CM.Proofs.ParseScanTailAtx
import CM.Proofs.ParseScanMain
/-
C02 / C04, inline halves, for the whole of `Parse` — the tail facts, part 2: what is proved of `TailSafe` / `TailNP` for the
containers of block-phase trees, the bridge from the line-level fact `parseATXHeading_after` to `SafeAt`, and the two open
targets stated exactly.

PROVED here
* `safeAt_of_line`: if the bytes of `src` from `ls` on are the bytes of `line` (as far as `line` goes, and `src` ends where a
  line without line ending ends), then `SafeL line p` gives `SafeAt src (ls + p)` — with `parseATXHeading_after` this is
  `TailSafe` for an ATX heading, PROVIDED one knows that its content run ends at `lineStart + indent + (parseATXHeading …).stop`
  of a line of the source (the fact about `startATX` that no block-phase invariant records yet);
* `tailSafe_of_safeAt`, `tailNP_of_safeAt`: `SafeAt` after the last child gives both tail facts (a safe byte is not `)`);
* `tailNP_of_atEnd`, `blockphase_tailNP_atEnd`, `blockphase_tailSafe_atEnd`: both tail facts for every container of a
  block-phase tree whose last child ends where the root's source ends (a top-level paragraph / heading that is the last thing
  of its root; every container of a document without final line ending that ends with it).

OPEN (`blockphase_tailSafe_atx_target`, `blockphase_tailNP_target`): see the end of the file.
-/
namespace CM.Proofs.PSc
open CM CM.Model CM.Gen CM.Spec CM.Model.Inl
open CM.Proofs.PW CM.Proofs.InlH CM.Proofs.PS

/-- From a line to the source. -/
theorem safeAt_of_line {src line : Bytes} {ls p : Nat} (hsrc : ∀ j, j < line.length → src[ls + j]? = line[j]?)
    (h : SafeL line p) (hlast : line.length ≤ p → src.length ≤ ls + p) : SafeAt src (ls + p) := by
  rcases h with h | ⟨c, hc, hs⟩
  · exact Or.inl (hlast h)
  · right
    have hp : p < line.length := (List.getElem?_eq_some_iff.1 hc).1
    have : src.getD (ls + p) 0 = c := by
      rw [List.getD_eq_getElem?_getD, hsrc p hp, hc]; rfl
    rw [this]
    exact hs

/-- a safe byte after the last child: `TailSafe` -/
theorem tailSafe_of_safeAt {src : Bytes} {L : List Tree}
    (h : ∀ t, L.getLast? = some t → SafeAt src t.label.stop.toNat) : TailSafe src L :=
  fun t ht _ => Or.inr (h t ht)

/-- … and `TailNP`: a safe byte is not `)` -/
theorem tailNP_of_safeAt {src : Bytes} {L : List Tree}
    (h : ∀ t, L.getLast? = some t → SafeAt src t.label.stop.toNat) : TailNP src L := by
  intro t ht
  rcases h t ht with h' | h'
  · exact Or.inl h'
  · right
    rcases h' with e | e | e | e | e <;> (rw [e]; decide)

/-- the last child ends where the source ends -/
theorem tailNP_of_atEnd {src : Bytes} {L : List Tree}
    (h : ∀ t, L.getLast? = some t → (src.length : Int) ≤ t.label.stop) : TailNP src L :=
  fun t ht => Or.inl (by have := h t ht; omega)

theorem tailSafe_of_atEnd {src : Bytes} {L : List Tree}
    (h : ∀ t, L.getLast? = some t → (src.length : Int) ≤ t.label.stop) : TailSafe src L :=
  fun t ht _ => Or.inr (Or.inl (by have := h t ht; omega))

/-- **Both tail facts for a container of a block-phase tree whose last child ends where the root's source ends**, hence
    (`blockphase_contOK2`) all scanner hypotheses of that container. -/
theorem blockphase_contOK2_atEnd (x : PExt) (fuel : Nat) (inp : Bytes) (ix : IExt) (m : Bytes → Bool) :
    ∀ r ∈ (drain (blocksLP x) fuel (memParser inp) []).1, ∀ p ∈ conts (pbToTree r.block),
      (∀ t, p.2.getLast? = some t → (r.source.length : Int) ≤ t.label.stop) → ¬ PSh.EmptyRun p.2 →
      InlH2.ContOK2 ix r.source r.source.toArray m (.node p.1 p.2) :=
  fun r hr p hp h hne =>
    blockphase_contOK2 x fuel inp ix m r hr p hp (tailNP_of_atEnd h) (fun _ => tailSafe_of_atEnd h) hne

/-! ### the open targets -/

/-- **OPEN (1)**: the content run of every ATX heading of a block-phase tree is followed by white space, `#`, or the end of
    the root's source.  Line level: `parseATXHeading_after`; bridge: `safeAt_of_line`.  Missing: a block-phase invariant
    saying that the Unparsed child `startATX` appends ends at `lineStart + i + (parseATXHeading bytesAfterIndent).stop` of a
    line of the buffer the root's source is cut from (an `AtxOK` clause of `PS.PP`, to be carried through `PS.drain_PP`). -/
def blockphase_tailSafe_atx_target : Prop :=
  ∀ (x : PExt) (fuel : Nat) (inp : Bytes), ∀ r ∈ (drain (blocksLP x) fuel (memParser inp) []).1,
    ∀ p ∈ conts (pbToTree r.block), p.1.kind = BK.atxHeading →
      ∀ t, p.2.getLast? = some t → SafeAt r.source t.label.stop.toNat

/-- **OPEN (2)**: no container of a block-phase tree is followed by `)`.  For ATX headings it follows from (1)
    (`tailNP_of_safeAt`); for paragraphs and setext headings the last run ends with its line ending or where the source ends
    (`ContF.shape`, proved), and what remains is: the first byte of the line that closed the paragraph is not `)` (such a
    line is a lazy continuation) — a fact about `processLine` that no invariant records. -/
def blockphase_tailNP_target : Prop :=
  ∀ (x : PExt) (fuel : Nat) (inp : Bytes), ∀ r ∈ (drain (blocksLP x) fuel (memParser inp) []).1,
    ∀ p ∈ conts (pbToTree r.block), TailNP r.source p.2

/-- (1) gives (2) for ATX headings and `TailSafe` for them. -/
theorem atx_tails_of_target (h1 : blockphase_tailSafe_atx_target) (x : PExt) (fuel : Nat) (inp : Bytes) :
    ∀ r ∈ (drain (blocksLP x) fuel (memParser inp) []).1, ∀ p ∈ conts (pbToTree r.block), p.1.kind = BK.atxHeading →
      TailSafe r.source p.2 ∧ TailNP r.source p.2 :=
  fun r hr p hp hk => ⟨tailSafe_of_safeAt (h1 x fuel inp r hr p hp hk), tailNP_of_safeAt (h1 x fuel inp r hr p hp hk)⟩

/-- the line-level fact in the form the bridge takes: the heading line `# a #⏎` at offset 3 of a source -/
example : SafeAt ([0x78, 0x0A, 0x0A] ++ [0x23, 0x20, 0x61, 0x20, 0x23, 0x0A]) (3 + (parseATXHeading [0x23, 0x20, 0x61, 0x20, 0x23, 0x0A]).stop) :=
  safeAt_of_line (line := [0x23, 0x20, 0x61, 0x20, 0x23, 0x0A]) (fun j hj => by
      simp only [List.length_cons, List.length_nil] at hj
      have : j = 0 ∨ j = 1 ∨ j = 2 ∨ j = 3 ∨ j = 4 ∨ j = 5 := by omega
      rcases this with rfl | rfl | rfl | rfl | rfl | rfl <;> rfl)
    (parseATXHeading_after _ (by decide)) (fun h => by revert h; decide)

/-! ### the targets on concrete documents (kernel-checked) -/

instance instDecSafeAtTail (src : Bytes) (p : Nat) : Decidable (SafeAt src p) := by unfold SafeAt; infer_instance

/-- the byte after the last inline child of every container is safe: ATX headings with and without closing sequence, with an
    escaped space before the closing `#`, without content, and without final line ending -/
def tailSafeDoc (d : Bytes) : Bool :=
  (drain (blocksLP RK.exX) (d.length + 8) (memParser d) []).1.all fun r =>
    (conts (pbToTree r.block)).all fun p =>
      match p.2.getLast? with
      | some t => decide (SafeAt r.source t.label.stop.toNat)
      | none => true

example : tailSafeDoc (Bytes.ofString "# a #\n") = true := by decide +kernel
example : tailSafeDoc (Bytes.ofString "## [a](b \\ #\n") = true := by decide +kernel
example : tailSafeDoc (Bytes.ofString "#\n") = true := by decide +kernel
example : tailSafeDoc (Bytes.ofString "> # <!a") = true := by decide +kernel

end CM.Proofs.PSc

#print axioms CM.Proofs.PSc.parseATXHeading_after
#print axioms CM.Proofs.PSc.blockphase_contOK2_atEnd
#print axioms CM.Proofs.PSc.atx_tails_of_target
