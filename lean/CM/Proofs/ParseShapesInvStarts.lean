import CM.Proofs.ParseShapesInvSetext
import CM.Proofs.RefDefSpansStarts2
import CM.Proofs.ParseSeamsParaLine
import CM.Proofs.ShapesRecog
/-
C13 for the whole of `Parse`, part 8 (block phase): **the block starts keep `GQ`, and what they consume holds no
backtick** (`StQ`): block quote, ATX heading, thematic break, fenced code block, HTML block, indented code block.
(List items: `ParseShapesInvStarts2.lean`; setext headings: `ParseShapesInvSetext.lean`.)

`NoTickPref p`: no byte of the line before the cursor is a backtick - so the text run `addLineText` makes at the cursor
is not preceded by one.  A start that consumes a backtick (the fence of a code block, the content of an ATX heading,
an HTML block that ends on its first line) consumes the whole line (state 2), and no text is added.
The proofs follow `RefDefSpansStarts.lean`.
-/
namespace CM.Proofs.PSh
open CM CM.Model CM.Gen CM.Spec
open CM.Proofs.BSp CM.Proofs.BT CM.Proofs.BG CM.Proofs.RDS

variable {S : Bytes} {bd : Int} {ls : Nat}

/-! ### the cursor -/

/-- No byte of the line before the cursor is a backtick. -/
def NoTickPref (p : LP) : Prop := ∀ j, j < p.i → p.line[j]? ≠ some 0x60

theorem NoTickPref.of_cur {p q : LP} (h : NoTickPref p) (e : BT.cur q = BT.cur p) : NoTickPref q := by
  intro j hj
  rw [cur_i e] at hj
  rw [cur_line e]
  exact h j hj

/-- Consuming indentation. -/
theorem NoTickPref.ci {p p' : LP} {n : Nat} (hc : CurOK p) (c : CIPost p p' n) (h : NoTickPref p) : NoTickPref p' := by
  intro j hj
  rw [c.line]
  by_cases hlt : j < p.i
  · exact h j hlt
  · have e1 := bai_skip p hc
    have e2 := bai_skip p' c.cur
    rw [c.bai, c.line] at e2
    have hjl : j - p.i < indentLength (p.line.drop p.i) := by omega
    have := PS.indentLength_ws (p.line.drop p.i) (j - p.i) hjl
    rw [List.getElem?_drop] at this
    have e : p.i + (j - p.i) = j := by omega
    rw [e] at this
    rcases this with h' | h' <;> (rw [h']; decide)

/-- Advancing over bytes that are no backticks. -/
theorem NoTickPref.adv {p p' : LP} {n : Nat} (a : AdvPost p p' n)
    (hb : ∀ k, k < n → (p.line.drop p.i)[k]? ≠ some 0x60) (h : NoTickPref p) : NoTickPref p' := by
  intro j hj
  rw [a.line]
  rw [a.i] at hj
  by_cases hlt : j < p.i
  · exact h j hlt
  · have := hb (j - p.i) (by omega)
    rw [List.getElem?_drop] at this
    have e : p.i + (j - p.i) = j := by omega
    rw [e] at this
    exact this

/-- What a block start guarantees: the invariant is kept, and if the line is not consumed the bytes before the cursor
    are still no backticks. -/
structure StQ (S : Bytes) (bd : Int) (ls : Nat) (q q' : LP) : Prop where
  gq : GQ S bd ls q'
  nt : q'.state ≠ 2 → NoTickPref q → NoTickPref q'

theorem StQ.refl {q : LP} (h : GQ S bd ls q) : StQ S bd ls q q := ⟨h, fun _ h' => h'⟩

/-! ### block quote -/

theorem hasBytePrefix_getElem (b : Bytes) (h : hasBytePrefix b blockQuotePrefix = true) : b[0]? = some 0x3E := by
  have := InlH.hasBytePrefix_take b blockQuotePrefix h
  have e : blockQuotePrefix = [0x3E] := rfl
  rw [e] at this
  cases b with
  | nil => simp at this
  | cons c r =>
    simp only [List.length_cons, List.length_nil, List.take_succ_cons, List.take_zero, List.cons.injEq, and_true] at this
    simp [this]

theorem startBlockQuote_q (x : PExt) (q : LP) (h : BT.Inv q) (hs : q.state = 0) (hg : GQ S bd ls q) :
    StQ S bd ls q (startBlockQuote x q) := by
  unfold startBlockQuote
  simp only []
  split
  · exact StQ.refl hg
  split
  · exact StQ.refl hg
  rename_i _ hpre
  have hpre' : hasBytePrefix q.bytesAfterIndent blockQuotePrefix = true := by
    cases hh : hasBytePrefix q.bytesAfterIndent blockQuotePrefix
    · rw [hh] at hpre; exact absurd rfl hpre
    · rfl
  have hlen := hasBytePrefix_length _ _ hpre'
  obtain ⟨ci, hdrop, hil⟩ := consumeAll q h
  have g1 := hg.of_fr (fr_consumeIndentN q q.indent)
  have n1 : NoTickPref q → NoTickPref (q.consumeIndentN q.indent) := NoTickPref.ci h.cur ci
  generalize q.consumeIndentN q.indent = p1 at ci hdrop hil g1 n1 ⊢
  have i1 := ci.inv h
  have s1 := ci.st (by omega)
  have ob := openBlock_inv x p1 BK.blockQuote id id_kind i1 s1.2 (Or.inl (by decide))
  have g2 := openBlock_GQ x p1 BK.blockQuote id id_kind kind_bq_ne g1
  generalize p1.openBlock x BK.blockQuote = p2 at ob g2
  have i2 := ob.inv i1
  have s2 := ob.st s1.2
  have e2i : p2.i = p1.i := cur_i ob.cur
  have e2l : p2.line = p1.line := cur_line ob.cur
  have hbq : blockQuotePrefix.length = 1 := rfl
  have ad := advance_post p2 blockQuotePrefix.length i2.cur (by rw [e2i, e2l, ci.line]; omega)
  have g3 := g2.of_fr (fr_advance p2 blockQuotePrefix.length)
  have n3 : NoTickPref q → NoTickPref (p2.advance blockQuotePrefix.length) := by
    intro hq
    refine NoTickPref.adv ad ?_ ((n1 hq).of_cur ob.cur)
    intro k hk
    rw [e2i, e2l, hdrop]
    have hk0 : k = 0 := by omega
    rw [hk0, hasBytePrefix_getElem _ hpre']
    decide
  generalize p2.advance blockQuotePrefix.length = p3 at ad g3 n3
  have i3 := ad.inv i2
  split
  · have c4 := consumeIndentN_post p3 1 i3.cur (by omega)
    exact ⟨g3.of_fr (fr_consumeIndentN p3 1), fun _ hq => NoTickPref.ci i3.cur c4 (n3 hq)⟩
  · exact ⟨g3, fun _ hq => n3 hq⟩

/-! ### ATX heading -/

/-- `collectInline` (without indentation) into a fresh ATX heading: the run is its only inline child. -/
theorem collectInline_GQ_atx (x : PExt) (p : LP) (kind n : Nat) (hst : p.state ≠ 4) (hind : p.indent = 0)
    (hf : ∃ l, spineGet p.root p.depth = some (.mk l [] []) ∧ l.kind = BK.atxHeading) (h : GQ S bd ls p) :
    GQ S bd ls (p.collectInline x kind n) := by
  obtain ⟨l, hget, hk⟩ := hf
  have hnp : NotPara p := by
    intro c hc
    rw [hget] at hc
    cases hc
    show l.kind ≠ _
    rw [hk]; decide
  refine ⟨collectInline_GI x p kind n hnp h.gi, ?_⟩
  rw [BSp.collectInline_eq x p kind n hst]
  have hci : BSp.ciIndent ({ p with state := mm p.state } : LP) = ({ p with state := mm p.state } : LP) := by
    unfold BSp.ciIndent
    have : ({ p with state := mm p.state } : LP).indent = 0 := hind
    rw [if_neg (by omega)]
  rw [hci]
  show PQ S bd (spineModify _ (({ p with state := mm p.state } : LP).advance n).root
    (({ p with state := mm p.state } : LP).advance n).depth)
  rw [fr_root (fr_advance _ n), fr_depth (fr_advance _ n)]
  show PQ S bd (spineModify _ p.root p.depth)
  apply PQ_spineModify _ _ _ h.good
  intro c hc _
  rw [hget] at hc
  cases hc
  rw [PQ_mk]
  refine ⟨⟨fun hp => ?_, fun _ => (by simp [PB.inlines])⟩, fun _ hb => (by cases hb)⟩
  have hp' : l.kind = BK.paragraph ∨ l.kind = BK.setextHeading := hp
  rcases hp' with hp' | hp' <;> (rw [hk] at hp'; exact absurd hp' (by decide))

theorem startATX_q (x : PExt) (q : LP) (h : BT.Inv q) (hs : q.state = 0) (hg : GQ S bd ls q) :
    StQ S bd ls q (startATX x q) := by
  unfold startATX
  simp only []
  split
  · exact StQ.refl hg
  split
  · exact StQ.refl hg
  rename_i _ hlev
  have hb := parseATXHeading_bound q.bytesAfterIndent
  generalize parseATXHeading q.bytesAfterIndent = hd at hb hlev ⊢
  obtain ⟨hb1, hb2, hb3⟩ := hb
  have hb3 := hb3 (by omega)
  obtain ⟨ci, hdrop, hil⟩ := consumeAll q h
  have g1 := hg.of_fr (fr_consumeIndentN q q.indent)
  generalize q.consumeIndentN q.indent = p1 at ci hdrop hil g1 ⊢
  have i1 := ci.inv h
  have s1 := ci.st (by omega)
  have ob := openBlock_inv x p1 BK.atxHeading (fun l => { l with n := hd.level }) (fun _ => rfl) i1 s1.2 (Or.inl (by decide))
  have g2 := openBlock_GQ x p1 BK.atxHeading (fun l => { l with n := hd.level }) (fun _ => rfl) kind_atx_ne g1
  have f2 := PS.openBlock_container (x := x) p1 BK.atxHeading (fun l => { l with n := hd.level }) (fun _ => rfl) i1 s1.2
  generalize p1.openBlock x BK.atxHeading (fun l => { l with n := hd.level }) = p2 at ob g2 f2
  have i2 := ob.inv i1
  have s2 := ob.st s1.2
  have e2i : p2.i = p1.i := cur_i ob.cur
  have e2l : p2.line = p1.line := cur_line ob.cur
  have ad := advance_post p2 hd.start i2.cur (by rw [e2i, e2l, ci.line]; omega)
  have g3 := g2.of_fr (fr_advance p2 hd.start)
  have f3 : ∃ l, spineGet (p2.advance hd.start).root (p2.advance hd.start).depth = some (.mk l [] []) ∧ l.kind = BK.atxHeading := by
    rw [fr_root (fr_advance p2 hd.start), fr_depth (fr_advance p2 hd.start)]; exact f2
  generalize p2.advance hd.start = p3 at ad g3 f3
  have i3 := ad.inv i2
  have s3 := ad.st s2.2.1
  have hdrop3 : p3.line.getD p3.i 0 = q.bytesAfterIndent.getD hd.start 0 := by
    rw [ad.i, ad.line, e2i, e2l]; exact getD_of_drop p1 _ _ hdrop
  have hind3 : p3.indent = 0 := indent_zero_of_getD p3 (by rw [hdrop3]; exact hb3.1) (by rw [hdrop3]; exact hb3.2)
  have co := collectInline_post x p3 IK.unparsed (hd.stop - hd.start) i3 (by omega) (by
    rw [ciSkip_zero p3 hind3, ad.i, ad.line, e2i, e2l, ci.line]; omega)
  have g4 := collectInline_GQ_atx x p3 IK.unparsed (hd.stop - hd.start) (by omega) hind3 f3 g3
  generalize p3.collectInline x IK.unparsed (hd.stop - hd.start) = p4 at co g4
  have s4 := co.st s3.2
  have cl := consumeLine_post p4 co.inv.cur
  have g5 := g4.of_fr (fr_consumeLine p4)
  generalize p4.consumeLine = p5 at cl g5
  have i5 := cl.inv co.inv
  have s5 := cl.st s4.2.1
  have eb := endBlock_inv x p5 i5 (by omega)
  have g6 := endBlock_GQ x p5 g5
  generalize p5.endBlock x = p6 at eb g6
  have s6 : p6.state = 2 := by rw [eb.state, s5]; rfl
  exact ⟨g6, fun h2 => absurd s6 h2⟩

/-! ### thematic break -/

theorem startThematicBreak_q (x : PExt) (q : LP) (h : BT.Inv q) (hs : q.state = 0) (hg : GQ S bd ls q) :
    StQ S bd ls q (startThematicBreak x q) := by
  unfold startThematicBreak
  simp only []
  split
  · exact StQ.refl hg
  split
  · exact StQ.refl hg
  rename_i _ hneg
  have hb := parseThematicBreak_le q.bytesAfterIndent (by omega)
  generalize parseThematicBreak q.bytesAfterIndent = e at hb hneg ⊢
  obtain ⟨ci, hdrop, hil⟩ := consumeAll q h
  have g1 := hg.of_fr (fr_consumeIndentN q q.indent)
  generalize q.consumeIndentN q.indent = p1 at ci hdrop hil g1 ⊢
  have i1 := ci.inv h
  have s1 := ci.st (by omega)
  have ob := openBlock_inv x p1 BK.thematicBreak id id_kind i1 s1.2 (Or.inl (by decide))
  have g2 := openBlock_GQ x p1 BK.thematicBreak id id_kind kind_tb_ne g1
  generalize p1.openBlock x BK.thematicBreak = p2 at ob g2
  have i2 := ob.inv i1
  have s2 := ob.st s1.2
  have e2i : p2.i = p1.i := cur_i ob.cur
  have e2l : p2.line = p1.line := cur_line ob.cur
  have ad := advance_post p2 e.toNat i2.cur (by rw [e2i, e2l, ci.line]; omega)
  have g3 := g2.of_fr (fr_advance p2 e.toNat)
  generalize p2.advance e.toNat = p3 at ad g3
  have i3 := ad.inv i2
  have s3 := ad.st s2.2.1
  have cl := consumeLine_post p3 i3.cur
  have g5 := g3.of_fr (fr_consumeLine p3)
  generalize p3.consumeLine = p5 at cl g5
  have i5 := cl.inv i3
  have s5 := cl.st s3.2
  have eb := endBlock_inv x p5 i5 (by omega)
  have g6 := endBlock_GQ x p5 g5
  generalize p5.endBlock x = p6 at eb g6
  have s6 : p6.state = 2 := by rw [eb.state, s5]; rfl
  exact ⟨g6, fun h2 => absurd s6 h2⟩

/-! ### fenced code block -/

theorem startFenced_q (x : PExt) (q : LP) (h : BT.Inv q) (hs : q.state = 0) (hg : GQ S bd ls q) :
    StQ S bd ls q (startFenced x q) := by
  unfold startFenced
  simp only []
  split
  · exact StQ.refl hg
  split
  · exact StQ.refl hg
  have hb := parseCodeFence_bound q.bytesAfterIndent
  generalize parseCodeFence q.bytesAfterIndent = fc at hb ⊢
  obtain ⟨ci, hdrop, hil⟩ := consumeAll q h
  have g1 := hg.of_fr (fr_consumeIndentN q q.indent)
  generalize q.consumeIndentN q.indent = p1 at ci hdrop hil g1 ⊢
  have i1 := ci.inv h
  have s1 := ci.st (by omega)
  have ob := openBlock_inv x p1 BK.fencedCode (fun l => { l with char := fc.char, n := fc.n }) (fun _ => rfl) i1 s1.2
    (Or.inl (by decide))
  have g2 := openBlock_GQ x p1 BK.fencedCode (fun l => { l with char := fc.char, n := fc.n }) (fun _ => rfl) kind_fc_ne g1
  generalize p1.openBlock x BK.fencedCode (fun l => { l with char := fc.char, n := fc.n }) = p2 at ob g2
  have i2 := ob.inv i1
  have s2 := ob.st s1.2
  have sc := setContainerIndent_post p2 (↑q.indent) i2.tree s2.2.2 s2.2.1 (Or.inr ob.ckind)
  have g3 := setContainerIndent_GQ p2 (↑q.indent) g2
  generalize p2.setContainerIndent (↑q.indent) = p3 at sc g3
  have i3 := sc.inv i2
  have e3i : p3.i = p1.i := by rw [cur_i sc.cur, cur_i ob.cur]
  have e3l : p3.line = p1.line := by rw [cur_line sc.cur, cur_line ob.cur]
  have s3 : 1 ≤ p3.state ∧ p3.state ≤ 2 := by rw [sc.state]; omega
  have k3 : p3.containerKind = BK.fencedCode := by rw [sc.kind, ob.ckind]
  have key : ∀ p4 : LP, BT.Inv p4 → p4.state ≤ 2 → GQ S bd ls p4 → StQ S bd ls q p4.consumeLine := by
    intro p4 i4 s4 g4
    have cl := consumeLine_post p4 i4.cur
    have g5 := g4.of_fr (fr_consumeLine p4)
    generalize p4.consumeLine = p5 at cl g5
    have s5 := cl.st s4
    exact ⟨g5, fun h2 => absurd s5 h2⟩
  split
  · rename_i hcond
    simp only [Bool.and_eq_true, decide_eq_true_eq] at hcond
    obtain ⟨⟨hc1, hc2⟩, hc3⟩ := hcond
    obtain ⟨hb1, hb2, hb3⟩ := hb hc1 hc2
    have ad := advance_post p3 fc.infoStart.toNat i3.cur (by rw [e3i, e3l, ci.line]; omega)
    have g4 := g3.of_fr (fr_advance p3 fc.infoStart.toNat)
    generalize p3.advance fc.infoStart.toNat = p4 at ad g4
    have i4 := ad.inv i3
    have s4 := ad.st s3.2
    have k4 : p4.containerKind = BK.fencedCode := by rw [ad.ckind, k3]
    have co := collectInline_post x p4 IK.infoString (fc.infoEnd - fc.infoStart).toNat i4 (by omega) (by
      have hdrop4 : p4.line.getD p4.i 0 = q.bytesAfterIndent.getD fc.infoStart.toNat 0 := by
        rw [ad.i, ad.line, e3i, e3l]; exact getD_of_drop p1 _ _ hdrop
      have hind4 : p4.indent = 0 := indent_zero_of_getD p4 (by rw [hdrop4]; exact hb2) (by rw [hdrop4]; exact hb3)
      rw [ciSkip_zero p4 hind4, ad.i, ad.line, e3i, e3l, ci.line]; omega)
    have g5 := collectInline_GQ x p4 IK.infoString (fc.infoEnd - fc.infoStart).toNat
      (Free.of_kind (by rw [k4]; decide) (by rw [k4]; decide) (by rw [k4]; decide)) g4
    generalize p4.collectInline x IK.infoString (fc.infoEnd - fc.infoStart).toNat = p5 at co g5
    have s5 := co.st s4.2
    exact key p5 co.inv s5.2.1 g5
  · exact key p3 i3 s3.2 g3

/-! ### HTML block -/

theorem htmlStartLoop_q (x : PExt) (line : Bytes) : ∀ (fuel i : Nat) (q : LP),
    BT.Inv q → q.state = 0 → GQ S bd ls q → StQ S bd ls q (htmlStartLoop x line fuel i q) := by
  intro fuel
  induction fuel with
  | zero => intro i q h hs hg; exact StQ.refl hg
  | succ fuel ih =>
    intro i q h hs hg
    unfold htmlStartLoop
    split
    · exact StQ.refl hg
    split
    · split
      · exact StQ.refl hg
      have ob := openBlock_inv x q BK.htmlBlock (fun l => { l with n := i }) (fun _ => rfl) h (by omega) (Or.inl (by decide))
      have g2 := openBlock_GQ x q BK.htmlBlock (fun l => { l with n := i }) (fun _ => rfl) kind_html_ne hg
      simp only []
      generalize q.openBlock x BK.htmlBlock (fun l => { l with n := i }) = p2 at ob g2
      have i2 := ob.inv h
      have s2 : p2.state = 1 := by rw [ob.state, hs]; rfl
      have k2 : p2.containerKind = BK.htmlBlock := ob.ckind
      split
      · have co := collectInline_post x p2 IK.rawHTML p2.bytesAfterIndent.length i2 (by omega) (by
          rw [ciSkip_bai p2 i2.cur]; exact Nat.le_refl _)
        have g4 := collectInline_GQ x p2 IK.rawHTML p2.bytesAfterIndent.length
          (Free.of_kind (by rw [k2]; decide) (by rw [k2]; decide) (by rw [k2]; decide)) g2
        generalize p2.collectInline x IK.rawHTML p2.bytesAfterIndent.length = p4 at co g4
        have s4 := co.st (by omega)
        have cl := consumeLine_post p4 co.inv.cur
        have g5 := g4.of_fr (fr_consumeLine p4)
        generalize p4.consumeLine = p5 at cl g5
        have i5 := cl.inv co.inv
        have s5 := cl.st s4.2.1
        have eb := endBlock_inv x p5 i5 (by omega)
        have g6 := endBlock_GQ x p5 g5
        generalize p5.endBlock x = p6 at eb g6
        have s6 : p6.state = 2 := by rw [eb.state, s5]; rfl
        exact ⟨g6, fun h2 => absurd s6 h2⟩
      · exact ⟨g2, fun _ hq => hq.of_cur ob.cur⟩
    · exact ih (i + 1) q h hs hg

theorem startHTML_q (x : PExt) (q : LP) (h : BT.Inv q) (hs : q.state = 0) (hg : GQ S bd ls q) :
    StQ S bd ls q (startHTML x q) := by
  unfold startHTML
  simp only []
  split
  · exact StQ.refl hg
  split
  · exact StQ.refl hg
  exact htmlStartLoop_q x _ 8 0 q h hs hg

/-! ### indented code block -/

theorem startIndentedCode_q (x : PExt) (q : LP) (h : BT.Inv q) (hs : q.state = 0) (hg : GQ S bd ls q) :
    StQ S bd ls q (startIndentedCode x q) := by
  unfold startIndentedCode
  split
  · exact StQ.refl hg
  rename_i hc
  simp only [Bool.or_eq_true, decide_eq_true_eq, not_or, Nat.not_lt] at hc
  have hind : codeBlockIndentLimit ≤ q.indent := hc.1.1
  simp only []
  have ci := consumeIndentN_post q codeBlockIndentLimit h.cur hind
  have g1 := hg.of_fr (fr_consumeIndentN q codeBlockIndentLimit)
  have n1 : NoTickPref q → NoTickPref (q.consumeIndentN codeBlockIndentLimit) := NoTickPref.ci h.cur ci
  generalize q.consumeIndentN codeBlockIndentLimit = p1 at ci g1 n1
  have i1 := ci.inv h
  have s1 : p1.state = 1 := by rw [ci.state, hs]; rfl
  have ob := openBlock_inv x p1 BK.indentedCode id id_kind i1 (by omega) (Or.inl (by decide))
  have g2 := openBlock_GQ x p1 BK.indentedCode id id_kind kind_ic_ne g1
  generalize p1.openBlock x BK.indentedCode = p2 at ob g2
  exact ⟨g2, fun _ hq => (n1 hq).of_cur ob.cur⟩

end CM.Proofs.PSh
