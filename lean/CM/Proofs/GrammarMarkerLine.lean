import CM.Proofs.GrammarMarkerList
import CM.Proofs.GrammarLooseLine
/-
C05, block half — the list marker of an item: `ruleMatch`, `descendLoop`, `tryStarts`, `openingLoop`, `openNewBlocks`,
`addLineText`, `processLine` keep `PBMark src` of the root, for every `src` of which the line being processed is the suffix
at `lineStart`.
-/
namespace CM.Proofs.GM
open CM CM.Model CM.Gen
open CM.Proofs.BT CM.Proofs.BG CM.Proofs.GL

/-- The working invariant: `GI`, the marker invariant, and the line is `src[lineStart:]`. -/
structure MI (src : Bytes) (p : LP) : Prop where
  gi : GI p
  mt : MT src p
  fr : p.line = src.drop p.lineStart

theorem MI.setDepth {src : Bytes} {p : LP} (h : MI src p) (d : Nat) (hd : d ≤ p.depth) : MI src { p with depth := d } :=
  ⟨h.gi.setDepth d hd, h.mt, h.fr⟩
theorem MI.setState {src : Bytes} {p : LP} (h : MI src p) (s : Nat) : MI src { p with state := s } :=
  ⟨h.gi.setState s, h.mt, h.fr⟩

/-! ### ruleMatch -/

theorem ruleMatch_MT {src : Bytes} (x : PExt) (kind : Nat) (p : LP) (h : GI p) (hl : MT src p) (hs : p.state = 3) (hk : p.containerKind = kind)
    (ok : Bool) (p' : LP) (hrm : ruleMatch x kind p = some (ok, p')) : MT src p' := by
  unfold ruleMatch at hrm
  split at hrm
  · simp only [Option.some.injEq, Prod.mk.injEq] at hrm; obtain ⟨_, rfl⟩ := hrm; exact hl
  split at hrm
  · split at hrm
    · split at hrm
      · simp only [Option.some.injEq, Prod.mk.injEq] at hrm; obtain ⟨_, rfl⟩ := hrm; exact hl
      · simp only [Option.some.injEq, Prod.mk.injEq] at hrm; obtain ⟨_, rfl⟩ := hrm; exact hl.consumeIndentN _
    · split at hrm
      · split at hrm
        · simp only [Option.some.injEq, Prod.mk.injEq] at hrm; obtain ⟨_, rfl⟩ := hrm; exact hl.consumeIndentN _
        · simp only [Option.some.injEq, Prod.mk.injEq] at hrm; obtain ⟨_, rfl⟩ := hrm; exact hl
      · simp only [Option.some.injEq, Prod.mk.injEq] at hrm; obtain ⟨_, rfl⟩ := hrm; exact hl
  split at hrm
  · simp only [] at hrm
    split at hrm
    · simp only [Option.some.injEq, Prod.mk.injEq] at hrm; obtain ⟨_, rfl⟩ := hrm; exact hl
    split at hrm
    · simp only [Option.some.injEq, Prod.mk.injEq] at hrm; obtain ⟨_, rfl⟩ := hrm; exact hl
    simp only [Option.some.injEq, Prod.mk.injEq] at hrm; obtain ⟨_, rfl⟩ := hrm
    split
    · exact ((hl.consumeIndentN _).advance _).consumeIndentN _
    · exact (hl.consumeIndentN _).advance _
  split at hrm
  · simp only [] at hrm
    split at hrm
    · simp only [Option.some.injEq, Prod.mk.injEq] at hrm; obtain ⟨_, rfl⟩ := hrm
      exact hl.consumeLine
    · simp only [Option.some.injEq, Prod.mk.injEq] at hrm; obtain ⟨_, rfl⟩ := hrm
      split
      · exact hl.consumeIndentN _
      · exact hl.consumeIndentN _
  split at hrm
  · simp only [] at hrm
    split at hrm
    · split at hrm
      · simp only [Option.some.injEq, Prod.mk.injEq] at hrm; obtain ⟨_, rfl⟩ := hrm; exact hl
      · simp only [Option.some.injEq, Prod.mk.injEq] at hrm; obtain ⟨_, rfl⟩ := hrm; exact hl.consumeIndentN _
    · simp only [Option.some.injEq, Prod.mk.injEq] at hrm; obtain ⟨_, rfl⟩ := hrm; exact hl.consumeIndentN _
  split at hrm
  · rename_i hkind
    have hk7 : p.containerKind = BK.htmlBlock := by rw [hk]; simpa using hkind
    split at hrm
    · split at hrm
      · simp only [Option.some.injEq, Prod.mk.injEq] at hrm; obtain ⟨_, rfl⟩ := hrm; exact hl
      · simp only [Option.some.injEq, Prod.mk.injEq] at hrm; obtain ⟨_, rfl⟩ := hrm
        apply MT.consumeLine
        exact collectInline_MT_free x p IK.rawHTML _ htmlKinds h.inv.tree h.g hl (by omega) (by rw [hk7]; rfl) (by rfl)
    · simp only [Option.some.injEq, Prod.mk.injEq] at hrm; obtain ⟨_, rfl⟩ := hrm; exact hl
  split at hrm
  · simp only [Option.some.injEq, Prod.mk.injEq] at hrm; obtain ⟨_, rfl⟩ := hrm; exact hl
  · cases hrm


/-! ### descendLoop -/

theorem descendLoop_MI {src : Bytes} (x : PExt) : ∀ (fuel : Nat) (p : LP) (parent : Nat), MI src { p with depth := parent } →
    MI src (descendLoop x fuel p parent).2 := by
  intro fuel
  induction fuel with
  | zero => intro p parent h; exact h
  | succ fuel ih =>
    intro p parent hh
    have h := hh.gi
    unfold descendLoop
    split
    · exact hh
    rename_i c hc
    split
    · exact hh
    simp only []
    have h1 : GI { p with depth := parent + 1 } :=
      ⟨⟨h.inv.panic, ⟨h.inv.cur.hi, h.inv.cur.htab⟩, ⟨h.inv.tree.root, by show (spineGet p.root (parent + 1)).isSome; rw [hc]; rfl⟩⟩, h.g⟩
    have l1 : MT src { p with depth := parent + 1 } := hh.mt
    split
    · exact hh
    · rename_i ok p2 hrm
      have hck : ({ ({ p with depth := parent + 1 } : LP) with state := stateDescending } : LP).containerKind = c.kind := by
        show PB.kind ((spineGet p.root (parent + 1)).getD p.root) = c.kind
        rw [hc]; rfl
      have rm := ruleMatch_post x c.kind _ (h1.inv.setState stateDescending) rfl ok p2 hrm
      have rmG := ruleMatch_G x c.kind _ (h1.setState stateDescending) rfl hck ok p2 hrm
      have rmL := ruleMatch_MT (src := src) x c.kind _ (h1.setState stateDescending) l1 rfl hck ok p2 hrm
      have rls : p2.lineStart = ({ ({ p with depth := parent + 1 } : LP) with state := stateDescending } : LP).lineStart :=
        ruleMatch_ls x c.kind _ hrm
      have rln : p2.line = ({ ({ p with depth := parent + 1 } : LP) with state := stateDescending } : LP).line :=
        ruleMatch_ln x c.kind _ hrm
      have d2 : p2.depth = parent + 1 := rm.depth
      have g2 : MI src p2 := ⟨⟨rm.inv, rmG⟩, rmL, by rw [rln, rls]; exact hh.fr⟩
      split
      · have cc := closeContainer_post x p2 (↑p2.lineStart + ↑p2.i) rm.inv.tree
        have ccG := closeContainer_G x p2 (↑p2.lineStart + ↑p2.i) rmG
        have ccL := closeContainer_MT (src := src) x p2 (↑p2.lineStart + ↑p2.i) rmG rmL
        have g3 : MI src (p2.closeContainer x (↑p2.lineStart + ↑p2.i)) :=
          ⟨⟨cc.inv rm.inv, ccG⟩, ccL, by rw [closeContainer_ln, closeContainer_ls]; exact g2.fr⟩
        exact g3.setDepth parent (by rw [cc.depth, d2]; omega)
      · split
        · exact g2.setDepth parent (by omega)
        · apply ih
          exact g2.setDepth (parent + 1) (by omega)

theorem descendOpenBlocks_MI {src : Bytes} (x : PExt) (p : LP) (h : MI src p) : MI src (descendOpenBlocks x p).2 :=
  descendLoop_MI x _ p 0 (h.setDepth 0 (Nat.zero_le _))

/-! ### tryStarts, openingLoop -/

theorem blockStartFns_MT {src : Bytes} (x : PExt) : ∀ f ∈ blockStartFns x, ∀ q, MI src q → q.state = 0 → MT src (f q) := by
  intro f hf q h hs
  simp only [blockStartFns, List.mem_cons, List.mem_nil_iff, or_false] at hf
  rcases hf with rfl | rfl | rfl | rfl | rfl | rfl | rfl | rfl
  · exact startBlockQuote_MT x q h.gi h.mt hs
  · exact startATX_MT x q h.gi h.mt hs
  · exact startFenced_MT x q h.gi h.mt hs
  · exact startHTML_MT x q h.gi h.mt hs
  · exact startSetext_MT x q h.gi h.mt hs
  · exact startThematicBreak_MT x q h.gi h.mt hs
  · exact startListItem_MT x q h.gi h.mt hs h.fr
  · exact startIndentedCode_MT x q h.gi h.mt hs

theorem blockStartFns_MI {src : Bytes} (x : PExt) : ∀ f ∈ blockStartFns x, ∀ q, MI src q → q.state = 0 →
    SPost q (f q) ∧ MI src (f q) := by
  intro f hf q h hs
  have a := blockStartFns_G x f hf q h.gi hs
  refine ⟨a.1, ⟨⟨a.1.inv, a.2⟩, blockStartFns_MT x f hf q h hs, ?_⟩⟩
  rw [blockStarts_ln x f hf, blockStarts_ls x f hf]
  exact h.fr

theorem tryStarts_MI {src : Bytes} : ∀ (fs : List (LP → LP)),
    (∀ f ∈ fs, ∀ q, MI src q → q.state = 0 → SPost q (f q) ∧ MI src (f q)) → ∀ p, MI src p → MI src (tryStarts fs p) := by
  intro fs
  induction fs with
  | nil => intro _ p h; exact h
  | cons f rest ih =>
    intro hf p h
    unfold tryStarts
    simp only []
    have sp := hf f (List.mem_cons_self ..) { p with state := stateOpening } (h.setState _) rfl
    generalize f { p with state := stateOpening } = p' at sp
    split
    · exact sp.2
    · exact ih (fun g hg => hf g (List.mem_cons_of_mem _ hg)) p' sp.2

theorem openingLoop_MI {src : Bytes} (x : PExt) : ∀ (fuel : Nat) (p : LP), MI src p → MI src (openingLoop x fuel p).2 := by
  intro fuel
  induction fuel with
  | zero => intro p h; exact h
  | succ fuel ih =>
    intro p h
    unfold openingLoop
    split
    · exact h
    · have ts := tryStarts_MI _ (blockStartFns_MI x) p h
      simp only []
      generalize tryStarts (blockStartFns x) p = p' at ts
      split
      · exact ih p' ts
      · split
        · exact ts
        · exact ts

/-! ### openNewBlocks -/

theorem openNewBlocks_MT {src : Bytes} (x : PExt) (p : LP) (allMatched : Bool) (h : MI src p) :
    MT src (openNewBlocks x p allMatched).2 := by
  unfold openNewBlocks
  split
  · exact closeContainer_MT x _ _ h.gi.g h.mt
  · have ol := openingLoop_MI x (p.line.length + 8) p h
    generalize openingLoop x (p.line.length + 8) p = r at ol
    obtain ⟨hasText, q⟩ := r
    simp only [] at ol ⊢
    split
    · exact ol.mt
    · split
      · exact ol.mt
      · exact closeLastChild_MT x q _ ol.gi.g ol.mt

/-! ### addLineText -/

theorem blankFn_M {src : Bytes} (c : PB) (hG : PBGrammar c) (h : PBMark src c) :
    PBMark src ((fun b => match b with
      | PB.mk l bs is => match bs.getLast? with
        | some c => PB.mk l (bs.dropLast ++ [c.setLabel fun cl => { cl with lastLineBlank := true }]) is
        | none => PB.mk l bs is) c) ∧
    MRes c [(fun b => match b with
      | PB.mk l bs is => match bs.getLast? with
        | some c => PB.mk l (bs.dropLast ++ [c.setLabel fun cl => { cl with lastLineBlank := true }]) is
        | none => PB.mk l bs is) c] := by
  obtain ⟨l, bs, is⟩ := c
  simp only []
  cases hgl : bs.getLast? with
  | none => exact ⟨h, MRes.refl _⟩
  | some c0 =>
    simp only []
    have hc0 : PBMark src c0 := ((PBMark_mk src l bs is).1 h).2 c0 (List.mem_of_getLast? hgl)
    have r := setLabel_M (src := src) (f := fun cl => { cl with lastLineBlank := true }) (fun _ => rfl) (fun _ => rfl)
      (fun _ => rfl) (fun _ => rfl) c0 hc0
    refine ⟨PBM_replaceLast hG h hgl r.2 ?_, MRes.same rfl rfl rfl⟩
    intro c' hc'
    simp only [List.mem_singleton] at hc'
    subst hc'
    exact r.1

theorem altBlank_MT {src : Bytes} (p : LP) (hG : PBGrammar p.root) (h : MT src p) : MT src (BT.altBlank p) := by
  unfold BT.altBlank
  split
  · exact (PBM_spineModify _ p.depth p.root (fun c _ hcG hc => blankFn_M c hcG hc) hG h).1
  · exact h

theorem altFlags_MT {src : Bytes} (b : Bool) (p : LP) (hG : PBGrammar p.root) (h : MT src p) : MT src (BT.altFlags b p) := by
  unfold BT.altFlags
  simp only []
  exact (PBM_setBlankFlags _ p.depth p.root hG h).1

theorem altCont_MT {src : Bytes} (x : PExt) (b : Bool) (p : LP) (h : GI p) (hm : MT src p)
    (hs : acceptsLines p.containerKind = false → p.state ≤ 2) (q : LP) (hq : BT.altCont x b p = some q) : MT src q := by
  unfold BT.altCont at hq
  simp only [] at hq
  split at hq
  · split at hq
    · simp only [Option.some.injEq] at hq
      subst hq
      exact (appendInline_MT p _ h.inv.tree h.g hm).consumeIndentN _
    · simp only [Option.some.injEq] at hq
      subst hq
      exact hm
  · split at hq
    · simp only [Option.some.injEq] at hq
      subst hq
      rename_i hna _
      have hna' : acceptsLines p.containerKind = false := by simpa using hna
      exact (openBlock_MT x p BK.paragraph id h.inv.tree h.g hm (hs hna') (by decide) (fun _ => rfl)
        (fun _ => rfl)).consumeIndentN _
    · cases hq

theorem altTail_MT {src : Bytes} (q : LP) (hT : TreeOK q) (hG : PBGrammar q.root) (hacc : acceptsLines q.containerKind = true)
    (h : MT src q) : MT src (BT.altTail q) := by
  unfold BT.altTail
  simp only []
  obtain ⟨ks, hf, _, htk, _⟩ := acceptsLines_free _ hacc
  have g1 : PBGrammar (q.appendInline (mkInline (textKind q.containerKind) (q.lineStart + q.i) (q.lineStart + q.line.length))).root := by
    apply appendInline_G_free q _ ks hT hG hf
    simpa [inl, mkInline, Tree.label, Tree.children] using htk
  have e : (if (q.containerKind == BK.indentedCode || q.containerKind == BK.fencedCode) = true then IK.text
      else if (q.containerKind == BK.htmlBlock) = true then IK.rawHTML else IK.unparsed) = textKind q.containerKind := rfl
  rw [e]
  have l1 := appendInline_MT q (mkInline (textKind q.containerKind) (q.lineStart + q.i) (q.lineStart + q.line.length)) hT hG h
  split
  · exact appendInline_MT _ _ (appendInline_ok q _ hT) g1 l1
  · exact l1

theorem addLineText_MT {src : Bytes} (x : PExt) (p : LP) (h : GI p) (hm : MT src p)
    (hs : acceptsLines p.containerKind = false → p.state ≤ 2) : MT src (addLineText x p) := by
  rw [BT.addLineText_eq]
  have a := BT.altBlank_step p h.inv
  have aG := BG.altBlank_G p h.g
  have aL := altBlank_MT p h.g hm
  have b := BT.altFlags_step p.isRestBlank (BT.altBlank p) a.inv
  have bG := BG.altFlags_G p.isRestBlank (BT.altBlank p) aG
  have bL := altFlags_MT p.isRestBlank (BT.altBlank p) aG aL
  generalize BT.altFlags p.isRestBlank (BT.altBlank p) = pB at b bG bL
  have kB : pB.containerKind = p.containerKind := by rw [b.ckind, a.ckind]
  have sB : pB.state = p.state := by rw [b.state, a.state]
  split
  · exact bL
  · rename_i q hq
    obtain ⟨hT, hG, hacc⟩ := BG.altCont_G x _ pB ⟨b.inv, bG⟩ (by rw [kB, sB]; exact hs) q hq
    have qL := altCont_MT x _ pB ⟨b.inv, bG⟩ bL (by rw [kB, sB]; exact hs) q hq
    exact altTail_MT q hT hG hacc qL

/-! ### processLine -/

/-- **One line through the line parser keeps the marker invariant**, for every `src` of which the line is the suffix at
    `lineStart`. -/
theorem processLine_MT {src : Bytes} (x : PExt) (p : LP) (h : GI p) (hm : PBMark src p.root) (hfr : p.line = src.drop p.lineStart) :
    PBMark src (processLine x p).root := by
  unfold processLine
  have d : MI src (descendOpenBlocks x p).2 := descendOpenBlocks_MI x p ⟨h, hm, hfr⟩
  generalize descendOpenBlocks x p = r at d
  obtain ⟨allMatched, p1⟩ := r
  simp only [] at d ⊢
  split
  · exact d.mt
  · have o := openNewBlocks_post x p1 allMatched d.gi.inv
    have oG := openNewBlocks_G x p1 allMatched d.gi
    have oL := openNewBlocks_MT x p1 allMatched d
    generalize openNewBlocks x p1 allMatched = r2 at o oG oL
    obtain ⟨hasText, p2⟩ := r2
    simp only [] at o oG oL ⊢
    split
    · rename_i ht
      exact addLineText_MT x p2 ⟨o.inv, oG⟩ oL (o.st ht)
    · exact oL

end CM.Proofs.GM
