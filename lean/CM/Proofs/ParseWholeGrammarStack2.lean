import CM.Proofs.ParseWholeGrammarStack
/-
C05, inline half — the delimiter-stack discipline under `removeNode` and `wrap` (pure part).
-/
namespace CM.Proofs.InlH
open CM CM.Model CM.Model.Inl CM.Spec

theorem getElem?_lt {N : List Nat} {idx x : Nat} (hx : N[idx]? = some x) : idx < N.length := by
  rcases Nat.lt_or_ge idx N.length with h | h
  · exact h
  · rw [List.getElem?_eq_none h] at hx; cases hx

theorem list_split_at {N : List Nat} {idx x : Nat} (hx : N[idx]? = some x) :
    N = N.take idx ++ [x] ++ N.drop (idx + 1) := by
  have hlt := getElem?_lt hx
  rw [List.getElem?_eq_getElem hlt] at hx
  have e : N[idx] = x := Option.some.inj hx
  conv => lhs; rw [← List.take_append_drop idx N, List.drop_eq_getElem_cons hlt, e]
  simp

theorem kids_modify_self (a : Array INode) {P : Nat} (hP : P < a.size) (g : INode → INode) :
    (a.modify P g)[P]! = g (a[P]!) := by
  rw [getElem!_pos _ P (by simpa using hP), getElem!_pos a P hP, Array.getElem_modify, if_pos rfl]

theorem kids_modify_other (a : Array INode) {P i : Nat} (hne : P ≠ i) (g : INode → INode) :
    (a.modify P g)[i]! = a[i]! := by
  by_cases hi : i < a.size
  · rw [getElem!_pos _ i (by simpa using hi), getElem!_pos a i hi, Array.getElem_modify, if_neg hne]
  · rw [getElem!_neg _ i (by simpa using hi), getElem!_neg a i hi]

theorem pm_set_other (pm : Array (Option Nat)) {x y : Nat} (v : Option Nat) (hne : x ≠ y) :
    ((pm.set! x v)[y]?).join = (pm[y]?).join := by
  rw [Array.set!_eq_setIfInBounds, Array.getElem?_setIfInBounds, if_neg hne]

/-- in a duplicate-free list, what lies before `si` or from `ei` on is not in the moved range -/
theorem not_mem_mvL {ks : List Nat} {si ei x : Nat} (hn : ks.Nodup) (hse : si ≤ ei)
    (hx : x ∈ ks.take si ∨ x ∈ ks.drop ei) : x ∉ mvL ks si ei := by
  have hsp := split3 ks hse
  rw [hsp, List.append_assoc, List.nodup_append] at hn
  have hn2 := List.nodup_append.1 hn.2.1
  intro hm
  rcases hx with hx | hx
  · exact hn.2.2 x hx x (List.mem_append_left _ hm) rfl
  · exact hn2.2.2 x hm x hx rfl

/-- `removeNode` of the node of an upper stack entry, followed by the deletion of the entry -/
theorem SOK.removeUpper {a : Array INode} {pm : Array (Option Nat)} {N : List Nat} {b P0 : Nat} (h : SOK a pm N b P0)
    (hA : AOK a) {idx x : Nat} (hb : b ≤ idx) (hx : N[idx]? = some x) :
    SOK (a.modify P0 (fun m => { m with kids := m.kids.filter (· != x) })) (pm.set! x none)
      (N.take idx ++ N.drop (idx + 1)) b P0 := by
  have hlt := getElem?_lt hx
  have hsplit := list_split_at hx
  have hP0 := h.p0
  have hs : KSame a (a.modify P0 (fun m => { m with kids := m.kids.filter (· != x) })) := KSame.modify _ _ (by intro _; rfl)
  have hksP : ((a.modify P0 (fun m => { m with kids := m.kids.filter (· != x) }))[P0]!).kids.toList =
      (a[P0]!).kids.toList.filter (· != x) := by
    rw [kids_modify_self a hP0]; simp
  have hnd : (a[P0]!).kids.toList.Nodup := (hA.get! hP0).2.1
  -- the upper list without `x`
  have hU : N.drop b = (N.take idx).drop b ++ [x] ++ N.drop (idx + 1) := by
    conv => lhs; rw [hsplit]
    rw [List.append_assoc, List.drop_append_of_le_length (by rw [List.length_take]; omega), List.append_assoc]
  have hUnd : (N.drop b).Nodup := List.Nodup.sublist h.upper hnd
  have hxU' : x ∉ (N.take idx).drop b ++ N.drop (idx + 1) := by
    rw [hU, List.append_assoc, List.nodup_append] at hUnd
    have h2 := List.nodup_append.1 hUnd.2.1
    intro hm
    rcases List.mem_append.1 hm with hm | hm
    · exact hUnd.2.2 x hm x (List.mem_append_left _ (List.mem_singleton.2 rfl)) rfl
    · exact h2.2.2 x (List.mem_singleton.2 rfl) x hm rfl
  have hU'sub : ((N.take idx).drop b ++ N.drop (idx + 1)).Sublist (N.drop b) := by
    rw [hU, List.append_assoc]
    exact (List.Sublist.refl _).append (List.sublist_append_right _ _)
  have htk : (N.take idx ++ N.drop (idx + 1)).take b = N.take b := by
    rw [List.take_append_of_le_length (by rw [List.length_take]; omega), List.take_take]
    congr 1; omega
  have hdr : (N.take idx ++ N.drop (idx + 1)).drop b = (N.take idx).drop b ++ N.drop (idx + 1) := by
    rw [List.drop_append_of_le_length (by rw [List.length_take]; omega)]
  have hxup : x ∈ N.drop b := by rw [hU]; simp
  have hN'sub : (N.take idx ++ N.drop (idx + 1)).Sublist N := by
    conv => rhs; rw [hsplit]
    rw [List.append_assoc]
    exact (List.Sublist.refl _).append (List.sublist_append_right _ _)
  -- `x` is not a lower node
  have hxlow : x ∉ N.take b := by
    intro hm
    by_cases hz : P0 = 0
    · rw [h.bz hz] at hm; simp at hm
    · have h1 := h.lowerP x hm
      have h2 := h.upperP x hxup
      rw [h1] at h2
      exact hz (Option.some.inj h2).symm
  exact {
    pmsz := by simpa using h.pmsz
    stk := fun y hy => by
      have := h.stk y (hN'sub.subset hy)
      exact ⟨by simpa using this.1, by rw [hs.2 y this.1]; exact this.2⟩
    p0 := by simpa using hP0
    p0k := by rw [hs.2 P0 hP0]; exact h.p0k
    bz := h.bz
    ble := by rw [List.length_append, List.length_take, List.length_drop]; omega
    lower := by
      rw [htk]
      by_cases hz : P0 = 0
      · rw [h.bz hz]; simp
      · rw [kids_modify_other a hz]; exact h.lower
    lowerP := by
      rw [htk]
      intro y hy
      rw [pm_set_other pm none (fun e : x = y => hxlow (by rw [e]; exact hy))]
      exact h.lowerP y hy
    upper := by
      rw [hdr, hksP, ← filter_ne_of_not_mem hxU']
      exact (hU'sub.trans h.upper).filter _
    upperP := by
      rw [hdr]
      intro y hy
      rw [pm_set_other pm none (fun e : x = y => hxU' (by rw [e]; exact hy))]
      exact h.upperP y (hU'sub.subset hy)
    disj := by
      rw [htk, hksP]
      intro hz y hy hm
      exact h.disj hz y hy (List.filter_sublist.subset hm) }

/-- what `wrap` does to `parentMap`, as far as it matters -/
structure WrapPM (a : Array INode) (pm pm' : Array (Option Nat)) (P si ei : Nat) : Prop where
  size : pm'.size = a.size + 1
  moved : ∀ k ∈ (wrapMoved a P si ei).toList, k < a.size → (pm'[k]?).join = some a.size
  other : ∀ k, k < a.size → k ∉ (wrapMoved a P si ei).toList → (pm'[k]?).join = (pm[k]?).join

/-- **`wrap` between an upper opener and an upper closer, followed by the deletion of the entries between them.** -/
theorem SOK.wrapEmph {a : Array INode} {pm pm' : Array (Option Nat)} {N : List Nat} {b P0 : Nat} (h : SOK a pm N b P0)
    (hA : AOK a) {oi cur o c si ei : Nat} (nd : INode) (hb : b ≤ oi) (hoc : oi < cur)
    (ho : N[oi]? = some o) (hc : N[cur]? = some c)
    (hsi : 1 ≤ si) (hso : (a[P0]!).kids.toList[si - 1]? = some o) (hse : si ≤ ei)
    (hne : ∀ j, si ≤ j → j < ei → (a[P0]!).kids.toList[j]? ≠ some c)
    (hpm : WrapPM a pm pm' P0 si ei) :
    SOK (wrapArena a nd P0 si ei) pm' (N.take (oi + 1) ++ N.drop cur) b P0 := by
  have hP0 := h.p0
  have hs := wrapArena_ksame a nd P0 si ei
  have hnd : (a[P0]!).kids.toList.Nodup := (hA.get! hP0).2.1
  have hcl := getElem?_lt hc
  -- decomposition of the upper list
  have hN1 := list_split_at ho
  have hN2 : N.drop (oi + 1) = (N.drop (oi + 1)).take (cur - oi - 1) ++ c :: N.drop (cur + 1) := by
    have hc' : (N.drop (oi + 1))[cur - oi - 1]? = some c := by
      rw [List.getElem?_drop]
      have : oi + 1 + (cur - oi - 1) = cur := by omega
      rw [this]; exact hc
    have := list_split_at hc'
    rw [List.drop_drop] at this
    have e : oi + 1 + (cur - oi - 1 + 1) = cur + 1 := by omega
    rw [e] at this
    rw [List.append_assoc] at this
    exact this
  have hU : N.drop b = (N.take oi).drop b ++ [o] ++ ((N.drop (oi + 1)).take (cur - oi - 1) ++ c :: N.drop (cur + 1)) := by
    conv => lhs; rw [hN1]
    rw [List.append_assoc, List.drop_append_of_le_length (by rw [List.length_take]; omega), List.append_assoc, ← hN2]
  have hdropcur : N.drop cur = c :: N.drop (cur + 1) := by
    have := list_split_at hc
    conv => lhs; rw [this]
    rw [List.append_assoc, List.drop_append_of_le_length (by rw [List.length_take]; omega)]
    have : (N.take cur).length = cur := by rw [List.length_take]; omega
    rw [List.drop_of_length_le (by omega)]
    simp
  have htake : N.take (oi + 1) = N.take oi ++ [o] := by
    have hol := getElem?_lt ho
    rw [List.take_add_one, ho]; rfl
  have hksP : ((wrapArena a nd P0 si ei)[P0]!).kids.toList = newPL (a[P0]!).kids.toList si ei a.size := by
    rw [wrapArena_P a nd P0 si ei hP0]
    show (wrapLeft a P0 si ei).toList = _
    unfold wrapLeft; rw [wrapP_toList]
  have hmvl : (wrapMoved a P0 si ei).toList = mvL (a[P0]!).kids.toList si ei := by
    unfold wrapMoved; rw [extract_toList]
  have hsubU : (N.drop b).Sublist (a[P0]!).kids.toList := h.upper
  rw [hU] at hsubU
  have hnewU := sublist_wrap (new := a.size) hnd hsubU hsi hso hse hne
  obtain ⟨hX, hY⟩ := sublist_split_at hnd hsubU hso
  have e1 : si - 1 + 1 = si := by omega
  rw [e1] at hX hY
  have hY2 : (c :: N.drop (cur + 1)).Sublist ((a[P0]!).kids.toList.drop ei) := by
    have h3 : (c :: N.drop (cur + 1)).Sublist ((a[P0]!).kids.toList.drop si) := (List.sublist_append_right _ _).trans hY
    have h4 := sublist_drop_head (ei - si) _ h3 (fun j hj => by
      rw [List.getElem?_drop]; exact hne (si + j) (by omega) (by omega))
    rw [List.drop_drop] at h4
    have e2 : si + (ei - si) = ei := by omega
    rw [e2] at h4
    exact h4
  have htk : (N.take (oi + 1) ++ N.drop cur).take b = N.take b := by
    rw [List.take_append_of_le_length (by rw [List.length_take]; omega), List.take_take]
    congr 1; omega
  have hdr : (N.take (oi + 1) ++ N.drop cur).drop b = (N.take oi).drop b ++ [o] ++ c :: N.drop (cur + 1) := by
    rw [List.drop_append_of_le_length (by rw [List.length_take]; omega), htake, hdropcur,
      List.drop_append_of_le_length (by rw [List.length_take]; omega)]
  have hN'sub : (N.take (oi + 1) ++ N.drop cur).Sublist N := by
    conv => rhs; rw [← List.take_append_drop (oi + 1) N]
    exact (List.Sublist.refl _).append (List.drop_sublist_drop_left N (by omega))
  -- the remaining upper nodes are not moved
  have hnotmoved : ∀ y ∈ (N.take oi).drop b ++ [o] ++ c :: N.drop (cur + 1), y ∉ (wrapMoved a P0 si ei).toList := by
    intro y hy
    rw [hmvl]
    apply not_mem_mvL hnd hse
    rcases List.mem_append.1 hy with hy | hy
    · exact Or.inl (hX.subset hy)
    · exact Or.inr (hY2.subset hy)
  have hlownm : ∀ y ∈ N.take b, y ∉ (wrapMoved a P0 si ei).toList := by
    intro y hy hm
    rw [hmvl] at hm
    have hmem := (mvL_sublist _ _ _).subset hm
    by_cases hz : P0 = 0
    · rw [h.bz hz] at hy; simp at hy
    · exact h.disj hz y hy hmem
  exact {
    pmsz := by rw [hpm.size, wrapArena_size]
    stk := fun y hy => by
      have := h.stk y (hN'sub.subset hy)
      exact ⟨Nat.lt_of_lt_of_le this.1 hs.1, by rw [hs.2 y this.1]; exact this.2⟩
    p0 := Nat.lt_of_lt_of_le hP0 hs.1
    p0k := by rw [hs.2 P0 hP0]; exact h.p0k
    bz := h.bz
    ble := by rw [List.length_append, List.length_take, List.length_drop]; omega
    lower := by
      rw [htk]
      by_cases hz : P0 = 0
      · rw [h.bz hz]; simp
      · rw [wrapArena_other a nd P0 si ei 0 hA.pos (fun e => hz e.symm)]; exact h.lower
    lowerP := by
      rw [htk]
      intro y hy
      have hyN : y ∈ N := (List.take_sublist _ _).subset hy
      rw [hpm.other y (h.stk y hyN).1 (hlownm y hy)]
      exact h.lowerP y hy
    upper := by rw [hdr, hksP]; exact hnewU
    upperP := by
      rw [hdr]
      intro y hy
      have hyU : y ∈ N.drop b := by
        rw [hU]
        rcases List.mem_append.1 hy with hy | hy
        · exact List.mem_append_left _ hy
        · exact List.mem_append_right _ (List.mem_append_right _ hy)
      have hyN : y ∈ N := (List.drop_sublist _ _).subset hyU
      rw [hpm.other y (h.stk y hyN).1 (hnotmoved y hy)]
      exact h.upperP y hyU
    disj := by
      rw [htk, hksP]
      intro hz y hy hm
      unfold newPL at hm
      simp only [List.mem_append, List.mem_singleton] at hm
      rcases hm with (hm | hm) | hm
      · exact h.disj hz y hy ((List.take_sublist _ _).subset hm)
      · have := (h.stk y ((List.take_sublist _ _).subset hy)).1; omega
      · exact h.disj hz y hy ((List.drop_sublist _ _).subset hm) }

end CM.Proofs.InlH
