import CM.Proofs.BlocksLine
import CM.Model.Stream
/-
C05, block half — definitions.

`pbGrammar : PB → Bool` is the node grammar of the trees the block phase builds (`PB`, the block under
construction): which kinds of children each block kind has, and the ranges of the attributes.
`PBGrammar b := pbGrammar b = true`.

The local rule `localOK` looks at one block: its label, the kinds / delimiter characters of its block children,
and its inline children (kinds; leaves have no children; the children of an info string are Text / CharRef leaves,
those of a link label Text / Indent leaves, those of a link destination or title Text / CharRef / Indent leaves).
-/
namespace CM.Proofs
open CM CM.Model CM.Gen

namespace BG

/-! ### inline children -/

/-- An inline leaf whose kind is in `ks`. -/
def inl (ks : List Nat) (t : Tree) : Bool :=
  !t.label.isBlock && ks.contains t.label.kind && t.children.isEmpty

/-- An inline node of kind `k` (children unconstrained). -/
def isInl (k : Nat) (t : Tree) : Bool := !t.label.isBlock && t.label.kind == k

/-- An info string: its children are Text / CharacterReference leaves. -/
def infoOK (t : Tree) : Bool :=
  !t.label.isBlock && t.label.kind == IK.infoString && t.children.all (inl [IK.text, IK.charRef])

/-- Block-phase content of paragraphs and headings. -/
def paraKinds : List Nat := [IK.unparsed, IK.indent]
/-- Content of code blocks. -/
def codeKinds : List Nat := [IK.text, IK.indent, IK.softBreak]
/-- Content of HTML blocks. -/
def htmlKinds : List Nat := [IK.rawHTML, IK.indent]

/-- Fenced code: an optional info string first, then Text / Indent / SoftLineBreak. -/
def fencedKids : List Tree → Bool
  | [] => true
  | c :: rest => (infoOK c || inl codeKinds c) && rest.all (inl codeKinds)

/-- A LinkLabel whose children are Text / Indent leaves. -/
def labelOK (t : Tree) : Bool := isInl IK.linkLabel t && t.children.all (inl [IK.text, IK.indent])

/-- A LinkDestination / LinkTitle (kind `k`) whose children are Text / CharacterReference / Indent leaves. -/
def destOK (k : Nat) (t : Tree) : Bool := isInl k t && t.children.all (inl [IK.text, IK.charRef, IK.indent])

/-- Link reference definition: label, destination, optional title. -/
def refDefKids : List Tree → Bool
  | [a, b] => labelOK a && destOK IK.linkDest b
  | [a, b, c] => labelOK a && destOK IK.linkDest b && destOK IK.linkTitle c
  | _ => false

/-! ### block children -/

/-- The kinds a document, block quote or list item may contain (besides the item's marker):
    everything but list items, list markers and documents. -/
def cck (k : Nat) : Bool :=
  [BK.paragraph, BK.thematicBreak, BK.atxHeading, BK.setextHeading, BK.indentedCode, BK.fencedCode,
   BK.htmlBlock, BK.linkRefDef, BK.blockQuote, BK.list].contains k

/-- The five list delimiters `-`, `+`, `*`, `.`, `)`. -/
def isDelimChar (c : UInt8) : Bool := c == 0x2D || c == 0x2B || c == 0x2A || c == 0x2E || c == 0x29

/-- Children of a list item: the marker, then container content. -/
def itemKids : List PB → Bool
  | [] => false
  | m :: rest => m.kind == BK.listMarker && rest.all (fun c => cck c.kind)

/-- The grammar rule at one block, block children: documents and block quotes contain container content, a list item
    its marker and then container content, a list only list items with the list's delimiter (at least one); every
    other kind has no block children. -/
def blocksOK (l : PLabel) (bs : List PB) : Bool :=
  if l.kind == BK.document || l.kind == BK.blockQuote then bs.all (fun c => cck c.kind)
  else if l.kind == BK.listItem then isDelimChar l.char && itemKids bs
  else if l.kind == BK.list then
    isDelimChar l.char && !bs.isEmpty && bs.all (fun c => c.kind == BK.listItem && c.label.char == l.char)
  else bs.isEmpty

/-- The grammar rule at one block, inline children and attributes. Unknown kinds are rejected. -/
def inlinesOK (l : PLabel) (is : List Tree) : Bool :=
  if l.kind == BK.document || l.kind == BK.blockQuote || l.kind == BK.listItem || l.kind == BK.list
     || l.kind == BK.listMarker || l.kind == BK.thematicBreak then is.isEmpty
  else if l.kind == BK.paragraph then is.all (inl paraKinds)
  else if l.kind == BK.atxHeading then is.all (inl paraKinds) && decide (1 ≤ l.n) && decide (l.n ≤ 6)
  else if l.kind == BK.setextHeading then is.all (inl paraKinds) && decide (1 ≤ l.n) && decide (l.n ≤ 2)
  else if l.kind == BK.indentedCode then is.all (inl codeKinds)
  else if l.kind == BK.fencedCode then fencedKids is && decide (3 ≤ l.n) && (l.char == 0x60 || l.char == 0x7E)
  else if l.kind == BK.htmlBlock then is.all (inl htmlKinds) && decide (0 ≤ l.n) && decide (l.n ≤ 6)
  else if l.kind == BK.linkRefDef then refDefKids is
  else false

/-- The grammar rule at one block. -/
def localOK (l : PLabel) (bs : List PB) (is : List Tree) : Bool := blocksOK l bs && inlinesOK l is

end BG
open BG

mutual
/-- The node grammar of block-phase trees. -/
def pbGrammar : PB → Bool
  | .mk l bs is => localOK l bs is && pbGrammarL bs
def pbGrammarL : List PB → Bool
  | [] => true
  | b :: bs => pbGrammar b && pbGrammarL bs
end

/-- **The block-phase node grammar** as a proposition. -/
def PBGrammar (b : PB) : Prop := pbGrammar b = true

namespace BG

theorem pbGrammarL_iff (bs : List PB) : pbGrammarL bs = true ↔ ∀ b ∈ bs, PBGrammar b := by
  induction bs with
  | nil => simp [pbGrammarL]
  | cons b bs ih => simp [pbGrammarL, ih, PBGrammar]

theorem PBGrammar_mk (l : PLabel) (bs : List PB) (is : List Tree) :
    PBGrammar (.mk l bs is) ↔ localOK l bs is = true ∧ ∀ b ∈ bs, PBGrammar b := by
  unfold PBGrammar
  rw [pbGrammar, Bool.and_eq_true, pbGrammarL_iff]
  exact Iff.rfl

/-- Induction over `PB` (a nested inductive type). -/
theorem PB.ind {P : PB → Prop} (h : ∀ l bs is, (∀ c ∈ bs, P c) → P (.mk l bs is)) : ∀ b, P b
  | .mk l bs is => h l bs is (fun c _ => PB.ind h c)
termination_by b => sizeOf b
decreasing_by
  rename_i hc
  have := List.sizeOf_lt_of_mem hc
  simp_wf
  omega

end BG
end CM.Proofs
