import CM.Proofs.EolRd5
/-
C14 (a), the paragraph hook under the position map — part 6: `readEOL` (one line ending — LF, CR or CR LF — is one line
ending on both sides).
-/
namespace CM.Proofs.ERd
open CM CM.Model CM.Gen CM.Proofs CM.Proofs.RDS CM.Proofs.BSp

theorem mapPrev_succ (e X : Bytes) {p : Int} (h : -1 ≤ p) : mapPrev e X p + 1 = eolPosZ e X (p + 1) := by
  by_cases hp : p < 0
  · have : p = -1 := by omega
    subst this
    rw [mapPrev_neg e X (by omega)]
    show (0 : Int) = eolPosZ e X 0
    rw [show (0 : Int) = ((0 : Nat) : Int) from rfl, eolPosZ_ofNat, eolPos_zero]
  · obtain ⟨n, rfl⟩ : ∃ n : Nat, p = n := ⟨p.toNat, by omega⟩
    rw [mapPrev_nat]
    have : ((n : Int) + 1) = ((n + 1 : Nat) : Int) := by omega
    rw [this, eolPosZ_ofNat]
    omega

section
variable {e X : Bytes} {k : Nat} {is : List Tree} {r : Rd}

theorem dead_next {src : Bytes} (hc : Ctx src is) (h : RI src is r) (hcur : (r.current src).1 = LF)
    (hn : ¬ AtLF src r) : r.spans = [] := by
  cases hs : r.spans with
  | nil => rfl
  | cons t rest =>
    exfalso
    apply hn
    rw [current_live hc h hs] at hcur
    cases hi : isIndent t with
    | true => rw [hi] at hcur; simp only [if_true] at hcur; exact absurd hcur (by decide)
    | false =>
      rw [hi] at hcur
      simp only [Bool.false_eq_true, if_false] at hcur
      refine ⟨t, rest, hs, hi, ?_⟩
      split at hcur
      · exact absurd hcur (nullRepl_ne_LF _)
      · exact hcur

theorem readEOL_sim (he : StdEol e) (hcr : NoCR X) (hc : Ctx (X.take k) is) (htab : TabsOK (X.take k) is)
    (f f' : Nat) (r : Rd) (h : RJ (X.take k) is r) (hm : mu (X.take k) r < f)
    (hm' : mu (toEol e (X.take k)) (mapRd e X r) < f') :
    readEOL (toEol e (X.take k)) f' (mapRd e X r) =
      (eolPosZ e X (readEOL (X.take k) f r).1, mapRd e X (readEOL (X.take k) f r).2) ∧
    RJ (X.take k) is (readEOL (X.take k) f r).2 := by
  obtain ⟨a1, a2⟩ := skipSpacesAndTabs_sim he hcr hc htab f f' r h hm hm'
  unfold readEOL
  rw [a1]
  rcases hsst : skipSpacesAndTabs (X.take k) f r with ⟨ok, r0⟩
  rw [hsst] at a2
  simp only [] at a2 ⊢
  cases ok with
  | false =>
    simp only [Bool.not_false, if_true]
    refine ⟨Prod.ext ?_ rfl, a2⟩
    show ((eolPos e X r0.pos : Nat) : Int) = eolPosZ e X (r0.pos : Int)
    rw [eolPosZ_ofNat]
  | true =>
    simp only [Bool.not_true, Bool.false_eq_true, if_false]
    have hcur := a2.cur hc
    have hcur' := current_map_eq (e := e) he hcr hc htab a2.1
    have hnecr := cur_ne_CR hcr hc a2.1
    obtain ⟨j1, _, st⟩ := step_full he hcr hc htab a2
    have hpg := next_prev_ge hc a2.1
    rw [hcur, hcur']
    simp only []
    generalize hcv : (r0.current (X.take k)).1 = c at hcur hcur' hnecr st
    have hccr : (c == CR) = false := by simpa using hnecr
    rw [hccr]
    simp only [Bool.false_eq_true, if_false]
    rcases hn : r0.next (X.take k) with ⟨ok1, r1⟩
    rw [hn] at j1 st hpg
    simp only [] at j1 st hpg
    by_cases hlf : c = LF
    · subst hlf
      simp only [beq_self_eq_true, if_true]
      have hval : ((mapRd e X r1).prev + 1 : Int) = eolPosZ e X (r1.prev + 1) := mapPrev_succ e X hpg
      rcases he with hE | hE | hE
      · -- e = LF
        subst hE
        have htr : trB [LF] LF = LF := rfl
        rw [htr]
        simp only [beq_self_eq_true, if_true, show (LF == CR) = false by decide, Bool.false_eq_true, if_false]
        rcases st with ⟨s, _⟩ | ⟨_, s2, _⟩
        · rw [s]; exact ⟨Prod.ext hval rfl, j1⟩
        · cases s2
      · -- e = CR
        subst hE
        have htr : trB [CR] LF = CR := rfl
        rw [htr]
        simp only [beq_self_eq_true, if_true]
        rcases st with ⟨s, _⟩ | ⟨_, s2, _⟩
        · rw [s]
          simp only []
          cases ok1 with
          | false => exact ⟨Prod.ext hval rfl, j1⟩
          | true =>
            simp only [Bool.not_true, Bool.false_eq_true, if_false]
            rw [current_map_eq (e := [CR]) (Or.inr (Or.inl rfl)) hcr hc htab j1.1]
            simp only []
            have : (trB [CR] (r1.current (X.take k)).1 == LF) = false := by
              unfold trB
              split
              · decide
              · rename_i hne; simpa using hne
            rw [this]
            exact ⟨Prod.ext hval rfl, j1⟩
        · cases s2
      · -- e = CR LF
        subst hE
        have htr : trB [CR, LF] LF = CR := rfl
        rw [htr]
        simp only [beq_self_eq_true, if_true]
        rcases st with ⟨s, _⟩ | ⟨_, _, s3, _, s5, s6, _⟩
        · -- no CR LF step: the reader is dead
          have hdead : r0.spans = [] := by
            apply dead_next hc a2.1 hcv
            intro hat
            have hs3 := (next_stutter hcr hc htab a2.1 a2.2.1 hat).1
            rw [s] at hs3
            have : ok1 = true := by
              have := congrArg Prod.fst hs3; exact this
            subst this
            have h2 := congrArg (fun q : Bool × Rd => q.2.pos) hs3
            have hpos : (mapRd [CR, LF] X r1).pos = eolPos [CR, LF] X r0.pos + 1 := h2
            obtain ⟨t, rest, hs, hi, hb⟩ := hat
            have hp := RI.pos_lt hc a2.1 hs
            have hph : eolPos [CR, LF] X (r0.pos + 1) = eolPos [CR, LF] X r0.pos + 2 :=
              eolPos_succ_lf (Or.inr (Or.inr rfl)) hp hb
            have hmono : r0.pos ≤ r1.pos := next_mono hc a2.1 hn
            have hpos' : eolPos [CR, LF] X r1.pos = eolPos [CR, LF] X r0.pos + 1 := hpos
            rcases Nat.lt_or_ge r0.pos r1.pos with hlt | hge
            · have := eolPos_mono [CR, LF] X (show r0.pos + 1 ≤ r1.pos by omega)
              omega
            · have : r1.pos = r0.pos := by omega
              rw [this] at hpos'; omega
          have hnd := next_dead hc a2.1 hdead
          rw [hn] at hnd
          simp only [Prod.mk.injEq] at hnd
          obtain ⟨rfl, rfl⟩ := hnd
          rw [s]
          exact ⟨Prod.ext hval rfl, j1⟩
        · rw [s3]
          simp only [Bool.not_true, Bool.false_eq_true, if_false]
          rw [s5]
          simp only [beq_self_eq_true, if_true]
          rw [s6]
          exact ⟨Prod.ext hval rfl, j1⟩
    · have hclf : (c == LF) = false := by simpa using hlf
      have htr : trB e c = c := by unfold trB; rw [if_neg hlf]
      rw [htr, hccr, hclf]
      simp only [Bool.false_eq_true, if_false]
      refine ⟨Prod.ext ?_ rfl, a2⟩
      show (-1 : Int) = eolPosZ e X (-1)
      rw [eolPosZ_neg e X (by omega)]

end

end CM.Proofs.ERd
