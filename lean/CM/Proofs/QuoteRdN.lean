import CM.Proofs.QuoteRdM
import CM.Proofs.RefDefSpansClose
/-
C09, `onCloseParagraph` with `[` (14): **`refDefLoop` and `onCloseParagraph` on both sides** (`closePara_good`): if the
inline children of the two paragraphs are related lines (`PC`), the blocks that replace the paragraphs are related —
link reference definitions with related label / destination / title children (`KidR`), the remaining paragraph, and
the orphan paragraph of a setext heading (whose relation is a hypothesis here: it depends on the underline).
-/
namespace CM.Proofs.Quote
open CM CM.Model CM.Gen

variable {E : Env}

/-- **`refDefLoop`** on both sides. -/
theorem refDefLoop_sim (x : PExt) (HD : DRIntro E) {orphan orphan' : Option PB} (ho : OR (BR E) orphan orphan') :
    ∀ fuel : Nat, LoopIH x E orphan orphan' fuel := by
  intro fuel
  induction fuel with
  | zero =>
    intro is is' r r' l l' result result' h _ _ hres
    rw [refDefLoop, refDefLoop]
    exact hres.concat (br_para h.lr h.kind h.ir)
  | succ fuel ih =>
    intro is is' r r' l l' result result' h hr hlive hres
    have hc := h.pc
    have hF : rdFuel E.src is ≤ rdFuel E.src is := Nat.le_refl _
    have hF' : rdFuel E.src' is' ≤ rdFuel E.src' is' := Nat.le_refl _
    have giveUp : L2 (BR E) (result ++ [PB.mk l [] is]) (result' ++ [PB.mk l' [] is']) :=
      hres.concat (br_para h.lr h.kind h.ir)
    rw [refDefLoop_succ, refDefLoop_succ]
    obtain ⟨lab, lab', r1, r1', p1, p2, hcase⟩ := parseLinkLabel_sim hc _ _ r r' hr (safe_of_live hlive) hF hF'
    rw [p1, p2]
    simp only []
    rcases hcase with ⟨v1, v2⟩ | ⟨hlr, hr1, hs1, _, _, _⟩
    · simp only [v1, v2, Bool.not_false, if_true]; exact giveUp
    simp only [hlr.valid, hlr.valid', Bool.not_true, Bool.false_eq_true, if_false]
    obtain ⟨c, e1, e2, hc0, hcv⟩ := current_sim hc hr1 hs1
    rw [e1, e2]
    simp only []
    by_cases hcol : (c != 0x3A) = true
    · simp only [hcol, if_true]; exact giveUp
    simp only [hcol, Bool.false_eq_true, if_false]
    have hc3a : c = 0x3A := by simpa using hcol
    have hl1 : r1.spans ≠ [] := by
      intro hd
      rw [hc0.mpr hd] at hc3a
      revert hc3a; decide
    obtain ⟨b2, r2, r2', n1, n2, hr2, _, _, _, hsafe2, _⟩ := next_sim hc hr1
    have hs2 : Safe E r2 r2' := by
      apply hsafe2 hs1
      intro hl
      rw [← hcv hl, hc3a]; decide
    rw [n1, n2]
    simp only []
    obtain ⟨m1, m2⟩ := hr2.adeq hF hF'
    obtain ⟨b3, r3, r3', s1, s2, hr3, hb3⟩ := skipLinkSpace_sim hc _ _ r2 r2' hr2 hs2 m1 m2
    rw [s1, s2]
    simp only []
    cases b3 with
    | false => simp only [Bool.not_false, if_true]; exact giveUp
    | true =>
      have hl3 := hb3 rfl
      simp only [Bool.not_true, Bool.false_eq_true, if_false]
      obtain ⟨d, d', r4, r4', t1, t2, hdc⟩ := parseLinkDestination_sim hc _ _ r3 r3' hr3 (safe_of_live hl3) hF hF'
      rw [t1, t2]
      simp only []
      rcases hdc with ⟨v1, v2⟩ | ⟨hdr, hr4, hs4⟩
      · simp only [v1, v2, Bool.not_false, if_true]; exact giveUp
      simp only [hdr.valid, hdr.valid', Bool.not_true, Bool.false_eq_true, if_false]
      obtain ⟨m3, m4⟩ := hr4.adeq hF hF'
      obtain ⟨de, de', r5, r5', q1, q2, hr5, hde⟩ := readEOL_sim hc _ _ r4 r4' hr4 hs4 m3 m4
      rw [q1, q2]
      simp only []
      rw [RDS.current_eq hc.c hr5.ri, RDS.current_eq hc.c' hr5.ri']
      simp only []
      have htail := fun hde' => rdTail_sim x HD ho ih h hres hlr.start.posP (kid_label hc x hlr) (kid_dest hc x hdr)
        (destEOL := de) (destEOL' := de') hr5 hde'
      rcases hde with ⟨e1, e2, hl5, hl4⟩ | hp
      · -- no line ending behind the destination: both readers are alive
        subst e1; subst e2
        obtain ⟨c5, g1, g2, _, _⟩ := current_sim hc hr5 (safe_of_live hl5)
        have hpe := eq_sides hc (hr5.liveP hc hl5) (hr4.liveP hc hl4)
        rw [g1, g2]
        simp only []
        by_cases hcond : (decide ((-1 : Int) < 0) && r5.pos == r4.pos && c5 != 0) = true
        · have hcond' : (decide ((-1 : Int) < 0) && r5'.pos == r4'.pos && c5 != 0) = true := by
            simp only [Bool.and_eq_true, decide_eq_true_eq, beq_iff_eq, bne_iff_ne] at hcond ⊢
            refine ⟨⟨hcond.1.1, ?_⟩, hcond.2⟩
            have := hpe.mp (by omega); omega
          simp only [hcond, hcond', if_true]; exact giveUp
        · have hcond' : ¬ (decide ((-1 : Int) < 0) && r5'.pos == r4'.pos && c5 != 0) = true := by
            simp only [Bool.and_eq_true, decide_eq_true_eq, beq_iff_eq, bne_iff_ne] at hcond ⊢
            intro hh
            apply hcond
            refine ⟨⟨hh.1.1, ?_⟩, hh.2⟩
            have := hpe.mpr (by omega); omega
          simp only [hcond, hcond', Bool.false_eq_true, if_false]
          exact htail (Or.inl ⟨rfl, rfl, hl5⟩)
      · obtain ⟨n1, n2⟩ := hp.nonneg hc
        have c1 : decide (de < 0) = false := by simp only [decide_eq_false_iff_not]; omega
        have c2 : decide (de' < 0) = false := by simp only [decide_eq_false_iff_not]; omega
        simp only [c1, c2, Bool.false_and, Bool.false_eq_true, if_false]
        exact htail (Or.inr hp)

/-- **`onCloseParagraph` on both sides**, for paragraphs whose inline children are related lines. -/
theorem closePara_good (x : PExt) (HD : DRIntro E) {l l' : PLabel} {bs bs' : List PB} {is is' : List Tree}
    (hl : LR E l l') (hk : l.kind = BK.paragraph ∨ l.kind = BK.setextHeading) (hbs : L2 (BR E) bs bs')
    (hir : L2 (IR E) is is') (hpc : PC E is is')
    (horph : l.kind = BK.setextHeading → BR E (RDS.orphanOf E.src l is) (RDS.orphanOf E.src' l' is')) :
    L2 (BR E) (onCloseParagraph x E.src (.mk l bs is)) (onCloseParagraph x E.src' (.mk l' bs' is')) := by
  have hkind : l.kind ≠ BK.linkRefDef := by rcases hk with h | h <;> rw [h] <;> decide
  cases hir with
  | nil =>
    show L2 (BR E) [.mk l bs []] [.mk l' bs' []]
    apply L2.single
    rw [BR_mk]
    refine ⟨hl, hbs, ?_⟩
    unfold InlR; rw [if_neg hkind]; exact .nil
  | cons r0 t0 =>
    rename_i a a' as as'
    have hir : L2 (IR E) (a :: as) (a' :: as') := .cons r0 t0
    rw [RDS.onCloseParagraph_cons, RDS.onCloseParagraph_cons]
    have hlen : (a' :: as').length = (a :: as).length := hpc.rel.length_eq.symm
    rw [hlen]
    -- the orphans
    have ho : OR (BR E) (if l.kind == BK.setextHeading then some (RDS.orphanOf E.src l (a :: as)) else none)
        (if l'.kind == BK.setextHeading then some (RDS.orphanOf E.src' l' (a' :: as')) else none) := by
      rw [hl.kind]
      by_cases hs : (l.kind == BK.setextHeading) = true
      · rw [if_pos hs, if_pos hs]
        exact .ss (horph (by simpa using hs))
      · rw [if_neg hs, if_neg hs]
        exact .nn
    -- the initial readers
    have hnn := hpc.c.nn a List.mem_cons_self
    have hnn' := hpc.c'.nn a' List.mem_cons_self
    have hlt := (hpc.c.ok a List.mem_cons_self).1
    have hlive : LiveP (a :: as) (a' :: as') ((a.label.start.toNat : Nat) : Int) ((a'.label.start.toNat : Nat) : Int) :=
      ⟨0, 0, a, a', rfl, rfl, by omega, by omega, by omega⟩
    obtain ⟨k, t, t', g1, g2, b1, b2, b3, b4, hr⟩ := nrd_RR hpc hlive
    have hk0 : k = 0 := by
      apply Decidable.byContradiction
      intro hne
      have := sorted_idx hpc.c.sorted (show (a :: as)[0]? = some a from rfl) g1 (by omega)
      omega
    subst hk0
    have e1 : newReader (a :: as) a.label.start.toNat = nrd (a :: as) 0 a.label.start.toNat := rfl
    have e2 : newReader (a' :: as') a'.label.start.toNat = nrd (a' :: as') 0 a'.label.start.toNat := rfl
    rw [e1, e2]
    have hne : (nrd (a :: as) 0 a.label.start.toNat).spans ≠ [] := by
      show (a :: as).drop 0 ≠ []
      simp
    exact refDefLoop_sim x HD ho _ _ _ _ _ _ _ _ _ ⟨hpc, hir, hl, hkind⟩ hr hne .nil

end CM.Proofs.Quote
